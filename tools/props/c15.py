"""C15 — symmetrisation averages over mode permutations and the symmetry test is exact (DESIGN §C15).

Correspondence: pyttb.tensor.symmetrize / issymmetric (new and old version, with/without details) and ktensor.symmetrize
against the executable spec of Model/C15Sym.v on NON-symmetric integer data; the averages are exact rationals (Qc), pyttb's
floats must be within 1e-9; the symmetry test is compared exactly over Z."""
import itertools
import math
from fractions import Fraction

from vcheck import Case, gnlist, gnmat, gq, gzlist
import tgen

PROP = "C15"
LEVEL = "proof"
GEN_UNITS = ["GenUtils"]      # wave 4: Props/C15w4.v states NEW symmetrize / issymmetric over the generated tt_ind2sub / tt_sub2ind
COQ_TARGETS = ["Props/C15.vo", "Props/C15w4.vo", "Props/C15w5.vo", "Props/C15w5R.vo", "Model/C15Inst.vo", "Model/C15KLoopInst.vo", "Model/C15K.vo", "Model/C08Inst.vo",
               "Model/Harness.vo"]
THEOREM_FILES = ["Props/C15.v", "Props/C15w4.v", "Props/C15w5.v", "Props/C15w5R.v"]
COQ_IMPORTS = ("From Coq Require Import List ZArith QArith Qcanon Bool.\n"
               "From PV Require Import Base.Index Np.Array Model.Repr Model.Harness Model.C15Sym Model.C15Impl Model.C15K Model.C15KSym Model.C15Inst Model.C15KLoop Model.C15KLoopInst Model.C08Inst.\n")
RULE = ("shapes (2,3,3), (3,2,3,2), (2,3,3,2), (3,2,2,3), (2,2,2,2), (3,3,3), (2,2), (3,3), (2,2,3) ...; EVERY choice of one group "
        "(>= 2 modes of equal size) or two disjoint groups of equal length (mode sizes may differ BETWEEN groups), proper subsets "
        "included, group members also listed out of order; non-symmetric integer data, exactly symmetric data, almost-symmetric "
        "data (one entry changed by 1) and NEARLY symmetric float data (symmetric integers >= 1 with single entries moved by "
        "2^-20 absolute or by 2^-15 / 2^-16 / 2^-17 / 2^-40 relative: both sides of numpy's allclose tolerance); both versions; "
        "with/without details; every symmetrised result must pass both versions of the symmetry test. Wave 3: 1-element groups; "
        "data invariant only under a proper subgroup (cyclic / even / one exchange) of a group of >= 3 modes; tensors built from "
        "C-ordered or strided arrays, C-ordered / non-contiguous arrays assigned to .data, tensors that come out of permute(); an "
        "earlier call with other groups on another tensor of the same shape and a second call on the same object; grps as 1 x k "
        "2-D array, int32, non-contiguous view; all values scaled by 2^-30 ... 2^40; chains symmetrize -> permute -> issymmetric "
        "(mapped and other groups) -> symmetrize; Kruskal tensors of orders 2-5 with identical factors, with factors differing "
        "by column signs / scalings (several negative columns and weights), with arbitrary factors, C-ordered factors, "
        "normalize() before, symmetrize twice; wave 4: requests symmetrize must REFUSE (a group with unequal mode sizes in first / later "
        "position, a mode shared by two groups detected at the first / a later group; both versions) — AssertionError exactly where the "
        "transliteration over the generated helpers says Err; dense tensors GROWN by pyttb's own out-of-bounds assignment (element by "
        "element from an empty tensor, a corner entry / a block past the last mode: pyttb then stores C-contiguous data); integer data "
        "held as int64 / int32 / int16 / int8 / float32 arrays; "
        "ktensor.issymmetric on stored factors that are identical / differ in one entry / one column sign / shape, with and without "
        "the difference matrix; the transliteration is executed on every basic-stream input of the NEW "
        "versions and must give pyttb's tensor / boolean; wave 5: SEVERAL groups whose number differs from their length (three groups of "
        "two modes, two groups of three modes of 6-way tensors; mode sizes equal or different between the groups); stored arrays of type "
        "uint8 / uint16 / uint32 / uint64 / int8 / int16 with values at the ends of the range and logical arrays (both operations, both "
        "versions, with / without details: ordinary cases, the exact answer / average / all_diffs is the one accepted behaviour; the inputs of the "
        "repaired findings C15-N1, C15-N2 are always generated); Kruskal requests that must be refused (not cubical, receiver "
        "untouched); odd-order Kruskal tensors whose columns disagree with mode 0 in exactly two modes; the body of ktensor.symmetrize AS "
        "WRITTEN (loops with in-place updates) is executed on pyttb's normalize('all') result and must give pyttb's weights / factors and "
        "the closed form exactly; non-trivial = data not symmetric in the groups or the group is a proper subset")
CORRESPONDENCE_ONLY = ["ktensor.symmetrize: the tie of pyttb's normalize('all') to C08's model k_normalize / loops py_normalize is C08's correspondence "
                       "(here: the transliterated body is executed on pyttb's OWN normalize('all') result of every case, and that result is "
                       "checked to have the signed-copy form theorem C15_ksym_normalize_signed_copies predicts for factors with proportional "
                       "columns); the N-th root / 2-norm oracles of the end-to-end theorems are not executable over Qc",
                       "tensor.permute inside the OLD versions is modelled by its effect on subscripts (permuted X p i = X (put p i i); C07 "
                       "owns permute), accumarray / np.maximum / np.abs / np.max by their mathematical meaning",
                       "numpy / numpy_groupies primitives used by the code-level transliteration Model/C15Lin.v (np.sort on a row, fancy "
                       "indexing, aggregate) are modelled by hand, tied by executing the transliteration on the generated inputs; the "
                       "ACCUMULATOR TYPE numpy_groupies.aggregate picks is outside the model (since e313404 the code hands it result_type(dtype, float64) "
                       "data; uint64 entries above 2^24 are in the stream)",
                       "element types other than float64 (int8 ... uint64, bool, float32): the models compute over Z / Qc; the stream "
                       "compares pyttb's answers (boolean, averages, all_diffs) on such arrays with the exact ones, no exception for any element type"]
ASSUMPTIONS = ["C15_ksym_normalize_signed_copies / C15_ksym_proportional_keeps assume of the norm oracle: nrm (c . l) = nrm l * c or nrm l * (-c) "
               "(absolute homogeneity, true of every p-norm), besides C08's oracle hypotheses",
               "the average is taken in exact rational arithmetic; pyttb's float result must lie within 1e-9 relative",
               "old-version symmetrize's max-fix is modelled with a max that satisfies max a a = a (theorem C15_sym_old holds for any such max)",
               "C15_ksym_keeps assumes of the oracle 'x < 0' only: a sum of squares is not negative, and if minus a sum of squares is not "
               "negative either every term is zero (both proved for the exact test over Qc: C15_ksym_keeps_rational has no assumption)",
               "scaled inputs: pyttb's result is divided by the power of two exactly (symmetrising is homogeneous) before it is compared"]
EXPLANATION = ("Theorems (all shapes, groups, values of a commutative ring; characteristic 0 where an average is inverted): rearranging a list "
               "permutes its rearrangements (orbit argument) => the average is symmetric in every group and symmetrising is idempotent; "
               "the boolean test (adjacent exchanges, in-bounds) <=> invariance under every within-group rearrangement; pyttb's NEW "
               "symmetrize (class average incl. the short-cut) = spec at every in-bounds subscript (orbit counting); pyttb's OLD symmetrize "
               "(explicit average over the table of all combinations of within-group mode rearrangements, then the max-fix loop) = spec "
               "at every N-way subscript, hence the two versions agree; NEW and OLD issymmetric = the spec test; Kruskal tensors with "
               "identical factors are symmetric; the body of ktensor.symmetrize always returns identical factors and keeps the value of "
               "a tensor whose factors agree up to column signs. Wave 4 (Props/C15w4.v): the algorithms on the stored CONTAINER (one "
               "materialised array per group / max-fix round) return tabulate(spec), both versions the same container; the NEW bodies "
               "transliterated line by line over the translator-GENERATED tt_ind2sub / tt_sub2ind (+ accumarray, size and overlap "
               "checks -> Err) equal the container model with no hypothesis on the values, and on this transliteration: returns the "
               "average, passes the test, idempotent, keeps a symmetric tensor (same container), test exact, refusals; "
               "ktensor.issymmetric = all stored factors identical, sound, and always passed by ktensor.symmetrize's result. "
               "Wave 5 (Props/C15w5.v): ktensor.symmetrize END TO END on the code as written — Model/C15KLoop.v transliterates the method "
               "statement by statement (cubical assertion -> refusal; normalize('all') = C08's loops py_normalize; alignment loop with in-place "
               "column flips and weight toggles, the test read from the current state; V = V + fmi; V / N; odd-order repair loop): the loops "
               "EQUAL the closed form k15_core as Kruskal tensors for every input with m x R factors (C15_ksym_loop), the whole method = "
               "closed-form body after C08's normalize model (C15_ksym_code_is_model), non-cubical requests are refused, every answer has N "
               "identical factors, is symmetric in all modes and passes ktensor.issymmetric, identical factors keep their value on the code "
               "as written; factors with PROPORTIONAL columns (B.diag(c_k), scalars non-zero: scrambled signs / scalings) are turned by "
               "normalize('all') into signed copies of one matrix (C15_ksym_normalize_signed_copies; oracle: the norm is absolutely "
               "homogeneous) and keep their value (C15_ksym_proportional_keeps, C15_ksym_code_proportional_keeps). "
               "Props/C15w5R.v: every oracle hypothesis of these theorems is PROVED for the real numbers with pyttb's operations (1/x, "
               "2-norm, 0 < x, x < 0, x^(1/N)), so over R the method as written keeps the value of every Kruskal tensor with proportional "
               "columns / identical factors, answers symmetric tensors and refuses non-cubical requests with no oracle assumption (axioms: "
               "the standard library's reals). "
               "All transliterations are additionally executed and compared with the spec / with pyttb on every generated input.")


# ----------------------------------------------------------------------------------------------------------------
def group_choices(shape, ones=False):
    """every single group (>=2 modes, equal sizes) and every pair of disjoint groups of equal length;
    ones=True: also the 1-element groups [[m]] and pairs [[a],[b]] of them"""
    N = len(shape)
    singles = []
    for k in range(1 if ones else 2, N + 1):
        for g in itertools.combinations(range(N), k):
            if len({shape[m] for m in g}) == 1:
                singles.append(list(g))
    out = [[g] for g in singles]
    for a, b in itertools.combinations(singles, 2):
        if len(a) == len(b) and not set(a) & set(b):
            out.append([a, b])
    return out


def sym_int(shape, data, groups):
    """integer-valued symmetric data: SUM over all within-group rearrangements (pure python)"""
    subs = tgen.all_subs(shape)
    pos = {tuple(s): k for k, s in enumerate(subs)}
    cur = list(data)
    for g in groups:
        new = []
        for s in subs:
            tot = 0
            for p in itertools.permutations([s[m] for m in g]):
                t = list(s)
                for m, v in zip(g, p):
                    t[m] = v
                tot += cur[pos[tuple(t)]]
            new.append(tot)
        cur = new
    return cur


def is_sym(shape, data, groups):
    subs = tgen.all_subs(shape)
    pos = {tuple(s): k for k, s in enumerate(subs)}
    for g in groups:
        if len({shape[m] for m in g}) != 1:
            return False
        for s in subs:
            for a, b in zip(g, g[1:]):
                t = list(s)
                t[a], t[b] = s[b], s[a]
                if data[pos[tuple(t)]] != data[pos[tuple(s)]]:
                    return False
    return True


BUMP = Fraction(1, 2 ** 20)     # well inside np.allclose's default tolerance for entries >= 1, exactly representable


def full_data(a):
    """the exact (unscaled) input values: integers; on the entries listed in a['bump'] plus 2^-bumpk (absolute) or
    plus |value| * 2^-bumpk (a['bumprel']: relative, to sit just inside / outside numpy.allclose's rtol = 1e-5)"""
    d = [Fraction(x) for x in a["data"]]
    step = Fraction(1, 2 ** a.get("bumpk", 20))
    for k in a.get("bump") or []:
        d[k] += (abs(d[k]) if a.get("bumprel") else 1) * step
    return d


def scale_of(a):
    """the data handed to pyttb is full_data * 2^scale (exact in binary floating point); symmetrising is homogeneous, so
    pyttb's result is multiplied by 2^-scale (exactly, in rational arithmetic) before it is compared with the model"""
    return Fraction(2) ** a.get("scale", 0)


def unscale(a, vals):
    """finite observed values (ints / Fractions / 'n/d' texts) divided exactly by the scale"""
    f = scale_of(a)
    return [Fraction(x) / f for x in vals]


def preimage(shape, data, perm):
    """(shape0, data0) with tensor(data0).permute(perm) = tensor(data): result[i] = T0[j], j[perm[k]] = i[k] (pure python)"""
    N = len(shape)
    shape0 = [0] * N
    for k in range(N):
        shape0[perm[k]] = shape[k]
    pos = {tuple(s_): k for k, s_ in enumerate(tgen.all_subs(shape))}
    data0 = [data[pos[tuple(j[perm[k]] for k in range(N))]] for j in tgen.all_subs(shape0)]
    return shape0, data0


def subgroup_int(shape, data, g, kind, rng):
    """integer data invariant under a PROPER subgroup of the rearrangements of the group g (cyclic rotations, the even
    rearrangements, or one exchange) — in general not under all of them: SUM over the subgroup (pure python)"""
    k = len(g)
    if kind == "cyclic":
        H = [tuple((t + r) % k for t in range(k)) for r in range(k)]
    elif kind == "even":
        H = [p for p in itertools.permutations(range(k))
             if sum(1 for x in range(k) for y in range(x + 1, k) if p[x] > p[y]) % 2 == 0]
    else:
        x, y = rng.sample(range(k), 2)
        sw = list(range(k))
        sw[x], sw[y] = y, x
        H = [tuple(range(k)), tuple(sw)]
    subs = tgen.all_subs(shape)
    pos = {tuple(s_): n for n, s_ in enumerate(subs)}
    out = []
    for s_ in subs:
        tot = 0
        for h in H:
            t = list(s_)
            for q in range(k):
                t[g[q]] = s_[g[h[q]]]
            tot += data[pos[tuple(t)]]
        out.append(tot)
    return out


# element types of the stored array: (bits, signed) for the integer / logical types (None = a float type)
DTYPES = {"int64": (64, True), "int32": (32, True), "int16": (16, True), "int8": (8, True), "uint8": (8, False),
          "uint16": (16, False), "uint32": (32, False), "uint64": (64, False), "bool": (1, False), "float32": None, "float16": None}


def eff_dtype(a):
    """the element type build_tensor really gives the stored array (None = float64): the requested one only for plainly built
    tensors with integer data, and only when the cast changes no value (otherwise int64)"""
    dt = a.get("dtype")
    if not dt or a.get("via_perm") or a.get("layout", "F") != "F" or a.get("bump") or a.get("scale"):
        return None
    vals = [int(x) for x in a["data"]]
    info = DTYPES[dt]
    if dt == "bool":
        return dt if all(x in (0, 1) for x in vals) else "int64"
    if info is None:
        return dt if max(abs(x) for x in vals) <= 100 else "int64"
    bits, signed = info
    lo, hi = (-(2 ** (bits - 1)), 2 ** (bits - 1) - 1) if signed else (0, 2 ** bits - 1)
    return dt if all(lo <= x <= hi for x in vals) and max(abs(x) for x in vals) < 2 ** 52 else "int64"


def sym_pick(shape, data, groups):
    """symmetric data WITHOUT arithmetic (stays inside the value range of narrow element types): every entry takes the value of
    its class exemplar (subscripts sorted inside each group)"""
    subs = tgen.all_subs(shape)
    pos = {tuple(s_): k for k, s_ in enumerate(subs)}
    out = []
    for s_ in subs:
        t = list(s_)
        for g in groups:
            for m, v in zip(sorted(g), sorted(s_[m] for m in g)):
                t[m] = v
        out.append(data[pos[tuple(t)]])
    return out


LAYOUTS = ["C", "Cnocopy", "assignC", "strided", "assignview", "grow_elem", "grow_elem_rev", "grow_corner", "grow_block"]
# wave 4 (lead's input class): "grow_*" = the tensor is GROWN by pyttb's own out-of-bounds assignment (filled element by element
# from an empty ttb.tensor(), one corner entry past the last mode, a block past the last mode): pyttb then holds C-contiguous data
GROWN = ["grow_elem", "grow_elem_rev", "grow_corner", "grow_block"]


def variant(rng, shape, big):
    """how the pyttb tensor is built / what happened before: memory layout, a permute() history, an earlier call with other
    groups on another tensor of the same shape, the form of the grps argument, a power-of-two scale of all values"""
    v = {}
    r = rng.random()
    if r < 0.35:
        v["layout"] = rng.choice(LAYOUTS)
    elif r < 0.5 and len(shape) >= 2:
        p = list(range(len(shape)))
        while p == sorted(p):
            rng.shuffle(p)
        v["via_perm"] = p
    elif r < 0.7:
        # wave 4: element types other than float64 (used only where the data are integers: no bump, no scale)
        v["dtype"] = rng.choice(["int64", "int32", "int16", "int8", "float32"])
    if rng.random() < 0.3:
        others = group_choices(shape, ones=True)
        v["prior"] = [rng.choice(others) for _ in range(rng.choice([1, 2]))]
    if rng.random() < 0.3:
        v["grpform"] = rng.choice(["2d", "i32", "strided"])
    if rng.random() < 0.25:
        v["scale"] = rng.choice([-30, -24, 24, 40])
    return v


def gen_cases(rng, tier):
    big = tier == "thorough"
    shapes = [(2, 3, 3), (3, 2, 3, 2), (2, 3, 3, 2), (2, 2, 2, 2), (3, 3, 3), (2, 2), (3, 3), (2, 2, 3), (3, 3, 2), (2, 2, 2),
              (2, 3, 2), (3, 2, 2, 3)]
    if big:
        shapes += [(4, 4), (2, 4, 4), (3, 3, 3, 2), (2, 2, 2, 2, 2), (2, 3, 2, 3), (3, 2, 2)]
    cases = []
    for shape in shapes:
        n = math.prod(shape)
        for groups0 in group_choices(shape):
            proper = sum(len(g) for g in groups0) < len(shape) or len(groups0) > 1
            for rep in range(3 if big else 1):
                groups = groups0
                if rng.random() < 0.3:          # members of a group in arbitrary order, groups in arbitrary order
                    groups = [rng.sample(g, len(g)) for g in groups0]
                    rng.shuffle(groups)
                data = [rng.randint(-4, 5) for _ in range(n)]
                for version in (None, 1):
                    cases.append(Case("symmetrize", {"shape": list(shape), "data": data, "grps": groups, "version": version}, True))
                # symmetry test: non-symmetric, symmetric, almost symmetric
                sdata = sym_int(shape, [rng.randint(-2, 3) for _ in range(n)], groups)
                adata = list(sdata)
                adata[rng.randrange(n)] += 1
                # nearly symmetric float data: positive symmetric integers, one or two entries moved by 2^-20
                ndata = sym_int(shape, [rng.randint(1, 3) for _ in range(n)], groups)
                bump = sorted(rng.sample(range(n), rng.choice([1, 1, 2])))
                for version in (None, 1):
                    cases.append(Case("symmetrize", {"shape": list(shape), "data": ndata, "bump": bump, "grps": groups,
                                                     "version": version}, True))
                    if rep == 0 and rng.random() < 0.35:        # exactly symmetric input keeps its value
                        cases.append(Case("symmetrize", {"shape": list(shape), "data": sdata, "grps": groups,
                                                         "version": version}, proper))
                for d, b in ((data, None), (sdata, None), (adata, None), (ndata, bump)):
                    for version, details in ((None, False), (1, False), (None, True), (1, True)):
                        if not big and details and version == 1 and rng.random() < 0.5:
                            continue
                        arg = {"shape": list(shape), "data": d, "grps": groups, "version": version, "details": details}
                        if b is not None:
                            arg["bump"] = b
                        cases.append(Case("issymmetric", arg, proper or b is not None or not is_sym(shape, d, groups)))
        # default grps (all modes) on cubical shapes
        if len(set(shape)) == 1:
            data = [rng.randint(-4, 5) for _ in range(n)]
            for version in (None, 1):
                cases.append(Case("symmetrize", {"shape": list(shape), "data": data, "grps": None, "version": version}, True))
                cases.append(Case("issymmetric", {"shape": list(shape), "data": data, "grps": None, "version": version, "details": False}, True))
    # groups whose mode sizes differ inside the group: the test answers False (both versions), symmetrize refuses
    for shape, groups in (((2, 3, 3), [[0, 1]]), ((2, 3, 2, 3), [[0, 1], [2, 3]]), ((2, 2, 3), [[0, 1, 2]]),
                          ((3, 3, 2, 3), [[0, 1], [2, 3]])):
        n = math.prod(shape)
        data = [rng.randint(-2, 2) for _ in range(n)]
        for version, details in ((None, False), (1, False), (1, True)):
            cases.append(Case("issymmetric", {"shape": list(shape), "data": data, "grps": groups, "version": version,
                                              "details": details}, True))
    # Kruskal symmetrize: cubical shapes, ranks 1-3; symmetric inputs (identical factors, weights of either sign) and arbitrary ones
    for m, N in ((2, 2), (3, 2), (2, 3), (3, 3), (2, 4)):
        for R in (1, 2, 3):
            for kind in ("symmetric", "symmetric", "random"):
                A = [[rng.randint(-3, 3) for _ in range(R)] for _ in range(m)]
                if kind == "symmetric":
                    f = [A for _ in range(N)]
                    w = [rng.choice([-3, -2, -1, 1, 2, 3]) for _ in range(R)]
                else:
                    f = [[[rng.randint(-3, 3) for _ in range(R)] for _ in range(m)] for _ in range(N)]
                    w = [rng.choice([-2, -1, 1, 2, 3]) for _ in range(R)]
                cases.append(Case("ksymmetrize", {"w": w, "f": f, "kind": kind}, True))
    cases += gen_w3(rng, big)
    cases += gen_w4(rng, big)
    cases += gen_w5(rng, big)
    rng.shuffle(cases)          # spreads the expensive (rational) cases evenly over the coqc shards
    return cases


def gen_w4(rng, big):
    """wave 4: requests that symmetrize must refuse (AssertionError), both versions: a group whose modes have unequal sizes (as
    first group, and as a later group after an admissible one has been processed) and a mode shared by two groups (found at the
    first group, and found only at the second group of three)"""
    cases = []
    bad = [((2, 3, 3), [[0, 1]], "size"), ((2, 3, 2, 3), [[0, 1], [2, 3]], "size"), ((2, 2, 3), [[0, 1, 2]], "size"),
           ((3, 3, 2, 3), [[0, 1], [2, 3]], "size-later"), ((2, 2, 3, 2), [[1, 0], [3, 2]], "size-later"),
           ((2, 2, 2), [[0, 1], [1, 2]], "overlap"), ((3, 3, 3), [[0, 1], [0, 2]], "overlap"),
           ((2, 2, 2, 2), [[0, 1], [2, 3], [3, 0]], "overlap"), ((2, 2, 2, 2), [[0, 1], [2, 3], [3, 2]], "overlap-later"),
           ((3, 2, 2, 3), [[0, 3], [1, 2], [2, 1]], "overlap-later")]
    for shape, groups, why in bad:
        n = math.prod(shape)
        for rep in range(2 if big else 1):
            data = [rng.randint(-3, 4) for _ in range(n)]
            for version in (None, 1):
                cases.append(Case("sym_reject", {"shape": list(shape), "data": data, "grps": groups, "version": version, "why": why}, True))
    # dense tensors GROWN by assignment past the bounds (pyttb then stores C-contiguous data): proper subgroups, two groups of
    # different sizes, all modes; both versions of both operations
    for shape, groups in (((2, 3, 3), [[1, 2]]), ((2, 2, 3, 3), [[0, 1], [2, 3]]), ((3, 3), [[0, 1]]), ((3, 2, 3), [[2, 0]]),
                          ((2, 2, 2), [[0, 1, 2]]), ((2, 3, 3, 2), [[3, 0], [1, 2]])):
        n = math.prod(shape)
        for lay in (GROWN if big else rng.sample(GROWN, 3)):
            base = {"shape": list(shape), "grps": groups, "w3": 1, "layout": lay}
            data = [rng.randint(-4, 5) for _ in range(n)]
            sdata = sym_int(shape, [rng.randint(-2, 3) for _ in range(n)], groups)
            adata = list(sdata)
            adata[rng.randrange(n)] += 1
            for version in (None, 1):
                cases.append(Case("symmetrize", dict(base, data=data, version=version), True))
            cases.append(Case("symmetrize", dict(base, data=sdata, version=rng.choice([None, 1])), True))
            for d in (data, sdata, adata):
                for version, details in ((None, False), (1, False), (1, True)):
                    cases.append(Case("issymmetric", dict(base, data=d, version=version, details=details), True))
    # ktensor.issymmetric on Kruskal tensors that are NOT symmetric as stored: identical factors (True), one entry changed, one
    # column negated (the dense value may still be symmetric: the test compares the stored factors), factors of different
    # shapes, a single factor (no pair: True), orders 1-4; with and without the difference matrix; C-ordered / assigned factors
    for N in (1, 2, 3, 4):
        for m, R in ((2, 1), (2, 2), (3, 2)) + (((3, 3), (4, 2)) if big else ()):
            for kind in ("same", "entry", "colsign", "shape", "two-differ"):
                if N == 1 and kind != "same":
                    continue
                A = [[rng.randint(-3, 3) for _ in range(R)] for _ in range(m)]
                f = [[list(r) for r in A] for _ in range(N)]
                if kind == "entry":
                    k = rng.randrange(N)
                    f[k][rng.randrange(m)][rng.randrange(R)] += rng.choice([1, -1])
                elif kind == "colsign":
                    k, j = rng.randrange(N), rng.randrange(R)
                    if all(row[j] == 0 for row in A):
                        f[k][0][j] = 1
                    else:
                        f[k] = [[-x if c_ == j else x for c_, x in enumerate(row)] for row in f[k]]
                elif kind == "shape":
                    k = rng.randrange(N)
                    f[k] = f[k] + [[rng.randint(-2, 2) for _ in range(R)]]
                elif kind == "two-differ":
                    if N < 3:
                        continue
                    for k in rng.sample(range(N), 2):
                        f[k][rng.randrange(m)][rng.randrange(R)] += 1
                w = [rng.choice([-2, -1, 1, 2, 3]) for _ in range(R)]
                for diffs in (False, True):
                    cases.append(Case("kissym", {"w": w, "f": f, "kind": kind, "diffs": diffs,
                                                 "klayout": rng.choice(["F", "C", "assignC"])}, kind != "same"))
    return cases


def gen_w5(rng, big):
    """wave 5: (a) SEVERAL groups whose number differs from their length — three groups of two modes, two groups of three modes
    (6-way tensors), mode sizes equal or different between the groups, groups and members in arbitrary order; (b) element types
    with a narrow or unsigned value range and logical data (uint8 / uint16 / uint32 / uint64 / int8 / int16 / bool, values up to the
    ends of the range: a difference of two entries does not fit the type), non-symmetric / symmetric / almost symmetric, both
    versions, with and without details; (c) Kruskal requests symmetrize must refuse (not cubical) and more odd orders"""
    cases = []
    combos = [(None, False), (1, False), (None, True), (1, True)]
    multi = [((2, 2, 2, 2, 2, 2), [[0, 1], [2, 3], [4, 5]]), ((2, 2, 2, 2, 2, 2), [[0, 1, 2], [3, 4, 5]]),
             ((2, 2, 2, 2, 2, 2), [[5, 0], [4, 1], [2, 3]]), ((2, 2, 3, 3, 2, 2), [[0, 1], [2, 3], [4, 5]]),
             ((3, 2, 2, 3, 2), [[0, 3], [1, 2]]), ((2, 3, 2, 3, 2, 2), [[0, 2], [3, 1], [5, 4]]),
             ((2, 2, 2, 2, 2), [[0, 4], [1, 3]]), ((2, 2, 2, 3), [[0], [1], [2]]), ((2, 2, 2, 3), [[0, 1, 2], ]),
             ((3, 3, 3, 2, 2, 2), [[0, 1, 2], [3, 4, 5]]), ((2, 3, 2, 3, 2, 3), [[4, 0, 2], [1, 5, 3]])]
    for shape, groups0 in multi:
        n = math.prod(shape)
        for rep in range(2 if big else 1):
            groups = groups0 if rep == 0 else [rng.sample(g, len(g)) for g in rng.sample(groups0, len(groups0))]
            base = {"shape": list(shape), "grps": groups, "w3": 1}
            data = [rng.randint(-4, 5) for _ in range(n)]
            sdata = sym_pick(shape, [rng.randint(-3, 3) for _ in range(n)], groups)
            adata = list(sdata)
            adata[rng.randrange(n)] += 1
            if n <= 144:
                for version in (None, 1):
                    cases.append(Case("symmetrize", dict(base, data=data, version=version), True))
                cases.append(Case("symmetrize", dict(base, data=sdata, version=rng.choice([None, 1])), True))
            for d in (data, sdata, adata):
                for version, details in (combos if n <= 144 else combos[:2]):
                    cases.append(Case("issymmetric", dict(base, data=d, version=version, details=details), True))
    # element types
    ranges = {"uint8": (0, 255), "uint16": (0, 65535), "uint32": (0, 2 ** 32 - 1), "uint64": (0, 2 ** 40), "int8": (-128, 127),
              "int16": (-32768, 32767), "bool": (0, 1)}
    for shape, groups in (((3, 3), [[0, 1]]), ((2, 3, 3), [[1, 2]]), ((2, 2, 2), [[0, 1, 2]]), ((2, 2, 3, 3), [[0, 1], [2, 3]]),
                          ((3, 2, 3), [[2, 0]])):
        n = math.prod(shape)
        for dt in (sorted(ranges) if big else ["uint8", "bool", "int8"] + rng.sample(["uint16", "uint32", "uint64", "int16"], 1)):
            lo, hi = ranges[dt]
            def draw():
                r = rng.random()
                return lo if r < 0.15 else hi if r < 0.3 else rng.randint(lo, hi) if r < 0.7 else rng.randint(lo, min(hi, lo + 5))
            data = [draw() for _ in range(n)]
            sdata = sym_pick(shape, [draw() for _ in range(n)], groups)
            adata = list(sdata)
            k = rng.randrange(n)
            adata[k] = adata[k] + 1 if adata[k] < hi else adata[k] - 1
            base = {"shape": list(shape), "grps": groups, "w3": 1, "dtype": dt}
            for version in (None, 1):
                cases.append(Case("symmetrize", dict(base, data=data, version=version), True))
            cases.append(Case("symmetrize", dict(base, data=sdata, version=rng.choice([None, 1])), True))
            for d in (data, sdata, adata):
                for version, details in combos:
                    cases.append(Case("issymmetric", dict(base, data=d, version=version, details=details), True))
    # regression inputs of the repaired findings C15-N1 (2095b45: the old test takes its answer from array_equal and subtracts after
    # astype(float)) and C15-N2 (e313404: class sums accumulated in result_type(dtype, float64)); ordinary cases, always generated.
    # data in Fortran order: logical [[1,1],[0,1]] (= [[1.,2.],[0.,4.]] > 0.5), uint8 [[1,200],[100,4]] (true largest difference 100),
    # uint64 3x3 with entries > 2^24 that float32 cannot hold
    for dt, shape, data in (("bool", (2, 2), [1, 0, 1, 1]), ("uint8", (2, 2), [1, 100, 200, 4]),
                            ("uint64", (3, 3), [623645800123, 1099511627776, 733086958055, 971246110324, 3, 1099511627776,
                                                1099511627776, 0, 591631255773])):
        for grps in (None, [[0, 1]]):
            base = {"shape": list(shape), "grps": grps, "w3": 1, "dtype": dt}
            for version in (None, 1):
                cases.append(Case("symmetrize", dict(base, data=data, version=version), True))
            for version, details in combos:
                cases.append(Case("issymmetric", dict(base, data=data, version=version, details=details), True))
    # Kruskal tensors that are not cubical: refused by the assertion, the receiver untouched
    for sizes in ((2, 3), (3, 2), (2, 2, 3), (3, 2, 2), (2, 3, 2), (2, 2, 2, 3), (1, 2), (3, 3, 3, 1)):
        for R in ((1, 2, 3) if big else (rng.choice([1, 2]),)):
            f = [[[rng.randint(-3, 3) for _ in range(R)] for _ in range(m)] for m in sizes]
            cases.append(Case("ksym_reject", {"w": [rng.choice([-2, -1, 1, 2]) for _ in range(R)], "f": f}, True))
    # odd orders with columns that disagree with mode 0 in an EVEN number (>= 2) of the other modes (the weight must come back
    # with its sign: two toggles), and in an odd number; orders 3 and 5, negative and positive weights
    for N, m in ((3, 2), (3, 3), (5, 2)):
        for rep in range(3 if big else 2):
            R = rng.choice([1, 2, 3])
            A = [[rng.choice([-3, -2, -1, 1, 2, 3]) for _ in range(R)] for _ in range(m)]
            cs = [[1] * R] + [[rng.choice([1, -1]) for _ in range(R)] for _ in range(N - 1)]
            flips = rng.sample(range(1, N), 2)                         # component 0: exactly two modes flipped
            for k in range(1, N):
                cs[k][0] = -1 if k in flips else 1
            f = [[[x * cs[k][r] for r, x in enumerate(row)] for row in A] for k in range(N)]
            w = [rng.choice([-3, -2, 2, 3]) for _ in range(R)]
            cases.append(Case("ksymmetrize", {"w": w, "f": f, "kind": "scrambled", "klayout": "F", "pre": None}, True))
    return cases


def map_groups(groups, perm):
    """the groups of S expressed in the mode numbering of S.permute(perm) (mode k of the result is mode perm[k] of S)"""
    return [[perm.index(m) for m in g] for g in groups]


def gen_w3(rng, big):
    """wave 3: memory layouts, permute() / earlier-call histories, forms of the grps argument, power-of-two scales, 1-element
    groups, nearly symmetric data on BOTH sides of numpy.allclose's tolerance, data invariant under a proper subgroup of the
    rearrangements only, chains symmetrize -> permute -> issymmetric / symmetrize, Kruskal tensors whose factors differ by
    column signs / scalings, C-ordered factors, normalize() before and a second symmetrize() after"""
    cases = []
    shapes = [(2, 3, 3), (3, 3, 3), (2, 2, 2, 2), (2, 3, 3, 2), (3, 3), (2, 2, 3), (3, 2, 3, 2)]
    if big:
        shapes += [(2, 4, 4), (3, 3, 3, 2), (2, 2, 2, 2, 2), (4, 4), (3, 2, 2, 3)]
    combos = [(None, False), (1, False), (None, True), (1, True)]
    for shape in shapes:
        n = math.prod(shape)
        choices = group_choices(shape, ones=True)
        picks = choices * 2 if big else rng.sample(choices, min(len(choices), 5))
        for groups0 in picks:
            proper = sum(len(g) for g in groups0) < len(shape) or len(groups0) > 1
            groups = groups0
            if rng.random() < 0.5:
                groups = [rng.sample(g, len(g)) for g in groups0]
                rng.shuffle(groups)
            v = {}
            while not v:
                v = variant(rng, shape, big)
            base = {"shape": list(shape), "grps": groups, "w3": 1}
            data = [rng.randint(-4, 5) for _ in range(n)]
            sdata = sym_int(shape, [rng.randint(-2, 3) for _ in range(n)], groups)
            adata = list(sdata)
            adata[rng.randrange(n)] += 1
            # nearly symmetric, the deviation RELATIVE to the entry: 2^-17 is inside numpy.allclose's rtol = 1e-5, 2^-16 and
            # 2^-15 are outside, 2^-40 is far inside
            ndata = sym_int(shape, [rng.randint(1, 3) for _ in range(n)], groups)
            bump = sorted(rng.sample(range(n), rng.choice([1, 1, 2])))
            near = {"data": ndata, "bump": bump, "bumpk": rng.choice([15, 16, 17, 17, 40]), "bumprel": True}
            for version in (None, 1):
                cases.append(Case("symmetrize", dict(base, data=data, version=version, **v), True))
                cases.append(Case("symmetrize", dict(base, version=version, **near, **v), True))
            if rng.random() < 0.4:
                cases.append(Case("symmetrize", dict(base, data=sdata, version=rng.choice([None, 1]), **v), proper))
            for d in ({"data": data}, {"data": sdata}, {"data": adata}, near):
                for version, details in rng.sample(combos, 4 if big else 2):
                    cases.append(Case("issymmetric", dict(base, version=version, details=details, **d, **v), True))
            # data invariant under a proper subgroup of the rearrangements of a group of >= 3 modes
            for gi, g in enumerate(groups):
                if len(g) < 3:
                    continue
                for kind in ("cyclic", "even", "swap"):
                    hd = subgroup_int(shape, [rng.randint(-3, 3) for _ in range(n)], g, kind, rng)
                    for og in groups[:gi] + groups[gi + 1:]:
                        hd = sym_int(shape, hd, [og])
                    for version, details in rng.sample(combos, 4 if big else 3):
                        vv = v if rng.random() < 0.5 else {}
                        cases.append(Case("issymmetric", dict(base, data=hd, version=version, details=details, sub=kind, **vv),
                                          not is_sym(shape, hd, groups)))
            # chain: S = T.symmetrize(G) (data multiplied so that the averages are integers); P = S.permute(p);
            # P.issymmetric(G mapped to P's numbering) must answer True, other groups as the model says; P.symmetrize keeps P
            if len(shape) >= 2 and any(len(g) >= 2 for g in groups):
                perm = list(range(len(shape)))
                while perm == sorted(perm):
                    rng.shuffle(perm)
                mult = math.prod(math.factorial(len(g)) for g in groups)
                pshape = [shape[perm[k]] for k in range(len(shape))]
                mapped = map_groups(groups, perm)
                other = rng.choice(group_choices(pshape, ones=True))
                for tg in (mapped, other):
                    cases.append(Case("chain", {"shape": list(shape), "data": [mult * x for x in data], "grps": groups,
                                                "version": rng.choice([None, 1]), "perm": perm, "tgrps": tg,
                                                "tversion": rng.choice([None, 1]), "expect_true": tg is mapped}, True))
    # one more shape for the subgroup-invariant data only (a 3-mode group with mode size 3 inside a 4-way tensor)
    for shape, g in (((2, 3, 3, 3), [1, 2, 3]), ((3, 3, 2, 3), [3, 0, 1])):
        n = math.prod(shape)
        for kind in ("cyclic", "even", "swap"):
            hd = subgroup_int(shape, [rng.randint(-3, 3) for _ in range(n)], g, kind, rng)
            for version, details in combos:
                cases.append(Case("issymmetric", {"shape": list(shape), "data": hd, "grps": [g], "version": version,
                                                  "details": details, "sub": kind}, not is_sym(shape, hd, [g])))
    # Kruskal: the dense value is symmetric but the stored factors differ by column signs / scalings (several negative
    # columns and weights, orders 2-5); C-ordered factors; normalize() before; symmetrize() a second time
    for m, N in ((2, 2), (3, 2), (2, 3), (3, 3), (2, 4), (2, 5)) + (((3, 4),) if big else ()):
        for R in (1, 2, 3):
            kinds = ("scrambled", "scrambled", "symmetric", "random") if big else ("scrambled", rng.choice(["symmetric", "random", "scrambled"]))
            for kind in kinds:
                A = [[rng.randint(-3, 3) for _ in range(R)] for _ in range(m)]
                if kind == "random":
                    f = [[[rng.randint(-3, 3) for _ in range(R)] for _ in range(m)] for _ in range(N)]
                elif kind == "symmetric":
                    if R > 1 and rng.random() < 0.3:
                        z = rng.randrange(R)
                        A = [[0 if r == z else x for r, x in enumerate(row)] for row in A]
                    f = [A for _ in range(N)]
                else:
                    cs = [[rng.choice([1, -1, -1, 2, -2]) for _ in range(R)] for _ in range(N)]
                    f = [[[x * cs[k][r] for r, x in enumerate(row)] for row in A] for k in range(N)]
                w = [rng.choice([-3, -2, -1, 1, 2, 3]) for _ in range(R)]
                arg = {"w": w, "f": f, "kind": kind, "klayout": rng.choice(["F", "C", "assignC", "assignC"]),
                       "pre": rng.choice([None, None, "all", 0, "plain"])}
                cases.append(Case("ksymmetrize", arg, True))
    return cases


# ----------------------------------------------------------------------------------------------------------------
def mk_grps(np, groups, form=None):
    """the grps argument: one group as a 1-D array, several as the rows of a 2-D array (pyttb's documented forms);
    form: '2d' (one group as a 1 x k array), 'i32' (dtype int32), 'strided' (a non-contiguous view)"""
    if groups is None:
        return None
    dt = np.int32 if form == "i32" else np.int64
    arr = np.array(groups, dtype=dt)
    if len(groups) == 1 and form != "2d":
        arr = arr[0]
    if form == "strided":
        big = np.zeros(arr.shape[:-1] + (2 * arr.shape[-1],), dtype=dt)
        big[..., ::2] = arr
        arr = big[..., ::2]
    return arr


def grown_tensor(ttb, np, shape, arr, lay):
    """the tensor with the entries of arr, produced by growth through assignment past the current bounds"""
    subs = tgen.all_subs(shape)
    last = shape[-1]
    if lay in ("grow_corner", "grow_block") and last < 2:
        lay = "grow_elem"
    if lay == "grow_elem":                  # grows step by step
        T = ttb.tensor()
        for s_ in subs:
            T[tuple(s_)] = float(arr[tuple(s_)])
    elif lay == "grow_elem_rev":            # the first assignment creates the full extent
        T = ttb.tensor()
        for s_ in reversed(subs):
            T[tuple(s_)] = float(arr[tuple(s_)])
    else:
        T = ttb.tensor(np.asfortranarray(arr[..., : last - 1]), copy=True)
        if lay == "grow_corner":
            T[tuple(d - 1 for d in shape)] = float(arr[tuple(d - 1 for d in shape)])
            for s_ in subs:
                if s_[-1] == last - 1:
                    T[tuple(s_)] = float(arr[tuple(s_)])
        else:
            key = tuple(slice(0, d) for d in shape[:-1]) + (slice(last - 1, last),)
            T[key] = np.asfortranarray(arr[..., last - 1:])
    if tuple(int(d) for d in T.shape) != tuple(shape) or not np.array_equal(np.asarray(T.data), arr):
        raise RuntimeError("harness: the grown tensor does not hold the intended entries (growth by assignment misbehaves)")
    return T


def build_tensor(ttb, np, a):
    """the pyttb tensor holding full_data * 2^scale, built the way the case asks for"""
    shape = a["shape"]
    vals = [float(x * scale_of(a)) for x in full_data(a)]
    if a.get("via_perm"):
        s0, d0 = preimage(shape, vals, a["via_perm"])
        return tgen.mk_tensor(ttb, np, s0, d0).permute(np.array(a["via_perm"]))
    arr = tgen.np_dense(np, shape, vals)
    lay = a.get("layout", "F")
    if lay in GROWN:
        return grown_tensor(ttb, np, shape, arr, lay)
    pad = np.pad(arr, [(1, 2)] * len(shape), constant_values=99.0)
    view = pad[tuple(slice(1, 1 + d) for d in shape)]
    if lay == "C":
        return ttb.tensor(np.ascontiguousarray(arr), copy=True)
    if lay == "Cnocopy":
        return ttb.tensor(np.ascontiguousarray(arr), copy=False)
    if lay == "strided":
        return ttb.tensor(view, copy=False)
    if eff_dtype(a):                                   # never lets the cast change a value
        return ttb.tensor(np.asfortranarray(arr.astype(eff_dtype(a))), copy=True)
    T = tgen.mk_tensor(ttb, np, shape, vals)
    if lay == "assignC":
        T.data = np.ascontiguousarray(arr)
    elif lay == "assignview":
        T.data = np.ascontiguousarray(pad)[tuple(slice(1, 1 + d) for d in shape)]
    return T


def run_impl(c):
    import numpy as np
    import pyttb as ttb
    a = c.args
    try:
        if c.op == "ksymmetrize":
            R = len(a["w"])
            fs = [np.array(A, dtype=float).reshape((len(A), R)) for A in a["f"]]
            K = ttb.ktensor(fs, np.array(a["w"], dtype=float), copy=True)
            lay = a.get("klayout", "F")
            if lay == "C":
                K = ttb.ktensor([np.ascontiguousarray(A) for A in fs], np.array(a["w"], dtype=float), copy=False)
            elif lay == "assignC":
                for n_ in range(len(fs)):
                    K.factor_matrices[n_] = np.ascontiguousarray(fs[n_])
            pre = a.get("pre")
            if pre == "plain":
                K.normalize()
            elif pre is not None:
                K.normalize(weight_factor=pre)
            K1 = K.copy()
            K1.normalize("all")          # the first step of symmetrize, observed separately (same deterministic routine)
            S = K.symmetrize()
            out = {"ok": tgen.obs_ktensor(np, S), "issym": bool(S.issymmetric()), "k1": tgen.obs_ktensor(np, K1)}
            if "klayout" in a:
                S2 = S.symmetrize()
                out["again"] = tgen.obs_ktensor(np, S2)
                out["issym2"] = bool(S2.issymmetric())
            return out
        if c.op == "ksym_reject":
            R = len(a["w"])
            fs = [np.array(A, dtype=float).reshape((len(A), R)) for A in a["f"]]
            K = ttb.ktensor(fs, np.array(a["w"], dtype=float), copy=True)
            before = K.copy()
            try:
                S = K.symmetrize()
            except Exception as ex:
                return {"raised": type(ex).__name__, "msg": str(ex)[:200], "intact": bool(K.isequal(before))}
            return {"answered": tgen.obs_ktensor(np, S)}
        if c.op == "kissym":
            R = len(a["w"])
            fs = [np.asfortranarray(np.array(A, dtype=float).reshape((len(A), R))) for A in a["f"]]
            K = ttb.ktensor(fs, np.array(a["w"], dtype=float), copy=True)
            if a["klayout"] == "C":
                K = ttb.ktensor([np.ascontiguousarray(A) for A in fs], np.array(a["w"], dtype=float), copy=False)
            elif a["klayout"] == "assignC":
                for n_ in range(len(fs)):
                    K.factor_matrices[n_] = np.ascontiguousarray(fs[n_])
            before = [np.array(A, copy=True) for A in K.factor_matrices]
            r = K.issymmetric(return_diffs=True) if a["diffs"] else K.issymmetric()
            intact = all(x.shape == y.shape and np.array_equal(x, y) for x, y in zip(before, K.factor_matrices))
            if a["diffs"]:
                d = np.asarray(r[1])
                N = len(fs)
                return {"ok": bool(r[0]), "dshape": [int(x) for x in d.shape], "intact": intact,
                        "upper_zero": [[bool(d[i, j] == 0) for j in range(i + 1, N)] for i in range(N)],
                        "rest_zero": bool(all(d[i, j] == 0 for i in range(N) for j in range(0, i + 1)))}
            return {"ok": bool(r), "intact": intact}
        if c.op == "chain":
            T = tgen.mk_tensor(ttb, np, a["shape"], [float(x) for x in a["data"]])
            S = T.symmetrize(mk_grps(np, a["grps"]), a["version"])
            P = S.permute(np.array(a["perm"]))
            tg = mk_grps(np, a["tgrps"])
            r = bool(P.issymmetric(tg, a["tversion"]))
            out = {"S": tgen.obs_dense(np, S), "P": tgen.obs_dense(np, P), "ok": r}
            out["S3"] = tgen.obs_dense(np, P.symmetrize(tg, a["tversion"]))
            return out
        for pg in a.get("prior") or []:       # an earlier call with other groups on ANOTHER tensor of the same shape
            U = tgen.mk_tensor(ttb, np, a["shape"], [float((7 * k + 3) % 11 - 5) for k in range(math.prod(a["shape"]))])
            U.symmetrize(mk_grps(np, pg))
            U.issymmetric(mk_grps(np, pg))
            U.symmetrize(mk_grps(np, pg), 1)
        T = build_tensor(ttb, np, a)
        grps = mk_grps(np, a["grps"], a.get("grpform"))
        if c.op == "sym_reject":
            try:
                S = T.symmetrize(grps, a["version"])
            except Exception as ex:
                return {"raised": type(ex).__name__, "msg": str(ex)[:200]}
            return {"answered": tgen.obs_dense(np, S)}
        if c.op == "symmetrize":
            S = T.symmetrize(grps, a["version"]) if grps is not None else T.symmetrize(version=a["version"])
            S2 = S.copy().symmetrize(grps, a["version"]) if grps is not None else S.copy().symmetrize(version=a["version"])
            # "the result passes the symmetry test": both versions of the test, on a copy of the result
            t_new = bool(S.copy().issymmetric(grps)) if grps is not None else bool(S.copy().issymmetric())
            t_old = bool(S.copy().issymmetric(grps, 1)) if grps is not None else bool(S.copy().issymmetric(version=1))
            # a second call on the same object gives the same tensor again
            Sr = T.symmetrize(grps, a["version"]) if grps is not None else T.symmetrize(version=a["version"])
            out = {"ok": tgen.obs_dense(np, S), "again": tgen.obs_dense(np, S2), "test_new": t_new, "test_old": t_old,
                   "repeat_same": bool(S.shape == Sr.shape and np.array_equal(S.data, Sr.data))}
            # writing into the returned tensor must not change the receiver (an already symmetric receiver "keeps its value")
            before = np.array(T.data, copy=True)
            z = (0,) * S.data.ndim
            S.data[z] = 1 if S.data[z] == 0 else 0       # (a changed value that fits every element type)
            out["receiver_intact"] = bool(np.array_equal(T.data, before))
            return out
        if c.op == "issymmetric":
            r = T.issymmetric(grps, a["version"], a["details"])
            if a["details"] and isinstance(r, tuple):
                return {"ok": bool(r[0]), "ndiffs": int(np.asarray(r[1]).size), "perms_shape": [int(x) for x in np.asarray(r[2]).shape],
                        "diffs": [tgen.exact(x) for x in np.asarray(r[1]).ravel()],
                        "rows": [[int(x) for x in row] for row in np.asarray(r[2]).reshape((-1, T.ndims))],
                        "rows_integral": bool(np.all(np.asarray(r[2]) == np.round(np.asarray(r[2])))),
                        "maxdiff_zero": bool((np.asarray(r[1]) == 0).all())}
            return {"ok": bool(r), "bare": bool(a["details"])}
    except Exception as ex:
        return {"exc": type(ex).__name__, "msg": str(ex)[:200]}
    raise ValueError(c.op)


def groups_of(a):
    return a["grps"] if a["grps"] is not None else [list(range(len(a["shape"])))]


def finite(vals):
    return all(x not in ("nan", "inf", "-inf") for x in vals)


def gb(x):
    return "true" if x else "false"


def coq_check(c, o):
    a = c.args
    if "exc" in o:
        return "false"
    if c.op == "sym_reject":
        # pyttb refuses (AssertionError) exactly where the transliteration over the generated helpers says Err
        T = tgen.gqdense(a["shape"], a["data"])
        return f"q_code_rejects {T} {gnmat(a['grps'])} && {gb(o.get('raised') == 'AssertionError')}"
    if c.op == "ksym_reject":
        # pyttb refuses (AssertionError) exactly where the transliterated assertion of Model/C15KLoop.v fails
        return f"k_code_refuses {gnlist([len(A) for A in a['f']])} && {gb(o.get('raised') == 'AssertionError' and o.get('intact') is True)}"
    if c.op == "kissym":
        K = tgen.gktensor(a["w"], a["f"])
        N = len(a["f"])
        extra = ""
        if a["diffs"]:
            up = "[" + "; ".join("[" + "; ".join(gb(x) for x in row) + "]" for row in o["upper_zero"]) + "]"
            extra = f" && bmat_eqb (z_k_diffs_zero {K}) {up} && {gb(o['dshape'] == [N, N])} && {gb(o['rest_zero'])}"
        return f"Bool.eqb (z_k_issym {K}) {gb(o['ok'])} && {gb(o['intact'])}{extra}"
    if c.op == "ksymmetrize":
        ob = o["ok"]
        if not (finite(ob["weights"]) and all(finite(r) for A in ob["factors"] for r in A)):
            return "false"
        import props.c08 as c08
        O = c08.gqk(ob["weights"], ob["factors"])
        shp = gnlist([len(A) for A in a["f"]])
        # a tensor whose dense value is symmetric (identical factors, or factors differing by column signs / scalings) keeps it
        keep = f" && qk_den_close {shp} {c08.gqk(a['w'], a['f'])} O" if a["kind"] in ("symmetric", "scrambled") else ""
        again = ""
        if "again" in o:
            ob2 = o["again"]
            if not (finite(ob2["weights"]) and all(finite(r) for A in ob2["factors"] for r in A)):
                return "false"
            # (identical factors make the denoted array symmetric by theorem C15_kruskal_sym: not re-evaluated for O2)
            again = (f" && (let O2 := {c08.gqk(ob2['weights'], ob2['factors'])} in q_mats_identical (kfactors O2) && "
                     f"qk_den_close {shp} O O2 && {gb(o['issym2'])})")
        # the transliterated body of symmetrize (Model/C15K.v) applied to pyttb's own normalize("all") result reproduces pyttb's
        # weights and factors; skipped when a sign test is decided by rounding (a column inner product that is zero up to 1e-6)
        model = ""
        k1 = o.get("k1")
        if k1 and finite(k1["weights"]) and all(finite(r) for A in k1["factors"] for r in A):
            f1 = [[[Fraction(x) for x in row] for row in A] for A in k1["factors"]]
            dots = [sum(f1[0][x][j] * f1[n_][x][j] for x in range(len(f1[0]))) for n_ in range(1, len(f1)) for j in range(len(a["w"]))]
            if all(abs(d) >= Fraction(1, 10 ** 6) for d in dots):
                # wave 5: the body AS WRITTEN (Model/C15KLoop.v: in-place column flips, weight toggles, accumulation, odd-order
                # loop) is executed; it must reproduce pyttb's result and equal the closed form k15_core exactly
                model = f" && q_k15_loop_matches {c08.gqk(k1['weights'], k1['factors'])} O"
            if a["kind"] in ("symmetric", "scrambled"):     # the hypothesis of theorem C15_ksym_keeps holds for the normalised input
                model += f" && q_k15_signed_copies {c08.gqk(k1['weights'], k1['factors'])}"
        return (f"let O := {O} in negb (k_code_refuses {shp}) && q_mats_identical (kfactors O) && Nat.eqb (length (kfactors O)) {len(a['f'])} && "
                f"nvec_eqb (kshape O) {shp} && q_k_symmetric {shp} O && {gb(o['issym'])}{keep}{again}{model}")
    if c.op == "chain":
        if not all(finite(o[k]["data"]) for k in ("S", "P", "S3")):
            return "false"
        T = tgen.gqdense(a["shape"], a["data"])
        S = tgen.gqdense(o["S"]["shape"], o["S"]["data"])
        P = tgen.gqdense(o["P"]["shape"], o["P"]["data"])
        S3 = tgen.gqdense(o["S3"]["shape"], o["S3"]["data"])
        pshape = [a["shape"][m] for m in a["perm"]]
        G, TG = gnmat(a["grps"]), gnmat(a["tgrps"])
        exp = f" && {gb(o['ok'])} && q_same P S3" if a["expect_true"] else ""
        # every step against the model applied to the previous OBSERVED state: S = spec average of T (integers, exact);
        # P = S.permute(perm) entry by entry; the test on P as the spec test says (True for the mapped groups);
        # P.symmetrize(tgrps) = the spec average of P (= P for the mapped groups)
        return (f"let T := {T} in let S := {S} in let P := {P} in let S3 := {S3} in q_sym_matches T {G} S && q_issym S {G} && "
                f"q_dense_eqb P (tabulate {gnlist(pshape)} (permuted (qden S) {gnlist(a['perm'])})) && "
                f"Bool.eqb (q_issym P {TG}) {gb(o['ok'])} && q_sym_matches P {TG} S3{exp}")
    G = gnmat(groups_of(a))
    if c.op == "symmetrize":
        if not (finite(o["ok"]["data"]) and finite(o["again"]["data"])):
            return "false"
        T = tgen.gqdense(a["shape"], full_data(a))
        O = tgen.gqdense(o["ok"]["shape"], unscale(a, o["ok"]["data"]))
        O2 = tgen.gqdense(o["again"]["shape"], unscale(a, o["again"]["data"]))
        # pyttb's result = the spec average (exact rationals, 1e-9); both implementation models = the spec on this input;
        # symmetrising again changes nothing; pyttb's result is EXACTLY symmetric (spec test) and passed both pyttb tests;
        # a second call on the same object returned the same tensor
        # (the two model-only comparisons are independent of how pyttb was driven: evaluated in the basic stream only)
        # wave 4: the transliteration over the GENERATED tt_ind2sub / tt_sub2ind, executed, gives pyttb's tensor
        models = "" if a.get("w3") else f"q_impls_agree T {G} && q_sym_result_symmetric T {G} && q_code_matches T {G} O && "
        return (f"let T := {T} in let O := {O} in q_sym_matches T {G} O && {models}q_same O {O2} && "
                f"q_issym O {G} && {gb(o['test_new'])} && {gb(o['test_old'])} && {gb(o.get('repeat_same', True))} && "
                f"{gb(o.get('receiver_intact', True))}")
    if c.op == "issymmetric":
        extra = ""
        if a["details"] and "ndiffs" in o:
            cnt = sum(math.factorial(len(g)) for g in groups_of(a))
            extra = (f" && Nat.eqb {o['ndiffs']} {cnt} && nvec_eqb {gnlist(o['perms_shape'])} {gnlist([cnt, len(a['shape'])])}"
                     f" && Bool.eqb {gb(o['maxdiff_zero'])} {gb(o['ok'])}")
        if a["details"] and "diffs" in o and finite(o["diffs"]):
            # wave 4: the detail outputs themselves (all_diffs exactly, scale removed; all_perms row by row in itertools order)
            if a.get("bump"):
                dl = "[" + "; ".join(gq(x) for x in unscale(a, o["diffs"])) + "]"
                extra += f" && q_details_match T {G} {gb(o['ok'])} {dl} {gnmat(o['rows'])} && {gb(o['rows_integral'])}"
            else:
                du = unscale(a, o["diffs"])
                extra += (f" && z_details_match T {G} {gb(o['ok'])} {gzlist([int(x) for x in du])} {gnmat(o['rows'])} && "
                          f"{gb(o['rows_integral'] and all(x.denominator == 1 for x in du))}")
        elif a["details"] and o.get("bare") and not a.get("bump"):
            extra += f" && z_details_refused T {G}"        # a bare False instead of the triple: only after the size check
        if a.get("bump"):
            T = tgen.gqdense(a["shape"], full_data(a))
            return f"let T := {T} in Bool.eqb (q_issym T {G}) {gb(o['ok'])} && q_issym_impls_agree T {G} && q_code_issym_is T {G} {gb(o['ok'])}{extra}"
        T = tgen.gdense(a["shape"], a["data"])
        return f"let T := {T} in Bool.eqb (z_issym T {G}) {gb(o['ok'])} && z_issym_impls_agree T {G} && z_code_issym_is T {G} {gb(o['ok'])}{extra}"
    raise ValueError(c.op)


# ----------------------------------------------------------------------------------------------------------------
# independent brute force (pure python)
def sym_avg(shape, data, groups):
    """exact average over all within-group rearrangements, group after group (Fractions)"""
    subs = tgen.all_subs(shape)
    pos = {tuple(s_): k for k, s_ in enumerate(subs)}
    cur = [Fraction(x) for x in data]
    for g in groups:
        new = []
        for s_ in subs:
            tot = Fraction(0)
            cnt = 0
            for p_ in itertools.permutations([s_[m] for m in g]):
                t = list(s_)
                for m, v in zip(g, p_):
                    t[m] = v
                tot += cur[pos[tuple(t)]]
                cnt += 1
            new.append(tot / cnt)
        cur = new
    return cur


def oracle(c, o):
    a = c.args
    if c.op == "kissym":
        same = all(A == a["f"][0] for A in a["f"])
        if "exc" in o:
            return f"ktensor.issymmetric raised {o['exc']}"
        return None if o["ok"] == same else f"ktensor.issymmetric answered {o['ok']} on factors that are {'identical' if same else 'not identical'}"
    if c.op in ("sym_reject", "ksym_reject"):
        return None         # the property text does not speak about refusals: a mismatch here is a model / code disagreement
    if "exc" in o:
        return f"admissible request raised {o['exc']}: {o.get('msg')}"
    if c.op == "ksymmetrize":
        fs = o["ok"]["factors"]
        if any(A != fs[0] for A in fs):
            return "factors of the symmetrised Kruskal tensor are not identical"
        if not o["issym"]:
            return "result does not pass ktensor.issymmetric"
        def kden(w, f, i):
            t = Fraction(0)
            for r in range(len(w)):
                p_ = Fraction(w[r])
                for n_, A in enumerate(f):
                    p_ *= Fraction(A[i[n_]][r])
                t += p_
            return t
        if "again" in o:
            f2 = o["again"]["factors"]
            if any(A != f2[0] for A in f2) or not o["issym2"]:
                return "symmetrising the symmetrised Kruskal tensor again: factors not identical / test fails"
            for i in tgen.all_subs([len(A) for A in a["f"]]):
                x, y = kden(o["again"]["weights"], f2, i), kden(o["ok"]["weights"], fs, i)
                if abs(x - y) > Fraction(1, 10 ** 9) * max(1, abs(y)):
                    return f"symmetrising the symmetrised Kruskal tensor again changed the value at {i}: {float(x)} instead of {float(y)}"
        if a["kind"] in ("symmetric", "scrambled"):        # an input whose dense value is symmetric keeps its value
            for i in tgen.all_subs([len(A) for A in a["f"]]):
                x, y = kden(o["ok"]["weights"], fs, i), kden(a["w"], a["f"], i)
                if abs(x - y) > Fraction(1, 10 ** 9) * max(1, abs(y)):
                    return f"symmetric Kruskal tensor changed value at {i}: {float(x)} instead of {float(y)}"
        return None
    if c.op == "chain":
        shape, perm = a["shape"], a["perm"]
        avg = sym_avg(shape, a["data"], a["grps"])
        if [Fraction(x) for x in o["S"]["data"]] != avg:
            return "first step: the symmetrised tensor is not the (integer) average over the group permutations"
        pshape = [shape[m] for m in perm]
        pos = {tuple(s_): k for k, s_ in enumerate(tgen.all_subs(shape))}
        want = []
        for i in tgen.all_subs(pshape):
            j = [0] * len(shape)
            for k, m in enumerate(perm):
                j[m] = i[k]
            want.append(avg[pos[tuple(j)]])
        pd = [Fraction(x) for x in o["P"]["data"]]
        if o["P"]["shape"] != pshape or pd != want:
            return None         # permute itself misbehaves: not this property
        sym = is_sym(pshape, pd, a["tgrps"])
        if a["expect_true"] and not o["ok"]:
            return f"a tensor symmetrised over {a['grps']} and permuted by {perm} does not pass issymmetric({a['tgrps']})"
        if sym != o["ok"]:
            return f"issymmetric answered {o['ok']} on a permuted symmetrised tensor that is {'symmetric' if sym else 'not symmetric'} in {a['tgrps']}"
        avg3 = sym_avg(pshape, pd, a["tgrps"])
        for k, (w_, g_) in enumerate(zip(avg3, o["S3"]["data"])):
            if abs(Fraction(g_) - w_) > Fraction(1, 10 ** 9) * max(1, abs(w_)):
                return f"symmetrising the permuted tensor: entry {tgen.all_subs(pshape)[k]} is {float(Fraction(g_))}, the average is {float(w_)}"
        return None
    groups = groups_of(a)
    shape = a["shape"]
    data = full_data(a)
    if c.op == "issymmetric":
        want = is_sym(shape, data, groups)
        return None if want == o["ok"] else f"issymmetric answered {o['ok']}, the tensor is {'symmetric' if want else 'not symmetric'} in {groups}"
    avg = sym_avg(shape, data, groups)
    got_all = unscale(a, o["ok"]["data"])
    again = unscale(a, o["again"]["data"])
    for k, (want, got) in enumerate(zip(avg, got_all)):
        if abs(got - want) > Fraction(1, 10 ** 9) * max(1, abs(want)):
            return f"entry {tgen.all_subs(shape)[k]} is {float(got)} (scale removed), the average over the group permutations is {float(want)}"
    if any(abs(x - y) > Fraction(1, 10 ** 9) * max(1, abs(y)) for x, y in zip(again, got_all)):
        return "symmetrising twice differs from symmetrising once"
    if not is_sym(shape, got_all, groups):
        return "the symmetrised tensor is not exactly symmetric in the groups"
    if not (o["test_new"] and o["test_old"]):
        return f"the symmetrised tensor does not pass issymmetric (new version: {o['test_new']}, old version: {o['test_old']})"
    if not o.get("repeat_same", True):
        return "a second symmetrize call on the same tensor returned a different result"
    if not o.get("receiver_intact", True):
        return "writing to the returned tensor changed the receiver: the result shares its data with the (already symmetric) input"
    return None
