"""C07 — permute, reshape and squeeze are exact index maps (DESIGN §C07)."""
import itertools
import math
from vcheck import Case, gnlist, gz
import tgen

PROP = "C07"
LEVEL = "proof"
GEN_UNITS = []
COQ_TARGETS = ["Props/C07.vo", "Model/C07Harness.vo", "Model/C07Harness2.vo", "Model/Harness.vo"]
THEOREM_FILES = ["Props/C07.v"]
COQ_IMPORTS = ("From Coq Require Import List ZArith Bool.\n"
               "From PV Require Import Base.Index Base.Perm Np.Array Model.Sparse Model.Repr Model.Harness "
               "Model.C07Ops Model.C07Harness Model.C07Ops2 Model.C07Harness2.\n")
RULE = ("permute: all N! orders for N<=4 (seeded sample for N=5) on shapes with distinct sizes (2,3,4,5), repeated sizes and "
        "singletons, for dense / sparse / Kruskal (rank 0..3) / Tucker with a dense core / Tucker with a sparse core (core <= "
        "2x2x2x2, stored order sorted|reversed|random, empty core included) holders; reshape: every ordered factorisation "
        "(factors >= 2, plus variants with inserted 1s) of every element count <= 48, dense and sparse; sparse reshape of every "
        "non-empty mode subset (ascending and one shuffled order; single modes also as the documented bare int) for N<=4, each "
        "also as the round trip reshape ; reshape-back ; permute(argsort(keep ++ old)) and against the dense route "
        "permute(keep ++ old) ; reshape on the same data; reshape / squeeze through full() of Kruskal and Tucker (dense and sparse "
        "core) holders; squeeze: every shape with <= 8 cells and <= 4 modes, sparsity {0,1,some,all} (so every all-singleton "
        "shape occurs with nothing stored); a small malformed stream (non-permutations, wrong element counts). non-trivial = "
        "more than one cell, at least one nonzero and not (identity order on a cubical shape)")
EXPLANATION = ("Theorems (Props/C07.v) are over the hand-written models Model/C07Ops.v and Model/C07Ops2.v, for all N, shapes, "
               "orders and any value type (Kruskal/Tucker: any commutative ring). The correspondence stream runs pyttb and the "
               "model on the same inputs and compares shape, denotation at every subscript, well-formedness and nnz in Coq.")
CORRESPONDENCE_ONLY = []
ASSUMPTIONS = ["numpy transpose / F-order reshape / squeeze semantics as defined in Np/Array.v (np_transpose, np_reshapeF)",
               "ktensor.full / ttensor.full compute tabulate(shape, den) (proved for pyttb's algorithms under C01); C07 only "
               "uses them to route Kruskal / Tucker holders to tensor.reshape / tensor.squeeze, which pyttb does not offer on "
               "ktensor / ttensor"]


# ---------------------------------------------------------------------------------------- generators
def ordered_factorisations(n, minf=2):
    if n == 1:
        return [[]]
    out = []
    for d in range(minf, n + 1):
        if n % d == 0:
            for rest in ordered_factorisations(n // d, minf):
                out.append([d] + rest)
    return out


def with_ones(rng, f):
    f = list(f)
    for _ in range(rng.randint(1, 2)):
        f.insert(rng.randint(0, len(f)), 1)
    return f


def rand_matrix(rng, m, n, lo=-2, hi=3):
    return [[rng.randint(lo, hi) for _ in range(n)] for _ in range(m)]


def rand_sparse(rng, shp, fill=None):
    n = math.prod(shp)
    if fill is None:
        fill = rng.choice([0.0, 0.3, 0.6, 1.0])
    data = tgen.rand_dense(rng, shp, fill)
    if fill == 0.3 and n > 1 and rng.random() < 0.4:
        data = [0] * n
        data[rng.randrange(n)] = rng.choice([-2, 3])
    subs, vals = tgen.dense_to_sparse(shp, data, rng, rng.choice(["sorted", "reversed", "random"]))
    return subs, vals


PERM_SHAPES = [[3], [1], [2, 3], [3, 3], [1, 4], [1, 1], [2, 3, 4], [2, 2, 3], [3, 1, 2], [2, 2, 2], [1, 1, 3],
               [2, 3, 4, 5], [2, 3, 2, 3], [1, 2, 1, 3], [2, 1, 3, 4]]


def gen_cases(rng, tier):
    big = tier == "thorough"
    cases = []
    reps = 3 if big else 1
    # ---------------- permute, four holders
    shapes = [list(s) for s in PERM_SHAPES]
    if big:
        shapes += [tgen.rand_shape(rng, maxn=4, maxcells=96) for _ in range(10)]
    jobs = []
    for shp in shapes:
        for p in itertools.permutations(range(len(shp))):
            jobs.append((shp, list(p)))
    for shp in ([[2, 1, 3, 2, 2], [2, 3, 1, 2, 3]] if not big else [[2, 1, 3, 2, 2], [2, 3, 1, 2, 3], [3, 2, 2, 2, 2], [1, 2, 3, 4, 1]]):
        for _ in range(24 if big else 6):
            p = list(range(5))
            rng.shuffle(p)
            jobs.append((shp, p))
    for shp, p in jobs:
        n = math.prod(shp)
        ident = p == sorted(p)
        for _ in range(reps):
            data = tgen.rand_dense(rng, shp, rng.choice([0.6, 1.0]))
            nt = n > 1 and any(data) and not (ident and len(set(shp)) == 1)
            cases.append(Case("permute_d", {"shape": shp, "data": data, "p": p}, nt))
            subs, vals = rand_sparse(rng, shp)
            cases.append(Case("permute_sp", {"shape": shp, "subs": subs, "vals": vals, "p": p}, nt and bool(vals)))
            R = rng.choice([0, 1, 2, 3]) if rng.random() < 0.3 else rng.choice([2, 3])
            K = {"weights": [rng.choice([-2, -1, 1, 2, 3]) for _ in range(R)], "factors": [rand_matrix(rng, d, R) for d in shp]}
            cases.append(Case("permute_k", {"shape": shp, "K": K, "p": p}, nt and R > 0))
            cshape = [rng.randint(1, 2) for _ in shp]
            core = tgen.rand_dense(rng, cshape, rng.choice([0.5, 1.0]))
            T = {"cshape": cshape, "core": core, "factors": [rand_matrix(rng, d, c) for d, c in zip(shp, cshape)]}
            cases.append(Case("permute_t", {"shape": shp, "T": T, "p": p}, nt and any(core)))
            # Tucker holder whose core is an sptensor (ttensor.permute -> sptensor.permute on the core)
            cshape2 = [rng.randint(1, 2) for _ in shp]
            core2 = tgen.rand_dense(rng, cshape2, rng.choice([0.0, 0.4, 0.7, 1.0]))
            csubs, cvals = tgen.dense_to_sparse(cshape2, core2, rng, rng.choice(["sorted", "reversed", "random"]))
            Ts = {"cshape": cshape2, "csubs": csubs, "cvals": cvals,
                  "factors": [rand_matrix(rng, d, c) for d, c in zip(shp, cshape2)]}
            cases.append(Case("permute_st", {"shape": shp, "T": Ts, "p": p}, nt and bool(cvals)))
    # ---------------- dense / sparse reshape over every factorisation
    counts = list(range(1, 49))
    for n in counts:
        facs = ordered_factorisations(n)
        facs = [f for f in facs if len(f) <= 5] or [[n]]
        if n == 1:
            facs = [[1]]
        extra = [with_ones(rng, f) for f in rng.sample(facs, min(len(facs), 3))]
        targets = facs + extra
        for tgt in targets:
            if not tgt:
                continue
            src = list(rng.choice(facs + extra))
            if not src:
                src = [1]
            data = tgen.rand_dense(rng, src, rng.choice([0.5, 1.0]))
            nt = n > 1 and any(data) and src != tgt
            cases.append(Case("reshape_d", {"shape": src, "data": data, "new": tgt}, nt))
            if big or rng.random() < 0.7:
                subs, vals = rand_sparse(rng, src)
                cases.append(Case("reshape_sp", {"shape": src, "subs": subs, "vals": vals, "new": tgt, "old": None}, nt and bool(vals)))
    # ---------------- sparse reshape of every non-empty mode subset
    rshapes = [[6], [4, 3], [2, 3, 4], [3, 1, 2], [2, 2, 3, 2], [1, 2, 1, 3], [2, 3, 4, 2], [3, 3, 2]]
    if big:
        rshapes += [tgen.rand_shape(rng, maxn=4, maxcells=72) for _ in range(12)]
    for shp in rshapes:
        N = len(shp)
        for r in range(1, N + 1):
            for comb in itertools.combinations(range(N), r):
                orders = [list(comb)]
                if r > 1:
                    q = list(comb)
                    rng.shuffle(q)
                    orders.append(q)
                    if big:
                        orders.append(list(comb)[::-1])
                for old in orders:
                    m = math.prod(shp[k] for k in old)
                    facs = ordered_factorisations(m) if m > 1 else [[1]]
                    picks = rng.sample(facs, min(len(facs), 4 if big else 2))
                    picks.append(with_ones(rng, rng.choice(facs)))
                    for tgt in picks:
                        if not tgt:
                            tgt = [1]
                        for fill in ([0.0, 0.5, 1.0] if big else [rng.choice([0.0, 0.4, 1.0])]):
                            subs, vals = rand_sparse(rng, shp, fill)
                            nt = bool(vals) and math.prod(shp) > 1
                            cases.append(Case("reshape_sp", {"shape": shp, "subs": subs, "vals": vals, "new": tgt, "old": old}, nt))
                            # reshape ; reshape the trailing modes back ; restore the mode order  == the stored object
                            subs, vals = rand_sparse(rng, shp, fill)
                            cases.append(Case("reshape_sp_rt", {"shape": shp, "subs": subs, "vals": vals, "new": tgt, "old": old},
                                              bool(vals) and math.prod(shp) > 1))
                            # the same data as tensor and as sptensor: dense route against sparse subset reshape
                            data = tgen.rand_dense(rng, shp, fill)
                            subs, vals = tgen.dense_to_sparse(shp, data, rng, rng.choice(["sorted", "reversed", "random"]))
                            cases.append(Case("reshape_agree", {"shape": shp, "data": data, "subs": subs, "vals": vals,
                                                                "new": tgt, "old": old}, any(data) and math.prod(shp) > 1))
                if r == 1:     # the documented bare-int form of old_modes (N-C07-2, repaired): must behave like [mode]
                    m = shp[comb[0]]
                    facs = ordered_factorisations(m) if m > 1 else [[1]]
                    for tgt in [[m], with_ones(rng, rng.choice(facs))] + ([rng.choice(facs)] if len(facs) > 1 else []):
                        subs, vals = rand_sparse(rng, shp, rng.choice([0.0, 0.6, 1.0]))
                        cases.append(Case("reshape_sp", {"shape": shp, "subs": subs, "vals": vals, "new": tgt,
                                                         "old": [comb[0]], "old_int": True}, bool(vals)))
    # ---------------- squeeze
    for shp in tgen.shapes_upto(8) + ([tuple(tgen.rand_shape(rng, maxn=5, maxcells=48)) for _ in range(40)] if big else
                                      [(2, 1, 3, 1, 2), (1, 1, 1, 1, 1), (1, 5, 1), (3, 1, 1, 4)]):
        shp = list(shp)
        n = math.prod(shp)
        for fill in [0.0, 0.5, 1.0]:
            data = tgen.rand_dense(rng, shp, fill)
            nt = n > 1 and any(data) and 1 in shp
            if fill > 0:
                cases.append(Case("squeeze_d", {"shape": shp, "data": data}, nt))
            subs, vals = tgen.dense_to_sparse(shp, data, rng, rng.choice(["sorted", "reversed", "random"]))
            cases.append(Case("squeeze_sp", {"shape": shp, "subs": subs, "vals": vals}, nt))
    # ---------------- Kruskal / Tucker holders: reshape and squeeze exist only through full()
    hshapes = [[2, 3], [3, 1, 2], [2, 1, 3], [1, 4], [1, 1], [2, 2, 3], [1, 3, 1, 2], [4, 3], [1], [2, 3, 2]]
    if big:
        hshapes += [tgen.rand_shape(rng, maxn=4, maxcells=36) for _ in range(20)]
    for shp in hshapes:
        n = math.prod(shp)
        facs = ordered_factorisations(n) if n > 1 else [[1]]
        for _ in range(3 if big else 1):
            R = rng.choice([1, 2, 3])
            K = {"weights": [rng.choice([-2, -1, 1, 2, 3]) for _ in range(R)], "factors": [rand_matrix(rng, d, R) for d in shp]}
            cshape = [rng.randint(1, 2) for _ in shp]
            core = tgen.rand_dense(rng, cshape, rng.choice([0.5, 1.0]))
            T = {"cshape": cshape, "core": core, "factors": [rand_matrix(rng, d, c) for d, c in zip(shp, cshape)]}
            csubs, cvals = tgen.dense_to_sparse(cshape, core, rng, rng.choice(["sorted", "reversed", "random"]))
            Ts = {"cshape": cshape, "csubs": csubs, "cvals": cvals, "factors": T["factors"]}
            for tgt in [rng.choice(facs), with_ones(rng, rng.choice(facs))]:
                cases.append(Case("reshape_full", {"shape": shp, "holder": "k", "H": K, "new": tgt}, n > 1))
                cases.append(Case("reshape_full", {"shape": shp, "holder": "t", "H": T, "new": tgt}, n > 1 and any(core)))
                cases.append(Case("reshape_full", {"shape": shp, "holder": "st", "H": Ts, "new": tgt}, n > 1 and any(core)))
            cases.append(Case("squeeze_full", {"shape": shp, "holder": "k", "H": K}, n > 1 and 1 in shp))
            cases.append(Case("squeeze_full", {"shape": shp, "holder": "t", "H": T}, n > 1 and 1 in shp and any(core)))
            cases.append(Case("squeeze_full", {"shape": shp, "holder": "st", "H": Ts}, n > 1 and 1 in shp and any(core)))
    # ---------------- malformed stream: rejected requests must be rejected by both
    for _ in range(60 if big else 20):
        shp = tgen.rand_shape(rng, maxn=4, maxcells=24)
        N = len(shp)
        bad = [rng.randint(0, N) for _ in range(rng.choice([N, N, N + 1, max(1, N - 1)]))]
        if sorted(bad) == list(range(N)) or all(b == 1 for b in bad):
            continue        # valid, or the all-ones shortcut of tensor.permute (A-28, reported under C19)
        data = tgen.rand_dense(rng, shp, 1.0)
        subs, vals = rand_sparse(rng, shp, 0.5)
        cases.append(Case("permute_d", {"shape": shp, "data": data, "p": bad}, True))
        cases.append(Case("permute_sp", {"shape": shp, "subs": subs, "vals": vals, "p": bad}, True))
        cshape = [rng.randint(1, 2) for _ in shp]
        core = tgen.rand_dense(rng, cshape, 1.0)
        csubs, cvals = tgen.dense_to_sparse(cshape, core)
        cases.append(Case("permute_st", {"shape": shp, "p": bad, "T": {"cshape": cshape, "csubs": csubs, "cvals": cvals,
                          "factors": [rand_matrix(rng, d, c) for d, c in zip(shp, cshape)]}}, True))
        tgt = [math.prod(shp) + rng.choice([1, 2])]
        cases.append(Case("reshape_d", {"shape": shp, "data": data, "new": tgt}, True))
        cases.append(Case("reshape_sp", {"shape": shp, "subs": subs, "vals": vals, "new": tgt, "old": None}, True))
    return cases


# ---------------------------------------------------------------------------------------- pyttb side
def _mk_k(ttb, np, K, shape):
    R = len(K["weights"])
    fm = [np.array(f, dtype=float).reshape((d, R)) for f, d in zip(K["factors"], shape)]
    return ttb.ktensor([f.copy() for f in fm], np.array(K["weights"], dtype=float), copy=True)


def _mk_t(ttb, np, T, shape):
    core = tgen.mk_tensor(ttb, np, T["cshape"], T["core"])
    fm = [np.array(f, dtype=float).reshape((d, c)) for f, d, c in zip(T["factors"], shape, T["cshape"])]
    return ttb.ttensor(core, [f.copy() for f in fm], copy=True)


def _mk_st(ttb, np, T, shape):
    """Tucker holder with an sptensor core"""
    core = tgen.mk_sptensor(ttb, np, T["cshape"], T["csubs"], T["cvals"])
    fm = [np.array(f, dtype=float).reshape((d, c)) for f, d, c in zip(T["factors"], shape, T["cshape"])]
    return ttb.ttensor(core, [f.copy() for f in fm], copy=True)


def _mk_holder(ttb, np, a):
    return {"k": _mk_k, "t": _mk_t, "st": _mk_st}[a["holder"]](ttb, np, a["H"], a["shape"])


def _rs_order(N, old):
    keep = [k for k in range(N) if k not in old]
    return keep, keep + list(old)


def run_impl(c):
    import numpy as np
    import pyttb as ttb
    a = c.args
    try:
        if c.op == "permute_d":
            return {"ok": tgen.obs_dense(np, tgen.mk_tensor(ttb, np, a["shape"], a["data"]).permute(np.array(a["p"], dtype=int)))}
        if c.op == "permute_sp":
            S = tgen.mk_sptensor(ttb, np, a["shape"], a["subs"], a["vals"])
            return {"ok": tgen.obs_sparse(np, S.permute(np.array(a["p"], dtype=int)))}
        if c.op == "permute_k":
            K = _mk_k(ttb, np, a["K"], a["shape"])
            R = K.permute(np.array(a["p"], dtype=int))
            return {"ok": {"weights": [tgen.exact(x) for x in np.asarray(R.weights).ravel()],
                           "factors": [[[tgen.exact(x) for x in row] for row in np.asarray(f)] for f in R.factor_matrices]}}
        if c.op == "permute_t":
            T = _mk_t(ttb, np, a["T"], a["shape"])
            R = T.permute(np.array(a["p"], dtype=int))
            return {"ok": {"core": tgen.obs_dense(np, R.core), "factors": [tgen.obs_matrix(np, f) for f in R.factor_matrices]}}
        if c.op == "permute_st":
            T = _mk_st(ttb, np, a["T"], a["shape"])
            R = T.permute(np.array(a["p"], dtype=int))
            if not isinstance(R.core, ttb.sptensor):
                return {"exc": "CoreNotSparse", "msg": type(R.core).__name__}
            return {"ok": {"core": tgen.obs_sparse(np, R.core), "factors": [tgen.obs_matrix(np, f) for f in R.factor_matrices]}}
        if c.op == "reshape_sp_rt":
            S = tgen.mk_sptensor(ttb, np, a["shape"], a["subs"], a["vals"])
            keep, q = _rs_order(len(a["shape"]), a["old"])
            R = S.reshape(tuple(a["new"]), np.array(a["old"], dtype=int))
            R2 = R.reshape(tuple(a["shape"][k] for k in a["old"]), np.arange(len(keep), len(keep) + len(a["new"]), dtype=int))
            inv = [q.index(k) for k in range(len(q))]          # argsort(keep ++ old), by plain search
            return {"ok": tgen.obs_sparse(np, R2.permute(np.array(inv, dtype=int)))}
        if c.op == "reshape_agree":
            keep, q = _rs_order(len(a["shape"]), a["old"])
            out = {}
            try:
                D = tgen.mk_tensor(ttb, np, a["shape"], a["data"]).permute(np.array(q, dtype=int))
                out["dense"] = tgen.obs_dense(np, D.reshape(tuple([a["shape"][k] for k in keep] + list(a["new"]))))
            except Exception as ex:
                out["dense_exc"] = type(ex).__name__
            try:
                S = tgen.mk_sptensor(ttb, np, a["shape"], a["subs"], a["vals"])
                out["sparse"] = tgen.obs_sparse(np, S.reshape(tuple(a["new"]), np.array(a["old"], dtype=int)))
            except Exception as ex:
                out["sparse_exc"] = type(ex).__name__
            return out
        if c.op == "reshape_full":
            return {"ok": tgen.obs_dense(np, _mk_holder(ttb, np, a).full().reshape(tuple(a["new"])))}
        if c.op == "squeeze_full":
            R = _mk_holder(ttb, np, a).full().squeeze()
            return {"ok": tgen.obs_dense(np, R)} if isinstance(R, ttb.tensor) else {"scalar": tgen.exact(R)}
        if c.op == "reshape_d":
            return {"ok": tgen.obs_dense(np, tgen.mk_tensor(ttb, np, a["shape"], a["data"]).reshape(tuple(a["new"])))}
        if c.op == "reshape_sp":
            S = tgen.mk_sptensor(ttb, np, a["shape"], a["subs"], a["vals"])
            if a["old"] is None:
                R = S.reshape(tuple(a["new"]))
            elif a.get("old_int"):
                R = S.reshape(tuple(a["new"]), int(a["old"][0]))
            else:
                R = S.reshape(tuple(a["new"]), np.array(a["old"], dtype=int))
            return {"ok": tgen.obs_sparse(np, R)}
        if c.op == "squeeze_d":
            R = tgen.mk_tensor(ttb, np, a["shape"], a["data"]).squeeze()
            return {"ok": tgen.obs_dense(np, R)} if isinstance(R, ttb.tensor) else {"scalar": tgen.exact(R)}
        if c.op == "squeeze_sp":
            R = tgen.mk_sptensor(ttb, np, a["shape"], a["subs"], a["vals"]).squeeze()
            return {"ok": tgen.obs_sparse(np, R)} if isinstance(R, ttb.sptensor) else {"scalar": tgen.exact(R)}
    except Exception as ex:
        return {"exc": type(ex).__name__, "msg": str(ex)[:200]}
    raise ValueError(c.op)


# ---------------------------------------------------------------------------------------- model side
def _gk(K):
    return tgen.gktensor(K["weights"], K["factors"])


def _gmat_list(fs):
    return "[" + "; ".join(tgen.gmatrix(f) for f in fs) + "]"


def _gk_shaped(K, shape):
    """rank-0 factor matrices have rows of length 0: write them as d empty rows"""
    fs = [f if f else [[] for _ in range(d)] for f, d in zip(K["factors"], shape)]
    return tgen.gktensor(K["weights"], fs)


def _gmatrix(m):
    if not m:
        return "(@nil (list Z))"
    return "[" + "; ".join(tgen.gzlist(r) for r in m) + "]"


def coq_check(c, o):
    a = c.args
    exc = "exc" in o
    if c.op == "permute_d":
        T = tgen.gdense(a["shape"], a["data"])
        if not exc and not tgen.all_int(o["ok"]["data"]):
            return "false"
        obs = "None" if exc else f"(Some {tgen.gdense(o['ok']['shape'], o['ok']['data'])})"
        return f"od_ok (permute_d 0%Z {T} {gnlist(a['p'])}) {obs}"
    if c.op == "reshape_d":
        T = tgen.gdense(a["shape"], a["data"])
        if not exc and not tgen.all_int(o["ok"]["data"]):
            return "false"
        obs = "None" if exc else f"(Some {tgen.gdense(o['ok']['shape'], o['ok']['data'])})"
        return f"od_ok (reshape_d 0%Z {T} {gnlist(a['new'])}) {obs}"
    if c.op in ("permute_sp", "reshape_sp"):
        S = tgen.gsparse(a["shape"], a["subs"], a["vals"])
        if not exc:
            ob = o["ok"]
            if not tgen.all_int(ob["vals"]) or ob["nnz"] != len(ob["subs"]):
                return "false"
            obs = f"(Some {tgen.gsparse(ob['shape'], ob['subs'], ob['vals'])})"
        else:
            obs = "None"
        if c.op == "permute_sp":
            return f"os_ok (permute_sp {S} {gnlist(a['p'])}) {obs}"
        if a["old"] is None:
            return f"os_ok (reshape_sp_all {S} {gnlist(a['new'])}) {obs}"
        return f"os_ok (reshape_sp {S} {gnlist(a['new'])} {gnlist(a['old'])}) {obs}"
    if c.op == "permute_k":
        K = _gk_shaped(a["K"], a["shape"])
        if exc:
            return f"ok_ok (permute_k {K} {gnlist(a['p'])}) None"
        ob = o["ok"]
        if not tgen.all_int(ob["weights"]) or not all(tgen.all_int(r) for f in ob["factors"] for r in f):
            return "false"
        oshape = [a["shape"][k] for k in a["p"]]
        return f"ok_ok (permute_k {K} {gnlist(a['p'])}) (Some {_gk_shaped(ob, oshape)})"
    if c.op == "permute_t":
        T = a["T"]
        G = f"(mkT {tgen.gdense(T['cshape'], T['core'])} {_gmat_list(T['factors'])})"
        if exc:
            return f"ot_ok (permute_t 0%Z {G} {gnlist(a['p'])}) None"
        ob = o["ok"]
        if not tgen.all_int(ob["core"]["data"]) or not all(tgen.all_int(r) for f in ob["factors"] for r in f):
            return "false"
        O = f"(mkT {tgen.gdense(ob['core']['shape'], ob['core']['data'])} {_gmat_list(ob['factors'])})"
        return f"ot_ok (permute_t 0%Z {G} {gnlist(a['p'])}) (Some {O})"
    if c.op == "permute_st":
        T = a["T"]
        G = f"(mkST {tgen.gsparse(T['cshape'], T['csubs'], T['cvals'])} {_gmat_list(T['factors'])})"
        if exc:
            return f"ost_ok (permute_st {G} {gnlist(a['p'])}) None" if o["exc"] != "CoreNotSparse" else "false"
        ob = o["ok"]
        oc = ob["core"]
        if not tgen.all_int(oc["vals"]) or oc["nnz"] != len(oc["subs"]) or not all(tgen.all_int(r) for f in ob["factors"] for r in f):
            return "false"
        O = f"(mkST {tgen.gsparse(oc['shape'], oc['subs'], oc['vals'])} {_gmat_list(ob['factors'])})"
        return f"ost_ok (permute_st {G} {gnlist(a['p'])}) (Some {O})"
    if c.op == "reshape_sp_rt":
        S = tgen.gsparse(a["shape"], a["subs"], a["vals"])
        if exc:
            return "false"            # generated requests are admissible: the round trip must not raise
        ob = o["ok"]
        if not tgen.all_int(ob["vals"]) or ob["nnz"] != len(ob["subs"]):
            return "false"
        return (f"rt_ok {S} (reshape_sp_rt {S} {gnlist(a['new'])} {gnlist(a['old'])}) "
                f"(Some {tgen.gsparse(ob['shape'], ob['subs'], ob['vals'])})")
    if c.op == "reshape_agree":
        if "dense" not in o or "sparse" not in o:
            return "false"
        od, os_ = o["dense"], o["sparse"]
        if not tgen.all_int(od["data"]) or not tgen.all_int(os_["vals"]) or os_["nnz"] != len(os_["subs"]):
            return "false"
        T = tgen.gdense(a["shape"], a["data"])
        S = tgen.gsparse(a["shape"], a["subs"], a["vals"])
        return (f"agree_ok (reshape_d_route {T} {gnlist(a['new'])} {gnlist(a['old'])}) (Some {tgen.gdense(od['shape'], od['data'])}) "
                f"(reshape_sp {S} {gnlist(a['new'])} {gnlist(a['old'])}) (Some {tgen.gsparse(os_['shape'], os_['subs'], os_['vals'])})")
    if c.op in ("reshape_full", "squeeze_full"):
        H = a["H"]
        if a["holder"] == "k":
            F = f"(zfull_k {_gk_shaped(H, a['shape'])})"
        elif a["holder"] == "t":
            F = f"(zfull_t (mkT {tgen.gdense(H['cshape'], H['core'])} {_gmat_list(H['factors'])}))"
        else:
            F = f"(zfull_st (mkST {tgen.gsparse(H['cshape'], H['csubs'], H['cvals'])} {_gmat_list(H['factors'])}))"
        if exc:
            return "false"
        if c.op == "reshape_full":
            if not tgen.all_int(o["ok"]["data"]):
                return "false"
            return f"od_ok (reshape_d 0%Z {F} {gnlist(a['new'])}) (Some {tgen.gdense(o['ok']['shape'], o['ok']['data'])})"
        if "scalar" in o:
            return f"sqd_ok (squeeze_d 0%Z {F}) (SqScalar {gz(o['scalar'])})" if isinstance(o["scalar"], int) else "false"
        if not tgen.all_int(o["ok"]["data"]):
            return "false"
        return f"sqd_ok (squeeze_d 0%Z {F}) (SqT {tgen.gdense(o['ok']['shape'], o['ok']['data'])})"
    if c.op == "squeeze_d":
        T = tgen.gdense(a["shape"], a["data"])
        if exc:
            return "false"
        if "scalar" in o:
            return f"sqd_ok (squeeze_d 0%Z {T}) (SqScalar {gz(o['scalar'])})" if isinstance(o["scalar"], int) else "false"
        if not tgen.all_int(o["ok"]["data"]):
            return "false"
        return f"sqd_ok (squeeze_d 0%Z {T}) (SqT {tgen.gdense(o['ok']['shape'], o['ok']['data'])})"
    if c.op == "squeeze_sp":
        S = tgen.gsparse(a["shape"], a["subs"], a["vals"])
        if exc:
            return "false"
        if "scalar" in o:
            return f"sqs_ok (squeeze_sp 0%Z {S}) (SqScalar {gz(o['scalar'])})" if isinstance(o["scalar"], int) else "false"
        ob = o["ok"]
        if not tgen.all_int(ob["vals"]) or ob["nnz"] != len(ob["subs"]):
            return "false"
        return f"sqs_ok (squeeze_sp 0%Z {S}) (SqT {tgen.gsparse(ob['shape'], ob['subs'], ob['vals'])})"
    raise ValueError(c.op)


# ---------------------------------------------------------------------------------------- brute-force oracle
def _lin(shape, sub):
    k, mul = 0, 1
    for x, d in zip(sub, shape):
        k += x * mul
        mul *= d
    return k


def _unlin(shape, k):
    out = []
    for d in shape:
        out.append(k % d)
        k //= d
    return out


def _sp_dict(ob):
    d = {}
    for s, v in zip(ob["subs"], ob["vals"]):
        if tuple(s) in d:
            return None
        if v == 0:
            return None
        d[tuple(s)] = v
    return d


def _den_k(K, i):
    tot = 0
    for r, w in enumerate(K["weights"]):
        t = w
        for f, x in zip(K["factors"], i):
            t *= f[x][r]
        tot += t
    return tot


def _den_t(cshape, core, factors, i):
    tot = 0
    for j in tgen.all_subs(cshape):
        t = core[_lin(cshape, j)]
        for f, x, y in zip(factors, i, j):
            t *= f[x][y]
        tot += t
    return tot


def _den_st(cshape, cdict, factors, i):
    tot = 0
    for j, v in cdict.items():
        t = v
        for f, x, y in zip(factors, i, j):
            t *= f[x][y]
        tot += t
    return tot


def _holder_den(a, i):
    H = a["H"]
    if a["holder"] == "k":
        return _den_k(H, i)
    if a["holder"] == "t":
        return _den_t(H["cshape"], H["core"], H["factors"], i)
    return _den_st(H["cshape"], {tuple(s): v for s, v in zip(H["csubs"], H["cvals"])}, H["factors"], i)


def _valid_perm(p, N):
    return sorted(p) == list(range(N))


def oracle(c, o):
    a = c.args
    shp = a["shape"]
    N = len(shp)
    if c.op.startswith("permute"):
        p = a["p"]
        if not _valid_perm(p, N):
            return None if "exc" in o else f"invalid order {p} accepted"
        if "exc" in o:
            return f"valid order {p} rejected: {o['exc']} {o.get('msg')}"
        nshape = [shp[k] for k in p]

        def src(i):           # i indexes the result; result[i] = X[j] with j[p[k]] = i[k]
            j = [0] * N
            for k in range(N):
                j[p[k]] = i[k]
            return j
        ob = o["ok"]
        if c.op == "permute_d":
            if ob["shape"] != nshape:
                return f"shape {ob['shape']} != {nshape}"
            for i in tgen.all_subs(nshape):
                if ob["data"][_lin(nshape, i)] != a["data"][_lin(shp, src(i))]:
                    return f"entry {i} of the result is not entry {src(i)} of the argument"
            return None
        if c.op == "permute_sp":
            d = _sp_dict(ob)
            din = {tuple(s): v for s, v in zip(a["subs"], a["vals"])}
            if d is None or ob["shape"] != nshape or ob["nnz"] != len(din):
                return "result ill-formed / wrong shape / wrong nnz"
            for i in tgen.all_subs(nshape):
                if d.get(tuple(i), 0) != din.get(tuple(src(i)), 0):
                    return f"entry {i} of the result is not entry {src(i)} of the argument"
            return None
        if c.op == "permute_k":
            if [len(f) for f in ob["factors"]] != nshape:
                return "wrong shape"
            for i in tgen.all_subs(nshape):
                if _den_k(ob, i) != _den_k(a["K"], src(i)):
                    return f"entry {i} of the result is not entry {src(i)} of the argument"
            return None
        if c.op == "permute_st":
            if [len(f) for f in ob["factors"]] != nshape:
                return "wrong shape"
            T = a["T"]
            din = {tuple(s): v for s, v in zip(T["csubs"], T["cvals"])}
            d = _sp_dict(ob["core"])
            if d is None or ob["core"]["nnz"] != len(din) or ob["core"]["shape"] != [T["cshape"][k] for k in p]:
                return "core ill-formed / wrong core shape / wrong nnz"
            for i in tgen.all_subs(nshape):
                if _den_st(ob["core"]["shape"], d, ob["factors"], i) != _den_st(T["cshape"], din, T["factors"], src(i)):
                    return f"entry {i} of the result is not entry {src(i)} of the argument"
            return None
        if c.op == "permute_t":
            if [len(f) for f in ob["factors"]] != nshape:
                return "wrong shape"
            T = a["T"]
            for i in tgen.all_subs(nshape):
                if _den_t(ob["core"]["shape"], ob["core"]["data"], ob["factors"], i) != _den_t(T["cshape"], T["core"], T["factors"], src(i)):
                    return f"entry {i} of the result is not entry {src(i)} of the argument"
            return None
    if c.op == "reshape_d":
        if math.prod(a["new"]) != math.prod(shp):
            return None if "exc" in o else "element count changed but request accepted"
        if "exc" in o:
            return f"admissible reshape rejected: {o['exc']} {o.get('msg')}"
        if o["ok"]["shape"] != a["new"] or o["ok"]["data"] != a["data"]:
            return "F-order value list or shape differs"
        return None
    if c.op == "reshape_sp":
        old = a["old"] if a["old"] is not None else list(range(N))
        keep = [k for k in range(N) if k not in old]
        oshape = [shp[k] for k in old]
        if math.prod(a["new"]) != math.prod(oshape):
            return None if "exc" in o else "element count changed but request accepted"
        if "exc" in o:
            return f"admissible reshape rejected: {o['exc']} {o.get('msg')}"
        ob = o["ok"]
        nshape = [shp[k] for k in keep] + a["new"]
        d = _sp_dict(ob)
        din = {tuple(s): v for s, v in zip(a["subs"], a["vals"])}
        if d is None or ob["shape"] != nshape or ob["nnz"] != len(din):
            return "result ill-formed / wrong shape / wrong nnz"
        want = {}
        for s, v in din.items():
            t = [s[k] for k in keep] + _unlin(a["new"], _lin(oshape, [s[k] for k in old]))
            want[tuple(t)] = v
        return None if want == d else "an entry did not move to kept ++ ind2sub(new, sub2ind(old))"
    if c.op == "reshape_sp_rt":
        if "exc" in o:
            return f"round trip of an admissible subset reshape raised: {o['exc']} {o.get('msg')}"
        d = _sp_dict(o["ok"])
        din = {tuple(s): v for s, v in zip(a["subs"], a["vals"])}
        if d is None or o["ok"]["shape"] != shp or d != din:
            return "reshape ; reshape back ; restore mode order did not return the original tensor"
        return None
    if c.op == "reshape_agree":
        old = a["old"]
        keep = [k for k in range(N) if k not in old]
        oshape = [shp[k] for k in old]
        nshape = [shp[k] for k in keep] + a["new"]
        want = [0] * math.prod(nshape)
        for s in tgen.all_subs(shp):
            t_ = [s[k] for k in keep] + _unlin(a["new"], _lin(oshape, [s[k] for k in old]))
            want[_lin(nshape, t_)] = a["data"][_lin(shp, s)]
        if "dense" not in o or "sparse" not in o:
            return f"admissible request raised: {o.get('dense_exc')} / {o.get('sparse_exc')}"
        d = _sp_dict(o["sparse"])
        if d is None or o["sparse"]["shape"] != nshape:
            return "sparse result ill-formed / wrong shape"
        got = [d.get(tuple(i), 0) for i in tgen.all_subs(nshape)]
        if got != want:
            return "sparse subset reshape: an entry did not move to kept ++ ind2sub(new, sub2ind(old))"
        if o["dense"]["shape"] != nshape or o["dense"]["data"] != want:
            return "dense route permute(keep ++ old).reshape(kept ++ new) differs from the index formula"
        return None
    if c.op == "reshape_full":
        if "exc" in o:
            return f"reshape of full() raised {o['exc']}: {o.get('msg')}"
        want = [_holder_den(a, i) for i in tgen.all_subs(shp)]
        if o["ok"]["shape"] != a["new"] or o["ok"]["data"] != want:
            return "reshape of full(): F-order value list or shape differs from the holder's entries"
        return None
    if c.op == "squeeze_full":
        if "exc" in o:
            return f"squeeze of full() raised {o['exc']}: {o.get('msg')}"
        want = [_holder_den(a, i) for i in tgen.all_subs(shp)]
        nshape = [d for d in shp if d > 1]
        if not nshape:
            return None if o.get("scalar") == want[0] else "scalar result differs from the single entry"
        if "ok" not in o or o["ok"]["shape"] != nshape or o["ok"]["data"] != want:
            return "squeeze of full() differs from the holder's entries"
        return None
    if c.op in ("squeeze_d", "squeeze_sp"):
        if "exc" in o:
            return f"squeeze raised {o['exc']}: {o.get('msg')}"
        keepi = [k for k, d in enumerate(shp) if d > 1]
        nshape = [shp[k] for k in keepi]
        if c.op == "squeeze_d":
            if not keepi:
                return None if o.get("scalar") == a["data"][0] else "scalar result differs from the single entry"
            if "ok" not in o or o["ok"]["shape"] != nshape or o["ok"]["data"] != a["data"]:
                return "squeezed tensor differs"
            return None
        din = {tuple(s): v for s, v in zip(a["subs"], a["vals"])}
        if not keepi:
            want = din.get(tuple([0] * N), 0)
            return None if o.get("scalar") == want else "scalar result differs from the single entry"
        if "ok" not in o:
            return "tensor expected"
        d = _sp_dict(o["ok"])
        want = {tuple(s[k] for k in keepi): v for s, v in din.items()}
        if d is None or o["ok"]["shape"] != nshape or d != want:
            return "squeezed sparse tensor differs"
        return None
    return None


# ---------------------------------------------------------------------------------------- known findings
# none open.  N-C07-1 (squeeze of an empty all-singleton sptensor) and N-C07-2 (int old_modes) are repaired in /repo;
# their input classes stay in the stream (squeeze_sp over every all-singleton shape with fill 0; reshape_sp with
# "old_int") and are no longer attributed: a regression is reported as a VIOLATION.
