(* Base/Sum.v — finite sums over an arbitrary commutative ring. Stdlib only. *)
From Coq Require Import List Arith Lia Bool Permutation Ring.
Import ListNotations.

Section Sum.
Variable V : Type.
Variables (v0 v1 : V) (vadd vmul vsub : V -> V -> V) (vopp : V -> V).
Hypothesis Vring : ring_theory v0 v1 vadd vmul vsub vopp (@eq V).
Add Ring Vr : Vring.

Notation "x + y" := (vadd x y).
Notation "x * y" := (vmul x y).

Fixpoint sumv (l : list V) : V := match l with [] => v0 | x :: l' => x + sumv l' end.
Definition sum_over {A} (l : list A) (f : A -> V) : V := sumv (map f l).
Definition sum_n (n : nat) (f : nat -> V) : V := sum_over (seq 0 n) f.
Fixpoint prodv (l : list V) : V := match l with [] => v1 | x :: l' => x * prodv l' end.

Lemma sumv_app l1 l2 : sumv (l1 ++ l2) = sumv l1 + sumv l2.
Proof. induction l1 as [|x l1 IH]; cbn; [ring|]. rewrite IH. ring. Qed.

Lemma sum_over_app {A} (l1 l2 : list A) f : sum_over (l1 ++ l2) f = sum_over l1 f + sum_over l2 f.
Proof. unfold sum_over. now rewrite map_app, sumv_app. Qed.

Lemma sum_over_cons {A} (a : A) l f : sum_over (a :: l) f = f a + sum_over l f.
Proof. reflexivity. Qed.

Lemma sum_over_nil {A} (f : A -> V) : sum_over [] f = v0.
Proof. reflexivity. Qed.

Lemma sum_over_ext {A} (l : list A) f g : (forall a, In a l -> f a = g a) -> sum_over l f = sum_over l g.
Proof. intros H. unfold sum_over. f_equal. now apply map_ext_in. Qed.

Lemma sum_over_zero {A} (l : list A) f : (forall a, In a l -> f a = v0) -> sum_over l f = v0.
Proof.
  induction l as [|a l IH]; intros H; [reflexivity|]. rewrite sum_over_cons.
  rewrite (H a) by (cbn; auto). rewrite IH by (intros; apply H; cbn; auto). ring.
Qed.

Lemma sum_over_add {A} (l : list A) f g : sum_over l (fun a => f a + g a) = sum_over l f + sum_over l g.
Proof. induction l as [|a l IH]; [cbn; ring|]. rewrite !sum_over_cons, IH. ring. Qed.

Lemma sum_over_scale_l {A} (l : list A) c f : sum_over l (fun a => c * f a) = c * sum_over l f.
Proof. induction l as [|a l IH]; [cbn; ring|]. rewrite !sum_over_cons, IH. ring. Qed.

Lemma sum_over_scale_r {A} (l : list A) c f : sum_over l (fun a => f a * c) = sum_over l f * c.
Proof. induction l as [|a l IH]; [cbn; ring|]. rewrite !sum_over_cons, IH. ring. Qed.

Lemma sum_over_perm {A} (l l' : list A) f : Permutation l l' -> sum_over l f = sum_over l' f.
Proof.
  induction 1 as [|a l l' _ IH|a b l|l l' l'' _ IH1 _ IH2]; auto.
  - rewrite !sum_over_cons, IH. ring.
  - rewrite !sum_over_cons. ring.
  - congruence.
Qed.

Lemma sum_over_swap {A B} (la : list A) (lb : list B) (f : A -> B -> V) :
  sum_over la (fun a => sum_over lb (fun b => f a b)) =
  sum_over lb (fun b => sum_over la (fun a => f a b)).
Proof.
  induction la as [|a la IH].
  - cbn. symmetry. apply sum_over_zero. reflexivity.
  - rewrite sum_over_cons, IH.
    rewrite <- sum_over_add. apply sum_over_ext. intros b _. now rewrite sum_over_cons.
Qed.

Lemma sum_over_map {A B} (g : A -> B) (l : list A) (f : B -> V) :
  sum_over (map g l) f = sum_over l (fun a => f (g a)).
Proof. unfold sum_over. now rewrite map_map. Qed.

(* a sum whose summand vanishes off one index *)
Lemma sum_over_single {A} (l : list A) (j : A) (f : A -> V) :
  NoDup l -> In j l -> (forall a, In a l -> a <> j -> f a = v0) -> sum_over l f = f j.
Proof.
  induction l as [|a l IH]; intros Hn Hin Hz; [contradiction|].
  inversion Hn as [|? ? Ha Hn']; subst. rewrite sum_over_cons.
  destruct Hin as [->|Hin].
  - rewrite sum_over_zero; [ring|]. intros b Hb. apply Hz; [cbn; auto|]. intros ->. contradiction.
  - rewrite IH; auto.
    + rewrite Hz; [ring|cbn; auto|]. intros ->. contradiction.
    + intros b Hb Hne. apply Hz; cbn; auto.
Qed.

Lemma sum_over_absent {A} (l : list A) (f : A -> V) :
  (forall a, In a l -> f a = v0) -> sum_over l f = v0.
Proof. apply sum_over_zero. Qed.

Lemma sum_n_S n f : sum_n (S n) f = sum_n n f + f n.
Proof.
  unfold sum_n. rewrite seq_S. rewrite sum_over_app. cbn. ring.
Qed.

Lemma sum_n_ext n f g : (forall k, k < n -> f k = g k) -> sum_n n f = sum_n n g.
Proof. intros H. apply sum_over_ext. intros k Hk. apply in_seq in Hk. apply H. lia. Qed.

Lemma seq_as_map a n : seq a n = map (Nat.add a) (seq 0 n).
Proof.
  revert a; induction n as [|n IH]; intros a; [reflexivity|].
  cbn [seq map]. rewrite Nat.add_0_r. f_equal.
  rewrite <- (seq_shift n 0), map_map, (IH (S a)). apply map_ext. intros k. lia.
Qed.

Lemma sum_over_seq_shift a n f : sum_over (seq a n) f = sum_n n (fun k => f (Nat.add a k)).
Proof. unfold sum_n. now rewrite seq_as_map, sum_over_map. Qed.

(* sum over 0..a*b-1 = iterated sum, first index fastest *)
Lemma sum_n_mul a b f :
  sum_n (a * b) f = sum_n b (fun j => sum_n a (fun i => f (Nat.add i (Nat.mul a j)))).
Proof.
  induction b as [|b IH].
  - rewrite Nat.mul_0_r. reflexivity.
  - rewrite sum_n_S, <- IH.
    replace (Nat.mul a (S b)) with (Nat.add (Nat.mul a b) a) by lia.
    unfold sum_n at 1. rewrite seq_app, sum_over_app. f_equal.
    cbn [Nat.add]. rewrite sum_over_seq_shift. apply sum_n_ext. intros k _. f_equal. lia.
Qed.

Lemma prodv_app l1 l2 : prodv (l1 ++ l2) = prodv l1 * prodv l2.
Proof. induction l1 as [|x l1 IH]; cbn; [ring|]. rewrite IH. ring. Qed.

End Sum.

Arguments sumv {V} v0 vadd l.
Arguments sum_over {V} v0 vadd {A} l f.
Arguments sum_n {V} v0 vadd n f.
Arguments prodv {V} v1 vmul l.
