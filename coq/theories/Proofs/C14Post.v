(* Proofs/C14Post.v — the post-processing shared by the nvecs methods, for ANY solver output (w, V):
   v[:, argsort(-|w|)][:, :r] returns the r columns with the largest |w| in decreasing order, and the flip loop makes
   the entry of largest magnitude of every column non-negative.  Real numbers (stdlib Reals). *)
From Coq Require Import List Arith Lia Bool Reals Lra Permutation Sorted.
From PV Require Import Np.NpR Model.C14Nvecs.
Import ListNotations.
Local Open Scope R_scope.

Notation ins := (ins_desc Rltb).
Notation sortd := (sort_desc Rltb).
Definition ge_key (p q : R * nat) : Prop := fst q <= fst p.

Lemma ins_perm p l : Permutation (ins p l) (p :: l).
Proof.
  induction l as [|q r IH]; cbn; [apply Permutation_refl|].
  destruct (Rltb (fst p) (fst q)); [|apply Permutation_refl].
  eapply Permutation_trans; [apply perm_skip, IH|apply perm_swap].
Qed.

Lemma ins_sorted p l : StronglySorted ge_key l -> StronglySorted ge_key (ins p l).
Proof.
  induction 1 as [|q r Hs IH Hf]; cbn; [repeat constructor|].
  destruct (Rltb (fst p) (fst q)) eqn:E.
  - apply Rltb_true in E. constructor; auto.
    apply (Permutation_Forall (Permutation_sym (ins_perm p r))). constructor; auto. unfold ge_key. lra.
  - apply Rltb_false in E. constructor; [constructor; auto|].
    constructor; [unfold ge_key; lra|]. eapply Forall_impl; [|exact Hf]. unfold ge_key. intros x Hx. lra.
Qed.

Lemma sortd_perm l : Permutation (sortd l) l.
Proof.
  induction l as [|p l IH]; cbn; [constructor|].
  eapply Permutation_trans; [apply ins_perm|]. now apply perm_skip.
Qed.

Lemma sortd_sorted l : StronglySorted ge_key (sortd l).
Proof. induction l as [|p l IH]; cbn; [constructor|]. now apply ins_sorted. Qed.

Definition keyed_from (w : list R) (off : nat) : list (R * nat) := combine (map Rabs w) (seq off (length w)).

Lemma keyed_from_in w : forall off x k, In (x, k) (keyed_from w off) ->
  (off <= k < off + length w)%nat /\ x = Rabs (nth (k - off) w 0).
Proof.
  induction w as [|y w IH]; intros off x k H; [contradiction|].
  unfold keyed_from in H. cbn in H. destruct H as [H|H].
  - inversion H; subst. split; [cbn; lia|]. now rewrite Nat.sub_diag.
  - apply IH in H. destruct H as [H1 H2]. split; [cbn; lia|].
    rewrite H2. replace (k - off)%nat with (S (k - S off)) by lia. reflexivity.
Qed.

Lemma keyed_from_snd w : forall off, map snd (keyed_from w off) = seq off (length w).
Proof. induction w as [|y w IH]; intros off; [reflexivity|]. unfold keyed_from. cbn. f_equal. apply IH. Qed.

Lemma keyed_in w p : In p (keyed Rabs w) -> fst p = Rabs (nth (snd p) w 0).
Proof.
  destruct p as [x k]. intros H. change (keyed Rabs w) with (keyed_from w 0) in H.
  apply keyed_from_in in H. destruct H as [_ H]. cbn. now rewrite Nat.sub_0_r in H.
Qed.

Definition desc_abs (w : list R) (i j : nat) : Prop := Rabs (nth j w 0) <= Rabs (nth i w 0).

Theorem argsort_perm w : Permutation (argsort_desc_abs Rabs Rltb w) (seq 0 (length w)).
Proof.
  unfold argsort_desc_abs. rewrite <- (keyed_from_snd w 0). apply Permutation_map. apply sortd_perm.
Qed.

Lemma sorted_map_snd w l : (forall p, In p l -> fst p = Rabs (nth (snd p) w 0)) ->
  StronglySorted ge_key l -> StronglySorted (desc_abs w) (map snd l).
Proof.
  intros Hk. induction 1 as [|p l Hs IH Hf]; cbn; constructor.
  - apply IH. intros q Hq. apply Hk. now right.
  - apply Forall_forall. intros k Hin. apply in_map_iff in Hin. destruct Hin as (q & <- & Hq).
    rewrite Forall_forall in Hf. specialize (Hf q Hq). unfold ge_key in Hf. unfold desc_abs.
    rewrite <- (Hk q) by (now right). rewrite <- (Hk p) by (now left). exact Hf.
Qed.

Theorem argsort_sorted w : StronglySorted (desc_abs w) (argsort_desc_abs Rabs Rltb w).
Proof.
  unfold argsort_desc_abs. apply sorted_map_snd; [|apply sortd_sorted].
  intros p Hp. apply keyed_in. eapply Permutation_in; [apply sortd_perm|exact Hp].
Qed.

Lemma in_skipn_in {A} (x : A) n : forall l, In x (skipn n l) -> In x l.
Proof. induction n as [|n IH]; intros [|a l] H; cbn in *; auto. Qed.

Lemma sorted_split {A} (Rr : A -> A -> Prop) (l : list A) r :
  StronglySorted Rr l -> forall x y, In x (firstn r l) -> In y (skipn r l) -> Rr x y.
Proof.
  intros H; revert r; induction H as [|a l Hs IH Hf]; intros r x y Hx Hy.
  - rewrite firstn_nil in Hx. contradiction.
  - destruct r as [|r]; [contradiction|]. cbn in Hx, Hy. destruct Hx as [->|Hx].
    + rewrite Forall_forall in Hf. apply Hf. eapply in_skipn_in. exact Hy.
    + eapply IH; eauto.
Qed.

(* ---- argmax of |.| and the sign flip *)
Lemma argmax_from_spec c : forall (pre : list R) best bv k,
  length pre = k -> (best < k)%nat -> bv = Rabs (nth best (pre ++ c) 0) ->
  (forall j, (j < k)%nat -> Rabs (nth j (pre ++ c) 0) <= bv) ->
  let i := argmax_from Rabs Rltb best bv k c in
  (i < length (pre ++ c))%nat /\ forall j, Rabs (nth j (pre ++ c) 0) <= Rabs (nth i (pre ++ c) 0).
Proof.
  induction c as [|x c IH]; intros pre best bv k Hl Hb Hbv Hall; cbn [argmax_from].
  - split; [rewrite app_nil_r in *; lia|]. intros j. rewrite <- Hbv.
    destruct (Nat.lt_ge_cases j k) as [Hj|Hj]; auto.
    rewrite (nth_overflow (pre ++ [])) by (rewrite app_nil_r; lia). rewrite Rabs_R0. rewrite Hbv. apply Rabs_pos.
  - assert (Hx : nth k (pre ++ x :: c) 0 = x) by (rewrite app_nth2 by lia; now replace (k - length pre)%nat with 0%nat by lia).
    assert (Happ : pre ++ x :: c = (pre ++ [x]) ++ c) by (now rewrite <- app_assoc).
    destruct (Rltb bv (Rabs x)) eqn:E.
    + apply Rltb_true in E. rewrite Happ. apply IH.
      * rewrite app_length. cbn. lia.
      * lia.
      * rewrite <- Happ. now rewrite Hx.
      * intros j Hj. rewrite <- Happ. destruct (Nat.eq_dec j k) as [->|Hne]; [rewrite Hx; lra|].
        specialize (Hall j ltac:(lia)). lra.
    + apply Rltb_false in E. rewrite Happ. apply IH.
      * rewrite app_length. cbn. lia.
      * lia.
      * now rewrite <- Happ.
      * intros j Hj. rewrite <- Happ. destruct (Nat.eq_dec j k) as [->|Hne]; [rewrite Hx; lra|].
        apply Hall. lia.
Qed.

Theorem argmax_abs_spec (c : list R) : forall j, Rabs (nth j c 0) <= Rabs (nth (argmax_abs Rabs Rltb c) c 0).
Proof.
  destruct c as [|x c]; intros j.
  - cbn. destruct j; cbn; lra.
  - unfold argmax_abs. apply (argmax_from_spec c [x] 0%nat (Rabs x) 1%nat); auto.
    intros j' Hj'. assert (j' = 0)%nat as -> by lia. cbn. lra.
Qed.

Lemma nth_map_opp c : forall j, nth j (map Ropp c) 0 = - nth j c 0.
Proof. induction c as [|x c IH]; intros [|j]; cbn; try lra; auto. Qed.

(* after the flip the entry at the position of largest magnitude is non-negative and dominates every entry in
   magnitude; the column is unchanged or negated as a whole *)
Theorem flip_col_spec (c : list R) :
  let c' := flip_col 0 Rabs Ropp Rltb c in
  let i := argmax_abs Rabs Rltb c in
  (c' = c \/ c' = map Ropp c) /\ 0 <= nth i c' 0 /\ forall j, Rabs (nth j c' 0) <= nth i c' 0.
Proof.
  cbv zeta. unfold flip_col. pose proof (argmax_abs_spec c) as Hmax.
  set (i := argmax_abs Rabs Rltb c) in *.
  destruct (Rltb (nth i c 0) 0) eqn:E.
  - apply Rltb_true in E. split; [now right|]. rewrite nth_map_opp. split; [lra|].
    intros j. rewrite nth_map_opp, Rabs_Ropp. specialize (Hmax j). rewrite (Rabs_left (nth i c 0)) in Hmax by lra. exact Hmax.
  - apply Rltb_false in E. split; [now left|]. split; [lra|].
    intros j. specialize (Hmax j). rewrite (Rabs_right (nth i c 0)) in Hmax by lra. exact Hmax.
Qed.

(* ---- the whole post-processing, for any solver output *)
Theorem postprocess_spec (w : list R) (cols : list (list R)) (r : nat) :
  let p := argsort_desc_abs Rabs Rltb w in
  Permutation p (seq 0 (length w)) /\
  StronglySorted (desc_abs w) p /\
  (forall k k', In k (firstn r p) -> In k' (skipn r p) -> Rabs (nth k' w 0) <= Rabs (nth k w 0)) /\
  postprocess 0 Rabs Ropp Rltb w cols r false = map (fun k => nth k cols []) (firstn r p) /\
  postprocess 0 Rabs Ropp Rltb w cols r true = map (fun k => flip_col 0 Rabs Ropp Rltb (nth k cols [])) (firstn r p) /\
  length (postprocess 0 Rabs Ropp Rltb w cols r true) = Nat.min r (length w).
Proof.
  cbv zeta. repeat split.
  - apply argsort_perm.
  - apply argsort_sorted.
  - intros k k' Hk Hk'. exact (sorted_split (desc_abs w) _ r (argsort_sorted w) k k' Hk Hk').
  - unfold postprocess, select_cols. now rewrite map_map.
  - unfold postprocess, select_cols. rewrite !map_length, firstn_length.
    now rewrite (Permutation_length (argsort_perm w)), seq_length.
Qed.

Example postprocess_example :
  argsort_desc_abs Rabs Rltb [1; -5; 3] = [1; 2; 0]%nat /\
  flip_col 0 Rabs Ropp Rltb [1; -2] = [-1; 2].
Proof.
  assert (A1 : Rabs 1 = 1) by (apply Rabs_right; lra).
  assert (A5 : Rabs (-5) = 5) by (rewrite Rabs_left; lra).
  assert (A3 : Rabs 3 = 3) by (apply Rabs_right; lra).
  assert (A2 : Rabs (-2) = 2) by (rewrite Rabs_left; lra).
  split.
  - unfold argsort_desc_abs, keyed, sort_desc. cbn [map length seq combine fold_right ins_desc fst snd].
    rewrite A1, A5, A3. cbn [ins_desc fst].
    assert (H1 : Rltb 5 3 = false) by (apply Rltb_false; lra).
    assert (H2 : Rltb 1 5 = true) by (apply Rltb_true; lra).
    assert (H3 : Rltb 1 3 = true) by (apply Rltb_true; lra).
    rewrite H1. cbn [ins_desc fst]. rewrite H2. cbn [ins_desc fst]. rewrite H3. reflexivity.
  - unfold flip_col, argmax_abs. cbn [argmax_from]. rewrite A1, A2.
    assert (H1 : Rltb 1 2 = true) by (apply Rltb_true; lra). rewrite H1. cbn [argmax_from nth].
    assert (H2 : Rltb (-2) 0 = true) by (apply Rltb_true; lra). rewrite H2. cbn. repeat f_equal; lra.
Qed.
