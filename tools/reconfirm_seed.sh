#!/bin/sh
# usage: reconfirm_seed.sh <seed-id>  — re-confirm a kept seeded change against the CURRENT /repo HEAD (fresh worktree):
# patch applies (plain or --3way), pinned doctests stay green with it, demo passes without / fails with it.
# Writes seeded/<id>/reconfirm.json; a change whose demo no longer fails (a later fix: commit made it equivalent) is marked stale.
id="$1"; D=/verif/seeded/$id; WT=/tmp/reconf.$$
git -C /repo worktree add -q --detach "$WT" HEAD || exit 2
cd "$WT"
PYTHONPATH="$WT" timeout 300 /venv/bin/python "$D/demo.py" >/dev/null 2>&1; rc_clean=$?
how=plain
git apply "$D/patch.diff" 2>/dev/null || { how=3way; git apply --3way "$D/patch.diff" >/dev/null 2>&1 || how=none; }
if [ "$how" = none ]; then tests="-"; rc_mut=-1; else
PYTHONPATH="$WT" /venv/bin/python -m pytest -q -p no:cacheprovider --timeout=900 --continue-on-collection-errors 2>&1 | tail -1 > /tmp/reconf.$$.t; tests=$(cat /tmp/reconf.$$.t | tr -d '"')
PYTHONPATH="$WT" timeout 300 /venv/bin/python "$D/demo.py" >/dev/null 2>&1; rc_mut=$?
fi
cd /; git -C /repo worktree remove --force "$WT"; rm -f /tmp/reconf.$$.t
head=$(git -C /repo rev-parse --short HEAD)
printf '{"repo_head": "%s", "applies": "%s", "demo_rc_clean": %s, "demo_rc_mutated": %s, "tests_with_patch": "%s"}\n' "$head" "$how" "$rc_clean" "$rc_mut" "$tests" > "$D/reconfirm.json"
echo "$id applies=$how clean=$rc_clean mutated=$rc_mut tests=$tests"
