(* Proofs/C08NormalForm.v — what ktensor.normalize / arrange ESTABLISH (beyond preserving the denoted array, which is
   Proofs/C08Proofs.v): unit (or zero) columns in every factor, zero weight for a component with a zero column,
   all-one weights after absorption, weights sorted descending after sort=True / arrange.
   All shapes, ranks, values of an arbitrary commutative ring; the norm / sign / root / argsort oracles are arbitrary
   functions subject only to the hypotheses used by each lemma (see `Check` of each lemma after the section). *)
From Coq Require Import List Arith Lia Bool Permutation Ring Sorted.
From PV Require Import Base.Index Base.Perm Base.Sum Np.Array Model.Sparse Model.Repr Model.C08Kruskal Proofs.C08Proofs.
Import ListNotations.
Local Open Scope nat_scope.

Section NF8.
Variable V : Type.
Variables (v0 v1 : V) (vadd vmul vsub : V -> V -> V) (vopp vinv : V -> V).
Hypothesis Vring : ring_theory v0 v1 vadd vmul vsub vopp (@eq V).
Add Ring Vr8nf : Vring.

Notation "x * y" := (vmul x y).
Notation mat := (list (list V)).
Notation scols := (scale_cols vmul).
Notation m1 := (vm1 v1 vopp).
Notation zipm := (zipmul vmul).
Notation nthz := (nth_zipmul V v0 v1 vadd vmul vsub vopp Vring).
Notation zero_list := (Forall (fun y : V => y = v0)).

(* ------------------------------------------------------------------------------------------------ *)
(* columns of scaled / gathered matrices                                                             *)
(* ------------------------------------------------------------------------------------------------ *)
(* (a) *)
Lemma col_scale_cols cs (A : mat) r : col v0 (scols cs A) r = map (fun x => x * nth r cs v0) (col v0 A r).
Proof. unfold col, scale_cols. rewrite !map_map. apply map_ext. intros row. apply nthz. Qed.

Lemma col_gather p (A : mat) r : r < length p -> col v0 (map (pick v0 p) A) r = col v0 A (nth r p 0).
Proof. intros H. unfold col. rewrite map_map. apply map_ext. intros row. now apply nth_pick. Qed.

Lemma nth_gather_factor p (F : list mat) n : nth n (map (map (pick v0 p)) F) [] = map (pick v0 p) (nth n F []).
Proof. exact (map_nth (map (pick v0 p)) F [] n). Qed.

Lemma nth_upd_nth_eq {A} n (f : A -> A) l d : n < length l -> nth n (upd_nth n f l) d = f (nth n l d).
Proof. revert n; induction l as [|x l IH]; intros [|n] H; cbn in *; try lia; auto. apply IH. lia. Qed.

Lemma nth_upd_nth_neq {A} j k (f : A -> A) l d : j <> k -> nth k (upd_nth j f l) d = nth k l d.
Proof. revert j k; induction l as [|x l IH]; intros [|j] [|k] H; cbn; auto; try lia. Qed.

Lemma zero_scale c l : zero_list l -> zero_list (map (fun x => x * c) l).
Proof. induction 1 as [|x l Hx _ IH]; cbn; constructor; auto. subst. ring. Qed.

Lemma map_mul_one l : map (fun x => x * v1) l = l.
Proof. transitivity (map (fun x : V => x) l); [|apply map_id]. apply map_ext. intros; ring. Qed.

(* ------------------------------------------------------------------------------------------------ *)
(* the normal form                                                                                   *)
(* ------------------------------------------------------------------------------------------------ *)
Section NormNF.
Variables (nrm : list V -> V) (pos neg : V -> bool) (root : V -> V) (srt : list V -> list nat).
Hypothesis vinv_r : forall x, x <> v0 -> x * vinv x = v1.
Hypothesis pos_nz : forall x, pos x = true -> x <> v0.
Hypothesis nrm_pos : forall l, pos (nrm l) = false -> zero_list l.
Hypothesis srt_perm : forall l, is_perm (srt l) (length l).
(* nrm_spec: the oracle is a norm *)
Hypothesis nrm_scale : forall c l, pos c = true -> nrm (map (fun x => x * c) l) = nrm l * c.
Hypothesis pos_inv : forall t, pos t = true -> pos (vinv t) = true.
Hypothesis nrm_flip : forall l, nrm (map (fun x => x * m1) l) = nrm l.
Hypothesis nrm_zero : forall l, zero_list l -> nrm l = v0.

Notation nmode := (k_normalize_mode v0 v1 vmul vinv nrm pos).
Notation ncols := (k_normalize_cols v0 v1 vmul vinv nrm pos).
Notation nfold := (fold_left (fun K n => nmode n K)).
Notation fixneg := (k_fix_neg v1 vmul vopp neg).
Notation absorb := (k_absorb v1 vmul root).
Notation ksort := (k_sort v0 srt).
Notation normalize := (k_normalize v0 v1 vmul vopp vinv nrm pos neg root srt).
Notation arrange := (k_arrange v0 v1 vmul vopp vinv nrm pos neg root srt).

Definition uz (l : list V) : Prop := nrm l = v1 \/ zero_list l.
Definition unit_or_zero (A : mat) (r : nat) : Prop := nrm (col v0 A r) = v1 \/ zero_list (col v0 A r).

(* ---- shape facts that need no hypothesis ---- *)
Lemma fold_rank_len l K : krank (nfold l K) = krank K /\ length (kfactors (nfold l K)) = length (kfactors K).
Proof.
  revert K; induction l as [|a l IH]; intros K; cbn [fold_left]; auto.
  destruct (IH (nmode a K)) as [H1 H2]. rewrite H1, H2, krank_normalize_mode, nfactors_normalize_mode. auto.
Qed.

Lemma ncols_rank_len K : krank (ncols K) = krank K /\ length (kfactors (ncols K)) = length (kfactors K).
Proof. apply fold_rank_len. Qed.

Lemma fixneg_rank_len K : krank (fixneg K) = krank K /\ length (kfactors (fixneg K)) = length (kfactors K).
Proof.
  unfold k_fix_neg. destruct (kfactors K) as [|A0 As] eqn:E; [now rewrite E|].
  unfold krank. cbn [kweights kfactors length]. rewrite length_zipmul, map_length. split; [lia|reflexivity].
Qed.

Lemma fnc_rank_len K : krank (fixneg (ncols K)) = krank K /\ length (kfactors (fixneg (ncols K))) = length (kfactors K).
Proof.
  destruct (ncols_rank_len K) as [H1 H2]. destruct (fixneg_rank_len (ncols K)) as [H3 H4]. split; congruence.
Qed.

(* ---- (b) one mode ---- *)
Lemma normalize_mode_factor n K : n < length (kfactors K) ->
  nth n (kfactors (nmode n K)) [] =
  scols (map (inv_pos v1 vinv pos) (col_norms v0 nrm (nth n (kfactors K) []) (krank K))) (nth n (kfactors K) []).
Proof. intros H. unfold k_normalize_mode. cbn [kfactors]. now apply nth_upd_nth_eq. Qed.

Lemma uz_normalize_col l : uz (map (fun x => x * inv_pos v1 vinv pos (nrm l)) l).
Proof.
  unfold inv_pos, uz. destruct (pos (nrm l)) eqn:E.
  - left. rewrite nrm_scale by (now apply pos_inv). apply vinv_r. now apply pos_nz.
  - right. apply zero_scale. now apply nrm_pos.
Qed.

Lemma normalize_mode_unit n K r : n < length (kfactors K) -> r < krank K ->
  unit_or_zero (nth n (kfactors (nmode n K)) []) r.
Proof.
  intros Hn Hr. rewrite normalize_mode_factor by exact Hn. unfold unit_or_zero. rewrite col_scale_cols.
  unfold col_norms. rewrite map_map. rewrite nth_map_seq by exact Hr. apply uz_normalize_col.
Qed.

(* ---- (c) ---- *)
Lemma normalize_mode_other m n K : m <> n -> nth m (kfactors (nmode n K)) [] = nth m (kfactors K) [].
Proof. intros H. unfold k_normalize_mode. cbn [kfactors]. apply nth_upd_nth_neq. lia. Qed.

(* ---- (d) the loop over all modes ---- *)
Lemma fold_other l K n : ~ In n l -> nth n (kfactors (nfold l K)) [] = nth n (kfactors K) [].
Proof.
  revert K; induction l as [|a l IH]; intros K H; cbn [fold_left]; auto.
  rewrite IH by (intros Hin; apply H; now right). apply normalize_mode_other. intros ->. apply H. now left.
Qed.

Lemma fold_unit l K n r : NoDup l -> In n l -> n < length (kfactors K) -> r < krank K ->
  unit_or_zero (nth n (kfactors (nfold l K)) []) r.
Proof.
  revert K; induction l as [|a l IH]; intros K Hnd Hin Hn Hr; [contradiction|]. cbn [fold_left].
  inversion Hnd as [|? ? Ha Hnd']; subst.
  destruct (Nat.eq_dec a n) as [->|Hne].
  - rewrite fold_other by exact Ha. now apply normalize_mode_unit.
  - destruct Hin as [->|Hin]; [congruence|]. apply IH; auto.
    + now rewrite nfactors_normalize_mode.
    + now rewrite krank_normalize_mode.
Qed.

Lemma normalize_cols_unit K n r : n < length (kfactors K) -> r < krank K ->
  unit_or_zero (nth n (kfactors (ncols K)) []) r.
Proof. intros Hn Hr. unfold k_normalize_cols. apply fold_unit; auto; [apply seq_NoDup|apply in_seq; lia]. Qed.

(* ---- (e) sign step, sort step, the whole normalize ---- *)
Lemma uz_sgn w l : uz l -> uz (map (fun x => x * sgn_neg v1 vopp neg w) l).
Proof.
  intros H. unfold sgn_neg. destruct (neg w).
  - destruct H as [H|H]; [left; now rewrite nrm_flip|right; now apply zero_scale].
  - now rewrite map_mul_one.
Qed.

Lemma fix_neg_unit K :
  (forall n r, n < length (kfactors K) -> r < krank K -> unit_or_zero (nth n (kfactors K) []) r) ->
  forall n r, n < length (kfactors K) -> r < krank K -> unit_or_zero (nth n (kfactors (fixneg K)) []) r.
Proof.
  intros H n r Hn Hr. unfold k_fix_neg. revert H Hn. destruct (kfactors K) as [|A0 As] eqn:E; intros H Hn.
  - cbn in Hn. lia.
  - cbn [kfactors]. destruct n as [|n]; cbn [nth].
    + unfold unit_or_zero. rewrite col_scale_cols. rewrite (nth_map_in V v0 _ _ r v0) by exact Hr.
      apply uz_sgn. apply (H 0 r); auto.
    + apply (H (S n) r); auto.
Qed.

Lemma gather_unit p K : is_perm p (krank K) ->
  (forall n r, n < length (kfactors K) -> r < krank K -> unit_or_zero (nth n (kfactors K) []) r) ->
  forall n r, n < length (kfactors K) -> r < krank K -> unit_or_zero (nth n (kfactors (k_gather v0 p K)) []) r.
Proof.
  intros Hp H n r Hn Hr. unfold k_gather. cbn [kfactors]. rewrite nth_gather_factor.
  pose proof (is_perm_length _ _ Hp) as HL.
  unfold unit_or_zero. rewrite col_gather by lia. apply (H n (nth r p 0)); auto.
  apply (is_perm_In p (krank K) _ Hp). apply nth_In. lia.
Qed.

Lemma fnc_unit K n r : n < length (kfactors K) -> r < krank K ->
  unit_or_zero (nth n (kfactors (fixneg (ncols K))) []) r.
Proof.
  intros Hn Hr. destruct (ncols_rank_len K) as [H1 H2]. apply fix_neg_unit; try lia.
  intros n' r' Hn' Hr'. apply normalize_cols_unit; lia.
Qed.

(* MAIN: every column of every factor of the normal form has norm one (or is entirely zero) *)
Theorem normal_form_unit_columns sort K n r : n < length (kfactors K) -> r < krank K ->
  unit_or_zero (nth n (kfactors (normalize WNone sort None K)) []) r.
Proof.
  intros Hn Hr. cbn [k_normalize k_absorb]. destruct sort; [|now apply fnc_unit].
  unfold k_sort. destruct (1 <? krank (fixneg (ncols K))); [|now apply fnc_unit].
  destruct (fnc_rank_len K) as [HR HL].
  apply gather_unit; try lia.
  - apply srt_perm.
  - intros n' r' Hn' Hr'. apply fnc_unit; lia.
Qed.

Theorem normal_form_arrange_unit_columns K n r : n < length (kfactors K) -> r < krank K ->
  unit_or_zero (nth n (kfactors (arrange None K)) []) r.
Proof.
  intros Hn Hr. unfold k_arrange. cbn [k_normalize k_absorb].
  destruct (fnc_rank_len K) as [HR HL].
  apply gather_unit; try lia.
  - apply srt_perm.
  - intros n' r' Hn' Hr'. apply fnc_unit; lia.
Qed.

(* ---- (f) a component with a zero column gets weight zero ---- *)
Lemma normalize_mode_weight n K r : r < krank K ->
  nth r (kweights (nmode n K)) v0 = nth r (kweights K) v0 * nrm (col v0 (nth n (kfactors K) []) r).
Proof. intros Hr. unfold k_normalize_mode. cbn [kweights]. rewrite nthz. unfold col_norms. now rewrite nth_map_seq. Qed.

Lemma normalize_mode_zero_weight n K r : r < krank K -> zero_list (col v0 (nth n (kfactors K) []) r) ->
  nth r (kweights (nmode n K)) v0 = v0.
Proof. intros Hr Hz. rewrite normalize_mode_weight by exact Hr. rewrite nrm_zero by exact Hz. ring. Qed.

Lemma normalize_mode_weight_stays n K r : nth r (kweights K) v0 = v0 -> nth r (kweights (nmode n K)) v0 = v0.
Proof. intros H. unfold k_normalize_mode. cbn [kweights]. rewrite nthz, H. ring. Qed.

Lemma fold_weight_stays l K r : nth r (kweights K) v0 = v0 -> nth r (kweights (nfold l K)) v0 = v0.
Proof.
  revert K; induction l as [|a l IH]; intros K H; cbn [fold_left]; auto. apply IH. now apply normalize_mode_weight_stays.
Qed.

Lemma fold_zero_weight l K n r : In n l -> r < krank K -> zero_list (col v0 (nth n (kfactors K) []) r) ->
  nth r (kweights (nfold l K)) v0 = v0.
Proof.
  revert K; induction l as [|a l IH]; intros K Hin Hr Hz; [contradiction|]. cbn [fold_left].
  destruct (Nat.eq_dec a n) as [->|Hne].
  - apply fold_weight_stays. now apply normalize_mode_zero_weight.
  - destruct Hin as [->|Hin]; [congruence|]. apply IH; auto.
    + now rewrite krank_normalize_mode.
    + rewrite normalize_mode_other by lia. exact Hz.
Qed.

Lemma fix_neg_weight_stays K r : nth r (kweights K) v0 = v0 -> nth r (kweights (fixneg K)) v0 = v0.
Proof.
  intros H. unfold k_fix_neg. destruct (kfactors K) as [|A0 As]; auto. cbn [kweights]. rewrite nthz, H. ring.
Qed.

Theorem normal_form_zero_weight K n r : n < length (kfactors K) -> r < krank K ->
  zero_list (col v0 (nth n (kfactors K) []) r) ->
  nth r (kweights (normalize WNone false None K)) v0 = v0.
Proof.
  intros Hn Hr Hz. cbn [k_normalize k_absorb]. apply fix_neg_weight_stays.
  unfold k_normalize_cols. apply (fold_zero_weight _ K n r); auto. apply in_seq. lia.
Qed.

(* ---- (g) after absorbing the weights into the factors all weights are one ---- *)
Definition absorbs (wf : wfac) (N : nat) : Prop :=
  match wf with WNone => False | WMode n => n < N | WAll => True end.

Lemma absorb_weights wf K : absorbs wf (length (kfactors K)) -> kweights (absorb wf K) = ones v1 (kweights K).
Proof.
  destruct wf as [|n|]; cbn [absorbs k_absorb]; intros H; [contradiction| |reflexivity].
  apply Nat.ltb_lt in H. now rewrite H.
Qed.

Lemma sort_all_one K : (forall r, r < krank K -> nth r (kweights K) v0 = v1) ->
  krank (ksort K) = krank K /\ forall r, r < krank K -> nth r (kweights (ksort K)) v0 = v1.
Proof.
  intros H. unfold k_sort. destruct (1 <? krank K); [|auto].
  pose proof (srt_perm (kweights K)) as Hp. fold (krank K) in Hp. pose proof (is_perm_length _ _ Hp) as HL.
  split; [now rewrite krank_gather|].
  intros r Hr. unfold k_gather. cbn [kweights]. rewrite nth_pick by lia. apply H.
  apply (is_perm_In _ (krank K) _ Hp). apply nth_In. lia.
Qed.

Theorem normal_form_all_one wf sort K : absorbs wf (length (kfactors K)) ->
  krank (normalize wf sort None K) = krank K /\
  forall r, r < krank K -> nth r (kweights (normalize wf sort None K)) v0 = v1.
Proof.
  intros Hwf. cbn [k_normalize]. destruct (fnc_rank_len K) as [HR HL].
  set (K3 := absorb wf (fixneg (ncols K))).
  assert (EW : kweights K3 = ones v1 (kweights (fixneg (ncols K)))) by (apply absorb_weights; now rewrite HL).
  assert (R3 : krank K3 = krank K) by (unfold krank in *; rewrite EW; unfold ones; now rewrite map_length).
  assert (A3 : forall r, r < krank K3 -> nth r (kweights K3) v0 = v1).
  { intros r Hr. rewrite EW. apply (nth_ones V v0 v1). fold (krank (fixneg (ncols K))). lia. }
  destruct sort.
  - destruct (sort_all_one K3 A3) as [S1 S2]. split; [congruence|]. intros r Hr. apply S2. lia.
  - split; auto. intros r Hr. apply A3. lia.
Qed.

Theorem normal_form_arrange_all_one n K :
  krank (arrange (Some n) K) = krank K /\
  forall r, r < krank K -> nth r (kweights (arrange (Some n) K)) v0 = v1.
Proof.
  unfold k_arrange. cbn [k_normalize k_absorb]. destruct (fnc_rank_len K) as [HR HL].
  set (K1 := fixneg (ncols K)) in *.
  pose proof (srt_perm (kweights K1)) as Hp. pose proof (is_perm_length _ _ Hp) as HpL. fold (krank K1) in HpL.
  assert (E : length (kweights (k_gather v0 (srt (kweights K1)) K1)) = krank K).
  { unfold k_gather. cbn [kweights]. rewrite pick_length. lia. }
  split.
  - unfold krank, k_redistribute. cbn [kweights]. unfold ones. now rewrite map_length.
  - intros r Hr. unfold k_redistribute. cbn [kweights]. apply (nth_ones V v0 v1). lia.
Qed.

End NormNF.

(* ------------------------------------------------------------------------------------------------ *)
(* (h) the insertion argsort really sorts; sort=True / arrange leave the weights in descending order  *)
(* ------------------------------------------------------------------------------------------------ *)
Section Sorting.
Variable leb : V -> V -> bool.
Hypothesis leb_total : forall a b, leb a b = false -> leb b a = true.

Definition le_tag (p q : V * nat) : Prop := leb (fst p) (fst q) = true.
Definition le_asc (a b : V) : Prop := leb a b = true.
Definition le_desc (a b : V) : Prop := leb b a = true.

Lemma ins_sorted p l : Sorted le_tag l -> Sorted le_tag (ins leb p l).
Proof.
  induction l as [|q l IH]; intros Hs; cbn [ins].
  - constructor; constructor.
  - destruct (leb (fst p) (fst q)) eqn:E.
    + constructor; [exact Hs|constructor; exact E].
    + inversion Hs as [|? ? Hs' Hh]; subst. constructor; [now apply IH|].
      destruct l as [|q' l]; cbn [ins].
      * constructor. now apply leb_total.
      * destruct (leb (fst p) (fst q')); constructor.
        -- now apply leb_total.
        -- now inversion Hh.
Qed.

Lemma isort_sorted l : Sorted le_tag (isort leb l).
Proof. induction l as [|p l IH]; cbn; [constructor|]. now apply ins_sorted. Qed.

Lemma tagged_In (l : list V) x k : In (x, k) (tagged l) -> k < length l /\ x = nth k l v0.
Proof.
  unfold tagged. intros H. apply (In_nth _ _ (v0, 0)) in H. destruct H as (j & Hj & E).
  rewrite combine_length, seq_length, Nat.min_id in Hj.
  rewrite combine_nth in E by (now rewrite seq_length). rewrite seq_nth in E by exact Hj. cbn in E.
  injection E as E1 E2. subst. auto.
Qed.

(* gather: the sorted values are the input picked at the returned positions *)
Lemma argsort_gather (l : list V) : map fst (isort leb (tagged l)) = pick v0 (argsort leb l) l.
Proof.
  unfold argsort, pick. rewrite map_map. apply map_ext_in. intros [x k] Hin. cbn.
  apply (Permutation_in _ (isort_perm V leb (tagged l))) in Hin. now apply tagged_In in Hin.
Qed.

Lemma Sorted_map_fst L : Sorted le_tag L -> Sorted le_asc (map fst L).
Proof.
  induction 1 as [|p L Hs IH Hh]; cbn; constructor; auto.
  destruct Hh as [|q L' Hq]; cbn; constructor. exact Hq.
Qed.

Lemma argsort_sorted (l : list V) : Sorted le_asc (pick v0 (argsort leb l) l).
Proof. rewrite <- argsort_gather. apply Sorted_map_fst. apply isort_sorted. Qed.

Lemma Sorted_snoc {A} (R : A -> A -> Prop) m a : Sorted R m -> HdRel (fun x y => R y x) a (rev m) -> Sorted R (m ++ [a]).
Proof.
  induction m as [|b m IH]; intros Hs Hh; cbn.
  - constructor; constructor.
  - inversion Hs as [|? ? Hs' Hb]; subst. cbn [rev] in Hh. constructor.
    + apply IH; auto. destruct (rev m) as [|c t]; [constructor|]. cbn in Hh. inversion Hh; subst. now constructor.
    + destruct m as [|c m]; cbn.
      * constructor. cbn in Hh. now inversion Hh.
      * constructor. now inversion Hb.
Qed.

Lemma Sorted_rev {A} (R : A -> A -> Prop) l : Sorted R l -> Sorted (fun a b => R b a) (rev l).
Proof.
  induction 1 as [|a l Hs IH Hh]; cbn [rev]; [constructor|].
  apply Sorted_snoc; auto. rewrite rev_involutive. destruct Hh; constructor; auto.
Qed.

Lemma pick_rev {A} (d : A) p (l : list A) : pick d (rev p) l = rev (pick d p l).
Proof. unfold pick. apply map_rev. Qed.

Lemma argsort_desc_sorted (l : list V) : Sorted le_desc (pick v0 (argsort_desc leb l) l).
Proof. unfold argsort_desc. rewrite pick_rev. apply (Sorted_rev le_asc). apply argsort_sorted. Qed.

Lemma Sorted_short {A} (R : A -> A -> Prop) l : length l <= 1 -> Sorted R l.
Proof. destruct l as [|a [|b l]]; cbn; intros H; try lia; repeat constructor. Qed.

Lemma sort_sorted_desc (K : ktensor V) : Sorted le_desc (kweights (k_sort v0 (argsort_desc leb) K)).
Proof.
  unfold k_sort. destruct (Nat.ltb_spec 1 (krank K)) as [H|H].
  - unfold k_gather. cbn [kweights]. apply argsort_desc_sorted.
  - now apply Sorted_short.
Qed.

Section WithOracles.
Variables (nrm : list V -> V) (pos neg : V -> bool) (root : V -> V).

(* MAIN: normalize(sort=True) returns the weights in descending order (any weight_factor) *)
Theorem normal_form_sorted_desc wf K :
  Sorted le_desc (kweights (k_normalize v0 v1 vmul vopp vinv nrm pos neg root (argsort_desc leb) wf true None K)).
Proof. cbn [k_normalize]. apply sort_sorted_desc. Qed.

Theorem normal_form_arrange_sorted_desc K :
  Sorted le_desc (kweights (k_arrange v0 v1 vmul vopp vinv nrm pos neg root (argsort_desc leb) None K)).
Proof. unfold k_arrange, k_gather. cbn [kweights]. apply argsort_desc_sorted. Qed.
End WithOracles.

End Sorting.
End NF8.

(* ------------------------------------------------------------------------------------------------ *)
(* non-vacuity: the hypotheses are satisfiable (1-norm over Qc) and concrete non-symmetric instances   *)
(* ------------------------------------------------------------------------------------------------ *)
From Coq Require Import QArith Qcanon Qcabs.
Local Open Scope Qc_scope.

(* the hypothesis bundle is satisfiable: the 1-norm over the rationals *)
Definition qnrm (l : list Qc) : Qc := fold_right (fun x s => Qcabs x + s) 0 l.
Definition qp (x : Qc) : bool := if Qclt_le_dec 0 x then true else false.

Lemma qnrm_cons x l : qnrm (x :: l) = Qcabs x + qnrm l.
Proof. reflexivity. Qed.
Lemma qp_true x : qp x = true -> 0 < x.
Proof. unfold qp. destruct (Qclt_le_dec 0 x); [auto|discriminate]. Qed.
Lemma qp_false x : qp x = false -> x <= 0.
Proof. unfold qp. destruct (Qclt_le_dec 0 x); [discriminate|auto]. Qed.
Lemma qp_intro x : 0 < x -> qp x = true.
Proof. intros H. unfold qp. destruct (Qclt_le_dec 0 x) as [|H']; auto. exfalso. exact (Qclt_not_le _ _ H H'). Qed.

Lemma q_vinv_r : forall x : Qc, x <> 0 -> x * / x = 1.
Proof. exact Qcmult_inv_r. Qed.
Lemma q_pos_nz : forall x, qp x = true -> x <> 0.
Proof. intros x H E. apply qp_true in H. subst. exact (Qclt_not_le _ _ H (Qcle_refl 0)). Qed.
Lemma qnrm_nonneg l : 0 <= qnrm l.
Proof.
  induction l as [|x l IH]; cbn; [apply Qcle_refl|].
  replace 0 with (0 + 0) by ring. apply Qcplus_le_compat; [apply Qcabs_nonneg|exact IH].
Qed.
Lemma sum_nonneg_zero a b : 0 <= a -> 0 <= b -> a + b <= 0 -> a = 0 /\ b = 0.
Proof.
  intros Ha Hb H. split; apply Qcle_antisym; auto.
  - eapply Qcle_trans; [|exact H]. replace a with (a + 0) at 1 by ring. apply Qcplus_le_compat; [apply Qcle_refl|auto].
  - eapply Qcle_trans; [|exact H]. replace b with (0 + b) at 1 by ring. apply Qcplus_le_compat; [auto|apply Qcle_refl].
Qed.
Lemma q_nrm_pos : forall l, qp (qnrm l) = false -> Forall (fun y => y = 0) l.
Proof.
  intros l H. apply qp_false in H. induction l as [|x l IH]; constructor.
  - rewrite qnrm_cons in H. destruct (sum_nonneg_zero _ _ (Qcabs_nonneg x) (qnrm_nonneg l) H) as [E _]. now apply Qcabs_null.
  - apply IH. rewrite qnrm_cons in H. destruct (sum_nonneg_zero _ _ (Qcabs_nonneg x) (qnrm_nonneg l) H) as [_ E]. rewrite E. apply Qcle_refl.
Qed.
Lemma q_nrm_scale : forall c l, qp c = true -> qnrm (map (fun x => x * c) l) = qnrm l * c.
Proof.
  intros c l H. apply qp_true in H. induction l as [|x l IH]; cbn [map]; [cbn; ring|]. rewrite !qnrm_cons.
  rewrite IH, Qcabs_Qcmult, (Qcabs_pos c) by (now apply Qclt_le_weak). ring.
Qed.
Lemma q_pos_inv : forall t, qp t = true -> qp (/ t) = true.
Proof.
  intros t H. apply qp_true in H. apply qp_intro. unfold Qclt in *. cbn in *.
  rewrite Qred_correct. now apply Qinv_lt_0_compat.
Qed.
Lemma q_nrm_flip : forall l, qnrm (map (fun x => x * vm1 1 Qcopp) l) = qnrm l.
Proof.
  intros l. unfold vm1. induction l as [|x l IH]; cbn [map]; auto. rewrite !qnrm_cons.
  rewrite IH. replace (x * - (1)) with (- x) by ring. now rewrite Qcabs_opp.
Qed.
Lemma q_nrm_zero : forall l, Forall (fun y => y = 0) l -> qnrm l = 0.
Proof.
  induction 1 as [|x l Hx _ IH]; auto. rewrite qnrm_cons. subst. rewrite IH, Qcabs_pos by apply Qcle_refl. ring.
Qed.

Definition qle (a b : Qc) : bool := if Qclt_le_dec b a then false else true.
Lemma qle_total a b : qle a b = false -> qle b a = true.
Proof.
  unfold qle. destruct (Qclt_le_dec b a) as [H|H]; [|discriminate]. intros _.
  destruct (Qclt_le_dec a b) as [H'|H']; auto. exfalso. exact (Qclt_not_le _ _ H (Qclt_le_weak _ _ H')).
Qed.

(* the main theorems, instantiated: no hypothesis left *)
Corollary normal_form_unit_columns_Qc (neg : Qc -> bool) (root : Qc -> Qc) sort K n r :
  (n < length (kfactors K))%nat -> (r < krank K)%nat ->
  unit_or_zero Qc 0 1 qnrm
    (nth n (kfactors (k_normalize 0 1 Qcmult Qcopp Qcinv qnrm qp neg root (argsort_desc qle) WNone sort None K)) []) r.
Proof.
  apply (normal_form_unit_columns Qc 0 1 Qcplus Qcmult Qcminus Qcopp Qcinv Qcrt qnrm qp neg root (argsort_desc qle)
           q_vinv_r q_pos_nz q_nrm_pos (argsort_desc_perm Qc qle) q_nrm_scale q_pos_inv q_nrm_flip).
Qed.

Corollary normal_form_zero_weight_Qc (neg : Qc -> bool) (root : Qc -> Qc) K n r :
  (n < length (kfactors K))%nat -> (r < krank K)%nat ->
  Forall (fun y => y = 0) (col 0 (nth n (kfactors K) []) r) ->
  nth r (kweights (k_normalize 0 1 Qcmult Qcopp Qcinv qnrm qp neg root (argsort_desc qle) WNone false None K)) 0 = 0.
Proof.
  apply (normal_form_zero_weight Qc 0 1 Qcplus Qcmult Qcminus Qcopp Qcinv Qcrt qnrm qp neg root (argsort_desc qle) q_nrm_zero).
Qed.

Corollary normal_form_sorted_desc_Qc (neg : Qc -> bool) (root : Qc -> Qc) wf K :
  Sorted (fun a b => b <= a)
    (kweights (k_normalize 0 1 Qcmult Qcopp Qcinv qnrm qp neg root (argsort_desc qle) wf true None K)).
Proof.
  pose proof (normal_form_sorted_desc Qc 0 1 Qcmult Qcopp Qcinv qle qle_total qnrm qp neg root wf K) as H.
  eapply Sorted_ind with (P := fun l => Sorted (fun a b => b <= a) l); [constructor| |exact H].
  intros a l _ IH Hh. constructor; auto. destruct Hh as [|b l Hb]; constructor.
  unfold le_desc, qle in Hb. destruct (Qclt_le_dec a b); [discriminate|assumption].
Qed.

Definition qneg (x : Qc) : bool := if Qclt_le_dec 0 (- x) then true else false.
Definition zq (z : Z) : Qc := Q2Qc (inject_Z z).
Definition zmat (A : list (list Z)) : list (list Qc) := map (map zq) A.
Definition qnormalize := k_normalize 0 1 Qcmult Qcopp Qcinv qnrm qp qneg (fun x => x) (argsort_desc qle).
Definition qarrange := k_arrange 0 1 Qcmult Qcopp Qcinv qnrm qp qneg (fun x => x) (argsort_desc qle).
Definition qshow (K : ktensor Qc) : list Q * list (list (list Q)) := (map this (kweights K), map (map (map this)) (kfactors K)).
Definition qcolnorms (K : ktensor Qc) : list (list Q) :=
  map (fun A => map (fun r => this (qnrm (col 0 A r))) (seq 0 (krank K))) (kfactors K).

(* a (2,3) rank-3 tensor; component 2 has a zero column in factor 1; component 1 has a negative weight *)
Definition exN : ktensor Qc :=
  mkK [zq 2; zq (-3); zq 5] [zmat [[3; 1; 1]; [-4; 0; 2]]%Z; zmat [[1; 0; 0]; [2; 1; 0]; [-2; 1; 0]]%Z].
(* same shape, no zero column, weights that are NOT in descending order after normalisation (35, 80, 6) *)
Definition exM : ktensor Qc :=
  mkK [zq 1; zq (-40); zq 2] [zmat [[3; 1; 1]; [-4; 0; 2]]%Z; zmat [[1; 0; 1]; [2; 1; 0]; [-2; 1; 0]]%Z].

Local Open Scope Q_scope.
Example ex_normal_form :
  qshow (qnormalize WNone false None exN) =
  ([70; 6; 0], [[[3 # 7; -1; 1 # 3]; [-4 # 7; 0; 2 # 3]]; [[1 # 5; 0; 0]; [2 # 5; 1 # 2; 0]; [-2 # 5; 1 # 2; 0]]]).
Proof. vm_compute. reflexivity. Qed.
(* unit columns everywhere except the zero column (factor 1, component 2) *)
Example ex_unit_columns : qcolnorms (qnormalize WNone true None exN) = [[1; 1; 1]; [1; 1; 0]].
Proof. vm_compute. reflexivity. Qed.
Example ex_arrange_unit_columns : qcolnorms (qarrange None exM) = [[1; 1; 1]; [1; 1; 1]].
Proof. vm_compute. reflexivity. Qed.
Example ex_zero_weight : this (nth 2 (kweights (qnormalize WNone false None exN)) 0%Qc) = 0.
Proof. vm_compute. reflexivity. Qed.
Example ex_all_one :
  map this (kweights (qnormalize (WMode 1) true None exN)) = [1; 1; 1] /\
  map this (kweights (qnormalize WAll false None exM)) = [1; 1; 1] /\
  map this (kweights (qarrange (Some 0%nat) exM)) = [1; 1; 1].
Proof. vm_compute. auto. Qed.
Example ex_argsort : argsort_desc qle [zq 2; zq 7; zq (-1); zq 7] = [3; 1; 0; 2]%nat.
Proof. vm_compute. reflexivity. Qed.
Example ex_sorted_desc :
  map this (kweights (qnormalize WNone false None exM)) = [35; 80; 6] /\
  map this (kweights (qnormalize WNone true None exM)) = [80; 35; 6] /\
  map this (kweights (qarrange None exM)) = [80; 35; 6].
Proof. vm_compute. auto. Qed.

Print Assumptions col_scale_cols.
Print Assumptions normalize_cols_unit.
Print Assumptions normal_form_unit_columns.
Print Assumptions normal_form_arrange_unit_columns.
Print Assumptions normalize_mode_zero_weight.
Print Assumptions normal_form_zero_weight.
Print Assumptions normal_form_all_one.
Print Assumptions normal_form_arrange_all_one.
Print Assumptions argsort_sorted.
Print Assumptions argsort_desc_sorted.
Print Assumptions normal_form_sorted_desc.
Print Assumptions normal_form_arrange_sorted_desc.
Print Assumptions normal_form_unit_columns_Qc.
Print Assumptions normal_form_zero_weight_Qc.
Print Assumptions normal_form_sorted_desc_Qc.
