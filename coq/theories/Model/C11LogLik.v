(* Model/C11LogLik.v — the sparse branch of cp_apr.tt_loglikelihood (pyttb/cp_apr.py:1827-1838), value-generic:
     xsubs = Data.subs
     A = Model.factor_matrices[0][xsubs[:, 0], :]
     for n in range(1, N): A *= Model.factor_matrices[n][xsubs[:, n], :]
     return sum(Data.vals * log(sum(A, axis=1))) - sum(Model.factor_matrices[0])
   (after Model.normalize(weight_factor=0, normtype=1): the weights are not read).  The combining function
   phi x m ("x * log m", with the convention 0 * log m = 0) is a parameter.  Definitions only; proofs in Proofs/C11LogLik.v. *)
From Coq Require Import List Arith Lia Bool.
From PV Require Import Base.Index Base.Sum Np.Array Model.Sparse Model.Repr.
Import ListNotations.

Section LogLik.
Context {V : Type} (v0 v1 : V) (vadd vmul vsub : V -> V -> V).
Notation matrix := (list (list V)).

(* A[k, r] for the k-th stored subscript sub = xsubs[k, :]: gather the row of factor 0, multiply by the rows of factors 1..N-1 in turn *)
Definition ll_gather (As : list matrix) (sub : idx) (r : nat) : V :=
  match As, sub with
  | A0 :: As', x0 :: sub' =>
      fold_left (fun acc p => vmul acc (mget v0 (fst p) (snd p) r)) (combine As' sub') (mget v0 A0 x0 r)
  | _, _ => v1
  end.
(* np.sum(A, axis=1)[k] *)
Definition ll_rowsum (As : list matrix) (R : nat) (sub : idx) : V := sum_n v0 vadd R (fun r => ll_gather As sub r).
(* np.sum(M) of a matrix *)
Definition msum (A : matrix) : V := sum_over v0 vadd A (fun row => sum_over v0 vadd row (fun x => x)).
(* sum over the STORED entries of phi(vals[k], rowsum[k]) *)
Definition loglik_sp_terms (phi : V -> V -> V) (S : sparse V) (K : ktensor V) : V :=
  sum_over v0 vadd (entries S) (fun e => phi (snd e) (ll_rowsum (kfactors K) (krank K) (fst e))).
(* the value the sparse branch returns *)
Definition loglik_sp (phi : V -> V -> V) (S : sparse V) (K : ktensor V) : V :=
  vsub (loglik_sp_terms phi S K) (msum (nth 0 (kfactors K) [])).

(* the Poisson log-likelihood by definition: sum over ALL subscripts of phi(x_s, m_s) minus the sum of all model entries *)
Definition loglik_spec (phi : V -> V -> V) (X : idx -> V) (s : shape) (K : ktensor V) : V :=
  vsub (sum_over v0 vadd (allsubs s) (fun i => phi (X i) (den_k v0 v1 vadd vmul K i)))
       (sum_over v0 vadd (allsubs s) (den_k v0 v1 vadd vmul K)).
End LogLik.
