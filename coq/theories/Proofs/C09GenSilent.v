(* Proofs/C09GenSilent.v — wave 5: the SILENT run (printitn = 0, maxiters > 0) of the GENERATED main part of cp_als (Gen/GenCpAls.v),
   end to end: w4-skel's bridge (generated main = loop machine over h_sweep), the prologue bridge (UtU = U on entry), the saved-MTTKRP
   bridge (Proofs/C09GenSaved.v: every pass of the generated loop body = als_sweep of the hand model, U_mttkrp = st_P) and the
   reported-residual identity.  With M := ktensor(U, weights), iprod := sum(sum(U_mttkrp * U[dimorder[-1]], 0) * weights), the value
   under the square root := normX^2 + M.norm()^2 - 2 iprod and the holder's own mttkrp algorithm (every solve / norm / scaling / stop /
   arrange / fixsigns kernel arbitrary): whenever the generated main returns, the reported squared residual is ||X - M'||^2 of the
   model M' = st_model (als_sweep iters dims (als_iter iters dims start)) the LAST EXECUTED sweep built, the fit is the code's formula of
   it, and the returned model is arrange / fixsigns of M'.  Hypotheses on shapes only (state before the last update well-formed, the
   last update keeps rank and row count). *)
From Coq Require Import List Arith Lia Bool Ring.
From PV Require Import Base.Index Base.Sum Np.Array Model.Sparse Model.Repr Model.C09Als Model.C09Loop Model.W4SPrelude Gen.GenCpAls
  Proofs.W4SCpAls Proofs.C09LoopProofs Proofs.C09GenSweep Proofs.C09Identity Proofs.C09Monotone Proofs.C09Norm Proofs.C09Reported
  Proofs.C09Holders Proofs.C09Inner Proofs.C09GenReport Proofs.C09GenSaved.
Import ListNotations.

Section GenSilent.
Variable V : Type.
Variables (v0 v1 : V) (vadd vmul vsub : V -> V -> V) (vopp : V -> V).
Hypothesis Vring : ring_theory v0 v1 vadd vmul vsub vopp (@eq V).
Local Notation mx := (@matrix V).
Variable T_X : Type.
Variable R : nat.
Variable mk : T_X -> list mx -> nat -> mx.
Variable all_zero_mat : mx -> bool.
Variable zeros_like : mx -> mx.
Variable lapack : mx -> mx -> mx.
Variable norm2_cols normmax_cols : mx -> list V.
Variable all_zero_wt : list V -> bool.
Variable scale_cols : mx -> list V -> mx.
(* the remaining kernels of the generated main: arbitrary *)
Variable c_leF : V -> V -> bool.
Variable c_zeroF : V.
Variable k_init_factors : ktensor V -> list mx.
Variable k_restrict_dims : list nat -> list nat -> list nat.
Variable k_zeros_mttkrp : T_X -> list nat -> nat -> mx.
Variable k_zeros_utu : nat -> nat -> list mx.
Variable k_ktensor_init : list mx -> ktensor V -> ktensor V.
Variable k_innerprod : T_X -> ktensor V -> V.
Variable k_is_zero : V -> bool.
Variable k_fit : V -> V -> V.
Variable k_absdiff : V -> V -> V.
Variable k_arrange : ktensor V -> ktensor V.
Variable k_fixsigns : ktensor V -> ktensor V.

Local Notation cs := (code_solve V all_zero_mat zeros_like lapack).
Local Notation cc := (code_scale V norm2_cols normmax_cols all_zero_wt scale_cols).
Local Notation gset := (g_set_gram V).
Local Notation ghad := (g_hadamard_others V v0 v1 vadd vmul R).
Local Notation qres := (kq_resid V v0 vadd vmul vsub).
Local Notation qres0 := (kq_resid0 V v0 vadd vmul vsub).
Local Notation qkt := (kq_ktensor V).
Local Notation qip := (kq_iprod V v0 vadd vmul).

Local Notation gmainS := (GenCpAls.cp_als_main V mx (list mx) (list V) (ktensor V) T_X c_leF c_zeroF k_init_factors k_restrict_dims
  k_zeros_mttkrp k_zeros_utu gset k_ktensor_init k_innerprod k_is_zero qres0 qres k_fit mk ghad all_zero_mat zeros_like lapack
  norm2_cols normmax_cols all_zero_wt scale_cols qkt qip k_absdiff k_arrange k_fixsigns).
Local Notation hsw := (h_sweep V mx (list mx) (list V) (ktensor V) T_X gset mk ghad all_zero_mat zeros_like lapack norm2_cols normmax_cols
  all_zero_wt scale_cols qkt qip).
Local Notation sweep := (als_sweep v0 v1 vadd vmul).
Local Notation iter := (als_iter v0 v1 vadd vmul).

Lemma als_eta (st : als_state V) : mkAls (st_w st) (st_U st) (st_P st) = st.
Proof. now destruct st. Qed.

Lemma update_len m so sc it st n : length (st_U (als_update v0 v1 vadd vmul m so sc R it st n)) = length (st_U st).
Proof. unfold als_update. cbn [st_U]. apply upd_length. Qed.
Lemma sweep_len m so sc it dims : forall st, length (st_U (sweep m so sc R it dims st)) = length (st_U st).
Proof.
  unfold als_sweep. induction dims as [|d ds IH]; intros st; cbn [fold_left]; [reflexivity|].
  rewrite IH. apply update_len.
Qed.
Lemma iter_len m so sc dims st : forall k, length (st_U (iter m so sc R k dims st)) = length (st_U st).
Proof. induction k as [|k IH]; cbn [als_iter]; [reflexivity|]. now rewrite sweep_len. Qed.

(* k passes of the generated loop body from a state with UtU = U: factors (and Gram slabs) of the model's als_iter *)
Lemma isw_shape (X : T_X) (N : nat) (dims : list nat) (t : nat) (U0 : list mx) (w0 : list V) (P0 : mx) :
  sk_last dims = Some t -> (forall x, In x dims -> x < length U0) ->
  forall k Um0 n0 mi0, exists Um n mi,
    iter_sweep (hsw N dims X) k ((U0, Um0, U0, n0), mi0)
    = ((st_U (iter (mk X) cs cc R k dims (mkAls w0 U0 P0)), Um, st_U (iter (mk X) cs cc R k dims (mkAls w0 U0 P0)), n), mi).
Proof.
  intros HL Hin. induction k as [|k IH]; intros Um0 n0 mi0.
  - exists Um0, n0, mi0. reflexivity.
  - destruct (IH Um0 n0 mi0) as (Um & n & mi & E). cbn [iter_sweep als_iter]. rewrite E.
    set (stk := iter (mk X) cs cc R k dims (mkAls w0 U0 P0)).
    assert (Hin' : forall x, In x dims -> x < length (st_U stk)).
    { intros x Hx. unfold stk. rewrite iter_len. cbn [st_U]. now apply Hin. }
    rewrite (gen_hsweep_saved V v0 v1 vadd vmul T_X R mk all_zero_mat zeros_like lapack norm2_cols normmax_cols all_zero_wt scale_cols
               V (ktensor V) qkt qip X N dims k (st_U stk) Um n mi (st_w stk) (st_P stk) t HL Hin').
    rewrite als_eta. eexists. eexists. eexists. reflexivity.
Qed.

Theorem gen_silent_residual (X : T_X) (s : shape) (Xd : idx -> V) (good : list mx -> nat -> Prop)
    init normX2 N rank dimorder optdims maxiters stoptol dofix Mret initret iters nr fit (n : nat) :
  gmainS X init normX2 N rank dimorder optdims maxiters stoptol 0 dofix = Some (Mret, initret, (iters, nr, fit)) ->
  0 < maxiters -> k_is_zero normX2 = false ->
  let U0 := k_init_factors init in
  let dims := k_restrict_dims dimorder optdims in
  N = length U0 -> length (k_zeros_utu rank N) = N ->
  sk_last dims = Some n -> (forall x, In x dims -> x < length U0) ->
  holder_ok V v0 v1 vadd vmul R s Xd (mk X) good ->
  let stk := iter (mk X) cs cc R iters dims (mkAls [] U0 (k_zeros_mttkrp X dims rank)) in
  let stb := sweep (mk X) cs cc R iters (removelast dims) stk in
  st_wf V R s stb -> n < length s -> good (st_U stb) n ->
  let st' := sweep (mk X) cs cc R iters dims stk in
  length (st_w st') = R -> nrows (nth n (st_U st') []) = nth n s 0 ->
  normX2 = normsq_den v0 vadd vmul s Xd ->
  nr = resid_den v0 vadd vmul vsub s Xd (den_k v0 v1 vadd vmul (st_model st')) /\
  fit = k_fit nr normX2 /\
  Mret = (if dofix then k_fixsigns else @id (ktensor V)) (k_arrange (st_model st')) /\
  iters < maxiters /\ initret = init.
Proof.
  intros H Hm Hz U0 dims HN Hutu HL Hin Hok stk stb Hwf Hn Hgood st' HwR Hrows HNX.
  destruct (cpals_bridge V mx (list mx) (list V) (ktensor V) T_X c_leF c_zeroF k_init_factors k_restrict_dims k_zeros_mttkrp k_zeros_utu
    gset k_ktensor_init k_innerprod k_is_zero qres0 qres k_fit mk ghad all_zero_mat zeros_like lapack
    norm2_cols normmax_cols all_zero_wt scale_cols qkt qip k_absdiff k_arrange k_fixsigns
    _ _ _ _ _ _ _ _ _ _ _ _ _ _ _ _ H) as (dims' & l & r & Hl & Hrun & HM & Hit & Hnr & Hfit & Hinit).
  (* entry: the prologue loop leaves UtU = U *)
  unfold entry_locals in Hl. fold U0 in Hl. fold dims in Hl.
  destruct (gen_prologue_bridge V U0 (k_zeros_utu rank N)) as (n' & Ep); [congruence|].
  rewrite HN in Hl at 1. rewrite Ep in Hl. injection Hl as <- <-.
  (* the run, projected *)
  destruct (c09l_run_proj _ _ _ _ _ _ _ _ _ _ _ _ _ _ _ Hm Hrun) as (_ & _ & Hst & H0 & _).
  destruct (H0 eq_refl) as (Hrep & _). clear H0.
  pose proof (cpals_iters_bound _ _ _ _ _ _ _ _ _ _ _ _ _ _ _ Hm Hrun) as (Hbound & _).
  rewrite Hit in *. rewrite Hnr, Hfit in Hrep.
  unfold entry_state in Hst, Hrep.
  assert (Em : (maxiters =? 0) = false) by (apply Nat.eqb_neq; lia). rewrite Em in Hst, Hrep.
  (* state after `iters` passes, then the last executed pass *)
  destruct (isw_shape X N dims n U0 [] (k_zeros_mttkrp X dims rank) HL Hin iters (k_zeros_mttkrp X dims rank) n' None)
    as (Um & nk & mi & Ek).
  assert (ES : forall (f : nat -> hSt V mx (list mx) (ktensor V) -> hSt V mx (list mx) (ktensor V)) s0,
            iter_sweep f (S iters) s0 = f iters (iter_sweep f iters s0)) by reflexivity.
  rewrite ES in Hst, Hrep. unfold hL, hSt in *.
  rewrite Ek in Hst, Hrep.
  fold stk in Hst, Hrep.
  assert (Hin' : forall x, In x dims -> x < length (st_U stk)).
  { intros x Hx. unfold stk. rewrite iter_len. cbn [st_U]. now apply Hin. }
  destruct (gen_sweep_residual V v0 v1 vadd vmul vsub vopp Vring T_X R mk all_zero_mat zeros_like lapack norm2_cols normmax_cols
              all_zero_wt scale_cols X s Xd good N dims iters (st_U stk) Um nk mi (st_w stk) (st_P stk) n normX2 Hok HL Hin')
    as (l' & ip & Eh & Eres); rewrite ?als_eta; auto.
  rewrite als_eta in Eh, Eres. fold st' in Eh, Eres.
  rewrite Eh in Hst, Hrep.
  unfold h_fit_mttkrp, h_formulas in Hrep. cbn [snd] in Hrep. rewrite Hz in Hrep. injection Hrep as -> ->.
  split; [exact Eres|]. split; [reflexivity|].
  split; [|split; [exact Hbound|exact Hinit]].
  rewrite Hst in HM. unfold cpals_finish, h_onM in HM. destruct dofix; cbn in HM; injection HM as <-; reflexivity.
Qed.

End GenSilent.
