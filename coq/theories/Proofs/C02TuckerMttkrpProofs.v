(* Proofs/C02TuckerMttkrpProofs.v — ttensor.mttkrp: W_i = U_i^T V_i (i <> n), Y = core.mttkrp(W, n), U_n Y equals the defining sum
   spec_mttkrp on the array the Tucker tensor denotes; for all shapes, core sizes, ranks and values of a commutative ring. *)
From Coq Require Import List Arith Lia Bool Permutation Ring.
From PV Require Import Base.Index Base.Perm Base.Sum Np.Array Model.Sparse Model.Repr Model.C02Spec Model.C02Dense Model.C02Sparse
                       Model.C02Tucker Proofs.C02DenseProofs Proofs.C02SparseProofs Proofs.C02MttkrpProofs Proofs.C02KruskalProofs
                       Proofs.C02SpKernelsProofs Proofs.C02TenmatProofs Proofs.C02TuckerProofs.
Import ListNotations.

Lemma remove_at_nil {A} n : remove_at n (@nil A) = [].
Proof. unfold remove_at. now rewrite firstn_nil, skipn_nil. Qed.

Lemma nth_remove_at {A} (d : A) : forall (l : list A) n k,
  nth k (remove_at n l) d = nth (if k <? n then k else S k) l d.
Proof.
  induction l as [|x l IH]; intros n k.
  - rewrite remove_at_nil. destruct (k <? n); destruct k; reflexivity.
  - destruct n as [|n].
    + unfold remove_at. cbn [firstn skipn app]. reflexivity.
    + rewrite remove_at_cons. destruct k as [|k]; [reflexivity|]. cbn [nth]. rewrite IH.
      change (S k <? S n) with (k <? n). destruct (k <? n); reflexivity.
Qed.

Lemma firstn_In_c02 {A} (x : A) : forall n l, In x (firstn n l) -> In x l.
Proof. induction n as [|n IH]; intros [|y l] H; cbn in *; try contradiction. destruct H; auto. Qed.
Lemma skipn_In_c02 {A} (x : A) : forall n l, In x (skipn n l) -> In x l.
Proof. induction n as [|n IH]; intros [|y l] H; cbn in *; auto. Qed.

Lemma in_remove_at {A} (x : A) n l : In x (remove_at n l) -> In x l.
Proof.
  unfold remove_at. intros H. apply in_app_or in H as [H|H].
  - eapply firstn_In_c02. exact H.
  - eapply skipn_In_c02. exact H.
Qed.

Section P.
Variable V : Type.
Variables (v0 v1 : V) (vadd vmul vsub : V -> V -> V) (vopp : V -> V).
Hypothesis Vring : ring_theory v0 v1 vadd vmul vsub vopp (@eq V).
Add Ring Vr14 : Vring.

Local Notation "x + y" := (vadd x y).
Local Notation "x * y" := (vmul x y).
Local Notation Sn := (sum_n v0 vadd).
Local Notation So := (sum_over v0 vadd).
Local Notation tp := (tprod v0 v1 vmul).
Local Notation kp := (kprod v0 v1 vmul).
Local Notation dent := (den_t v0 v1 vadd vmul).
Local Notation den := (den_dense v0).

Lemma tprod_insert : forall (Us : list (@matrix V)) n x (j c : idx), n < length Us -> n < length c ->
  length j = length (remove_at n Us) ->
  tp Us (insert_at n x j) c = mget v0 (nth n Us []) x (nth n c 0) * tp (remove_at n Us) j (remove_at n c).
Proof.
  induction Us as [|U Us IH]; intros n x j c Hn Hc HL; cbn [length] in Hn; [lia|].
  destruct c as [|y c]; [cbn in Hc; lia|]. cbn [length] in Hc. destruct n as [|n].
  - unfold insert_at, remove_at. cbn [firstn skipn app nth tprod]. reflexivity.
  - rewrite !remove_at_cons in *. destruct j as [|x0 j]; [cbn in HL; lia|].
    rewrite insert_at_cons. cbn [tprod nth]. rewrite IH by (cbn in HL; lia). ring.
Qed.

(* Σ_j Π_m A_m[j_m, c_m] B_m[j_m, r] = Π_m (A_m^T B_m)[c_m, r] *)
Lemma sum_tprod_kprod r : forall (As Bs Cs : list (@matrix V)) (c : idx),
  length Bs = length As -> length Cs = length As -> length c = length As ->
  (forall k, k < length As -> mget v0 (nth k Cs []) (nth k c 0) r =
     Sn (nrows (nth k As [])) (fun x => mget v0 (nth k As []) x (nth k c 0) * mget v0 (nth k Bs []) x r)) ->
  So (allsubs (map (@nrows V) As)) (fun j => tp As j c * kp Bs j r) = kp Cs c r.
Proof.
  induction As as [|A As IH]; intros [|B Bs] [|C Cs] [|y c] HB HCs Hc H; cbn [length] in *; try lia.
  - cbn. ring.
  - cbn [map]. rewrite (sum_allsubs_cons V v0 v1 vadd vmul vsub vopp Vring).
    cbn [kprod]. pose proof (H 0 ltac:(lia)) as H0. cbn [nth] in H0. rewrite H0.
    rewrite <- (IH Bs Cs c) by (try lia; intros k Hk; apply (H (S k)); lia).
    unfold nrows at 1. unfold sum_n. rewrite <- (sum_over_scale_r _ _ _ _ _ _ _ Vring).
    apply sum_over_ext. intros x _. rewrite <- (sum_over_scale_l _ _ _ _ _ _ _ Vring).
    apply sum_over_ext. intros j _. cbn [tprod kprod]. ring.
Qed.

Lemma wf_cols_mm M U J K C tr : wf_cols V C (mm v0 vadd vmul M U J K C tr).
Proof.
  unfold wf_cols, mm. apply Forall_forall. intros row H. apply in_map_iff in H as (x & <- & _).
  now rewrite map_length, seq_length.
Qed.

(* ---- ttensor.mttkrp (factor list) ---- *)
Theorem impl_mttkrp_t_correct (T : ttensor V) (Vs : list (@matrix V)) n R x r :
  wf_dense (tcore T) -> 2 <= length (tfactors T) -> length (dshape (tcore T)) = length (tfactors T) ->
  length Vs = length (tfactors T) -> n < length (tfactors T) -> x < nth n (tshape T) 0 -> r < R ->
  impl_mttkrp_t v0 vadd vmul T Vs n R x r =
  spec_mttkrp v0 v1 vadd vmul (dent T) (tshape T) n (repeat v1 R) Vs x r.
Proof.
  intros W H2 HC HV Hn Hx Hr. unfold impl_mttkrp_t.
  set (Us := tfactors T) in *. set (cs := dshape (tcore T)) in *. set (s := tshape T) in *.
  set (F := fun i => mm v0 vadd vmul (nth i Us []) (nth i Vs []) (nth i cs 0) (nrows (nth i Us [])) R true).
  set (Ws := map F (seq 0 (length Us))).
  assert (HN : length s = length Us) by (unfold s, tshape; now rewrite map_length).
  assert (HLW : length Ws = length cs) by (unfold Ws; now rewrite map_length, seq_length, HC).
  assert (HnW : forall i, i < length Us -> nth i Ws [] = F i).
  { intros i Hi. unfold Ws. now rewrite (nth_map_seq_gen [] F). }
  assert (HWF : Forall (wf_cols V R) (remove_at n Ws)).
  { apply Forall_forall. intros M HM. apply in_remove_at in HM. unfold Ws in HM.
    apply in_map_iff in HM as (i & <- & _). apply wf_cols_mm. }
  assert (Hrows : map (@length _) (remove_at n Ws) = remove_at n cs).
  { rewrite map_remove_at. f_equal. apply (nth_ext _ _ 0 0); [now rewrite map_length|].
    intros i Hi. rewrite map_length in Hi.
    change 0 with (length (@nil (list V))) at 1. rewrite (map_nth (@length _)).
    rewrite HnW by (rewrite <- HC, <- HLW; exact Hi). unfold F, mm. now rewrite map_length, seq_length. }
  destruct (impl_mttkrp_dense_correct V v0 v1 vadd vmul vsub vopp Vring (tcore T) Ws R n W
              ltac:(fold cs; lia) ltac:(fold cs; lia) HLW HWF Hrows) as (_ & _ & DY). fold cs in DY.
  assert (Hone : nth r (repeat v1 R) v0 = v1).
  { rewrite nth_indep with (d' := v1) by (now rewrite repeat_length). apply nth_repeat. }
  (* right-hand side *)
  unfold spec_mttkrp at 1. rewrite Hone.
  assert (Hrs : remove_at n s = map (@nrows V) (remove_at n Us)) by (unfold s, tshape; now rewrite map_remove_at).
  transitivity (So (allsubs cs) (fun c => den (tcore T) c *
                  (mget v0 (nth n Us []) x (nth n c 0) * kp (remove_at n Ws) (remove_at n c) r))).
  2:{ transitivity (So (allsubs (remove_at n s)) (fun j => So (allsubs cs)
          (fun c => den (tcore T) c * tp Us (insert_at n x j) c * (v1 * kp (remove_at n Vs) j r)))).
      2:{ apply sum_over_ext. intros j Hj. apply in_allsubs in Hj. unfold den_t. fold s cs Us.
          rewrite inb_insert by lia. rewrite Hj. apply Nat.ltb_lt in Hx. rewrite Hx. cbn [andb].
          now rewrite (sum_over_scale_r _ _ _ _ _ _ _ Vring). }
      rewrite (sum_over_swap _ _ _ _ _ _ _ Vring). apply sum_over_ext. intros c Hc. apply in_allsubs in Hc.
      pose proof (inb_length _ _ Hc) as HLc.
      transitivity (den (tcore T) c * (mget v0 (nth n Us []) x (nth n c 0) *
                      So (allsubs (map (@nrows V) (remove_at n Us))) (fun j => tp (remove_at n Us) j (remove_at n c) * kp (remove_at n Vs) j r))).
      - f_equal. f_equal. symmetry. apply sum_tprod_kprod.
        + pose proof (remove_at_length n Us Hn) as E1. pose proof (remove_at_length n Vs ltac:(lia)) as E2. lia.
        + pose proof (remove_at_length n Us Hn) as E1. pose proof (remove_at_length n Ws ltac:(lia)) as E2. lia.
        + pose proof (remove_at_length n Us Hn) as E1. pose proof (remove_at_length n c ltac:(lia)) as E2. lia.
        + intros k Hk. rewrite !nth_remove_at.
          set (k' := if k <? n then k else S k).
          assert (Hk' : k' < length Us).
          { pose proof (remove_at_length n Us Hn). unfold k'. destruct (Nat.ltb_spec k n); lia. }
          rewrite HnW by exact Hk'. unfold F. apply mget_mm.
          * apply c02_inb_nth in Hc as [_ Hkk]. apply Hkk. lia.
          * exact Hr.
      - rewrite <- Hrs. rewrite <- (sum_over_scale_l _ _ _ _ _ _ _ Vring), <- (sum_over_scale_l _ _ _ _ _ _ _ Vring).
        apply sum_over_ext. intros j Hj. apply in_allsubs in Hj.
        rewrite tprod_insert; [ring|exact Hn|lia|].
        apply inb_length in Hj. rewrite Hj, Hrs. now rewrite map_length. }
  (* left-hand side *)
  rewrite (sum_allsubs_insert V v0 v1 vadd vmul vsub vopp Vring cs n _ ltac:(lia)).
  apply sum_n_ext. intros cn Hcn. rewrite DY by assumption. unfold spec_mttkrp. rewrite Hone.
  rewrite <- (sum_over_scale_l _ _ _ _ _ _ _ Vring). apply sum_over_ext. intros c' Hc'.
  assert (L : n <= length c').
  { apply in_allsubs, inb_length in Hc'. pose proof (remove_at_length n cs ltac:(lia)). lia. }
  rewrite nth_insert_at, remove_insert_at by exact L. ring.
Qed.

End P.
