"""W4S slice for C09, second part: the PROLOGUE of cp_als — to be INCLUDEd by tools/props/c09.py
(`INCLUDE = ["w4s_c09", "w4s_c09b"]`): generated unit GenCpAlsPre (pyttb/cp_als.py::cp_als, region `N = input_tensor.ndims` .. dispatch on
the initial guess: argument checks, defaults, init dispatch), theorem file Props/W4SC09b.v, differential op sk_cpals_pre."""
from props import w4s as _w

PROP = "W4S"
LEVEL = _w.LEVEL
GEN_UNITS = ['GenCpAlsPre']
COQ_TARGETS = ['Props/W4SC09b.vo'] + ['Model/W4SHarnessCpAlsPre.vo']
THEOREM_FILES = ['Props/W4SC09b.v']
COQ_IMPORTS = ("From Coq Require Import List ZArith Bool.\n"
               "From PV Require Import Model.W4SHarnessCpAlsPre.\n")
RULE = _w.RULE
EXPLANATION = _w.EXPLANATION
CORRESPONDENCE_ONLY = []
TRUSTED_EXTRA = _w.TRUSTED_EXTRA
SHARD = _w.SHARD
_OPS = ('sk_cpals_pre',)


def gen_cases(rng, tier):
    return _w._cpals_pre_cases(rng, tier == "thorough")


run_impl = _w.run_impl
coq_check = _w.coq_check
oracle = _w.oracle
