(* Model/C06Ops.v — canonical form of a coordinate list and the boolean checkers of the C06 correspondence cases.
   canon S = the F-order scan of the dense expansion of S (entries sorted by linear index, zeros dropped): a
   function of the denotation only.  squash model.  Definitions only. *)
From Coq Require Import List ZArith Bool Arith QArith Qcanon.
From PV Require Import Base.Index Np.Array Model.Sparse Model.Harness Model.C03Ops.
Import ListNotations.
Local Open Scope nat_scope.

Section Canon.
Context {V : Type} (v0 : V) (isz : V -> bool).
Definition canon (S : sparse V) : sparse V := to_sptensor v0 isz (full v0 S).
End Canon.

(* Z observations *)
Definition sp_canon_eqb (X Y : sparse Z) : bool := sp_raw_eqb (canon 0%Z zisz X) (canon 0%Z zisz Y).
(* all observations (one per stored order of the operands) are well-formed and have the same canonical form *)
Definition all_same_sparse (l : list (sparse Z)) : bool :=
  match l with
  | [] => true
  | X :: r => forallb (wf_spb zisz) l && forallb (sp_canon_eqb X) r
  end.
(* the same comparison without expanding the shape (used when the shape is large): both well-formed, same shape,
   same number of entries, and every entry of X is an entry of Y — by canon_unique that is equality up to order *)
Definition sp_perm_eqb (X Y : sparse Z) : bool :=
  nvec_eqb (sshape X) (sshape Y) && Nat.eqb (nnz X) (nnz Y) &&
  forallb (fun e => (zden_sp Y (fst e) =? snd e)%Z) (entries X).
Definition all_same_sparse_e (l : list (sparse Z)) : bool :=
  match l with
  | [] => true
  | X :: r => forallb (wf_spb zisz) l && forallb (sp_perm_eqb X) r
  end.
Definition all_same_dense (l : list (dense Z)) : bool :=
  match l with [] => true | X :: r => forallb (@wf_denseb Z) l && forallb (dense_eqb X) r end.

(* xval observations (division): exact comparison *)
Definition xval_eqb (x y : xval) : bool :=
  match x, y with
  | XFin a, XFin b => Qc_eq_bool a b
  | XPInf, XPInf | XNInf, XNInf | XNaN, XNaN => true
  | _, _ => false
  end.
Definition xsp_raw_eqb (A B : sparse xval) : bool :=
  nvec_eqb (sshape A) (sshape B) && nmat_eqb (ssubs A) (ssubs B) && list_eqb xval_eqb (svals A) (svals B).
Definition xsp_canon_eqb (X Y : sparse xval) : bool := xsp_raw_eqb (canon x0 xisz X) (canon x0 xisz Y).
Definition all_same_xsparse (l : list (sparse xval)) : bool :=
  match l with
  | [] => true
  | X :: r => forallb (wf_spb xisz) l && forallb (xsp_canon_eqb X) r
  end.
Definition all_same_xdense (l : list (dense xval)) : bool :=
  match l with
  | [] => true
  | X :: r => forallb (@wf_denseb xval) l &&
              forallb (fun Y => nvec_eqb (dshape X) (dshape Y) && list_eqb xval_eqb (ddata X) (ddata Y)) r
  end.

(* squash: renumber every mode by the rank of each index among the distinct indices used in that mode; the shape
   becomes the number of distinct indices per mode ("remove empty slices") *)
Fixpoint ins_nat (x : nat) (l : list nat) : list nat :=
  match l with
  | [] => [x]
  | y :: r => if x <? y then x :: l else if Nat.eqb x y then l else y :: ins_nat x r
  end.
Definition uniq_nat (l : list nat) : list nat := fold_right ins_nat [] l.
Fixpoint rank_of (x : nat) (l : list nat) : nat :=
  match l with [] => 0 | y :: r => if Nat.eqb x y then 0 else S (rank_of x r) end.
Definition column (n : nat) (subs : list idx) : list nat := map (fun i => nth n i 0) subs.
Definition squash_maps {V} (S : sparse V) : list (list nat) :=
  map (fun n => uniq_nat (column n (ssubs S))) (seq 0 (length (sshape S))).
Definition squash {V} (S : sparse V) : sparse V :=
  let maps := squash_maps S in
  mkSp (map (@length nat) maps)
       (map (fun i => map (fun p => rank_of (fst p) (snd p)) (combine i maps)) (ssubs S))
       (svals S).
(* what pyttb returns today (finding A-27): every mode gets extent nnz *)
Definition squash_asis {V} (S : sparse V) : sparse V :=
  mkSp (map (fun _ => length (ssubs S)) (sshape S)) (ssubs (squash S)) (svals S).

(* ------------------------------------------------------------------------------------------------------------
   second stream (scalar-valued operations, sptenmat, mask): checkers appended for tools/props/c06.py *)
(* the numbers returned for the stored orders of one request are all equal (exact comparison in Qc) *)
Definition all_same_scalar (l : list Qc) : bool :=
  match l with [] => true | x :: r => forallb (Qc_eq_bool x) r end.
(* inner product of two denotations over all subscripts of the shape *)
Definition zinner (s : shape) (f g : idx -> Z) : Z :=
  fold_right Z.add 0%Z (map (fun k => (f (ind2sub s k) * g (ind2sub s k))%Z) (seq 0 (size s))).
(* the first returned number is exactly the integer z *)
Definition scalar_is (l : list Qc) (z : Z) : bool :=
  match l with [] => true | x :: _ => Qc_eq_bool x (z2q z) end.
(* the square of the first returned number is the integer z up to 1e-9 relative (norm = sqrt of a sum of squares) *)
Definition norm_sq_is (l : list Qc) (z : Z) : bool :=
  match l with [] => true | x :: _ => qclose tol9 (x * x)%Qc (z2q z) end.
(* association lists subscript -> value (mask: one value per nonzero of the mask, listed in the mask's stored order):
   keys pairwise distinct in every run and every run holds the same pairs *)
Definition assoc_eqb (X Y : list (idx * Z)) : bool :=
  Nat.eqb (length X) (length Y) &&
  forallb (fun e => existsb (fun e' => idx_eqb (fst e) (fst e') && (snd e =? snd e')%Z) Y) X.
Definition all_same_assoc (l : list (list (idx * Z))) : bool :=
  match l with
  | [] => true
  | X :: r => forallb (fun Y => nodupb (map fst Y)) l && forallb (assoc_eqb X) r
  end.
