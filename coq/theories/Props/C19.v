(* Props/C19.v — ill-formed requests are rejected, not answered.
   For each operation: guard_<op> (the checks the code performs, Model/C19Guards.v) = decide (pre_<op>), i.e.
   pre = false -> Err and pre = true -> Ok tt; where the code is weaker: the full statement is refuted by a
   witness and the partial statement is proved.  Only statements, `exact`, Print Assumptions. *)
From Coq Require Import List ZArith Bool.
From PV Require Import Np.NpZ Gen.GenUtils Model.C19Guards Proofs.C19Proofs Proofs.C19Ttv.
Import ListNotations.
Local Open Scope Z_scope.

(* generic: what "guard = decide pre" means, and that a rejected mutating request leaves the receiver unchanged *)
Theorem C19_decide_rejects : forall (g : res unit) p, g = decide p -> p = false -> g = Err.
Proof. exact decide_rejects. Qed.
Print Assumptions C19_decide_rejects.
Theorem C19_decide_accepts : forall (g : res unit) p, g = decide p -> p = true -> g = Ok tt.
Proof. exact decide_accepts. Qed.
Print Assumptions C19_decide_accepts.
Theorem C19_receiver_unchanged : forall S (g : res unit) (upd : S -> S) (s : S), g = Err -> run_mut g upd s = (s, false).
Proof. exact @run_mut_rejected. Qed.
Print Assumptions C19_receiver_unchanged.

(* ---- tensor ---- *)
Theorem C19_tensor_ctor : forall dshape shape, guard_tensor_ctor dshape shape = decide (pre_tensor_ctor dshape shape).
Proof. exact tensor_ctor_decides. Qed.
Print Assumptions C19_tensor_ctor.
Example C19_tensor_ctor_ex : guard_tensor_ctor [2; 3] (Some [3; 3]) = Err /\ guard_tensor_ctor [2; 3] (Some [3; 2]) = Ok tt.
Proof. split; reflexivity. Qed.

Theorem C19_tensor_reshape : forall s new, guard_tensor_reshape s new = decide (pre_tensor_reshape s new).
Proof. exact tensor_reshape_decides. Qed.
Print Assumptions C19_tensor_reshape.

Theorem C19_tensor_innerprod : forall s u, guard_tensor_innerprod s u = decide (pre_tensor_innerprod s u).
Proof. exact tensor_innerprod_decides. Qed.
Print Assumptions C19_tensor_innerprod.

Theorem C19_tensor_permute_refuted : ~ tensor_permute_stmt.
Proof. exact tensor_permute_refuted. Qed.
Print Assumptions C19_tensor_permute_refuted.
Theorem C19_tensor_permute_partial : forall s order,
  all_ones order = false -> (forall x, In x order -> 0 <= x) ->
  guard_tensor_permute s order = decide (pre_tensor_permute s order).
Proof. exact tensor_permute_partial. Qed.
Print Assumptions C19_tensor_permute_partial.
Example C19_tensor_permute_ex : guard_tensor_permute [2; 3; 4] [2; 0; 1] = Ok tt /\ guard_tensor_permute [2; 3; 4] [2; 0; 0] = Err.
Proof. split; reflexivity. Qed.

Theorem C19_tensor_binop_refuted : ~ tensor_binop_stmt.
Proof. exact tensor_binop_refuted. Qed.
Print Assumptions C19_tensor_binop_refuted.
Theorem C19_tensor_binop_accepts : forall s u, pre_tensor_binop s u = true -> guard_tensor_binop s u = Ok tt.
Proof. exact tensor_binop_accepts. Qed.
Print Assumptions C19_tensor_binop_accepts.
Theorem C19_tensor_binop_rejects_partial : forall s u,
  length s = length u -> forallb (fun x => negb (x =? 1)) s = true -> forallb (fun x => negb (x =? 1)) u = true ->
  pre_tensor_binop s u = false -> guard_tensor_binop s u = Err.
Proof. exact tensor_binop_rejects_partial. Qed.
Print Assumptions C19_tensor_binop_rejects_partial.

Theorem C19_tensor_contract_refuted : ~ tensor_contract_stmt.
Proof. exact tensor_contract_refuted. Qed.
Print Assumptions C19_tensor_contract_refuted.
Theorem C19_tensor_contract_rejects_partial : forall s i1 i2, 0 <= i1 -> 0 <= i2 ->
  pre_tensor_contract s i1 i2 = false -> guard_tensor_contract s i1 i2 = Err.
Proof. exact tensor_contract_rejects_partial. Qed.
Print Assumptions C19_tensor_contract_rejects_partial.

(* ---- requests shared by several classes ---- *)
(* "two operands of the same shape": sptensor + - * & | ==, ktensor innerprod / +, ttensor innerprod, tenmat +, sumtensor + / innerprod *)
Theorem C19_same_shape : forall s u, guard_same_shape s u = decide (pre_same_shape s u).
Proof. exact same_shape_decides. Qed.
Print Assumptions C19_same_shape.
(* "sorted(order) == range(N)" (sptensor/ktensor/ttensor.permute, dimorder of the algorithms) is exactly "order is a permutation" *)
Theorem C19_sorted_perm : forall s order, guard_sorted_perm s order = decide (pre_perm s order).
Proof. exact sorted_perm_decides. Qed.
Print Assumptions C19_sorted_perm.
Example C19_sorted_perm_ex : guard_sorted_perm [2; 3; 4] [2; 0; 1] = Ok tt /\ guard_sorted_perm [2; 3; 4] [1; 1; 0] = Err /\ guard_sorted_perm [2; 3; 4] [-1; 0; 1] = Err.
Proof. repeat split; reflexivity. Qed.

(* ---- sptensor ---- *)
Theorem C19_sptensor_innerprod_refuted : ~ sptensor_innerprod_stmt.
Proof. exact sptensor_innerprod_refuted. Qed.
Print Assumptions C19_sptensor_innerprod_refuted.
Theorem C19_sptensor_innerprod_partial : forall s u, guard_sptensor_innerprod s false u = decide (pre_sptensor_innerprod s false u).
Proof. exact sptensor_innerprod_partial. Qed.
Print Assumptions C19_sptensor_innerprod_partial.

(* ---- ktensor ---- *)
Theorem C19_ktensor_ctor : forall ms w, guard_ktensor_ctor ms w = decide (pre_ktensor_ctor ms w).
Proof. exact ktensor_ctor_decides. Qed.
Print Assumptions C19_ktensor_ctor.
Theorem C19_ktensor_arrange_refuted : ~ ktensor_arrange_stmt.
Proof. exact ktensor_arrange_refuted. Qed.
Print Assumptions C19_ktensor_arrange_refuted.
Theorem C19_ktensor_arrange_partial : forall R p, (forall x, In x p -> 0 <= x) -> nodupb p = true ->
  guard_ktensor_arrange R p = decide (pre_ktensor_arrange R p).
Proof. exact ktensor_arrange_partial. Qed.
Print Assumptions C19_ktensor_arrange_partial.
Theorem C19_ktensor_extract : forall R idx, guard_ktensor_extract R idx = decide (pre_ktensor_extract R idx).
Proof. exact ktensor_extract_decides. Qed.
Print Assumptions C19_ktensor_extract.

(* ---- ttensor ---- *)
Theorem C19_ttensor_ctor : forall core ms, guard_ttensor_ctor core ms = decide (pre_ttensor_ctor core ms).
Proof. exact ttensor_ctor_decides. Qed.
Print Assumptions C19_ttensor_ctor.
Example C19_ttensor_ctor_ex : guard_ttensor_ctor [2; 3] [(4, 2); (5, 3)] = Ok tt /\ guard_ttensor_ctor [2; 3] [(4, 3); (5, 2)] = Err.
Proof. split; reflexivity. Qed.

(* ---- sptenmat (A-44) ---- *)
Theorem C19_sptenmat_ctor_refuted : ~ sptenmat_ctor_stmt.
Proof. exact sptenmat_ctor_refuted. Qed.
Print Assumptions C19_sptenmat_ctor_refuted.
Theorem C19_sptenmat_ctor_partial : forall mr mc rd cd ts,
  mr <> zprod (pickz ts rd) -> mc <> zprod (pickz ts cd) ->
  guard_sptenmat_ctor mr mc rd cd ts = decide (pre_sptenmat_ctor mr mc rd cd ts).
Proof. exact sptenmat_ctor_partial. Qed.
Print Assumptions C19_sptenmat_ctor_partial.

(* ---- tenmat product, sumtensor constructor, khatrirao, import_data ---- *)
Theorem C19_tenmat_mul : forall a b, guard_tenmat_mul a b = decide (pre_tenmat_mul a b).
Proof. exact tenmat_mul_decides. Qed.
Print Assumptions C19_tenmat_mul.
Theorem C19_sumtensor_ctor : forall l, guard_all_same_shape l = decide (pre_all_same_shape l).
Proof. exact all_same_shape_decides. Qed.
Print Assumptions C19_sumtensor_ctor.
Theorem C19_khatrirao : forall ms, guard_khatrirao ms = decide (pre_khatrirao ms).
Proof. exact khatrirao_decides. Qed.
Print Assumptions C19_khatrirao.
Theorem C19_import : forall t n k, guard_import t n k = decide (pre_import t n k).
Proof. exact import_decides. Qed.
Print Assumptions C19_import.

(* ---- mode selection through the generated tt_dimscheck (A-42 repaired) ---- *)
Theorem C19_dimscheck_rejects_bad_modes : forall N M d, modes_ok N d = false -> tt_dimscheck N M (Some d) None = Err.
Proof. exact dimscheck_rejects_bad_modes. Qed.
Print Assumptions C19_dimscheck_rejects_bad_modes.
Example C19_dimscheck_ex : tt_dimscheck 2 (Some 2) (Some [1; 1]) None = Err /\ tt_dimscheck 2 None (Some [5]) None = Err
  /\ tt_dimscheck 3 (Some 2) (Some [2; 0]) None = Ok ([0; 2], Some [1; 0]).
Proof. repeat split; reflexivity. Qed.
Theorem C19_tensor_ttv_rejects_bad_modes : forall s vlens d, modes_ok (ndim s) d = false -> guard_tensor_ttv s vlens (Some d) None = Err.
Proof. exact tensor_ttv_rejects_bad_modes. Qed.
Print Assumptions C19_tensor_ttv_rejects_bad_modes.
Theorem C19_tensor_ttm_rejects_bad_modes : forall s ms d tr, modes_ok (ndim s) d = false -> guard_tensor_ttm s ms (Some d) None tr = Err.
Proof. exact tensor_ttm_rejects_bad_modes. Qed.
Print Assumptions C19_tensor_ttm_rejects_bad_modes.
Theorem C19_tensor_ttv_rejects_both : forall s vlens d e, guard_tensor_ttv s vlens (Some d) (Some e) = Err.
Proof. exact tensor_ttv_rejects_both. Qed.
Print Assumptions C19_tensor_ttv_rejects_both.
Theorem C19_tensor_ttv_rejects_negative : forall s vlens d x, In x d -> x < 0 -> guard_tensor_ttv s vlens (Some d) None = Err.
Proof. exact tensor_ttv_rejects_negative. Qed.
Print Assumptions C19_tensor_ttv_rejects_negative.
Theorem C19_tensor_ttv_rejects_exclude_range : forall s vlens e x,
  In x e -> ~ (0 <= x < ndim s) -> guard_tensor_ttv s vlens None (Some e) = Err.
Proof. exact tensor_ttv_rejects_exclude_range. Qed.
Print Assumptions C19_tensor_ttv_rejects_exclude_range.
Theorem C19_tensor_ttv_rejects_count : forall s vlens d, (forall x, In x d -> 0 <= x < ndim s) -> NoDup d ->
  (zlen vlens > ndim s \/ (zlen vlens <> ndim s /\ zlen vlens <> zlen d)) -> guard_tensor_ttv s vlens (Some d) None = Err.
Proof. exact tensor_ttv_rejects_count. Qed.
Print Assumptions C19_tensor_ttv_rejects_count.
Theorem C19_tensor_ttm_rejects_both : forall s ms d e tr, guard_tensor_ttm s ms (Some d) (Some e) tr = Err.
Proof. exact tensor_ttm_rejects_both. Qed.
Print Assumptions C19_tensor_ttm_rejects_both.
Theorem C19_tensor_ttm_rejects_negative : forall s ms d x tr, In x d -> x < 0 -> guard_tensor_ttm s ms (Some d) None tr = Err.
Proof. exact tensor_ttm_rejects_negative. Qed.
Print Assumptions C19_tensor_ttm_rejects_negative.
Theorem C19_tensor_ttm_rejects_count : forall s ms d tr, (forall x, In x d -> 0 <= x < ndim s) -> NoDup d ->
  (zlen ms > ndim s \/ (zlen ms <> ndim s /\ zlen ms <> zlen d)) -> guard_tensor_ttm s ms (Some d) None tr = Err.
Proof. exact tensor_ttm_rejects_count. Qed.
Print Assumptions C19_tensor_ttm_rejects_count.
Example C19_tensor_ttv_ex : guard_tensor_ttv [2; 3; 4] [4; 2] (Some [2; 0]) None = Ok tt /\ guard_tensor_ttv [2; 3; 4] [2; 4] (Some [2; 0]) None = Err.
Proof. split; reflexivity. Qed.

(* modes beyond the order of the tensor *)
Theorem C19_tensor_ttv_rejects_out_of_range : forall s vlens d x,
  In x d -> ndim s <= x -> guard_tensor_ttv s vlens (Some d) None = Err.
Proof. exact tensor_ttv_rejects_out_of_range. Qed.
Print Assumptions C19_tensor_ttv_rejects_out_of_range.
