(* Model/C07Req.v — request level of permute / reshape: the ARGUMENT PARSING of orders and shapes (property anchor
   pyttb/pyttb_utils.py parse_one_d / parse_shape) through the GENERATED functions of Gen/GenUtils3b.v, in front of the
   operation models of Model/C07Ops.v / C07Ops2.v, and multi-step histories (lists of steps run on one object).
   Source anchors: every permute starts with `order = parse_one_d(order)`; tensor.reshape / sptensor.reshape with
   `shape = parse_shape(shape)`.  An order / shape that is not made of integers never reaches a result in pyttb
   (numpy refuses a float as transpose axis / subscript column / list index; parse_shape raises), and a negative entry
   fails every `sort(order) == arange(ndims)` test resp. numpy's reshape / tt_ind2sub: both are rejections here.
   Definitions only; proofs in Proofs/C07Req.v. *)
From Coq Require Import List ZArith Arith Bool.
From PV Require Import Base.Index Base.Perm Np.NpZ Np.NpZ2 Np.NpZ3 Np.NpZ3b Gen.GenUtils3b Np.Array Model.Sparse
  Model.Repr Model.C07Ops Model.C07Ops2.
Import ListNotations.

(* a vector of Python ints as mode numbers / sizes: every entry must be >= 0 *)
Definition nats_of (l : list Z) : option (list nat) :=
  if forallb (fun z => (0 <=? z)%Z) l then Some (map Z.to_nat l) else None.

(* parse_one_d(order): a one-dimensional integer array *)
Definition order_of (x : pyshp) : option (list Z) :=
  match parse_one_d x with
  | Ok a => if nd_is_integer a && (nd_ndim a =? 1)%Z then Some (nd_ints a) else None
  | Err => None
  end.

(* parse_shape(shape); a target WITHOUT modes — (), [] — never reaches a result: tensor.reshape ends in the constructor's "Empty
   tensor cannot contain any elements", sptensor.reshape in np.unravel_index's refusal of a 0-d target (stored entries) or in the
   constructor's refusal of the float shape that np.concatenate((keep_shape, ())) makes (nothing stored) *)
Definition shape_of (x : pyshp) : option (list nat) :=
  match parse_shape x with Ok [] => None | Ok l => nats_of l | Err => None end.

(* an operation that takes an order, given the request as written by the caller *)
Definition with_order_z {X} (f : list nat -> option X) (pz : list Z) : option X :=
  match nats_of pz with Some p => f p | None => None end.
Definition with_order {X} (f : list nat -> option X) (x : pyshp) : option X :=
  match order_of x with Some pz => with_order_z f pz | None => None end.
Definition with_shape {X} (f : list nat -> option X) (x : pyshp) : option X :=
  match shape_of x with Some s => f s | None => None end.

(* a history of permutes on any holder, and the single order it amounts to *)
Section PermList.
Context {X : Type} (perm : X -> list nat -> option X).
Fixpoint run_perm (x : X) (l : list (list nat)) : option X :=
  match l with
  | [] => Some x
  | p :: l' => match perm x p with Some R => run_perm R l' | None => None end
  end.
End PermList.
Fixpoint compose_all (p : list nat) (l : list (list nat)) : list nat :=
  match l with
  | [] => p
  | q :: l' => pick 0 (compose_all q l') p
  end.

Section Req.
Context {V : Type} (v0 : V).

Definition permute_d_req (T : dense V) (x : pyshp) := with_order (permute_d v0 T) x.
Definition permute_sp_req (S : sparse V) (x : pyshp) := with_order (permute_sp S) x.
Definition permute_k_req (K : ktensor V) (x : pyshp) := with_order (permute_k K) x.
Definition permute_t_req (T : ttensor V) (x : pyshp) := with_order (permute_t v0 T) x.
Definition permute_st_req (T : sttensor V) (x : pyshp) := with_order (permute_st T) x.
Definition reshape_d_req (T : dense V) (x : pyshp) := with_shape (reshape_d v0 T) x.
Definition reshape_sp_all_req (S : sparse V) (x : pyshp) := with_shape (reshape_sp_all S) x.

(* sptensor.reshape(new_shape, old_modes) as the property demands it: the listed modes are mode numbers 0..N-1 (a
   negative or out-of-range mode is not a mode of the tensor: rejected) *)
Definition reshape_sp_req (S : sparse V) (x : pyshp) (oldz : list Z) : option (sparse V) :=
  match nats_of oldz with
  | Some old => if forallb (fun k => k <? length (sshape S)) old
                then with_shape (fun s' => reshape_sp S s' old) x else None
  | None => None
  end.

(* ---------------- histories: a list of steps run on ONE object ---------------- *)
Inductive step := StPermute (p : list nat) | StReshape (s' : shape) | StSqueeze.

Definition lift_sq {X} (o : option X) : option (sq_res (V:=V) X) :=
  match o with Some x => Some (SqT x) | None => None end.

Definition step_d (T : dense V) (st : step) : option (sq_res (V:=V) (dense V)) :=
  match st with
  | StPermute p => lift_sq (permute_d v0 T p)
  | StReshape s' => lift_sq (reshape_d v0 T s')
  | StSqueeze => Some (squeeze_d v0 T)
  end.
Definition step_sp (S : sparse V) (st : step) : option (sq_res (V:=V) (sparse V)) :=
  match st with
  | StPermute p => lift_sq (permute_sp S p)
  | StReshape s' => lift_sq (reshape_sp_all S s')
  | StSqueeze => Some (squeeze_sp v0 S)
  end.

(* a history stops at the first scalar (squeeze of an all-singleton tensor returns the bare entry) *)
Fixpoint run_d (T : dense V) (l : list step) : option (sq_res (V:=V) (dense V)) :=
  match l with
  | [] => Some (SqT T)
  | st :: l' => match step_d T st with
                | Some (SqT T') => run_d T' l'
                | Some (SqScalar v) => Some (SqScalar v)
                | None => None
                end
  end.
Fixpoint run_sp (S : sparse V) (l : list step) : option (sq_res (V:=V) (sparse V)) :=
  match l with
  | [] => Some (SqT S)
  | st :: l' => match step_sp S st with
                | Some (SqT S') => run_sp S' l'
                | Some (SqScalar v) => Some (SqScalar v)
                | None => None
                end
  end.

(* a step is admissible on shape s; the shape after it (None = the history ends in a scalar) *)
Definition step_okb (s : shape) (st : step) : bool :=
  match st with
  | StPermute p => is_permb p (length s)
  | StReshape s' => Nat.eqb (size s') (size s) && forallb (Nat.ltb 0) s'
  | StSqueeze => true
  end.
Definition step_shape (s : shape) (st : step) : shape :=
  match st with
  | StPermute p => pick 0 p s
  | StReshape s' => s'
  | StSqueeze => if forallb (Nat.ltb 1) s then s else sqz s s
  end.
(* squeeze of a tensor whose modes are all singletons (and that has at least one mode) returns the bare entry *)
Definition ends_scalar (s : shape) (st : step) : bool :=
  match st with
  | StSqueeze => negb (forallb (Nat.ltb 1) s) && match sqz s s with [] => true | _ => false end
  | _ => false
  end.
Fixpoint steps_okb (s : shape) (l : list step) : bool :=
  match l with
  | [] => true
  | st :: l' => step_okb s st && (ends_scalar s st || steps_okb (step_shape s st) l')
  end.

End Req.
