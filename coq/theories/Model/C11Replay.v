(* Model/C11Replay.v — side-by-side tie of the PDNR / PQNR outer-loop state machine (Model/C11Rows.v) to pyttb:
   the Qc instance of [cp_apr_rows] whose oracles are TABLES recorded from a pyttb run (tools/props/c11_trace.py):
     gtab : (iteration, mode, row, inner) -> the gradient the KKT test of that inner iteration saw,
     stab : (iteration, mode, row, phase) -> what the line search did (fallback? / search direction / step length / phi_row),
            phase = number of earlier iterates of the row = length of the history the oracle is given.
   Everything else — zero-row patch of the guess, normalisation, redistribute, the row-empty test on the data, the row KKT value
   max|min(m, g)|, the stoptol test, the first-violation maximum, the projected step m + alpha d, the fallback m * phi, write-back,
   last-inner-index count, per-mode normalisation, convergence flag, inexact rule, outer stop — is COMPUTED by the model in exact
   rationals and compared with what pyttb returned (model tensor, kktViolations, nInnerIters).
   Second part: the L-BFGS pair bookkeeping of tt_cp_apr_pqnr (cp_apr.py:1006-1030) on the recorded (row, gradient) sequence of a row:
   predicts exactly when 'ERROR: L-BFGS first iterate is bad' is raised (finding C11-F1). *)
From Coq Require Import List Arith Bool ZArith QArith Qabs Qcanon.
From PV Require Import Base.Index Base.Sum Np.Array Model.Sparse Model.Repr Model.Harness Model.C14Nvecs Model.C11Apr Model.C11Rows
                       Model.C11Check.
Import ListNotations.
Local Open Scope Qc_scope.

Definition key := ctx.
Definition key_eqb (a b : key) : bool :=
  match a, b with
  | (a1, a2, a3, a4), (b1, b2, b3, b4) => Nat.eqb a1 b1 && Nat.eqb a2 b2 && Nat.eqb a3 b3 && Nat.eqb a4 b4
  end.
Fixpoint lookup {A : Type} (d : A) (tab : list (key * A)) (k : key) : A :=
  match tab with
  | [] => d
  | (k', v) :: t => if key_eqb k k' then v else lookup d t k
  end.

Record stepent := mkSE { se_fb : bool; se_dir : list Qc; se_alpha : Qc; se_phi : list Qc }.
Definition se0 : stepent := mkSE false [] q0 [].
Definition skey (c : ctx) (hist : list (list Qc)) : key :=
  match c with (it, n, jj, _) => (it, n, jj, length hist) end.

Definition qdiv100 (x : Qc) : Qc := x / Q2Qc (100 # 1).

Section Replay.
Variables (stoptol tiny : Qc) (maxinner : nat) (inexact prestep : bool).
Variable gtab : list (key * list Qc).
Variable stab : list (key * stepent).

Definition t_grad (st : @state Qc) (c : ctx) (h : list (list Qc)) (m : list Qc) : list Qc := lookup [] gtab c.
Definition t_dir (st : @state Qc) (c : ctx) (h : list (list Qc)) (m : list Qc) : list Qc := se_dir (lookup se0 stab (skey c h)).
Definition t_phi (st : @state Qc) (c : ctx) (h : list (list Qc)) (m : list Qc) : list Qc := se_phi (lookup se0 stab (skey c h)).
Definition t_alpha (st : @state Qc) (c : ctx) (h : list (list Qc)) (m : list Qc) : Qc := se_alpha (lookup se0 stab (skey c h)).
Definition t_fb (st : @state Qc) (c : ctx) (h : list (list Qc)) (m : list Qc) : bool := se_fb (lookup se0 stab (skey c h)).

Definition rows_replay (X : dense Qc) (K : ktensor Qc) (maxiters : nat) : @state Qc * list Qc * list nat :=
  cp_apr_rows q0 q1 Qcplus Qcmult qscale1 qabs qmin qmax (qlt q0) qlt qleb qisz qdiv100 stoptol tiny maxinner inexact prestep
              t_grad t_dir t_phi t_alpha t_fb X K maxiters.

(* the returned model denotes the tensor of the replayed final state; same KKT list; same inner-iteration counts *)
Definition rows_replay_ok (tol : Qc) (X : dense Qc) (K : ktensor Qc) (maxiters : nat)
    (Kobs : ktensor Qc) (kkt_obs : list Qc) (inner_obs : list nat) : bool :=
  match rows_replay X K maxiters with
  | (st, kkts, inners) =>
      let Kmod := mkK (sw st) (sA st) in
      forallb (fun i => qclose tol (qden_k Kobs i) (qden_k Kmod i)) (allsubs (dshape X)) &&
      list_eqb (qclose tol) kkt_obs kkts && list_eqb Nat.eqb inner_obs inners && knonneg Kmod
  end.
End Replay.

(* ---- L-BFGS pair bookkeeping of one PQNR row (lbfgsPos never leaves slot 0 in pyttb: `lbfgsPos = np.mod(lbfgsPos, lbfgsMem)`):
   seq = the (row, gradient) pairs the KKT tests of inner iterations 0, 1, ... saw; (mold, gold) = the pair of the previous
   iteration (before the priming line search for i = 0); rho0 = rho[0] (0 until a pair has been stored).
   At an iteration that is not converged: d = (m - mold).(g - gold); d <> 0: the pair is stored, rho[0] = 1/d; d = 0: the pair is
   skipped and, the position being 0, rho[lbfgsMem - 1] > 0 is required — slot lbfgsMem - 1 is slot 0 when lbfgsMem = 1 and a never
   written slot otherwise — else `assert False, "ERROR: L-BFGS first iterate is bad"`. *)
Definition qdot (a b : list Qc) : Qc := sum_over q0 Qcplus (combine a b) (fun p => fst p * snd p).
Definition qvsub (a b : list Qc) : list Qc := map (fun p => fst p - snd p) (combine a b).
Definition qkkt_row (m g : list Qc) : Qc := kkt_row q0 qabs qmin qmax m g.

Fixpoint lbfgs_scan (mem : nat) (stoptol rho0 : Qc) (mold gold : list Qc) (seq : list (list Qc * list Qc)) : bool :=
  match seq with
  | [] => false
  | (m, g) :: rest =>
      if qlt (qkkt_row m g) stoptol then false
      else let d := qdot (qvsub m mold) (qvsub g gold) in
           if qisz d
           then (if Nat.ltb 1 mem || negb (qlt q0 rho0) then true else lbfgs_scan mem stoptol rho0 m g rest)
           else lbfgs_scan mem stoptol (/ d) m g rest
  end.

(* rows in the order pyttb solved them; each: (mold, gold, seq) *)
Definition pqnr_asserts (mem : nat) (stoptol : Qc) (rows : list (list Qc * list Qc * list (list Qc * list Qc))) : bool :=
  existsb (fun r => match r with (mold, gold, seq) => lbfgs_scan mem stoptol q0 mold gold seq end) rows.
(* the run raised the assertion iff the bookkeeping predicts it, and then in the LAST row recorded *)
Definition pqnr_f1_ok (mem : nat) (stoptol : Qc) (rows : list (list Qc * list Qc * list (list Qc * list Qc))) (raised : bool) : bool :=
  Bool.eqb (pqnr_asserts mem stoptol rows) raised &&
  negb (pqnr_asserts mem stoptol (removelast rows)).
