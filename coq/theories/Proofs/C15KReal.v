(* Proofs/C15KReal.v — wave 5: the oracle hypotheses of the end-to-end Kruskal theorems (Props/C15w5.v) are jointly satisfied
   by the real numbers with the operations pyttb uses: 1/x, the 2-norm sqrt(sum of squares), the tests 0 < x and x < 0, the
   N-th root x^(1/N) on the non-negative reals.  Hence, with NO oracle assumption: ktensor.symmetrize as written keeps the value
   of every real Kruskal tensor whose factors have proportional columns (identical factors, scrambled column signs / scalings).
   Axioms: those of the standard library's real numbers only. *)
From Coq Require Import List Arith Lia Bool Permutation Reals Lra RealField Ring.
From PV Require Import Base.Index Base.Perm Base.Sum Np.Array Model.Repr Model.C08Kruskal Model.C15Sym Model.C15K Model.C15KLoop
  Proofs.C08Loop2 Proofs.C15KLoop Proofs.C15KProp.
Import ListNotations.
Local Open Scope R_scope.

Definition r_pos (x : R) : bool := if Rlt_dec 0 x then true else false.
Definition r_neg (x : R) : bool := if Rlt_dec x 0 then true else false.
Definition r_sumsq (l : list R) : R := sumv 0 Rplus (map (fun a => a * a) l).
Definition r_norm2 (l : list R) : R := sqrt (r_sumsq l).
(* x^(1/N) on the non-negative reals *)
Definition r_root (N : nat) (x : R) : R := if Rlt_dec 0 x then Rpower x (/ INR N) else 0.
Definition r_srt (l : list R) : list nat := seq 0 (length l).

Lemma r_pos_true x : r_pos x = true <-> 0 < x.
Proof. unfold r_pos. destruct (Rlt_dec 0 x); split; auto; discriminate. Qed.
Lemma r_neg_true x : r_neg x = true <-> x < 0.
Proof. unfold r_neg. destruct (Rlt_dec x 0); split; auto; discriminate. Qed.
Lemma r_neg_false x : r_neg x = false <-> 0 <= x.
Proof. unfold r_neg. destruct (Rlt_dec x 0); split; auto; try discriminate; lra. Qed.
Lemma r_pos_false x : r_pos x = false <-> x <= 0.
Proof. unfold r_pos. destruct (Rlt_dec 0 x); split; auto; try discriminate; lra. Qed.

Lemma r_of_nat n : of_nat 0 1 Rplus n = INR n.
Proof. induction n as [|n IH]; [reflexivity|]. cbn [of_nat]. rewrite IH, S_INR. ring. Qed.

Lemma r_sumsq_nonneg l : 0 <= r_sumsq l.
Proof. unfold r_sumsq. induction l as [|a l IH]; cbn; [lra|]. pose proof (Rle_0_sqr a) as H. unfold Rsqr in H. lra. Qed.

Lemma r_sumsq_zero l : r_sumsq l <= 0 -> Forall (fun y => y = 0) l.
Proof.
  unfold r_sumsq. induction l as [|a l IH]; cbn; intros H; [constructor|].
  pose proof (Rle_0_sqr a) as Ha. unfold Rsqr in Ha. pose proof (r_sumsq_nonneg l) as Hl. unfold r_sumsq in Hl.
  constructor.
  - assert (E : a * a = 0) by lra. apply Rmult_integral in E. destruct E; assumption.
  - apply IH. lra.
Qed.

Lemma r_sumsq_scale c l : r_sumsq (map (fun a => a * c) l) = r_sumsq l * (c * c).
Proof. unfold r_sumsq. induction l as [|a l IH]; cbn; [ring|]. rewrite IH. ring. Qed.

Lemma r_sum_n_sq (h : nat -> R) n : sum_n 0 Rplus n (fun x => h x * h x) = r_sumsq (map h (seq 0 n)).
Proof. unfold sum_n, sum_over, r_sumsq. now rewrite map_map. Qed.

Lemma r_vpow x n : vpow 1 Rmult x n = x ^ n.
Proof. induction n as [|n IH]; [reflexivity|]. cbn [vpow pow]. now rewrite IH. Qed.

Lemma r_root_pow N x : N <> 0%nat -> 0 <= x -> r_root N x ^ N = x.
Proof.
  intros HN Hx. unfold r_root. destruct (Rlt_dec 0 x) as [Hp|Hp].
  - rewrite <- Rpower_pow by (unfold Rpower; apply exp_pos). rewrite Rpower_mult.
    rewrite Rinv_l by (apply not_0_INR; exact HN). now apply Rpower_1.
  - assert (x = 0) by lra. subst x. destruct N as [|N]; [contradiction|]. cbn. ring.
Qed.

(* ---- the hypotheses, as facts about R ---- *)
Lemma R_vinv_r : forall x : R, x <> 0 -> x * / x = 1.
Proof. intros x H. now apply Rinv_r. Qed.
Lemma R_vinv_l : forall x : R, x <> 0 -> / x * x = 1.
Proof. intros x H. now apply Rinv_l. Qed.
Lemma R_char0 : forall n, n <> 0%nat -> of_nat 0 1 Rplus n <> 0.
Proof. intros n H. rewrite r_of_nat. now apply not_0_INR. Qed.
Lemma R_pos_nz : forall x, r_pos x = true -> x <> 0.
Proof. intros x H. apply r_pos_true in H. lra. Qed.
Lemma R_nrm_pos : forall l, r_pos (r_norm2 l) = false -> Forall (fun y => y = 0) l.
Proof.
  intros l H. apply r_pos_false in H. unfold r_norm2 in H. apply r_sumsq_zero.
  destruct (Rle_lt_dec (r_sumsq l) 0) as [Hle|Hlt]; [exact Hle|]. pose proof (sqrt_lt_R0 _ Hlt). lra.
Qed.
Lemma R_nrm_homog : forall c l, r_norm2 (map (fun a => a * c) l) = r_norm2 l * c \/ r_norm2 (map (fun a => a * c) l) = r_norm2 l * - c.
Proof.
  intros c l. unfold r_norm2. rewrite r_sumsq_scale.
  rewrite sqrt_mult by (try apply r_sumsq_nonneg; pose proof (Rle_0_sqr c) as H; unfold Rsqr in H; exact H).
  change (c * c) with (Rsqr c). rewrite sqrt_Rsqr_abs. unfold Rabs. destruct (Rcase_abs c); [right|left]; reflexivity.
Qed.
Lemma R_srt_perm : forall l, is_perm (r_srt l) (length l).
Proof. intros l. unfold is_perm, r_srt. apply Permutation_refl. Qed.
Lemma R_neg_opp : forall x, r_neg x = true -> r_neg (- x) = false.
Proof. intros x H. apply r_neg_true in H. apply r_neg_false. lra. Qed.
Lemma R_neg_sq : forall (h : nat -> R) n, r_neg (sum_n 0 Rplus n (fun x => h x * h x)) = false.
Proof. intros h n. apply r_neg_false. rewrite r_sum_n_sq. apply r_sumsq_nonneg. Qed.
Lemma R_neg_opp_sq : forall (h : nat -> R) n, r_neg (- sum_n 0 Rplus n (fun x => h x * h x)) = false -> forall x, (x < n)%nat -> h x = 0.
Proof.
  intros h n H x Hx. apply r_neg_false in H. rewrite r_sum_n_sq in H.
  assert (Hz : Forall (fun y => y = 0) (map h (seq 0 n))) by (apply r_sumsq_zero; lra).
  rewrite Forall_forall in Hz. apply Hz. apply in_map. apply in_seq. lia.
Qed.
Lemma R_root : forall N, N <> 0%nat -> forall x, r_neg x = false -> vpow 1 Rmult (r_root N x) N = x.
Proof. intros N HN x H. rewrite r_vpow. apply r_root_pow; [exact HN|]. now apply r_neg_false. Qed.

(* ---- ktensor.symmetrize over the reals, code as written, no oracle hypothesis ---- *)
Definition r_symmetrize (K : ktensor R) : kres (ktensor R) :=
  k_symmetrize_code 0 1 Rplus Rmult Ropp Rinv r_neg
    (py_normalize R 0 1 Rmult Ropp Rinv r_norm2 r_pos r_neg (r_root (length (kfactors K))) r_srt WAll false None) K.

Theorem r_symmetrize_proportional_keeps (w : list R) (B : list (list R)) (cv0 : list R) (cs' : list (list R)) :
  (forall cv, In cv (cv0 :: cs') -> forall r, (r < length w)%nat -> nth r cv 0 <> 0) ->
  Forall (fun row => length row = length w) B -> (forall cv, In cv (cv0 :: cs') -> length cv = length w) ->
  exists Sy, r_symmetrize (mkK w (map (fun cv => scale_cols Rmult cv B) (cv0 :: cs'))) = KOk Sy /\
             forall i, den_k 0 1 Rplus Rmult Sy i = den_k 0 1 Rplus Rmult (mkK w (map (fun cv => scale_cols Rmult cv B) (cv0 :: cs'))) i.
Proof.
  intros Hc HB Hl. unfold r_symmetrize. cbn [kfactors]. rewrite map_length.
  apply (ksym_code_proportional_keeps R 0 1 Rplus Rmult Rminus Ropp Rinv RTheory r_norm2 r_pos r_neg
           (r_root (length (cv0 :: cs'))) r_srt R_vinv_r R_vinv_l R_char0 R_pos_nz R_nrm_pos R_nrm_homog R_srt_perm R_neg_opp R_neg_sq
           R_neg_opp_sq w B cv0 cs' Hc); [|exact HB|exact Hl].
  apply R_root. discriminate.
Qed.

(* every answer over the reals is symmetric in all modes *)
Theorem r_symmetrize_symmetric (K Sy : ktensor R) : kfactors K <> [] -> wf_k K -> r_symmetrize K = KOk Sy ->
  forall i i', Permutation i i' -> den_k 0 1 Rplus Rmult Sy i = den_k 0 1 Rplus Rmult Sy i'.
Proof.
  intros Hne Hwf HS. unfold r_symmetrize in HS.
  set (nz := py_normalize R 0 1 Rmult Ropp Rinv r_norm2 r_pos r_neg (r_root (length (kfactors K))) r_srt WAll false None) in *.
  assert (Hn : kfactors (nz K) <> []).
  { unfold nz. rewrite (py_normalize_is_model R 0 1 Rplus Rmult Rminus Ropp Rinv RTheory) by (auto; discriminate).
    intros E. apply Hne. apply length_zero_iff_nil.
    pose proof (C08NormalForm.fnc_rank_len R 0 1 Rmult Ropp Rinv r_norm2 r_pos r_neg K) as [_ HL].
    cbn [k_normalize] in E. unfold k_absorb in E. cbn [kfactors] in E. apply map_eq_nil in E. rewrite E in HL. cbn in HL. lia. }
  destruct (ksym_code_symmetric R 0 1 Rplus Rmult Rminus Ropp Rinv RTheory r_neg nz K Sy Hn HS) as [_ H]. exact H.
Qed.

(* identical factors (weights of either sign, any order N = S n): the special case stated directly *)
Theorem r_symmetrize_identical_keeps (w : list R) (A : list (list R)) n : Forall (fun row => length row = length w) A ->
  exists Sy, r_symmetrize (mkK w (repeat A (S n))) = KOk Sy /\
             forall i, den_k 0 1 Rplus Rmult Sy i = den_k 0 1 Rplus Rmult (mkK w (repeat A (S n))) i.
Proof.
  intros HA. unfold r_symmetrize. cbn [kfactors]. rewrite repeat_length.
  apply (ksym_code_identical_input_keeps R 0 1 Rplus Rmult Rminus Ropp Rinv RTheory r_norm2 r_pos r_neg (r_root (S n)) r_srt
           R_vinv_r R_vinv_l R_char0 R_pos_nz R_nrm_pos R_srt_perm R_neg_opp R_neg_sq R_neg_opp_sq w A n HA).
  apply R_root. discriminate.
Qed.

(* a request that is not cubical is refused *)
Theorem r_symmetrize_refuses (K : ktensor R) : cubical_shape (kshape K) = false -> r_symmetrize K = KErr.
Proof. intros H. unfold r_symmetrize. now apply ksym_code_refuses. Qed.
