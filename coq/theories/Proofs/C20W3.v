(* Proofs/C20W3.v — wave 3: the corner requests of the diagonal generators (no element, the empty shape) and of the
   aggregating constructor (no pair, sizes below one, no shape to infer from). *)
From Coq Require Import List Arith ZArith Lia Bool.
From PV Require Import Base.Index Base.Sum Np.Array Model.Sparse Model.Repr Model.Harness Model.C20Gen Model.C20Harness
  Proofs.C20Proofs Proofs.C20Guards.
Import ListNotations.

Lemma map_max0 (s : list nat) : map (Nat.max 0) s = s.
Proof. induction s as [|d s IH]; [reflexivity|]. cbn [map]. rewrite IH. reflexivity. Qed.

Section NoElement.
Context {V : Type} (v0 : V) (vadd : V -> V -> V) (isz : V -> bool).

(* no element, a requested shape: the ZERO tensor of exactly that shape (dense: every stored cell is zero;
   sparse: no stored entry) — whatever the shape, sizes of zero included *)
Theorem tendiag_no_element (s : shape) :
  tendiag v0 [] (Some s) = mkDense s (repeat v0 (size s)).
Proof. unfold tendiag. cbn [length diag_shape]. rewrite map_max0. reflexivity. Qed.

Theorem sptendiag_no_element (s : shape) :
  sptendiag v0 vadd isz [] (Some s) = mkSp s [] [].
Proof. unfold sptendiag. cbn [length diag_shape]. rewrite map_max0. reflexivity. Qed.

(* the aggregating constructor without a pair: the empty tensor of the given shape *)
Theorem aggregator_no_pair (s : shape) (f : list V -> V) :
  from_aggregator isz s [] [] f = mkSp s [] [].
Proof. reflexivity. Qed.
End NoElement.

(* ---------------------------------------------------------------- the constructed shape is empty exactly when ... *)
Lemma repeat_nil_iff {A} (x : A) n : repeat x n = [] <-> n = 0%nat.
Proof. destruct n; cbn; split; congruence. Qed.

Lemma diag_shape_z_nil (N : nat) (so : option (list Z)) :
  diag_shape_z N so = [] <-> so = Some [] \/ (so = None /\ N = 0%nat).
Proof.
  destruct so as [s|]; cbn [diag_shape_z].
  - unfold pyttb_diag_shape. destruct s; cbn; split.
    + now left.
    + reflexivity.
    + discriminate.
    + intros [H|[H _]]; discriminate.
  - split.
    + intros H. right. split; [reflexivity|]. now apply (repeat_nil_iff N N).
    + intros [H|[_ H]]; [discriminate|]. now apply (repeat_nil_iff N N).
Qed.

(* tendiag, every request: rejected EXACTLY WHEN the constructed shape is empty — the empty shape was requested, or
   no shape was given and there is no element (an order-0 dense tensor cannot be generated); otherwise the result is
   the diagonal tensor of C20_tendiag, whose shape has at least one mode *)
Theorem tendiag_req_spec (e : list Z) (so : option (list Z)) :
  (ztendiag_req e so = None <-> so = Some [] \/ (so = None /\ e = [])) /\
  (forall T, ztendiag_req e so = Some T ->
     T = ztendiag_z e so /\ dshape T = diag_shape_z (length e) so /\ (1 <= length (dshape T))%nat).
Proof.
  assert (Hs : dshape (ztendiag_z e so) = diag_shape_z (length e) so).
  { destruct so as [s|]; [apply diag_z_shape|reflexivity]. }
  unfold ztendiag_req. destruct (diag_shape_z (length e) so) as [|d cs] eqn:E.
  - apply diag_shape_z_nil in E. split.
    + split; [intros _|reflexivity]. destruct E as [E|[E1 E2]]; [now left|right].
      split; [exact E1|]. now apply length_zero_iff_nil.
    + discriminate.
  - split.
    + split; [discriminate|]. intros H. exfalso.
      assert (X : diag_shape_z (length e) so = []).
      { apply diag_shape_z_nil. destruct H as [H|[H1 H2]]; [now left|right]. split; [exact H1|now subst]. }
      congruence.
    + intros T HT. injection HT as <-. split; [reflexivity|]. rewrite Hs. split; [reflexivity|]. cbn. lia.
Qed.

(* the no-element request with a non-empty requested shape is ACCEPTED and gives the zero tensor of the shape with its
   negative sizes clamped to zero (what pyttb's max(0, dim) computes) *)
Theorem tendiag_req_no_element (s : list Z) : s <> [] ->
  ztendiag_req [] (Some s) = Some (mkDense (to_shape s) (repeat 0%Z (size (to_shape s)))).
Proof.
  intros Hs. unfold ztendiag_req. cbn [length diag_shape_z].
  assert (E : pyttb_diag_shape 0 s = to_shape s).
  { unfold pyttb_diag_shape, to_shape. apply map_ext. intros d. lia. }
  rewrite E. destruct (to_shape s) eqn:E2.
  - unfold to_shape in E2. apply map_eq_nil in E2. contradiction.
  - rewrite <- E2. f_equal. unfold ztendiag_z, ztendiag. cbn [option_map]. apply tendiag_no_element.
Qed.

(* sptendiag, every request: rejected EXACTLY WHEN there are elements and the empty shape was requested (an order-0
   tensor cannot carry them), or there is no element and the requested shape holds a size below one *)
Theorem sptendiag_req_spec (e : list Z) (so : option (list Z)) :
  zsptendiag_req e so = None <->
  (e <> [] /\ so = Some []) \/ (e = [] /\ exists s, so = Some s /\ Exists (fun d => (d <= 0)%Z) s).
Proof.
  unfold zsptendiag_req. destruct e as [|x e].
  - (* no element *)
    assert (X : match diag_shape_z (length (@nil Z)) so, @nil Z with
                | [], _ :: _ => None
                | _, _ => match so with Some s => zsptendiag_chk [] s | None => Some (zsptendiag [] None) end
                end = match so with Some s => zsptendiag_chk [] s | None => Some (zsptendiag [] None) end).
    { destruct (diag_shape_z (length (@nil Z)) so); reflexivity. }
    rewrite X. destruct so as [s|].
    + rewrite sptendiag_chk_spec. split.
      * intros [_ H]. right. split; [reflexivity|]. exists s. now split.
      * intros [[H _]|[_ (s' & Hs' & H)]]; [congruence|]. injection Hs' as <-. now split.
    + split; [discriminate|]. intros [[H _]|[_ (s' & Hs' & _)]]; [congruence|discriminate].
  - destruct (diag_shape_z (length (x :: e)) so) as [|d cs] eqn:E.
    + apply diag_shape_z_nil in E. destruct E as [E|[_ E]]; [|discriminate].
      split; [intros _; left; split; [discriminate|exact E]|reflexivity].
    + destruct so as [s|].
      * rewrite sptendiag_chk_spec. split.
        -- intros [H _]. discriminate.
        -- intros [[_ H]|[H _]]; [|discriminate]. injection H as ->. cbn in E. discriminate.
      * split; [discriminate|]. intros [[_ H]|[H _]]; discriminate.
Qed.

(* from_aggregator with sizes in Z: rejected when a size is below one, and when there is neither a shape nor a pair *)
Theorem aggregator_z_spec (so : option (list Z)) (N : nat) (subs : list idx) (vals : list Z) (r : reducer) :
  (forall s, so = Some s -> Exists (fun d => (d <= 0)%Z) s -> zaggregator_z so N subs vals r = None) /\
  (so = None -> subs = [] -> zaggregator_z so N subs vals r = None) /\
  (forall s, so = Some s -> Forall (fun d => (0 < d)%Z) s -> zaggregator_z so N [] [] r = Some (mkSp (to_shape s) [] [])).
Proof.
  split; [|split].
  - intros s -> H. unfold zaggregator_z.
    destruct (forallb (fun d => (0 <? d)%Z) s) eqn:E; [|reflexivity]. exfalso.
    rewrite forallb_forall in E. apply Exists_exists in H as (d & Hd & Hle). specialize (E d Hd). cbn in E. lia.
  - intros -> ->. reflexivity.
  - intros s -> H. unfold zaggregator_z.
    replace (forallb (fun d => (0 <? d)%Z) s) with true; [reflexivity|].
    symmetry. apply forallb_forall. intros d Hd. rewrite Forall_forall in H. apply Z.ltb_lt. now apply H.
Qed.

(* non-vacuity *)
Example diag_req_examples :
  ztendiag_req [] (Some [2; 3]%Z) = Some (mkDense [2; 3]%nat [0; 0; 0; 0; 0; 0]%Z) /\
  ztendiag_req [1; 2]%Z (Some []) = None /\ ztendiag_req [] None = None /\
  ztendiag_req [] (Some [0; 2]%Z) = Some (mkDense [0; 2]%nat []) /\
  zsptendiag_req [1; 2]%Z (Some []) = None /\ zsptendiag_req [] (Some []) = Some (mkSp [] [] []) /\
  zsptendiag_req [] None = Some (mkSp [] [] []) /\ zsptendiag_req [] (Some [0; 2]%Z) = None /\
  zsptendiag_req [2; 0; 2]%Z (Some [1; 4]%Z) = Some (mkSp [3; 4]%nat [[0; 0]; [2; 2]]%nat [2; 2]%Z) /\
  zaggregator_z (Some [2; 3]%Z) 2 [] [] RMax = Some (mkSp [2; 3]%nat [] []) /\
  zaggregator_z None 2 [] [] RSum = None /\ zaggregator_z (Some [2; 0]%Z) 2 [] [] RSum = None /\
  zaggregator (Some [2; 3]%nat) 2 [[0; 1]; [1; 2]; [0; 1]; [1; 2]]%nat [0; 4; 5; 2]%Z RMin = Some (mkSp [2; 3]%nat [[1; 2]]%nat [2]%Z) /\
  zaggregator (Some [2; 3]%nat) 2 [[0; 1]; [1; 2]; [0; 1]; [1; 2]]%nat [1; 4; 5; 2]%Z RMean = Some (mkSp [2; 3]%nat [[0; 1]; [1; 2]]%nat [3; 3]%Z).
Proof. vm_compute. repeat split; reflexivity. Qed.

(* ================================================================ the repair of finding A-46 (/repo bc5da93) *)
From Coq Require Import Sorting.Sorted.

(* sptensor.from_function with the union fallback (C20Gen.sprand_subs), the draws as inputs:
   - whenever the loop ends with enough distinct rows the result is EXACTLY the loop's last candidate, as before the
     repair (so every seeded output that reached the request then is unchanged, and the same draws are consumed);
   - otherwise the result holds min(request, number of distinct rows over ALL consumed draws) rows, each of them a row
     of some consumed draw - never fewer than the loop's last candidate alone;
   - always strictly ascending; well-formed (distinct, inside the shape) for valid draws *)
Theorem sprand_union_spec (nz : nat) (s : shape) (draws : list (list (list Z))) :
  let r := redraw 10 nz s [] draws in
  let pool := pool_rows s (firstn (snd r) draws) in
  (nz <= length (fst r) -> sprand_subs nz s draws = sprand_loop_subs nz s draws)%nat /\
  (length (fst r) < nz ->
     length (sprand_subs nz s draws) = Nat.min nz (length (dedup pool)) /\
     (forall i, In i (sprand_subs nz s draws) -> In i pool))%nat /\
  (length (sprand_loop_subs nz s draws) <= length (sprand_subs nz s draws))%nat /\
  StronglySorted idx_lt (sprand_subs nz s draws) /\
  (Forall (fun d => 0 < d) s -> Forall (valid_draw s) draws -> good s (sprand_subs nz s draws))%nat.
Proof.
  intros r pool.
  pose proof (sprand_count nz s draws) as (Hc & _ & _). unfold sprand_consumed in Hc. cbv zeta in Hc. fold r in Hc. fold pool in Hc.
  split; [|split; [|split; [|split; [apply sprand_sorted|apply sprand_subs_good]]]].
  - intros H. unfold sprand_subs. cbv zeta. fold r. apply Nat.ltb_ge in H. now rewrite H.
  - intros H. split; [exact Hc|]. intros i. unfold sprand_subs. cbv zeta. fold r. fold pool.
    apply Nat.ltb_lt in H. rewrite H. intros Hi. apply (proj1 (unique_rows_In _ _)) in Hi. apply In_firstn in Hi.
    exact (proj1 (dedup_first_In _ _) Hi).
  - rewrite Hc. unfold sprand_loop_subs. fold r. rewrite firstn_length.
    assert (length (fst r) <= length (dedup pool))%nat; [|lia].
    destruct (redraw_origin 10 nz s [] draws) as [E|(d & Hin & E)]; fold r in E; [rewrite E; cbn; lia|].
    fold r in Hin. rewrite E. apply dedup_length_incl; [apply unique_rows_NoDup|].
    intros i Hi. apply (proj1 (unique_rows_In _ _)) in Hi. unfold pool, pool_rows. apply in_flat_map. exists d. split; auto.
Qed.

(* ten draws that each repeat a row, but not the same row: the loop alone ends one short (the pre-repair result), the
   fallback reaches the request; ten draws that all hit ONE row stay short under the fallback too (the request cannot be
   guaranteed by any bounded number of draws with replacement); a stream whose first draw is distinct is untouched *)
Example sprand_union_example :
  let h := (2 ^ 52)%Z in
  let da := [[0; h]; [1; h + 5]]%Z in let db := [[h; h]; [h + 1; h + 3]]%Z in
  let ds := [da; db; da; db; da; db; da; db; da; db] in
  sprand_loop_subs 2 [2; 3]%nat ds = [[1; 1]]%nat /\ sprand_subs 2 [2; 3]%nat ds = [[0; 1]; [1; 1]]%nat /\
  sprand_consumed 2 [2; 3]%nat ds = 10%nat /\
  sprand_subs 2 [2; 3]%nat (repeat da 10) = [[0; 1]]%nat /\
  sprand_subs 2 [2; 3]%nat ([[0; h]; [h; 7]]%Z :: ds) = sprand_loop_subs 2 [2; 3]%nat ([[0; h]; [h; 7]]%Z :: ds) /\
  sprand_subs 2 [2; 3]%nat ([[0; h]; [h; 7]]%Z :: ds) = [[0; 1]; [1; 0]]%nat.
Proof. vm_compute. repeat split; reflexivity. Qed.
