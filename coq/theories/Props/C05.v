(* Props/C05.v — no mutation of operands, no aliasing.  Only statements, `exact`, Print Assumptions.
   Level "other": these theorems hold for every store, object, value type and write history, but their
   hypothesis `disjoint (locs r) (locs a)` is MEASURED per (operation, parameter class) on pyttb by
   tools/props/c05.py (np.shares_memory + cross-writes), not proved for pyttb's code. *)
From Coq Require Import List Arith Bool.
From PV Require Import Model.C05Store.
Import ListNotations.

Section C05.
Context {V : Type}.

(* writes through r are invisible through a disjoint object a ... *)
Theorem C05_frame : forall (s : @store V) (r a : obj) (h : list (@wr V)),
  disjoint (locs r) (locs a) -> (forall w, In w h -> In (wloc w) (locs r)) ->
  observe (run s h) a = observe s a.
Proof. exact frame. Qed.

(* ... and symmetrically, writes through a are invisible through r *)
Theorem C05_frame_sym : forall (s : @store V) (r a : obj) (h : list (@wr V)),
  disjoint (locs r) (locs a) -> (forall w, In w h -> In (wloc w) (locs a)) ->
  observe (run s h) r = observe s r.
Proof. exact frame_sym. Qed.

(* any interleaved history that never writes a location of a leaves a unchanged *)
Theorem C05_frame_any : forall (s : @store V) (a : obj) (h : list (@wr V)),
  (forall w, In w h -> ~ In (wloc w) (locs a)) -> observe (run s h) a = observe s a.
Proof. exact frame_any. Qed.

(* a documented in-place operation, modelled as a write history through its receiver, changes no location
   outside the receiver, and changes no buffer length *)
Theorem C05_inplace_footprint : forall (h : list (@wr V)) (s : store) (r : obj),
  (forall w, In w h -> In (wloc w) (locs r)) -> forall l, ~ In l (locs r) -> run s h l = s l.
Proof. exact inplace_footprint. Qed.

Theorem C05_inplace_lengths : forall (h : list (@wr V)) (s : store) l, length (run s h l) = length (s l).
Proof. exact run_length. Qed.

(* copy(): only fresh locations, same contents, every existing object unchanged *)
Theorem C05_copy : forall (h : @heap V) (o : obj),
  (forall l, l < hnext h -> ~ In l (locs (snd (copy h o)))) /\
  (forall a, wf_obj h a -> disjoint (locs (snd (copy h o))) (locs a)) /\
  observe (hst (fst (copy h o))) (snd (copy h o)) = observe (hst h) o /\
  (forall a, wf_obj h a -> observe (hst (fst (copy h o))) a = observe (hst h) a) /\
  wf_obj (fst (copy h o)) (snd (copy h o)).
Proof. exact copy_spec. Qed.

(* copy followed by any writes through the copy: every pre-existing object (the original included) is unchanged;
   any writes through a pre-existing object: the copy still shows the original's old contents *)
Theorem C05_copy_independent : forall (h : @heap V) (o a : obj) (ws : list (@wr V)),
  wf_obj h a -> (forall w, In w ws -> In (wloc w) (locs (snd (copy h o)))) ->
  observe (run (hst (fst (copy h o))) ws) a = observe (hst h) a.
Proof. exact copy_independent. Qed.

Theorem C05_copy_independent_sym : forall (h : @heap V) (o a : obj) (ws : list (@wr V)),
  wf_obj h a -> (forall w, In w ws -> In (wloc w) (locs a)) ->
  observe (run (hst (fst (copy h o))) ws) (snd (copy h o)) = observe (hst h) o.
Proof. exact copy_independent_sym. Qed.
End C05.

(* the measured-row checker used by the correspondence: a passing row has the bits the property demands *)
Theorem C05_row_check_sound : forall r, row_check r = true ->
  r_unchanged r = true /\
  (r_kind r <> KNoCopy -> r_disjoint r = true /\ r_vis_result r = false /\ r_vis_operand r = false).
Proof. exact row_check_sound. Qed.

Theorem C05_disjointb_spec : forall l1 l2, disjointb l1 l2 = true <-> disjoint l1 l2.
Proof. exact disjointb_spec. Qed.

Print Assumptions C05_frame.
Print Assumptions C05_frame_sym.
Print Assumptions C05_frame_any.
Print Assumptions C05_inplace_footprint.
Print Assumptions C05_inplace_lengths.
Print Assumptions C05_copy.
Print Assumptions C05_copy_independent.
Print Assumptions C05_copy_independent_sym.
Print Assumptions C05_row_check_sound.
Print Assumptions C05_disjointb_spec.

(* ---- non-vacuity: concrete instances ---------------------------------------------------- *)
(* store with three buffers; r = {0,1}, a = {2}; r and a disjoint; writing through r changes r, not a *)
(* ex_s / ex_r / ex_a / ex_h are defined at the end of Model/C05Store.v *)

Example C05_frame_example :
  disjointb (locs ex_r) (locs ex_a) = true /\
  observe (run ex_s ex_h) ex_r = [[1; 20; 30]; [40; 5]] /\
  observe (run ex_s ex_h) ex_a = [[6; 7; 8]].
Proof. repeat split; reflexivity. Qed.

(* an aliasing object (a view: shares location 1 with r) DOES see the write: the hypothesis is needed *)
Example C05_frame_needs_disjoint :
  let v := mkObj [1; 2] in
  disjointb (locs ex_r) (locs v) = false /\ observe (run ex_s ex_h) v <> observe ex_s v.
Proof. split; [reflexivity | discriminate]. Qed.

(* copy of r in a heap with next = 3: locations {3,4}, same contents; writing through the copy leaves r alone *)
Example C05_copy_example :
  let h := mkHeap ex_s 3 in
  let c := snd (copy h ex_r) in
  locs c = [3; 4] /\ observe (hst (fst (copy h ex_r))) c = [[1; 2; 3]; [4; 5]] /\
  observe (run (hst (fst (copy h ex_r))) [(3, 0, 77); (4, 1, 88)]) c = [[77; 2; 3]; [4; 88]] /\
  observe (run (hst (fst (copy h ex_r))) [(3, 0, 77); (4, 1, 88)]) ex_r = [[1; 2; 3]; [4; 5]].
Proof. repeat split; reflexivity. Qed.

(* the table checker: a clean pure row passes; a view-returning row (identity permute) fails; a no-copy
   construction may share but must not modify *)
Example C05_rows_example :
  row_check (mkRow KPure true true false false) = true /\
  row_check (mkRow KPure true false true true) = false /\
  row_check (mkRow KPure false true false false) = false /\
  row_check (mkRow KInplace true true false false) = true /\
  row_check (mkRow KInplace false true false false) = false /\
  row_check (mkRow KNoCopy true false true true) = true /\
  row_check (mkRow KNoCopy false false true true) = false /\
  sim_visible true = false /\ sim_visible false = true.
Proof. repeat split; reflexivity. Qed.
