(* Proofs/C18Repr.v — presentation independence of the CP-ALS model (Model/C09Als.v):
   * repr:    the sweep reads the data only through its mttkrp function; data holders with equal denotations have equal
              mttkrp matrices, hence IDENTICAL iterates (dense vs sparse vs Tucker vs sum representation);
   * relabel: the Kruskal denotation commutes with a relabelling of the modes:
              den_k (weights, pick p factors) (pick p i) = den_k (weights, factors) i   for every permutation p. *)
From Coq Require Import List Arith Lia Bool Ring Permutation.
From PV Require Import Base.Index Base.Perm Base.Sum Np.Array Model.Sparse Model.Repr Model.C09Als Proofs.C09Identity.
Import ListNotations.

Section Repr18.
Variable V : Type.
Variables (v0 v1 : V) (vadd vmul vsub : V -> V -> V) (vopp : V -> V).
Hypothesis Vring : ring_theory v0 v1 vadd vmul vsub vopp (@eq V).
Add Ring Vr4 : Vring.

Local Notation mx := (@matrix V).
Local Notation "x * y" := (vmul x y).
Local Notation mg := (mget v0).
Local Notation kpr := (kprod v0 v1 vmul).
Local Notation denk := (den_k v0 v1 vadd vmul).
Local Notation PROD := (prodv v1 vmul).

(* ---------------- repr ---------------- *)
Section Runs.
Variables (mk1 mk2 : list mx -> nat -> mx) (solve : mx -> mx -> mx) (scale : nat -> mx -> list V * mx) (R : nat).
Hypothesis mk_eq : forall U n, mk1 U n = mk2 U n.

Lemma update_repr it st n :
  als_update v0 v1 vadd vmul mk1 solve scale R it st n = als_update v0 v1 vadd vmul mk2 solve scale R it st n.
Proof. unfold als_update. now rewrite mk_eq. Qed.

Lemma sweep_repr it dims : forall st,
  als_sweep v0 v1 vadd vmul mk1 solve scale R it dims st = als_sweep v0 v1 vadd vmul mk2 solve scale R it dims st.
Proof.
  induction dims as [|n ds IH]; intros st; cbn [als_sweep fold_left]; auto.
  rewrite update_repr. apply IH.
Qed.

Theorem iter_repr k dims st :
  als_iter v0 v1 vadd vmul mk1 solve scale R k dims st = als_iter v0 v1 vadd vmul mk2 solve scale R k dims st.
Proof. induction k as [|k IH]; cbn [als_iter]; auto. rewrite IH. apply sweep_repr. Qed.
End Runs.

(* holders with the same denotation on the shape have the same mttkrp matrix *)
Lemma mttkrp_mat_ext s (X1 X2 : idx -> V) As n R :
  (forall i, inb s i = true -> X1 i = X2 i) ->
  mttkrp_mat v0 v1 vadd vmul s X1 As n R = mttkrp_mat v0 v1 vadd vmul s X2 As n R.
Proof.
  intros H. unfold mttkrp_mat, tabmx. apply map_ext. intros j. apply map_ext. intros r.
  unfold mttkrp_den. apply sum_over_ext. intros i Hi. apply in_allsubs in Hi. now rewrite (H i Hi).
Qed.

Theorem iter_repr_den s (X1 X2 : idx -> V) solve scale R k dims st :
  (forall i, inb s i = true -> X1 i = X2 i) ->
  als_iter v0 v1 vadd vmul (fun U n => mttkrp_mat v0 v1 vadd vmul s X1 U n R) solve scale R k dims st =
  als_iter v0 v1 vadd vmul (fun U n => mttkrp_mat v0 v1 vadd vmul s X2 U n R) solve scale R k dims st.
Proof. intros H. apply iter_repr. intros U n. now apply mttkrp_mat_ext. Qed.

(* ---------------- relabel ---------------- *)
Lemma prodv_perm (l l' : list V) : Permutation l l' -> PROD l = PROD l'.
Proof.
  induction 1 as [|a l l' _ IH|a b l|l l' l'' _ IH1 _ IH2]; cbn; auto.
  - now rewrite IH.
  - ring.
  - congruence.
Qed.

(* the Kruskal product as a product over the list of modes *)
Lemma kpr_as_prod (As : list mx) : forall (i : idx) r k0 (f : nat -> V),
  length i = length As ->
  (forall m, m < length As -> f (k0 + m) = mg (nth m As []) (nth m i 0) r) ->
  kpr As i r = PROD (map f (seq k0 (length As))).
Proof.
  induction As as [|A As IH]; intros i r k0 f Hl Hf; destruct i as [|x i]; cbn in Hl; try discriminate; [reflexivity|].
  cbn [kprod length seq map prodv]. f_equal.
  - specialize (Hf 0). rewrite Nat.add_0_r in Hf. cbn in Hf. symmetry. apply Hf. cbn. lia.
  - apply IH; [lia|]. intros m Hm. specialize (Hf (S m)). cbn [nth] in Hf.
    replace (S k0 + m) with (k0 + S m) by lia. apply Hf. cbn. lia.
Qed.

Lemma kpr_pick (As : list mx) (i : idx) (p : list nat) r : is_perm p (length As) -> length i = length As ->
  kpr (pick [] p As) (pick 0 p i) r = kpr As i r.
Proof.
  intros Hp Hl. pose proof (is_perm_length _ _ Hp) as Hlp.
  set (f := fun m => mg (nth m As []) (nth m i 0) r).
  rewrite (kpr_as_prod As i r 0 f Hl) by (intros; reflexivity).
  rewrite (kpr_as_prod (pick [] p As) (pick 0 p i) r 0 (fun k => f (nth k p 0))).
  - rewrite pick_length, Hlp.
    assert (E : map (fun k => f (nth k p 0)) (seq 0 (length As)) = map f p).
    { rewrite <- Hlp. rewrite <- (map_map (fun k => nth k p 0) f). f_equal.
      apply (nth_ext _ _ 0 0); [now rewrite map_length, seq_length|].
      intros k Hk. rewrite map_length, seq_length in Hk.
      rewrite (nth_indep _ 0 (nth 0 p 0)) by (now rewrite map_length, seq_length).
      rewrite (map_nth (fun k => nth k p 0)). now rewrite seq_nth. }
    rewrite E. apply prodv_perm. apply Permutation_map. exact Hp.
  - now rewrite !pick_length.
  - intros m Hm. rewrite pick_length in Hm. cbn [Nat.add]. unfold f. now rewrite !nth_pick by lia.
Qed.

Lemma inb_pick s i p : is_perm p (length s) -> length i = length s -> inb (pick 0 p s) (pick 0 p i) = inb s i.
Proof.
  intros Hp Hl. pose proof (is_perm_length _ _ Hp) as Hlp.
  assert (A : forall s i, length i = length s -> (inb s i = true <-> forall m, m < length s -> nth m i 0 < nth m s 0)).
  { clear. induction s as [|d s IH]; intros [|x i] Hl; cbn in Hl; try discriminate.
    - cbn. split; auto. intros _ m Hm. lia.
    - cbn [inb]. rewrite andb_true_iff, Nat.ltb_lt, (IH i) by lia. split.
      + intros [Hx H] [|m] Hm; cbn; auto. apply H. cbn in Hm. lia.
      + intros H. split; [apply (H 0); cbn; lia|]. intros m Hm. apply (H (S m)). cbn. lia. }
  apply eq_true_iff_eq. rewrite (A (pick 0 p s) (pick 0 p i)) by (now rewrite !pick_length).
  rewrite (A s i Hl). rewrite pick_length. split.
  - intros H m Hm. assert (Hin : In m p) by (apply (is_perm_In p _ m Hp); auto).
    specialize (H (index_of m p) ltac:(now apply index_of_lt)).
    rewrite !nth_pick in H by (now apply index_of_lt). now rewrite nth_index_of in H.
  - intros H k Hk. rewrite !nth_pick by lia. apply H. apply (is_perm_In p _ _ Hp). apply nth_In. lia.
Qed.

(* C18_relabel (denotation): relabelling the modes of a Kruskal model relabels the array it denotes *)
Theorem denk_pick (K : ktensor V) (p : list nat) (i : idx) :
  is_perm p (length (kfactors K)) -> length i = length (kfactors K) ->
  denk (mkK (kweights K) (pick [] p (kfactors K))) (pick 0 p i) = denk K i.
Proof.
  intros Hp Hl. unfold den_k. cbn [kfactors kweights krank].
  assert (Es : kshape (mkK (kweights K) (pick [] p (kfactors K))) = pick 0 p (kshape K)).
  { unfold kshape, pick. cbn [kfactors]. rewrite !map_map. apply map_ext_in. intros k Hk.
    assert (Hk' : k < length (kfactors K)) by (apply (is_perm_In p _ k Hp); auto).
    rewrite (nth_indep _ 0 (@nrows V [])) by (now rewrite map_length).
    now rewrite (map_nth (@nrows V)). }
  rewrite Es. rewrite inb_pick by (rewrite ?kshape_length; auto).
  destruct (inb (kshape K) i); auto. unfold krank. cbn [kweights].
  apply sum_n_ext. intros r _. now rewrite kpr_pick.
Qed.

(* ---------------- scale: the fit is invariant ---------------- *)
Lemma resid_scaled s (X1 X2 M1 M2 : idx -> V) kappa :
  (forall i, inb s i = true -> X2 i = kappa * X1 i) -> (forall i, inb s i = true -> M2 i = kappa * M1 i) ->
  resid_den v0 vadd vmul vsub s X2 M2 = (kappa * kappa) * resid_den v0 vadd vmul vsub s X1 M1.
Proof.
  intros HX HM. unfold resid_den, normsq_den, innerprod_den.
  rewrite <- (sum_over_scale_l V v0 v1 vadd vmul vsub vopp Vring). apply sum_over_ext.
  intros i Hi. apply in_allsubs in Hi. rewrite (HX i Hi), (HM i Hi). ring.
Qed.
Lemma normsq_scaled s (X1 X2 : idx -> V) kappa :
  (forall i, inb s i = true -> X2 i = kappa * X1 i) ->
  normsq_den v0 vadd vmul s X2 = (kappa * kappa) * normsq_den v0 vadd vmul s X1.
Proof.
  intros HX. unfold normsq_den, innerprod_den.
  rewrite <- (sum_over_scale_l V v0 v1 vadd vmul vsub vopp Vring). apply sum_over_ext.
  intros i Hi. apply in_allsubs in Hi. rewrite (HX i Hi). ring.
Qed.
(* (||X2-M2|| / ||X2||)^2 = (||X1-M1|| / ||X1||)^2, cross-multiplied: the reported fit 1 - ||X-M||/||X|| is the same *)
Theorem fit_scale_invariant s (X1 X2 M1 M2 : idx -> V) kappa :
  (forall i, inb s i = true -> X2 i = kappa * X1 i) -> (forall i, inb s i = true -> M2 i = kappa * M1 i) ->
  resid_den v0 vadd vmul vsub s X2 M2 * normsq_den v0 vadd vmul s X1
  = resid_den v0 vadd vmul vsub s X1 M1 * normsq_den v0 vadd vmul s X2.
Proof.
  intros HX HM. rewrite (resid_scaled s X1 X2 M1 M2 kappa HX HM), (normsq_scaled s X1 X2 kappa HX). ring.
Qed.

End Repr18.
