(* Np/NpZ4b.v — primitives for whole methods of pyttb.sptensor (Gen/GenSptensor4.v; translator option "m4"): the checks of
   the sptensor constructor, element-wise equality of 1-d arrays, np.isin against an index key, ndarray.fill.
   Definitions only; validated by the differential stream of tools/props/w4gen.py (ops prim4b_...). *)
From Coq Require Import List ZArith Bool Lia.
From PV Require Import Np.NpZ Np.NpZ2 Np.NpZ3 Np.NpZ3c Np.NpZ3d Np.NpZ3e Np.NpZ4.
Import ListNotations.
Local Open Scope Z_scope.

(* v.fill(x) *)
Definition np_fill (v : vec) (x : Z) : vec := map (fun _ => x) v.

(* a == b element-wise for 1-d arrays (under np_bcast_ok) *)
Definition np_eq_vv (a b : vec) : bvec :=
  if zlen a =? zlen b then zmap2b Z.eqb a b
  else if zlen a =? 1 then map (fun y => znth 0 a 0 =? y) b
  else map (fun x => x =? znth 0 b 0) a.

(* the slice held by an index key (callers guard with ix_is_slice) *)
Definition ix_slice (x : pyidx) : pyslice := match x with IxSlice s => s | _ => mkslice None None None end.
(* np.isin(a, x) for an index key x: an int is one candidate, a list / array are the candidates; a slice or None equals
   no integer *)
Definition np_isin_ix (a : vec) (x : pyidx) : bvec :=
  match x with
  | IxInt k => np_isin a [k]
  | IxSeq l | IxArr l => np_isin a l
  | _ => map (fun _ => false) a
  end.

(* ttb.sptensor(subs, vals, shape) with all three given (shape an int tuple): with stored entries, as many values as
   subscript rows, no negative subscript, one column per mode and every subscript below the mode size; without stored
   entries (subs.size == 0) no values.  copy= only decides aliasing. *)
Definition spt_make_ok (subs : mat) (vals : vec) (shape : vec) : bool :=
  if np_size2 subs =? 0 then zlen vals =? 0
  else (zlen vals =? np_nrows subs)
       && forallb (fun row => forallb (fun s => 0 <=? s) row) subs
       && (np_ncols subs =? zlen shape)
       && forallb (fun row => np_all (zmap2b Z.ltb row shape)) subs.
Definition spt_make (subs : mat) (vals : vec) (shape : vec) : sptz := mkspt subs vals shape.
