(* Model/C15Impl.v — transliterations of pyttb's (repaired) dense symmetrisation algorithms and symmetry tests
   (pyttb/tensor.py symmetrize / issymmetric, version=None "new" and version!=None "old"), on tensors given as
   functions from subscripts to values over the in-bounds subscripts of a shape s.
     new symmetrize : per group, classidx = subscripts sorted inside the group; if every entry equals its class
                      exemplar the group is skipped, else every entry becomes classSum / classNum of its class
     new issymmetric: per group, size check, then every entry equals its class exemplar
     old symmetrize : average of X.permute(p) over every combination p of within-group mode rearrangements, then the
                      "max-fix" loop Y = max(Y, Y.permute(p))
     old issymmetric: size checks, then X.permute(p) == X for every rearrangement of every group
   Definitions only; proofs in Proofs/C15ImplProofs.v. *)
From Coq Require Import List Arith Lia Bool.
From PV Require Import Base.Index Base.Perm Base.Sum Np.Array Model.Sparse Model.Repr Model.C15Sym.
Import ListNotations.

(* np.sort on a row of subscripts *)
Fixpoint ins_nat (x : nat) (l : list nat) : list nat :=
  match l with [] => [x] | y :: l' => if x <=? y then x :: l else y :: ins_nat x l' end.
Definition sort_nat (l : list nat) : list nat := fold_right ins_nat [] l.
(* classidx[:, thisgrp] = np.sort(idx[:, thisgrp], axis=1) *)
Definition sort_in (g : list nat) (i : idx) : idx := put g (sort_nat (pick 0 g i)) i.

(* perm = np.arange(n); perm[g] = gp : the permutation of all modes that sends the members of g to the rearrangement gp *)
Definition mode_perm (N : nat) (g gp : list nat) : list nat := put g gp (seq 0 N).

(* one rearrangement per group, every combination (the rows of sym_perms) *)
Fixpoint sym_perms (N : nat) (G : list (list nat)) : list (list nat) :=
  match G with
  | [] => [seq 0 N]
  | g :: G' => flat_map (fun p => map (fun gp => put g gp p) (perms g)) (sym_perms N G')
  end.

Section I15.
Context {V : Type} (v0 v1 : V) (vadd vmul : V -> V -> V) (vinv : V -> V) (veqb : V -> V -> bool) (vmax : V -> V -> V).

(* ---------------- new versions ---------------- *)
Definition same_class (g : list nat) (i j : idx) : bool := idx_eqb (sort_in g j) (sort_in g i).
Definition cls (s : shape) (g : list nat) (i : idx) : list idx := filter (same_class g i) (allsubs s).
(* np.all(data.ravel() == data[classidx]) *)
Definition exemplar_ok (s : shape) (X : idx -> V) (g : list nat) : bool :=
  forallb (fun j => veqb (X j) (X (sort_in g j))) (allsubs s).
(* avg = accumarray(linclassidx, data) / accumarray(linclassidx, 1); newdata = avg[linclassidx] *)
Definition sym_new_group (s : shape) (X : idx -> V) (g : list nat) : idx -> V :=
  if exemplar_ok s X g then X
  else fun i => let c := cls s g i in vmul (sum_over v0 vadd c X) (vinv (of_nat v0 v1 vadd (length c))).
Definition impl_sym_new (s : shape) (X : idx -> V) (G : list (list nat)) : idx -> V := fold_left (sym_new_group s) G X.
Definition impl_issym_new (s : shape) (X : idx -> V) (G : list (list nat)) : bool :=
  forallb (fun g => group_cubical s g && exemplar_ok s X g) G.

(* ---------------- old versions ---------------- *)
(* tensor.permute(p) = np.transpose(data, p): entry i of the result is X at the subscript j with j[p[k]] = i[k] *)
Definition permuted (X : idx -> V) (p : list nat) : idx -> V := fun i => X (put p i i).
Definition sym_old_avg (N : nat) (X : idx -> V) (G : list (list nat)) : idx -> V :=
  fun i => let ps := sym_perms N G in
           vmul (sum_over v0 vadd ps (fun p => permuted X p i)) (vinv (of_nat v0 v1 vadd (length ps))).
(* Z = Y.permute(p); Y.data[:] = np.maximum(Y.data, Z.data)  — Y is updated between the rounds *)
Definition maxfix_step (Y : idx -> V) (p : list nat) : idx -> V := fun i => vmax (Y i) (permuted Y p i).
Definition impl_sym_old (N : nat) (X : idx -> V) (G : list (list nat)) : idx -> V :=
  fold_left maxfix_step (sym_perms N G) (sym_old_avg N X G).
Definition same_on (s : shape) (X Y : idx -> V) : bool := forallb (fun j => veqb (X j) (Y j)) (allsubs s).
Definition impl_issym_old (s : shape) (X : idx -> V) (G : list (list nat)) : bool :=
  forallb (group_cubical s) G &&
  forallb (fun g => forallb (fun gp => same_on s X (permuted X (mode_perm (length s) g gp))) (perms g)) G.
End I15.
