(* Model/C01Harness.v — Z instances of the C01 conversions and boolean comparers for the generated cases. *)
From Coq Require Import List ZArith Bool Arith.
From PV Require Import Base.Index Base.Perm Base.Sum Np.Array Model.Sparse Model.Repr Model.Harness Model.C07Ops
  Model.C07Harness Model.C01Conv.
Import ListNotations.

Definition zto_tenmat := to_tenmat_req 0%Z.
Definition zto_sptenmat := @to_sptenmat_req Z.
Definition zden_tm := den_tenmat 0%Z.
Definition zden_stm := den_sptenmat 0%Z.

Definition tm_eqb (A B : tenmat Z) : bool :=
  dense_eqb (tm_data A) (tm_data B) && nvec_eqb (tm_r A) (tm_r B) && nvec_eqb (tm_c A) (tm_c B) &&
  nvec_eqb (tm_tshape A) (tm_tshape B).
(* the observed matrix holds tensor T: entry (sub2ind r-part, sub2ind c-part) = T[i] for every i *)
Definition tm_denotes (M : tenmat Z) (T : dense Z) : bool :=
  nvec_eqb (tm_tshape M) (dshape T) && wf_denseb (tm_data M) &&
  nvec_eqb (dshape (tm_data M)) [size (pick 0 (tm_r M) (dshape T)); size (pick 0 (tm_c M) (dshape T))] &&
  all_subs_ok (dshape T) (zden_tm M) (zden T).
(* model vs observation, plus the spec evaluated on the observation itself, plus the round trip *)
Definition tm_ok (m : option (tenmat Z)) (o : option (tenmat Z)) (T : dense Z) (back : dense Z) : bool :=
  match m, o with
  | Some a, Some b => tm_eqb a b && tm_denotes b T && dense_eqb (tenmat_to_tensor 0%Z a) back && dense_eqb back T
  | None, None => true
  | _, _ => false
  end.

Definition stm_same (A B : sptenmat Z) : bool :=
  sp_same (stm_sp A) (stm_sp B) && nvec_eqb (stm_r A) (stm_r B) && nvec_eqb (stm_c A) (stm_c B) &&
  nvec_eqb (stm_tshape A) (stm_tshape B).
Definition stm_denotes (M : sptenmat Z) (S : sparse Z) : bool :=
  wf_spb zisz (stm_sp M) && Nat.eqb (length (stm_subs M)) (nnz S) &&
  all_subs_ok (sshape S) (zden_stm M) (zden_sp S).
(* oshape / onnz: what the object itself reports *)
Definition stm_ok (m o : option (sptenmat Z)) (S : sparse Z) (oshape : list nat) (onnz : nat) : bool :=
  match m, o with
  | Some a, Some b => stm_same a b && stm_denotes b S && nvec_eqb oshape (stm_shape a) && Nat.eqb onnz (nnz S)
  | None, None => true
  | _, _ => false
  end.
Definition stm_back_ok (m : option (sptenmat Z)) (S : sparse Z) (back : option (sparse Z)) : bool :=
  match m, back with
  | Some a, Some b => sp_same (sptenmat_to_sptensor a) b && sp_same S b
  | None, None => true
  | _, _ => false
  end.
Definition stm_full_ok (m : option (sptenmat Z)) (S : sparse Z) (o : option (tenmat Z)) : bool :=
  match m, o with
  | Some a, Some b => tm_eqb (sptenmat_full 0%Z a) b && tm_denotes b (full 0%Z S)
  | None, None => true
  | _, _ => false
  end.

(* Kruskal / Tucker / sum to dense *)
Definition zk_spec := ktensor_full_spec 0%Z 1%Z Z.add Z.mul.
Definition zk_impl := ktensor_full_impl 0%Z Z.add Z.mul.
Definition zk_at := ktensor_full_at 0%Z Z.add Z.mul.
Definition kfull_ok (K : ktensor Z) (o : option (dense Z)) : bool :=
  match o with
  | Some d => dense_eqb (zk_spec K) d && match zk_impl K with Some d' => dense_eqb d' d | None => true end
  | None => false
  end.
Definition zt_full := ttensor_full 0%Z Z.add Z.mul.
Definition tfull_ok (T : ttensor Z) (o : option (dense Z)) : bool :=
  match o with
  | Some d => den_matches (tshape T) (zden_t T) d && dense_eqb (zt_full T) d
  | None => false
  end.
Definition zpart_den := part_den 0%Z 1%Z Z.add Z.mul.
Definition zsum_full := sum_full 0%Z 1%Z Z.add Z.mul.
Definition sumfull_ok (parts : list (part Z)) (s : shape) (o : option (dense Z)) : bool :=
  match o, zsum_full parts with
  | Some d, Some m => den_matches s (den_sum 0%Z Z.add (map zpart_den parts)) d && dense_eqb m d
  | None, None => true
  | _, _ => false
  end.
