(* Proofs/C01W8SptenmatOk.v — wave 8: on typed requests (subs an nnz x 2 array, vals nnz values) the duplicate-summing and
   zero-dropping steps of the GENERATED sptenmat constructor never fail (np.unique's inverse indexes its own rows,
   accumarray gets in-range groups, np.nonzero indexes what it scanned), so the generated constructor accepts EXACTLY when the
   argument checks of C01's stm_ctor accept — for either copy flag. *)
From Coq Require Import List ZArith Arith Lia Bool Permutation.
From PV Require Import Base.Index Base.Perm Np.Array Np.NpZ Np.NpZ2 Np.NpZ3 Np.NpZ3b Np.NpZ7 Np.NpZ7b Proofs.NpZProofs
  Gen.GenUtils Gen.GenUtils2 Model.C01Conv Model.C01Unique Proofs.C01GenBridge
  Gen.GenSptenmat7 Model.W7Tenmat Model.W7Sptenmat Proofs.W7Sptenmat Proofs.C01W8Tenmat Proofs.C01W8Sptenmat.
Import ListNotations.
Local Open Scope Z_scope.

Lemma w8_row_eqb_refl r : row_eqb r r = true.
Proof. induction r as [|x r IH]; [reflexivity|]. cbn. now rewrite Z.eqb_refl. Qed.

Lemma w8_ins_has p l : exists q, In q (ins_urow p l) /\ row_eqb (fst p) (fst q) = true.
Proof.
  induction l as [|a l IH]; cbn [ins_urow].
  - exists p. split; [now left|apply w8_row_eqb_refl].
  - destruct (row_ltb (fst p) (fst a)).
    + exists p. split; [now left|apply w8_row_eqb_refl].
    + destruct (row_eqb (fst p) (fst a)) eqn:E.
      * eexists. split; [now left|]. exact E.
      * destruct IH as (q & Hq & Eq). exists q. split; [now right|exact Eq].
Qed.

Lemma w8_ins_keeps p l q : In q l -> exists q', In q' (ins_urow p l) /\ fst q' = fst q.
Proof.
  induction l as [|a l IH]; intros Hq; [destruct Hq|]. cbn [ins_urow].
  destruct (row_ltb (fst p) (fst a)).
  - exists q. split; [now right|reflexivity].
  - destruct (row_eqb (fst p) (fst a)).
    + destruct Hq as [->|Hq].
      * eexists. split; [now left|reflexivity].
      * exists q. split; [now right|reflexivity].
    + destruct Hq as [->|Hq].
      * exists q. split; [now left|reflexivity].
      * destruct (IH Hq) as (q' & H1 & H2). exists q'. split; [now right|exact H2].
Qed.

Lemma w8_fold_has ps p : In p ps -> exists q, In q (fold_right ins_urow [] ps) /\ row_eqb (fst p) (fst q) = true.
Proof.
  induction ps as [|a ps IH]; intros Hp; [destruct Hp|]. cbn [fold_right]. destruct Hp as [->|Hp].
  - apply w8_ins_has.
  - destruct (IH Hp) as (q & Hq & Eq). destruct (w8_ins_keeps a _ q Hq) as (q' & H1 & H2).
    exists q'. split; [exact H1|]. now rewrite H2.
Qed.

Lemma w8_index_of_lt r u : (exists q, In q u /\ row_eqb r q = true) -> 0 <= np7_index_of r u < zlen u.
Proof.
  induction u as [|a u IH]; intros (q & Hq & Eq); [destruct Hq|]. cbn [np7_index_of].
  unfold zlen. cbn [length]. rewrite Nat2Z.inj_succ.
  destruct (row_eqb r a) eqn:E; [lia|].
  destruct Hq as [->|Hq]; [congruence|].
  assert (H : 0 <= np7_index_of r u < zlen u) by (apply IH; eauto). unfold zlen in H. lia.
Qed.

Lemma w8_in_combine {A B} (l : list A) : forall (l' : list B) x, length l' = length l -> In x l -> exists y, In (x, y) (combine l l').
Proof.
  induction l as [|a l IH]; intros l' x Hl Hx; [destruct Hx|]. destruct l' as [|b l']; [discriminate|].
  destruct Hx as [->|Hx]; [exists b; now left|]. assert (Hl' : length l' = length l) by (cbn in Hl; lia). destruct (IH l' x Hl' Hx) as (y & Hy). exists y. now right.
Qed.

Lemma w8_inv_in_range (m : mat) :
  forallb (fun g => (0 <=? g) && (g <? zlen (fst (np7_unique_rows_inv m)))) (snd (np7_unique_rows_inv m)) = true.
Proof.
  unfold np7_unique_rows_inv. cbn [fst snd]. apply forallb_forall. intros g Hg. apply in_map_iff in Hg as (r & <- & Hr).
  assert (Hlm : length (map Z.of_nat (seq 0 (length m))) = length m) by (now rewrite map_length, seq_length).
  destruct (w8_in_combine m (map Z.of_nat (seq 0 (length m))) r Hlm Hr) as (t & Ht).
  unfold np_unique_rows. cbn [fst].
  destruct (w8_fold_has _ _ Ht) as (q & Hq & Eq). cbn [fst] in Eq.
  assert (H : 0 <= np7_index_of r (map fst (fold_right ins_urow [] (combine m (map Z.of_nat (seq 0 (length m)))))) <
              zlen (map fst (fold_right ins_urow [] (combine m (map Z.of_nat (seq 0 (length m))))))).
  { apply w8_index_of_lt. exists (fst q). split; [now apply in_map|exact Eq]. }
  destruct H as [H1 H2]. apply andb_true_iff. split; [apply Z.leb_le; exact H1|apply Z.ltb_lt; exact H2].
Qed.

Lemma w8_nonzero_take_ok {A} (a : list A) (v : vec) : zlen a = zlen v -> np_take_ok a (np7_nonzero v) = true.
Proof.
  intros Hl. unfold np_take_ok, np7_nonzero. apply forallb_forall. intros x Hx. apply in_map_iff in Hx as ([y k] & <- & Hk).
  apply filter_In in Hk as [Hk _]. apply in_combine_r in Hk. apply in_np_arange in Hk. cbn [snd]. unfold idx_ok. rewrite Hl.
  apply andb_true_iff. split; [apply Z.leb_le|apply Z.ltb_lt]; lia.
Qed.

Lemma w8_rect (subs : list idx) : Forall (fun rc => length rc = 2%nat) subs -> np7_rect (zm subs) = true.
Proof.
  intros H. destruct subs as [|r m]; [reflexivity|]. cbn [zm map np7_rect]. apply forallb_forall. intros x Hx.
  apply in_map_iff in Hx as (rc & <- & Hrc). inversion H as [|? ? H1 H2]; subst. rewrite Forall_forall in H2.
  unfold zlen. rewrite !zs_length, H1, (H2 rc Hrc). reflexivity.
Qed.

(* the two steps after the argument checks never fail on a typed request *)
Lemma w8_tail_ok (subs : option (list idx)) (vals : option (list Z)) copy (F : mat -> vec -> stmz) :
  stm_typed subs vals ->
  exists Mz, bind (H_dedup copy (match option_map zm subs with None => [[]] | Some s => s end) (olist vals)) (fun '(s1, v1) =>
               if copy then bind (H_dropzeros s1 v1) (fun '(s2, v2) => Ok (F s2 v2)) else Ok (F s1 v1)) = Ok Mz.
Proof.
  intros [Hr Hl]. unfold H_dedup. destruct (zlen (olist vals) =? 0) eqn:Ez; cbn [bind].
  - destruct copy; [|eexists; reflexivity]. eexists. reflexivity.
  - destruct copy; cbn [bind]; [|eexists; reflexivity].
    assert (Es : match option_map zm subs with None => [[]] | Some s => s end = zm (olist subs)).
    { destruct subs as [s|]; [reflexivity|]. cbn [olist length] in Hl. destruct (olist vals); [discriminate Ez|discriminate Hl]. }
    rewrite Es, (w8_rect _ Hr).
    pose proof (w8_inv_in_range (zm (olist subs))) as R.
    destruct (np7_unique_rows_inv (zm (olist subs))) as [u loc] eqn:EU. cbn [fst snd] in R.
    assert (Eloc : zlen loc = zlen (olist vals)).
    { unfold np7_unique_rows_inv in EU. injection EU as _ <-. unfold zlen, zm. rewrite !map_length. f_equal. exact Hl. }
    unfold np7_accum_ok. rewrite Eloc, Z.eqb_refl, R. cbn [andb bind].
    unfold H_dropzeros. cbv zeta.
    set (acc := np7_accum_sum loc (olist vals) (zlen u)).
    assert (Ea : zlen u = zlen acc).
    { unfold acc, np7_accum_sum, np_arange, zlen. rewrite map_length, map_length, seq_length. lia. }
    rewrite (w8_nonzero_take_ok u acc Ea), (w8_nonzero_take_ok acc acc eq_refl). cbn [andb bind]. eexists. reflexivity.
Qed.

Theorem sptenmat_init_accepts_when_stm_ctor (subs : option (list idx)) vals rd cd ts copy M :
  is_some rd || is_some cd = true -> stm_typed subs vals ->
  stm_ctor Z.add (Z.eqb 0) subs vals rd cd ts = Some M ->
  exists Mz, sptenmat_init (option_map zm subs) vals (option_map zv rd) (option_map zv cd) (zv ts) copy = Ok Mz.
Proof.
  intros Hd Ht. rewrite sptenmat_init_bridge, H_sptenmat_init_guards, stm_ctor_guard by (try assumption; apply Ht).
  destruct (stm_guard (olist subs) rd cd ts) as [[r c]|]; cbv beta iota; [|intros X; discriminate X].
  intros _. exact (w8_tail_ok subs vals copy (fun s2 v2 => mk_stmz s2 v2 (zv r) (zv c) (zv ts)) Ht).
Qed.

(* accepted by the generated constructor <-> accepted by the guard model *)
Theorem sptenmat_init_accepts_iff (subs : option (list idx)) vals rd cd ts copy :
  is_some rd || is_some cd = true -> stm_typed subs vals ->
  (exists Mz, sptenmat_init (option_map zm subs) vals (option_map zv rd) (option_map zv cd) (zv ts) copy = Ok Mz)
  <-> (exists M, stm_ctor Z.add (Z.eqb 0) subs vals rd cd ts = Some M).
Proof.
  intros Hd Ht. split.
  - intros [Mz H]. destruct (sptenmat_init_accept_as_stm_ctor subs vals rd cd ts copy Mz Hd (proj1 Ht) H) as (M & E & _). eauto.
  - intros [M H]. eapply sptenmat_init_accepts_when_stm_ctor; eauto.
Qed.
