"""C01 — converting between representations preserves the tensor (DESIGN §C01)."""
import math
from vcheck import Case, gnlist, gzlist
import tgen
from props.c01_conv import (OPS as CONV_OPS, gen_cases_conv, run_conv, check_conv, oracle_conv, TRIGGERS, WITNESSES)
from props.c01_w3 import OPS3, gen_cases_w3, run_w3, check_w3, oracle_w3
from props.c01_conv import mk_dense_opt, mk_sparse_opt
from props.c01_w4 import gen_cases_w4
from props.c01_w5 import OPS5, gen_cases_w5, run_w5, check_w5, oracle_w5

PROP = "C01"
LEVEL = "proof"
GEN_UNITS = ["GenUtils", "GenUtils2", "GenKernels", "GenMethods", "GenUtils3b", "GenTenmat7", "GenSptenmat7"]     # C01_gather_wrap_dims_generated / C01_sparse_index_generated / C01_khatrirao_generated are stated over generated functions
COQ_TARGETS = ["Props/C01.vo", "Props/C01w5.vo", "Props/C01W8.vo", "Model/C01Harness.vo", "Model/C01W5H.vo", "Model/Harness.vo"]
THEOREM_FILES = ["Props/C01.v", "Props/C01w5.v", "Props/C01W8.v"]
COQ_IMPORTS = ("From Coq Require Import List ZArith Bool.\n"
               "From PV Require Import Base.Index Base.Perm Np.Array Model.Sparse Model.Repr Model.Harness Model.C07Ops Model.C07Harness "
               "Model.C01Conv Model.C01Unique Model.C01Coo Model.C01W3 Model.C01W4 Model.C01Harness Model.C01W5 Model.C01W5Sum Model.C01W5H.\n")
RULE = ("dense<->sparse: all shapes with <= 8 cells (exhaustive) + seeded random shapes <= 5 modes / 96 cells; sparsity {0,1,some,all}; stored "
        "orders {sorted,reversed,random}; non-trivial = more than one cell and at least one nonzero; distinct = distinct (op,args); "
        "matricisation: every ordered partition of the modes into (rdims, cdims) for N<=4 (either side may be empty) + seeded sample "
        "for N=5, the rdims-only / cdims-only / fc / bc / t request forms, dense and sparse (sparsity {0,1,some,all}, stored orders "
        "{sorted,reversed,random}; the stored triples of the sptenmat are compared one by one, in stored order, with the transliterated "
        "unique + accumulate model); Kruskal ranks 0..3 on shapes <= 5 modes / 96 cells (1-way included); Tucker cores <= 2x2x2x2 "
        "(dense and sparse core; dense cores also against the transliterated permute/reshape/matmul ttm); sums of 1..4 parts of mixed "
        "kinds; a malformed stream of non-partitions; constructor streams tenmat(data, rdims, cdims, tshape) and sptenmat(subs, vals, "
        "rdims, cdims, tshape): every argument form, repeated positions, cancelling and explicit zeros, shuffled orders, and malformed "
        "requests (non-partitions, out-of-range modes and indices, wrong element count, 1-d / 3-d / empty data, regrouped matrix "
        "shapes) — the guard model must predict accept / reject / empty and the accepted object must convert back and forth as the "
        "model does; from_array of dense matrices and of scipy matrices given as raw triples (shuffled, split positions, stored zeros); "
        "third wave: memory layouts {C, strided view, negative strides, rotated axes} x copy {True, False} for tensor / tenmat / from_array / "
        "Kruskal and Tucker factors / sptensor(copy=False); the chain tensor -> to_tenmat -> tenmat() -> to_tensor -> to_sptensor -> "
        "to_sptenmat -> to_sptensor -> full (every step compared); stored zeros {some, all, none, nothing stored} in sparse tensors through "
        "every converter; sptenmat(copy=False) incl. malformed requests; forced N x 1 / 1 x N splits; sums with identical patterns, exact "
        "cancellation, second conversion and parts re-observed; unfoldings beyond 2^15 rows / columns with nonzeros in the last cells; "
        "Kruskal to_tenmat in every request form, factors of mixed element types; Tucker sparse cores in any stored order; "
        "fourth wave (props/c01_w4.py): samples of every op above re-run with element types {int8, int16, int32, int64, uint8, uint16, "
        "float32, float64}, subscript / index types {int8 .. uint16}, the layouts above and copy {True, False} through the constructors of "
        "tensor / sptensor / ktensor / ttensor (dense and sparse core) / sumtensor / tenmat / sptenmat / scipy input; unfoldings with more "
        "rows or columns than an int8 / uint8 subscript can count; dense tensors reached by a HISTORY — grown by out-of-bounds assignment "
        "(element by element, one subscript-array assignment, a slab assignment, from the empty tensor()), or the result of permute / "
        "subtensor extraction / + / reshape / in-bounds assignment — handed to to_sptensor, to_tenmat (partition and fc / bc / t forms), "
        "the chain, sums (grown dense parts) and Tucker (grown dense core); sparse tensors grown by out-of-bounds assignment (from a "
        "prefix of the entries, from sptensor(shape=ones), from sptensor()) handed to to_sptenmat / to_sptensor back / full / double / "
        "sums; values scaled by 2^27 + 1 (int64 / float64) through every value-moving op; Tucker factor matrices as scipy coo matrices "
        "with ttensor(copy=True / False); the aliases to_tensor() of ktensor / ttensor / sumtensor, tensor.full(), "
        "tenmat.to_tensor(copy=False) with the tenmat re-observed; rank-0 Kruskal and sparse-core Tucker parts inside sums; "
        "fifth wave (props/c01_w5.py): Tucker tensors with dense / sparse cores (<= 3 cells per mode) and coo factor matrices given as raw "
        "triples {row-major, shuffled, split positions, explicit / cancelling zeros, empty, dense} mixed with ndarray factors in the layouts "
        "above, ttensor(copy=True / False) — the former N-C01-5 witness and its variants first; X.ttm(matrices, dims | exclude_dims, "
        "transpose) on dense / sparse receivers with ndarray / coo matrices, modes in any order, the four argument forms, result container "
        "observed raw; Kruskal shapes split 1|3, 3|1 and 6-way (7x2x2x2, 2x2x2x7, 9x2x3x2, 2x3x2x12, 2^6, 3x2x1x2x2x2)")
CORRESPONDENCE_ONLY = [
    "scipy: coo_matrix construction, toarray() (positions summed) and coo.dot(dense matrix) (matrix product) are modelled, not verified",
    "memory layout / element type / copy flag of the arrays handed to constructors (C-contiguous, strided views, negative strides, "
    "rotated axes; int8 .. int64, uint8 / uint16, float32, float64 values; int8 .. uint16 subscript and index arrays; copy=True and "
    "copy=False of tensor / sptensor / ktensor / ttensor / sumtensor / tenmat / sptenmat): the Coq arrays are abstract F-order lists of "
    "ring elements, so `the conversion denotes the same array whatever layout / element type / copy flag its operand was built with` "
    "is compared on generated inputs only (fourth-wave stream props/c01_w4.py re-runs every op with these options)",
    "sumtensor: that a conversion leaves the part OBJECTS (and an earlier result) unchanged is observed (second conversion, parts and "
    "the user's own objects re-read after full()), not modelled — the Coq model is functional, aliasing is C05's ground; the "
    "histories + part / + [parts] / unary minus / copy followed by the conversion as executed ARE proved (C01_sum_history)",
    "scipy's sparse-sparse product inside sptensor.ttm with a coo matrix (`Xnt.double().dot(U.T)`): a PARAMETER of the model constrained "
    "by spdot_spec (well-formed coo matrix of the right shape denoting the matrix product); the theorems hold for every such function, "
    "the generated cases are evaluated with spdot_ref; coo @ ndarray inside tensor.ttm is modelled as the product with toarray()",
    "the container (tensor / sptensor) sptensor.ttm answers with for a coo matrix depends on how many entries scipy's product STORES: "
    "the theorems cover both containers, the generated cases compare the densified result and the well-formedness of a sparse one, "
    "not which container was chosen",
    "the generated ttm_list cases hand the model the (mode, matrix) pairs sorted by mode (the harness applies tt_dimscheck's "
    "reordering); that the GENERATED tt_dimscheck delivers exactly these pairs for every admissible request is proved "
    "(C01_ttm_as_called, through C02's alignment lemma)",
    "min_split_dims inside ktensor.full is a nested function the translator does not reach: hand transliteration; its value is "
    "immaterial beyond lying in 1 .. N-1 (C01_kruskal_any_split, and C01_kruskal_generated_any_split over the GENERATED khatrirao)",
]
ASSUMPTIONS = ["numpy transpose / F-order reshape / scatter / nonzero semantics as defined in Np/Array.v and Model/Sparse.v",
               "np.unique(axis=0, return_inverse=True) orders rows lexicographically (first column most significant) and accumarray(func=sum) "
               "adds the values of equal rows in stored order: transliterated as insertion into a sorted accumulator (Model/C01Unique.v) "
               "and validated by the stored-order comparison of every generated sptenmat",
               "ndarray.nonzero() scans a matrix in row-major order; scipy coo_matrix.toarray() sums the values stored at one position",
               "constructor arguments are typed as numpy delivers them: subs an nnz x 2 array of non-negative integers, vals nnz values, "
               "mode lists of non-negative integers (negative indices are outside the nat-valued model)"]


def gen_cases(rng, tier):
    big = tier == "thorough"
    cases = gen_cases_conv(rng, tier) + gen_cases_w3(rng, tier)
    shapes = tgen.shapes_upto(8) + [tuple(tgen.rand_shape(rng, maxn=5, maxcells=96)) for _ in range(120 if big else 25)]
    for shp in shapes:
        n = math.prod(shp)
        fills = [0.0, 1.0, 0.4] + ([0.7] if big else [])
        for fill in fills:
            data = tgen.rand_dense(rng, shp, fill)
            if fill == 0.4 and n > 1 and rng.random() < 0.3:      # exactly one nonzero
                data = [0] * n
                data[rng.randrange(n)] = rng.choice([-2, 3])
            nt = n > 1 and any(data)
            cases.append(Case("to_sptensor", {"shape": list(shp), "data": data}, nt))
            for order in ("sorted", "reversed", "random"):
                subs, vals = tgen.dense_to_sparse(shp, data, rng, order)
                for op in ("sp_full", "sp_to_tensor", "sp_double"):
                    if op != "sp_full" and order == "reversed" and not big:
                        continue
                    cases.append(Case(op, {"shape": list(shp), "subs": subs, "vals": vals}, nt))
    # fourth wave: the same ops on other element types / index types / memory layouts / copy flags (props/c01_w4.py)
    own = [c for c in cases if c.op in ("to_sptensor", "sp_full", "sp_to_tensor", "sp_double")]
    cases += gen_cases_w4(rng, tier, rng.sample(own, min(len(own), 240 if big else 60)))
    # fifth wave: coo factor matrices of Tucker tensors (raw triples), ttm over mode lists, skewed Kruskal shapes (props/c01_w5.py)
    cases += gen_cases_w5(rng, tier)
    return cases


def run_impl(c):
    import logging
    logging.disable(logging.WARNING)     # "selected no copy, but ... must copy" warnings of the constructors (layout streams)
    try:
        return _run_impl(c)
    finally:
        logging.disable(logging.NOTSET)


def _run_impl(c):
    if c.op in CONV_OPS:
        return run_conv(c)
    if c.op in OPS3:
        return run_w3(c)
    if c.op in OPS5:
        return run_w5(c)
    import numpy as np
    import pyttb as ttb
    a = c.args
    try:
        if c.op == "to_sptensor":
            T = mk_dense_opt(ttb, np, a["shape"], a["data"], dt=a.get("dt"), lay=a.get("lay"), copy=a.get("copy", True), grow=a.get("grow"))
            S = T.to_sptensor()
            back = S.to_tensor()
            return {"ok": tgen.obs_sparse(np, S), "back": tgen.obs_dense(np, back)}
        S = mk_sparse_opt(ttb, np, a["shape"], a["subs"], a["vals"], sdt=a.get("sdt"), vdt=a.get("vdt"), slay=a.get("slay"),
                          vlay=a.get("vlay"), copy=a.get("copy", True), grow=a.get("grow"))
        if c.op == "sp_full":
            return {"ok": tgen.obs_dense(np, S.full())}
        if c.op == "sp_to_tensor":
            return {"ok": tgen.obs_dense(np, S.to_tensor())}
        if c.op == "sp_double":
            return {"ok": tgen.obs_dense(np, S.double())}
    except Exception as ex:
        return {"exc": type(ex).__name__, "msg": str(ex)[:200]}
    raise ValueError(c.op)


def coq_check(c, o):
    if c.op in CONV_OPS:
        return check_conv(c, o)
    if c.op in OPS3:
        return check_w3(c, o)
    if c.op in OPS5:
        return check_w5(c, o)
    a = c.args
    if "exc" in o:
        return "false"          # every request generated here is admissible
    if c.op == "to_sptensor":
        T = tgen.gdense(a["shape"], a["data"])
        ob = o["ok"]
        if not tgen.all_int(ob["vals"]) or not tgen.all_int(o["back"]["data"]):
            return "false"
        S = tgen.gsparse(ob["shape"], ob["subs"], ob["vals"])
        B = tgen.gdense(o["back"]["shape"], o["back"]["data"])
        nnz_ok = "true" if (ob["nnz"] == len(ob["subs"]) == len(ob["vals"])) else "false"
        return (f"sp_denotes {S} {T} && sp_denotes (to_sptensor 0%Z zisz {T}) {T} && "
                f"Nat.eqb (nnz {S}) (nnz (to_sptensor 0%Z zisz {T})) && dense_eqb {B} {T} && {nnz_ok}")
    S = tgen.gsparse(a["shape"], a["subs"], a["vals"])
    ob = o["ok"]
    if not tgen.all_int(ob["data"]):
        return "false"
    return f"dense_eqb (full 0%Z {S}) {tgen.gdense(ob['shape'], ob['data'])}"


def oracle(c, o):
    """brute-force: does pyttb's output denote the same array? (pure Python loops)"""
    if c.op in CONV_OPS:
        return oracle_conv(c, o)
    if c.op in OPS3:
        return oracle_w3(c, o)
    if c.op in OPS5:
        return oracle_w5(c, o)
    a = c.args
    if "exc" in o:
        return f"admissible conversion raised {o['exc']}: {o.get('msg')}"
    if c.op == "to_sptensor":
        ob = o["ok"]
        subs_all = tgen.all_subs(a["shape"])
        want = {tuple(s): v for s, v in zip(subs_all, a["data"]) if v != 0}
        got = {}
        for s, v in zip(ob["subs"], ob["vals"]):
            if tuple(s) in got:
                return f"duplicate subscript {s}"
            got[tuple(s)] = v
        if ob["shape"] != a["shape"] or got != want or ob["nnz"] != len(want):
            return f"sparse result {ob} does not denote the dense input"
        if o["back"]["data"] != a["data"] or o["back"]["shape"] != a["shape"]:
            return "dense -> sparse -> dense is not the identity"
        return None
    ob = o["ok"]
    subs_all = tgen.all_subs(a["shape"])
    d = {tuple(s): v for s, v in zip(a["subs"], a["vals"])}
    want = [d.get(tuple(s), 0) for s in subs_all]
    if ob["shape"] != a["shape"] or ob["data"] != want:
        return f"dense result {ob} does not denote the sparse input"
    return None
