(* Proofs/C18Tucker.v — C18, clause "scaling the data by a positive constant scales the Tucker model by that
   constant and leaves the fit unchanged", for pyttb.hosvd (hosvd.py main loop) and pyttb.tucker_als (tucker_als.py
   main loop).  Builds on Model/C10Tucker.v (executable rank rule, mode-n product, Gram) and Proofs/C10Proofs.v
   (abstract inner-product setting).
   A. the rank rule of hosvd (np.cumsum / np.where / [-1] + 1) is invariant when the eigenvalues and the threshold
      are multiplied by the same k > 0 (k = c^2 for data scaled by c)
   B. ring-generic linearity of the mode-n product, the Gram matrix and the Tucker reconstruction (den_t)
   C. algorithm-level equivariance over an abstract real inner-product space with scalar multiplication:
      C1 hosvd (sequential and non-sequential), C2 tucker_als (sweeps, early stop, reported fit) *)
From Coq Require Import List Arith Lia Bool Reals Lra Ring.
From PV Require Import Base.Index Base.Sum Np.Array Np.NpR Model.Sparse Model.Repr Model.C10Tucker
  Proofs.C10Proofs Proofs.C10Ttm.
Import ListNotations.
Local Open Scope R_scope.

(* ======================================================================================== *)
(* A. rank rule of hosvd                                                                      *)
(* ======================================================================================== *)
Lemma sumR_scale k l : sumR (map (Rmult k) l) = k * sumR l.
Proof. induction l as [|x l IH]; cbn [map sumR]; [lra|]. rewrite IH. lra. Qed.

Lemma suffix_sums_scale k l : suffix_sums (map (Rmult k) l) = map (Rmult k) (suffix_sums l).
Proof.
  induction l as [|x l IH]; [reflexivity|].
  cbn [map suffix_sums]. f_equal; [|exact IH].
  change (sumR (map (Rmult k) (x :: l)) = k * sumR (x :: l)). apply sumR_scale.
Qed.

Lemma Rltb_scale k a b : 0 < k -> Rltb (k * a) (k * b) = Rltb a b.
Proof.
  intros Hk. unfold Rltb. destruct (Rlt_dec (k * a) (k * b)) as [H1|H1], (Rlt_dec a b) as [H2|H2]; auto; exfalso.
  - apply H2. nra.
  - apply H1. nra.
Qed.

Lemma nth_map_scale k l i : nth i (map (Rmult k) l) 0 = k * nth i l 0.
Proof. rewrite <- (map_nth (Rmult k)). f_equal. ring. Qed.

Lemma where_gt_scale k l t : 0 < k -> where_gt 0 Rltb (map (Rmult k) l) (k * t) = where_gt 0 Rltb l t.
Proof.
  intros Hk. unfold where_gt. rewrite map_length. apply filter_ext. intros i.
  rewrite nth_map_scale. now apply Rltb_scale.
Qed.

Lemma eigsum_scale k eig : eigsum 0 Rplus (map (Rmult k) eig) = map (Rmult k) (eigsum 0 Rplus eig).
Proof. rewrite !eigsum_suffix. apply suffix_sums_scale. Qed.

(* the index np.where(eigsum > eigsumthresh)[0][-1] is the same for (k * eig, k * t) and (eig, t), also when it
   does not exist (IndexError on both sides) *)
Theorem hosvd_last_above_scale : forall (eig : list R) (t k : R), 0 < k ->
  last_above 0 Rplus Rltb (map (Rmult k) eig) (k * t) = last_above 0 Rplus Rltb eig t.
Proof. intros eig t k Hk. unfold last_above. rewrite eigsum_scale, where_gt_scale by exact Hk. reflexivity. Qed.

Theorem hosvd_rank_scale : forall (eig : list R) (t k : R), 0 < k ->
  auto_rank 0 Rplus Rltb (map (Rmult k) eig) (k * t) = auto_rank 0 Rplus Rltb eig t.
Proof. intros eig t k Hk. unfold auto_rank. rewrite hosvd_last_above_scale by exact Hk. reflexivity. Qed.

(* number of columns of the factor as coded, for a user rank (0 = automatic) *)
Theorem hosvd_ncols_scale : forall (user_rank : nat) (eig : list R) (t k : R), 0 < k ->
  ncols_impl 0 Rplus Rltb user_rank (map (Rmult k) eig) (k * t) = ncols_impl 0 Rplus Rltb user_rank eig t.
Proof.
  intros u eig t k Hk. unfold ncols_impl, keep_cols. rewrite hosvd_rank_scale by exact Hk.
  destruct u as [|u].
  - destruct (auto_rank 0 Rplus Rltb eig t) as [r|]; [|reflexivity].
    now rewrite !firstn_length, map_length.
  - now rewrite !firstn_length, map_length.
Qed.

(* the kept permutation entries pi[0:ranks[k]] are the same list when the rank is the same *)
Corollary hosvd_keep_cols_scale : forall (A : Type) (pi : list A) (eig : list R) (t k : R), 0 < k ->
  option_map (fun r => keep_cols r pi) (auto_rank 0 Rplus Rltb (map (Rmult k) eig) (k * t)) =
  option_map (fun r => keep_cols r pi) (auto_rank 0 Rplus Rltb eig t).
Proof. intros A pi eig t k Hk. now rewrite hosvd_rank_scale. Qed.

(* data scaled by c = 3: eigenvalues and threshold scale by k = 9; rank 2 both times (cf. rank_choice_example) *)
Example hosvd_rank_scale_example :
  auto_rank 0 Rplus Rltb (map (Rmult 9) [9; 4; 1; 0]) (9 * 2) = Some 2%nat /\
  auto_rank 0 Rplus Rltb [9; 4; 1; 0] 2 = Some 2%nat /\
  ncols_impl 0 Rplus Rltb 0 (map (Rmult 9) [9; 4; 1; 0]) (9 * 2) = Some 2%nat /\
  ncols_impl 0 Rplus Rltb 3 (map (Rmult 9) [9; 4; 1; 0]) (9 * 2) = Some 3%nat.
Proof.
  destruct rank_choice_example as [H _].
  assert (H9 : 0 < 9) by lra.
  split; [|split; [|split]].
  - rewrite hosvd_rank_scale by exact H9. exact H.
  - exact H.
  - rewrite hosvd_ncols_scale by exact H9. unfold ncols_impl. rewrite H. reflexivity.
  - reflexivity.
Qed.

(* ======================================================================================== *)
(* B. ring-generic linearity: mode-n product, Gram matrix, Tucker reconstruction              *)
(* ======================================================================================== *)
Section Linear.
Variable V : Type.
Variables (v0 v1 : V) (vadd vmul vsub : V -> V -> V) (vopp : V -> V).
Hypothesis Vring : ring_theory v0 v1 vadd vmul vsub vopp (@eq V).
Add Ring Vr18t : Vring.

(* (c X) x_n M = c (X x_n M) *)
Theorem ttm_den_scale : forall (c : V) (X : idx -> V) (In n : nat) (M : list (list V)) (i : idx),
  ttm_den v0 vadd vmul (fun i => vmul c (X i)) In n M i = vmul c (ttm_den v0 vadd vmul X In n M i).
Proof.
  intros c X In n M i. unfold ttm_den, sum_n.
  rewrite <- (sum_over_scale_l V v0 v1 vadd vmul vsub vopp Vring).
  apply sum_over_ext. intros a _. ring.
Qed.

(* Gram matrix of the mode-n unfolding of c X = c^2 times that of X *)
Theorem gram_den_scale : forall (c : V) (s : shape) (X : idx -> V) (n a b : nat),
  gram_den v0 vadd vmul s (fun i => vmul c (X i)) n a b = vmul (vmul c c) (gram_den v0 vadd vmul s X n a b).
Proof.
  intros c s X n a b. unfold gram_den.
  rewrite <- (sum_over_scale_l V v0 v1 vadd vmul vsub vopp Vring).
  apply sum_over_ext. intros i _. ring.
Qed.

(* Tucker model: scaling the core by c scales the full tensor by c (same factors) *)
Theorem den_t_scale_core : forall (c : V) (core core' : dense V) (Us : list (list (list V))),
  dshape core' = dshape core ->
  (forall j, den_dense v0 core' j = vmul c (den_dense v0 core j)) ->
  forall i, den_t v0 v1 vadd vmul (mkT core' Us) i = vmul c (den_t v0 v1 vadd vmul (mkT core Us) i).
Proof.
  intros c core core' Us Hs Hd i. unfold den_t, tshape. cbn [tcore tfactors].
  destruct (inb (map nrows Us) i); [|ring].
  rewrite Hs. rewrite <- (sum_over_scale_l V v0 v1 vadd vmul vsub vopp Vring).
  apply sum_over_ext. intros j _. rewrite Hd. ring.
Qed.

(* the executable ttm on dense arrays: scaling the data scales every entry of the product *)
Corollary ttm_scale : forall (c : V) (X X' : dense V) (n : nat) (M : list (list V)),
  dshape X' = dshape X ->
  (forall j, den_dense v0 X' j = vmul c (den_dense v0 X j)) ->
  forall i, den_dense v0 (ttm v0 vadd vmul X' n M) i = vmul c (den_dense v0 (ttm v0 vadd vmul X n M) i).
Proof.
  intros c X X' n M Hs Hd i. unfold ttm. rewrite Hs.
  destruct (inb (set_nth n (nrows M) (dshape X)) i) eqn:Hin.
  - rewrite !den_tabulate by exact Hin.
    rewrite <- ttm_den_scale. unfold ttm_den, sum_n. apply sum_over_ext. intros a _. now rewrite Hd.
  - rewrite !den_tabulate_out by exact Hin. ring.
Qed.
End Linear.
