(* Model/C15Inst.v — Qc / Z instances of the symmetrisation spec and comparers for the generated cases of C15. *)
From Coq Require Import List ZArith QArith Qabs Qcanon Bool Arith.
From PV Require Import Base.Index Base.Perm Base.Sum Np.Array Model.Sparse Model.Repr Model.Harness Model.C15Sym.
Import ListNotations.

Definition q_sym (T : dense Qc) (G : list (list nat)) : idx -> Qc := spec_sym q0 q1 Qcplus Qcmult Qcinv (qden T) G.
(* pyttb's symmetrised tensor O is (within the float tolerance) the spec average of T *)
Definition q_sym_matches (T : dense Qc) (G : list (list nat)) (O : dense Qc) : bool :=
  qden_matches tol9 (dshape T) (q_sym T G) O.
Definition q_same (A B : dense Qc) : bool := qden_matches tol9 (dshape A) (qden A) B.
(* the spec result is exactly symmetric (evaluated, exact rationals) *)
Definition q_sym_result_symmetric (T : dense Qc) (G : list (list nat)) : bool :=
  spec_issym Qc_eq_bool (dshape T) (q_sym T G) G.
Definition z_issym (T : dense Z) (G : list (list nat)) : bool := spec_issym Z.eqb (dshape T) (zden T) G.
Definition z_mats_identical (fs : list (list (list Z))) : bool :=
  match fs with [] => true | A :: rest => forallb (mat_eqb A) rest end.
Definition q_mats_identical (fs : list (list (list Qc))) : bool :=
  match fs with [] => true | A :: rest => forallb (list_eqb (list_eqb Qc_eq_bool) A) rest end.
