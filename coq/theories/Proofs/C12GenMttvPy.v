(* Proofs/C12GenMttvPy.v — tensor.mttkrps as called, with the split index ALSO coming from the generated code:
   split_idx = min_split(self.shape) is the GENERATED tensor.min_split (Gen/GenKernels.v), the helpers are the generated
   mttv_left / mttv_mid / khatrirao (Proofs/C12GenMttv.v). *)
From Coq Require Import List ZArith Arith Bool Lia.
From PV Require Import Base.Index Base.Sum Np.Array Model.Sparse Model.Repr Model.C12Gcp Proofs.C12Tensor Proofs.C12Mttkrps
                       Proofs.C12Reshape Proofs.C12GenMttv.
From PV Require Import Np.NpZ.
From PV Require Gen.GenKernels Proofs.C12GenTie.
Import ListNotations.
Local Open Scope nat_scope.

Definition mttkrps_gen (s : shape) (data : list Z) (As : list (list (list Z))) : res (list (list (list Z))) :=
  bind (GenKernels.min_split (map Z.of_nat s)) (fun sp => mttkrps_g data As (Z.to_nat sp)).

Theorem mttkrps_gen_spec : forall (T : dense Z) (As : list (list (list Z))) R,
  1 <= R -> wf_dense T -> Forall (fun d => 1 <= d) (dshape T) -> fdims Z R As (dshape T) -> 2 <= length (dshape T) ->
  mttkrps_gen (dshape T) (ddata T) As =
  Ok (map (mttkrp_den 0%Z 1%Z Z.add Z.mul (dshape T) (den_dense 0%Z T) As R) (seq 0 (length (dshape T)))).
Proof.
  intros T As R HR HT Hp Hd HN. unfold mttkrps_gen.
  rewrite C12GenTie.min_split_is_generated; auto.
  - cbn [bind]. rewrite Nat2Z.id. now apply mttkrps_generated_py.
  - intros E. rewrite E in HN. cbn in HN. lia.
Qed.

Example mttkrps_gen_ex :
  mttkrps_gen [2; 2]%nat [1; 2; 3; 4]%Z [[[1; 0]; [0; 1]]; [[1; 2]; [3; 4]]]%Z
  = Ok [[[1 * 1 + 3 * 3; 1 * 2 + 3 * 4]; [2 * 1 + 4 * 3; 2 * 2 + 4 * 4]]; [[1; 2]; [3; 4]]]%Z.
Proof. vm_compute. reflexivity. Qed.

Print Assumptions mttkrps_gen_spec.
