(* Proofs/C10Stop.v — (a) the boolean stop-rule check of the correspondence (Model/C10Check.v stop_ok: the transliterated tucker_als loop
   replaying the observed per-iteration fits) is sound for the stop rule stated on the trace; derived from the loop theorem
   tals_run_spec (C10_tals_bookkeeping).  (b) a squared norm formed in a wrapping integer type never exceeds the true one. *)
From Coq Require Import List Arith Bool Lia ZArith QArith Qcanon.
From PV Require Import Model.Sparse Model.Harness Model.C10Tucker Model.C10Loop Model.C10Check Proofs.C10LoopProofs.
Import ListNotations.

Lemma list_eqb_Qc_eq : forall l1 l2 : list Qc, list_eqb Qc_eq_bool l1 l2 = true -> l1 = l2.
Proof.
  induction l1 as [|x l1 IH]; intros [|y l2] H; cbn in H; try discriminate; [reflexivity|].
  apply andb_true_iff in H. destruct H as [H1 H2]. f_equal; [now apply Qc_eq_bool_correct|now apply IH].
Qed.

Section Replay.
Variable trace : list Qc.
Notation iterU := (iter_sweep nat nat rp_project rp_nvecs [1%nat] [0%nat]).
Notation fitat := (fit_at nat nat nat Qc rp_project rp_nvecs rp_core (rp_normres trace) rp_fit [1%nat] [0%nat]).
Notation fitbefore := (fit_before nat nat nat Qc rp_project rp_nvecs rp_core (rp_normres trace) rp_fit q0 [1%nat] [0%nat]).

Lemma replay_iter j : iterU j [0%nat] = [j].
Proof. induction j as [|j IH]; cbn [iter_sweep]; [reflexivity|]. rewrite IH. reflexivity. Qed.

Lemma replay_fit_at j : fitat [0%nat] j = Some (nth j trace q0).
Proof. unfold fit_at. rewrite replay_iter. reflexivity. Qed.

(* `fitold` of iteration i: 0 in the first iteration, the fit of iteration i-1 afterwards *)
Definition fit_prev (i : nat) : Qc := match i with O => q0 | S j => nth j trace q0 end.

Lemma replay_fit_before j : fitbefore [0%nat] j = Some (fit_prev j).
Proof. destruct j as [|j]; [reflexivity|]. cbn [fit_before fit_prev]. apply replay_fit_at. Qed.

(* stop_ok = true: the observed run has iters < maxiters, one fit per iteration ending in the reported fit, the convergence test
   abs(fitold - fit) < stoptol failed in every iteration before the last and fired in the last unless the limit was hit *)
Theorem stop_ok_sound (stoptol : Qc) (m iters : nat) (fit : Qc) :
  stop_ok stoptol m iters trace fit = true ->
  (0 < m)%nat /\ (iters < m)%nat /\ length trace = S iters /\ nth_error trace iters = Some fit /\
  (forall i, (i < iters)%nat -> qfchange_lt (fit_prev i) (nth i trace q0) stoptol = false) /\
  ((iters < m - 1)%nat -> qfchange_lt (fit_prev iters) fit stoptol = true).
Proof.
  unfold stop_ok, replay_tals. intros H.
  destruct (tals_run nat nat nat Qc rp_project rp_nvecs rp_core (rp_normres trace) rp_fit qfchange_lt q0 [1%nat] [0%nat] stoptol 0%nat
              [0%nat] m) as [r|] eqn:E; [|discriminate].
  apply andb_true_iff in H. destruct H as [H Hfit]. apply andb_true_iff in H. destruct H as [H Htr].
  apply andb_true_iff in H. destruct H as [Hit Hlen].
  apply Nat.eqb_eq in Hit. apply Nat.eqb_eq in Hlen. apply list_eqb_Qc_eq in Htr. apply Qc_eq_bool_correct in Hfit.
  assert (Hne : [0%nat] <> []) by discriminate.
  destruct (tals_run_spec nat nat nat Qc rp_project rp_nvecs rp_core (rp_normres trace) rp_fit qfchange_lt q0 [1%nat] [0%nat] stoptol 0%nat
              m [0%nat] r Hne E) as (Hm & Hlt & _ & _ & _ & _ & Hlast & _ & Hbefore & Hstop).
  rewrite Hit in *. rewrite Htr in *. rewrite Hfit in *.
  repeat split; auto.
  - intros i Hi. destruct (Hbefore i Hi) as (fo & fi & E1 & E2 & E3).
    rewrite replay_fit_before in E1. rewrite replay_fit_at in E2. inversion E1; inversion E2; subst. exact E3.
  - intros Hi. destruct (Hstop Hi) as (fo & E1 & E3). rewrite replay_fit_before in E1. inversion E1; subst. exact E3.
Qed.
End Replay.

Definition ex_h : Qc := Q2Qc (1 # 2). Definition ex_n : Qc := Q2Qc (9 # 10). Definition ex_m : Qc := Q2Qc (95 # 100).
Definition ex_t : Qc := Q2Qc (1 # 10).
Example stop_ok_example :
  stop_ok ex_t 5 2 [ex_h; ex_n; ex_m] ex_m = true /\ stop_ok ex_t 5 1 [ex_h; ex_n] ex_n = false /\ stop_ok ex_t 2 1 [ex_h; ex_n] ex_n = true /\
  stop_ok q0 3 2 [q1; q1; q1] q1 = true /\ stop_ok q0 3 1 [q1; q1] q1 = false.
Proof. vm_compute. repeat split; reflexivity. Qed.

(* ---------------------------------------------------------------------------------------------------------- *)
(* (b) integer wrap-around of ||X||^2 (finding C10-N02): b-bit two's complement / unsigned representatives       *)
(* ---------------------------------------------------------------------------------------------------------- *)
Local Open Scope Z_scope.
Definition wrapU (b z : Z) : Z := z mod 2 ^ b.
Definition wrapS (b z : Z) : Z := (z + 2 ^ (b - 1)) mod 2 ^ b - 2 ^ (b - 1).
Definition sumsqZ (l : list Z) : Z := fold_right (fun x acc => x * x + acc) 0 l.
Definition sumsq_wrapped (w : Z -> Z) (l : list Z) : Z := fold_right (fun x acc => w (x * x) + acc) 0 l.

Lemma wrapU_le b z : 0 < b -> 0 <= z -> wrapU b z <= z.
Proof. intros Hb Hz. unfold wrapU. apply Z.mod_le; [exact Hz|]. apply Z.pow_pos_nonneg; lia. Qed.

Lemma wrapS_le b z : 0 < b -> 0 <= z -> wrapS b z <= z.
Proof.
  intros Hb Hz. unfold wrapS.
  assert (Hp : 0 < 2 ^ (b - 1)) by (apply Z.pow_pos_nonneg; lia).
  assert (Hq : 0 < 2 ^ b) by (apply Z.pow_pos_nonneg; lia).
  pose proof (Z.mod_le (z + 2 ^ (b - 1)) (2 ^ b)) as H. lia.
Qed.

(* squares formed in the b-bit type, summed exactly (numpy sums narrow integers in a 64-bit accumulator): never above the true value *)
Theorem wrapped_normsq_le (b : Z) (signed : bool) (l : list Z) : 0 < b ->
  sumsq_wrapped (if signed then wrapS b else wrapU b) l <= sumsqZ l.
Proof.
  intros Hb. induction l as [|x l IH]; cbn [sumsq_wrapped sumsqZ fold_right]; [lia|].
  fold (sumsq_wrapped (if signed then wrapS b else wrapU b) l). fold (sumsqZ l).
  assert (Hx : 0 <= x * x) by nia.
  destruct signed; [pose proof (wrapS_le b (x * x) Hb Hx)|pose proof (wrapU_le b (x * x) Hb Hx)]; lia.
Qed.

Lemma sumsqZ_nonneg l : 0 <= sumsqZ l.
Proof. induction l as [|x l IH]; cbn [sumsqZ fold_right]; [lia|]. fold (sumsqZ l). nia. Qed.

(* ... and when squares and sum are formed in the same b-bit ring (64-bit data: the result is the representative of the true sum): still never above *)
Theorem wrapped_total_le (b : Z) (signed : bool) (l : list Z) : 0 < b ->
  (if signed then wrapS b else wrapU b) (sumsqZ l) <= sumsqZ l.
Proof. intros Hb. pose proof (sumsqZ_nonneg l). destruct signed; [now apply wrapS_le|now apply wrapU_le]. Qed.

Example wrapped_normsq_example :
  sumsq_wrapped (wrapU 8) [16; 16; 16; 16; 16; 32] = 0 /\ sumsqZ [16; 16; 16; 16; 16; 32] = 2304 /\
  sumsq_wrapped (wrapS 16) [200; 200; 200; 13] = -76439 /\ sumsqZ [200; 200; 200; 13] = 120169.
Proof. repeat split; reflexivity. Qed.
