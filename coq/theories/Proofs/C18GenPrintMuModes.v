(* Proofs/C18GenPrintMuModes.v — C18, printinneritn clause for cp_apr (MU): the GENERATED mode loop `for n in range(N):` of
   tt_cp_apr_mu (Gen/GenCpAprMu.v cp_apr_mu_loop3: inadmissible-zero repair, redistribute, Pi, inner loop, normalize) is what the
   hand print driver's mode loop (Proofs/C18Print.v mu_modes, with printinneritn and the inner status lines as events) computes, for
   EVERY printinneritn: state (M, Phi, kktModeViolations, world), isConverged, the counters nInnerIters[iteration] and
   nViolations[iteration].  Builds on the inner-loop bridge of Proofs/C18GenPrintMu.v. *)
From Coq Require Import String List Arith Bool ZArith Lia.
From PV Require Import Model.W4SPrelude Gen.GenCpAprMu Proofs.C18Print Proofs.C18GenPrintHosvd Proofs.C18GenPrintMu.
Import ListNotations.
Local Open Scope nat_scope.

Section MuModesBridge.
Variables T_W T_F T_Mat T_Mask T_K T_X T_Pi : Type.
Variable c_leF : T_F -> T_F -> bool.
Variable k_violation_mask : list T_Mat -> nat -> T_K -> T_F -> T_Mask.
Variable k_any : T_Mask -> bool.
Variable k_add_kappa : T_K -> nat -> T_Mask -> T_F -> T_K.
Variable k_redistribute : T_K -> nat -> T_K.
Variable k_calculate_pi : T_X -> T_K -> nat -> nat -> nat -> T_Pi.
Variable k_calculate_phi : T_W -> T_X -> T_K -> nat -> nat -> T_Pi -> T_F -> T_W * T_Mat.
Variable k_kkt_mode : T_K -> nat -> list T_Mat -> T_F.
Variable k_mult_update : T_K -> nat -> list T_Mat -> T_K.
Variable k_normalize_mode : T_K -> nat -> nat -> T_K.
Notation gloop4 := (GenCpAprMu.cp_apr_mu_loop4 T_W T_F T_Mat T_K T_X T_Pi c_leF k_calculate_phi k_kkt_mode k_mult_update).
Notation gloop3 := (GenCpAprMu.cp_apr_mu_loop3 T_W T_F T_Mat T_Mask T_K T_X T_Pi c_leF k_violation_mask k_any k_add_kappa k_redistribute
  k_calculate_pi k_calculate_phi k_kkt_mode k_mult_update k_normalize_mode).

Variable X : T_X.
Variable eps : T_F.
Variable rank : nat.
Variable stoptol : T_F.
Variable N : nat.
Variables kappa kappatol : T_F.
Variable maxinner : nat.

Notation ST := (mu_st T_W T_F T_Mat T_K).
Definition st_M (s : ST) : T_K := fst (fst (fst s)).
Definition st_Phi (s : ST) : list T_Mat := snd (fst (fst s)).
Definition st_km (s : ST) : list T_F := snd (fst s).
Definition st_w (s : ST) : T_W := snd s.

(* if iteration > 0: V = (Phi[n] > 0) & (M[n] < kappatol); if any(V): nViolations[iteration] += 1; M[n][V > 0] += kappa *)
Definition m_fixslack (it n : nat) (s : ST) : ST * bool :=
  if 0 <? it
  then let V := k_violation_mask (st_Phi s) n (st_M s) kappatol in
       if k_any V then ((k_add_kappa (st_M s) n V kappa, st_Phi s, st_km s, st_w s), true) else (s, false)
  else (s, false).
Definition m_redist (n : nat) (s : ST) : ST := (k_redistribute (st_M s) n, st_Phi s, st_km s, st_w s).
Definition m_calc_pi (n : nat) (s : ST) : T_Pi := k_calculate_pi X (st_M s) rank n N.
Definition m_renorm (n : nat) (s : ST) : ST := (k_normalize_mode (st_M s) n 1, st_Phi s, st_km s, st_w s).

Notation CPHI := (m_calc_phi T_W T_F T_Mat T_K T_X T_Pi k_calculate_phi k_kkt_mode X eps rank).
Notation MUPD := (m_mulupd T_W T_F T_Mat T_K k_mult_update).
Notation LTB := (m_ltb T_F c_leF).
Notation hinner q := (mu_inner_loop ST T_Pi T_F CPHI MUPD LTB stoptol q).
Notation hmodes q := (mu_modes ST T_Pi T_F m_fixslack m_redist m_calc_pi CPHI MUPD m_renorm LTB stoptol maxinner q).

(* the hand inner loop keeps the lengths of Phi and kktModeViolations *)
Lemma hinner_lengths q : forall fuel i n Pi s cv cnt,
  length (st_Phi (fst (fst (fst (hinner q fuel i n Pi s cv cnt))))) = length (st_Phi s) /\
  length (st_km (fst (fst (fst (hinner q fuel i n Pi s cv cnt))))) = length (st_km s).
Proof.
  induction fuel as [|fuel IH]; intros i n Pi s cv cnt; [cbn; auto|].
  cbn [mu_inner_loop].
  assert (L : length (st_Phi (fst (CPHI n Pi s))) = length (st_Phi s) /\ length (st_km (fst (CPHI n Pi s))) = length (st_km s)).
  { destruct s as [[[M Phi] km] w]. unfold m_calc_phi. destruct (k_calculate_phi w X M rank n Pi eps) as [w1 ph].
    cbn [fst snd st_Phi st_km]. now rewrite !g_setf_length. }
  destruct (LTB (snd (CPHI n Pi s)) stoptol); [cbn [fst]; exact L|].
  specialize (IH (S i) n Pi (MUPD n (fst (CPHI n Pi s))) false (S cnt)).
  destruct (hinner q fuel (S i) n Pi (MUPD n (fst (CPHI n Pi s))) false (S cnt)) as [[[s3 c3] n3] l3]. cbn [fst] in IH |- *.
  destruct (fst (CPHI n Pi s)) as [[[M1 Phi1] km1] w1]. cbn [m_mulupd st_Phi st_km fst snd] in IH, L. destruct IH as [I1 I2].
  destruct L as [L1 L2]. split; congruence.
Qed.

(* BRIDGE of the mode loop (modes i, i+1, ..., i+fuel-1), for every printinneritn q *)
Theorem mu_modes_print_bridge (q : Z) (it : nat) : forall fuel i M Phi cv km vn ni nv w cnt nviol,
  i + fuel <= length Phi -> i + fuel <= length km -> nth_error ni it = Some cnt -> nth_error nv it = Some nviol ->
  exists s' cv' cnt' nviol' l', hmodes q it (seq i fuel) (M, Phi, km, w) cv cnt nviol = (s', cv', cnt', nviol', l') /\
  exists ni' nv' vn',
    gloop3 N eps X it kappa kappatol maxinner rank stoptol fuel i (M, Phi, cv, km, vn, ni, nv, w)
      = Some (st_M s', st_Phi s', cv', st_km s', vn', ni', nv', st_w s') /\
    nth_error ni' it = Some cnt' /\ (forall j, j <> it -> nth_error ni' j = nth_error ni j) /\
    nth_error nv' it = Some nviol' /\ (forall j, j <> it -> nth_error nv' j = nth_error nv j).
Proof.
  induction fuel as [|fuel IH]; intros i M Phi cv km vn ni nv w cnt nviol HP Hk Hn Hv.
  - cbn. exists (M, Phi, km, w), cv, cnt, nviol, []. split; [reflexivity|]. exists ni, nv, vn. cbn. auto 10.
  - cbn [seq mu_modes GenCpAprMu.cp_apr_mu_loop3].
    (* the repair step on both sides *)
    assert (Hvi : it < length nv) by (apply nth_error_Some; rewrite Hv; discriminate).
    set (s0 := (M, Phi, km, w) : ST).
    match goal with |- context [match ?e with Some _ => _ | None => _ end] =>
      lazymatch e with (if 0 <? it then _ else _) =>
    assert (Efix : exists nv1, e =
      Some (st_M (fst (m_fixslack it i s0)), (if 0 <? it then Some (k_violation_mask Phi i M kappatol) else None), nv1) /\
      nth_error nv1 it = Some (if snd (m_fixslack it i s0) then S nviol else nviol) /\
      (forall j, j <> it -> nth_error nv1 j = nth_error nv j) /\
      st_Phi (fst (m_fixslack it i s0)) = Phi /\ st_km (fst (m_fixslack it i s0)) = km /\ st_w (fst (m_fixslack it i s0)) = w)
      end end.
    { unfold m_fixslack, s0. cbn [st_M st_Phi st_km st_w fst snd]. destruct (0 <? it).
      - cbn zeta. destruct (k_any (k_violation_mask Phi i M kappatol)).
        + rewrite Hv. destruct (c18_sk_set_some nv it (nviol + 1) Hvi) as [nv1 E1]. rewrite E1. exists nv1.
          cbn [fst snd]. split; [reflexivity|]. split; [rewrite (c18_sk_set_same _ _ _ _ E1); f_equal; lia|].
          split; [intros j Hj; exact (c18_sk_set_other _ _ _ _ _ E1 Hj)|auto].
        + exists nv. cbn [fst snd]. auto 10.
      - exists nv. cbn [fst snd]. auto 10. }
    destruct Efix as (nv1 & Efix & Hv1 & Ho1 & FP & Fk & Fw). rewrite Efix. clear Efix.
    set (s1 := fst (m_fixslack it i s0)) in *.
    set (s2 := m_redist i s1).
    (* the inner loop *)
    assert (HPi : i < length (st_Phi s2)) by (unfold s2, m_redist; cbn [st_Phi fst snd]; rewrite FP; lia).
    assert (Hki : i < length (st_km s2)) by (unfold s2, m_redist; cbn [st_km fst snd]; rewrite Fk; lia).
    pose proof (mu_inner_print_bridge T_W T_F T_Mat T_K T_X T_Pi c_leF k_calculate_phi k_kkt_mode k_mult_update X eps rank stoptol
                  q (m_calc_pi i s2) it i maxinner 0 (st_M s2) (st_Phi s2) cv (st_km s2) ni (st_w s2) cnt HPi Hki Hn) as HI.
    pose proof (hinner_lengths q maxinner 0 i (m_calc_pi i s2) s2 cv cnt) as HL.
    assert (Es2 : (st_M s2, st_Phi s2, st_km s2, st_w s2) = s2) by (destruct s2 as [[[a b] c] d]; reflexivity).
    rewrite Es2 in HI.
    destruct (hinner q maxinner 0 i (m_calc_pi i s2) s2 cv cnt) as [[[s3 c3] n3] l3]. cbn [fst] in HL.
    destruct s3 as [[[M3 Phi3] km3] w3]. destruct HI as (ni1 & Eg & Hc1 & Hoi). cbn [st_Phi st_km fst snd] in HL. destruct HL as [LP Lk].
    (* generated side: the same inner call *)
    assert (Eq : gloop4 (k_calculate_pi X (k_redistribute (st_M s1) i) rank i N) eps X it i rank stoptol maxinner 0
                   (k_redistribute (st_M s1) i, Phi, cv, km, ni, w) = Some (M3, Phi3, c3, km3, ni1, w3)).
    { rewrite <- Eg. unfold s2, m_redist, m_calc_pi. cbn [st_M st_Phi st_km st_w fst snd]. now rewrite FP, Fk, Fw. }
    rewrite Eq. clear Eq Eg.
    (* the rest of the modes *)
    assert (HP3 : S i + fuel <= length Phi3).
    { rewrite LP. unfold s2, m_redist. cbn [st_Phi fst snd]. rewrite FP. lia. }
    assert (Hk3 : S i + fuel <= length km3).
    { rewrite Lk. unfold s2, m_redist. cbn [st_km fst snd]. rewrite Fk. lia. }
    destruct (IH (S i) (k_normalize_mode M3 i 1) Phi3 c3 km3 (Some i) ni1 nv1 w3 n3 (if snd (m_fixslack it i s0) then S nviol else nviol)
                 HP3 Hk3 Hc1 Hv1) as (s' & cv' & cnt' & nviol' & l' & Eh & ni' & nv' & vn' & Eg' & A1 & A2 & A3 & A4).
    change (m_renorm i (M3, Phi3, km3, w3)) with (k_normalize_mode M3 i 1, Phi3, km3, w3). rewrite Eh.
    exists s', cv', cnt', nviol', (l3 ++ l'). split; [reflexivity|].
    exists ni', nv', vn'. split; [exact Eg'|]. split; [exact A1|]. split; [intros j Hj; rewrite (A2 j Hj); exact (Hoi j Hj)|].
    split; [exact A3|]. intros j Hj. rewrite (A4 j Hj). exact (Ho1 j Hj).
Qed.
End MuModesBridge.
