(* Proofs/C10Spectral.v — the spectral half of C10 (hosvd / tucker_als), over the abstract real inner-product space of
   Proofs/C10Proofs.v.
   1. spectral_step      : discarded eigenvalues = discarded energy (one mode of truncated HOSVD)
   2. hosvd_error_bound  : rank rule (auto_rank) + spectral step + projector bound  ==>  ||x - P_d..P_1 x||^2 <= tolsq ||x||^2,
                           for sequential and for non-sequential truncation
   3. hooi_monotone      : one HOOI (tucker_als) update of one mode never decreases ||core||; sweeps; the fit never decreases
   An orthonormal eigenbasis u_1..u_m of the mode-k Gram matrix is modelled by the rank-one orthogonal projectors
   Q_j x = component of x along u_j in mode k; completeness of the basis is the resolution of the identity, stated through
   inner products so that no addition on E is needed. *)
From Coq Require Import List Arith Lia Bool Reals Lra.
From PV Require Import Np.NpR Model.C10Tucker Proofs.C10Proofs.
Import ListNotations.
Local Open Scope R_scope.

Lemma sumR_firstn_skipn (l : list R) (r : nat) : sumR l = sumR (firstn r l) + sumR (skipn r l).
Proof. rewrite <- sumR_app, firstn_skipn. reflexivity. Qed.

Lemma sumR_nonneg (l : list R) : Forall (fun t => 0 <= t) l -> 0 <= sumR l.
Proof. induction 1 as [|t l Ht _ IH]; cbn [sumR]; lra. Qed.

Section Spectral.
Variable E : Type.
Variables (sub : E -> E -> E) (inner : E -> E -> R).
Hypothesis inner_sym : forall a b, inner a b = inner b a.
Hypothesis inner_sub : forall a b c, inner (sub a b) c = inner a c - inner b c.
Hypothesis inner_pos : forall a, 0 <= inner a a.

(* ---------------------------------------------------------------------------------------- *)
(* 1. spectral step                                                                           *)
(* ---------------------------------------------------------------------------------------- *)
(* self-adjoint + idempotent: <Q y, b> = <Q y, Q b>; in particular <Q y, y> = ||Q y||^2 *)
Lemma oproj_inner (Q : E -> E) (a b : E) : oproj E sub inner Q -> inner (Q a) b = inner (Q a) (Q b).
Proof. intros (_ & Hi & Hs). rewrite <- (Hi a) at 1. apply Hs. Qed.

Lemma oproj_energy (Q : E -> E) (y : E) : oproj E sub inner Q -> inner (Q y) y = nrm2 E inner (Q y).
Proof. intros H. unfold nrm2. now apply oproj_inner. Qed.

Lemma energies_eq (Qs : list (E -> E)) (y : E) : Forall (oproj E sub inner) Qs ->
  map (fun Q => inner (Q y) y) Qs = map (fun Q => nrm2 E inner (Q y)) Qs.
Proof.
  intros H. apply map_ext_in. intros Q HQ. apply oproj_energy.
  rewrite Forall_forall in H. now apply H.
Qed.

Theorem spectral_step : forall (Qs : list (E -> E)) (P : E -> E) (r : nat) (y : E) (eig : list R),
  Forall (oproj E sub inner) Qs ->
  (forall a b, inner a b = sumR (map (fun Q => inner (Q a) b) Qs)) ->
  oproj E sub inner P ->
  (forall a b, inner (P a) b = sumR (map (fun Q => inner (Q a) b) (firstn r Qs))) ->
  eig = map (fun Q => nrm2 E inner (Q y)) Qs ->
  nrm2 E inner (sub y (P y)) = sumR (skipn r eig) /\
  Forall (fun l => 0 <= l) eig /\
  sumR eig = nrm2 E inner y.
Proof.
  intros Qs P r y eig HQs Hres HP HPr Heig.
  assert (Htot : sumR eig = nrm2 E inner y).
  { unfold nrm2 at 1. rewrite (Hres y y), Heig, energies_eq by assumption. reflexivity. }
  assert (Hkept : nrm2 E inner (P y) = sumR (firstn r eig)).
  { rewrite <- oproj_energy by assumption. rewrite (HPr y y), Heig, firstn_map.
    rewrite energies_eq; [reflexivity|].
    rewrite Forall_forall in *. intros Q HQ. apply HQs. rewrite <- (firstn_skipn r Qs). apply in_or_app; auto. }
  split; [|split].
  - rewrite (pythagoras E sub inner inner_sym inner_sub) by assumption.
    rewrite <- Htot, Hkept, (sumR_firstn_skipn eig r). lra.
  - subst eig. apply Forall_forall. intros l Hl. apply in_map_iff in Hl. destruct Hl as (Q & <- & _).
    apply inner_pos.
  - exact Htot.
Qed.

(* the energy kept is the sum of the leading r eigenvalues, the energy discarded never exceeds the total *)
Corollary spectral_step_kept : forall (Qs : list (E -> E)) (P : E -> E) (r : nat) (y : E) (eig : list R),
  Forall (oproj E sub inner) Qs ->
  (forall a b, inner a b = sumR (map (fun Q => inner (Q a) b) Qs)) ->
  oproj E sub inner P ->
  (forall a b, inner (P a) b = sumR (map (fun Q => inner (Q a) b) (firstn r Qs))) ->
  eig = map (fun Q => nrm2 E inner (Q y)) Qs ->
  nrm2 E inner (P y) = sumR (firstn r eig).
Proof.
  intros Qs P r y eig HQs Hres HP HPr Heig.
  destruct (spectral_step Qs P r y eig HQs Hres HP HPr Heig) as (Hd & _ & Ht).
  rewrite (pythagoras E sub inner inner_sym inner_sub) in Hd by assumption.
  rewrite (sumR_firstn_skipn eig r) in Ht. lra.
Qed.

(* ---------------------------------------------------------------------------------------- *)
(* 2. hosvd error bound, end to end from the rank rule                                        *)
(* ---------------------------------------------------------------------------------------- *)
(* what hosvd computes for one mode: eigenbasis (as rank-one projectors), spectrum, chosen rank, truncation projector *)
Record mode_data : Type := MkMode {
  md_P : E -> E;
  md_Qs : list (E -> E);
  md_r : nat;
  md_eig : list R }.

(* the hypotheses of spectral_step at the vector y the mode looks at *)
Definition spectral_ok (y : E) (m : mode_data) : Prop :=
  Forall (oproj E sub inner) (md_Qs m) /\
  (forall a b, inner a b = sumR (map (fun Q => inner (Q a) b) (md_Qs m))) /\
  oproj E sub inner (md_P m) /\
  (forall a b, inner (md_P m a) b = sumR (map (fun Q => inner (Q a) b) (firstn (md_r m) (md_Qs m)))) /\
  md_eig m = map (fun Q => nrm2 E inner (Q y)) (md_Qs m).

(* ... and the rank was chosen by the transliterated rule of hosvd.py with eigenvalue budget t *)
Definition mode_ok (t : R) (y : E) (m : mode_data) : Prop :=
  spectral_ok y m /\ auto_rank 0 Rplus Rltb (md_eig m) t = Some (md_r m).

(* sequential truncation: mode k looks at the running vector P_{k-1} .. P_1 x *)
Fixpoint seq_ok (t : R) (y : E) (ms : list mode_data) : Prop :=
  match ms with [] => True | m :: ms' => mode_ok t y m /\ seq_ok t (md_P m y) ms' end.
(* non-sequential truncation: every mode looks at the original vector *)
Definition nonseq_ok (t : R) (x : E) (ms : list mode_data) : Prop := Forall (mode_ok t x) ms.

(* seq_ok spelled out by position: mode k sees applyPs (firstn k Ps) x *)
Lemma seq_ok_indexed t ms : forall x,
  seq_ok t x ms <->
  (forall k m, nth_error ms k = Some m -> mode_ok t (applyPs E (firstn k (map md_P ms)) x) m).
Proof.
  induction ms as [|m0 ms IH]; intros x; cbn [seq_ok].
  - split; [intros _ [|k] m Hk; discriminate | trivial].
  - rewrite IH. split.
    + intros (H0 & Hrest) [|k] m Hk; cbn [nth_error] in Hk.
      * inversion Hk; subst. exact H0.
      * cbn [map firstn applyPs]. now apply Hrest.
    + intros H. split.
      * apply (H 0%nat m0). reflexivity.
      * intros k m Hk. apply (H (S k) m). exact Hk.
Qed.

Lemma mode_ok_oproj t y m : mode_ok t y m -> oproj E sub inner (md_P m).
Proof. intros ((_ & _ & H & _) & _). exact H. Qed.

(* one mode: the energy discarded from the vector it looks at is within the budget *)
Lemma mode_ok_discard t y m : 0 <= t -> mode_ok t y m ->
  nrm2 E inner (sub y (md_P m y)) = sumR (skipn (md_r m) (md_eig m)) /\
  nrm2 E inner (sub y (md_P m y)) <= t /\
  (0 < md_r m <= length (md_Qs m))%nat /\
  (forall r', (r' < md_r m)%nat -> t < sumR (skipn r' (md_eig m))).
Proof.
  intros Ht ((HQs & Hres & HP & HPr & Heig) & Hrank).
  destruct (spectral_step _ _ _ _ _ HQs Hres HP HPr Heig) as (Hd & Hnn & _).
  destruct (rank_choice _ _ _ Hnn Ht Hrank) as (Hr & _ & Hle & Hmin).
  rewrite Hd. repeat split; try assumption; try lra.
  - lia.
  - rewrite Heig, map_length in Hr. lia.
Qed.

Lemma seq_ok_oproj t ms : forall y, seq_ok t y ms -> Forall (oproj E sub inner) (map md_P ms).
Proof.
  induction ms as [|m ms IH]; intros y H; cbn [map]; constructor; destruct H as (H0 & Hr).
  - eapply mode_ok_oproj; eauto.
  - eapply IH; eauto.
Qed.

Lemma nonseq_ok_oproj t x ms : nonseq_ok t x ms -> Forall (oproj E sub inner) (map md_P ms).
Proof.
  intros H. induction H as [|m ms H0 _ IH]; cbn [map]; constructor; auto. eapply mode_ok_oproj; eauto.
Qed.

Lemma seq_ok_terms t ms : 0 <= t -> forall y, seq_ok t y ms ->
  Forall (fun e => e <= t) (terms E sub inner y (map md_P ms)).
Proof.
  intros Ht. induction ms as [|m ms IH]; intros y H; cbn [map terms]; constructor; destruct H as (H0 & Hr).
  - apply (mode_ok_discard t y m Ht H0).
  - apply IH. exact Hr.
Qed.

Lemma nonseq_ok_direct t x ms : 0 <= t -> nonseq_ok t x ms ->
  Forall (fun e => e <= t) (direct E sub inner x (map md_P ms)).
Proof.
  intros Ht H. unfold direct. induction H as [|m ms H0 _ IH]; cbn [map]; constructor; auto.
  apply (mode_ok_discard t x m Ht H0).
Qed.

Lemma budget_nonneg (x : E) (tolsq : R) (d : nat) : 0 <= tolsq -> (0 < d)%nat -> 0 <= tolsq * nrm2 E inner x / INR d.
Proof.
  intros Ht Hd. unfold Rdiv. apply Rmult_le_pos.
  - apply Rmult_le_pos; [exact Ht | apply inner_pos].
  - left. apply Rinv_0_lt_compat. now apply lt_0_INR.
Qed.

(* C10_error_bound end to end: spectra + rank rule (budget tolsq ||x||^2 / d for the ORIGINAL x) ==> relative error <= tolsq.
   Forall oproj Ps is part of the per-mode data, so it is not a separate hypothesis. *)
Theorem hosvd_error_bound : forall (sequential : bool) (ms : list mode_data) (x : E) (tolsq : R),
  let Ps := map md_P ms in
  let budget := tolsq * nrm2 E inner x / INR (length Ps) in
  Ps <> [] -> pairwise_commute E Ps -> 0 <= tolsq ->
  (if sequential then seq_ok budget x ms else nonseq_ok budget x ms) ->
  nrm2 E inner (sub x (applyPs E Ps x)) <= tolsq * nrm2 E inner x.
Proof.
  intros sequential ms x tolsq Ps budget Hne Hc Htol Hok.
  assert (Hb : 0 <= budget).
  { apply budget_nonneg; [exact Htol|]. destruct Ps; [contradiction | cbn; lia]. }
  assert (HF : Forall (oproj E sub inner) Ps).
  { destruct sequential; [eapply seq_ok_oproj | eapply nonseq_ok_oproj]; eauto. }
  apply (error_bound E sub inner inner_sym inner_sub inner_pos Ps x tolsq Hne HF Hc).
  fold budget. destruct sequential.
  - left. now apply seq_ok_terms.
  - right. now apply nonseq_ok_direct.
Qed.

(* the two strategies separately, with the projector list named *)
Corollary hosvd_error_bound_sequential : forall (ms : list mode_data) (Ps : list (E -> E)) (x : E) (tolsq : R),
  Ps = map md_P ms -> Ps <> [] -> pairwise_commute E Ps -> 0 <= tolsq ->
  seq_ok (tolsq * nrm2 E inner x / INR (length Ps)) x ms ->
  nrm2 E inner (sub x (applyPs E Ps x)) <= tolsq * nrm2 E inner x.
Proof. intros ms Ps x tolsq -> Hne Hc Ht H. exact (hosvd_error_bound true ms x tolsq Hne Hc Ht H). Qed.

Corollary hosvd_error_bound_nonsequential : forall (ms : list mode_data) (Ps : list (E -> E)) (x : E) (tolsq : R),
  Ps = map md_P ms -> Ps <> [] -> pairwise_commute E Ps -> 0 <= tolsq ->
  nonseq_ok (tolsq * nrm2 E inner x / INR (length Ps)) x ms ->
  nrm2 E inner (sub x (applyPs E Ps x)) <= tolsq * nrm2 E inner x.
Proof. intros ms Ps x tolsq -> Hne Hc Ht H. exact (hosvd_error_bound false ms x tolsq Hne Hc Ht H). Qed.

(* ---------------------------------------------------------------------------------------- *)
(* 3. HOOI (tucker_als) never decreases ||core||                                              *)
(* ---------------------------------------------------------------------------------------- *)
Lemma applyPs_app (Ps1 Ps2 : list (E -> E)) (x : E) : applyPs E (Ps1 ++ Ps2) x = applyPs E Ps2 (applyPs E Ps1 x).
Proof. revert x; induction Ps1 as [|P Ps1 IH]; intros x; cbn [app applyPs]; auto. Qed.

(* a projector commuting with everything after it can be applied last: P_d..P_n..P_1 x = P_n (others x) *)
Lemma applyPs_pull (Ps1 Ps2 : list (E -> E)) (P : E -> E) (x : E) :
  (forall Q, In Q Ps2 -> commute E P Q) ->
  applyPs E (Ps1 ++ P :: Ps2) x = P (applyPs E (Ps1 ++ Ps2) x).
Proof.
  intros Hc. rewrite !applyPs_app. cbn [applyPs].
  symmetry. apply (commute_applyPs E P Ps2 Hc).
Qed.

Lemma pairwise_commute_mid (Ps1 Ps2 : list (E -> E)) (P : E -> E) :
  pairwise_commute E (Ps1 ++ P :: Ps2) -> forall Q, In Q Ps2 -> commute E P Q.
Proof. intros H Q HQ. apply H; apply in_or_app; right; cbn; auto. Qed.

(* one HOOI update of one mode: P (old factor n) is replaced by P' (leading mode-n vectors of y = x projected on all the
   OTHER factors); the eigen-oracle contract (Ky Fan) is that P' captures at least as much of y as P did.
   (oproj is not needed for this step: only that the new and the old projector commute with the later modes.) *)
Theorem hooi_monotone : forall (Ps1 Ps2 : list (E -> E)) (P P' : E -> E) (x : E),
  pairwise_commute E (Ps1 ++ P :: Ps2) -> pairwise_commute E (Ps1 ++ P' :: Ps2) ->
  nrm2 E inner (P (applyPs E (Ps1 ++ Ps2) x)) <= nrm2 E inner (P' (applyPs E (Ps1 ++ Ps2) x)) ->
  nrm2 E inner (applyPs E (Ps1 ++ P :: Ps2) x) <= nrm2 E inner (applyPs E (Ps1 ++ P' :: Ps2) x).
Proof.
  intros Ps1 Ps2 P P' x Hc Hc' H.
  rewrite (applyPs_pull Ps1 Ps2 P x (pairwise_commute_mid _ _ _ Hc)).
  rewrite (applyPs_pull Ps1 Ps2 P' x (pairwise_commute_mid _ _ _ Hc')).
  exact H.
Qed.

(* any number of single-mode updates, in any mode order (sweeps of tucker_als) *)
Inductive hooi_steps (x : E) : list (E -> E) -> list (E -> E) -> Prop :=
| hooi_refl : forall Ps, hooi_steps x Ps Ps
| hooi_step : forall Ps1 Ps2 P P' Ps'',
    pairwise_commute E (Ps1 ++ P :: Ps2) -> pairwise_commute E (Ps1 ++ P' :: Ps2) ->
    nrm2 E inner (P (applyPs E (Ps1 ++ Ps2) x)) <= nrm2 E inner (P' (applyPs E (Ps1 ++ Ps2) x)) ->
    hooi_steps x (Ps1 ++ P' :: Ps2) Ps'' ->
    hooi_steps x (Ps1 ++ P :: Ps2) Ps''.

Lemma hooi_steps_trans x Ps Ps' Ps'' : hooi_steps x Ps Ps' -> hooi_steps x Ps' Ps'' -> hooi_steps x Ps Ps''.
Proof. induction 1 as [|Ps1 Ps2 P P' Q Hc Hc' Hle _ IH]; intros H2; [exact H2|]. eapply hooi_step; eauto. Qed.

Lemma hooi_steps_length x Ps Ps' : hooi_steps x Ps Ps' -> length Ps = length Ps'.
Proof.
  induction 1 as [|Ps1 Ps2 P P' Q Hc Hc' Hle _ IH]; [reflexivity|].
  rewrite <- IH, !app_length. reflexivity.
Qed.

Theorem hooi_sweep_monotone : forall (x : E) (Ps Ps' : list (E -> E)),
  hooi_steps x Ps Ps' -> nrm2 E inner (applyPs E Ps x) <= nrm2 E inner (applyPs E Ps' x).
Proof.
  intros x Ps Ps' H. induction H as [|Ps1 Ps2 P P' Q Hc Hc' Hle _ IH]; [lra|].
  pose proof (hooi_monotone Ps1 Ps2 P P' x Hc Hc' Hle). lra.
Qed.

(* tucker_fit: residual^2 = ||x||^2 - ||core||^2, so the residual does not grow *)
Corollary hooi_fit_monotone : forall (x : E) (Ps Ps' : list (E -> E)),
  hooi_steps x Ps Ps' ->
  nrm2 E inner x - nrm2 E inner (applyPs E Ps' x) <= nrm2 E inner x - nrm2 E inner (applyPs E Ps x).
Proof. intros x Ps Ps' H. pose proof (hooi_sweep_monotone x Ps Ps' H). lra. Qed.

(* the same on the actual residual x - P_d..P_1 x (here the projectors have to be orthogonal projectors) *)
Lemma residual_identity (Ps : list (E -> E)) (x : E) : Forall (oproj E sub inner) Ps -> pairwise_commute E Ps ->
  nrm2 E inner (sub x (applyPs E Ps x)) = nrm2 E inner x - nrm2 E inner (applyPs E Ps x).
Proof.
  intros HF Hc. apply (pythagoras E sub inner inner_sym inner_sub (applyPs E Ps) x).
  now apply oproj_applyPs.
Qed.

Corollary hooi_residual_monotone : forall (x : E) (Ps Ps' : list (E -> E)),
  hooi_steps x Ps Ps' ->
  Forall (oproj E sub inner) Ps -> pairwise_commute E Ps ->
  Forall (oproj E sub inner) Ps' -> pairwise_commute E Ps' ->
  nrm2 E inner (sub x (applyPs E Ps' x)) <= nrm2 E inner (sub x (applyPs E Ps x)).
Proof.
  intros x Ps Ps' H HF Hc HF' Hc'. rewrite !residual_identity by assumption. now apply hooi_fit_monotone.
Qed.

(* the fit reported by tucker_als, 1 - ||x - T|| / ||x||, does not decrease *)
Corollary hooi_fit_sqrt_monotone : forall (x : E) (Ps Ps' : list (E -> E)),
  hooi_steps x Ps Ps' ->
  Forall (oproj E sub inner) Ps -> pairwise_commute E Ps ->
  Forall (oproj E sub inner) Ps' -> pairwise_commute E Ps' ->
  0 < nrm2 E inner x ->
  1 - sqrt (nrm2 E inner (sub x (applyPs E Ps x))) / sqrt (nrm2 E inner x) <=
  1 - sqrt (nrm2 E inner (sub x (applyPs E Ps' x))) / sqrt (nrm2 E inner x).
Proof.
  intros x Ps Ps' H HF Hc HF' Hc' Hx.
  pose proof (hooi_residual_monotone x Ps Ps' H HF Hc HF' Hc') as Hr.
  apply sqrt_le_1_alt in Hr. pose proof (sqrt_lt_R0 _ Hx) as Hn.
  assert (Hi : 0 < / sqrt (nrm2 E inner x)) by now apply Rinv_0_lt_compat.
  unfold Rdiv. apply Rplus_le_compat_l, Ropp_le_contravar.
  apply Rmult_le_compat_r; [lra | exact Hr].
Qed.

Corollary hooi_core_and_fit_monotone : forall (x : E) (Ps Ps' : list (E -> E)),
  hooi_steps x Ps Ps' ->
  Forall (oproj E sub inner) Ps -> pairwise_commute E Ps ->
  Forall (oproj E sub inner) Ps' -> pairwise_commute E Ps' ->
  0 < nrm2 E inner x ->
  nrm2 E inner (applyPs E Ps x) <= nrm2 E inner (applyPs E Ps' x) /\
  1 - sqrt (nrm2 E inner (sub x (applyPs E Ps x))) / sqrt (nrm2 E inner x) <=
  1 - sqrt (nrm2 E inner (sub x (applyPs E Ps' x))) / sqrt (nrm2 E inner x).
Proof.
  intros x Ps Ps' H H1 H2 H3 H4 H5. split; [now apply hooi_sweep_monotone|now apply hooi_fit_sqrt_monotone].
Qed.

End Spectral.

(* ---------------------------------------------------------------------------------------- *)
(* non-vacuity: R^3 (C10Proofs.v), coordinate projectors as the eigenbasis                    *)
(* ---------------------------------------------------------------------------------------- *)
Definition keep1 (a : v3) : v3 := let '(a1, _, _) := a in (a1, 0, 0).
Definition keep2 (a : v3) : v3 := let '(_, a2, _) := a in (0, a2, 0).
Definition keep3 (a : v3) : v3 := let '(_, _, a3) := a in (0, 0, a3).
Definition drop1 (a : v3) : v3 := let '(_, a2, a3) := a in (0, a2, a3).

Local Ltac v3_oproj :=
  repeat split;
  [ intros [[a1 a2] a3] [[b1 b2] b3]; cbn; repeat f_equal; lra
  | intros [[a1 a2] a3]; reflexivity
  | intros [[a1 a2] a3] [[b1 b2] b3]; cbn; lra ].

Lemma oproj_keep1 : oproj v3 sub3 inner3 keep1. Proof. v3_oproj. Qed.
Lemma oproj_keep2 : oproj v3 sub3 inner3 keep2. Proof. v3_oproj. Qed.
Lemma oproj_keep3 : oproj v3 sub3 inner3 keep3. Proof. v3_oproj. Qed.
Lemma oproj_drop1 : oproj v3 sub3 inner3 drop1. Proof. v3_oproj. Qed.

Local Ltac v3_forall :=
  repeat (apply Forall_cons;
          [first [apply oproj_keep1 | apply oproj_keep2 | apply oproj_keep3 | apply oproj_drop1 | apply oproj_drop2 | apply oproj_drop3] |]);
  apply Forall_nil.

(* y = (1,2,3), eigenbasis order e3, e1, e2 (spectrum 9, 1, 4), keep r = 2 of them: P = drop2, discarded energy = 4 *)
Example spectral_step_example :
  let y : v3 := (1, 2, 3) in
  let Qs := [keep3; keep1; keep2] in
  let eig := [9; 1; 4] in
  Forall (oproj v3 sub3 inner3) Qs /\
  (forall a b, inner3 a b = sumR (map (fun Q => inner3 (Q a) b) Qs)) /\
  oproj v3 sub3 inner3 drop2 /\
  (forall a b, inner3 (drop2 a) b = sumR (map (fun Q => inner3 (Q a) b) (firstn 2 Qs))) /\
  eig = map (fun Q => nrm2 v3 inner3 (Q y)) Qs /\
  nrm2 v3 inner3 (sub3 y (drop2 y)) = 4 /\ sumR eig = nrm2 v3 inner3 y.
Proof.
  intros y Qs eig.
  assert (H1 : Forall (oproj v3 sub3 inner3) Qs)
    by (v3_forall).
  assert (H2 : forall a b, inner3 a b = sumR (map (fun Q => inner3 (Q a) b) Qs))
    by (intros [[a1 a2] a3] [[b1 b2] b3]; cbn; lra).
  assert (H4 : forall a b, inner3 (drop2 a) b = sumR (map (fun Q => inner3 (Q a) b) (firstn 2 Qs)))
    by (intros [[a1 a2] a3] [[b1 b2] b3]; cbn; lra).
  assert (H5 : eig = map (fun Q => nrm2 v3 inner3 (Q y)) Qs)
    by (unfold eig, nrm2; cbn; repeat f_equal; lra).
  destruct (spectral_step v3 sub3 inner3 inner3_sym inner3_sub inner3_pos Qs drop2 2 y eig H1 H2 oproj_drop2 H4 H5)
    as (Hd & _ & Ht).
  repeat split; try assumption.
  - apply oproj_drop2.
  - apply oproj_drop2.
  - apply oproj_drop2.
  - rewrite Hd. cbn. lra.
Qed.

Lemma auto_rank_3_2 (a b c t : R) : t < a + (b + (c + 0)) -> t < b + (c + 0) -> ~ t < c + 0 ->
  auto_rank 0 Rplus Rltb [a; b; c] t = Some 2%nat.
Proof.
  intros H0 H1 H2.
  unfold auto_rank, last_above. rewrite eigsum_suffix. cbn [suffix_sums sumR]. unfold where_gt. cbn [length seq filter nth].
  apply Rltb_true in H0, H1. apply Rltb_false in H2. rewrite H0, H1, H2. reflexivity.
Qed.

(* sequential hosvd of x = (1,2,3), two modes, tol^2 = 1/2 (budget 3.5 per mode): both modes keep r = 2 directions and
   discard 1 resp. 0; the guaranteed bound is 7, the actual error 1 *)
Example hosvd_error_bound_example :
  let x : v3 := (1, 2, 3) in
  let ms := [MkMode v3 drop1 [keep3; keep2; keep1] 2 [9; 4; 1]; MkMode v3 drop1 [keep2; keep3; keep1] 2 [4; 9; 0]] in
  seq_ok v3 sub3 inner3 (1 / 2 * nrm2 v3 inner3 x / INR (length (map (md_P v3) ms))) x ms /\
  pairwise_commute v3 (map (md_P v3) ms) /\
  nrm2 v3 inner3 (sub3 x (applyPs v3 (map (md_P v3) ms) x)) <= 1 / 2 * nrm2 v3 inner3 x /\
  nrm2 v3 inner3 (sub3 x (applyPs v3 (map (md_P v3) ms) x)) = 1.
Proof.
  intros x ms.
  assert (Hc : pairwise_commute v3 (map (md_P v3) ms)).
  { intros P Q [<-|[<-|[]]] [<-|[<-|[]]] [[a1 a2] a3]; reflexivity. }
  assert (Hb : 1 / 2 * nrm2 v3 inner3 x / INR (length (map (md_P v3) ms)) = 7 / 2).
  { unfold nrm2. cbn. lra. }
  assert (Hs : seq_ok v3 sub3 inner3 (1 / 2 * nrm2 v3 inner3 x / INR (length (map (md_P v3) ms))) x ms).
  { rewrite Hb. cbn [seq_ok ms]. split; [|split; [|exact I]].
    - split; [repeat split|]; cbn [md_P md_Qs md_r md_eig].
      + v3_forall.
      + intros [[a1 a2] a3] [[b1 b2] b3]; cbn; lra.
      + apply oproj_drop1.
      + apply oproj_drop1.
      + apply oproj_drop1.
      + intros [[a1 a2] a3] [[b1 b2] b3]; cbn; lra.
      + unfold nrm2; cbn; repeat f_equal; lra.
      + apply auto_rank_3_2; lra.
    - split; [repeat split|]; cbn [md_P md_Qs md_r md_eig].
      + v3_forall.
      + intros [[a1 a2] a3] [[b1 b2] b3]; cbn; lra.
      + apply oproj_drop1.
      + apply oproj_drop1.
      + apply oproj_drop1.
      + intros [[a1 a2] a3] [[b1 b2] b3]; cbn; lra.
      + unfold nrm2; cbn; repeat f_equal; lra.
      + apply auto_rank_3_2; lra. }
  split; [exact Hs | split; [exact Hc | split]].
  - apply (hosvd_error_bound v3 sub3 inner3 inner3_sym inner3_sub inner3_pos true ms x (1 / 2)); try assumption.
    + discriminate.
    + lra.
  - unfold nrm2. cbn. lra.
Qed.

(* HOOI: x = (1,2,3), later mode fixed to drop3; replacing keep1 (captures 1 of y = (1,2,0)) by keep2 (captures 4) *)
Example hooi_monotone_example :
  let x : v3 := (1, 2, 3) in
  pairwise_commute v3 ([] ++ keep1 :: [drop3]) /\ pairwise_commute v3 ([] ++ keep2 :: [drop3]) /\
  nrm2 v3 inner3 (keep1 (applyPs v3 ([] ++ [drop3]) x)) = 1 /\
  nrm2 v3 inner3 (keep2 (applyPs v3 ([] ++ [drop3]) x)) = 4 /\
  nrm2 v3 inner3 (applyPs v3 [keep1; drop3] x) <= nrm2 v3 inner3 (applyPs v3 [keep2; drop3] x).
Proof.
  intros x.
  assert (Hc1 : pairwise_commute v3 ([] ++ keep1 :: [drop3]))
    by (intros P Q [<-|[<-|[]]] [<-|[<-|[]]] [[a1 a2] a3]; reflexivity).
  assert (Hc2 : pairwise_commute v3 ([] ++ keep2 :: [drop3]))
    by (intros P Q [<-|[<-|[]]] [<-|[<-|[]]] [[a1 a2] a3]; reflexivity).
  repeat split; try assumption.
  - unfold nrm2; cbn; lra.
  - unfold nrm2; cbn; lra.
  - apply (hooi_monotone v3 inner3 [] [drop3] keep1 keep2 x Hc1 Hc2). unfold nrm2; cbn; lra.
Qed.

(* a sweep of two updates: mode 1 keep1 -> keep2, then mode 2 drop3 -> drop1; ||core||^2 goes 1 -> 4 -> 4 *)
Example hooi_sweep_example :
  let x : v3 := (1, 2, 3) in
  hooi_steps v3 inner3 x [keep1; drop3] [keep2; drop1] /\
  nrm2 v3 inner3 (applyPs v3 [keep1; drop3] x) = 1 /\ nrm2 v3 inner3 (applyPs v3 [keep2; drop1] x) = 4 /\
  nrm2 v3 inner3 (sub3 x (applyPs v3 [keep2; drop1] x)) <= nrm2 v3 inner3 (sub3 x (applyPs v3 [keep1; drop3] x)).
Proof.
  intros x.
  assert (Hs : hooi_steps v3 inner3 x [keep1; drop3] [keep2; drop1]).
  { apply (hooi_step v3 inner3 x [] [drop3] keep1 keep2).
    - intros P Q [<-|[<-|[]]] [<-|[<-|[]]] [[a1 a2] a3]; reflexivity.
    - intros P Q [<-|[<-|[]]] [<-|[<-|[]]] [[a1 a2] a3]; reflexivity.
    - unfold nrm2; cbn; lra.
    - apply (hooi_step v3 inner3 x [keep2] [] drop3 drop1).
      + intros P Q [<-|[<-|[]]] [<-|[<-|[]]] [[a1 a2] a3]; reflexivity.
      + intros P Q [<-|[<-|[]]] [<-|[<-|[]]] [[a1 a2] a3]; reflexivity.
      + unfold nrm2; cbn; lra.
      + apply hooi_refl. }
  split; [exact Hs | split; [|split]].
  - unfold nrm2; cbn; lra.
  - unfold nrm2; cbn; lra.
  - apply (hooi_residual_monotone v3 sub3 inner3 inner3_sym inner3_sub); try assumption.
    + v3_forall.
    + intros P Q [<-|[<-|[]]] [<-|[<-|[]]] [[a1 a2] a3]; reflexivity.
    + v3_forall.
    + intros P Q [<-|[<-|[]]] [<-|[<-|[]]] [[a1 a2] a3]; reflexivity.
Qed.
