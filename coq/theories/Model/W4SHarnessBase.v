(* Model/W4SHarnessBase.v — helpers shared by the replay instantiations of the generated control-flow skeletons. *)
From Coq Require Import String List Arith Bool ZArith.
Import ListNotations.
Local Open Scope nat_scope.

Fixpoint list_eqb {A} (eqb : A -> A -> bool) (a b : list A) : bool :=
  match a, b with
  | [], [] => true
  | x :: a', y :: b' => eqb x y && list_eqb eqb a' b'
  | _, _ => false
  end.
Fixpoint assoc {K V} (eqb : K -> K -> bool) (k : K) (l : list (K * V)) (d : V) : V :=
  match l with [] => d | (k', v) :: r => if eqb k k' then v else assoc eqb k r d end.

