"""C05 — operations never modify their operands and never alias them (DESIGN §C05).  LEVEL = other.

Coq part (Props/C05.v over Model/C05Store.v): frame / footprint / copy theorems over a store model, for all inputs.
Measured part (this file): for EVERY public method of the seven classes, every algorithm entry point, every
pyttb_utils helper and every constructor, per parameter class, the hypothesis of the frame theorem (disjointness of
the result's and the operands' buffers) and the operands-unchanged bit are MEASURED on pyttb and the row is
evaluated by the Coq table checker `row_check`.  A public name without a table entry fails closed.
"""
import copy as _copy
import math
import os
import tempfile

from vcheck import Case
from props import c05_util as U

try:
    import numpy as np
except ImportError:          # tools that only read the module constants
    np = None

PROP = "C05"
LEVEL = "other"
GEN_UNITS = []
COQ_TARGETS = ["Props/C05.vo", "Model/Harness.vo"]
THEOREM_FILES = ["Props/C05.v"]
COQ_IMPORTS = ("From Coq Require Import List Arith Bool.\n"
               "From PV Require Import Model.C05Store.\n")
RULE = ("one case per (public operation, parameter class, shape): operations enumerated from dir() of tensor, sptensor, "
        "ktensor, ttensor, tenmat, sptenmat, sumtensor, pyttb_utils and the pyttb top level (unlisted name = failing case); "
        "shapes (2,3,4), (3,1,2), (2,2,2) (+ (3,4), (2,3,2,2) and seeded random parameters in thorough); operands built fresh "
        "from python lists; non-trivial = the table entry returns or updates arrays (kind pure / inplace / nocopy, not scalar / "
        "property / attribute) and its operands hold at least one non-empty array; distinct = distinct (op, parameter class, "
        "shape, seed)")
CORRESPONDENCE_ONLY = ["disjointness of result and operand buffers per (operation, parameter class): measured with "
                       "np.shares_memory + cross-writes, not proved for all inputs"]
ASSUMPTIONS = [
    "np.shares_memory is exact on the small arrays used; the generic object walker (slots/__dict__/list/tuple/dict/scipy "
    "sparse) reaches every buffer of an operand or result (cross-checked by the in-place sentinel writes in both directions)",
    "aliasing depends on the parameter class and memory layout, not on values: the enumerated classes (identity vs other "
    "permutation, same vs new shape, single vs several modes, copy flag, init given, negative indices ...) are representative",
    "optimizer/solver objects passed to gcp_opt are tracked as operands in the 'optimizer-tracked' rows (every attribute reachable "
    "from the object is snapshotted); that the stochastic solvers keep their run state in the object is known finding C05-N10",
]
EXPLANATION = ("Level other: C05_frame/C05_copy/C05_inplace_footprint are proved for all stores and write histories; their "
               "hypothesis (result buffers disjoint from operand buffers) is measured here per operation x parameter class "
               "and each measured row is evaluated by the Coq checker row_check (operands unchanged, disjoint, and the "
               "cross-write observations agree with what the frame theorem predicts).")

SHAPES = [(2, 3, 4), (3, 1, 2), (2, 2, 2)]
SHAPES_THOROUGH = [(3, 4), (2, 3, 2, 2), (4, 1, 3)]
CUBE = [(2, 2, 2)]
NOSINGLE = [(2, 3, 4), (2, 2, 2)]
CLASSES = ["tensor", "sptensor", "ktensor", "ttensor", "tenmat", "sptenmat", "sumtensor"]
DUNDERS = ("__add__ __sub__ __mul__ __truediv__ __pow__ __eq__ __ne__ __lt__ __le__ __gt__ __ge__ __neg__ __pos__ "
           "__radd__ __rsub__ __rmul__ __rtruediv__ __getitem__ __setitem__ __deepcopy__ __matmul__ __rmatmul__ "
           "__iadd__ __isub__ __imul__ __itruediv__ __ipow__ __floordiv__ __mod__ __abs__ __invert__ __and__ __or__ "
           "__xor__ __copy__ __array__ __len__ __iter__ __contains__ __call__").split()


class AD(dict):
    __getattr__ = dict.__getitem__


class B:
    """deterministic operand builder for one shape; every call returns fresh objects built from python lists"""

    def __init__(self, shape, seed=0):
        import pyttb as ttb
        self.ttb = ttb
        self.shape = tuple(shape)
        self.N = len(self.shape)
        self.n = math.prod(self.shape)
        self.seed = seed

    def arr(self, off=0):
        vals = [float(((k * 7 + off * 3 + self.seed) % 11) + 1) for k in range(self.n)]
        return np.array(vals).reshape(self.shape, order="F")

    def T(self, off=0):
        return self.ttb.tensor(self.arr(off), copy=True)

    def W(self):
        vals = [float((k + self.seed) % 2) for k in range(self.n)]
        return self.ttb.tensor(np.array(vals).reshape(self.shape, order="F"), copy=True)

    def subs_list(self, off=0):
        allsubs = [list(np.unravel_index(k, self.shape, order="F")) for k in range(self.n)]
        sel = [s for k, s in enumerate(allsubs) if (k + off + self.seed) % 2 == 0]
        return [[int(x) for x in s] for s in sel] or [[0] * self.N]

    def subs(self, off=0):
        return np.array(self.subs_list(off), dtype=int)

    def vals(self, off=0):
        m = len(self.subs_list(off))
        return np.array([[float(k + 1 + off)] for k in range(m)])

    def S(self, off=0):
        return self.ttb.sptensor(self.subs(off), self.vals(off), self.shape, copy=True)

    def WS(self):
        m = len(self.subs_list(1))
        return self.ttb.sptensor(self.subs(1), np.ones((m, 1)), self.shape, copy=True)

    def fm(self, R=2, off=0):
        return [np.array([[float(((i + 2 * r + k + off + self.seed) % 5) + 1) for r in range(R)] for i in range(s)])
                for k, s in enumerate(self.shape)]

    def K(self, R=2, off=0):
        return self.ttb.ktensor(self.fm(R, off), np.array([2.0 + off, 3.0][:R] + [1.0] * max(0, R - 2)), copy=True)

    def ranks(self):
        return [min(s, 2) for s in self.shape]

    def TT(self, off=0):
        rk = self.ranks()
        nc = math.prod(rk)
        core = self.ttb.tensor(np.array([float((k + off) % 5 + 1) for k in range(nc)]).reshape(rk, order="F"), copy=True)
        fms = [np.array([[float(((i + 2 * r + k + off) % 5) + 1) for r in range(rk[k])] for i in range(s)])
               for k, s in enumerate(self.shape)]
        return self.ttb.ttensor(core, fms, copy=True)

    def TM(self, off=0):
        rows = self.shape[0]
        return self.ttb.tenmat(self.arr(off).reshape((rows, self.n // rows), order="F"), np.array([0]),
                               np.arange(1, self.N), self.shape, copy=True)

    def STM(self, off=0):
        return self.S(off).to_sptenmat(np.array([0]))

    def SUM(self):
        return self.ttb.sumtensor([self.T(), self.K()], copy=True)

    def vec(self, n, off=0):
        return np.array([float(i + 1 + off) for i in range(self.shape[n])])

    def vecs(self, dims=None):
        return [self.vec(n) for n in (range(self.N) if dims is None else dims)]

    def mat(self, n, J=2):
        return np.array([[float((i + 2 * j) % 5 + 1) for i in range(self.shape[n])] for j in range(J)])


# ------------------------------------------------------------------------------------------------------------
# the table: (class or namespace, name) -> list of entries
#   kind: pure | inplace | nocopy | scalar | property | attr | skip
# ------------------------------------------------------------------------------------------------------------
TABLE = {}


def reg(ns, name, pclass, build, call, kind="pure", shapes=None, recv=None, thorough_shapes=True):
    TABLE.setdefault((ns, name), []).append(
        dict(pclass=pclass, build=build, call=call, kind=kind, shapes=shapes, recv=recv if kind == "inplace" else None,
             tshapes=thorough_shapes and shapes is None))


def skip(ns, name, why):
    TABLE.setdefault((ns, name), []).append(dict(pclass="skip", kind="skip", why=why))


def X(mk, *a, **kw):
    """build lambda with a single receiver X = b.<mk>(...)"""
    return lambda b: dict(X=getattr(b, mk)(*a, **kw))


# ---- tensor ---------------------------------------------------------------------------------------------
def _tensor_table():
    c = "tensor"
    XT = X("T")
    both = lambda b: dict(X=b.T(), Y=b.T(1))
    reg(c, "__init__", "copy=True", lambda b: dict(d=b.arr()), lambda o: o.d is not None and __import__("pyttb").tensor(o.d, copy=True))
    reg(c, "__init__", "copy=True,shape", lambda b: dict(d=b.arr().reshape(-1, order="F")), lambda o, b: b.ttb.tensor(o.d, b.shape, copy=True))
    reg(c, "__init__", "copy=False", lambda b: dict(d=b.arr()), lambda o, b: b.ttb.tensor(o.d, copy=False), kind="nocopy")
    reg(c, "__init__", "copy=False,C-order", lambda b: dict(d=np.ascontiguousarray(b.arr())), lambda o, b: b.ttb.tensor(o.d, copy=False), kind="nocopy")
    reg(c, "collapse", "all", XT, lambda o: o.X.collapse(), kind="scalar")
    reg(c, "collapse", "single", lambda b: dict(X=b.T(), dims=np.array([0])), lambda o: o.X.collapse(o.dims))
    reg(c, "collapse", "multiple", lambda b: dict(X=b.T(), dims=np.array([0, 1])), lambda o: o.X.collapse(o.dims, np.max))
    reg(c, "contract", "default", XT, lambda o: o.X.contract(0, 1), shapes=CUBE)
    reg(c, "contract", "to-scalar", XT, lambda o: o.X.contract(0, 1), shapes=[(2, 2)], kind="scalar")
    reg(c, "copy", "default", XT, lambda o: o.X.copy())
    reg(c, "__deepcopy__", "default", XT, lambda o: _copy.deepcopy(o.X))
    reg(c, "data", "attr", XT, lambda o: o.X.data, kind="attr")
    reg(c, "shape", "attr", XT, lambda o: o.X.shape, kind="attr")
    reg(c, "double", "default", XT, lambda o: o.X.double())
    reg(c, "exp", "default", XT, lambda o: o.X.exp())
    reg(c, "find", "default", XT, lambda o: o.X.find())
    reg(c, "from_function", "default", lambda b: dict(), lambda o, b: b.ttb.tensor.from_function(lambda s: np.ones(s, order="F"), b.shape))
    reg(c, "from_function", "handle-returns-held-array", lambda b: dict(d=b.arr()), lambda o, b: b.ttb.tensor.from_function(lambda s: o.d, b.shape), kind="nocopy")   # the handle hands its array over
    reg(c, "full", "default", XT, lambda o: o.X.full())
    reg(c, "innerprod", "tensor", both, lambda o: o.X.innerprod(o.Y), kind="scalar")
    reg(c, "innerprod", "sptensor", lambda b: dict(X=b.T(), Y=b.S()), lambda o: o.X.innerprod(o.Y), kind="scalar")
    reg(c, "innerprod", "ktensor", lambda b: dict(X=b.T(), Y=b.K()), lambda o: o.X.innerprod(o.Y), kind="scalar")
    reg(c, "innerprod", "ttensor", lambda b: dict(X=b.T(), Y=b.TT()), lambda o: o.X.innerprod(o.Y), kind="scalar")
    reg(c, "isequal", "tensor", both, lambda o: o.X.isequal(o.Y), kind="scalar")
    reg(c, "isequal", "sptensor", lambda b: dict(X=b.T(), Y=b.S()), lambda o: o.X.isequal(o.Y), kind="scalar")
    reg(c, "issymmetric", "default", XT, lambda o: o.X.issymmetric(), shapes=CUBE, kind="scalar")
    reg(c, "issymmetric", "grps", lambda b: dict(X=b.T(), g=np.array([0, 1])), lambda o: o.X.issymmetric(o.g), shapes=CUBE, kind="scalar")
    reg(c, "issymmetric", "details", XT, lambda o: o.X.issymmetric(return_details=True), shapes=CUBE)
    for nm in ("logical_and", "logical_or", "logical_xor"):
        reg(c, nm, "tensor", both, lambda o, nm=nm: getattr(o.X, nm)(o.Y))
        reg(c, nm, "scalar", XT, lambda o, nm=nm: getattr(o.X, nm)(1.0))
    reg(c, "logical_not", "default", XT, lambda o: o.X.logical_not())
    reg(c, "mask", "default", lambda b: dict(X=b.T(), W=b.W()), lambda o: o.X.mask(o.W))
    reg(c, "mttkrp", "list,first", lambda b: dict(X=b.T(), U=b.fm()), lambda o: o.X.mttkrp(o.U, 0))
    reg(c, "mttkrp", "list,last", lambda b: dict(X=b.T(), U=b.fm()), lambda o, b: o.X.mttkrp(o.U, b.N - 1))
    reg(c, "mttkrp", "list,middle", lambda b: dict(X=b.T(), U=b.fm()), lambda o, b: o.X.mttkrp(o.U, 1))
    reg(c, "mttkrp", "ktensor", lambda b: dict(X=b.T(), U=b.K()), lambda o: o.X.mttkrp(o.U, 0))
    reg(c, "mttkrps", "list", lambda b: dict(X=b.T(), U=b.fm()), lambda o: o.X.mttkrps(o.U))
    reg(c, "mttkrps", "ktensor", lambda b: dict(X=b.T(), U=b.K()), lambda o: o.X.mttkrps(o.U))
    for nm in ("ndims", "nnz", "order"):
        reg(c, nm, "property", XT, lambda o, nm=nm: getattr(o.X, nm), kind="property")
    reg(c, "norm", "default", XT, lambda o: o.X.norm(), kind="scalar")
    reg(c, "nvecs", "r=1", XT, lambda o: o.X.nvecs(0, 1))
    reg(c, "nvecs", "r=2,noflip", XT, lambda o: o.X.nvecs(0, 2, flipsign=False), shapes=NOSINGLE)
    reg(c, "permute", "identity", lambda b: dict(X=b.T(), order=np.arange(b.N)), lambda o: o.X.permute(o.order))
    reg(c, "permute", "reverse", lambda b: dict(X=b.T(), order=np.arange(b.N)[::-1].copy()), lambda o: o.X.permute(o.order))
    reg(c, "permute", "cyclic", lambda b: dict(X=b.T(), order=np.roll(np.arange(b.N), 1)), lambda o: o.X.permute(o.order))
    reg(c, "reshape", "same-shape", XT, lambda o, b: o.X.reshape(b.shape))
    reg(c, "reshape", "to-vector", XT, lambda o, b: o.X.reshape((b.n,)))
    reg(c, "reshape", "to-matrix", XT, lambda o, b: o.X.reshape((b.shape[0], b.n // b.shape[0])))
    reg(c, "scale", "vector,single", lambda b: dict(X=b.T(), f=b.vec(b.N - 1)), lambda o, b: o.X.scale(o.f, b.N - 1))
    reg(c, "scale", "tensor,multiple", lambda b: dict(X=b.T(), f=b.ttb.tensor(b.arr()[:, :, 0].copy() if b.N == 3 else b.arr()[:, :, 0, 0].copy()), dims=np.array([0, 1])),
        lambda o: o.X.scale(o.f, o.dims), thorough_shapes=False, shapes=SHAPES + [(2, 3, 2, 2)])
    reg(c, "squeeze", "singleton", XT, lambda o: o.X.squeeze(), shapes=[(3, 1, 2), (1, 3, 1)])
    reg(c, "squeeze", "no-singleton", XT, lambda o: o.X.squeeze(), shapes=NOSINGLE)
    reg(c, "squeeze", "all-singleton", XT, lambda o: o.X.squeeze(), shapes=[(1, 1, 1)], kind="scalar")
    reg(c, "symmetrize", "default", XT, lambda o: o.X.symmetrize(), shapes=CUBE)
    reg(c, "symmetrize", "grps", lambda b: dict(X=b.T(), g=np.array([0, 2])), lambda o: o.X.symmetrize(o.g), shapes=CUBE)
    reg(c, "tenfun", "unary", XT, lambda o: o.X.tenfun(lambda x: x + 1))
    reg(c, "tenfun", "unary-identity-handle", XT, lambda o: o.X.tenfun(lambda x: x), kind="nocopy")   # the user's handle returns its input
    reg(c, "tenfun", "binary,tensor", both, lambda o: o.X.tenfun(lambda x, y: x + y, o.Y))
    reg(c, "tenfun", "binary,ndarray", lambda b: dict(X=b.T(), Y=b.arr(1)), lambda o: o.X.tenfun(lambda x, y: x + y, o.Y))
    reg(c, "tenfun", "binary,scalar", XT, lambda o: o.X.tenfun(lambda x, y: x + y, 1))
    reg(c, "tenfun", "nary", lambda b: dict(X=b.T(), Y=b.T(1), Z=b.T(2)), lambda o: o.X.tenfun(lambda x: np.max(x, axis=0), o.Y, o.Z))
    reg(c, "tenfun_binary", "tensor", both, lambda o: o.X.tenfun_binary(lambda x, y: x + y, o.Y))
    reg(c, "tenfun_binary", "scalar", XT, lambda o: o.X.tenfun_binary(lambda x, y: x + y, 1))
    reg(c, "tenfun_binary", "scalar,first=False", XT, lambda o: o.X.tenfun_binary(lambda x, y: x - y, 1, first=False))
    reg(c, "tenfun_binary", "first-arg-handle", both, lambda o: o.X.tenfun_binary(lambda x, y: x, o.Y), kind="nocopy")
    reg(c, "tenfun_unary", "single", XT, lambda o: o.X.tenfun_unary(lambda x: x * 2))
    reg(c, "tenfun_unary", "identity-handle", XT, lambda o: o.X.tenfun_unary(lambda x: x), kind="nocopy")
    reg(c, "tenfun_unary", "several", both, lambda o: o.X.tenfun_unary(lambda x: np.max(x, axis=0), o.Y))
    reg(c, "to_sptensor", "default", XT, lambda o: o.X.to_sptensor())
    reg(c, "to_tenmat", "rdims", lambda b: dict(X=b.T(), r=np.array([0])), lambda o: o.X.to_tenmat(o.r))
    reg(c, "to_tenmat", "rdims,last", lambda b: dict(X=b.T(), r=np.array([b.N - 1])), lambda o: o.X.to_tenmat(o.r))
    reg(c, "to_tenmat", "rdims+cdims", lambda b: dict(X=b.T(), r=np.array([1]), cd=np.array([0] + list(range(2, b.N)))), lambda o: o.X.to_tenmat(o.r, o.cd))
    reg(c, "to_tenmat", "all-rows(identity layout)", lambda b: dict(X=b.T(), r=np.arange(b.N)), lambda o: o.X.to_tenmat(o.r))
    reg(c, "to_tenmat", "cyclic-fc", lambda b: dict(X=b.T(), r=np.array([1])), lambda o: o.X.to_tenmat(o.r, cdims_cyclic="fc"))
    reg(c, "to_tenmat", "cyclic-bc", lambda b: dict(X=b.T(), r=np.array([1])), lambda o: o.X.to_tenmat(o.r, cdims_cyclic="bc"))
    reg(c, "to_tenmat", "copy=False", lambda b: dict(X=b.T(), r=np.array([0])), lambda o: o.X.to_tenmat(o.r, copy=False), kind="nocopy")
    reg(c, "ttm", "single", lambda b: dict(X=b.T(), M=b.mat(0)), lambda o: o.X.ttm(o.M, 0))
    reg(c, "ttm", "single,transpose", lambda b: dict(X=b.T(), M=b.mat(0).T.copy()), lambda o: o.X.ttm(o.M, 0, transpose=True))
    reg(c, "ttm", "all", lambda b: dict(X=b.T(), M=[b.mat(n) for n in range(b.N)]), lambda o: o.X.ttm(o.M))
    reg(c, "ttm", "dims-array", lambda b: dict(X=b.T(), M=[b.mat(0), b.mat(b.N - 1)], dims=np.array([0, b.N - 1])), lambda o: o.X.ttm(o.M, o.dims))
    reg(c, "ttm", "exclude", lambda b: dict(X=b.T(), M=[b.mat(n) for n in range(b.N)], ex=np.array([1])), lambda o: o.X.ttm(o.M, exclude_dims=o.ex))
    reg(c, "ttm", "identity-matrix", lambda b: dict(X=b.T(), M=np.eye(b.shape[0])), lambda o: o.X.ttm(o.M, 0))
    reg(c, "ttsv", "all", lambda b: dict(X=b.T(), v=b.vec(0)), lambda o: o.X.ttsv(o.v), shapes=CUBE, kind="scalar")
    reg(c, "ttsv", "skip0", lambda b: dict(X=b.T(), v=b.vec(0)), lambda o: o.X.ttsv(o.v, 0), shapes=CUBE)
    reg(c, "ttsv", "skip1", lambda b: dict(X=b.T(), v=b.vec(0)), lambda o: o.X.ttsv(o.v, 1), shapes=CUBE)
    reg(c, "ttsv", "skip1,version1", lambda b: dict(X=b.T(), v=b.vec(0)), lambda o: o.X.ttsv(o.v, 1, version=1), shapes=CUBE)
    reg(c, "ttt", "outer", both, lambda o: o.X.ttt(o.Y))
    reg(c, "ttt", "contract-one", both, lambda o: o.X.ttt(o.Y, 0, 0))
    reg(c, "ttt", "contract-arrays", lambda b: dict(X=b.T(), Y=b.T(1), sd=np.array([0, 1]), od=np.array([0, 1])), lambda o: o.X.ttt(o.Y, o.sd, o.od))
    reg(c, "ttt", "contract-all", lambda b: dict(X=b.T(), Y=b.T(1), sd=np.arange(b.N), od=np.arange(b.N)), lambda o: o.X.ttt(o.Y, o.sd, o.od), kind="scalar")
    reg(c, "ttv", "single", lambda b: dict(X=b.T(), v=b.vec(0)), lambda o: o.X.ttv(o.v, 0))
    reg(c, "ttv", "all", lambda b: dict(X=b.T(), v=b.vecs()), lambda o: o.X.ttv(o.v), kind="scalar")
    reg(c, "ttv", "dims-array", lambda b: dict(X=b.T(), v=b.vecs([0, b.N - 1]), dims=np.array([0, b.N - 1])), lambda o: o.X.ttv(o.v, o.dims))
    reg(c, "ttv", "exclude", lambda b: dict(X=b.T(), v=b.vecs(), ex=np.array([0])), lambda o: o.X.ttv(o.v, exclude_dims=o.ex))
    import operator as op
    for nm, f in (("__add__", op.add), ("__sub__", op.sub), ("__mul__", op.mul), ("__truediv__", op.truediv), ("__pow__", op.pow),
                  ("__eq__", op.eq), ("__ne__", op.ne), ("__lt__", op.lt), ("__le__", op.le), ("__gt__", op.gt), ("__ge__", op.ge)):
        reg(c, nm, "tensor", both, lambda o, f=f: f(o.X, o.Y))
        reg(c, nm, "scalar", XT, lambda o, f=f: f(o.X, 2.0))
        if nm in ("__add__", "__sub__", "__mul__", "__truediv__", "__pow__"):
            reg(c, nm, "neutral-scalar", XT, lambda o, f=f, z=(0.0 if nm in ("__add__", "__sub__") else 1.0): f(o.X, z))
        if nm in ("__add__", "__sub__", "__mul__", "__eq__", "__ne__", "__gt__", "__lt__", "__ge__", "__le__"):
            reg(c, nm, "sptensor", lambda b: dict(X=b.T(), Y=b.S()), lambda o, f=f: f(o.X, o.Y))
    reg(c, "__neg__", "default", XT, lambda o: -o.X)
    reg(c, "__pos__", "default", XT, lambda o: +o.X)
    reg(c, "__radd__", "scalar", XT, lambda o: 2.0 + o.X)
    reg(c, "__radd__", "zero", XT, lambda o: 0 + o.X)
    reg(c, "__rmul__", "scalar", XT, lambda o: 2.0 * o.X)
    reg(c, "__rmul__", "one", XT, lambda o: 1 * o.X)
    reg(c, "__rtruediv__", "scalar", XT, lambda o: 2.0 / o.X)
    z = lambda b: (0,) * b.N
    reg(c, "__getitem__", "element", XT, lambda o, b: o.X[z(b)], kind="scalar")
    reg(c, "__getitem__", "full-slice", XT, lambda o, b: o.X[(slice(None),) * b.N])
    reg(c, "__getitem__", "sub-slice", XT, lambda o, b: o.X[(slice(0, 2),) + (slice(None),) * (b.N - 1)])
    reg(c, "__getitem__", "int+slices", XT, lambda o, b: o.X[(0,) + (slice(None),) * (b.N - 1)])
    reg(c, "__getitem__", "list-in-key", XT, lambda o, b: o.X[([0, 1],) + (slice(None),) * (b.N - 1)])
    reg(c, "__getitem__", "subscripts", lambda b: dict(X=b.T(), s=b.subs()), lambda o: o.X[o.s])
    reg(c, "__getitem__", "linear-array", lambda b: dict(X=b.T(), i=np.array([0, b.n - 1])), lambda o: o.X[o.i])
    reg(c, "__getitem__", "linear-all", lambda b: dict(X=b.T(), i=np.arange(b.n)), lambda o: o.X[o.i])
    reg(c, "__getitem__", "linear-slice", XT, lambda o: o.X[:])
    reg(c, "__getitem__", "linear-list", lambda b: dict(X=b.T(), i=[0, 1]), lambda o: o.X[o.i])

    def setit(o, key, val):
        o.X[key] = val
        return None
    I = dict(kind="inplace", recv="X")
    reg(c, "__setitem__", "element", XT, lambda o, b: setit(o, z(b), 99.0), **I)
    reg(c, "__setitem__", "slice,scalar", XT, lambda o, b: setit(o, (slice(None),) * b.N, 5.0), **I)
    reg(c, "__setitem__", "slice,ndarray", lambda b: dict(X=b.T(), v=b.arr(2)), lambda o, b: setit(o, (slice(None),) * b.N, o.v), **I)
    reg(c, "__setitem__", "slice,tensor", lambda b: dict(X=b.T(), v=b.T(2)), lambda o, b: setit(o, (slice(None),) * b.N, o.v), **I)
    reg(c, "__setitem__", "subslice,ndarray", lambda b: dict(X=b.T(), v=b.arr(2)[0:1]), lambda o, b: setit(o, (slice(0, 1),) + (slice(None),) * (b.N - 1), o.v), **I)
    reg(c, "__setitem__", "subscripts,vals", lambda b: dict(X=b.T(), s=b.subs(), v=b.vals()[:, 0].copy()), lambda o: setit(o, o.s, o.v), **I)
    reg(c, "__setitem__", "subscripts,scalar", lambda b: dict(X=b.T(), s=b.subs()), lambda o: setit(o, o.s, 7.0), **I)
    reg(c, "__setitem__", "linear,vals", lambda b: dict(X=b.T(), i=np.array([0, b.n - 1]), v=np.array([8.0, 9.0])), lambda o: setit(o, o.i, o.v), **I)
    reg(c, "__setitem__", "grow,subscript", lambda b: dict(X=b.T(), s=np.array([list(b.shape)])), lambda o: setit(o, o.s, 3.0), **I)
    reg(c, "__setitem__", "grow,slice", XT, lambda o, b: setit(o, tuple(b.shape[:-1]) + (b.shape[-1],), 3.0), **I)


_tensor_table()

reg("tensor", "permute", "singleton-move", lambda b: dict(X=b.T(), order=np.array([1, 0, 2])), lambda o: o.X.permute(o.order), shapes=[(3, 1, 2), (1, 3, 2)])


# ---- sptensor -------------------------------------------------------------------------------------------
def _sptensor_table():
    c = "sptensor"
    XS = X("S")
    both = lambda b: dict(X=b.S(), Y=b.S(1))
    withT = lambda b: dict(X=b.S(), Y=b.T(1))
    reg(c, "__init__", "copy=True", lambda b: dict(s=b.subs(), v=b.vals()), lambda o, b: b.ttb.sptensor(o.s, o.v, b.shape, copy=True))
    reg(c, "__init__", "copy=False", lambda b: dict(s=b.subs(), v=b.vals()), lambda o, b: b.ttb.sptensor(o.s, o.v, b.shape, copy=False), kind="nocopy")
    reg(c, "__init__", "copy=True,no-shape", lambda b: dict(s=b.subs(), v=b.vals()), lambda o, b: b.ttb.sptensor(o.s, o.v, copy=True))
    reg(c, "allsubs", "default", XS, lambda o: o.X.allsubs())
    reg(c, "collapse", "all", XS, lambda o: o.X.collapse(), kind="scalar")
    reg(c, "collapse", "single", lambda b: dict(X=b.S(), dims=np.array([0])), lambda o: o.X.collapse(o.dims))
    reg(c, "collapse", "multiple", lambda b: dict(X=b.S(), dims=np.array([0, 1])), lambda o: o.X.collapse(o.dims))
    reg(c, "collapse", "all-but-one", lambda b: dict(X=b.S(), dims=np.arange(1, b.N)), lambda o: o.X.collapse(o.dims))
    reg(c, "contract", "default", XS, lambda o: o.X.contract(0, 1), shapes=CUBE + [(2, 2, 3, 4)])
    reg(c, "contract", "to-scalar", XS, lambda o: o.X.contract(0, 1), shapes=[(2, 2)], kind="scalar")
    reg(c, "copy", "default", XS, lambda o: o.X.copy())
    reg(c, "__deepcopy__", "default", XS, lambda o: _copy.deepcopy(o.X))
    for nm in ("subs", "vals", "shape"):
        reg(c, nm, "attr", XS, lambda o, nm=nm: getattr(o.X, nm), kind="attr")
    reg(c, "double", "default", XS, lambda o: o.X.double())
    reg(c, "elemfun", "default", XS, lambda o: o.X.elemfun(lambda v: v * 2))
    reg(c, "elemfun", "identity-handle", XS, lambda o: o.X.elemfun(lambda v: v), kind="nocopy")
    reg(c, "extract", "default", lambda b: dict(X=b.S(), q=b.subs()[:2].copy()), lambda o: o.X.extract(o.q))
    reg(c, "extract", "missing", lambda b: dict(X=b.S(), q=b.subs(1)[:2].copy()), lambda o: o.X.extract(o.q))
    reg(c, "find", "default", XS, lambda o: o.X.find())
    reg(c, "from_aggregator", "with-shape", lambda b: dict(s=np.vstack([b.subs(), b.subs()[:1]]), v=np.vstack([b.vals(), b.vals()[:1]])),
        lambda o, b: b.ttb.sptensor.from_aggregator(o.s, o.v, b.shape))
    reg(c, "from_aggregator", "no-shape,no-duplicates", lambda b: dict(s=b.subs(), v=b.vals()), lambda o, b: b.ttb.sptensor.from_aggregator(o.s, o.v))
    reg(c, "from_aggregator", "function=max", lambda b: dict(s=np.vstack([b.subs(), b.subs()[:1]]), v=np.vstack([b.vals(), b.vals()[:1]])),
        lambda o, b: b.ttb.sptensor.from_aggregator(o.s, o.v, b.shape, np.max))
    reg(c, "from_function", "default", lambda b: dict(), lambda o, b: b.ttb.sptensor.from_function(np.ones, b.shape, 2))
    reg(c, "full", "default", XS, lambda o: o.X.full())
    reg(c, "to_tensor", "default", XS, lambda o: o.X.to_tensor())
    reg(c, "innerprod", "sptensor", both, lambda o: o.X.innerprod(o.Y), kind="scalar")
    reg(c, "innerprod", "tensor", withT, lambda o: o.X.innerprod(o.Y), kind="scalar")
    reg(c, "innerprod", "ktensor", lambda b: dict(X=b.S(), Y=b.K()), lambda o: o.X.innerprod(o.Y), kind="scalar")
    reg(c, "innerprod", "ttensor", lambda b: dict(X=b.S(), Y=b.TT()), lambda o: o.X.innerprod(o.Y), kind="scalar")
    reg(c, "isequal", "sptensor", both, lambda o: o.X.isequal(o.Y), kind="scalar")
    reg(c, "isequal", "tensor", withT, lambda o: o.X.isequal(o.Y), kind="scalar")
    for nm in ("logical_and", "logical_or", "logical_xor"):
        reg(c, nm, "sptensor", both, lambda o, nm=nm: getattr(o.X, nm)(o.Y))
        reg(c, nm, "tensor", withT, lambda o, nm=nm: getattr(o.X, nm)(o.Y))
        reg(c, nm, "scalar", XS, lambda o, nm=nm: getattr(o.X, nm)(1.0))
        reg(c, nm, "zero", XS, lambda o, nm=nm: getattr(o.X, nm)(0))
    reg(c, "logical_not", "default", XS, lambda o: o.X.logical_not())
    reg(c, "mask", "default", lambda b: dict(X=b.S(), W=b.WS()), lambda o: o.X.mask(o.W))
    reg(c, "mttkrp", "list,first", lambda b: dict(X=b.S(), U=b.fm()), lambda o: o.X.mttkrp(o.U, 0))
    reg(c, "mttkrp", "list,last", lambda b: dict(X=b.S(), U=b.fm()), lambda o, b: o.X.mttkrp(o.U, b.N - 1))
    reg(c, "mttkrp", "ktensor", lambda b: dict(X=b.S(), U=b.K()), lambda o: o.X.mttkrp(o.U, 1))
    for nm in ("ndims", "nnz", "order"):
        reg(c, nm, "property", XS, lambda o, nm=nm: getattr(o.X, nm), kind="property")
    reg(c, "norm", "default", XS, lambda o: o.X.norm(), kind="scalar")
    reg(c, "nvecs", "r=1", XS, lambda o: o.X.nvecs(0, 1), shapes=NOSINGLE)
    reg(c, "nvecs", "r=all", XS, lambda o, b: o.X.nvecs(0, b.shape[0]), shapes=NOSINGLE)
    reg(c, "ones", "default", XS, lambda o: o.X.ones())
    reg(c, "permute", "identity", lambda b: dict(X=b.S(), order=np.arange(b.N)), lambda o: o.X.permute(o.order))
    reg(c, "permute", "reverse", lambda b: dict(X=b.S(), order=np.arange(b.N)[::-1].copy()), lambda o: o.X.permute(o.order))
    reg(c, "reshape", "same-shape", XS, lambda o, b: o.X.reshape(b.shape))
    reg(c, "reshape", "to-vector", XS, lambda o, b: o.X.reshape((b.n,)))
    reg(c, "reshape", "old-modes", lambda b: dict(X=b.S(), om=np.array([0, 1])), lambda o, b: o.X.reshape((b.shape[0] * b.shape[1],), o.om))
    reg(c, "scale", "vector", lambda b: dict(X=b.S(), f=b.vec(b.N - 1), d=np.array([b.N - 1])), lambda o: o.X.scale(o.f, o.d))
    reg(c, "scale", "tensor", lambda b: dict(X=b.S(), f=b.ttb.tensor(b.vec(b.N - 1)), d=np.array([b.N - 1])), lambda o: o.X.scale(o.f, o.d))
    reg(c, "scale", "sptensor", lambda b: dict(X=b.S(), f=b.ttb.sptensor(np.array([[0], [1]]), np.array([[2.0], [3.0]]), (b.shape[-1],)), d=np.array([b.N - 1])), lambda o: o.X.scale(o.f, o.d))
    reg(c, "spmatrix", "default", XS, lambda o: o.X.spmatrix(), shapes=[(3, 4), (2, 2)])
    reg(c, "squash", "default", XS, lambda o: o.X.squash())
    reg(c, "squash", "inverse", XS, lambda o: o.X.squash(True))
    reg(c, "squeeze", "singleton", XS, lambda o: o.X.squeeze(), shapes=[(3, 1, 2), (1, 3, 1)])
    reg(c, "squeeze", "no-singleton", XS, lambda o: o.X.squeeze(), shapes=NOSINGLE)
    reg(c, "subdims", "default", lambda b: dict(X=b.S(), r0=np.array([0, 1])), lambda o, b: o.X.subdims([o.r0] + [slice(None)] * (b.N - 1)))
    reg(c, "subdims", "ints", XS, lambda o, b: o.X.subdims([0] * b.N))
    reg(c, "to_sptenmat", "rdims", lambda b: dict(X=b.S(), r=np.array([0])), lambda o: o.X.to_sptenmat(o.r))
    reg(c, "to_sptenmat", "rdims+cdims", lambda b: dict(X=b.S(), r=np.array([1]), cd=np.array([0] + list(range(2, b.N)))), lambda o: o.X.to_sptenmat(o.r, o.cd))
    reg(c, "to_sptenmat", "cyclic-fc", lambda b: dict(X=b.S(), r=np.array([1])), lambda o: o.X.to_sptenmat(o.r, cdims_cyclic="fc"))
    reg(c, "to_sptenmat", "cyclic-bc", lambda b: dict(X=b.S(), r=np.array([1])), lambda o: o.X.to_sptenmat(o.r, cdims_cyclic="bc"))
    reg(c, "to_sptenmat", "all-rows", lambda b: dict(X=b.S(), r=np.arange(b.N)), lambda o: o.X.to_sptenmat(o.r))
    reg(c, "ttm", "single", lambda b: dict(X=b.S(), M=b.mat(0)), lambda o: o.X.ttm(o.M, 0))
    reg(c, "ttm", "single,transpose", lambda b: dict(X=b.S(), M=b.mat(0).T.copy()), lambda o: o.X.ttm(o.M, 0, transpose=True))
    reg(c, "ttm", "all", lambda b: dict(X=b.S(), M=[b.mat(n) for n in range(b.N)]), lambda o: o.X.ttm(o.M))
    reg(c, "ttm", "exclude", lambda b: dict(X=b.S(), M=[b.mat(n) for n in range(b.N)], ex=np.array([1])), lambda o: o.X.ttm(o.M, exclude_dims=o.ex))
    reg(c, "ttv", "single", lambda b: dict(X=b.S(), v=b.vec(0)), lambda o: o.X.ttv(o.v, 0))
    reg(c, "ttv", "single,last", lambda b: dict(X=b.S(), v=b.vec(b.N - 1)), lambda o, b: o.X.ttv(o.v, b.N - 1))
    reg(c, "ttv", "all", lambda b: dict(X=b.S(), v=b.vecs()), lambda o: o.X.ttv(o.v), kind="scalar")
    reg(c, "ttv", "dims-array", lambda b: dict(X=b.S(), v=b.vecs([0, b.N - 1]), dims=np.array([0, b.N - 1])), lambda o: o.X.ttv(o.v, o.dims))
    reg(c, "ttv", "exclude", lambda b: dict(X=b.S(), v=b.vecs(), ex=np.array([0])), lambda o: o.X.ttv(o.v, exclude_dims=o.ex))
    import operator as op
    for nm, f in (("__add__", op.add), ("__sub__", op.sub), ("__mul__", op.mul), ("__truediv__", op.truediv),
                  ("__eq__", op.eq), ("__ne__", op.ne), ("__lt__", op.lt), ("__le__", op.le), ("__gt__", op.gt), ("__ge__", op.ge)):
        reg(c, nm, "sptensor", both, lambda o, f=f: f(o.X, o.Y))
        reg(c, nm, "tensor", withT, lambda o, f=f: f(o.X, o.Y))
        reg(c, nm, "scalar", XS, lambda o, f=f: f(o.X, 2.0))
        if nm in ("__add__", "__sub__", "__mul__", "__truediv__"):
            reg(c, nm, "neutral-scalar", XS, lambda o, f=f, z=(0.0 if nm in ("__add__", "__sub__") else 1.0): f(o.X, z))
    reg(c, "__mul__", "ktensor", lambda b: dict(X=b.S(), Y=b.K()), lambda o: o.X * o.Y)
    reg(c, "__neg__", "default", XS, lambda o: -o.X)
    reg(c, "__pos__", "default", XS, lambda o: +o.X)
    reg(c, "__rmul__", "scalar", XS, lambda o: 2.0 * o.X)
    reg(c, "__rmul__", "one", XS, lambda o: 1 * o.X)
    reg(c, "__rtruediv__", "scalar", XS, lambda o: 2.0 / o.X)
    z = lambda b: (0,) * b.N
    reg(c, "__getitem__", "element", XS, lambda o, b: o.X[z(b)], kind="scalar")
    reg(c, "__getitem__", "full-slice", XS, lambda o, b: o.X[(slice(None),) * b.N])
    reg(c, "__getitem__", "sub-slice", XS, lambda o, b: o.X[(slice(0, 2),) + (slice(None),) * (b.N - 1)])
    reg(c, "__getitem__", "int+slices", XS, lambda o, b: o.X[(0,) + (slice(None),) * (b.N - 1)])
    reg(c, "__getitem__", "subscripts", lambda b: dict(X=b.S(), s=b.subs()), lambda o: o.X[o.s])
    reg(c, "__getitem__", "linear-array", lambda b: dict(X=b.S(), i=np.array([0, b.n - 1])), lambda o: o.X[o.i])
    reg(c, "__getitem__", "linear-list", lambda b: dict(X=b.S(), i=[0, 1]), lambda o: o.X[o.i])

    def setit(o, key, val):
        o.X[key] = val
        return None
    I = dict(kind="inplace", recv="X")
    reg(c, "__setitem__", "element", XS, lambda o, b: setit(o, z(b), 99.0), **I)
    reg(c, "__setitem__", "element-new", XS, lambda o, b: setit(o, tuple(s - 1 for s in b.shape), 99.0), **I)
    reg(c, "__setitem__", "element-zero", XS, lambda o, b: setit(o, z(b), 0.0), **I)
    reg(c, "__setitem__", "slice,scalar", XS, lambda o, b: setit(o, (slice(None),) * b.N, 5.0), **I)
    reg(c, "__setitem__", "slice,sptensor", lambda b: dict(X=b.S(), v=b.S(2)), lambda o, b: setit(o, (slice(None),) * b.N, o.v), **I)
    reg(c, "__setitem__", "subscripts,vals", lambda b: dict(X=b.S(), s=b.subs(1), v=b.vals(1)), lambda o: setit(o, o.s, o.v), **I)
    reg(c, "__setitem__", "subscripts,existing", lambda b: dict(X=b.S(), s=b.subs(), v=b.vals(3)), lambda o: setit(o, o.s, o.v), **I)
    reg(c, "__setitem__", "subscripts,scalar", lambda b: dict(X=b.S(), s=b.subs(1)), lambda o: setit(o, o.s, 7.0), **I)
    reg(c, "__setitem__", "grow,subscript", lambda b: dict(X=b.S(), s=np.array([list(b.shape)])), lambda o: setit(o, o.s, 3.0), **I)
    reg(c, "__setitem__", "on-empty", lambda b: dict(X=b.ttb.sptensor(shape=b.shape), s=b.subs(), v=b.vals()), lambda o: setit(o, o.s, o.v), **I)


_sptensor_table()

# ---- ktensor --------------------------------------------------------------------------------------------
def _ktensor_table():
    c = "ktensor"
    XK = X("K")
    both = lambda b: dict(X=b.K(), Y=b.K(off=1))
    reg(c, "__init__", "copy=True", lambda b: dict(f=b.fm(), w=np.array([2.0, 3.0])), lambda o, b: b.ttb.ktensor(o.f, o.w, copy=True))
    reg(c, "__init__", "copy=True,no-weights", lambda b: dict(f=b.fm()), lambda o, b: b.ttb.ktensor(o.f, copy=True))
    reg(c, "__init__", "copy=False", lambda b: dict(f=b.fm(), w=np.array([2.0, 3.0])), lambda o, b: b.ttb.ktensor(o.f, o.w, copy=False), kind="nocopy")
    I = dict(kind="inplace", recv="X")
    reg(c, "arrange", "default", XK, lambda o: o.X.arrange(), **I)
    reg(c, "arrange", "weight_factor", XK, lambda o: o.X.arrange(weight_factor=0), **I)
    reg(c, "arrange", "permutation-array", lambda b: dict(X=b.K(), p=np.array([1, 0])), lambda o: o.X.arrange(permutation=o.p), **I)
    reg(c, "arrange", "permutation-list", lambda b: dict(X=b.K(), p=[1, 0]), lambda o: o.X.arrange(permutation=o.p), **I)
    reg(c, "copy", "default", XK, lambda o: o.X.copy())
    reg(c, "__deepcopy__", "default", XK, lambda o: _copy.deepcopy(o.X))
    for nm in ("weights", "factor_matrices"):
        reg(c, nm, "attr", XK, lambda o, nm=nm: getattr(o.X, nm), kind="attr")
    reg(c, "double", "default", XK, lambda o: o.X.double())
    reg(c, "extract", "int", XK, lambda o: o.X.extract(1))
    reg(c, "extract", "list", lambda b: dict(X=b.K(), i=[1, 0]), lambda o: o.X.extract(o.i))
    reg(c, "extract", "array-all", lambda b: dict(X=b.K(), i=np.array([0, 1])), lambda o: o.X.extract(o.i))
    reg(c, "extract", "none", XK, lambda o: o.X.extract())
    reg(c, "fixsigns", "default", XK, lambda o: o.X.fixsigns(), **I)
    reg(c, "fixsigns", "negative-columns", lambda b: dict(X=b.ttb.ktensor([-f for f in b.fm()], np.array([2.0, 3.0]))), lambda o: o.X.fixsigns(), **I)
    reg(c, "fixsigns", "other", lambda b: dict(X=b.K(), Y=b.ttb.ktensor([-f for f in b.fm()][:2] + b.fm()[2:], np.array([2.0, 3.0]))), lambda o: o.X.fixsigns(o.Y), **I)
    reg(c, "from_function", "default", lambda b: dict(), lambda o, b: b.ttb.ktensor.from_function(np.ones, b.shape, 2))
    reg(c, "from_vector", "with-weights", lambda b: dict(d=np.arange(1.0, 2 + 2 * sum(b.shape) + 1)), lambda o, b: b.ttb.ktensor.from_vector(o.d, b.shape, True))
    reg(c, "from_vector", "no-weights", lambda b: dict(d=np.arange(1.0, 2 * sum(b.shape) + 1)), lambda o, b: b.ttb.ktensor.from_vector(o.d, b.shape, False))
    reg(c, "from_vector", "column-vector", lambda b: dict(d=np.arange(1.0, 2 * sum(b.shape) + 1).reshape(-1, 1)), lambda o, b: b.ttb.ktensor.from_vector(o.d, b.shape, False))
    reg(c, "full", "default", XK, lambda o: o.X.full())
    reg(c, "to_tensor", "default", XK, lambda o: o.X.to_tensor())
    reg(c, "innerprod", "ktensor", both, lambda o: o.X.innerprod(o.Y), kind="scalar")
    reg(c, "innerprod", "tensor", lambda b: dict(X=b.K(), Y=b.T()), lambda o: o.X.innerprod(o.Y), kind="scalar")
    reg(c, "innerprod", "sptensor", lambda b: dict(X=b.K(), Y=b.S()), lambda o: o.X.innerprod(o.Y), kind="scalar")
    reg(c, "innerprod", "ttensor", lambda b: dict(X=b.K(), Y=b.TT()), lambda o: o.X.innerprod(o.Y), kind="scalar")
    reg(c, "isequal", "ktensor", both, lambda o: o.X.isequal(o.Y), kind="scalar")
    reg(c, "issymmetric", "default", XK, lambda o: o.X.issymmetric(), shapes=CUBE, kind="scalar")
    reg(c, "issymmetric", "diffs", XK, lambda o: o.X.issymmetric(return_diffs=True), shapes=CUBE)
    reg(c, "mask", "tensor", lambda b: dict(X=b.K(), W=b.W()), lambda o: o.X.mask(o.W))
    reg(c, "mask", "sptensor", lambda b: dict(X=b.K(), W=b.WS()), lambda o: o.X.mask(o.W))
    reg(c, "mttkrp", "list", lambda b: dict(X=b.K(), U=b.fm(R=3, off=1)), lambda o: o.X.mttkrp(o.U, 0))
    reg(c, "mttkrp", "ktensor", lambda b: dict(X=b.K(), U=b.K(off=1)), lambda o, b: o.X.mttkrp(o.U, b.N - 1))
    for nm in ("ncomponents", "ndims", "order", "shape"):
        reg(c, nm, "property", XK, lambda o, nm=nm: getattr(o.X, nm), kind="property")
    reg(c, "norm", "default", XK, lambda o: o.X.norm(), kind="scalar")
    reg(c, "normalize", "default", XK, lambda o: o.X.normalize(), **I)
    reg(c, "normalize", "weight_factor=all", XK, lambda o: o.X.normalize("all"), **I)
    reg(c, "normalize", "weight_factor=int", XK, lambda o: o.X.normalize(1), **I)
    reg(c, "normalize", "sort", XK, lambda o: o.X.normalize(sort=True), **I)
    reg(c, "normalize", "normtype=1", XK, lambda o: o.X.normalize(normtype=1), **I)
    reg(c, "normalize", "mode", XK, lambda o: o.X.normalize(mode=0), **I)
    reg(c, "nvecs", "r=1", XK, lambda o: o.X.nvecs(0, 1))
    reg(c, "nvecs", "r=1,last-mode", XK, lambda o, b: o.X.nvecs(b.N - 1, 1))
    reg(c, "nvecs", "r=1,middle-mode", XK, lambda o: o.X.nvecs(1, 1))
    reg(c, "nvecs", "r=1,every-mode-in-turn", XK, lambda o, b: [o.X.nvecs(n, 1) for n in range(b.N)])
    reg(c, "nvecs", "r=2,noflip", XK, lambda o: o.X.nvecs(0, 2, flipsign=False), shapes=NOSINGLE)
    reg(c, "permute", "identity", lambda b: dict(X=b.K(), order=np.arange(b.N)), lambda o: o.X.permute(o.order))
    reg(c, "permute", "reverse", lambda b: dict(X=b.K(), order=np.arange(b.N)[::-1].copy()), lambda o: o.X.permute(o.order))
    reg(c, "redistribute", "mode0", XK, lambda o: o.X.redistribute(0), **I)
    reg(c, "redistribute", "last", XK, lambda o, b: o.X.redistribute(b.N - 1), **I)
    reg(c, "score", "default", both, lambda o: o.X.score(o.Y))
    reg(c, "score", "no-penalty,threshold", both, lambda o: o.X.score(o.Y, weight_penalty=False, threshold=0.5))
    reg(c, "symmetrize", "default", XK, lambda o: o.X.symmetrize(), shapes=CUBE)
    reg(c, "to_tenmat", "rdims", lambda b: dict(X=b.K(), r=np.array([0])), lambda o: o.X.to_tenmat(o.r))
    reg(c, "to_tenmat", "rdims+cdims", lambda b: dict(X=b.K(), r=np.array([1]), cd=np.array([0] + list(range(2, b.N)))), lambda o: o.X.to_tenmat(o.r, o.cd))
    reg(c, "to_tenmat", "copy=False", lambda b: dict(X=b.K(), r=np.array([0])), lambda o: o.X.to_tenmat(o.r, copy=False), kind="pure")
    reg(c, "tolist", "all", XK, lambda o: o.X.tolist())
    reg(c, "tolist", "mode", XK, lambda o: o.X.tolist(0))
    reg(c, "tolist", "mode,unit-weights", lambda b: dict(X=b.ttb.ktensor(b.fm())), lambda o: o.X.tolist(0))
    reg(c, "tolist", "all,unit-weights", lambda b: dict(X=b.ttb.ktensor(b.fm())), lambda o: o.X.tolist())
    reg(c, "tovec", "with-weights", XK, lambda o: o.X.tovec())
    reg(c, "tovec", "no-weights", XK, lambda o: o.X.tovec(False))
    reg(c, "ttv", "single", lambda b: dict(X=b.K(), v=b.vec(0)), lambda o: o.X.ttv(o.v, 0))
    reg(c, "ttv", "single,last", lambda b: dict(X=b.K(), v=b.vec(b.N - 1)), lambda o, b: o.X.ttv(o.v, b.N - 1))
    reg(c, "ttv", "all", lambda b: dict(X=b.K(), v=b.vecs()), lambda o: o.X.ttv(o.v), kind="scalar", shapes=NOSINGLE)   # pyttb rejects a length-1 vector here (not C05)
    reg(c, "ttv", "dims-array", lambda b: dict(X=b.K(), v=b.vecs([0, b.N - 1]), dims=np.array([0, b.N - 1])), lambda o: o.X.ttv(o.v, o.dims))
    reg(c, "ttv", "exclude", lambda b: dict(X=b.K(), v=b.vecs(), ex=np.array([0])), lambda o: o.X.ttv(o.v, exclude_dims=o.ex), shapes=NOSINGLE)
    reg(c, "update", "single-mode", lambda b: dict(X=b.K(), d=np.arange(1.0, 2 * b.shape[0] + 1)), lambda o: o.X.update(0, o.d), **I)
    reg(c, "update", "all-modes+weights", lambda b: dict(X=b.K(), m=list(range(-1, b.N)), d=np.arange(1.0, 2 + 2 * sum(b.shape) + 1)), lambda o: o.X.update(o.m, o.d), **I)
    reg(c, "update", "some-modes", lambda b: dict(X=b.K(), m=[0, b.N - 1], d=np.arange(1.0, 2 * (b.shape[0] + b.shape[-1]) + 1)), lambda o: o.X.update(o.m, o.d), **I)
    skip(c, "viz", "plotting front-end (matplotlib figure side effects); DESIGN §6.7 lists ktensor.viz as neither modelled nor verified")
    reg(c, "__add__", "ktensor", both, lambda o: o.X + o.Y)
    reg(c, "__sub__", "ktensor", both, lambda o: o.X - o.Y)
    reg(c, "__mul__", "scalar", XK, lambda o: o.X * 2.0)
    reg(c, "__mul__", "one", XK, lambda o: o.X * 1)
    reg(c, "__rmul__", "scalar", XK, lambda o: 2.0 * o.X)
    reg(c, "__neg__", "default", XK, lambda o: -o.X)
    reg(c, "__pos__", "default", XK, lambda o: +o.X)


_ktensor_table()

# ---- ttensor --------------------------------------------------------------------------------------------
def _ttensor_table():
    c = "ttensor"
    XT = X("TT")
    reg(c, "__init__", "copy=True", lambda b: dict(core=b.TT().core, f=b.TT().factor_matrices), lambda o, b: b.ttb.ttensor(o.core, o.f, copy=True))
    reg(c, "__init__", "copy=False", lambda b: dict(core=b.TT().core, f=b.TT().factor_matrices), lambda o, b: b.ttb.ttensor(o.core, o.f, copy=False), kind="nocopy")
    reg(c, "__init__", "copy=True,sparse-core", lambda b: dict(core=b.TT().core.to_sptensor(), f=b.TT().factor_matrices), lambda o, b: b.ttb.ttensor(o.core, o.f, copy=True))
    reg(c, "copy", "default", XT, lambda o: o.X.copy())
    reg(c, "__deepcopy__", "default", XT, lambda o: _copy.deepcopy(o.X))
    for nm in ("core", "factor_matrices"):
        reg(c, nm, "attr", XT, lambda o, nm=nm: getattr(o.X, nm), kind="attr")
    reg(c, "double", "default", XT, lambda o: o.X.double())
    reg(c, "full", "default", XT, lambda o: o.X.full())
    reg(c, "full", "identity-factors", lambda b: dict(X=b.ttb.ttensor(b.T(), [np.eye(s) for s in b.shape])), lambda o: o.X.full())
    reg(c, "to_tensor", "default", XT, lambda o: o.X.to_tensor())
    reg(c, "innerprod", "ttensor", lambda b: dict(X=b.TT(), Y=b.TT(1)), lambda o: o.X.innerprod(o.Y), kind="scalar")
    reg(c, "innerprod", "tensor", lambda b: dict(X=b.TT(), Y=b.T()), lambda o: o.X.innerprod(o.Y), kind="scalar")
    reg(c, "innerprod", "sptensor", lambda b: dict(X=b.TT(), Y=b.S()), lambda o: o.X.innerprod(o.Y), kind="scalar")
    reg(c, "innerprod", "ktensor", lambda b: dict(X=b.TT(), Y=b.K()), lambda o: o.X.innerprod(o.Y), kind="scalar")
    reg(c, "isequal", "ttensor", lambda b: dict(X=b.TT(), Y=b.TT()), lambda o: o.X.isequal(o.Y), kind="scalar")
    reg(c, "mttkrp", "list", lambda b: dict(X=b.TT(), U=b.fm()), lambda o: o.X.mttkrp(o.U, 0))
    reg(c, "mttkrp", "ktensor", lambda b: dict(X=b.TT(), U=b.K()), lambda o, b: o.X.mttkrp(o.U, b.N - 1))
    for nm in ("ndims", "order", "shape"):
        reg(c, nm, "property", XT, lambda o, nm=nm: getattr(o.X, nm), kind="property")
    reg(c, "norm", "default", XT, lambda o: o.X.norm(), kind="scalar")
    reg(c, "nvecs", "r=1", XT, lambda o: o.X.nvecs(0, 1))
    reg(c, "permute", "identity", lambda b: dict(X=b.TT(), order=np.arange(b.N)), lambda o: o.X.permute(o.order))
    reg(c, "permute", "reverse", lambda b: dict(X=b.TT(), order=np.arange(b.N)[::-1].copy()), lambda o: o.X.permute(o.order))
    reg(c, "reconstruct", "default", XT, lambda o: o.X.reconstruct())
    reg(c, "reconstruct", "samples-int", XT, lambda o: o.X.reconstruct(1, 0))
    reg(c, "reconstruct", "samples-array", lambda b: dict(X=b.TT(), s=np.array([0, 1])), lambda o: o.X.reconstruct(o.s, 0))
    reg(c, "reconstruct", "samples-lists", lambda b: dict(X=b.TT(), s=[np.array([0, 1]), np.array([0])], m=np.array([0, b.N - 1])), lambda o: o.X.reconstruct(o.s, o.m))
    reg(c, "ttm", "single", lambda b: dict(X=b.TT(), M=b.mat(0)), lambda o: o.X.ttm(o.M, 0))
    reg(c, "ttm", "single,transpose", lambda b: dict(X=b.TT(), M=b.mat(0).T.copy()), lambda o: o.X.ttm(o.M, 0, transpose=True))
    reg(c, "ttm", "all", lambda b: dict(X=b.TT(), M=[b.mat(n) for n in range(b.N)]), lambda o: o.X.ttm(o.M))
    reg(c, "ttm", "exclude", lambda b: dict(X=b.TT(), M=[b.mat(n) for n in range(b.N)], ex=np.array([1])), lambda o: o.X.ttm(o.M, exclude_dims=o.ex))
    reg(c, "ttv", "single", lambda b: dict(X=b.TT(), v=b.vec(0)), lambda o: o.X.ttv(o.v, 0))
    reg(c, "ttv", "all", lambda b: dict(X=b.TT(), v=b.vecs()), lambda o: o.X.ttv(o.v), kind="scalar")
    reg(c, "ttv", "dims-array", lambda b: dict(X=b.TT(), v=b.vecs([0, b.N - 1]), dims=np.array([0, b.N - 1])), lambda o: o.X.ttv(o.v, o.dims))
    reg(c, "ttv", "exclude", lambda b: dict(X=b.TT(), v=b.vecs(), ex=np.array([0])), lambda o: o.X.ttv(o.v, exclude_dims=o.ex))
    reg(c, "__mul__", "scalar", XT, lambda o: o.X * 2.0)
    reg(c, "__mul__", "one", XT, lambda o: o.X * 1)
    reg(c, "__rmul__", "scalar", XT, lambda o: 2.0 * o.X)
    reg(c, "__neg__", "default", XT, lambda o: -o.X)
    reg(c, "__pos__", "default", XT, lambda o: +o.X)


_ttensor_table()


# ---- tenmat ---------------------------------------------------------------------------------------------
def _tenmat_table():
    c = "tenmat"
    XM = X("TM")
    both = lambda b: dict(X=b.TM(), Y=b.TM(1))
    mk = lambda b: dict(d=b.arr().reshape((b.shape[0], b.n // b.shape[0]), order="F").copy(order="F"), r=np.array([0]), cd=np.arange(1, b.N))
    reg(c, "__init__", "copy=True", mk, lambda o, b: b.ttb.tenmat(o.d, o.r, o.cd, b.shape, copy=True))
    reg(c, "__init__", "copy=True,rdims-only", mk, lambda o, b: b.ttb.tenmat(o.d, o.r, tshape=b.shape, copy=True))
    reg(c, "__init__", "copy=False", mk, lambda o, b: b.ttb.tenmat(o.d, o.r, o.cd, b.shape, copy=False), kind="nocopy")
    reg(c, "copy", "default", XM, lambda o: o.X.copy())
    reg(c, "__deepcopy__", "default", XM, lambda o: _copy.deepcopy(o.X))
    for nm in ("cindices", "rindices", "data", "tshape"):
        reg(c, nm, "attr", XM, lambda o, nm=nm: getattr(o.X, nm), kind="attr")
    reg(c, "ctranspose", "default", XM, lambda o: o.X.ctranspose())
    reg(c, "double", "default", XM, lambda o: o.X.double())
    reg(c, "isequal", "tenmat", both, lambda o: o.X.isequal(o.Y), kind="scalar")
    for nm in ("ndims", "order", "shape"):
        reg(c, nm, "property", XM, lambda o, nm=nm: getattr(o.X, nm), kind="property")
    reg(c, "norm", "default", XM, lambda o: o.X.norm(), kind="scalar")
    reg(c, "to_tensor", "copy=True", XM, lambda o: o.X.to_tensor())
    reg(c, "to_tensor", "copy=True,permuted", lambda b: dict(X=b.T().to_tenmat(np.array([1]))), lambda o: o.X.to_tensor())
    reg(c, "to_tensor", "copy=False", XM, lambda o: o.X.to_tensor(copy=False), kind="nocopy")
    reg(c, "__add__", "tenmat", both, lambda o: o.X + o.Y)
    reg(c, "__add__", "scalar", XM, lambda o: o.X + 2.0)
    reg(c, "__add__", "zero", XM, lambda o: o.X + 0)
    reg(c, "__sub__", "tenmat", both, lambda o: o.X - o.Y)
    reg(c, "__sub__", "scalar", XM, lambda o: o.X - 2.0)
    reg(c, "__mul__", "scalar", XM, lambda o: o.X * 2.0)
    reg(c, "__mul__", "one", XM, lambda o: o.X * 1)
    reg(c, "__mul__", "tenmat", lambda b: dict(X=b.TM(), Y=b.TM(1).ctranspose()), lambda o: o.X * o.Y)
    reg(c, "__radd__", "scalar", XM, lambda o: 2.0 + o.X)
    reg(c, "__rsub__", "scalar", XM, lambda o: 2.0 - o.X)
    reg(c, "__rmul__", "scalar", XM, lambda o: 2.0 * o.X)
    reg(c, "__neg__", "default", XM, lambda o: -o.X)
    reg(c, "__pos__", "default", XM, lambda o: +o.X)
    reg(c, "__getitem__", "element", XM, lambda o: o.X[0, 0], kind="scalar")
    reg(c, "__getitem__", "row", XM, lambda o: o.X[0, :])
    reg(c, "__getitem__", "full-slice", XM, lambda o: o.X[:, :])
    reg(c, "__getitem__", "fancy", lambda b: dict(X=b.TM(), i=np.array([0, 1])), lambda o: o.X[o.i, :])

    def setit(o, key, val):
        o.X[key] = val
        return None
    I = dict(kind="inplace", recv="X")
    reg(c, "__setitem__", "element", XM, lambda o: setit(o, (0, 0), 9.0), **I)
    reg(c, "__setitem__", "row,ndarray", lambda b: dict(X=b.TM(), v=np.arange(1.0, b.n // b.shape[0] + 1)), lambda o: setit(o, (0, slice(None)), o.v), **I)
    reg(c, "__setitem__", "full,ndarray", lambda b: dict(X=b.TM(), v=b.arr(2).reshape((b.shape[0], -1), order="F").copy()), lambda o: setit(o, (slice(None), slice(None)), o.v), **I)


_tenmat_table()


# ---- sptenmat -------------------------------------------------------------------------------------------
def _sptenmat_table():
    c = "sptenmat"
    XM = X("STM")

    def mk(b):
        m = b.STM()
        return dict(s=m.subs.copy(), v=m.vals.copy(), r=np.array([0]), cd=np.arange(1, b.N))
    reg(c, "__init__", "copy=True", mk, lambda o, b: b.ttb.sptenmat(o.s, o.v, o.r, o.cd, b.shape, copy=True))
    reg(c, "__init__", "copy=False", mk, lambda o, b: b.ttb.sptenmat(o.s, o.v, o.r, o.cd, b.shape, copy=False), kind="nocopy")
    reg(c, "copy", "default", XM, lambda o: o.X.copy())
    reg(c, "__deepcopy__", "default", XM, lambda o: _copy.deepcopy(o.X))
    for nm in ("cdims", "rdims", "subs", "vals", "tshape"):
        reg(c, nm, "attr", XM, lambda o, nm=nm: getattr(o.X, nm), kind="attr")
    reg(c, "double", "default", XM, lambda o: o.X.double())
    reg(c, "from_array", "coo", lambda b: dict(A=b.STM().double(), r=np.array([0])), lambda o, b: b.ttb.sptenmat.from_array(o.A, o.r, tshape=b.shape))
    reg(c, "from_array", "ndarray", lambda b: dict(A=b.STM().double().toarray(), r=np.array([0]), cd=np.arange(1, b.N)), lambda o, b: b.ttb.sptenmat.from_array(o.A, o.r, o.cd, b.shape))
    reg(c, "full", "default", XM, lambda o: o.X.full())
    reg(c, "isequal", "sptenmat", lambda b: dict(X=b.STM(), Y=b.STM()), lambda o: o.X.isequal(o.Y), kind="scalar")
    for nm in ("nnz", "order", "shape"):
        reg(c, nm, "property", XM, lambda o, nm=nm: getattr(o.X, nm), kind="property")
    reg(c, "norm", "default", XM, lambda o: o.X.norm(), kind="scalar")
    reg(c, "to_sptensor", "default", XM, lambda o: o.X.to_sptensor())
    reg(c, "to_sptensor", "permuted", lambda b: dict(X=b.S().to_sptenmat(np.array([1]))), lambda o: o.X.to_sptensor())
    reg(c, "__neg__", "default", XM, lambda o: -o.X)
    reg(c, "__pos__", "default", XM, lambda o: +o.X)

    def setit(o, key, val):
        o.X[key] = val
        return None
    reg(c, "__setitem__", "element", XM, lambda o: setit(o, (0, 0), 9.0), kind="inplace", recv="X")
    reg(c, "__setitem__", "new-element", XM, lambda o: setit(o, (1, 1), 9.0), kind="inplace", recv="X")


_sptenmat_table()


# ---- sumtensor ------------------------------------------------------------------------------------------
def _sumtensor_table():
    c = "sumtensor"
    XS = X("SUM")
    reg(c, "__init__", "copy=True", lambda b: dict(p=[b.T(), b.K(), b.S(), b.TT()]), lambda o, b: b.ttb.sumtensor(o.p, copy=True))
    reg(c, "__init__", "copy=False", lambda b: dict(p=[b.T(), b.K()]), lambda o, b: b.ttb.sumtensor(o.p, copy=False), kind="nocopy")
    reg(c, "copy", "default", XS, lambda o: o.X.copy())
    reg(c, "__deepcopy__", "default", XS, lambda o: _copy.deepcopy(o.X))
    reg(c, "parts", "attr", XS, lambda o: o.X.parts, kind="attr")
    reg(c, "double", "default", XS, lambda o: o.X.double())
    reg(c, "full", "default", XS, lambda o: o.X.full())
    reg(c, "full", "single-dense-part", lambda b: dict(X=b.ttb.sumtensor([b.T()])), lambda o: o.X.full())
    reg(c, "to_tensor", "default", XS, lambda o: o.X.to_tensor())
    reg(c, "to_tensor", "single-dense-part", lambda b: dict(X=b.ttb.sumtensor([b.T()])), lambda o: o.X.to_tensor())
    reg(c, "innerprod", "tensor", lambda b: dict(X=b.SUM(), Y=b.T(1)), lambda o: o.X.innerprod(o.Y), kind="scalar")
    reg(c, "innerprod", "ktensor", lambda b: dict(X=b.SUM(), Y=b.K(off=1)), lambda o: o.X.innerprod(o.Y), kind="scalar")
    reg(c, "mttkrp", "list", lambda b: dict(X=b.SUM(), U=b.fm()), lambda o: o.X.mttkrp(o.U, 0))
    reg(c, "mttkrp", "ktensor", lambda b: dict(X=b.SUM(), U=b.K(off=1)), lambda o, b: o.X.mttkrp(o.U, b.N - 1))
    for nm in ("ndims", "order", "shape"):
        reg(c, nm, "property", XS, lambda o, nm=nm: getattr(o.X, nm), kind="property")
    reg(c, "norm", "default", XS, lambda o: o.X.norm(), kind="scalar")
    reg(c, "ttv", "single", lambda b: dict(X=b.SUM(), v=b.vec(0)), lambda o: o.X.ttv(o.v, 0))
    reg(c, "ttv", "all", lambda b: dict(X=b.SUM(), v=b.vecs()), lambda o: o.X.ttv(o.v), kind="scalar", shapes=NOSINGLE)
    reg(c, "ttv", "exclude", lambda b: dict(X=b.SUM(), v=b.vecs(), ex=np.array([0])), lambda o: o.X.ttv(o.v, exclude_dims=o.ex), shapes=NOSINGLE)
    reg(c, "__add__", "tensor", lambda b: dict(X=b.SUM(), Y=b.T(1)), lambda o: o.X + o.Y)
    reg(c, "__add__", "ktensor", lambda b: dict(X=b.SUM(), Y=b.K(off=1)), lambda o: o.X + o.Y)
    reg(c, "__add__", "list", lambda b: dict(X=b.SUM(), Y=[b.S(), b.TT()]), lambda o: o.X + o.Y)
    reg(c, "__radd__", "tensor", lambda b: dict(X=b.SUM(), Y=b.T(1)), lambda o: o.Y + o.X)
    reg(c, "__radd__", "sptensor", lambda b: dict(X=b.SUM(), Y=b.S(1)), lambda o: o.X.__radd__(o.Y))
    reg(c, "__neg__", "default", XS, lambda o: -o.X)
    reg(c, "__pos__", "default", XS, lambda o: +o.X)


_sumtensor_table()

# ---- top-level functions and algorithm entry points --------------------------------------------------
def _pos(b, off=0):
    """non-negative count-like dense data for cp_apr / gcp"""
    return b.T(off)


def _M(f, *a, **k):
    """model part of an algorithm's (model, initial guess, info) result; the echoed guess/params are measured apart"""
    res = f(*a, **k)
    return (res[0], {kk: v for kk, v in res[2].items() if kk != "params"})


def _E(f, *a, **k):
    """echo part: the returned initial guess and the parameter record"""
    res = f(*a, **k)
    return (res[1], res[2].get("params"))


def _toplevel_table():
    c = "ttb"
    ALG = [(2, 3, 4), (3, 2, 2)]
    # cp_als ------------------------------------------------------------------------------------------
    kw = dict(maxiters=2, printitn=0)
    reg(c, "cp_als", "init=ktensor,dense", lambda b: dict(X=b.T(), init=b.K()), lambda o, b: _M(b.ttb.cp_als, o.X, 2, init=o.init, **kw), shapes=ALG)
    reg(c, "cp_als", "init=ktensor,sparse", lambda b: dict(X=b.S(), init=b.K()), lambda o, b: _M(b.ttb.cp_als, o.X, 2, init=o.init, **kw), shapes=ALG)
    reg(c, "cp_als", "init=ktensor,ttensor", lambda b: dict(X=b.TT(), init=b.K()), lambda o, b: _M(b.ttb.cp_als, o.X, 2, init=o.init, **kw), shapes=ALG)
    reg(c, "cp_als", "init=ktensor,sumtensor", lambda b: dict(X=b.SUM(), init=b.K()), lambda o, b: _M(b.ttb.cp_als, o.X, 2, init=o.init, **kw), shapes=ALG)
    reg(c, "cp_als", "init=ktensor,dimorder,optdims", lambda b: dict(X=b.T(), init=b.K(), do=np.arange(b.N)[::-1].copy(), od=np.array([0, 1])),
        lambda o, b: _M(b.ttb.cp_als, o.X, 2, init=o.init, dimorder=o.do, optdims=o.od, **kw), shapes=ALG)
    reg(c, "cp_als", "init=ktensor,nofixsigns", lambda b: dict(X=b.T(), init=b.K()), lambda o, b: _M(b.ttb.cp_als, o.X, 2, init=o.init, fixsigns=False, **kw), shapes=ALG)
    reg(c, "cp_als", "init=nvecs", lambda b: dict(X=b.T()), lambda o, b: _M(b.ttb.cp_als, o.X, 2, init="nvecs", **kw), shapes=ALG)
    reg(c, "cp_als", "init=random", lambda b: dict(X=b.T()), lambda o, b: _M(b.ttb.cp_als, o.X, 2, init="random", **kw), shapes=ALG)
    # cp_apr ------------------------------------------------------------------------------------------
    akw = dict(maxiters=2, printitn=0, printinneritn=0, maxinneriters=2)

    def kz(b):      # initial guess with one zero row (mode 0, row 0) — legal input; PDNR/PQNR "fix" such rows
        f = b.fm()
        f[0][0, :] = 0.0
        return b.ttb.ktensor(f, np.array([2.0, 3.0]))
    def pq_data(b, sparse=False):
        Xd = b.ttb.ktensor([np.array([[1.0, 1.0], [3.0, 4.0]]), np.array([[1.0, 6.0], [7.0, 8.0]])], np.array([1.0, 2.0])).full()
        return Xd.to_sptensor() if sparse else Xd

    def pq_init(b, zero=False):
        f0 = np.array([[0.69646919, 0.28613933], [0.22685145, 0.55131477]])
        f1 = np.array([[0.71946897, 0.42310646], [0.9807642, 0.68482974]])
        if zero:
            f0[0, :] = 0.0
        return b.ttb.ktensor([f0, f1])
    pkw = dict(maxiters=1, maxinneriters=1, printitn=0, printinneritn=0)
    P22 = [(2, 2)]
    reg(c, "cp_apr", "pqnr,init=ktensor,dense", lambda b: dict(X=pq_data(b), init=pq_init(b)), lambda o, b: _M(b.ttb.cp_apr, o.X, 2, algorithm="pqnr", init=o.init, **pkw), shapes=P22)
    reg(c, "cp_apr", "pqnr,init=ktensor,sparse", lambda b: dict(X=pq_data(b, True), init=pq_init(b)), lambda o, b: _M(b.ttb.cp_apr, o.X, 2, algorithm="pqnr", init=o.init, **pkw), shapes=P22)
    reg(c, "cp_apr", "pqnr,init=ktensor-with-zero-row", lambda b: dict(X=pq_data(b), init=pq_init(b, True)), lambda o, b: _M(b.ttb.cp_apr, o.X, 2, algorithm="pqnr", init=o.init, **pkw), shapes=P22)
    reg(c, "cp_apr", "pqnr,init=random", lambda b: dict(X=pq_data(b)), lambda o, b: _M(b.ttb.cp_apr, o.X, 2, algorithm="pqnr", init="random", **pkw), shapes=P22)
    for alg in ("mu", "pdnr"):
        for data, mk in (("dense", lambda b: b.T()), ("sparse", lambda b: b.S())):
            reg(c, "cp_apr", f"{alg},init=ktensor,{data}", lambda b, mk=mk: dict(X=mk(b), init=b.K()),
                lambda o, b, alg=alg: _M(b.ttb.cp_apr, o.X, 2, algorithm=alg, init=o.init, **akw), shapes=ALG)
        reg(c, "cp_apr", f"{alg},init=ktensor-with-zero-row", lambda b: dict(X=b.S(), init=kz(b)),
            lambda o, b, alg=alg: _M(b.ttb.cp_apr, o.X, 2, algorithm=alg, init=o.init, **akw), shapes=ALG)
        reg(c, "cp_apr", f"{alg},init=random", lambda b: dict(X=b.S()),
            lambda o, b, alg=alg: _M(b.ttb.cp_apr, o.X, 2, algorithm=alg, init="random", **akw), shapes=ALG)
    # gcp_opt -----------------------------------------------------------------------------------------
    def gcp(b, X, init, stochastic=False, mask=None, echo=False):
        from pyttb.gcp.optimizers import LBFGSB, Adam
        from pyttb.gcp.fg_setup import Objectives
        opt = Adam(max_iters=1, epoch_iters=2, printitn=0) if stochastic else LBFGSB(maxiter=2, iprint=-1)
        return (_E if echo else _M)(b.ttb.gcp_opt, X, 2, Objectives.GAUSSIAN, opt, init=init, mask=mask, printitn=0)
    reg(c, "gcp_opt", "lbfgsb,init=ktensor", lambda b: dict(X=b.T(), init=b.K()), lambda o, b: gcp(b, o.X, o.init), shapes=ALG)
    reg(c, "gcp_opt", "lbfgsb,init=list", lambda b: dict(X=b.T(), init=b.fm()), lambda o, b: gcp(b, o.X, o.init), shapes=ALG)
    reg(c, "gcp_opt", "lbfgsb,init=random", lambda b: dict(X=b.T()), lambda o, b: gcp(b, o.X, "random"), shapes=ALG)
    reg(c, "gcp_opt", "lbfgsb,init=ktensor,mask", lambda b: dict(X=b.T(), init=b.K(), W=b.W()), lambda o, b: gcp(b, o.X, o.init, mask=o.W), shapes=ALG)
    reg(c, "gcp_opt", "adam,init=ktensor,dense", lambda b: dict(X=b.T(), init=b.K()), lambda o, b: gcp(b, o.X, o.init, True), shapes=ALG)
    # the optimizer object handed to gcp_opt is an operand too: solving must not leave state in it, nor may the
    # result share arrays with it
    def mkopt(name):
        from pyttb.gcp.optimizers import LBFGSB, SGD, Adam, Adagrad
        if name == "lbfgsb":
            return LBFGSB(maxiter=2, iprint=-1)
        return {"sgd": SGD, "adam": Adam, "adagrad": Adagrad}[name](max_iters=1, epoch_iters=2, printitn=0)

    def gcp_o(b, X, init, opt):
        from pyttb.gcp.fg_setup import Objectives
        return _M(b.ttb.gcp_opt, X, 2, Objectives.GAUSSIAN, opt, init=init, printitn=0)
    for on in ("lbfgsb", "sgd", "adam", "adagrad"):
        reg(c, "gcp_opt", f"{on},optimizer-tracked,init=list", lambda b, on=on: dict(X=b.T(), init=b.fm(), opt=mkopt(on)),
            lambda o, b: gcp_o(b, o.X, o.init, o.opt), shapes=ALG)
    # hosvd / tucker_als ------------------------------------------------------------------------------
    reg(c, "hosvd", "tol", lambda b: dict(X=b.T()), lambda o, b: b.ttb.hosvd(o.X, 1e-4, verbosity=0), shapes=ALG)
    reg(c, "hosvd", "ranks=ndarray", lambda b: dict(X=b.T(), ranks=np.array([1] * b.N)), lambda o, b: b.ttb.hosvd(o.X, 1e-4, verbosity=0, ranks=o.ranks), shapes=ALG)
    reg(c, "hosvd", "ranks=list", lambda b: dict(X=b.T(), ranks=[1] * b.N), lambda o, b: b.ttb.hosvd(o.X, 1e-4, verbosity=0, ranks=o.ranks), shapes=ALG)
    reg(c, "hosvd", "zero-ranks=ndarray(chosen by tol)", lambda b: dict(X=b.T(), ranks=np.zeros(b.N, dtype=int)), lambda o, b: b.ttb.hosvd(o.X, 1e-4, verbosity=0, ranks=o.ranks), shapes=ALG)
    reg(c, "hosvd", "dimorder,not-sequential", lambda b: dict(X=b.T(), do=np.arange(b.N)[::-1].copy()), lambda o, b: b.ttb.hosvd(o.X, 1e-4, verbosity=0, dimorder=o.do, sequential=False), shapes=ALG)
    tkw = dict(maxiters=2, printitn=0)
    reg(c, "tucker_als", "init=list", lambda b: dict(X=b.T(), rank=np.array(b.ranks()), init=b.TT().factor_matrices), lambda o, b: _M(b.ttb.tucker_als, o.X, o.rank, init=o.init, **tkw), shapes=ALG)
    reg(c, "tucker_als", "init=list,dimorder", lambda b: dict(X=b.T(), rank=np.array(b.ranks()), init=b.TT().factor_matrices, do=np.arange(b.N)[::-1].copy()),
        lambda o, b: _M(b.ttb.tucker_als, o.X, o.rank, init=o.init, dimorder=o.do, **tkw), shapes=ALG)
    reg(c, "tucker_als", "init=nvecs,int-rank", lambda b: dict(X=b.T()), lambda o, b: _M(b.ttb.tucker_als, o.X, 2, init="nvecs", **tkw), shapes=ALG)
    reg(c, "tucker_als", "init=random", lambda b: dict(X=b.T(), rank=np.array(b.ranks())), lambda o, b: _M(b.ttb.tucker_als, o.X, o.rank, init="random", **tkw), shapes=ALG)
    # the echoed initial guess / parameter record (second result and info["params"]) ---------------------
    reg(c, "cp_als", "echo,init=ktensor", lambda b: dict(X=b.T(), init=b.K()), lambda o, b: _E(b.ttb.cp_als, o.X, 2, init=o.init, **kw), shapes=ALG)
    reg(c, "cp_apr", "echo,init=ktensor", lambda b: dict(X=b.S(), init=b.K()), lambda o, b: _E(b.ttb.cp_apr, o.X, 2, algorithm="mu", init=o.init, **akw), shapes=ALG)
    reg(c, "gcp_opt", "echo,init=list", lambda b: dict(X=b.T(), init=b.fm()), lambda o, b: gcp(b, o.X, o.init, echo=True), shapes=ALG)
    reg(c, "tucker_als", "echo,init=list", lambda b: dict(X=b.T(), rank=np.array(b.ranks()), init=b.TT().factor_matrices), lambda o, b: _E(b.ttb.tucker_als, o.X, o.rank, init=o.init, **tkw), shapes=ALG)
    # khatrirao and generators ------------------------------------------------------------------------
    reg(c, "khatrirao", "two", lambda b: dict(A=b.fm()[0], Bm=b.fm()[1]), lambda o, b: b.ttb.khatrirao(o.A, o.Bm))
    reg(c, "khatrirao", "list,reverse", lambda b: dict(U=b.fm()), lambda o, b: b.ttb.khatrirao(*o.U, reverse=True))
    reg(c, "khatrirao", "single-matrix", lambda b: dict(A=b.fm()[0]), lambda o, b: b.ttb.khatrirao(o.A))
    reg(c, "khatrirao", "single-column-vectors", lambda b: dict(A=b.vec(0).reshape(-1, 1), Bm=b.vec(1).reshape(-1, 1)), lambda o, b: b.ttb.khatrirao(o.A, o.Bm))
    reg(c, "tendiag", "default", lambda b: dict(e=np.array([1.0, 2.0])), lambda o, b: b.ttb.tendiag(o.e))
    reg(c, "tendiag", "shape", lambda b: dict(e=np.array([1.0, 2.0])), lambda o, b: b.ttb.tendiag(o.e, (3,) * b.N))
    reg(c, "sptendiag", "default", lambda b: dict(e=np.array([1.0, 2.0])), lambda o, b: b.ttb.sptendiag(o.e))
    reg(c, "sptendiag", "shape", lambda b: dict(e=np.array([1.0, 2.0])), lambda o, b: b.ttb.sptendiag(o.e, (3,) * b.N))
    reg(c, "teneye", "default", lambda b: dict(), lambda o, b: b.ttb.teneye(2, 2), shapes=CUBE)
    reg(c, "tenones", "default", lambda b: dict(shp=np.array(b.shape)), lambda o, b: b.ttb.tenones(o.shp))
    reg(c, "tenzeros", "default", lambda b: dict(shp=np.array(b.shape)), lambda o, b: b.ttb.tenzeros(o.shp))
    reg(c, "tenrand", "default", lambda b: dict(shp=np.array(b.shape)), lambda o, b: b.ttb.tenrand(o.shp))
    reg(c, "sptenrand", "nonzeros", lambda b: dict(shp=np.array(b.shape)), lambda o, b: b.ttb.sptenrand(o.shp, nonzeros=3))
    reg(c, "sptenrand", "density", lambda b: dict(shp=np.array(b.shape)), lambda o, b: b.ttb.sptenrand(o.shp, density=0.5))

    def roundtrip(b, obj):
        d = tempfile.mkdtemp(prefix="c05io")
        fn = os.path.join(d, "x.tns")
        try:
            b.ttb.export_data(obj, fn)
            return b.ttb.import_data(fn)
        finally:
            try:
                os.remove(fn)
            except OSError:
                pass
            os.rmdir(d)
    for nm, mk in (("tensor", lambda b: b.T()), ("sptensor", lambda b: b.S()), ("ktensor", lambda b: b.K()), ("matrix", lambda b: b.fm()[0])):
        reg(c, "export_data", nm, lambda b, mk=mk: dict(X=mk(b)), lambda o, b: roundtrip(b, o.X))
        reg(c, "import_data", nm, lambda b, mk=mk: dict(X=mk(b)), lambda o, b: roundtrip(b, o.X))
    skip(c, "ignore_warnings", "takes a boolean, returns None, touches only the warnings filter (no tensor operands)")


_toplevel_table()

# ---- pyttb_utils ------------------------------------------------------------------------------------------
def _utils_table():
    import pyttb.pyttb_utils as PU
    c = "utils"
    SH = [(2, 3, 4)]
    reg(c, "gather_wrap_dims", "rdims", lambda b: dict(r=np.array([0])), lambda o, b: PU.gather_wrap_dims(b.N, o.r))
    reg(c, "gather_wrap_dims", "rdims+cdims", lambda b: dict(r=np.array([0]), cd=np.arange(1, b.N)), lambda o, b: PU.gather_wrap_dims(b.N, o.r, o.cd))
    reg(c, "gather_wrap_dims", "cdims-only", lambda b: dict(cd=np.arange(1, b.N)), lambda o, b: PU.gather_wrap_dims(b.N, cdims=o.cd))
    reg(c, "gather_wrap_dims", "cyclic", lambda b: dict(r=np.array([1])), lambda o, b: PU.gather_wrap_dims(b.N, o.r, cdims_cyclic="fc"))
    reg(c, "get_index_variant", "array", lambda b: dict(i=np.array([0, 1])), lambda o: PU.get_index_variant(o.i), kind="scalar", shapes=SH)
    reg(c, "get_index_variant", "subscripts", lambda b: dict(i=b.subs()), lambda o: PU.get_index_variant(o.i), kind="scalar", shapes=SH)
    # pass-through accessors: documented to hand back (a view of) their argument after validation
    reg(c, "get_mttkrp_factors", "list", lambda b: dict(U=b.fm()), lambda o, b: PU.get_mttkrp_factors(o.U, 0, b.N), kind="nocopy")
    reg(c, "get_mttkrp_factors", "ktensor", lambda b: dict(U=b.K()), lambda o, b: PU.get_mttkrp_factors(o.U, 0, b.N), kind="nocopy")
    for nm in ("islogical", "isrow", "isvector"):
        reg(c, nm, "array", lambda b: dict(a=b.vec(0).reshape(1, -1)), lambda o, nm=nm: getattr(PU, nm)(o.a), kind="scalar", shapes=SH)
    reg(c, "np_to_python", "tuple-of-np-ints", lambda b: dict(a=np.array(b.shape)), lambda o: PU.np_to_python(tuple(o.a)), kind="scalar", shapes=SH)
    reg(c, "parse_one_d", "ndarray", lambda b: dict(a=np.array([0, 1])), lambda o: PU.parse_one_d(o.a), kind="nocopy", shapes=SH)
    reg(c, "parse_one_d", "list", lambda b: dict(a=[0, 1]), lambda o: PU.parse_one_d(o.a), shapes=SH)
    reg(c, "parse_one_d", "2d-row", lambda b: dict(a=np.array([[0, 1]])), lambda o: PU.parse_one_d(o.a), kind="nocopy", shapes=SH)
    reg(c, "parse_shape", "ndarray", lambda b: dict(a=np.array(b.shape)), lambda o: PU.parse_shape(o.a), kind="scalar")
    reg(c, "parse_shape", "list", lambda b: dict(a=list(b.shape)), lambda o: PU.parse_shape(o.a), kind="scalar")
    reg(c, "to_memory_order", "copy=False,matching", lambda b: dict(a=b.arr()), lambda o: PU.to_memory_order(o.a, "F"), kind="nocopy")
    reg(c, "to_memory_order", "copy=False,converting", lambda b: dict(a=np.ascontiguousarray(b.arr())), lambda o: PU.to_memory_order(o.a, "F"), kind="nocopy", shapes=NOSINGLE)
    reg(c, "to_memory_order", "copy=True,matching", lambda b: dict(a=b.arr()), lambda o: PU.to_memory_order(o.a, "F", copy=True))
    reg(c, "to_memory_order", "copy=True,converting", lambda b: dict(a=np.ascontiguousarray(b.arr())), lambda o: PU.to_memory_order(o.a, "F", copy=True))
    reg(c, "to_memory_order", "copy=True,coo", lambda b: dict(a=b.STM().double()), lambda o: PU.to_memory_order(o.a, "F", copy=True))
    reg(c, "tt_dimscheck", "dims-array", lambda b: dict(d=np.array([0, b.N - 1])), lambda o, b: PU.tt_dimscheck(b.N, 2, dims=o.d))
    reg(c, "tt_dimscheck", "all-dims-array", lambda b: dict(d=np.arange(b.N)), lambda o, b: PU.tt_dimscheck(b.N, b.N, dims=o.d))
    reg(c, "tt_dimscheck", "exclude-array", lambda b: dict(e=np.array([0])), lambda o, b: PU.tt_dimscheck(b.N, b.N, exclude_dims=o.e))
    reg(c, "tt_dimscheck", "none", lambda b: dict(), lambda o, b: PU.tt_dimscheck(b.N, b.N))
    reg(c, "tt_ind2sub", "non-negative", lambda b: dict(i=np.array([0, 1, b.n - 1])), lambda o, b: PU.tt_ind2sub(b.shape, o.i))
    reg(c, "tt_ind2sub", "negative", lambda b: dict(i=np.array([0, -1, -2])), lambda o, b: PU.tt_ind2sub(b.shape, o.i))
    reg(c, "tt_ind2sub", "empty", lambda b: dict(i=np.array([], dtype=int)), lambda o, b: PU.tt_ind2sub(b.shape, o.i), kind="scalar")
    reg(c, "tt_ind2sub", "C-order", lambda b: dict(i=np.array([0, 1, b.n - 1])), lambda o, b: PU.tt_ind2sub(b.shape, o.i, order="C"))
    reg(c, "tt_sub2ind", "default", lambda b: dict(s=b.subs()), lambda o, b: PU.tt_sub2ind(b.shape, o.s))
    reg(c, "tt_sub2ind", "C-order", lambda b: dict(s=b.subs()), lambda o, b: PU.tt_sub2ind(b.shape, o.s, order="C"))
    reg(c, "tt_sub2ind", "empty", lambda b: dict(s=np.empty((0, b.N), dtype=int)), lambda o, b: PU.tt_sub2ind(b.shape, o.s), kind="scalar")
    two = lambda b: dict(A=b.subs(), Bm=np.vstack([b.subs(1)[:2], b.subs()[:2]]))
    for nm in ("tt_intersect_rows", "tt_setdiff_rows", "tt_union_rows"):
        reg(c, nm, "default", two, lambda o, nm=nm: getattr(PU, nm)(o.A, o.Bm))
        reg(c, nm, "empty-second", lambda b: dict(A=b.subs(), Bm=np.empty((0, b.N), dtype=int)), lambda o, nm=nm: getattr(PU, nm)(o.A, o.Bm))
        reg(c, nm, "empty-first", lambda b: dict(A=np.empty((0, b.N), dtype=int), Bm=b.subs()), lambda o, nm=nm: getattr(PU, nm)(o.A, o.Bm))
    reg(c, "tt_ismember_rows", "default", two, lambda o: PU.tt_ismember_rows(o.Bm, o.A))
    reg(c, "tt_irenumber", "slices", lambda b: dict(t=b.S()), lambda o, b: PU.tt_irenumber(o.t, b.shape, (slice(None),) * b.N))
    reg(c, "tt_irenumber", "array-range", lambda b: dict(t=b.S(), r=np.arange(b.shape[0])), lambda o, b: PU.tt_irenumber(o.t, b.shape, (o.r,) + (slice(None),) * (b.N - 1)))
    reg(c, "tt_renumber", "slices", lambda b: dict(s=b.subs()), lambda o, b: PU.tt_renumber(o.s, b.shape, (slice(None),) * b.N))
    reg(c, "tt_renumber", "list-range", lambda b: dict(s=b.subs(), r=list(range(b.shape[0]))[::-1]), lambda o, b: PU.tt_renumber(o.s, b.shape, (o.r,) + (slice(None),) * (b.N - 1)))
    reg(c, "tt_renumber", "partial-slice", lambda b: dict(s=b.subs()), lambda o, b: PU.tt_renumber(o.s, b.shape, (slice(None),) * (b.N - 1) + (slice(1, None),)))
    reg(c, "tt_renumber", "empty-subs", lambda b: dict(s=np.empty((0, b.N), dtype=int), r=[0]), lambda o, b: PU.tt_renumber(o.s, b.shape, (o.r,) + (slice(None),) * (b.N - 1)), kind="scalar")
    reg(c, "tt_renumberdim", "array-range", lambda b: dict(i=b.subs()[:, 0].copy(), r=np.arange(b.shape[0])), lambda o, b: PU.tt_renumberdim(o.i, b.shape[0], o.r))
    reg(c, "tt_renumberdim", "slice", lambda b: dict(i=b.subs()[:, 0].copy()), lambda o, b: PU.tt_renumberdim(o.i, b.shape[0], slice(0, 2)))
    reg(c, "tt_sizecheck", "tuple", lambda b: dict(), lambda o, b: PU.tt_sizecheck(b.shape), kind="scalar")
    reg(c, "tt_sizecheck", "ndarray", lambda b: dict(a=np.array(b.shape)), lambda o: PU.tt_sizecheck(o.a), kind="scalar")
    reg(c, "tt_subscheck", "default", lambda b: dict(s=b.subs()), lambda o: PU.tt_subscheck(o.s), kind="scalar")
    reg(c, "tt_valscheck", "default", lambda b: dict(v=b.vals()), lambda o: PU.tt_valscheck(o.v), kind="scalar")
    reg(c, "tt_subsubsref", "array", lambda b: dict(a=b.vec(0)), lambda o: PU.tt_subsubsref(o.a, None), kind="nocopy")   # documented stub: returns obj
    reg(c, "tt_subsubsref", "size-1", lambda b: dict(a=np.array([3.0])), lambda o: PU.tt_subsubsref(o.a, None), kind="scalar", shapes=SH)


_utils_table()

# ---- seed-driven parameter classes (one fixed draw in quick, several seeds in thorough) ------------------
def _rnd(shape, seed, salt=0):
    import random
    return random.Random(seed * 1000003 + sum(int(s) * 31 ** i for i, s in enumerate(shape)) + 7919 * salt)


def rand_order(shape, seed):
    r = _rnd(shape, seed, 1)
    o = list(range(len(shape)))
    r.shuffle(o)
    return o


def keeps_f_layout(shape, order):
    """np.transpose(F-array, order) is still F-contiguous iff the non-singleton modes keep their relative order"""
    ns = [m for m in order if shape[m] != 1]
    return ns == sorted(ns)


def _random_table():
    ro = lambda b: np.array(rand_order(b.shape, b.seed))
    rdim = lambda b, salt=2: _rnd(b.shape, b.seed, salt).randrange(b.N)

    def rdims(b, salt=3):
        r = _rnd(b.shape, b.seed, salt)
        k = r.randrange(1, b.N) if b.N > 1 else 1
        return np.array(sorted(r.sample(range(b.N), k)))
    for cls, mk in (("tensor", "T"), ("sptensor", "S"), ("ktensor", "K"), ("ttensor", "TT")):
        reg(cls, "permute", "random-order", lambda b, mk=mk: dict(X=getattr(b, mk)(), order=ro(b)), lambda o: o.X.permute(o.order))
        reg(cls, "ttv", "random-dim", lambda b, mk=mk: dict(X=getattr(b, mk)(), v=b.vec(rdim(b))), lambda o, b: o.X.ttv(o.v, rdim(b)), shapes=NOSINGLE)
    for cls, mk in (("tensor", "T"), ("sptensor", "S"), ("ttensor", "TT")):
        reg(cls, "ttm", "random-dim", lambda b, mk=mk: dict(X=getattr(b, mk)(), M=b.mat(rdim(b, 4), 3)), lambda o, b: o.X.ttm(o.M, rdim(b, 4)))
    for cls, mk in (("tensor", "T"), ("sptensor", "S")):
        reg(cls, "collapse", "random-dims", lambda b, mk=mk: dict(X=getattr(b, mk)(), dims=rdims(b)), lambda o: o.X.collapse(o.dims))

        def key(b):
            r = _rnd(b.shape, b.seed, 5)
            out = []
            for s in b.shape:
                lo = r.randrange(s)
                out.append(slice(lo, r.randrange(lo + 1, s + 1)))
            return tuple(out)
        reg(cls, "__getitem__", "random-slices", lambda b, mk=mk: dict(X=getattr(b, mk)()), lambda o, b, key=key: o.X[key(b)])
    reg("tensor", "to_tenmat", "random-rdims", lambda b: dict(X=b.T(), r=rdims(b, 6)), lambda o: o.X.to_tenmat(o.r))
    reg("sptensor", "to_sptenmat", "random-rdims", lambda b: dict(X=b.S(), r=rdims(b, 6)), lambda o: o.X.to_sptenmat(o.r))
    reg("tensor", "scale", "random-dim", lambda b: dict(X=b.T(), f=b.vec(rdim(b, 7))), lambda o, b: o.X.scale(o.f, rdim(b, 7)))
    reg("sptensor", "scale", "random-dim", lambda b: dict(X=b.S(), f=b.vec(rdim(b, 7)), d=np.array([rdim(b, 7)])), lambda o: o.X.scale(o.f, o.d))


_random_table()

# ---- same object passed twice; empty operands -------------------------------------------------------------
def _degenerate_table():
    import operator as op
    for cls, mk in (("tensor", "T"), ("sptensor", "S"), ("ktensor", "K")):
        reg(cls, "__add__", "same-object-twice", X(mk), lambda o: o.X + o.X)
        reg(cls, "__sub__", "same-object-twice", X(mk), lambda o: o.X - o.X)
    reg("tensor", "__mul__", "same-object-twice", X("T"), lambda o: o.X * o.X)
    reg("sptensor", "__mul__", "same-object-twice", X("S"), lambda o: o.X * o.X)
    reg("tensor", "ttt", "same-object-twice", X("T"), lambda o: o.X.ttt(o.X))
    reg("tensor", "logical_and", "same-object-twice", X("T"), lambda o: o.X.logical_and(o.X))
    reg("sptensor", "logical_or", "same-object-twice", X("S"), lambda o: o.X.logical_or(o.X))
    reg("tenmat", "__add__", "same-object-twice", X("TM"), lambda o: o.X + o.X)
    empty = lambda b: b.ttb.sptensor(shape=b.shape)
    for nm, f in (("__add__", op.add), ("__sub__", op.sub), ("__mul__", op.mul)):
        reg("sptensor", nm, "empty-other", lambda b: dict(X=b.S(), Y=empty(b)), lambda o, f=f: f(o.X, o.Y))
        reg("sptensor", nm, "empty-receiver", lambda b: dict(X=empty(b), Y=b.S()), lambda o, f=f: f(o.X, o.Y))
    # (logical_and/or/xor with an empty sptensor raise ValueError in pyttb itself: not a C05 matter, not listed)
    reg("sptensor", "permute", "empty,reverse", lambda b: dict(X=empty(b), order=np.arange(b.N)[::-1].copy()), lambda o: o.X.permute(o.order), kind="scalar")
    reg("sptensor", "copy", "empty", lambda b: dict(X=empty(b)), lambda o: o.X.copy(), kind="scalar")
    reg("sptensor", "full", "empty", lambda b: dict(X=empty(b)), lambda o: o.X.full(), kind="scalar")
    reg("sptensor", "__pos__", "empty", lambda b: dict(X=empty(b)), lambda o: +o.X, kind="scalar")
    reg("sptensor", "ttv", "empty,single", lambda b: dict(X=empty(b), v=b.vec(0)), lambda o: o.X.ttv(o.v, 0), kind="scalar")
    reg("sptensor", "squeeze", "empty", lambda b: dict(X=empty(b)), lambda o: o.X.squeeze(), kind="scalar")
    reg("tensor", "to_sptensor", "all-zero", lambda b: dict(X=b.ttb.tenzeros(b.shape)), lambda o: o.X.to_sptensor())
    reg("sumtensor", "__init__", "copy=True,empty", lambda b: dict(), lambda o, b: b.ttb.sumtensor(), kind="scalar", shapes=CUBE)


_degenerate_table()

#TABLE-SECTIONS


# ------------------------------------------------------------------------------------------------------------
# enumeration of the public surface (fail closed on anything unlisted)
# ------------------------------------------------------------------------------------------------------------
def public_surface():
    import types
    import pyttb as ttb
    import pyttb.pyttb_utils as PU
    out = []
    for cn in CLASSES:
        cls = getattr(ttb, cn)
        names = [n for n in dir(cls) if not n.startswith("_")]
        for d in DUNDERS:
            if any(d in k.__dict__ for k in cls.__mro__[:-1]):
                names.append(d)
        out += [(cn, n) for n in names]
        out.append((cn, "__init__"))
        if cn == "sumtensor":
            out.append((cn, "parts"))      # instance attribute (no slot): not visible in dir(class)
    for n in sorted(dir(ttb)):
        a = getattr(ttb, n)
        if n.startswith("_") or isinstance(a, types.ModuleType) or isinstance(a, type) or not callable(a):
            continue
        if n == "annotations":
            continue
        out.append(("ttb", n))
    for n in sorted(dir(PU)):
        a = getattr(PU, n)
        if n.startswith("_") or not callable(a) or getattr(a, "__module__", None) != PU.__name__ or isinstance(a, type):
            continue
        out.append(("utils", n))
    return out


def _has_operand_array(e, shp, sd):
    try:
        ops = e["build"](B(shp, sd))
        return any(a.size > 0 for _p, a in U.arrays_of(np, list(ops.items())))
    except Exception:
        return False


def gen_cases(rng, tier):
    big = tier == "thorough"
    cases = []
    surface = public_surface()
    for ns, name in surface:
        ents = TABLE.get((ns, name))
        if not ents:
            cases.append(Case("unlisted", {"ns": ns, "name": name}, False))
            continue
        for e in ents:
            if e["kind"] == "skip":
                continue
            shapes = list(e["shapes"] or SHAPES)
            if big and e["tshapes"]:
                shapes += SHAPES_THOROUGH
            seeds = [0] + ([rng.randrange(1, 100000) for _ in range(4)] if big else [])
            for shp in shapes:
                for sd in seeds:
                    nt = e["kind"] in ("pure", "inplace", "nocopy") and _has_operand_array(e, shp, sd)
                    cases.append(Case(f"{ns}.{name}", {"pclass": e["pclass"], "shape": list(shp), "seed": sd, "kind": e["kind"]}, nt))
    # table entries whose name no longer exists are reported too (stale table = the surface changed)
    have = set(surface)
    for key in TABLE:
        if key not in have:
            cases.append(Case("stale", {"ns": key[0], "name": key[1]}, False))
    return cases


def find_entry(c):
    ns, name = c.op.split(".", 1)
    for e in TABLE.get((ns, name), []):
        if e["pclass"] == c.args["pclass"]:
            return e
    return None


def _invoke(f, ops, b):
    nreq = f.__code__.co_argcount - len(f.__defaults__ or ())
    return f(ops, b) if nreq == 2 else f(ops)


def run_impl(c):
    import logging
    import warnings
    warnings.filterwarnings("ignore")
    logging.disable(logging.CRITICAL)
    if c.op in ("unlisted", "stale"):
        return {"unlisted": True}
    e = find_entry(c)
    if e is None:
        return {"exc": "NoEntry"}
    b = B(c.args["shape"], c.args.get("seed", 0))
    np.random.seed(12345)
    import contextlib
    import io
    try:
        with contextlib.redirect_stdout(io.StringIO()):
            o = U.measure(np, lambda: AD(e["build"](b)), lambda ops: _invoke(e["call"], ops, b),
                          receiver=e["recv"])
    except Exception as ex:
        import traceback
        return {"exc": type(ex).__name__, "msg": str(ex)[:300], "tb": traceback.format_exc()[-600:]}
    o["kind"] = e["kind"]
    o["recv"] = e["recv"]
    return o


def _under(path, name):
    return path == name or path.startswith(name + ".") or path.startswith(name + "[") or path.startswith(name + "#")


def bits(o):
    """(unchanged, disjoint, vis_result, vis_operand) of an observation; receiver paths excluded for in-place ops"""
    recv = o.get("recv")
    changed = [p for p in o["changed"] if not (recv and _under(p, recv))]
    return (not changed, not o["shared"], bool(o["vis_result"]), bool(o["vis_operand"]))


KIND_COQ = {"pure": "KPure", "scalar": "KPure", "property": "KPure", "inplace": "KInplace", "nocopy": "KNoCopy", "attr": "KNoCopy"}


def coq_check(c, o):
    if c.op in ("unlisted", "stale") or "exc" in o:
        return "false"
    u, d, vr, vo = bits(o)
    g = lambda x: "true" if x else "false"
    return f"row_check (mkRow {KIND_COQ[o['kind']]} {g(u)} {g(d)} {g(vr)} {g(vo)})"


def oracle(c, o):
    """independent restatement on the raw observation (paths and digests), without the Coq table"""
    if c.op == "unlisted":
        return None          # not a property violation by itself: the table is incomplete (fail closed)
    if c.op == "stale":
        return None
    if "exc" in o:
        return None
    recv = o.get("recv")
    msgs = []
    for p in o["changed"]:
        if recv and _under(p, recv):
            continue
        msgs.append(f"operand modified: {p} {o['before'].get(p)} -> {o['after'].get(p)}")
    if o["kind"] not in ("nocopy", "attr"):
        for pr, po in o["shared"]:
            msgs.append(f"result aliases operand: {pr} shares storage with {po}")
        for p in o["vis_result"]:
            msgs.append(f"in-place write through the result is visible in operand {p}")
        for p in o["vis_operand"]:
            msgs.append(f"in-place write through an operand is visible in {p}")
    return "; ".join(msgs[:6]) if msgs else None


TRIGGERS = {}
WITNESSES = {}

# ------------------------------------------------------------------------------------------------------------
# known findings: trigger = exactly (operation, parameter class); witness = minimal replay on pyttb
# ------------------------------------------------------------------------------------------------------------
def _trig(*pairs):
    allowed = set(pairs)
    return lambda c: (c.op, c.args.get("pclass")) in allowed


# open (known) findings only. Repaired in /repo and therefore without trigger/witness (a regression is reported):
# A-18 (2c488d8), A-19 (05ae91c), A-20 (c5cca04), A-21 (eaab1d3), A-22 (2271d4e), A-23 (1faa4aa), A-25 (e8f8528),
# C05-N01 (9da7cbd), N02 (5de610a), N03 (a809e3d), N04 (d1f4c19), N05 (6294fd3), N06 (d564eea), N07 (a86915b), N09 (03905f9).
FINDING_CLASSES = {
    "A-24": [("ttb.gcp_opt", "lbfgsb,init=ktensor"), ("ttb.gcp_opt", "lbfgsb,init=ktensor,mask"), ("ttb.gcp_opt", "adam,init=ktensor,dense")],
    "A-26": [("sumtensor.__add__", "tensor"), ("sumtensor.__add__", "ktensor"), ("sumtensor.__add__", "list"),
             ("sumtensor.__radd__", "tensor"), ("sumtensor.__radd__", "sptensor")],
    "C05-N08": [("ttb.cp_als", "echo,init=ktensor"), ("ttb.cp_apr", "echo,init=ktensor"), ("ttb.tucker_als", "echo,init=list")],
    "C05-N10": [("ttb.gcp_opt", "sgd,optimizer-tracked,init=list"), ("ttb.gcp_opt", "adam,optimizer-tracked,init=list"),
                ("ttb.gcp_opt", "adagrad,optimizer-tracked,init=list")],
}
TRIGGERS = {"c05_" + fid.replace("-", "_").lower(): _trig(*pairs) for fid, pairs in FINDING_CLASSES.items()}


def _witness(fid):
    """replay every (op, parameter class) of the finding on shape-default operands; describe what still fails"""
    def run():
        import pyttb  # noqa: F401  (vcheck.import_pyttb() has put PYTTB_SRC first on sys.path)
        bad = []
        for op, pclass in FINDING_CLASSES[fid]:
            ns, name = op.split(".", 1)
            e = next(x for x in TABLE[(ns, name)] if x["pclass"] == pclass)
            shp = (e["shapes"] or SHAPES)[0]
            c = Case(op, {"pclass": pclass, "shape": list(shp), "seed": 0, "kind": e["kind"]})
            o = run_impl(c)
            if "exc" in o:
                bad.append(f"{op}[{pclass}] raised {o['exc']}")
                continue
            why = oracle(c, o)
            if why:
                bad.append(f"{op}[{pclass}] shape {tuple(shp)}: {why[:160]}")
        return "; ".join(bad) if bad else None
    return run


WITNESSES = {fid: _witness(fid) for fid in FINDING_CLASSES}

#FINDINGS-SECTION
