"""W4S slice for C13, third part: the driver gcp_opt — to be INCLUDEd by tools/props/c13.py
(`INCLUDE = ["w4s_c13", "w4s_c13b", "w4s_c13c"]`): generated unit GenGcpOpt (pyttb/gcp_opt.py::gcp_opt and _get_initial_guess, whole
functions), theorem files Props/W4SC13c.v and Props/W4SC13d.v (bridge to the hand decision procedure Alg/C13Driver.v), differential op sk_gcp_opt (stub solvers)."""
from props import w4s as _w

PROP = "W4S"
LEVEL = _w.LEVEL
GEN_UNITS = ['GenGcpOpt']
COQ_TARGETS = ['Props/W4SC13c.vo', 'Props/W4SC13d.vo'] + ['Model/W4SHarnessGcpOpt.vo']
THEOREM_FILES = ['Props/W4SC13c.v', 'Props/W4SC13d.v']
COQ_IMPORTS = ("From Coq Require Import List ZArith Bool.\n"
               "From PV Require Import Model.W4SHarnessGcpOpt.\n")
RULE = _w.RULE
EXPLANATION = _w.EXPLANATION
CORRESPONDENCE_ONLY = []
TRUSTED_EXTRA = _w.TRUSTED_EXTRA
SHARD = _w.SHARD
_OPS = ('sk_gcp_opt',)


def gen_cases(rng, tier):
    return _w._gcp_opt_cases(rng, tier == "thorough")


run_impl = _w.run_impl
coq_check = _w.coq_check
oracle = _w.oracle
