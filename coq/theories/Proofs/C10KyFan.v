(* Proofs/C10KyFan.v — wave 5: KY-FAN MAXIMALITY of the leading eigenvectors, proved (it was a hypothesis of every HOOI theorem so far).
   For a dense real tensor Z, a mode n of size I, an orthogonal I x I matrix W with  G W = W diag(mu)  for the mode-n Gram matrix G of Z and
   mu in descending order: the first r columns of W capture at least as much of ||Z x_n M^T||^2 as ANY I x r matrix M with orthonormal
   columns (kyfan_energy).  Steps:  ||Z x_n M^T||^2 = sum_j m_j^T G m_j (energy_gram);  G = W diag(mu) W^T (gram_spectral);
   m^T G m = sum_c mu_c (w_c . m)^2;  kappa_c = sum_j (w_c . m_j)^2 lies in [0,1] (Bessel) and sums to r (Parseval);
   sum_c mu_c kappa_c <= sum_{c<r} mu_c (kyfan_weights).
   Consequence (nvecs_eigen_step_opt): the per-run contract step_opt of Proofs/C10GenT.v follows from the eigen-solver contract of nvecs. *)
From Coq Require Import String List Arith Lia Bool ZArith Reals Lra Psatz Permutation.
From PV Require Import Base.Index Base.Sum Np.Array Np.NpR Model.Sparse Model.Repr Model.C10Tucker Model.C14Nvecs
                       Proofs.C14Sums Proofs.C14Split Proofs.C14GramSp Proofs.C10Ttm Proofs.C10Proofs Proofs.C10Spectral Proofs.C10Proj
                       Proofs.C10ProjR Proofs.C10Recon Proofs.C10Concrete Proofs.C10Rayleigh Proofs.C10Isometry Proofs.C10Seq Proofs.C10Fit
                       Model.W4SPrelude Gen.GenTuckerAls Model.C10Loop Proofs.C10LoopProofs Proofs.W4SHosvdR Proofs.W4STucker Proofs.C10GenT.
Import ListNotations.
Local Open Scope R_scope.

Notation SNR := (sum_n 0 Rplus).
Notation SOR := (sum_over 0 Rplus).

(* ---------------------------------------------------------------------------------------- *)
(* 1. finite real sums                                                                        *)
(* ---------------------------------------------------------------------------------------- *)
Lemma snr_S n f : SNR (S n) f = SNR n f + f n.
Proof. apply (sum_n_S R 0 1 Rplus Rmult Rminus Ropp RTheory). Qed.

Lemma snr_le n f g : (forall k, (k < n)%nat -> f k <= g k) -> SNR n f <= SNR n g.
Proof.
  induction n as [|n IH]; intros H; [apply Rle_refl|]. rewrite !snr_S.
  apply Rplus_le_compat; [apply IH; intros k Hk; apply H; lia|apply H; lia].
Qed.

Lemma snr_nonneg n f : (forall k, (k < n)%nat -> 0 <= f k) -> 0 <= SNR n f.
Proof.
  induction n as [|n IH]; intros H; [apply Rle_refl|]. rewrite snr_S.
  apply Rplus_le_le_0_compat; [apply IH; intros k Hk; apply H; lia|apply H; lia].
Qed.

Lemma snr_split r q f : SNR (r + q) f = SNR r f + SNR q (fun x => f (r + x)%nat).
Proof.
  induction q as [|q IH].
  - rewrite Nat.add_0_r. cbn. lra.
  - replace (r + S q)%nat with (S (r + q)) by lia. rewrite !snr_S, IH. lra.
Qed.

(* sum (f - g)^2 = sum f^2 - 2 sum f g + sum g^2 *)
Lemma snr_sq_sub n f g :
  SNR n (fun a => (f a - g a) * (f a - g a)) = SNR n (fun a => f a * f a) - 2 * SNR n (fun a => f a * g a) + SNR n (fun a => g a * g a).
Proof. induction n as [|n IH]; [cbn; lra|]. rewrite !snr_S, IH. lra. Qed.

(* weights kappa in [0,1] summing to r against a descending sequence: at most the sum of the r leading values *)
Lemma kyfan_head p (mu kappa : nat -> R) : forall r, (forall c, (c < r)%nat -> p <= mu c /\ kappa c <= 1) ->
  SNR r (fun c => mu c * kappa c) + p * (INR r - SNR r kappa) <= SNR r mu.
Proof.
  induction r as [|r IH]; intros H; [cbn; lra|]. rewrite !snr_S, S_INR.
  destruct (H r ltac:(lia)) as (A & B). specialize (IH ltac:(intros c Hc; apply H; lia)). nra.
Qed.

Lemma kyfan_tail p (mu kappa : nat -> R) : forall q, (forall c, (c < q)%nat -> mu c <= p /\ 0 <= kappa c) ->
  SNR q (fun c => mu c * kappa c) <= p * SNR q kappa.
Proof.
  induction q as [|q IH]; intros H; [cbn; lra|]. rewrite !snr_S.
  destruct (H q ltac:(lia)) as (A & B). specialize (IH ltac:(intros c Hc; apply H; lia)). nra.
Qed.

Theorem kyfan_weights (I r : nat) (mu kappa : nat -> R) : (r <= I)%nat ->
  (forall c c', (c <= c')%nat -> (c' < I)%nat -> mu c' <= mu c) ->
  (forall c, (c < I)%nat -> 0 <= kappa c <= 1) -> SNR I kappa = INR r ->
  SNR I (fun c => mu c * kappa c) <= SNR r mu.
Proof.
  intros Hr Hd Hk Hs. set (p := match r with O => mu 0%nat | S r' => mu r' end).
  replace I with (r + (I - r))%nat in Hs |- * by lia.
  rewrite snr_split in Hs. rewrite (snr_split r (I - r) (fun c => mu c * kappa c)).
  pose proof (kyfan_head p mu kappa r) as A. pose proof (kyfan_tail p (fun x => mu (r + x)%nat) (fun x => kappa (r + x)%nat) (I - r)) as B.
  cbv beta in B.
  assert (HA : forall c, (c < r)%nat -> p <= mu c /\ kappa c <= 1).
  { intros c Hc. split; [|apply Hk; lia]. unfold p. destruct r as [|r']; [lia|]. apply Hd; lia. }
  assert (HB : forall c, (c < I - r)%nat -> mu (r + c)%nat <= p /\ 0 <= kappa (r + c)%nat).
  { intros c Hc. split; [|apply Hk; lia]. unfold p. destruct r as [|r']; apply Hd; lia. }
  specialize (A HA). specialize (B HB).
  set (Kq := SNR (I - r) (fun x => kappa (r + x)%nat)) in *. set (Kr := SNR r kappa) in *.
  assert (INR r - Kr = Kq) by lra. rewrite H in A. lra.
Qed.

(* function-level isometry: columns u(.,p), p < r, orthonormal in R^I *)
Lemma iso_dot_fn I r (u : nat -> nat -> R) (z w : nat -> R) :
  (forall p q, (p < r)%nat -> (q < r)%nat -> SNR I (fun x => u x p * u x q) = if Nat.eqb p q then 1 else 0) ->
  SNR I (fun x => SNR r (fun p => u x p * z p) * SNR r (fun q => u x q * w q)) = SNR r (fun p => z p * w p).
Proof.
  intros Ho.
  transitivity (SNR I (fun x => SNR r (fun p => SNR r (fun q => (u x p * z p) * (u x q * w q))))).
  { apply sum_n_ext. intros x _. apply (sum_n_mul_sum R 0 1 Rplus Rmult Rminus Ropp RTheory). }
  rewrite (sum_n_swap R 0 1 Rplus Rmult Rminus Ropp RTheory). apply sum_n_ext. intros p Hp.
  rewrite (sum_n_swap R 0 1 Rplus Rmult Rminus Ropp RTheory).
  transitivity (SNR r (fun q => (z p * w q) * (if Nat.eqb p q then 1 else 0))).
  { apply sum_n_ext. intros q Hq. rewrite <- (Ho p q Hp Hq).
    rewrite <- (sum_n_scale_l R 0 1 Rplus Rmult Rminus Ropp RTheory). apply sum_n_ext. intros x _. ring. }
  apply (sum_n_delta R 0 1 Rplus Rmult Rminus Ropp RTheory r p (fun q => z p * w q)). exact Hp.
Qed.

(* Bessel: the squared coefficients of w on r orthonormal vectors sum to at most |w|^2 *)
Lemma bessel I r (u : nat -> nat -> R) (w : nat -> R) :
  (forall p q, (p < r)%nat -> (q < r)%nat -> SNR I (fun x => u x p * u x q) = if Nat.eqb p q then 1 else 0) ->
  SNR r (fun j => SNR I (fun a => w a * u a j) * SNR I (fun a => w a * u a j)) <= SNR I (fun a => w a * w a).
Proof.
  intros Ho. set (beta := fun j => SNR I (fun a => w a * u a j)). set (v := fun a => SNR r (fun j => u a j * beta j)).
  assert (Hvv : SNR I (fun a => v a * v a) = SNR r (fun j => beta j * beta j)) by (apply iso_dot_fn; exact Ho).
  assert (Hwv : SNR I (fun a => w a * v a) = SNR r (fun j => beta j * beta j)).
  { unfold v. transitivity (SNR I (fun a => SNR r (fun j => (w a * u a j) * beta j))).
    { apply sum_n_ext. intros a _. rewrite <- (sum_n_scale_l R 0 1 Rplus Rmult Rminus Ropp RTheory). apply sum_n_ext. intros j _. ring. }
    rewrite (sum_n_swap R 0 1 Rplus Rmult Rminus Ropp RTheory). apply sum_n_ext. intros j _.
    rewrite (sum_n_scale_r R 0 1 Rplus Rmult Rminus Ropp RTheory). reflexivity. }
  assert (Hpos : 0 <= SNR I (fun a => (w a - v a) * (w a - v a))).
  { apply snr_nonneg. intros k _. exact (Rle_0_sqr (w k - v k)). }
  rewrite snr_sq_sub, Hvv, Hwv in Hpos. change (SNR r (fun j => beta j * beta j) <= SNR I (fun a => w a * w a)). lra.
Qed.

Lemma snr_const n c : SNR n (fun _ => c) = INR n * c.
Proof. induction n as [|n IH]; [cbn; lra|]. rewrite snr_S, IH, S_INR. lra. Qed.

Lemma tri_swap p q t (f : nat -> nat -> nat -> R) :
  SNR p (fun c => SNR q (fun a => SNR t (fun b => f c a b))) = SNR q (fun a => SNR t (fun b => SNR p (fun c => f c a b))).
Proof.
  rewrite (sum_n_swap R 0 1 Rplus Rmult Rminus Ropp RTheory). apply sum_n_ext. intros a _.
  apply (sum_n_swap R 0 1 Rplus Rmult Rminus Ropp RTheory).
Qed.

(* ---------------------------------------------------------------------------------------- *)
(* 2. Ky-Fan for a symmetric "Gram" function G with an orthogonal eigen-decomposition           *)
(* ---------------------------------------------------------------------------------------- *)
Section KyFanMatrix.
Variables (I r : nat) (G : nat -> nat -> R) (W M : @matrix R) (mu : nat -> R).
Notation w := (mget 0 W).
Notation m := (mget 0 M).
Hypothesis Hr : (r <= I)%nat.
Hypothesis HWc : orthocolsR I I W.
Hypothesis HWr : orthorowsR I W.
Hypothesis HE : forall a j, (a < I)%nat -> (j < I)%nat -> SNR I (fun c => G a c * w c j) = mu j * w a j.
Hypothesis Hdesc : forall c c', (c <= c')%nat -> (c' < I)%nat -> mu c' <= mu c.

(* G = W diag(mu) W^T *)
Lemma gram_spectral a b : (a < I)%nat -> (b < I)%nat -> G a b = SNR I (fun c => mu c * w a c * w b c).
Proof.
  intros Ha Hb.
  rewrite <- (sum_n_delta R 0 1 Rplus Rmult Rminus Ropp RTheory I b (fun b' => G a b') Hb).
  transitivity (SNR I (fun b' => SNR I (fun c => G a b' * (w b c * w b' c)))).
  { apply sum_n_ext. intros b' Hb'. rewrite (sum_n_scale_l R 0 1 Rplus Rmult Rminus Ropp RTheory). f_equal.
    symmetry. apply HWr; assumption. }
  rewrite (sum_n_swap R 0 1 Rplus Rmult Rminus Ropp RTheory). apply sum_n_ext. intros c Hc.
  rewrite <- (HE a c Ha Hc). rewrite <- (sum_n_scale_r R 0 1 Rplus Rmult Rminus Ropp RTheory).
  apply sum_n_ext. intros b' _. ring.
Qed.

(* the quadratic form of G in the eigen-basis *)
Definition quad (v : nat -> R) : R := SNR I (fun a => SNR I (fun b => v a * v b * G a b)).
Definition coef (v : nat -> R) (c : nat) : R := SNR I (fun a => w a c * v a).

Lemma quad_spectral v : quad v = SNR I (fun c => mu c * (coef v c * coef v c)).
Proof.
  unfold quad, coef.
  transitivity (SNR I (fun a => SNR I (fun b => SNR I (fun c => mu c * ((w a c * v a) * (w b c * v b)))))).
  { apply sum_n_ext. intros a Ha. apply sum_n_ext. intros b Hb. rewrite (gram_spectral a b Ha Hb).
    rewrite <- (sum_n_scale_l R 0 1 Rplus Rmult Rminus Ropp RTheory). apply sum_n_ext. intros c _. ring. }
  rewrite <- (tri_swap I I I (fun c a b => mu c * ((w a c * v a) * (w b c * v b)))).
  apply sum_n_ext. intros c _.
  rewrite (sum_n_mul_sum R 0 1 Rplus Rmult Rminus Ropp RTheory).
  rewrite <- (sum_n_scale_l R 0 1 Rplus Rmult Rminus Ropp RTheory). apply sum_n_ext. intros a _.
  now rewrite <- (sum_n_scale_l R 0 1 Rplus Rmult Rminus Ropp RTheory).
Qed.

(* energy captured by the columns of a matrix *)
Definition cap (A : @matrix R) : R := SNR r (fun j => quad (fun a => mget 0 A a j)).
Definition kap (A : @matrix R) (c : nat) : R := SNR r (fun j => coef (fun a => mget 0 A a j) c * coef (fun a => mget 0 A a j) c).

Lemma cap_kap A : cap A = SNR I (fun c => mu c * kap A c).
Proof.
  unfold cap, kap. transitivity (SNR r (fun j => SNR I (fun c => mu c * (coef (fun a => mget 0 A a j) c * coef (fun a => mget 0 A a j) c)))).
  { apply sum_n_ext. intros j _. apply quad_spectral. }
  rewrite (sum_n_swap R 0 1 Rplus Rmult Rminus Ropp RTheory). apply sum_n_ext. intros c _.
  now rewrite (sum_n_scale_l R 0 1 Rplus Rmult Rminus Ropp RTheory).
Qed.

Hypothesis HM : orthocolsR I r M.

Lemma kap_range c : (c < I)%nat -> 0 <= kap M c <= 1.
Proof.
  intros Hc. split.
  - apply snr_nonneg. intros j _. apply Rle_0_sqr.
  - unfold kap, coef.
    replace 1 with (SNR I (fun a => w a c * w a c)) by (rewrite (HWc c c Hc Hc); now rewrite Nat.eqb_refl).
    apply (bessel I r (fun a j => m a j) (fun a => w a c)). intros p q Hp Hq. apply HM; assumption.
Qed.

Lemma kap_sum : SNR I (kap M) = INR r.
Proof.
  unfold kap. rewrite (sum_n_swap R 0 1 Rplus Rmult Rminus Ropp RTheory).
  rewrite <- (Rmult_1_r (INR r)), <- snr_const. apply sum_n_ext. intros j Hj.
  unfold coef. rewrite (iso_dot_fn I I (fun c a => w a c) (fun a => m a j) (fun a => m a j)).
  - rewrite (HM j j Hj Hj). now rewrite Nat.eqb_refl.
  - intros p q Hp Hq. apply HWr; assumption.
Qed.

Lemma cap_leading : cap (leading R r W) = SNR r mu.
Proof.
  unfold cap. apply sum_n_ext. intros j Hj. rewrite quad_spectral.
  transitivity (SNR I (fun c => mu c * (if Nat.eqb j c then 1 else 0))).
  { apply sum_n_ext. intros c Hc.
    assert (E : coef (fun a => mget 0 (leading R r W) a j) c = if Nat.eqb j c then 1 else 0).
    { unfold coef. rewrite <- (HWc j c ltac:(lia) Hc). apply sum_n_ext. intros a _. rewrite (mget_leading R 0) by exact Hj. ring. }
    rewrite E. destruct (Nat.eqb j c); ring. }
  apply (sum_n_delta R 0 1 Rplus Rmult Rminus Ropp RTheory I j mu). lia.
Qed.

Theorem kyfan_matrix : cap M <= cap (leading R r W).
Proof.
  rewrite cap_leading, cap_kap. apply (kyfan_weights I r mu (kap M) Hr Hdesc); [exact kap_range|exact kap_sum].
Qed.
End KyFanMatrix.

(* ---------------------------------------------------------------------------------------- *)
(* 3. tensors: ||Z x_n M^T||^2 through the mode-n Gram matrix of Z                              *)
(* ---------------------------------------------------------------------------------------- *)
Theorem energy_gram (Z : dense R) (n I r : nat) (M : @matrix R) :
  let s := dshape Z in
  (n < length s)%nat -> I = nth n s 0%nat ->
  normsqR (ttm 0 Rplus Rmult Z n (mtrans 0 M I r)) =
  SNR r (fun j => SNR I (fun a => SNR I (fun b => mget 0 M a j * mget 0 M b j * gramR s Z n a b))).
Proof.
  intros s Hn HI. set (Mt := mtrans 0 M I r). set (T := ttm 0 Rplus Rmult Z n Mt).
  assert (HrM : nrows Mt = r) by (unfold Mt, nrows, mtrans; now rewrite map_length, seq_length).
  set (s' := set_nth n r s).
  assert (HsT : dshape T = s') by (unfold T; rewrite (dshape_ttm R 0 Rplus Rmult), HrM; reflexivity).
  assert (Ls : length s' = length s) by (unfold s'; now apply length_set_nth).
  assert (Hks : nth n s' 0%nat = r) by (unfold s'; now apply nth_set_nth_same).
  assert (Hrest : remove_nth n s' = remove_nth n s) by (unfold s'; now apply remove_set_nth_same).
  unfold normsqR, innerR, C10Proj.dinner. rewrite HsT.
  rewrite (sum_allsubs_split R 0 1 Rplus Rmult Rminus Ropp RTheory s' n _ ltac:(lia)). rewrite Hks, Hrest.
  apply sum_n_ext. intros j Hj. set (rest := remove_nth n s).
  transitivity (SOR (allsubs rest) (fun i => SNR I (fun a => SNR I (fun b =>
                   (mget 0 M a j * den_dense 0 Z (insert_at n a i)) * (mget 0 M b j * den_dense 0 Z (insert_at n b i)))))).
  { apply sum_over_ext. intros i Hi. apply in_allsubs in Hi. pose proof (inb_length _ _ Hi) as L.
    unfold rest in L. rewrite remove_nth_length in L by exact Hn.
    assert (Hin : inb s' (insert_at n j i) = true).
    { apply inb_insert; [lia|now rewrite Hks|now rewrite Hrest]. }
    assert (E : den_dense 0 T (insert_at n j i) = SNR I (fun a => mget 0 M a j * den_dense 0 Z (insert_at n a i))).
    { unfold T. rewrite (den_ttm R 0 Rplus Rmult) by (rewrite HrM; exact Hin). unfold ttm_den. fold s. rewrite <- HI.
      apply sum_n_ext. intros a Ha. rewrite nth_insert_at by lia. rewrite set_nth_insert by lia. f_equal.
      unfold Mt. change (mtrans 0 M I r) with (mtab r I (fun j0 i0 => mget 0 M i0 j0)). now rewrite mget_mtab by auto. }
    rewrite E. apply (sum_n_mul_sum R 0 1 Rplus Rmult Rminus Ropp RTheory). }
  unfold sum_n at 1. rewrite (sum_over_swap R 0 1 Rplus Rmult Rminus Ropp RTheory). apply sum_n_ext. intros a _.
  unfold sum_n at 1. rewrite (sum_over_swap R 0 1 Rplus Rmult Rminus Ropp RTheory). apply sum_n_ext. intros b _.
  unfold gramR, gram_spec. fold rest. rewrite <- (sum_over_scale_l R 0 1 Rplus Rmult Rminus Ropp RTheory).
  apply sum_over_ext. intros i _. ring.
Qed.

(* KY-FAN MAXIMALITY for dense real tensors *)
Theorem kyfan_energy (Z : dense R) (n r : nat) (W M : @matrix R) (mu : list R) :
  let s := dshape Z in let I := nth n s 0%nat in
  (n < length s)%nat -> (r <= I)%nat ->
  orthocolsR I I W -> orthorowsR I W -> eigen_eq s n Z W mu ->
  (forall c c', (c <= c')%nat -> (c' < I)%nat -> nth c' mu 0 <= nth c mu 0) ->
  orthocolsR I r M ->
  normsqR (ttm 0 Rplus Rmult Z n (mtrans 0 M I r)) <= normsqR (ttm 0 Rplus Rmult Z n (mtrans 0 (leading R r W) I r)).
Proof.
  intros s I Hn Hr HWc HWr HE Hd HM.
  rewrite !(energy_gram Z n I r) by (auto; reflexivity). fold s.
  exact (kyfan_matrix I r (gramR s Z n) W M (fun c => nth c mu 0) Hr HWc HWr HE Hd HM).
Qed.

(* ---------------------------------------------------------------------------------------- *)
(* 4. the per-run contract of Proofs/C10GenT.v from the EIGEN-SOLVER contract of nvecs          *)
(* ---------------------------------------------------------------------------------------- *)
Lemma ttm_skip_shape Ms : forall (Z : dense R) m n, (m + length Ms <= length (dshape Z))%nat ->
  length (dshape (ttm_skip Z m Ms n)) = length (dshape Z) /\
  nth n (dshape (ttm_skip Z m Ms n)) 0%nat = nth n (dshape Z) 0%nat.
Proof.
  induction Ms as [|M0 Ms IH]; intros Z m n H; cbn [ttm_skip length] in *; [split; reflexivity|].
  destruct (Nat.eqb_spec m n) as [E|Hne].
  - apply IH. lia.
  - destruct (IH (ttm 0 Rplus Rmult Z m M0) (S m) n) as (A & B).
    { rewrite (ndims_ttm R 0 Rplus Rmult) by lia. lia. }
    split; [rewrite A; apply (ndims_ttm R 0 Rplus Rmult); lia|]. rewrite B.
    apply (nth_dshape_ttm_other R 0 Rplus Rmult); [lia|congruence].
Qed.

Lemma excl_shape X (Us : list (@matrix R)) n : length Us = length (dshape X) ->
  length (dshape (excl X Us n)) = length (dshape X) /\ nth n (dshape (excl X Us n)) 0%nat = nth n (dshape X) 0%nat.
Proof.
  intros HL. unfold excl. apply ttm_skip_shape. unfold transposed. rewrite map_length. lia.
Qed.

Lemma leading_ortho I r (W : @matrix R) : (r <= I)%nat -> orthocolsR I I W -> orthocolsR I r (leading R r W).
Proof.
  intros Hr Ho j l Hj Hl. rewrite <- (Ho j l ltac:(lia) ltac:(lia)). apply sum_n_ext. intros k _.
  now rewrite !(mget_leading R 0) by assumption.
Qed.

Section EigenContract.
Variable k_nvecs : dense R -> nat -> nat -> @matrix R.
Variables (X : dense R) (rank : list nat).
Notation s := (dshape X).
Notation d := (length (dshape X)).

(* the eigen-solver contract of ONE call Utilde.nvecs(n, rank[n]), Utilde = excl X U n: there are an orthogonal W and descending mu with
   G W = W diag(mu) for the mode-n Gram matrix G of Utilde, and the answer is W[:, 0:rank[n]] *)
Definition nvecs_eigen (U : list (@matrix R)) (n : nat) : Prop :=
  let Z := excl X U n in let I := nth n s 0%nat in let r := nth n rank 0%nat in
  exists (W : @matrix R) (mu : list R),
    (r <= I)%nat /\ nrows W = I /\ orthocolsR I I W /\ orthorowsR I W /\ eigen_eq (dshape Z) n Z W mu /\
    (forall c c', (c <= c')%nat -> (c' < I)%nat -> nth c' mu 0 <= nth c mu 0) /\
    k_nvecs Z n r = leading R r W /\ ncols (leading R r W) = r.

Theorem nvecs_eigen_step_both U n : (n < d)%nat -> length U = d -> nvecs_eigen U n -> step_both k_nvecs X rank U n.
Proof.
  intros Hn HL (W & mu & Hr & HrW & HWc & HWr & HE & Hd & Hk & Hnc).
  destruct (excl_shape X U n HL) as (Lz & Iz).
  assert (Hg : good_factor X rank n (leading R (nth n rank 0%nat) W)).
  { split; [unfold leading, nrows; rewrite map_length; exact HrW|]. split; [exact Hnc|]. apply leading_ortho; assumption. }
  split.
  - unfold step_ortho. rewrite Hk. exact Hg.
  - unfold step_opt. intros (G1 & G2 & G3). unfold energy_at. rewrite Hk.
    destruct Hg as (H1 & H2 & _). rewrite G1, G2, H1, H2. rewrite <- Iz in *.
    apply (kyfan_energy (excl X U n) n (nth n rank 0%nat) W (nth n U []) mu); auto. lia.
Qed.
End EigenContract.

(* contracts may be exchanged along a run when the implication holds at lists of the run's length and modes of dimorder *)
Section ImplCond.
Variables Fac Ut : Type.
Variable project : list Fac -> nat -> Ut.
Variable nvecs : Ut -> nat -> nat -> Fac.
Variables (rank dimorder : list nat) (L : nat) (P Q : list Fac -> nat -> Prop).
Hypothesis HPQ : forall U n, In n dimorder -> length U = L -> P U n -> Q U n.

Lemma inner_ok_impl_cond : forall order, incl order dimorder -> forall U, length U = L ->
  inner_ok Fac Ut project nvecs rank P order U -> inner_ok Fac Ut project nvecs rank Q order U.
Proof.
  induction order as [|n order IH]; intros Hi U HL H; [exact I|]. destruct H as (H1 & H2).
  split; [apply HPQ; auto; apply Hi; now left|]. apply IH; [intros x Hx; apply Hi; now right|now rewrite upd_length|exact H2].
Qed.

Lemma sweeps_ok_impl_cond : forall j U, length U = L ->
  sweeps_ok Fac Ut project nvecs rank dimorder P j U -> sweeps_ok Fac Ut project nvecs rank dimorder Q j U.
Proof.
  induction j as [|j IH]; intros U HL H; [exact I|]. destruct H as (H1 & H2).
  split; [apply inner_ok_impl_cond; auto; apply incl_refl|]. apply IH; [|exact H2].
  unfold sweep. rewrite (proj1 (tals_inner_last Fac Ut project nvecs rank dimorder U None)). exact HL.
Qed.
End ImplCond.

(* THE TUCKER-ALS CLAUSES over the generated function under the EIGEN-SOLVER contract of nvecs (no optimality hypothesis left) *)
Section GenTEigen.
Variable k_ttm_excl : dense R -> list (@matrix R) -> nat -> bool -> dense R.
Variable k_nvecs : dense R -> nat -> nat -> @matrix R.
Variable k_ttm_core : dense R -> list (@matrix R) -> nat -> bool -> dense R.
Variable k_resid : R -> dense R -> R.
Variable k_fit : R -> R -> R.
Variable k_absdiff : R -> R -> R.
Variable k_ttensor : dense R -> list (@matrix R) -> bool -> ttensor R.
Hypothesis excl_spec : forall X U n, k_ttm_excl X U n true = excl X U n.
Hypothesis core_spec : forall Z U n, k_ttm_core Z U n true = ttm 0 Rplus Rmult Z n (mtrans 0 (nth n U []) (nrows (nth n U [])) (ncols (nth n U []))).
Hypothesis resid_spec : forall nX c, k_resid nX c = sqrt (Rabs (nX * nX - normsqR c)).
Hypothesis fit_spec : forall nr nX, k_fit nr nX = 1 - nr / nX.
Hypothesis ttensor_spec : forall c U, k_ttensor c U false = mkT c U.

Theorem gen_tals_eigen (X : dense R) (normX : R) (rank dimorder : list nat) (Uinit : list (@matrix R)) (maxiters : nat) (stoptol : R)
    (printitn : nat) (sol : ttensor R) (Uret : list (@matrix R)) (iters : nat) (nr fit : R) :
  let s := dshape X in let d := length s in
  let project := t_project (@matrix R) (dense R) k_ttm_excl X in
  Permutation dimorder (seq 0 d) -> (0 < d)%nat -> length Uinit = d -> normX = sqrt (nrm2 (dense R) (innerR s) X) ->
  0 < nrm2 (dense R) (innerR s) X ->
  GenTuckerAls.tucker_als_main R (@matrix R) (dense R) (ttensor R) Rleb 0 k_ttm_excl k_nvecs k_ttm_core k_resid k_fit k_absdiff k_ttensor
    X Uinit normX rank dimorder maxiters stoptol printitn = Some (sol, Uret, (iters, nr, fit)) ->
  sweeps_ok _ _ project k_nvecs rank dimorder (nvecs_eigen k_nvecs X rank) (S iters) Uinit ->
  let fat := fit_at (@matrix R) (dense R) (dense R) R project k_nvecs (t_core_of (@matrix R) (dense R) k_ttm_core)
               (t_normres_of R (dense R) k_resid normX) (t_fit_of R k_fit normX) rank dimorder in
  (exists U,
    sol = mkT (ttm_all 0 Rplus Rmult X (transposed 0 U)) U /\ of_r X rank U /\ orthofactors s U /\ Uret = Uinit /\ (iters < maxiters)%nat /\
    let res := nrm2 (dense R) (innerR s) (subR s X (tfull_ttm 0 Rplus Rmult sol)) in
    nr = sqrt res /\ fit = 1 - sqrt res / sqrt (nrm2 (dense R) (innerR s) X)) /\
  fat Uinit iters = Some fit /\
  (forall i j, (i <= j)%nat -> (j <= iters)%nat -> exists fi fj, fat Uinit i = Some fi /\ fat Uinit j = Some fj /\ fi <= fj).
Proof.
  intros s d project Hp Hd HL HX HN H Hok fat.
  destruct (perm_range _ _ Hp) as (_ & Hin & _).
  assert (Hboth : sweeps_ok _ _ project k_nvecs rank dimorder (step_both k_nvecs X rank) (S iters) Uinit).
  { apply (sweeps_ok_impl_cond _ _ project k_nvecs rank dimorder d (nvecs_eigen k_nvecs X rank) (step_both k_nvecs X rank)); [|exact HL|exact Hok].
    intros U n Hn HU HE. apply nvecs_eigen_step_both; [now apply Hin|exact HU|exact HE]. }
  assert (Hortho : sweeps_ok _ _ project k_nvecs rank dimorder (step_ortho k_nvecs X rank) (S iters) Uinit).
  { apply (sweeps_ok_impl project k_nvecs rank dimorder (step_both k_nvecs X rank) (step_ortho k_nvecs X rank)); [|exact Hboth].
    intros U n H0. exact (proj1 H0). }
  split.
  - destruct (gen_tals_result k_ttm_excl k_nvecs k_ttm_core k_resid k_fit k_absdiff k_ttensor excl_spec core_spec resid_spec fit_spec
                ttensor_spec X normX rank dimorder Uinit maxiters stoptol printitn sol Uret iters nr fit Hp Hd HL HX H Hortho)
      as (U & A1 & A2 & A3 & _ & A5 & A6 & A7).
    exists U. repeat (split; [assumption|]). exact A7.
  - exact (gen_tals_monotone k_ttm_excl k_nvecs k_ttm_core k_resid k_fit k_absdiff k_ttensor excl_spec core_spec resid_spec fit_spec
             X normX rank dimorder Uinit maxiters stoptol printitn sol Uret iters nr fit Hp Hd HL HX HN H Hboth).
Qed.
End GenTEigen.

(* non-vacuity: the example kernels of Proofs/C10GenT.v (exk_nvecs = leading mode vectors of [[3,0,0],[0,1,0]]) meet the EIGEN contract at
   every call of every sweep of the run of gen_tals_example (W = identity, mu = (9,0,0) for mode 1 of X x_0 [1 0], (9,0) for mode 0 of
   X x_1 [1 0 0]) *)
Example nvecs_eigen_example : forall j,
  sweeps_ok _ _ (t_project (@matrix R) (dense R) exk_excl exX) exk_nvecs [1; 1]%nat [1; 0]%nat (nvecs_eigen exk_nvecs exX [1; 1]%nat) j exUs.
Proof.
  set (proj := t_project (@matrix R) (dense R) exk_excl exX).
  assert (Hsw : sweep (@matrix R) (dense R) proj exk_nvecs [1; 1]%nat [1; 0]%nat exUs = exUs) by reflexivity.
  assert (H1 : nvecs_eigen exk_nvecs exX [1; 1]%nat exUs 1).
  { unfold nvecs_eigen. exists exI3, [9; 0; 0]. change (nth 1 (dshape exX) 0%nat) with 3%nat. change (nth 1 [1; 1]%nat 0%nat) with 1%nat.
    set (Z := excl exX exUs 1). change (dshape Z) with [1; 3]%nat.
    split; [lia|]. split; [reflexivity|]. split; [|split; [|split; [|split; [|split; reflexivity]]]].
    - intros j l Hj Hl. destruct j as [|[|[|j]]], l as [|[|[|l]]]; try lia; cbn; lra.
    - intros j l Hj Hl. destruct j as [|[|[|j]]], l as [|[|[|l]]]; try lia; cbn; lra.
    - intros a j Ha Hj. cbn in Ha, Hj. destruct a as [|[|[|a]]], j as [|[|[|j]]]; try lia; unfold gramR, gram_spec; cbn; lra.
    - intros c c' Hc Hc'. destruct c as [|[|[|c]]], c' as [|[|[|c']]]; try lia; cbn; lra. }
  assert (H0 : nvecs_eigen exk_nvecs exX [1; 1]%nat exUs 0).
  { unfold nvecs_eigen. exists exI2, [9; 0]. change (nth 0 (dshape exX) 0%nat) with 2%nat. change (nth 0 [1; 1]%nat 0%nat) with 1%nat.
    set (Z := excl exX exUs 0). change (dshape Z) with [2; 1]%nat.
    split; [lia|]. split; [reflexivity|]. split; [|split; [|split; [|split; [|split; reflexivity]]]].
    - intros j l Hj Hl. destruct j as [|[|j]], l as [|[|l]]; try lia; cbn; lra.
    - intros j l Hj Hl. destruct j as [|[|j]], l as [|[|l]]; try lia; cbn; lra.
    - intros a j Ha Hj. cbn in Ha, Hj. destruct a as [|[|a]], j as [|[|j]]; try lia; unfold gramR, gram_spec; cbn; lra.
    - intros c c' Hc Hc'. destruct c as [|[|c]], c' as [|[|c']]; try lia; cbn; lra. }
  assert (Hin : inner_ok _ _ proj exk_nvecs [1; 1]%nat (nvecs_eigen exk_nvecs exX [1; 1]%nat) [1; 0]%nat exUs).
  { cbn [inner_ok]. change (upd exUs 1 (exk_nvecs (proj exUs 1%nat) 1 (nth 1 [1; 1]%nat 0%nat))) with exUs.
    split; [exact H1|]. split; [exact H0|exact I]. }
  induction j as [|j IH]; [exact I|]. split; [exact Hin|]. rewrite Hsw. exact IH.
Qed.

(* ---------------------------------------------------------------------------------------- *)
(* the stop rule of the generated function over the reals: `if fitchange < stoptol: break` with fitchange = |fitold - fit|                *)
(* ---------------------------------------------------------------------------------------- *)
Section GenTStop.
Variable k_ttm_excl : dense R -> list (@matrix R) -> nat -> bool -> dense R.
Variable k_nvecs : dense R -> nat -> nat -> @matrix R.
Variable k_ttm_core : dense R -> list (@matrix R) -> nat -> bool -> dense R.
Variable k_resid : R -> dense R -> R.
Variable k_fit : R -> R -> R.
Variable k_absdiff : R -> R -> R.
Variable k_ttensor : dense R -> list (@matrix R) -> bool -> ttensor R.
Hypothesis absdiff_spec : forall a b, k_absdiff a b = Rabs (a - b).

Lemma fchange_lt_R fo fi tol : t_fchange_lt R Rleb k_absdiff fo fi tol = true <-> Rabs (fo - fi) < tol.
Proof. unfold t_fchange_lt, Rleb. rewrite negb_involutive, absdiff_spec. apply Rltb_true. Qed.

Theorem gen_tals_stop_rule (X : dense R) (normX : R) (rank dimorder : list nat) (Uinit : list (@matrix R)) (maxiters : nat) (stoptol : R)
    (printitn : nat) (sol : ttensor R) (Uret : list (@matrix R)) (iters : nat) (nr fit : R) :
  dimorder <> [] ->
  GenTuckerAls.tucker_als_main R (@matrix R) (dense R) (ttensor R) Rleb 0 k_ttm_excl k_nvecs k_ttm_core k_resid k_fit k_absdiff k_ttensor
    X Uinit normX rank dimorder maxiters stoptol printitn = Some (sol, Uret, (iters, nr, fit)) ->
  let project := t_project (@matrix R) (dense R) k_ttm_excl X in
  let fat := fit_at (@matrix R) (dense R) (dense R) R project k_nvecs (t_core_of (@matrix R) (dense R) k_ttm_core)
               (t_normres_of R (dense R) k_resid normX) (t_fit_of R k_fit normX) rank dimorder Uinit in
  let fbefore := fit_before (@matrix R) (dense R) (dense R) R project k_nvecs (t_core_of (@matrix R) (dense R) k_ttm_core)
               (t_normres_of R (dense R) k_resid normX) (t_fit_of R k_fit normX) 0 rank dimorder Uinit in
  (0 < maxiters)%nat /\ (iters < maxiters)%nat /\ fat iters = Some fit /\
  (* no earlier iteration met the convergence test (fitold of iteration 0 is 0) *)
  (forall i, (i < iters)%nat -> exists fo fi, fbefore i = Some fo /\ fat i = Some fi /\ ~ Rabs (fo - fi) < stoptol) /\
  (* an exit before the limit means the test fired at the reported iteration *)
  ((iters < maxiters - 1)%nat -> exists fo, fbefore iters = Some fo /\ Rabs (fo - fit) < stoptol).
Proof.
  intros Hne H project fat fbefore.
  destruct (gen_tucker_spec R (@matrix R) (dense R) (ttensor R) Rleb 0 k_ttm_excl k_nvecs k_ttm_core k_resid k_fit k_absdiff k_ttensor
              _ _ _ _ _ _ _ _ _ _ _ _ _ Hne H) as (A1 & A2 & _ & A4 & A5 & A6).
  split; [exact A1|]. split; [exact A2|]. split; [exact A4|]. split.
  - intros i Hi. destruct (A5 i Hi) as (fo & fi & B1 & B2 & B3). exists fo, fi. split; [exact B1|]. split; [exact B2|].
    intros C. apply fchange_lt_R in C. congruence.
  - intros Hlt. destruct (A6 Hlt) as (fo & B1 & B2). exists fo. split; [exact B1|]. now apply fchange_lt_R.
Qed.
End GenTStop.
