(* Proofs/C02SpKernelsProofs.v — sparse ttv (one mode) and sparse mttkrp equal the defining sums over the array the sptensor
   denotes (any stored order, any number of stored entries incl. none), for all shapes and commutative rings. *)
From Coq Require Import List Arith Lia Bool Permutation Ring.
From PV Require Import Base.Index Base.Perm Base.Sum Np.Array Model.Sparse Model.Repr Model.C02Spec Model.C02Dense Model.C02Sparse
                       Model.C02SpKernels Proofs.C02DenseProofs Proofs.C02SparseProofs Proofs.C02MttkrpProofs Proofs.C02KruskalProofs.
Import ListNotations.

Lemma nth_insert_at n x (t : idx) : n <= length t -> nth n (insert_at n x t) 0 = x.
Proof.
  intros H. unfold insert_at. rewrite app_nth2 by (rewrite firstn_length; lia).
  rewrite firstn_length. replace (n - Nat.min n (length t)) with 0 by lia. reflexivity.
Qed.

Lemma remove_insert_at n x (t : idx) : n <= length t -> remove_at n (insert_at n x t) = t.
Proof.
  intros H. unfold remove_at, insert_at.
  assert (L : length (firstn n t) = n) by (rewrite firstn_length; lia).
  rewrite (firstn_app_len n (firstn n t)) by exact L.
  rewrite (skipn_S_app_len n (firstn n t)) by exact L.
  apply firstn_skipn.
Qed.

Section P.
Variable V : Type.
Variables (v0 v1 : V) (vadd vmul vsub : V -> V -> V) (vopp : V -> V).
Hypothesis Vring : ring_theory v0 v1 vadd vmul vsub vopp (@eq V).
Add Ring Vr7 : Vring.
Variable isz : V -> bool.

Local Notation "x + y" := (vadd x y).
Local Notation "x * y" := (vmul x y).
Local Notation Sn := (sum_n v0 vadd).
Local Notation So := (sum_over v0 vadd).
Local Notation kp := (kprod v0 v1 vmul).

(* summing over all subscripts = summing over mode n and over the subscripts of the remaining modes *)
Lemma sum_allsubs_insert : forall (s : shape) n (G : idx -> V), n < length s ->
  So (allsubs s) G = Sn (nth n s 0) (fun x => So (allsubs (remove_at n s)) (fun t => G (insert_at n x t))).
Proof.
  induction s as [|d s IH]; intros n G Hn; cbn [length] in Hn; [lia|].
  rewrite (sum_allsubs_cons V v0 v1 vadd vmul vsub vopp Vring). destruct n as [|n].
  - reflexivity.
  - cbn [nth]. rewrite remove_at_cons.
    transitivity (Sn d (fun y => Sn (nth n s 0) (fun x => So (allsubs (remove_at n s)) (fun t => G (y :: insert_at n x t))))).
    + apply sum_n_ext. intros y _. apply (IH n (fun i => G (y :: i))). lia.
    + unfold sum_n at 1. unfold sum_n at 1. rewrite (sum_over_swap _ _ _ _ _ _ _ Vring).
      apply sum_over_ext. intros x _.
      rewrite (sum_allsubs_cons V v0 v1 vadd vmul vsub vopp Vring). reflexivity.
Qed.

Lemma sum_n_single n x (A : nat -> V) : x < n -> Sn n (fun y => if Nat.eqb y x then A y else v0) = A x.
Proof.
  intros H. unfold sum_n. rewrite (sum_over_single _ _ _ _ _ _ _ Vring (seq 0 n) x).
  - now rewrite Nat.eqb_refl.
  - apply seq_NoDup.
  - apply in_seq. lia.
  - intros a _ Ha. apply Nat.eqb_neq in Ha. now rewrite Ha.
Qed.

Lemma allsubs_remove_length s n t : n < length s -> In t (allsubs (remove_at n s)) -> n <= length t.
Proof.
  intros Hn Ht. apply in_allsubs, inb_length in Ht. pose proof (remove_at_length n s Hn). lia.
Qed.

(* ---------------------------------------------------------------- sptensor.ttv, one mode *)
Theorem impl_ttv_sp1_correct (S : sparse V) n v i' : wf_sp isz S ->
  n < length (sshape S) -> inb (remove_at n (sshape S)) i' = true ->
  impl_ttv_sp1 v0 vadd vmul S n v i' = spec_ttv1 v0 vadd vmul (den_sp v0 S) (sshape S) n v i'.
Proof.
  intros W Hn Hi. unfold impl_ttv_sp1, spec_ttv1.
  transitivity (So (entries S) (fun e => snd e * (fun j => if idx_eqb (remove_at n j) i' then nth (nth n j 0) v v0 else v0) (fst e))).
  { apply sum_over_ext. intros e _. cbn beta. destruct (idx_eqb (remove_at n (fst e)) i'); ring. }
  rewrite <- (sparse_sum V v0 v1 vadd vmul vsub vopp Vring isz S
                (fun j => if idx_eqb (remove_at n j) i' then nth (nth n j 0) v v0 else v0) W).
  rewrite (sum_allsubs_insert (sshape S) n _ Hn). apply sum_n_ext. intros x Hx.
  rewrite (sum_over_single _ _ _ _ _ _ _ Vring (allsubs (remove_at n (sshape S))) i').
  - assert (L : n <= length i').
    { apply inb_length in Hi. pose proof (remove_at_length n (sshape S) Hn). lia. }
    rewrite remove_insert_at, nth_insert_at by exact L. rewrite idx_eqb_refl. reflexivity.
  - apply allsubs_NoDup.
  - now apply in_allsubs.
  - intros t Ht Hne. rewrite remove_insert_at by (eapply allsubs_remove_length; eauto).
    rewrite idx_eqb_neq by exact Hne. ring.
Qed.

(* ---------------------------------------------------------------- sptensor.mttkrp (factor list) *)
Theorem impl_mttkrp_sp_correct (S : sparse V) (Us : list (@matrix V)) n R x r : wf_sp isz S ->
  n < length (sshape S) -> x < nth n (sshape S) 0 -> r < R ->
  impl_mttkrp_sp v0 v1 vadd vmul S Us n x r =
  spec_mttkrp v0 v1 vadd vmul (den_sp v0 S) (sshape S) n (repeat v1 R) Us x r.
Proof.
  intros W Hn Hx Hr. unfold impl_mttkrp_sp, spec_mttkrp.
  transitivity (So (entries S) (fun e => snd e * (fun j => if Nat.eqb (nth n j 0) x then kp (remove_at n Us) (remove_at n j) r else v0) (fst e))).
  { apply sum_over_ext. intros e _. cbn beta. destruct (Nat.eqb (nth n (fst e) 0) x); ring. }
  rewrite <- (sparse_sum V v0 v1 vadd vmul vsub vopp Vring isz S
                (fun j => if Nat.eqb (nth n j 0) x then kp (remove_at n Us) (remove_at n j) r else v0) W).
  rewrite (sum_allsubs_insert (sshape S) n _ Hn).
  transitivity (Sn (nth n (sshape S) 0) (fun y => if Nat.eqb y x then
                  So (allsubs (remove_at n (sshape S))) (fun t => den_sp v0 S (insert_at n y t) * kp (remove_at n Us) t r) else v0)).
  - apply sum_n_ext. intros y Hy. destruct (Nat.eqb y x) eqn:E.
    + apply sum_over_ext. intros t Ht. pose proof (allsubs_remove_length _ _ _ Hn Ht) as L.
      rewrite nth_insert_at, remove_insert_at by exact L. now rewrite E.
    + apply (sum_over_zero _ _ _ _ _ _ _ Vring). intros t Ht. pose proof (allsubs_remove_length _ _ _ Hn Ht) as L.
      rewrite nth_insert_at by exact L. rewrite E. ring.
  - rewrite sum_n_single by exact Hx. apply sum_over_ext. intros t _.
    rewrite nth_indep with (d' := v1) by (now rewrite repeat_length). rewrite nth_repeat. ring.
Qed.

(* representation independence, instance: the same array held sparse or dense gives the same MTTKRP *)
Theorem repr_indep_mttkrp (S : sparse V) (X : dense V) Us R n x r :
  wf_sp isz S -> wf_dense X -> sshape S = dshape X -> (forall i, den_sp v0 S i = den_dense v0 X i) ->
  2 <= length (dshape X) -> n < length (dshape X) -> length Us = length (dshape X) ->
  Forall (wf_cols V R) (remove_at n Us) -> map (@length _) (remove_at n Us) = remove_at n (dshape X) ->
  x < nth n (dshape X) 0 -> r < R ->
  impl_mttkrp_sp v0 v1 vadd vmul S Us n x r = den_dense v0 (impl_mttkrp_dense v0 vadd vmul X Us n R) [x; r].
Proof.
  intros WS WX HS Hden HN Hn HL HW Hrows Hx Hr.
  rewrite (impl_mttkrp_sp_correct S Us n R x r) by (auto; rewrite HS; auto).
  destruct (impl_mttkrp_dense_correct V v0 v1 vadd vmul vsub vopp Vring X Us R n WX HN Hn HL HW Hrows) as (_ & _ & D).
  rewrite D by auto. rewrite HS. unfold spec_mttkrp. apply sum_over_ext. intros j _. now rewrite Hden.
Qed.

End P.
