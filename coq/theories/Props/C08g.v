(* Props/C08g.v — C08, wave 4: the translator-GENERATED ktensor.update (Gen/GenKtensor4.v, regenerated from
   /repo/pyttb/ktensor.py on every run) computes C08's hand model k_update; the exact round-trip / frame theorems of Props/C08.v
   (C08_update_all_modes, C08_update_frame) therefore hold for the generated code.  Only statements, `exact`, Print Assumptions. *)
From Coq Require Import List ZArith Arith Bool.
From PV Require Import Base.Index Model.Repr Model.C08Kruskal Np.NpZ Np.NpZ2 Np.NpZ3 Np.NpZ3c Np.NpZ3d Np.NpZ3e Np.NpZ4
  Model.W4Ktensor Gen.GenKtensor4 Proofs.C08Gen3.
Import ListNotations.
Local Open Scope Z_scope.

(* whenever the generated update(modes, data) answers on modes >= -1 (-1 = the weights, k >= 0 = factor k; the generated code
   itself demands ascending modes, enough data, k < ndims), its result is — weights and every stored entry — the hand model:
   the data vector is consumed left to right, R entries for the weights, shape[k] * R entries (column-major) for factor k.
   Every ktz, any number of modes / components / data length *)
Theorem C08_gen_update_model : forall (self k' : ktz) (modes data : vec), (forall k, In k modes -> -1 <= k) ->
  ktensor_update self modes data = Ok k' ->
  to_K k' = k_update 0 (map mopt modes) data (to_K self).
Proof. exact gen_update_model. Qed.
Print Assumptions C08_gen_update_model.

(* all modes, weights first: the generated update IS from_vector of the data (exact vector round trip on the generated code) *)
Theorem C08_gen_update_all_modes : forall (self k' : ktz) (data : vec),
  ktensor_update self (-1 :: np_arange 0 (zlen (kt_factors self))) data = Ok k' ->
  length data = (krank (to_K self) * (sum_nat (kshape (to_K self)) + 1))%nat ->
  to_K k' = k_from_vector 0 1 data (kshape (to_K self)) true.
Proof. exact gen_update_all_modes. Qed.
Print Assumptions C08_gen_update_all_modes.

(* frame: weights / factors that are not named are untouched by the generated update *)
Theorem C08_gen_update_frame : forall (self k' : ktz) (modes data : vec), (forall k, In k modes -> -1 <= k) ->
  ktensor_update self modes data = Ok k' ->
  (not (In (-1) modes) -> kt_weights k' = kt_weights self) /\
  (forall j : nat, not (In (Z.of_nat j) modes) -> nth j (kt_factors k') [] = nth j (kt_factors self) []).
Proof. exact gen_update_frame. Qed.
Print Assumptions C08_gen_update_frame.

(* non-vacuity: 2 x 3 modes, two components; weights and factor 1 replaced, factor 0 kept; unsorted modes / short data refused *)
Example C08_example_gen_update :
  let k := mkkt [1; 1] [[[0; 0]; [0; 0]]; [[0; 0]; [0; 0]; [0; 0]]] in
  ktensor_update k [-1; 1] [11; 12; 5; 6; 7; 8; 9; 10] = Ok (mkkt [11; 12] [[[0; 0]; [0; 0]]; [[5; 8]; [6; 9]; [7; 10]]]) /\
  ktensor_update k [1; -1] [5; 6; 7; 8; 9; 10; 11; 12] = Err /\
  ktensor_update k [-1; 1] [11; 12; 5; 6; 7] = Err.
Proof. vm_compute. repeat split; reflexivity. Qed.
