(* Model/W4SHarnessCpAls.v — REPLAY instantiation of the generated control-flow skeleton Gen/GenCpAls.v: the Section
   parameters (numeric kernels) are look-ups in the oracle answers RECORDED from a real pyttb run; models are tokens (counters).
   Used by the differential stream tools/props/w4s.py (vm_compute) + one concrete run (non-vacuity). *)
From Coq Require Import String List Arith Bool ZArith.
From PV Require Import Model.W4SPrelude Gen.GenCpAls Model.W4SHarnessBase.
Import ListNotations.
Local Open Scope nat_scope.

(* ------------------------------------------------------------------------------------------------ cp_als main part *)
(* factor token = number of times the factor has been updated; weights / ktensor token = the same counter (number of sweeps
   done; 0 = the starting guess); resids = residual norm of the model after m sweeps (m = 0: the starting guess, innerprod
   formula); fits = the fit belonging to a residual norm (1 - r / normX computed by pyttb) *)
Definition zsk_cpals (resids : list Z) (fits : list (Z * Z)) (final_res : Z) (N : nat) (dimorder optdims : list nat)
           (maxiters : nat) (stoptol : Z) (printitn : nat) (fixsigns : bool) :=
  GenCpAls.cp_als_main Z nat unit nat nat unit Z.leb 0%Z
    (fun _ => repeat 0 N) (fun d o => filter (fun x => sk_mem x o) d) (fun _ _ _ => 0) (fun _ _ => tt) (fun u _ _ => u)
    (fun _ _ => 0) (fun _ _ => 0%Z) (fun _ => false) (fun _ _ => 0%Z) (fun _ M _ => if 100 <=? M then final_res else nth M resids 0%Z)
    (fun r _ => assoc Z.eqb r fits 0%Z) (fun _ U n => S (nth n U 0)) (fun _ _ _ => 0) (fun _ => false) (fun m => m) (fun _ m => m)
    (fun m => m) (fun m => m) (fun _ => false) (fun m _ => m) (fun _ w => w) (fun _ _ _ _ => 0%Z) (fun a b => Z.abs (a - b))
    (fun m => m + 100) (fun m => m + 1000)
    tt 0 1%Z N 0 dimorder optdims maxiters stoptol printitn fixsigns.

Definition zsk_cpals_ok (resids : list Z) (fits : list (Z * Z)) (final_res : Z) (N : nat) (dimorder optdims : list nat)
           (maxiters : nat) (stoptol : Z) (printitn : nat) (fixsigns : bool) (iters_obs : nat) (res_obs fit_obs : Z) : bool :=
  match zsk_cpals resids fits final_res N dimorder optdims maxiters stoptol printitn fixsigns with
  | None => false
  | Some (M, _, (iters, nr, fit)) =>
      (iters =? iters_obs) && Z.eqb nr res_obs && Z.eqb fit fit_obs && Bool.eqb (1000 <=? M) fixsigns
  end.

(* non-vacuity: a concrete run of the generated function (the hypothesis `... = Some r` of the theorems is satisfiable) *)
Example zsk_cpals_example :          (* fits 60, 79, 90, 94 with stoptol 5: stops in iteration 3 of 10 *)
  zsk_cpals [50; 40; 21; 10; 6]%Z [(50, 50); (40, 60); (21, 79); (10, 90); (6, 94)]%Z 77%Z 3 [0; 1; 2] [0; 1; 2] 10 5%Z 0 true
  = Some (1104, 0, (3, 6%Z, 94%Z)).
Proof. vm_compute. reflexivity. Qed.
