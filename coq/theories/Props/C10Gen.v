(* Props/C10Gen.v — wave 4: C10's hosvd loop model tied to the translator-GENERATED skeleton of the loop (Gen/GenHosvd.v, regenerated
   from /repo/pyttb/hosvd.py by tools/pyx2v_skel.py on every run).  Only statements, `exact`, Print Assumptions. *)
From Coq Require Import String List Arith Bool Permutation Reals.
From PV Require Import Model.Sparse Model.W4SPrelude Gen.GenHosvd Model.C10Tucker Model.C10Loop Proofs.C10LoopProofs Proofs.W4SHosvd Proofs.W4SHosvdR Proofs.C10Gen
                       Np.Array Np.NpR Model.Repr Proofs.C10Proofs Proofs.C10ProjR Proofs.C10Rayleigh Proofs.C10Concrete Proofs.C10GenR.
Import ListNotations.
Local Open Scope nat_scope.

Section C10_gen.
Variables T_V T_Tensor T_Mat : Type.
Variable c_leV : T_V -> T_V -> bool.
Variable c_zeroV : T_V.
Variable c_addV : T_V -> T_V -> T_V.
Variable k_unfold : T_Tensor -> nat -> T_Mat.
Variable k_gram : T_Mat -> T_Mat.
Variable k_eigh : T_Mat -> list T_V * T_Mat.
Variable k_argsort_desc : list T_V -> list nat.
Variable k_take : list T_V -> list nat -> list T_V.
Variable k_select_cols : T_Mat -> list nat -> T_Mat.
Variable k_shrink : T_Tensor -> list T_Mat -> nat -> T_Tensor.
(* contract of the shrink kernel `Y.ttm(factor_matrices[k].transpose(), int(k))`: it reads entry k of the list only *)
Variable shrink1 : T_Tensor -> T_Mat -> nat -> T_Tensor.
Hypothesis shrink_reads_k : forall Y fm k U, nth_error fm k = Some U -> k_shrink Y fm k = shrink1 Y U k.

Notation eigvals := (g_eigvals T_V T_Tensor T_Mat k_unfold k_gram k_eigh k_argsort_desc k_take).
Notation leading := (g_leading T_V T_Tensor T_Mat k_unfold k_gram k_eigh k_argsort_desc k_take k_select_cols).

(* the generated loop IS the hand model's loop (Model/C10Loop.v hosvd_loop: rank rule auto_rank, slice keep_cols, upd of ranks and
   factor_matrices, sequential shrink) with the oracles read off the generated kernels, for every order whose modes are valid positions *)
Theorem C10_gen_loop_is_hand_loop : forall (t : T_V) (sq : bool) (order ranks : list nat) (fm : list T_Mat) (Y : T_Tensor),
  (forall k, In k order -> k < length ranks) -> length fm = length ranks ->
  GenHosvd.hosvd_modes_loop1 T_V T_Tensor T_Mat c_leV c_zeroV c_addV k_unfold k_gram k_eigh k_argsort_desc k_take k_select_cols k_shrink
    t sq order (Y, fm, ranks) =
  swap3 T_Tensor T_Mat (hosvd_loop T_Tensor T_Mat T_V c_zeroV c_addV (lt_of c_leV) eigvals leading shrink1 sq t order ranks fm Y).
Proof. exact (gen_loop_is_hand_loop T_V T_Tensor T_Mat c_leV c_zeroV c_addV k_unfold k_gram k_eigh k_argsort_desc k_take k_select_cols
                k_shrink shrink1 shrink_reads_k). Qed.

(* C10_hosvd_bookkeeping for what the GENERATED function returns: every mode treated exactly once, at its position in dimorder, on the
   tensor seen there (X, or X shrunk by the final factors of the modes before it when sequential); ranks[k] = the request when non-zero,
   the rank rule's value on that tensor's sorted spectrum otherwise; factor k = the leading ranks[k] sorted eigenvectors; final Y *)
Theorem C10_gen_hosvd_bookkeeping : forall (fac0 : T_Mat) (t : T_V) (sq : bool) (d : nat) (dimorder ranks : list nat) (fm0 : list T_Mat)
    (X : T_Tensor) (fm : list T_Mat) (ranks' : list nat) (Y' : T_Tensor),
  Permutation dimorder (seq 0 d) -> length ranks = d -> length fm0 = d ->
  GenHosvd.hosvd_modes T_V T_Tensor T_Mat c_leV c_zeroV c_addV k_unfold k_gram k_eigh k_argsort_desc k_take k_select_cols k_shrink
    dimorder ranks t X fm0 sq = Some (fm, ranks', Y') ->
  length fm = d /\ length ranks' = d /\
  (forall k, k < d -> exists pre post, dimorder = pre ++ k :: post /\
      let Yk := seen T_Tensor T_Mat shrink1 fac0 sq fm pre X in
      nth k fm fac0 = leading Yk k (nth k ranks' 0) /\
      rank_decided T_Tensor T_V c_zeroV c_addV (lt_of c_leV) eigvals t (nth k ranks 0) Yk k (nth k ranks' 0)) /\
  Y' = seen T_Tensor T_Mat shrink1 fac0 sq fm dimorder X.
Proof. exact (gen_hosvd_bookkeeping T_V T_Tensor T_Mat c_leV c_zeroV c_addV k_unfold k_gram k_eigh k_argsort_desc k_take k_select_cols
                k_shrink shrink1 shrink_reads_k). Qed.
End C10_gen.
Print Assumptions C10_gen_loop_is_hand_loop.
Print Assumptions C10_gen_hosvd_bookkeeping.

(* THE ERROR BOUND OVER THE GENERATED LOOP (real tensors).  The generated skeleton instantiated with T_Tensor := dense R, T_Mat := matrix R;
   kernels arbitrary, constrained by: (run_ok) every eigen-decomposition performed during the run is valid — with (D, V) = k_eigh (k_gram
   (k_unfold Y k)), p = k_argsort_desc D, eig = k_take D p, W = k_select_cols V p: W orthogonal I_k x I_k, G W = W diag(eig) for the mode-k
   Gram matrix G of the tensor Y the mode looks at (the SHRUNK one when sequential), selecting the first r sorted columns = W[:, 0:r];
   (shrink) k_shrink Y factor_matrices k = Y x_k factor_matrices[k]^T.  If the generated hosvd_modes, started with ranks = 0, threshold
   tol^2 ||X||^2 / d and a dimorder that is a permutation of range(d), returns (factor_matrices, ranks, Y), the Tucker tensor with these
   factors and core X x_n U_n^T is within tol of X; sequential and non-sequential, every mode order, every shape *)
Theorem C10_gen_hosvd_error_bound :
  forall (k_unfold : dense R -> nat -> @matrix R) (k_gram : @matrix R -> @matrix R) (k_eigh : @matrix R -> list R * @matrix R)
    (k_argsort_desc : list R -> list nat) (k_take : list R -> list nat -> list R) (k_select_cols : @matrix R -> list nat -> @matrix R)
    (k_shrink : dense R -> list (@matrix R) -> nat -> dense R),
  (forall Y fm k U, nth_error fm k = Some U -> k_shrink Y fm k = shrink1R Y U k) ->
  forall (sq : bool) (X : dense R) (dimorder : list nat) (fm0 fm : list (@matrix R)) (ranks' : list nat) (Y' : dense R) (tolsq : R),
  let s := dshape X in let d := length s in
  Permutation dimorder (seq 0 d) -> 0 < d -> length fm0 = d -> (0 <= tolsq)%R ->
  GenHosvd.hosvd_modes R (dense R) (@matrix R) Rleb 0%R Rplus k_unfold k_gram k_eigh k_argsort_desc k_take k_select_cols k_shrink
    dimorder (repeat 0 d) (tolsq * nrm2 (dense R) (innerR s) X / INR d)%R X fm0 sq = Some (fm, ranks', Y') ->
  run_ok k_unfold k_gram k_eigh k_argsort_desc k_take k_select_cols sq fm dimorder X ->
  let T := mkT (ttm_all 0%R Rplus Rmult X (transposed 0%R fm)) fm in
  (nrm2 (dense R) (innerR s) (subR s X (tfull_ttm 0%R Rplus Rmult T)) <= tolsq * nrm2 (dense R) (innerR s) X)%R.
Proof. exact gen_hosvd_error_bound. Qed.
Print Assumptions C10_gen_hosvd_error_bound.

(* non-vacuity: example kernels (eigh answering the two Gram matrices of the run) for the SEQUENTIAL run of the generated loop on the 2 x 3 array
   [[3,0,0],[0,1,0]], dimorder (1, 0), tol^2 = 1/2: the generated function returns the factors [[1],[0]], [[1],[0],[0]], ranks (1,1), a 1 x 1 core;
   every decomposition of the run satisfies the contract; the bound follows from C10_gen_hosvd_error_bound *)
Example C10_example_gen_hosvd :
  let s := [2; 3]%nat in
  exists ranks' Y',
  GenHosvd.hosvd_modes R (dense R) (@matrix R) Rleb 0%R Rplus exk_unfold exk_gram exk_eigh exk_argsort exk_take exk_select exk_shrink
    [1; 0] (repeat 0 2) (1 / 2 * nrm2 (dense R) (innerR s) exX / INR 2)%R exX [[]; []] true = Some (exUs, ranks', Y') /\
  ranks' = [1; 1] /\ dshape Y' = [1; 1] /\
  run_ok exk_unfold exk_gram exk_eigh exk_argsort exk_take exk_select true exUs [1; 0] exX /\
  (nrm2 (dense R) (innerR s) (subR s exX (tfull_ttm 0%R Rplus Rmult (mkT (ttm_all 0%R Rplus Rmult exX (transposed 0%R exUs)) exUs)))
   <= 1 / 2 * nrm2 (dense R) (innerR s) exX)%R.
Proof. exact gen_hosvd_example. Qed.
