(* Model/W4SHarnessGcpOpt.v — REPLAY instantiation of Gen/GenGcpOpt.v (gcp_opt + _get_initial_guess): every object is a token that
   records what the driver did with it.  data = (kind 0 dense / 1 sparse / 2 unsupported, ndims, masked); objective = 0 (Objectives
   member) or the length of the tuple; optimizer = 0 stochastic / 1 L-BFGS-B / 2 unsupported; mask = 0 None / 1 tensor / 2 ndarray /
   3 the tensor's data array; handles = 1 (from setup) / 2 (unpacked tuple); the world counts np.random.uniform draws; info = which
   solve ran and with which last argument. *)
From Coq Require Import String List Arith Bool.
From PV Require Import Model.W4SPrelude Gen.GenGcpOpt Model.W4SHarnessBase.
Import ListNotations.
Local Open Scope nat_scope.

Inductive zguess :=
| ZGK (shape_differs ncomp_differs : bool) (normalized : nat)      (* a ktensor (the caller's: normalized counts normalize("all") calls) *)
| ZGSeq (shape_differs ncomp_differs : bool)                        (* a sequence of factor arrays *)
| ZGStr (random : bool)                                             (* a string, == "random" or not *)
| ZGBuilt (factors : list nat) (stage : nat).                       (* built from random draws: +1 scaled to the data's norm, +10 normalised *)
Definition zguess_eqb (a b : zguess) : bool :=
  match a, b with
  | ZGK x y n, ZGK x' y' n' => Bool.eqb x x' && Bool.eqb y y' && (n =? n')
  | ZGSeq x y, ZGSeq x' y' => Bool.eqb x x' && Bool.eqb y y'
  | ZGStr r, ZGStr r' => Bool.eqb r r'
  | ZGBuilt f s, ZGBuilt f' s' => list_eqb Nat.eqb f f' && (s =? s')
  | _, _ => false
  end.
Definition zdata3 := (nat * nat * bool)%type.

Definition zsk_gcp_opt (data : zdata3) (objective optimizer : nat) (init : zguess) (mask : nat) :=
  GenGcpOpt.gcp_opt nat zdata3 nat nat zguess nat unit nat nat nat nat
    (fun i => match i with ZGSeq _ _ | ZGStr _ => true | _ => false end)
    (fun i => match i with ZGStr _ => true | _ => false end)
    (fun i => match i with ZGSeq a b => ZGK a b 0 | _ => i end)
    (fun i => match i with ZGK _ _ _ => true | _ => false end)
    (fun i _ => match i with ZGK a _ _ => a | _ => false end)
    (fun i _ => match i with ZGK _ b _ => b | _ => false end)
    (fun i => match i with ZGK a b n => ZGK a b (S n) | ZGBuilt f s => ZGBuilt f (s + 10) | _ => i end)
    (fun i => match i with ZGStr r => r | _ => false end)
    (fun d => snd (fst d))
    (fun w fm _ n _ => (S w, fm ++ [100 + n]))
    (fun fm => ZGBuilt fm 0)
    (fun i _ => match i with ZGBuilt f s => ZGBuilt f (s + 1) | _ => i end)
    (fun o => o =? 0) (fun o => o) (fun _ _ => (1, 1, 1)) (fun _ => (2, 2, 2))
    (fun d => fst (fst d) <? 2) (fun d => fst (fst d) =? 0)
    (fun m => m =? 1)
    (fun d _ => (fst (fst d), snd (fst d), true))
    (fun d => fst (fst d) =? 1)
    (fun m => negb (m =? 0))
    (fun o => o <? 2) (fun o => o =? 1) (fun o => o =? 0)
    (fun w _ M0 d fh _ _ _ => (w, (M0, 10 + fh)))
    (fun _ => 3)
    (fun w _ M0 d fh _ _ m => (w, (M0, 20 + 10 * m + fh)))
    (fun i => i + 100)
    0 data 1 objective optimizer init mask tt 0.

(* observation: the initial guess token, the info token (which solve, last argument, handles, main_time written), the number of
   random draws before the solve; whether the data were multiplied by the mask is part of the data token the solve received — the
   result token is M0 (the stub solve returns its start) *)
Definition zsk_gcp_opt_ok (data : zdata3) (objective optimizer : nat) (init : zguess) (mask : nat)
           (m0_obs : zguess) (info_obs draws_obs : nat) : bool :=
  match zsk_gcp_opt data objective optimizer init mask with
  | None => false
  | Some (result, M0, info, w) => zguess_eqb M0 m0_obs && zguess_eqb result m0_obs && (info =? info_obs) && (w =? draws_obs)
  end.
Definition zsk_gcp_opt_raises (data : zdata3) (objective optimizer : nat) (init : zguess) (mask : nat) : bool :=
  match zsk_gcp_opt data objective optimizer init mask with None => true | Some _ => false end.

Example zsk_gcp_opt_example :
  zsk_gcp_opt (0, 2, false) 0 0 (ZGStr true) 0 = Some (ZGBuilt [100; 101] 11, ZGBuilt [100; 101] 11, 111, 2) /\
  zsk_gcp_opt (0, 3, false) 3 1 (ZGK false false 0) 1 = Some (ZGK false false 1, ZGK false false 1, 152, 0) /\
  zsk_gcp_opt (1, 2, false) 0 1 (ZGStr true) 0 = None /\          (* sparse data with L-BFGS-B *)
  zsk_gcp_opt (1, 2, false) 0 0 (ZGStr true) 1 = None /\          (* sparse data with a mask *)
  zsk_gcp_opt (0, 2, false) 0 0 (ZGStr true) 1 = None /\          (* stochastic solver with a mask *)
  zsk_gcp_opt (0, 2, false) 2 0 (ZGStr true) 0 = None /\          (* a 2-tuple as objective *)
  zsk_gcp_opt (0, 2, false) 0 0 (ZGStr false) 0 = None /\         (* unknown init string *)
  zsk_gcp_opt (0, 2, false) 0 0 (ZGSeq false true) 0 = None.      (* factors with the wrong number of columns *)
Proof. repeat split; vm_compute; reflexivity. Qed.
