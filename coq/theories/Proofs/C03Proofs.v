(* Proofs/C03Proofs.v — the modelled sparse algorithms compute the element-wise specification (C03) and
   return well-formed tensors (C06), for every pair of well-formed operands in ANY stored order. *)
From Coq Require Import List Arith Lia Bool Permutation.
From PV Require Import Base.Index Np.Array Model.Sparse Model.C03Ops Proofs.C03Lemmas.
Import ListNotations.

Lemma NoDup_app_intro {A} (l1 l2 : list A) :
  NoDup l1 -> NoDup l2 -> (forall x, In x l1 -> ~ In x l2) -> NoDup (l1 ++ l2).
Proof.
  induction l1 as [|a l1 IH]; intros H1 H2 Hd; cbn; auto.
  inversion H1 as [|? ? Ha H1']; subst. constructor.
  - rewrite in_app_iff. intros [H|H]; [contradiction|]. apply (Hd a); cbn; auto.
  - apply IH; auto. intros x Hx. apply Hd. cbn; auto.
Qed.

Lemma NoDup_map_fst_filter {A B} (p : A * B -> bool) (l : list (A * B)) :
  NoDup (map fst l) -> NoDup (map fst (filter p l)).
Proof.
  induction l as [|e l IH]; cbn; intros H; auto. inversion H as [|? ? Ha H']; subst.
  destruct (p e); cbn; auto. constructor; auto.
  intros Hin. apply Ha. apply in_map_iff in Hin as (e' & E & He'). apply filter_In in He' as [He' _].
  rewrite <- E. now apply in_map.
Qed.

Lemma filter_K_true {A} (l : list A) : filter (fun _ => true) l = l.
Proof. induction l as [|a l IH]; cbn; auto. now rewrite IH. Qed.

Section Proofs.
Context {V : Type} (v0 : V) (isz : V -> bool).
Hypothesis isz_spec : forall v, isz v = true <-> v = v0.

Notation den := (den_sp v0).
Notation wf := (wf_sp isz).
Notation wfs := (@wf_struct V).

(* ------------------------------------------------------------------------------------------ *)
(* building blocks                                                                             *)
(* ------------------------------------------------------------------------------------------ *)

(* a tensor built from a list of (subscript, value) pairs with distinct in-bounds subscripts, explicit
   zeros dropped: well-formed, and its value at a listed subscript is the listed value *)
Lemma wf_of_drop s (es : list (idx * V)) :
  NoDup (map fst es) -> (forall e, In e es -> inb s (fst e) = true) -> wf (of_entries s (drop_zeros isz es)).
Proof.
  intros Hn Hb. unfold wf_sp, of_entries, drop_zeros. cbn [sshape ssubs svals]. repeat split.
  - now rewrite !map_length.
  - now apply NoDup_map_fst_filter.
  - rewrite Forall_forall. intros i Hi. apply in_map_iff in Hi as (e & <- & He).
    apply filter_In in He as [He _]. auto.
  - rewrite Forall_forall. intros v Hv. apply in_map_iff in Hv as (e & <- & He).
    apply filter_In in He as [_ He]. now apply negb_true_iff in He.
Qed.

Lemma den_of_drop_in s (es : list (idx * V)) i v :
  NoDup (map fst es) -> In (i, v) es -> den (of_entries s (drop_zeros isz es)) i = v.
Proof.
  intros Hn Hin. destruct (isz v) eqn:Hz.
  - apply isz_spec in Hz. subst v. apply den_sp_notin. unfold of_entries, drop_zeros. cbn [ssubs].
    intros Hi. apply in_map_iff in Hi as ([j w] & Ej & He). cbn in Ej. subst j.
    apply filter_In in He as [He Hw]. cbn in Hw.
    assert (w = v0).
    { rewrite <- (last_match_in i w es v0 Hn He). now apply last_match_in. }
    subst w. rewrite (proj2 (isz_spec v0) eq_refl) in Hw. discriminate.
  - unfold den_sp. rewrite entries_of_entries. apply last_match_in.
    + now apply NoDup_map_fst_filter.
    + apply filter_In. split; auto. cbn. now rewrite Hz.
Qed.

Lemma den_of_drop_notin s (es : list (idx * V)) i :
  ~ In i (map fst es) -> den (of_entries s (drop_zeros isz es)) i = v0.
Proof.
  intros Hni. apply den_sp_notin. unfold of_entries, drop_zeros. cbn [ssubs]. intros Hi. apply Hni.
  apply in_map_iff in Hi as (e & <- & He). apply filter_In in He as [He _]. now apply in_map.
Qed.

(* constant-valued tensors on a list of distinct in-bounds subscripts *)
Lemma wf_sp_const s subs (c : V) : NoDup subs -> (forall i, In i subs -> inb s i = true) -> c <> v0 ->
  wf (sp_const s subs c).
Proof.
  intros Hn Hb Hc. unfold wf_sp, sp_const. cbn [sshape ssubs svals]. repeat split; auto.
  - now rewrite map_length.
  - now apply Forall_forall.
  - rewrite Forall_forall. intros v Hv. apply in_map_iff in Hv as (_ & <- & _). now apply (isz_false v0 isz isz_spec).
Qed.

Lemma den_sp_const s subs (c : V) i : NoDup subs ->
  den (sp_const s subs c) i = if mem i subs then c else v0.
Proof.
  intros Hn. destruct (mem i subs) eqn:Hm.
  - apply mem_spec in Hm. unfold den_sp. rewrite entries_sp_const. apply last_match_in.
    + rewrite map_map. cbn. now rewrite map_id.
    + apply in_map_iff. exists i. auto.
  - apply mem_false in Hm. now apply den_sp_notin.
Qed.

(* in a well-formed tensor "stored" and "nonzero" coincide *)
Lemma mem_subs (A : sparse V) i : wf A -> mem i (ssubs A) = negb (isz (den A i)).
Proof.
  intros W. destruct (mem i (ssubs A)) eqn:Hm.
  - apply mem_spec in Hm. apply (in_subs_iff v0 isz isz_spec A i W) in Hm.
    apply (isz_false v0 isz isz_spec) in Hm. now rewrite Hm.
  - apply mem_false in Hm. rewrite den_sp_notin by auto. now rewrite (proj2 (isz_spec v0) eq_refl).
Qed.

Lemma wf_inb (A : sparse V) i : wfs A -> In i (ssubs A) -> inb (sshape A) i = true.
Proof. intros (_ & _ & Hb) Hi. rewrite Forall_forall in Hb. auto. Qed.

Lemma NoDup_fst_entries (A : sparse V) : wfs A -> NoDup (map fst (entries A)).
Proof. intros (HL & Hn & _). now rewrite map_fst_entries. Qed.

Lemma in_entries_inb (A : sparse V) e : wfs A -> In e (entries A) -> inb (sshape A) (fst e) = true.
Proof.
  intros W He. apply (wf_inb A); auto. destruct e as [i v]. unfold entries in He. now apply in_combine_l in He.
Qed.

(* implicit-zero positions *)
Lemma in_zero_subs (A : sparse V) i : In i (zero_subs A) <-> inb (sshape A) i = true /\ ~ In i (ssubs A).
Proof.
  unfold zero_subs, rows_diff. rewrite filter_In, in_allsubs, negb_true_iff. now rewrite mem_false.
Qed.

Lemma NoDup_zero_subs (A : sparse V) : NoDup (zero_subs A).
Proof. apply NoDup_filter, allsubs_NoDup. Qed.

(* ------------------------------------------------------------------------------------------ *)
(* unary operations                                                                            *)
(* ------------------------------------------------------------------------------------------ *)

Theorem impl_ones_correct (one : V) (A : sparse V) : one <> v0 -> wf A ->
  wf (impl_ones one A) /\ sshape (impl_ones one A) = sshape A /\
  forall i, den (impl_ones one A) i = bval v0 one (negb (isz (den A i))).
Proof.
  intros H1 W. pose proof (wf_sp_struct isz A W) as Ws. destruct Ws as (HL & Hn & Hb).
  split; [|split; [reflexivity|]].
  - apply wf_sp_const; auto. now apply Forall_forall.
  - intros i. unfold impl_ones. rewrite den_sp_const by auto. now rewrite mem_subs.
Qed.

Theorem impl_not_correct (one : V) (A : sparse V) : one <> v0 -> wf A ->
  wf (impl_not one A) /\ sshape (impl_not one A) = sshape A /\
  forall i, inb (sshape A) i = true -> den (impl_not one A) i = bval v0 one (isz (den A i)).
Proof.
  intros H1 W. split; [|split; [reflexivity|]].
  - apply wf_sp_const; auto using NoDup_zero_subs. intros i Hi. now apply in_zero_subs in Hi.
  - intros i Hi. unfold impl_not. rewrite den_sp_const by apply NoDup_zero_subs.
    destruct (mem i (zero_subs A)) eqn:Hm.
    + apply mem_spec, in_zero_subs in Hm as [_ Hm]. apply mem_false in Hm. rewrite mem_subs in Hm by auto.
      apply negb_false_iff in Hm. now rewrite Hm.
    + apply mem_false in Hm. rewrite in_zero_subs in Hm.
      destruct (isz (den A i)) eqn:Hz; auto. exfalso. apply Hm. split; auto.
      apply mem_false. rewrite mem_subs by auto. now rewrite Hz.
Qed.

Section Neg.
Variable vopp : V -> V.
Hypothesis vopp_nz : forall v, v <> v0 -> vopp v <> v0.
Hypothesis vopp_0 : vopp v0 = v0.

Lemma last_match_map_snd (g : V -> V) i (l1 : list idx) (l2 : list V) d :
  last_match i (combine l1 (map g l2)) (g d) = g (last_match i (combine l1 l2) d).
Proof.
  revert l2 d; induction l1 as [|j l1 IH]; intros [|v l2] d; cbn; auto.
  destruct (idx_eqb i j); apply IH.
Qed.

Theorem impl_neg_correct (A : sparse V) : wf A ->
  wf (impl_neg vopp A) /\ sshape (impl_neg vopp A) = sshape A /\
  forall i, den (impl_neg vopp A) i = vopp (den A i).
Proof.
  intros (HL & Hn & Hb & Hz). split; [|split; [reflexivity|]].
  - unfold wf_sp, impl_neg. cbn [sshape ssubs svals]. repeat split; auto.
    + now rewrite map_length.
    + rewrite Forall_forall in *. intros v Hv. apply in_map_iff in Hv as (w & <- & Hw).
      apply (isz_false v0 isz isz_spec). apply vopp_nz. apply (isz_false v0 isz isz_spec). auto.
  - intros i. unfold den_sp, impl_neg, entries. cbn [ssubs svals].
    rewrite <- vopp_0 at 1. apply last_match_map_snd.
Qed.
End Neg.


(* ------------------------------------------------------------------------------------------ *)
(* from_aggregator                                                                             *)
(* ------------------------------------------------------------------------------------------ *)

Lemma ins_sorted_perm i l : Permutation (ins_sorted i l) (i :: l).
Proof.
  induction l as [|j r IH]; cbn; auto. destruct (idx_ltb j i); auto.
  rewrite IH. apply perm_swap.
Qed.

Lemma sort_rows_perm l : Permutation (sort_rows l) l.
Proof. induction l as [|i l IH]; cbn; auto. rewrite ins_sorted_perm. now constructor. Qed.

Lemma in_uniq_rows i l : In i (uniq_rows l) <-> In i l.
Proof.
  unfold uniq_rows. rewrite <- (nodup_In idx_dec l i). split; apply Permutation_in.
  - apply sort_rows_perm.
  - symmetry. apply sort_rows_perm.
Qed.

Lemma NoDup_uniq_rows l : NoDup (uniq_rows l).
Proof.
  unfold uniq_rows. eapply Permutation_NoDup; [symmetry; apply sort_rows_perm|]. apply NoDup_nodup.
Qed.

Lemma collect_app i (es1 es2 : list (idx * V)) : collect i (es1 ++ es2) = collect i es1 ++ collect i es2.
Proof.
  induction es1 as [|[j v] r IH]; cbn; auto. destruct (idx_eqb i j); cbn; now rewrite IH.
Qed.

Lemma collect_notin i (es : list (idx * V)) : ~ In i (map fst es) -> collect i es = [].
Proof.
  induction es as [|[j v] r IH]; cbn; auto. intros H.
  rewrite idx_eqb_neq by (intro; subst; apply H; auto). apply IH. intros Hr. apply H. auto.
Qed.

Lemma collect_in i v (es : list (idx * V)) : NoDup (map fst es) -> In (i, v) es -> collect i es = [v].
Proof.
  induction es as [|[j w] r IH]; cbn; intros Hn Hin; [contradiction|].
  inversion Hn as [|? ? Hj Hn']; subst. destruct Hin as [E|Hin].
  - inversion E; subst. rewrite idx_eqb_refl. f_equal. now apply collect_notin.
  - rewrite idx_eqb_neq; auto. intros E. subst j. apply Hj. change i with (fst (i, v)). now apply in_map.
Qed.

Lemma collect_entries (A : sparse V) i : wfs A ->
  collect i (entries A) = if mem i (ssubs A) then [den A i] else [].
Proof.
  intros W. destruct (mem i (ssubs A)) eqn:Hm.
  - apply mem_spec in Hm. apply collect_in; [now apply NoDup_fst_entries|]. now apply in_subs_entry.
  - apply mem_false in Hm. apply collect_notin. destruct W as (HL & _). now rewrite map_fst_entries.
Qed.

Lemma combine_app {A B} (l1 l2 : list A) (m1 m2 : list B) : length l1 = length m1 ->
  combine (l1 ++ l2) (m1 ++ m2) = combine l1 m1 ++ combine l2 m2.
Proof.
  revert m1; induction l1 as [|a l1 IH]; intros [|b m1] H; cbn in *; try discriminate; auto.
  f_equal. apply IH. lia.
Qed.

Lemma mem_app i l1 l2 : mem i (l1 ++ l2) = mem i l1 || mem i l2.
Proof. unfold mem. apply existsb_app. Qed.

Theorem from_aggregator_correct (func : list V -> V) s subs vals :
  (forall i, In i subs -> inb s i = true) ->
  wf (from_aggregator isz func s subs vals) /\ sshape (from_aggregator isz func s subs vals) = s /\
  forall i, den (from_aggregator isz func s subs vals) i =
            if mem i subs then func (collect i (combine subs vals)) else v0.
Proof.
  intros Hb. unfold from_aggregator.
  set (es' := map (fun i => (i, func (collect i (combine subs vals)))) (uniq_rows subs)).
  assert (Hfst : map fst es' = uniq_rows subs).
  { unfold es'. rewrite map_map. cbn. apply map_id. }
  assert (Hn : NoDup (map fst es')) by (rewrite Hfst; apply NoDup_uniq_rows).
  split; [|split; [reflexivity|]].
  - apply wf_of_drop; auto. intros e He. apply Hb. apply in_uniq_rows. rewrite <- Hfst. now apply in_map.
  - intros i. destruct (mem i subs) eqn:Hm.
    + apply mem_spec in Hm. apply den_of_drop_in; auto. unfold es'. apply in_map_iff. exists i. split; auto.
      now apply in_uniq_rows.
    + apply mem_false in Hm. apply den_of_drop_notin. rewrite Hfst. now rewrite in_uniq_rows.
Qed.

(* two structurally well-formed coordinate lists stacked and aggregated *)
Lemma agg2_correct (func : list V -> V) (A B : sparse V) : wfs A -> wfs B -> sshape B = sshape A ->
  let R := from_aggregator isz func (sshape A) (ssubs A ++ ssubs B) (svals A ++ svals B) in
  wf R /\ sshape R = sshape A /\
  forall i, den R i = if mem i (ssubs A) || mem i (ssubs B)
                      then func ((if mem i (ssubs A) then [den A i] else []) ++ (if mem i (ssubs B) then [den B i] else []))
                      else v0.
Proof.
  intros WA WB Hs R.
  destruct (from_aggregator_correct func (sshape A) (ssubs A ++ ssubs B) (svals A ++ svals B)) as (W & S & D).
  { intros i Hi. apply in_app_iff in Hi as [Hi|Hi]; [now apply wf_inb|]. rewrite <- Hs. now apply wf_inb. }
  split; [exact W|split; [exact S|]]. intros i. unfold R. rewrite D, mem_app.
  rewrite combine_app by (now destruct WA). fold (entries A) (entries B).
  now rewrite collect_app, !collect_entries.
Qed.

(* ------------------------------------------------------------------------------------------ *)
(* + and - of two sparse tensors                                                               *)
(* ------------------------------------------------------------------------------------------ *)
Section AddSub.
Variables (vadd : V -> V -> V) (vopp : V -> V).
Hypothesis vadd_0_l : forall x, vadd v0 x = x.
Hypothesis vadd_0_r : forall x, vadd x v0 = x.

Theorem impl_add_correct (A B : sparse V) : wf A -> wf B -> sshape B = sshape A ->
  wf (impl_add v0 isz vadd A B) /\ sshape (impl_add v0 isz vadd A B) = sshape A /\
  forall i, den (impl_add v0 isz vadd A B) i = vadd (den A i) (den B i).
Proof.
  intros WA WB Hs.
  destruct (agg2_correct (vsum v0 vadd) A B (wf_sp_struct isz A WA) (wf_sp_struct isz B WB) Hs) as (W & S & D).
  split; [exact W|split; [exact S|]]. intros i. unfold impl_add. rewrite D.
  destruct (mem i (ssubs A)) eqn:HA, (mem i (ssubs B)) eqn:HB; cbn.
  - now rewrite vadd_0_r.
  - apply mem_false in HB. rewrite (den_sp_notin v0 B i HB). now rewrite !vadd_0_r.
  - apply mem_false in HA. rewrite (den_sp_notin v0 A i HA). now rewrite vadd_0_r, vadd_0_l.
  - apply mem_false in HA, HB. rewrite (den_sp_notin v0 A i HA), (den_sp_notin v0 B i HB). now rewrite vadd_0_l.
Qed.

Hypothesis vopp_nz : forall v, v <> v0 -> vopp v <> v0.
Hypothesis vopp_0 : vopp v0 = v0.

Theorem impl_sub_correct (A B : sparse V) : wf A -> wf B -> sshape B = sshape A ->
  wf (impl_sub v0 isz vadd vopp A B) /\ sshape (impl_sub v0 isz vadd vopp A B) = sshape A /\
  forall i, den (impl_sub v0 isz vadd vopp A B) i = vadd (den A i) (vopp (den B i)).
Proof.
  intros WA WB Hs.
  destruct (impl_neg_correct vopp vopp_nz vopp_0 B WB) as (WN & SN & DN).
  destruct (impl_add_correct A (impl_neg vopp B) WA WN) as (W & S & D); [now rewrite SN|].
  split; [exact W|split; [exact S|]]. intros i. rewrite <- DN. apply D.
Qed.
End AddSub.

(* ------------------------------------------------------------------------------------------ *)
(* logical and / or / xor of two sparse tensors                                                *)
(* ------------------------------------------------------------------------------------------ *)
Section Logic.
Variable one : V.
Hypothesis one_nz : one <> v0.
Notation nz x := (negb (isz x)).
Notation bv := (bval v0 one).

Theorem impl_and_correct (A B : sparse V) : wf A -> wf B -> sshape B = sshape A ->
  wf (impl_and v0 isz one A B) /\ sshape (impl_and v0 isz one A B) = sshape A /\
  forall i, den (impl_and v0 isz one A B) i = bv (nz (den A i) && nz (den B i)).
Proof.
  intros WA WB Hs.
  destruct (agg2_correct (fun l => bv (Nat.eqb (length l) 2)) A B (wf_sp_struct isz A WA) (wf_sp_struct isz B WB) Hs) as (W & S & D).
  split; [exact W|split; [exact S|]]. intros i. unfold impl_and. rewrite D.
  rewrite <- !mem_subs by auto. destruct (mem i (ssubs A)), (mem i (ssubs B)); reflexivity.
Qed.

Lemma wfs_ones (A : sparse V) : wfs A -> wfs (impl_ones one A).
Proof. intros (HL & Hn & Hb). unfold wf_struct, impl_ones, sp_const. cbn. repeat split; auto. now rewrite map_length. Qed.

Lemma agg_ones (func : list V -> V) (A B : sparse V) : wf A -> wf B -> sshape B = sshape A ->
  let R := from_aggregator isz func (sshape A) (ssubs A ++ ssubs B) (map (fun _ => one) (ssubs A ++ ssubs B)) in
  wf R /\ sshape R = sshape A /\
  forall i, den R i = if mem i (ssubs A) || mem i (ssubs B)
                      then func ((if mem i (ssubs A) then [one] else []) ++ (if mem i (ssubs B) then [one] else []))
                      else v0.
Proof.
  intros WA WB Hs R.
  pose proof (wfs_ones A (wf_sp_struct isz A WA)) as WA1. pose proof (wfs_ones B (wf_sp_struct isz B WB)) as WB1.
  destruct (agg2_correct func (impl_ones one A) (impl_ones one B) WA1 WB1) as (W & S & D); [cbn; auto|].
  cbn [impl_ones sp_const ssubs svals sshape] in W, S, D. rewrite <- map_app in W, S, D.
  split; [exact W|split; [exact S|]]. intros i. unfold R. rewrite D.
  destruct WA as (_ & HnA & _). destruct WB as (_ & HnB & _).
  unfold impl_ones. rewrite !den_sp_const by auto.
  destruct (mem i (ssubs A)), (mem i (ssubs B)); reflexivity.
Qed.

Theorem impl_or_correct (A B : sparse V) : wf A -> wf B -> sshape B = sshape A ->
  wf (impl_or v0 isz one A B) /\ sshape (impl_or v0 isz one A B) = sshape A /\
  forall i, den (impl_or v0 isz one A B) i = bv (nz (den A i) || nz (den B i)).
Proof.
  intros WA WB Hs. destruct (agg_ones (fun l => bv (Nat.leb 1 (length l))) A B WA WB Hs) as (W & S & D).
  split; [exact W|split; [exact S|]]. intros i. unfold impl_or. rewrite D.
  rewrite <- !mem_subs by auto. destruct (mem i (ssubs A)), (mem i (ssubs B)); reflexivity.
Qed.

Theorem impl_xor_correct (A B : sparse V) : wf A -> wf B -> sshape B = sshape A ->
  wf (impl_xor v0 isz one A B) /\ sshape (impl_xor v0 isz one A B) = sshape A /\
  forall i, den (impl_xor v0 isz one A B) i = bv (xorb (nz (den A i)) (nz (den B i))).
Proof.
  intros WA WB Hs. destruct (agg_ones (fun l => bv (Nat.eqb (length l) 1)) A B WA WB Hs) as (W & S & D).
  split; [exact W|split; [exact S|]]. intros i. unfold impl_xor. rewrite D.
  rewrite <- !mem_subs by auto. destruct (mem i (ssubs A)), (mem i (ssubs B)); reflexivity.
Qed.

Theorem impl_and_scalar_correct (A : sparse V) (c : V) : wf A ->
  wf (impl_and_scalar isz one A c) /\ sshape (impl_and_scalar isz one A c) = sshape A /\
  forall i, den (impl_and_scalar isz one A c) i = bv (nz (den A i) && nz c).
Proof.
  intros WA. unfold impl_and_scalar. destruct (isz c) eqn:Hc.
  - split; [|split; [reflexivity|]].
    + unfold wf_sp. cbn. repeat split; auto. constructor.
    + intros i. rewrite andb_false_r. reflexivity.
  - destruct (impl_ones_correct one A one_nz WA) as (W & S & D). split; [exact W|split; [exact S|]].
    intros i. rewrite D. now rewrite andb_true_r.
Qed.

(* a constant-1 tensor on a subscript list characterised by a predicate *)
Lemma sp_const_char s subs (P : idx -> bool) :
  NoDup subs -> (forall i, In i subs -> inb s i = true) ->
  (forall i, inb s i = true -> (In i subs <-> P i = true)) ->
  wf (sp_const s subs one) /\ forall i, inb s i = true -> den (sp_const s subs one) i = bv (P i).
Proof.
  intros Hn Hb Hc. split; [now apply wf_sp_const|]. intros i Hi. rewrite den_sp_const by auto.
  destruct (mem i subs) eqn:Hm.
  - apply mem_spec, Hc in Hm; auto. now rewrite Hm.
  - apply mem_false in Hm. destruct (P i) eqn:HP; auto. exfalso. apply Hm. now apply Hc.
Qed.

Lemma in_fst_filter_entries (A : sparse V) (p : idx * V -> bool) i : wfs A ->
  (In i (map fst (filter p (entries A))) <-> In i (ssubs A) /\ p (i, den A i) = true).
Proof.
  intros W. rewrite in_map_iff. split.
  - intros ([j v] & Ej & He). cbn in Ej. subst j. apply filter_In in He as [He Hp].
    rewrite (den_struct_in v0 A i v W He). split; auto. unfold entries in He. now apply in_combine_l in He.
  - intros [Hi Hp]. exists (i, den A i). split; auto. apply filter_In. split; auto. now apply in_subs_entry.
Qed.

(* comparison with a scalar: every position of the shape, implicit zeros included *)
Theorem impl_cmp_scalar_correct (cmp : V -> V -> bool) (A : sparse V) (c : V) : wf A ->
  wf (impl_cmp_scalar v0 one cmp A c) /\ sshape (impl_cmp_scalar v0 one cmp A c) = sshape A /\
  forall i, inb (sshape A) i = true -> den (impl_cmp_scalar v0 one cmp A c) i = bv (cmp (den A i) c).
Proof.
  intros WA. pose proof (wf_sp_struct isz A WA) as Ws. unfold impl_cmp_scalar.
  set (subs1 := map fst (filter (fun e => cmp (snd e) c) (entries A))).
  set (subs2 := if cmp v0 c then zero_subs A else []).
  assert (H1 : forall i, In i subs1 <-> In i (ssubs A) /\ cmp (den A i) c = true).
  { intros i. unfold subs1. now rewrite in_fst_filter_entries. }
  assert (H2 : forall i, In i subs2 <-> cmp v0 c = true /\ inb (sshape A) i = true /\ ~ In i (ssubs A)).
  { intros i. unfold subs2. destruct (cmp v0 c); [rewrite in_zero_subs; tauto|cbn; split; [tauto|intros [? _]; discriminate]]. }
  destruct (sp_const_char (sshape A) (subs1 ++ subs2) (fun i => cmp (den A i) c)) as (W & D).
  - apply NoDup_app_intro.
    + unfold subs1. apply NoDup_map_fst_filter. now apply NoDup_fst_entries.
    + unfold subs2. destruct (cmp v0 c); [apply NoDup_zero_subs|constructor].
    + intros i Hi1 Hi2. apply H1 in Hi1. apply H2 in Hi2. tauto.
  - intros i Hi. apply in_app_iff in Hi as [Hi|Hi]; [apply H1 in Hi; now apply wf_inb|apply H2 in Hi; tauto].
  - intros i Hi. rewrite in_app_iff, H1, H2.
    destruct (in_dec idx_dec i (ssubs A)) as [Hin|Hout]; [tauto|].
    rewrite (den_sp_notin v0 A i Hout). tauto.
  - split; [exact W|split; [reflexivity|exact D]].
Qed.

(* comparison of two sparse tensors *)
Theorem impl_cmp_correct (cmp : V -> V -> bool) (A B : sparse V) : wf A -> wf B -> sshape B = sshape A ->
  wf (impl_cmp v0 one cmp A B) /\ sshape (impl_cmp v0 one cmp A B) = sshape A /\
  forall i, inb (sshape A) i = true -> den (impl_cmp v0 one cmp A B) i = bv (cmp (den A i) (den B i)).
Proof.
  intros WA WB Hs. pose proof (wf_sp_struct isz A WA) as WsA. pose proof (wf_sp_struct isz B WB) as WsB.
  unfold impl_cmp.
  set (subs1 := filter (fun i => cmp (den A i) v0) (rows_diff (ssubs A) (ssubs B))).
  set (subs2 := filter (fun i => cmp v0 (den B i)) (rows_diff (ssubs B) (ssubs A))).
  set (subs3 := filter (fun i => cmp (den A i) (den B i)) (rows_inter (ssubs B) (ssubs A))).
  set (subs4 := if cmp v0 v0 then rows_inter (zero_subs B) (zero_subs A) else []).
  assert (H1 : forall i, In i subs1 <-> (In i (ssubs A) /\ ~ In i (ssubs B)) /\ cmp (den A i) v0 = true).
  { intros i. unfold subs1, rows_diff. rewrite !filter_In, negb_true_iff, mem_false. tauto. }
  assert (H2 : forall i, In i subs2 <-> (In i (ssubs B) /\ ~ In i (ssubs A)) /\ cmp v0 (den B i) = true).
  { intros i. unfold subs2, rows_diff. rewrite !filter_In, negb_true_iff, mem_false. tauto. }
  assert (H3 : forall i, In i subs3 <-> (In i (ssubs A) /\ In i (ssubs B)) /\ cmp (den A i) (den B i) = true).
  { intros i. unfold subs3, rows_inter. rewrite !filter_In, mem_spec. tauto. }
  assert (H4 : forall i, In i subs4 <-> cmp v0 v0 = true /\ inb (sshape A) i = true /\ ~ In i (ssubs A) /\ ~ In i (ssubs B)).
  { intros i. unfold subs4. destruct (cmp v0 v0).
    - unfold rows_inter. rewrite filter_In, mem_spec, !in_zero_subs, Hs. tauto.
    - cbn. split; [tauto|intros [? _]; discriminate]. }
  assert (N1 : NoDup subs1) by (apply NoDup_filter, NoDup_filter; now destruct WsA as (_ & ? & _)).
  assert (N2 : NoDup subs2) by (apply NoDup_filter, NoDup_filter; now destruct WsB as (_ & ? & _)).
  assert (N3 : NoDup subs3) by (apply NoDup_filter, NoDup_filter; now destruct WsB as (_ & ? & _)).
  assert (N4 : NoDup subs4) by (unfold subs4; destruct (cmp v0 v0); [apply NoDup_filter, NoDup_zero_subs|constructor]).
  destruct (sp_const_char (sshape A) (subs1 ++ subs2 ++ subs3 ++ subs4) (fun i => cmp (den A i) (den B i))) as (W & D).
  - apply NoDup_app_intro; auto; [apply NoDup_app_intro; auto; [apply NoDup_app_intro; auto|]|].
    + intros i Hi3 Hi4. apply H3 in Hi3. apply H4 in Hi4. tauto.
    + intros i Hi2 Hi. apply H2 in Hi2. apply in_app_iff in Hi as [Hi|Hi]; [apply H3 in Hi|apply H4 in Hi]; tauto.
    + intros i Hi1 Hi. apply H1 in Hi1. rewrite !in_app_iff in Hi.
      destruct Hi as [Hi|[Hi|Hi]]; [apply H2 in Hi|apply H3 in Hi|apply H4 in Hi]; tauto.
  - intros i Hi. rewrite !in_app_iff in Hi. destruct Hi as [Hi|[Hi|[Hi|Hi]]].
    + apply H1 in Hi. apply wf_inb; tauto.
    + apply H2 in Hi. rewrite <- Hs. apply wf_inb; tauto.
    + apply H3 in Hi. apply wf_inb; tauto.
    + apply H4 in Hi. tauto.
  - intros i Hi. rewrite !in_app_iff, H1, H2, H3, H4.
    destruct (in_dec idx_dec i (ssubs A)) as [HA|HA], (in_dec idx_dec i (ssubs B)) as [HB|HB];
      try rewrite (den_sp_notin v0 A i HA); try rewrite (den_sp_notin v0 B i HB); tauto.
  - split; [exact W|split; [reflexivity|exact D]].
Qed.

(* comparison with a dense tensor *)
Theorem impl_cmp_dense_correct (cmp : V -> V -> bool) (A : sparse V) (T : dense V) : wf A ->
  wf (impl_cmp_dense v0 one cmp A T) /\ sshape (impl_cmp_dense v0 one cmp A T) = sshape A /\
  forall i, inb (sshape A) i = true -> den (impl_cmp_dense v0 one cmp A T) i = bv (cmp (den A i) (den_dense v0 T i)).
Proof.
  intros WA. pose proof (wf_sp_struct isz A WA) as Ws. unfold impl_cmp_dense.
  set (subs1 := filter (fun i => cmp v0 (den_dense v0 T i)) (zero_subs A)).
  set (subs2 := map fst (filter (fun e => cmp (snd e) (den_dense v0 T (fst e))) (entries A))).
  assert (H1 : forall i, In i subs1 <-> (inb (sshape A) i = true /\ ~ In i (ssubs A)) /\ cmp v0 (den_dense v0 T i) = true).
  { intros i. unfold subs1. now rewrite filter_In, in_zero_subs. }
  assert (H2 : forall i, In i subs2 <-> In i (ssubs A) /\ cmp (den A i) (den_dense v0 T i) = true).
  { intros i. unfold subs2. now rewrite in_fst_filter_entries. }
  destruct (sp_const_char (sshape A) (subs1 ++ subs2) (fun i => cmp (den A i) (den_dense v0 T i))) as (W & D).
  - apply NoDup_app_intro.
    + apply NoDup_filter, NoDup_zero_subs.
    + unfold subs2. apply NoDup_map_fst_filter. now apply NoDup_fst_entries.
    + intros i Hi1 Hi2. apply H1 in Hi1. apply H2 in Hi2. tauto.
  - intros i Hi. apply in_app_iff in Hi as [Hi|Hi]; [apply H1 in Hi; tauto|apply H2 in Hi; apply wf_inb; tauto].
  - intros i Hi. rewrite in_app_iff, H1, H2.
    destruct (in_dec idx_dec i (ssubs A)) as [Hin|Hout]; [tauto|].
    rewrite (den_sp_notin v0 A i Hout). tauto.
  - split; [exact W|split; [reflexivity|exact D]].
Qed.
End Logic.

(* ------------------------------------------------------------------------------------------ *)
(* entry-wise maps of the stored entries: * (scalar, dense, sparse), elemfun                    *)
(* ------------------------------------------------------------------------------------------ *)
Lemma map_entries_correct (h : idx -> V -> V) (p : idx -> bool) (A : sparse V) : wfs A ->
  let R := of_entries (sshape A) (drop_zeros isz (map (fun e => (fst e, h (fst e) (snd e)))
                                                   (filter (fun e => p (fst e)) (entries A)))) in
  wf R /\ sshape R = sshape A /\
  forall i, den R i = if mem i (ssubs A) && p i then h i (den A i) else v0.
Proof.
  intros W. cbv zeta.
  set (es := filter (fun e => p (fst e)) (entries A)).
  set (es' := map (fun e => (fst e, h (fst e) (snd e))) es).
  assert (Hfst : map fst es' = map fst es) by (unfold es'; now rewrite map_map).
  assert (Hn : NoDup (map fst es')).
  { rewrite Hfst. unfold es. apply NoDup_map_fst_filter. now apply NoDup_fst_entries. }
  split; [|split; [reflexivity|]].
  - apply wf_of_drop; auto. intros e He. apply in_map_iff in He as (e0 & <- & He0). cbn.
    apply filter_In in He0 as [He0 _]. now apply in_entries_inb.
  - intros i. destruct (mem i (ssubs A) && p i) eqn:Hc.
    + apply andb_true_iff in Hc as [Hm Hp]. apply mem_spec in Hm.
      apply den_of_drop_in; auto. apply in_map_iff. exists (i, den A i). split; auto.
      apply filter_In. split; auto. now apply in_subs_entry.
    + apply den_of_drop_notin. rewrite Hfst. intros Hin. apply in_map_iff in Hin as ([j v] & Ej & He).
      cbn in Ej. subst j. apply filter_In in He as [He Hp]. cbn in Hp.
      unfold entries in He. apply in_combine_l in He. apply mem_spec in He. rewrite He, Hp in Hc. discriminate.
Qed.

Section Mul.
Variable vmul : V -> V -> V.
Hypothesis vmul_0_l : forall x, vmul v0 x = v0.
Hypothesis vmul_0_r : forall x, vmul x v0 = v0.

Theorem impl_mul_scalar_correct (A : sparse V) (c : V) : wf A ->
  wf (impl_mul_scalar isz vmul A c) /\ sshape (impl_mul_scalar isz vmul A c) = sshape A /\
  forall i, den (impl_mul_scalar isz vmul A c) i = vmul (den A i) c.
Proof.
  intros WA. pose proof (wf_sp_struct isz A WA) as Ws.
  destruct (map_entries_correct (fun _ v => vmul v c) (fun _ => true) A Ws) as (W & S & D).
  unfold impl_mul_scalar. cbv beta in W, S, D. rewrite filter_K_true in W, S, D.
  split; [exact W|split; [exact S|]]. intros i. rewrite D, andb_true_r.
  destruct (mem i (ssubs A)) eqn:Hm; auto. apply mem_false in Hm. now rewrite (den_sp_notin v0 A i Hm).
Qed.

Theorem impl_mul_dense_correct (A : sparse V) (T : dense V) : wf A ->
  wf (impl_mul_dense v0 isz vmul A T) /\ sshape (impl_mul_dense v0 isz vmul A T) = sshape A /\
  forall i, den (impl_mul_dense v0 isz vmul A T) i = vmul (den A i) (den_dense v0 T i).
Proof.
  intros WA. pose proof (wf_sp_struct isz A WA) as Ws.
  destruct (map_entries_correct (fun i v => vmul v (den_dense v0 T i)) (fun _ => true) A Ws) as (W & S & D).
  unfold impl_mul_dense. cbv beta in W, S, D. rewrite filter_K_true in W, S, D.
  split; [exact W|split; [exact S|]]. intros i. rewrite D, andb_true_r.
  destruct (mem i (ssubs A)) eqn:Hm; auto. apply mem_false in Hm. now rewrite (den_sp_notin v0 A i Hm).
Qed.

Theorem impl_mul_correct (A B : sparse V) : wf A -> wf B -> sshape B = sshape A ->
  wf (impl_mul v0 isz vmul A B) /\ sshape (impl_mul v0 isz vmul A B) = sshape A /\
  forall i, den (impl_mul v0 isz vmul A B) i = vmul (den A i) (den B i).
Proof.
  intros WA WB Hs. pose proof (wf_sp_struct isz A WA) as Ws.
  destruct (map_entries_correct (fun i v => vmul v (den B i)) (fun i => mem i (ssubs B)) A Ws) as (W & S & D).
  split; [exact W|split; [exact S|]]. intros i. unfold impl_mul. rewrite D.
  destruct (mem i (ssubs A)) eqn:HA, (mem i (ssubs B)) eqn:HB; cbn; auto.
  - apply mem_false in HB. now rewrite (den_sp_notin v0 B i HB).
  - apply mem_false in HA. now rewrite (den_sp_notin v0 A i HA).
  - apply mem_false in HA. now rewrite (den_sp_notin v0 A i HA).
Qed.
End Mul.

(* elemfun acts on the stored nonzeros only; zero results are not stored *)
Theorem impl_elemfun_correct (g : V -> V) (A : sparse V) : wf A ->
  wf (impl_elemfun isz g A) /\ sshape (impl_elemfun isz g A) = sshape A /\
  forall i, den (impl_elemfun isz g A) i = if isz (den A i) then v0 else g (den A i).
Proof.
  intros WA. pose proof (wf_sp_struct isz A WA) as Ws.
  destruct (map_entries_correct (fun _ v => g v) (fun _ => true) A Ws) as (W & S & D).
  unfold impl_elemfun. cbv beta in W, S, D. rewrite filter_K_true in W, S, D.
  split; [exact W|split; [exact S|]]. intros i. rewrite D, andb_true_r, mem_subs by auto.
  now destruct (isz (den A i)).
Qed.


(* ------------------------------------------------------------------------------------------ *)
(* operators that answer with a dense tensor: full() then the dense element-wise operator       *)
(* ------------------------------------------------------------------------------------------ *)
Lemma den_full_nth (A : sparse V) i : wfs A -> inb (sshape A) i = true ->
  nth (sub2ind (sshape A) i) (ddata (full v0 A)) v0 = den A i.
Proof.
  intros (_ & _ & Hb) Hi. rewrite <- (den_full v0 A i Hb). unfold den_dense. cbn [dshape full]. now rewrite Hi.
Qed.

Theorem impl_dense_scalar_correct {W} (w0 : W) (f : V -> V -> W) (A : sparse V) (c : V) : wfs A ->
  wf_dense (impl_dense_scalar v0 f A c) /\ dshape (impl_dense_scalar v0 f A c) = sshape A /\
  forall i, inb (sshape A) i = true -> den_dense w0 (impl_dense_scalar v0 f A c) i = f (den A i) c.
Proof.
  intros Ws. pose proof (wf_full v0 A) as WF. unfold wf_dense in WF. cbn [dshape full] in WF.
  split; [|split; [reflexivity|]].
  - unfold wf_dense, impl_dense_scalar. cbn [dshape ddata]. now rewrite map_length.
  - intros i Hi. unfold den_dense, impl_dense_scalar. cbn [dshape ddata]. rewrite Hi.
    pose proof (sub2ind_lt _ _ Hi) as Hlt.
    rewrite (nth_indep _ w0 (f v0 c)) by (rewrite map_length; cbn [ddata full] in *; lia).
    rewrite (map_nth (fun v => f v c)). now rewrite den_full_nth.
Qed.

Theorem impl_dense_dense_correct {W} (w0 : W) (f : V -> V -> W) (A : sparse V) (T : dense V) :
  wfs A -> wf_dense T -> dshape T = sshape A ->
  wf_dense (impl_dense_dense v0 f A T) /\ dshape (impl_dense_dense v0 f A T) = sshape A /\
  forall i, inb (sshape A) i = true -> den_dense w0 (impl_dense_dense v0 f A T) i = f (den A i) (den_dense v0 T i).
Proof.
  intros Ws WT Hs. pose proof (wf_full v0 A) as WF. unfold wf_dense in WF, WT. cbn [dshape full] in WF.
  rewrite Hs in WT.
  split; [|split; [reflexivity|]].
  - unfold wf_dense, impl_dense_dense. cbn [dshape ddata]. rewrite map_length, combine_length. cbn [ddata full] in *. lia.
  - intros i Hi. unfold den_dense at 1. unfold impl_dense_dense. cbn [dshape ddata]. rewrite Hi.
    pose proof (sub2ind_lt _ _ Hi) as Hlt.
    rewrite (nth_indep _ w0 ((fun p => f (fst p) (snd p)) (v0, v0)))
      by (rewrite map_length, combine_length; cbn [ddata full] in *; lia).
    rewrite (map_nth (fun p => f (fst p) (snd p))). rewrite combine_nth by (cbn [ddata full] in *; lia).
    cbn [fst snd]. rewrite den_full_nth by auto. unfold den_dense. now rewrite Hs, Hi.
Qed.

End Proofs.
