(* Proofs/C19W5.v — wave 5: sptensor.scale with a numpy vector as factor (C19-N27, open). *)
From Coq Require Import List ZArith Bool Lia Permutation.
From PV Require Import Np.NpZ Np.NpZ2 Gen.GenUtils Proofs.NpZProofs Proofs.UtilsProofs
  Model.C19Guards Proofs.C19Proofs Proofs.C19Ttv Proofs.C19More Proofs.C19W3 Proofs.C19W4.
Import ListNotations.
Local Open Scope Z_scope.

Lemma np_sort_length (l : vec) : length (np_sort l) = length l.
Proof. apply Permutation_length, np_sort_perm. Qed.

Lemma np_sort_single (m : Z) : np_sort [m] = [m].
Proof.
  pose proof (np_sort_perm [m]) as P. apply Permutation_sym, Permutation_length_1_inv in P. exact P.
Qed.

Definition one_mode_ok (s : vec) (flen : Z) (d : vec) : bool := match d with [m] => flen =? sz s m | _ => false end.

(* the answered set, exactly: well-formed mode list and (no entry stored, or one mode whose length the vector has) *)
Theorem sptensor_scale_arr_exact s e flen d :
  guard_sptensor_scale_arr s e flen d = decide (modes_ok (ndim s) d && (e || one_mode_ok s flen d)).
Proof.
  unfold guard_sptensor_scale_arr. destruct (modes_ok (ndim s) d) eqn:Hm.
  - apply modes_ok_spec in Hm as [Hr Hn]. rewrite (dimscheck_dims (ndim s) None d).
    + cbn [andb]. destruct e; [reflexivity|]. cbn [orb]. unfold one_mode_ok.
      destruct d as [|m [|m' r]].
      * reflexivity.
      * rewrite np_sort_single. destruct (flen =? sz s m); reflexivity.
      * pose proof (np_sort_length (m :: m' :: r)) as L. destruct (np_sort (m :: m' :: r)) as [|a [|b t]]; cbn in L; try discriminate. reflexivity.
    + repeat split; auto; apply Hr; auto.
  - now rewrite dimscheck_rejects_bad_modes.
Qed.

Definition sptensor_scale_arr_stmt : Prop :=
  forall s e flen d, guard_sptensor_scale_arr s e flen d = decide (pre_sptensor_scale_arr s e flen d).
Theorem sptensor_scale_arr_refuted : ~ sptensor_scale_arr_stmt.
Proof. intros H. specialize (H [2; 3; 2] true 5 [1]). vm_compute in H. discriminate. Qed.
Theorem sptensor_scale_arr_partial s flen d :
  guard_sptensor_scale_arr s false flen d = decide (pre_sptensor_scale_arr s false flen d).
Proof. rewrite sptensor_scale_arr_exact. reflexivity. Qed.
(* "answered although ill-formed" = the trigger region of C19-N27 *)
Theorem sptensor_scale_arr_gap s e flen d :
  guard_sptensor_scale_arr s e flen d = Ok tt /\ pre_sptensor_scale_arr s e flen d = false <->
  e = true /\ modes_ok (ndim s) d = true /\ one_mode_ok s flen d = false.
Proof.
  rewrite sptensor_scale_arr_exact. unfold pre_sptensor_scale_arr. fold (one_mode_ok s flen d). unfold decide.
  destruct (modes_ok (ndim s) d), e, (one_mode_ok s flen d); cbn; split; intros H; try (destruct H as [A B]); try discriminate;
    try (destruct B; discriminate); repeat split; auto.
Qed.

(* ---- tensor.ttsv, default algorithm (C19-N28, open) ---- *)
Lemma zprod_const c (l : vec) : forallb (fun x => x =? c) l = true -> zprod l = c ^ zlen l.
Proof.
  induction l as [|x l IH]; intros H; [reflexivity|]. cbn [forallb] in H. apply andb_true_iff in H as [Hx Hl].
  apply Z.eqb_eq in Hx. subst x. unfold zprod in *. cbn [fold_right]. rewrite (IH Hl).
  replace (zlen (c :: l)) with (Z.succ (zlen l)) by (unfold zlen; cbn [length]; lia).
  rewrite Z.pow_succ_r by (unfold zlen; lia). reflexivity.
Qed.

Lemma cubical_count s : cubical s = true -> zprod s = sz s 0 ^ ndim s.
Proof. intros H. apply zprod_const. exact H. Qed.

Lemma cubical_small s : zlen s <= 1 -> cubical s = true.
Proof.
  destruct s as [|x [|y r]]; intros H; [reflexivity| |unfold zlen in H; cbn [length] in H; lia].
  unfold cubical, sz. cbn. now rewrite Z.eqb_refl.
Qed.

Definition ttsv_stmt : Prop := forall s vlen skip, guard_ttsv s vlen skip = decide (pre_ttsv s vlen skip).
Theorem ttsv_refuted : ~ ttsv_stmt.
Proof. intros H. specialize (H [2; 4; 1] 2 None). vm_compute in H. discriminate. Qed.

(* exact on every tensor that is cubical or does not have the element count of a cubical tensor, for skip_dim below ndims *)
Theorem ttsv_partial s vlen skip :
  cubical s = true \/ zprod s <> sz s 0 ^ ndim s ->
  match skip with Some k => k < ndim s | None => True end ->
  guard_ttsv s vlen skip = decide (pre_ttsv s vlen skip).
Proof.
  intros H Hk.
  assert (HC : (cubical s = true /\ (zprod s =? sz s 0 ^ ndim s) = true) \/ (cubical s = false /\ (zprod s =? sz s 0 ^ ndim s) = false)).
  { destruct H as [H|H].
    - left. split; [exact H|]. apply Z.eqb_eq. now apply cubical_count.
    - right. split; [|now apply Z.eqb_neq]. destruct (cubical s) eqn:E; [|reflexivity]. exfalso. apply H. now apply cubical_count. }
  clear H. unfold guard_ttsv, pre_ttsv. cbv zeta.
  assert (Hd : 0 <= ndim s) by (unfold ndim, zlen; lia).
  destruct skip as [k|]; unfold ttsv_dnew.
  - unfold in_range. destruct (Z.leb_spec 0 k) as [H0|H0]; cbn [andb chk andthen decide]; [|reflexivity].
    replace (k <? ndim s) with true by (symmetry; apply Z.ltb_lt; exact Hk). cbn [andb].
    destruct (Z.ltb_spec 0 (ndim s - (k + 1))) as [Hr|Hr].
    + replace (ndim s - (k + 1) =? 0) with false by (symmetry; apply Z.eqb_neq; lia). cbn [orb].
      rewrite (Z.eqb_sym vlen). destruct HC as [[-> ->]|[-> ->]]; cbn [chk andthen andb decide]; [|reflexivity].
      destruct (sz s 0 =? vlen); reflexivity.
    + assert (Ed : ndim s = k + 1) by lia. replace (ndim s - (k + 1) =? 0) with true by (symmetry; apply Z.eqb_eq; lia).
      cbn [orb]. rewrite andb_true_r. rewrite <- Ed.
      destruct (Z.leb_spec 2 (ndim s)) as [H2|H2].
      * destruct HC as [[-> ->]|[-> ->]]; reflexivity.
      * rewrite cubical_small by (unfold ndim in H2; lia). reflexivity.
  - cbn [chk andthen andb]. rewrite Z.sub_0_r.
    destruct (Z.ltb_spec 0 (ndim s)) as [Hr|Hr].
    + replace (ndim s =? 0) with false by (symmetry; apply Z.eqb_neq; lia). cbn [orb].
      rewrite (Z.eqb_sym vlen). destruct HC as [[-> ->]|[-> ->]]; cbn [chk andthen andb decide]; [|reflexivity].
      destruct (sz s 0 =? vlen); reflexivity.
    + replace (ndim s =? 0) with true by (symmetry; apply Z.eqb_eq; lia). cbn [orb Z.leb]. rewrite andb_true_r.
      rewrite cubical_small by (unfold ndim in Hr; lia). reflexivity.
Qed.

(* every well-formed request is answered *)
Theorem ttsv_answers_wf s vlen skip : pre_ttsv s vlen skip = true -> guard_ttsv s vlen skip = Ok tt.
Proof.
  intros H. pose proof H as H'. unfold pre_ttsv in H'. apply andb_true_iff in H' as [H' _]. apply andb_true_iff in H' as [Hs Hc].
  rewrite ttsv_partial; [now rewrite H|now left|].
  destruct skip as [k|]; [|exact I]. unfold in_range in Hs. apply andb_true_iff in Hs as [_ Hs]. now apply Z.ltb_lt in Hs.
Qed.

(* ---- ttensor.reconstruct(samples, modes) (C19-N29, open) ---- *)
Definition wrap_range (N m : Z) : bool := (- N <=? m) && (m <? N).
Theorem reconstruct_exact s modes nsamp :
  guard_reconstruct s modes nsamp = decide ((nsamp =? zlen modes) && forallb (wrap_range (ndim s)) modes).
Proof.
  unfold guard_reconstruct. fold (wrap_range (ndim s)). destruct (nsamp =? zlen modes); cbn [chk andthen andb decide]; [|reflexivity].
  destruct (forallb _ modes); reflexivity.
Qed.
Definition reconstruct_stmt : Prop := forall s modes nsamp, guard_reconstruct s modes nsamp = decide (pre_reconstruct s modes nsamp).
Theorem reconstruct_refuted : ~ reconstruct_stmt.
Proof. intros H. specialize (H [2; 3; 4] [-1] 1). vm_compute in H. discriminate. Qed.

Lemma wrap_nonneg N modes : forallb (fun m => 0 <=? m) modes = true -> forallb (wrap_range N) modes = forallb (in_range N) modes.
Proof.
  induction modes as [|m r IH]; intros H; [reflexivity|]. cbn [forallb] in *. apply andb_true_iff in H as [Hm Hr].
  rewrite (IH Hr). f_equal. unfold wrap_range, in_range. rewrite Hm. apply Z.leb_le in Hm.
  destruct (Z.ltb_spec m N); [|now rewrite andb_false_r]. rewrite andb_true_r. apply Z.leb_le. lia.
Qed.

(* exact on every request whose modes are non-negative and pairwise different *)
Theorem reconstruct_partial s modes nsamp :
  forallb (fun m => 0 <=? m) modes = true -> nodupb modes = true ->
  guard_reconstruct s modes nsamp = decide (pre_reconstruct s modes nsamp).
Proof.
  intros H0 Hn. rewrite reconstruct_exact, (wrap_nonneg _ _ H0). unfold pre_reconstruct, modes_ok. rewrite Hn, andb_true_r.
  f_equal. apply andb_comm.
Qed.

(* "answered although ill-formed" = the trigger region of C19-N29: the counts agree, every mode is in [-ndims, ndims), and a mode is
   negative or listed twice *)
Theorem reconstruct_gap s modes nsamp :
  guard_reconstruct s modes nsamp = Ok tt /\ pre_reconstruct s modes nsamp = false <->
  nsamp = zlen modes /\ forallb (wrap_range (ndim s)) modes = true /\ modes_ok (ndim s) modes = false.
Proof.
  rewrite reconstruct_exact. unfold pre_reconstruct, decide.
  destruct (Z.eqb_spec nsamp (zlen modes)) as [E|E]; cbn [andb].
  - destruct (forallb (wrap_range (ndim s)) modes), (modes_ok (ndim s) modes); cbn [andb]; split; intros H;
      try (destruct H as [A B]); try discriminate; try (destruct B; discriminate); repeat split; auto.
  - rewrite andb_false_r. split; intros [A B]; [discriminate|contradiction].
Qed.

(* ---- ktensor.score, sptensor.subdims, ktensor.from_vector ---- *)
Theorem score_decides s u ra rb thr_ok : guard_score s u ra rb thr_ok = decide (pre_score s u ra rb thr_ok).
Proof.
  unfold guard_score, pre_score. destruct (shape_eqb s u), thr_ok; cbn [chk andthen andb decide]; try reflexivity;
    destruct (Z.ltb_spec ra rb), (Z.leb_spec rb ra); try reflexivity; lia.
Qed.
Theorem subdims_decides s k : guard_subdims s k = decide (pre_subdims s k).
Proof. unfold guard_subdims, pre_subdims. destruct (k =? ndim s); reflexivity. Qed.
Theorem from_vector_decides n shape cw : guard_from_vector n shape cw = decide (pre_from_vector n shape cw).
Proof.
  unfold guard_from_vector, pre_from_vector. cbv zeta. destruct (_ =? 0); cbn [negb andb andthen decide]; [reflexivity|].
  destruct (_ =? 0); reflexivity.
Qed.
