(* Props/C02w4.v — property C02, wave 4: MTTKRP with a Kruskal operand "with its weights applied", stated over the
   translator-GENERATED get_mttkrp_factors (Gen/GenUtils3.v, regenerated from /repo/pyttb/pyttb_utils.py on every run).
   Only statements, `exact`, Print Assumptions (and closed Examples).  Proofs: Proofs/C02AbsorbGen.v. *)
From Coq Require Import List Arith Bool ZArith Ring.
From PV Require Import Base.Index Base.Perm Base.Sum Np.Array Model.Sparse Model.Repr Model.C02Spec Model.C02Dense Model.C02Absorb
                       Model.C02Kruskal Model.C02SpKernels Model.C02Tucker Model.C02TuckerFull Model.C02Ttsv
                       Np.NpZ Np.NpZ3 Gen.GenUtils3 Proofs.C02DenseProofs Proofs.C02AbsorbGen Proofs.C02TtsvProofs Proofs.C02TuckerSpProofs
                       Gen.GenUtils Model.C02Modes Model.C02SpMore Model.C02KruskalMore Proofs.C02ModesProofs Proofs.C02ReqGen
                       Model.C02Tenmat Model.C02DimsReq Proofs.UtilsProofs Proofs.C02CollapseReq Proofs.C02SpTtmListProofs Proofs.C02ReqGenTtm.
Import ListNotations.

Section C02w4.
Variable V : Type.
Variables (v0 v1 : V) (vadd vmul vsub : V -> V -> V) (vopp : V -> V).
Hypothesis Vring : ring_theory v0 v1 vadd vmul vsub vopp (@eq V).
Variable isz : V -> bool.

(* tensor.ttsv (default "version 2": the loop  yy = reshape(y, (sz^(dnew+i-1), sz)); y = yy.dot(vector), last mode first) on a cubical
   tensor: the defining sum of ttv with the SAME vector in every mode dnew .. N-1 (dnew = skip_dim + 1, or 0); any order, size, dnew <= N *)
Theorem C02_ttsv_dense : forall (X : dense V) (v : list V) (sz d dnew : nat),
  wf_dense X -> dshape X = List.repeat sz d -> 1 <= d -> dnew <= d ->
  let Y := impl_ttsv v0 vadd vmul X v dnew in
  dshape Y = List.repeat sz dnew /\ wf_dense Y /\
  forall i', inb (List.repeat sz dnew) i' = true ->
    den_dense v0 Y i' = spec_ttv v0 vadd vmul (den_dense v0 X) (List.repeat sz d) (seq dnew (d - dnew)) (List.repeat v (d - dnew)) i'.
Proof. exact (impl_ttsv_correct V v0 vadd vmul). Qed.

(* ttensor.innerprod(sptensor), both sides of its size switch: full().innerprod(S) [= sptensor.innerprod(tensor)] when the core is larger
   than the tensor, otherwise S.ttm(factors, transpose=True) [sptensor.ttm, list form] .innerprod(core) *)
Theorem C02_innerprod_tucker_sparse : forall (T : ttensor V) (S : sparse V),
  wf_dense (tcore T) -> length (dshape (tcore T)) = length (tfactors T) -> 1 <= length (tfactors T) ->
  wf_sp isz S -> sshape S = tshape T ->
  impl_innerprod_t_sp V v0 vadd vmul T S = spec_innerprod v0 vadd vmul (den_t v0 v1 vadd vmul T) (den_sp v0 S) (tshape T).
Proof. exact (impl_innerprod_t_sp_correct V v0 v1 vadd vmul vsub vopp Vring isz). Qed.

(* sptensor.ttv / ktensor.ttv / ttensor.ttv AS CALLED: the request (dims in any order | exclude_dims | neither; |dims| or N vectors)
   resolved by the GENERATED tt_dimscheck, the class's kernel on the sorted modes, stated over the CALLER's own order of the modes *)
Theorem C02_ttv_req_resolves : forall (R : Type) (N : nat) (kernel : list nat -> list (list V) -> R) dims excl (vs : list (list V)),
  admissible (Z.of_nat N) dims excl (zlen vs) ->
  let d := req_modes (Z.of_nat N) dims excl in
  let cd := nats d in
  exists sd svs, ttv_req V N kernel dims excl vs = Ok (kernel sd svs) /\
    length svs = length sd /\ NoDup sd /\ (forall x, In x sd -> x < N) /\ compl N sd = compl N cd /\
    forall (f : idx -> V) s i', length s = N -> length i' = length (compl N cd) ->
      spec_ttv v0 vadd vmul f s sd svs i' = spec_ttv v0 vadd vmul f s cd (map (attach [] d vs) cd) i'.
Proof. exact (@ttv_req_resolves V v0 v1 vadd vmul vsub vopp Vring). Qed.

Theorem C02_ttv_sparse_req_caller : forall (S : sparse V) dims excl (vs : list (list V)), wf_sp isz S ->
  admissible (Z.of_nat (length (sshape S))) dims excl (zlen vs) ->
  let d := req_modes (Z.of_nat (length (sshape S))) dims excl in
  let cd := nats d in
  exists Y, ttv_req V (length (sshape S)) (impl_ttv_sp v0 v1 vadd vmul S) dims excl vs = Ok Y /\
    forall i', inb (ttv_shape (sshape S) cd) i' = true ->
      Y i' = spec_ttv v0 vadd vmul (den_sp v0 S) (sshape S) cd (map (attach [] d vs) cd) i'.
Proof. exact (ttv_sparse_req_caller V v0 v1 vadd vmul vsub vopp Vring isz). Qed.

Theorem C02_ttv_kruskal_req_caller : forall (K : ktensor V) dims excl (vs : list (list V)),
  admissible (Z.of_nat (length (kfactors K))) dims excl (zlen vs) ->
  let d := req_modes (Z.of_nat (length (kfactors K))) dims excl in
  let cd := nats d in
  exists Y, ttv_req V (length (kfactors K)) (impl_ttv_k v0 v1 vadd vmul K) dims excl vs = Ok Y /\
    forall i', inb (ttv_shape (kshape K) cd) i' = true ->
      den_k v0 v1 vadd vmul Y i' = spec_ttv v0 vadd vmul (den_k v0 v1 vadd vmul K) (kshape K) cd (map (attach [] d vs) cd) i'.
Proof. exact (ttv_kruskal_req_caller V v0 v1 vadd vmul vsub vopp Vring). Qed.

Theorem C02_ttv_tucker_req_caller : forall (T : ttensor V) dims excl (vs : list (list V)),
  wf_dense (tcore T) -> length (dshape (tcore T)) = length (tfactors T) ->
  admissible (Z.of_nat (length (tfactors T))) dims excl (zlen vs) ->
  let d := req_modes (Z.of_nat (length (tfactors T))) dims excl in
  let cd := nats d in
  exists Y, ttv_req V (length (tfactors T)) (impl_ttv_t v0 vadd vmul T) dims excl vs = Ok Y /\
    forall i', inb (ttv_shape (tshape T) cd) i' = true ->
      den_t v0 v1 vadd vmul Y i' = spec_ttv v0 vadd vmul (den_t v0 v1 vadd vmul T) (tshape T) cd (map (attach [] d vs) cd) i'.
Proof. exact (ttv_tucker_req_caller V v0 v1 vadd vmul vsub vopp Vring). Qed.

(* collapse: the defining sum does not depend on the order in which the collapsed modes are listed ... *)
Theorem C02_collapse_perm_invariant : forall (f : idx -> V) s dims dims' i',
  NoDup dims -> (forall x, In x dims -> x < length s) -> Permutation.Permutation dims dims' ->
  length i' = length (compl (length s) dims) ->
  spec_collapse v0 vadd f s dims i' = spec_collapse v0 vadd f s dims' i'.
Proof. exact (spec_collapse_perm V v0 v1 vadd vmul vsub vopp Vring). Qed.

(* ... so tensor.collapse(dims) (default reducer; modes sorted by the GENERATED tt_dimscheck) is the sum over the caller's listing ... *)
Theorem C02_collapse_dense_req_caller : forall (X : dense V) (d : vec),
  wf_dense X -> dims_ok (Z.of_nat (length (dshape X))) None d ->
  compl (length (dshape X)) (nats d) <> [] ->
  exists Y, impl_collapse_req v0 (sumv v0 vadd) X (Some d) = Ok Y /\
    dshape Y = ttv_shape (dshape X) (nats d) /\ wf_dense Y /\
    forall i', inb (ttv_shape (dshape X) (nats d)) i' = true ->
      den_dense v0 Y i' = spec_collapse v0 vadd (den_dense v0 X) (dshape X) (nats d) i'.
Proof. exact (collapse_dense_req_caller V v0 v1 vadd vmul vsub vopp Vring). Qed.

(* ... and so is sptensor.collapse on the sorted modes *)
Theorem C02_collapse_sparse_caller : forall (S : sparse V) (d : vec) i', wf_sp isz S ->
  (forall x, In x d -> (0 <= x < Z.of_nat (length (sshape S)))%Z) -> NoDup d ->
  inb (ttv_shape (sshape S) (nats d)) i' = true ->
  impl_collapse_sp v0 vadd S (nats (np_sort d)) i' = spec_collapse v0 vadd (den_sp v0 S) (sshape S) (nats d) i'.
Proof. exact (collapse_sparse_caller V v0 v1 vadd vmul vsub vopp Vring isz). Qed.

(* sptensor.ttm / ttensor.ttm, list form, AS CALLED: request resolved by the GENERATED tt_dimscheck, stated over the caller's own order *)
Theorem C02_ttm_req_resolves : forall (R : Type) (N : nat) (kernel : list (nat * (nat * @matrix V)) -> bool -> R) dims excl
                                      (ms : list (nat * @matrix V)) tr,
  admissible (Z.of_nat N) dims excl (zlen ms) ->
  let d := req_modes (Z.of_nat N) dims excl in
  let cd := nats d in
  let nUs := combine cd (map (attach (@ttm_dflt V) d ms) cd) in
  exists snUs, ttm_req V N kernel dims excl ms tr = Ok (kernel snUs tr) /\
    Forall (fun p => fst p < N) snUs /\ (d <> [] -> snUs <> []) /\
    forall (f : idx -> V) s, length s = N ->
      ttm_list_shape s snUs = ttm_list_shape s nUs /\
      forall i, inb (ttm_list_shape s snUs) i = true ->
        spec_ttm_list v0 vadd vmul f s snUs tr i = spec_ttm_list v0 vadd vmul f s nUs tr i.
Proof. exact (@ttm_req_resolves V v0 v1 vadd vmul vsub vopp Vring). Qed.

Theorem C02_ttm_sparse_req_caller : forall (S : sparse V) dims excl (ms : list (nat * @matrix V)) tr, wf_sp isz S ->
  admissible (Z.of_nat (length (sshape S))) dims excl (zlen ms) ->
  let d := req_modes (Z.of_nat (length (sshape S))) dims excl in
  let cd := nats d in
  let nUs := combine cd (map (attach (@ttm_dflt V) d ms) cd) in
  d <> [] ->
  exists Y, ttm_req V (length (sshape S)) (impl_ttm_sp_list V v0 vadd vmul S) dims excl ms tr = Ok Y /\
    dshape Y = ttm_list_shape (sshape S) nUs /\ wf_dense Y /\
    forall i, inb (ttm_list_shape (sshape S) nUs) i = true ->
      den_dense v0 Y i = spec_ttm_list v0 vadd vmul (den_sp v0 S) (sshape S) nUs tr i.
Proof. exact (ttm_sparse_req_caller V v0 v1 vadd vmul vsub vopp Vring isz). Qed.

Theorem C02_ttm_tucker_req_caller : forall (T : ttensor V) dims excl (ms : list (nat * @matrix V)) tr,
  length (dshape (tcore T)) = length (tfactors T) ->
  admissible (Z.of_nat (length (tfactors T))) dims excl (zlen ms) ->
  let d := req_modes (Z.of_nat (length (tfactors T))) dims excl in
  let cd := nats d in
  let nUs := combine cd (map (attach (@ttm_dflt V) d ms) cd) in
  exists Y, ttm_req V (length (tfactors T)) (impl_ttm_t v0 vadd vmul T) dims excl ms tr = Ok Y /\
    tshape Y = ttm_list_shape (tshape T) nUs /\
    forall i, inb (ttm_list_shape (tshape T) nUs) i = true ->
      den_t v0 v1 vadd vmul Y i = spec_ttm_list v0 vadd vmul (den_t v0 v1 vadd vmul T) (tshape T) nUs tr i.
Proof. exact (ttm_tucker_req_caller V v0 v1 vadd vmul vsub vopp Vring). Qed.
End C02w4.
Print Assumptions C02_ttm_req_resolves.
Print Assumptions C02_ttm_sparse_req_caller.
Print Assumptions C02_ttm_tucker_req_caller.
Print Assumptions C02_collapse_perm_invariant.
Print Assumptions C02_collapse_dense_req_caller.
Print Assumptions C02_collapse_sparse_caller.
Print Assumptions C02_ttv_req_resolves.
Print Assumptions C02_ttv_sparse_req_caller.
Print Assumptions C02_ttv_kruskal_req_caller.
Print Assumptions C02_ttv_tucker_req_caller.
Print Assumptions C02_ttsv_dense.
Print Assumptions C02_innerprod_tucker_sparse.

(* a well-formed Kruskal operand (every factor has a row, every row one entry per weight) is ACCEPTED by the generated function, and
   the list it returns is the hand model of Model/C02Absorb.v (weights multiplied into factor 1 when n = 0, into factor 0 otherwise) *)
Theorem C02_get_mttkrp_factors_gen_is_model : forall (k : ktz) (n : nat),
  kt_wf k -> 2 <= length (kt_factors k) -> n < length (kt_factors k) ->
  get_mttkrp_factors (UKt k) (Z.of_nat n) (zlen (kt_factors k))
    = Ok (get_mttkrp_factors_k Z.mul (kt_weights k) (kt_factors k) n).
Proof. exact get_mttkrp_factors_gen_is_model. Qed.

(* "Kruskal operand with its weights applied", over the GENERATED function: whatever list it hands to the kernels, the defining sum
   over that list with unit weights is the defining sum with the operand's weights; f is the array the data denote (any representation) *)
Theorem C02_mttkrp_kruskal_operand_gen : forall (f : idx -> Z) s (k : ktz) (n : nat) fs x r,
  kt_wf k -> 2 <= length (kt_factors k) -> n < length (kt_factors k) -> length s = length (kt_factors k) ->
  r < length (kt_weights k) ->
  get_mttkrp_factors (UKt k) (Z.of_nat n) (zlen (kt_factors k)) = Ok fs ->
  spec_mttkrp 0%Z 1%Z Z.add Z.mul f s n (repeat 1%Z (length (kt_weights k))) fs x r =
  spec_mttkrp 0%Z 1%Z Z.add Z.mul f s n (kt_weights k) (kt_factors k) x r.
Proof. exact spec_mttkrp_absorb_gen. Qed.

(* tensor.mttkrp AS CALLED with a Kruskal operand: U = get_mttkrp_factors(U, n, ndims) (generated), then the three branches *)
Theorem C02_mttkrp_dense_kruskal_gen : forall (X : dense Z) (k : ktz) (n : nat) fs,
  wf_dense X -> 2 <= length (dshape X) -> n < length (dshape X) ->
  kt_wf k -> map (@length _) (kt_factors k) = dshape X ->
  get_mttkrp_factors (UKt k) (Z.of_nat n) (zlen (dshape X)) = Ok fs ->
  let R := length (kt_weights k) in
  let Y := impl_mttkrp_dense 0%Z Z.add Z.mul X fs n R in
  dshape Y = [nth n (dshape X) 0; R] /\ wf_dense Y /\
  forall x r, x < nth n (dshape X) 0 -> r < R ->
    den_dense 0%Z Y [x; r] =
    spec_mttkrp 0%Z 1%Z Z.add Z.mul (den_dense 0%Z X) (dshape X) n (kt_weights k) (kt_factors k) x r.
Proof. exact mttkrp_dense_kruskal_gen. Qed.

(* sptensor.mttkrp / ktensor.mttkrp / ttensor.mttkrp AS CALLED with a Kruskal operand *)
Theorem C02_mttkrp_sparse_kruskal_gen : forall (isz : Z -> bool) (S : sparse Z) (k : ktz) (n : nat) fs x r,
  wf_sp isz S -> 2 <= length (sshape S) -> n < length (sshape S) -> length (kt_factors k) = length (sshape S) ->
  kt_wf k -> x < nth n (sshape S) 0 -> r < length (kt_weights k) ->
  get_mttkrp_factors (UKt k) (Z.of_nat n) (zlen (kt_factors k)) = Ok fs ->
  impl_mttkrp_sp 0%Z 1%Z Z.add Z.mul S fs n x r =
  spec_mttkrp 0%Z 1%Z Z.add Z.mul (den_sp 0%Z S) (sshape S) n (kt_weights k) (kt_factors k) x r.
Proof. exact mttkrp_sparse_kruskal_gen. Qed.

Theorem C02_mttkrp_k_kruskal_gen : forall (K : ktensor Z) (k : ktz) (n : nat) fs x r,
  2 <= length (kfactors K) -> n < length (kfactors K) -> map (@length _) (kt_factors k) = kshape K ->
  kt_wf k -> x < nth n (kshape K) 0 -> r < length (kt_weights k) ->
  get_mttkrp_factors (UKt k) (Z.of_nat n) (zlen (kt_factors k)) = Ok fs ->
  impl_mttkrp_k 0%Z Z.add Z.mul K fs n x r =
  spec_mttkrp 0%Z 1%Z Z.add Z.mul (den_k 0%Z 1%Z Z.add Z.mul K) (kshape K) n (kt_weights k) (kt_factors k) x r.
Proof. exact mttkrp_k_kruskal_gen. Qed.

Theorem C02_mttkrp_tucker_kruskal_gen : forall (T : ttensor Z) (k : ktz) (n : nat) fs x r,
  wf_dense (tcore T) -> 2 <= length (tfactors T) -> length (dshape (tcore T)) = length (tfactors T) ->
  length (kt_factors k) = length (tfactors T) -> n < length (tfactors T) ->
  kt_wf k -> x < nth n (tshape T) 0 -> r < length (kt_weights k) ->
  get_mttkrp_factors (UKt k) (Z.of_nat n) (zlen (kt_factors k)) = Ok fs ->
  impl_mttkrp_t 0%Z Z.add Z.mul T fs n (length (kt_weights k)) x r =
  spec_mttkrp 0%Z 1%Z Z.add Z.mul (den_t 0%Z 1%Z Z.add Z.mul T) (tshape T) n (kt_weights k) (kt_factors k) x r.
Proof. exact mttkrp_t_kruskal_gen. Qed.

Print Assumptions C02_get_mttkrp_factors_gen_is_model.
Print Assumptions C02_mttkrp_kruskal_operand_gen.
Print Assumptions C02_mttkrp_dense_kruskal_gen.
Print Assumptions C02_mttkrp_sparse_kruskal_gen.
Print Assumptions C02_mttkrp_k_kruskal_gen.
Print Assumptions C02_mttkrp_tucker_kruskal_gen.

(* non-vacuity: X = [[1 3 5]; [2 4 6]], operand weights [2; 3], factors A (2 x 2), B (3 x 2): the weights go into B for n = 0 and into A
   for n = 1; result[x, r] = sum_j X[x, j] * lambda_r * B[j, r], e.g. (1*1 + 3*0 + 5*3) * 2 = 32 *)
Local Open Scope Z_scope.
Example C02_ex_kruskal_gen_n0 :
  get_mttkrp_factors (UKt (mkkt [2; 3] [[[1; 1]; [2; 0]]; [[1; 2]; [0; 1]; [3; 1]]])) 0 2 = Ok [[[1; 1]; [2; 0]]; [[2; 6]; [0; 3]; [6; 3]]] /\
  impl_mttkrp_dense 0 Z.add Z.mul (mkDense [2; 3]%nat [1; 2; 3; 4; 5; 6]) [[[1; 1]; [2; 0]]; [[2; 6]; [0; 3]; [6; 3]]] 0 2
    = mkDense [2; 2]%nat [32; 40; 30; 42].
Proof. split; reflexivity. Qed.
Example C02_ex_kruskal_gen_n1 :
  get_mttkrp_factors (UKt (mkkt [2; 3] [[[1; 1]; [2; 0]]; [[1; 2]; [0; 1]; [3; 1]]])) 1 2 = Ok [[[2; 3]; [4; 0]]; [[1; 2]; [0; 1]; [3; 1]]] /\
  impl_mttkrp_dense 0 Z.add Z.mul (mkDense [2; 3]%nat [1; 2; 3; 4; 5; 6]) [[[2; 3]; [4; 0]]; [[1; 2]; [0; 1]; [3; 1]]] 1 2
    = mkDense [3; 2]%nat [10; 22; 34; 3; 9; 15].
Proof. split; reflexivity. Qed.

(* ttsv: X[i,j,k] = 1 + i + 2j + 4k, v = [1; 2]: all modes -> scalar; after mode 0 -> vector; after mode 1 -> matrix *)
Example C02_ex_ttsv : impl_ttsv 0 Z.add Z.mul (mkDense [2; 2; 2]%nat [1; 2; 3; 4; 5; 6; 7; 8]) [1; 2] 0 = mkDense [] [153] /\
                      impl_ttsv 0 Z.add Z.mul (mkDense [2; 2; 2]%nat [1; 2; 3; 4; 5; 6; 7; 8]) [1; 2] 1 = mkDense [2%nat] [45; 54] /\
                      impl_ttsv 0 Z.add Z.mul (mkDense [2; 2; 2]%nat [1; 2; 3; 4; 5; 6; 7; 8]) [1; 2] 2 = mkDense [2; 2]%nat [11; 14; 17; 20].
Proof. repeat split; reflexivity. Qed.
(* Tucker x sparse: core [[1 2]] (1 x 2), factors [[1]; [2]] (2 x 1), [[1 0]; [0 1]; [1 1]] (3 x 2); S stores (1,2) -> 5, (0,1) -> 7 *)
Example C02_ex_innerprod_t_sp :
  impl_innerprod_t_sp Z 0 Z.add Z.mul (mkT (mkDense [1; 2]%nat [1; 2]) [[[1]; [2]]; [[1; 0]; [0; 1]; [1; 1]]]) (mkSp [2; 3]%nat [[1; 2]; [0; 1]]%nat [5; 7]) = 44.
Proof. reflexivity. Qed.

(* a cyclic (non-involutive) dims order on a Kruskal tensor: vector j belongs to mode dims[j]; all three modes -> the weights sum to the scalar *)
Example C02_ex_ttv_req_k :
  match ttv_req Z 3 (impl_ttv_k 0 1 Z.add Z.mul (mkK [2; 3] [[[1; 0]; [2; 1]]; [[1; 1]; [0; 2]; [3; 0]]; [[1; -1]; [2; 1]]]))
                (Some [2; 0; 1]) None [[1; 2]; [1; -1]; [0; 1; 0]] with
  | Ok Y => kweights Y = [0; -6] | Err => False end.
Proof. reflexivity. Qed.

(* collapse over modes listed as [2; 0] of X[i,j,k] = 1 + i + 2j + 4k (2 x 2 x 2): result[j] = sum_{i,k} = 4 + 2 + 8j + 8 -> [14; 22] *)
Example C02_ex_collapse_req : impl_collapse_req 0 (sumv 0 Z.add) (mkDense [2; 2; 2]%nat [1; 2; 3; 4; 5; 6; 7; 8]) (Some [2; 0]) = Ok (mkDense [2%nat] [14; 22]).
Proof. reflexivity. Qed.

(* sptensor.ttm as called with exclude_dims = [0] on a 2 x 3 sptensor, one matrix per tensor mode (the first is ignored), plain *)
Example C02_ex_ttm_req_sp :
  ttm_req Z 2 (impl_ttm_sp_list Z 0 Z.add Z.mul (mkSp [2; 3]%nat [[1; 2]; [0; 1]; [1; 0]]%nat [5; 7; 2])) None (Some [0])
          [(1%nat, [[5; 5]]); (2%nat, [[1; 0; 2]; [0; 1; 0]])] false = Ok (mkDense [2; 2]%nat [0; 12; 7; 0]).
Proof. reflexivity. Qed.
