(* Proofs/C03Kr.v — sparse * Kruskal and sparse / Kruskal (Model/C03Kr.v): the double loop of pyttb computes, at every
   stored row, the value of the Kruskal tensor at that subscript (times the stored value); denotation theorems for
   any commutative ring; IEEE instance with the eps clamp.  Wave 4. *)
From Coq Require Import List Arith Lia Bool ZArith Ring Field QArith Qabs Qcanon.
From PV Require Import Base.Index Base.Sum Np.Array Model.Sparse Model.Repr Model.Harness Model.C03Ops Model.C03Gen Model.C03Chk
                       Model.C03Kr Proofs.C03Lemmas Proofs.C03Proofs.
Import ListNotations.

(* ---- folds over columns act row by row ---- *)
Lemma fold_left_ext_in {A B} (f g : A -> B -> A) (l : list B) (a : A) :
  (forall x b, In b l -> f x b = g x b) -> fold_left f l a = fold_left g l a.
Proof.
  revert a; induction l as [|b l IH]; intros a H; [reflexivity|]. cbn. rewrite (H a b) by (cbn; auto).
  apply IH. intros x b' Hb. apply H. cbn; auto.
Qed.

Lemma fold_zipw_cons {X Y} (f : X -> Y -> X) (g : nat -> Y) (G : nat -> list Y) ns x xs :
  fold_left (fun acc n => zipw f acc (g n :: G n)) ns (x :: xs) =
  fold_left (fun a n => f a (g n)) ns x :: fold_left (fun acc n => zipw f acc (G n)) ns xs.
Proof. revert x xs; induction ns as [|n ns IH]; intros x xs; [reflexivity|]. cbn. apply IH. Qed.

Lemma fold_zipw_nil {X Y} (f : X -> Y -> X) (G : nat -> list Y) ns :
  fold_left (fun acc n => zipw f acc (G n)) ns [] = [].
Proof. induction ns as [|n ns IH]; [reflexivity|]. cbn. exact IH. Qed.

Lemma combine_zipw {X Y W} (f : X -> Y -> W) (vals : list X) (subs : list Y) : length subs = length vals ->
  combine subs (zipw f vals subs) = map (fun e => (fst e, f (snd e) (fst e))) (combine subs vals).
Proof.
  revert vals; induction subs as [|s subs IH]; intros [|x vals] H; try discriminate; [reflexivity|].
  cbn. f_equal. apply IH. cbn in H. lia.
Qed.

Lemma zipw_length {X Y W} (f : X -> Y -> W) (l1 : list X) (l2 : list Y) : length l1 = length l2 ->
  length (zipw f l1 l2) = length l1.
Proof. revert l2; induction l1 as [|x l1 IH]; intros [|y l2] H; try discriminate; [reflexivity|]. cbn. f_equal. apply IH. cbn in H; lia. Qed.

Section KrProofs.
Variable V : Type.
Variables (v0 v1 : V) (vadd vmul vsub : V -> V -> V) (vopp : V -> V).
Hypothesis Vring : ring_theory v0 v1 vadd vmul vsub vopp (@eq V).
Add Ring VrKr : Vring.
Notation "x + y" := (vadd x y).
Notation "x * y" := (vmul x y).
Notation den := (den_sp v0).
Notation denk := (den_k v0 v1 vadd vmul).

(* one stored row through the inner loop *)
Definition elem_modes (K : ktensor V) (s : idx) (N r : nat) (t : V) : V :=
  fold_left (fun t n => t * mget v0 (nth n (kfactors K) []) (nth n s 0%nat) r) (seq 0 N) t.

Lemma kr_modes_cons K s subs N r t tv :
  kr_modes v0 vmul K (s :: subs) N r (t :: tv) = elem_modes K s N r t :: kr_modes v0 vmul K subs N r tv.
Proof.
  unfold kr_modes, elem_modes.
  exact (fold_zipw_cons vmul (fun n => mget v0 (nth n (kfactors K) []) (nth n s 0%nat) r)
                        (fun n => kr_gather v0 K subs n r) (seq 0 N) t tv).
Qed.

Lemma kr_accum_cons K s subs N (init0 : nat -> V) (init : nat -> list V) z zeros :
  kr_accum v0 vadd vmul K (s :: subs) N (fun r => init0 r :: init r) (z :: zeros) =
  fold_left (fun c r => c + elem_modes K s N r (init0 r)) (seq 0 (krank K)) z :: kr_accum v0 vadd vmul K subs N init zeros.
Proof.
  unfold kr_accum.
  rewrite (fold_left_ext_in _ (fun cv r => zipw vadd cv (elem_modes K s N r (init0 r) :: kr_modes v0 vmul K subs N r (init r)))).
  - exact (fold_zipw_cons vadd (fun r => elem_modes K s N r (init0 r)) (fun r => kr_modes v0 vmul K subs N r (init r))
                          (seq 0 (krank K)) z zeros).
  - intros cv r _. f_equal. apply kr_modes_cons.
Qed.

Lemma kr_accum_nil K N (init : nat -> list V) : kr_accum v0 vadd vmul K [] N init [] = [].
Proof. unfold kr_accum. apply (fold_zipw_nil vadd). Qed.

(* the inner loop multiplies by the product of the factor entries: kprod *)
Lemma elem_modes_off (P As : list matrix) (p s : idx) (r : nat) (t : V) :
  length p = length P -> length s = length As ->
  fold_left (fun t n => t * mget v0 (nth n (P ++ As) []) (nth n (p ++ s) 0%nat) r) (seq (length P) (length As)) t =
  t * kprod v0 v1 vmul As s r.
Proof.
  revert P p s t; induction As as [|A As IH]; intros P p s t Hp Hs.
  - cbn. ring.
  - destruct s as [|x s]; [discriminate|]. cbn [length seq fold_left].
    rewrite nth_middle. rewrite <- Hp at 2. rewrite nth_middle.
    specialize (IH (P ++ [A]) (p ++ [x]) s (t * mget v0 A x r)).
    rewrite <- !app_assoc in IH. cbn [app] in IH.
    replace (length (P ++ [A])) with (S (length P)) in IH by (rewrite app_length; cbn; lia).
    rewrite IH.
    + cbn [kprod]. ring.
    + rewrite !app_length. cbn. lia.
    + cbn in Hs. lia.
Qed.

Lemma elem_modes_kprod K s N r t : length (kfactors K) = N -> length s = N ->
  elem_modes K s N r t = t * kprod v0 v1 vmul (kfactors K) s r.
Proof.
  intros HK Hs. unfold elem_modes. subst N.
  exact (elem_modes_off [] (kfactors K) [] s r t eq_refl Hs).
Qed.

Lemma fold_add_sum (h : nat -> V) (l : list nat) (c : V) :
  fold_left (fun c r => c + h r) l c = c + sum_over v0 vadd l h.
Proof.
  revert c; induction l as [|r l IH]; intros c; cbn [fold_left].
  - rewrite sum_over_nil. ring.
  - rewrite IH, sum_over_cons. ring.
Qed.

(* the value column of S * K, list for list *)
Lemma mul_k_vals_raw K subs vals N : length subs = length vals -> Forall (fun s => length s = N) subs ->
  length (kfactors K) = N ->
  kr_accum v0 vadd vmul K subs N (fun r => map (vmul (nth r (kweights K) v0)) vals) (kr_zeros v0 vals) =
  zipw (fun x s => x * ksum v0 v1 vadd vmul K s) vals subs.
Proof.
  intros HL HW HK. revert vals HL; induction subs as [|s subs IH]; intros [|x vals] HL; try discriminate.
  - apply kr_accum_nil.
  - inversion HW as [|? ? Hs HW']; subst.
    etransitivity.
    { exact (kr_accum_cons K s subs (length (kfactors K)) (fun r => nth r (kweights K) v0 * x)
                           (fun r => map (vmul (nth r (kweights K) v0)) vals) v0 (kr_zeros v0 vals)). }
    cbn [zipw]. f_equal.
    + rewrite fold_add_sum. unfold ksum, sum_n.
      rewrite (sum_over_ext V v0 vadd _ _
                 (fun r => x * (nth r (kweights K) v0 * kprod v0 v1 vmul (kfactors K) s r))).
      * rewrite (sum_over_scale_l V v0 v1 vadd vmul vsub vopp Vring). ring.
      * intros r _. rewrite elem_modes_kprod by auto. ring.
    + apply IH; [assumption | cbn in HL; lia].
Qed.

(* the Kruskal values gathered by __truediv__, list for list *)
Lemma div_k_den_raw K subs (vals : list V) N : length subs = length vals -> Forall (fun s => length s = N) subs ->
  length (kfactors K) = N ->
  kr_accum v0 vadd vmul K subs N (fun r => map (fun _ => v1 * nth r (kweights K) v0) vals) (kr_zeros v0 vals) =
  map (ksum v0 v1 vadd vmul K) subs.
Proof.
  intros HL HW HK. revert vals HL; induction subs as [|s subs IH]; intros [|x vals] HL; try discriminate.
  - apply kr_accum_nil.
  - inversion HW as [|? ? Hs HW']; subst.
    etransitivity.
    { exact (kr_accum_cons K s subs (length (kfactors K)) (fun r => v1 * nth r (kweights K) v0)
                           (fun r => map (fun _ => v1 * nth r (kweights K) v0) vals) v0 (kr_zeros v0 vals)). }
    cbn [map]. f_equal.
    + rewrite fold_add_sum. unfold ksum, sum_n.
      rewrite (sum_over_ext V v0 vadd _ _
                 (fun r => nth r (kweights K) v0 * kprod v0 v1 vmul (kfactors K) s r)).
      * ring.
      * intros r _. rewrite elem_modes_kprod by auto. ring.
    + apply IH; [assumption | cbn in HL; lia].
Qed.

Lemma den_k_ksum K i : inb (kshape K) i = true -> denk K i = ksum v0 v1 vadd vmul K i.
Proof. intros H. unfold den_k, ksum. now rewrite H. Qed.

Lemma struct_widths (A : sparse V) : wf_struct A -> Forall (fun s => length s = length (sshape A)) (ssubs A).
Proof. intros (_ & _ & Hb). eapply Forall_impl; [|exact Hb]. intros s Hs. now apply inb_length. Qed.

Lemma kshape_len (K : ktensor V) s : kshape K = s -> length (kfactors K) = length s.
Proof. intros <-. unfold kshape. now rewrite map_length. Qed.

Lemma zipw_ext_in {X Y W} (f g : X -> Y -> W) (l1 : list X) (l2 : list Y) :
  (forall y, In y l2 -> forall x, f x y = g x y) -> zipw f l1 l2 = zipw g l1 l2.
Proof.
  revert l2; induction l1 as [|x l1 IH]; intros [|y l2] H; try reflexivity. cbn. f_equal.
  - apply H. cbn; auto.
  - apply IH. intros y' Hy. apply H. cbn; auto.
Qed.

Theorem mul_k_vals_eq (A : sparse V) (K : ktensor V) : wf_struct A -> kshape K = sshape A ->
  mul_k_vals v0 vadd vmul A K = zipw (fun x s => x * denk K s) (svals A) (ssubs A).
Proof.
  intros W HS. unfold mul_k_vals.
  rewrite (mul_k_vals_raw K (ssubs A) (svals A) (length (sshape A))); auto using struct_widths, kshape_len; [|apply W].
  apply zipw_ext_in. intros s Hs x. rewrite den_k_ksum; [reflexivity|].
  destruct W as (_ & _ & Hb). rewrite Forall_forall in Hb. rewrite HS. auto.
Qed.

Theorem div_k_den_eq (A : sparse V) (K : ktensor V) : wf_struct A -> kshape K = sshape A ->
  div_k_den v0 v1 vadd vmul A K = map (denk K) (ssubs A).
Proof.
  intros W HS. unfold div_k_den.
  rewrite (div_k_den_raw K (ssubs A) (svals A) (length (sshape A))); auto using struct_widths, kshape_len; [|apply W].
  apply map_ext_in. intros s Hs. rewrite den_k_ksum; [reflexivity|].
  destruct W as (_ & _ & Hb). rewrite Forall_forall in Hb. rewrite HS. auto.
Qed.

(* S * K: the stored rows of S in their order, each with x * K[s]; it denotes the element-wise product *)
Theorem impl_mul_k_correct (A : sparse V) (K : ktensor V) : wf_struct A -> kshape K = sshape A ->
  impl_mul_k v0 vadd vmul A K = mkSp (sshape A) (ssubs A) (zipw (fun x s => x * denk K s) (svals A) (ssubs A)) /\
  wf_struct (impl_mul_k v0 vadd vmul A K) /\ sshape (impl_mul_k v0 vadd vmul A K) = sshape A /\
  forall i, den (impl_mul_k v0 vadd vmul A K) i = den A i * denk K i.
Proof.
  intros W HS. pose proof (mul_k_vals_eq A K W HS) as E.
  assert (E2 : impl_mul_k v0 vadd vmul A K = mkSp (sshape A) (ssubs A) (zipw (fun x s => x * denk K s) (svals A) (ssubs A))).
  { unfold impl_mul_k. now rewrite E. }
  split; [exact E2|]. rewrite E2. clear E E2.
  pose proof W as (HL & Hn & Hb).
  assert (W2 : wf_struct (mkSp (sshape A) (ssubs A) (zipw (fun x s => x * denk K s) (svals A) (ssubs A)))).
  { unfold wf_struct; cbn. repeat split; auto. rewrite zipw_length; auto. }
  split; [exact W2|]. split; [reflexivity|]. intros i.
  destruct (mem i (ssubs A)) eqn:M.
  - apply mem_spec in M. pose proof (in_subs_entry v0 A i W M) as Hin.
    apply (den_struct_in v0); [exact W2|]. unfold entries; cbn [ssubs svals].
    rewrite combine_zipw by auto. apply in_map_iff. exists (i, den A i). split; [reflexivity|exact Hin].
  - apply mem_false in M. rewrite (den_sp_notin v0 A i M).
    rewrite den_sp_notin by (cbn; exact M). ring.
Qed.

(* S / K with any element function dv (the eps clamp is inside dv): the stored rows of S, each with dv x K[s] *)
Theorem impl_div_k_correct {X} (x0 : X) (dv : V -> V -> X) (A : sparse V) (K : ktensor V) :
  wf_struct A -> kshape K = sshape A ->
  impl_div_k v0 v1 vadd vmul dv A K = mkSp (sshape A) (ssubs A) (zipw (fun x s => dv x (denk K s)) (svals A) (ssubs A)) /\
  wf_struct (impl_div_k v0 v1 vadd vmul dv A K) /\ sshape (impl_div_k v0 v1 vadd vmul dv A K) = sshape A /\
  forall i, den_sp x0 (impl_div_k v0 v1 vadd vmul dv A K) i = if mem i (ssubs A) then dv (den A i) (denk K i) else x0.
Proof.
  intros W HS. pose proof (div_k_den_eq A K W HS) as E.
  pose proof W as (HL & Hn & Hb).
  assert (E2 : impl_div_k v0 v1 vadd vmul dv A K =
               mkSp (sshape A) (ssubs A) (zipw (fun x s => dv x (denk K s)) (svals A) (ssubs A))).
  { unfold impl_div_k. rewrite E. f_equal. clear E W Hn Hb HS. revert HL.
    generalize (svals A) as vals. induction (ssubs A) as [|s subs IH]; intros [|x vals] HL; try discriminate; [reflexivity|].
    cbn. f_equal. apply IH. cbn in HL. lia. }
  split; [exact E2|]. rewrite E2. clear E E2.
  assert (W2 : wf_struct (mkSp (sshape A) (ssubs A) (zipw (fun x s => dv x (denk K s)) (svals A) (ssubs A)))).
  { unfold wf_struct; cbn. repeat split; auto. rewrite zipw_length; auto. }
  split; [exact W2|]. split; [reflexivity|]. intros i.
  destruct (mem i (ssubs A)) eqn:M.
  - apply mem_spec in M. pose proof (in_subs_entry v0 A i W M) as Hin.
    apply (den_struct_in x0); [exact W2|]. unfold entries; cbn [ssubs svals].
    rewrite combine_zipw by auto. apply in_map_iff. exists (i, den A i). split; [reflexivity|exact Hin].
  - apply mem_false in M. rewrite den_sp_notin by (cbn; exact M). reflexivity.
Qed.

End KrProofs.

(* ---- when does S * K store an explicit zero (finding C03-K2)? exactly where x * K[s] = 0 at a stored row ---- *)
Lemma Forall_zipw {X Y W} (P : W -> Prop) (f : X -> Y -> W) (vals : list X) (subs : list Y) : length subs = length vals ->
  (Forall P (zipw f vals subs) <-> forall e, In e (combine subs vals) -> P (f (snd e) (fst e))).
Proof.
  revert vals; induction subs as [|s subs IH]; intros [|x vals] HL; try discriminate.
  - cbn. split; [intros _ e []|constructor].
  - cbn in HL. cbn [zipw combine]. split.
    + intros H e [<-|He]; inversion H; subst; auto. apply (IH vals); auto.
    + intros H. constructor; [apply (H (s, x)); cbn; auto|]. apply (IH vals); [lia|]. intros e He. apply H. cbn; auto.
Qed.

Section KrWf.
Variable V : Type.
Variables (v0 v1 : V) (vadd vmul vsub : V -> V -> V) (vopp : V -> V) (isz : V -> bool).
Hypothesis Vring : ring_theory v0 v1 vadd vmul vsub vopp (@eq V).
Hypothesis isz_spec : forall v, isz v = true <-> v = v0.
Add Ring VrKrWf : Vring.

Theorem impl_mul_k_wf_iff (A : sparse V) (K : ktensor V) : wf_struct A -> kshape K = sshape A ->
  (wf_sp isz (impl_mul_k v0 vadd vmul A K) <->
   forall s, In s (ssubs A) -> vmul (den_sp v0 A s) (den_k v0 v1 vadd vmul K s) <> v0).
Proof.
  intros W HS.
  destruct (impl_mul_k_correct V v0 v1 vadd vmul vsub vopp Vring A K W HS) as (E & W2 & _ & _).
  pose proof W as (HL & _ & _).
  rewrite E in *. unfold wf_sp. cbn [ssubs svals sshape]. destruct W2 as (L2 & N2 & B2). cbn [ssubs svals sshape] in *.
  split.
  - intros (_ & _ & _ & HZ) s Hs.
    apply (Forall_zipw _ _ _ _ HL) with (e := (s, den_sp v0 A s)) in HZ; [|apply (in_subs_entry v0 A s W Hs)].
    cbn in HZ. intros E0. apply isz_spec in E0. congruence.
  - intros H. repeat split; auto. apply (Forall_zipw _ _ _ _ HL). intros (s, x) He. cbn [fst snd].
    pose proof (den_struct_in v0 A s x W He) as D. subst x.
    destruct (isz _) eqn:Z; [|reflexivity]. apply isz_spec in Z. exfalso. apply (H s); auto.
    apply in_combine_l in He. exact He.
Qed.

(* the product with the zero filter (proposed repair of C03-K2): fully well-formed, same array *)
Theorem impl_mul_k_filtered_correct (A : sparse V) (K : ktensor V) : wf_struct A -> kshape K = sshape A ->
  wf_sp isz (impl_mul_k_filtered v0 vadd vmul isz A K) /\ sshape (impl_mul_k_filtered v0 vadd vmul isz A K) = sshape A /\
  forall i, den_sp v0 (impl_mul_k_filtered v0 vadd vmul isz A K) i = vmul (den_sp v0 A i) (den_k v0 v1 vadd vmul K i).
Proof.
  intros W HS. pose proof W as (HL & _ & _).
  destruct (map_entries_correct v0 isz isz_spec (fun i v => vmul v (den_k v0 v1 vadd vmul K i)) (fun _ => true) A W) as (W2 & S2 & D2).
  cbv beta in W2, S2, D2.
  assert (E : impl_mul_k_filtered v0 vadd vmul isz A K =
              of_entries (sshape A) (drop_zeros isz (map (fun e => (fst e, vmul (snd e) (den_k v0 v1 vadd vmul K (fst e))))
                                                         (filter (fun e => true) (entries A))))).
  { unfold impl_mul_k_filtered. rewrite (mul_k_vals_eq V v0 v1 vadd vmul vsub vopp Vring A K W HS).
    rewrite combine_zipw by auto. now rewrite filter_K_true. }
  rewrite E. split; [exact W2|]. split; [exact S2|]. intros i. rewrite D2, andb_true_r.
  destruct (mem i (ssubs A)) eqn:M; [reflexivity|]. apply mem_false in M. rewrite (den_sp_notin v0 A i M).
  ring.
Qed.
End KrWf.

(* ---- Z operands ---- *)
Local Open Scope Z_scope.

Theorem zmul_k_correct (A : sparse Z) (K : ktensor Z) : wf_struct A -> kshape K = sshape A ->
  zmul_k A K = mkSp (sshape A) (ssubs A) (zipw (fun x s => x * zden_k K s) (svals A) (ssubs A)) /\
  wf_struct (zmul_k A K) /\ sshape (zmul_k A K) = sshape A /\
  forall i, zden_sp (zmul_k A K) i = zden_sp A i * zden_k K i.
Proof. exact (impl_mul_k_correct Z 0 1 Z.add Z.mul Z.sub Z.opp Zth A K). Qed.

(* over Z (no zero divisors): the product is fully well-formed iff the Kruskal tensor is nonzero at every stored row *)
Theorem zmul_k_wf_iff (A : sparse Z) (K : ktensor Z) : wf_sp zisz A -> kshape K = sshape A ->
  (wf_sp zisz (zmul_k A K) <-> forall s, In s (ssubs A) -> zden_k K s <> 0).
Proof.
  intros W HS. pose proof (wf_sp_struct zisz A W) as WS.
  assert (ZS : forall v, zisz v = true <-> v = 0) by (intros v; unfold zisz; apply Z.eqb_eq).
  unfold zmul_k. rewrite (impl_mul_k_wf_iff Z 0 1 Z.add Z.mul Z.sub Z.opp zisz Zth ZS A K WS HS).
  split; intros H s Hs; specialize (H s Hs).
  - intros E. apply H. fold (zden_k K s). rewrite E. ring.
  - fold (zden_k K s). intros E. apply Z.mul_eq_0 in E. destruct E as [E|E]; [|contradiction].
    apply (in_subs_iff 0 zisz ZS A s W) in Hs. contradiction.
Qed.

Definition mul_kruskal_wf_stmt : Prop :=
  forall (A : sparse Z) (K : ktensor Z), wf_sp zisz A -> kshape K = sshape A -> wf_sp zisz (zmul_k A K).

(* witness of C03-K2: K vanishes at the stored subscript [0;1] *)
Definition wkA : sparse Z := mkSp [2; 2]%nat [[1; 1]; [0; 0]; [0; 1]]%nat [3; 2; 5].
Definition wkK : ktensor Z := mkK [2; 1] [[[1; 0]; [2; 1]]; [[1; 1]; [0; 3]]].
Definition wkKneg : ktensor Z := mkK [1] [[[1]; [-2]]; [[1]; [3]]].

Lemma wkA_wf : wf_sp zisz wkA.
Proof. unfold wf_sp; cbn. repeat split; auto; repeat constructor; cbn; intuition discriminate. Qed.

Theorem mul_kruskal_wf_refuted : ~ mul_kruskal_wf_stmt.
Proof.
  intros H. specialize (H wkA wkK wkA_wf eq_refl).
  apply (zmul_k_wf_iff wkA wkK wkA_wf eq_refl) with (s := [0; 1]%nat) in H; [|cbn; auto].
  apply H. reflexivity.
Qed.

(* ---- IEEE division with the eps clamp ---- *)
Theorem zdiv_k_correct (A : sparse Z) (K : ktensor Z) : wf_struct A -> kshape K = sshape A ->
  zdiv_k A K = mkSp (sshape A) (ssubs A) (zipw (fun x s => kdivz x (zden_k K s)) (svals A) (ssubs A)) /\
  wf_struct (zdiv_k A K) /\ sshape (zdiv_k A K) = sshape A /\
  forall i, xden_sp (zdiv_k A K) i = if mem i (ssubs A) then kdivz (zden_sp A i) (zden_k K i) else x0.
Proof. exact (impl_div_k_correct Z 0 1 Z.add Z.mul Z.sub Z.opp Zth x0 kdivz A K). Qed.

Lemma z2q_nonzero k : k <> 0 -> qisz (z2q k) = false.
Proof.
  intros Hk. unfold qisz. destruct (Qc_eq_bool _ _) eqn:E; [|reflexivity].
  apply Qc_eq_bool_correct in E. unfold z2q in E. apply Q2Qc_eq_iff in E.
  unfold Qeq in E. cbn in E. lia.
Qed.

Lemma qmax_keps k : 1 <= k -> qmax keps (z2q k) = z2q k.
Proof.
  intros Hk. unfold qmax, qleb. replace (Qle_bool keps (z2q k)) with true; [reflexivity|].
  symmetry. apply Qle_bool_iff. unfold keps, z2q. cbn [this Q2Qc]. rewrite !Qred_correct.
  unfold Qle. cbn. lia.
Qed.

(* where the Kruskal tensor is >= 1 the clamp is inactive: the quotient is the IEEE quotient *)
Lemma kdivz_pos x k : 1 <= k -> kdivz x k = xdivz x k.
Proof.
  intros Hk. unfold kdivz, xdivz, xdiv. rewrite z2q_nonzero by lia. now rewrite qmax_keps.
Qed.

Lemma xdivz_0_pos k : k <> 0 -> xdivz 0 k = x0.
Proof.
  intros Hk. unfold xdivz, xdiv. rewrite z2q_nonzero by auto. unfold x0. f_equal.
  change (z2q 0) with q0. unfold Qcdiv. unfold q0. ring.
Qed.

Theorem zdiv_k_ieee_partial (A : sparse Z) (K : ktensor Z) : wf_struct A -> kshape K = sshape A ->
  forall i, 1 <= zden_k K i -> xden_sp (zdiv_k A K) i = xdivz (zden_sp A i) (zden_k K i).
Proof.
  intros W HS i Hk. destruct (zdiv_k_correct A K W HS) as (_ & _ & _ & D). rewrite D.
  destruct (mem i (ssubs A)) eqn:M.
  - now apply kdivz_pos.
  - apply mem_false in M. unfold zden_sp. rewrite (den_sp_notin 0 A i M). symmetry. apply xdivz_0_pos. lia.
Qed.

Definition div_kruskal_stmt : Prop :=
  forall (A : sparse Z) (K : ktensor Z), wf_sp zisz A -> kshape K = sshape A ->
  forall i, inb (sshape A) i = true -> xden_sp (zdiv_k A K) i = xdivz (zden_sp A i) (zden_k K i).

(* witness of C03-K3: K[1,1] = -6 at a stored subscript: 3 / max(eps, -6) = 3 * 2^52, the element-wise quotient is -1/2 *)
Theorem div_kruskal_refuted : ~ div_kruskal_stmt.
Proof.
  intros H. specialize (H wkA wkKneg wkA_wf eq_refl [1; 1]%nat eq_refl). vm_compute in H. discriminate.
Qed.

(* ---- the exact class of finding C03-K3, position by position ---- *)
Lemma z2q_eq_0 k : z2q k = Q2Qc 0 -> k = 0.
Proof. intros E. unfold z2q in E. apply Q2Qc_eq_iff in E. unfold Qeq in E. cbn in E. lia. Qed.

Lemma z2q_neq k : k <> 0 -> z2q k <> Q2Qc 0.
Proof. intros H E. apply z2q_eq_0 in E. contradiction. Qed.

Lemma keps_neq : keps <> Q2Qc 0.
Proof. intros E. unfold keps in E. apply Q2Qc_eq_iff in E. unfold Qeq in E. cbn in E. discriminate. Qed.

Lemma z2q_neq_keps k : z2q k <> keps.
Proof. intros E. unfold z2q, keps in E. apply Q2Qc_eq_iff in E. unfold Qeq in E. cbn in E. lia. Qed.

Lemma qmax_keps_neg k : k <= 0 -> qmax keps (z2q k) = keps.
Proof.
  intros Hk. unfold qmax, qleb. destruct (Qle_bool keps (z2q k)) eqn:E; [|reflexivity].
  apply Qle_bool_iff in E. unfold keps, z2q in E. cbn [this Q2Qc] in E. rewrite !Qred_correct in E.
  unfold Qle in E. cbn in E. lia.
Qed.

Lemma qc_div_cancel (a b c : Qc) : a <> Q2Qc 0 -> b <> Q2Qc 0 -> c <> Q2Qc 0 -> (a / b = a / c)%Qc -> c = b.
Proof.
  intros Ha Hb Hc E.
  assert (E2 : (a * c = a * b)%Qc).
  { transitivity ((a / b) * (b * c))%Qc; [field; exact Hb|]. rewrite E. field. exact Hc. }
  assert (E3 : (a * (c - b))%Qc = Q2Qc 0).
  { replace (a * (c - b))%Qc with (a * c - a * b)%Qc by ring. rewrite E2. ring. }
  apply Qcmult_integral in E3. destruct E3 as [E3|E3]; [contradiction|].
  replace c with ((c - b) + b)%Qc by ring. rewrite E3. ring.
Qed.

Lemma kdivz_clamped x k : x <> 0 -> k <= 0 -> kdivz x k <> xdivz x k.
Proof.
  intros Hx Hk. unfold kdivz, xdivz, xdiv. rewrite (qmax_keps_neg k Hk).
  destruct (Z.eq_dec k 0) as [->|Hk0].
  - change (qisz (z2q 0)) with true. cbn match. rewrite (z2q_nonzero x Hx). destruct (qleb q0 (z2q x)); discriminate.
  - rewrite (z2q_nonzero k Hk0). intros E0.
    assert (E : (z2q x / keps)%Qc = (z2q x / z2q k)%Qc)
      by (exact (f_equal (fun v => match v with XFin q => q | _ => q0 end) E0)).
    clear E0.
    apply (z2q_neq_keps k). apply (qc_div_cancel (z2q x) keps (z2q k)); auto using z2q_neq, keps_neq.
Qed.

Lemma xdivz_0_0 : xdivz 0 0 = XNaN.
Proof. vm_compute. reflexivity. Qed.

(* the exact class of finding C03-K3, position by position *)
Theorem zdiv_k_exact_iff (A : sparse Z) (K : ktensor Z) : wf_sp zisz A -> kshape K = sshape A ->
  forall i, (xden_sp (zdiv_k A K) i = xdivz (zden_sp A i) (zden_k K i) <->
             if mem i (ssubs A) then 1 <= zden_k K i else zden_k K i <> 0).
Proof.
  intros W HS i. pose proof (wf_sp_struct zisz A W) as WS.
  assert (ZS : forall v, zisz v = true <-> v = 0) by (intros v; unfold zisz; apply Z.eqb_eq).
  destruct (zdiv_k_correct A K WS HS) as (_ & _ & _ & D). rewrite D.
  destruct (mem i (ssubs A)) eqn:M.
  - apply mem_spec in M. split.
    + intros E. destruct (Z_le_gt_dec 1 (zden_k K i)) as [H|H]; [exact H|]. exfalso.
      apply (kdivz_clamped (zden_sp A i) (zden_k K i)); [|lia|exact E].
      apply (in_subs_iff 0 zisz ZS A i W). exact M.
    + intros H. now apply kdivz_pos.
  - apply mem_false in M. unfold zden_sp. rewrite (den_sp_notin 0 A i M). split.
    + intros E Hk. rewrite Hk, xdivz_0_0 in E. discriminate.
    + intros H. symmetry. now apply xdivz_0_pos.
Qed.
