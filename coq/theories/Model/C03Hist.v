(* Model/C03Hist.v — wave 5: histories on ONE sparse object.  A single-element assignment, in both spellings of
   pyttb.sptensor.__setitem__:
     S[i1, ..., iN] = v      -> _set_subtensor, scalar right-hand side: the shape is resized first (max(dim, i + 1) per mode), a zero
                                deletes what occupies the position (subdims + setdiff1d), a nonzero replaces the existing value
                                (tt_intersect_rows) or is appended (tt_setdiff_rows);
     S[M] = v, M a 1 x N array -> _set_subscripts: tt_ismember_rows locates the row; group A overwrite in place, group B remove
                                (the other rows keep their order), group C append; a new zero stores nothing; resize at the end.
   Both have the same effect on the stored lists: sp_assign.  The shape grows IN EVERY CASE (also for a zero assigned outside).
   The request after such an assignment must be answered from the tensor as it is now: the correspondence cases
   `hist:<op0>,<op1>` require the object's stored lists to BE sp_assigns of the literal initial operand (hist_state_ok) and every
   result to denote the element-wise specification on that tensor.  Definitions only. *)
From Coq Require Import List ZArith Bool Arith.
From PV Require Import Base.Index Np.Array Model.Sparse Model.Harness Model.C03Ops Model.C03Gen Model.C03Chk.
Import ListNotations.

Section Assign.
Context {V : Type} (isz : V -> bool).
Definition grow_shape (s : shape) (sub : idx) : shape := zipw (fun d x => Nat.max d (S x)) s sub.
Definition es_assign (es : list (idx * V)) (sub : idx) (v : V) : list (idx * V) :=
  if mem sub (map fst es) then
    if isz v then filter (fun e => negb (idx_eqb (fst e) sub)) es
    else map (fun e => if idx_eqb (fst e) sub then (fst e, v) else e) es
  else if isz v then es else es ++ [(sub, v)].
Definition sp_assign (A : sparse V) (sub : idx) (v : V) : sparse V :=
  of_entries (grow_shape (sshape A) sub) (es_assign (entries A) sub v).
Definition sp_assigns (A : sparse V) (l : list (idx * V)) : sparse V :=
  fold_left (fun X p => sp_assign X (fst p) (snd p)) l A.
End Assign.

(* the dense reading of a history of element assignments at position i: the LAST assignment to i wins, else the old value d *)
Definition hist_lookup {V} (l : list (idx * V)) (i : idx) (d : V) : V :=
  fold_left (fun acc p => if idx_eqb i (fst p) then snd p else acc) l d.

(* the stored lists of the object after the assignments ARE the lists of the model (stored order included) *)
Definition hist_state_ok (O A0 : sparse Z) (l : list (idx * Z)) : bool := sp_raw_eqb O (sp_assigns zisz A0 l).
