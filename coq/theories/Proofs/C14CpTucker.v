(* Proofs/C14CpTucker.v — a CP model written in Tucker form denotes the Kruskal tensor it was built from (every ring, shape, rank, number
   of modes), hence ttensor.nvecs and ktensor.nvecs hand the SAME matrix to the eigen solver on it: gram_t_impl of cp_as_tucker K
   = gram_k_impl of K entry by entry — whatever the factor matrices look like (in particular unit-norm, non-orthogonal columns). *)
From Coq Require Import List Arith Lia Bool Ring.
From PV Require Import Base.Index Base.Sum Np.Array Model.Sparse Model.Repr Model.C14Nvecs Model.C14Gram Model.C14CpTucker
                       Proofs.C14Sums Proofs.C14Split Proofs.C14GramSp Proofs.C14GramT.
Import ListNotations.

Section CpTuckerProofs.
Variable V : Type.
Variables (v0 v1 : V) (vadd vmul vsub : V -> V -> V) (vopp : V -> V).
Hypothesis Vring : ring_theory v0 v1 vadd vmul vsub vopp (@eq V).
Add Ring Vr14cp : Vring.
Notation "x + y" := (vadd x y).
Notation "x * y" := (vmul x y).
Notation SO := (sum_over v0 vadd).
Notation SN := (sum_n v0 vadd).

(* a sum over 0..R-1 whose summand vanishes off k *)
Lemma sum_n_single R k (f : nat -> V) : (k < R)%nat -> (forall x, (x < R)%nat -> x <> k -> f x = v0) -> SN R f = f k.
Proof.
  intros Hk Hz. unfold sum_n. apply (sum_over_single V v0 v1 vadd vmul vsub vopp Vring).
  - apply seq_NoDup.
  - apply in_seq. lia.
  - intros a Ha Hne. apply Hz; [apply in_seq in Ha; lia|exact Hne].
Qed.

(* the sum over all subscripts of an R x ... x R array of a summand supported on (k, ..., k) *)
Lemma diag_sum (R k : nat) : (k < R)%nat -> forall (m : nat) (f : idx -> V),
  SO (allsubs (repeat R m)) (fun j => if forallb (Nat.eqb k) j then f j else v0) = f (repeat k m).
Proof.
  intros Hk. induction m as [|m IH]; intros f.
  - cbn. ring.
  - cbn [repeat]. rewrite (sum_allsubs_cons V v0 v1 vadd vmul vsub vopp Vring).
    rewrite (sum_over_ext V v0 vadd _ _ (fun i => if forallb (Nat.eqb k) i then f (k :: i) else v0)).
    + apply (IH (fun i => f (k :: i))).
    + intros i _. cbn [forallb].
      rewrite (sum_n_single R k) by (try exact Hk; intros x _ Hx; rewrite (proj2 (Nat.eqb_neq k x)) by congruence; reflexivity).
      now rewrite Nat.eqb_refl.
Qed.

Lemma tprod_repeat (Us : list (list (list V))) : forall (i : idx) (k : nat), length i = length Us ->
  tprod v0 v1 vmul Us i (repeat k (length Us)) = kprod v0 v1 vmul Us i k.
Proof.
  induction Us as [|U Us IH]; intros [|x i] k H; cbn in H; try discriminate; [reflexivity|].
  cbn [length repeat tprod kprod]. rewrite IH by lia. reflexivity.
Qed.

Lemma inb_repeat (R k m : nat) : (k < R)%nat -> inb (repeat R m) (repeat k m) = true.
Proof. intros H. induction m as [|m IH]; [reflexivity|]. cbn [repeat inb]. rewrite IH, (proj2 (Nat.ltb_lt k R) H). reflexivity. Qed.

(* the Tucker tensor with the superdiagonal core of K's weights and K's factor matrices denotes what K denotes *)
Theorem cp_as_tucker_den (K : ktensor V) (i : idx) :
  den_t v0 v1 vadd vmul (cp_as_tucker v0 vadd K) i = den_k v0 v1 vadd vmul K i.
Proof.
  unfold den_t, den_k, cp_as_tucker, tshape, kshape, krank. cbn [tcore tfactors].
  destruct (inb (map (@nrows V) (kfactors K)) i) eqn:Hi; [|reflexivity].
  assert (Hlen : length i = length (kfactors K)) by (apply inb_length in Hi; now rewrite map_length in Hi).
  set (w := kweights K). set (Us := kfactors K) in *. set (R := length w). set (d := length Us).
  unfold sdiag_core. rewrite dshape_tabulate. fold R d.
  rewrite (sum_over_ext V v0 vadd _ _
             (fun j => SN R (fun k => if forallb (Nat.eqb k) j then nth k w v0 * tprod v0 v1 vmul Us i j else v0))).
  2:{ intros j Hj. apply in_allsubs in Hj. rewrite den_tabulate by exact Hj. unfold sdiag_entry. fold R.
      rewrite <- (sum_n_scale_r V v0 v1 vadd vmul vsub vopp Vring). apply sum_n_ext. intros k _.
      destruct (forallb (Nat.eqb k) j); ring. }
  unfold sum_n at 1. rewrite (sum_over_swap V v0 v1 vadd vmul vsub vopp Vring). fold (SN R).
  apply sum_n_ext. intros k Hk.
  etransitivity; [exact (diag_sum R k Hk d (fun j => nth k w v0 * tprod v0 v1 vmul Us i j))|].
  unfold d. now rewrite tprod_repeat.
Qed.

Lemma cp_as_tucker_wf (K : ktensor V) : Forall (fun A => ncols A = krank K) (kfactors K) -> wf_tucker V (cp_as_tucker v0 vadd K).
Proof.
  intros W. unfold wf_tucker, cp_as_tucker, sdiag_core. cbn [tcore tfactors]. rewrite dshape_tabulate. split.
  - apply repeat_length.
  - unfold krank in W. induction (kfactors K) as [|A As IH]; [reflexivity|].
    inversion W as [|? ? HA HAs]; subst. cbn [map length repeat]. f_equal; [exact HA|now apply IH].
Qed.

(* ... so ttensor.nvecs on the Tucker form and ktensor.nvecs on the Kruskal tensor hand the same matrix to the eigen solver *)
Theorem cp_tucker_same_gram (K : ktensor V) (n a b : nat) :
  Forall (fun A => ncols A = krank K) (kfactors K) -> n < length (kfactors K) ->
  a < nrows (nth n (kfactors K) []) -> b < nrows (nth n (kfactors K) []) ->
  mget v0 (gram_t_impl v0 v1 vadd vmul (cp_as_tucker v0 vadd K) n) a b = mget v0 (gram_k_impl v0 vadd vmul K n) a b /\
  mget v0 (gram_k_impl v0 vadd vmul K n) a b = gram_spec v0 vadd vmul (kshape K) (den_k v0 v1 vadd vmul K) n a b.
Proof.
  intros W Hn Ha Hb. split; [|now apply (gram_kruskal V v0 v1 vadd vmul vsub vopp Vring)].
  rewrite (gram_tucker V v0 v1 vadd vmul vsub vopp Vring (cp_as_tucker v0 vadd K) n a b (cp_as_tucker_wf K W) Hn Ha Hb).
  rewrite (gram_kruskal V v0 v1 vadd vmul vsub vopp Vring K n a b Hn Ha Hb).
  unfold gram_spec, tshape, kshape, cp_as_tucker. cbn [tfactors].
  apply sum_over_ext. intros i _. fold (cp_as_tucker v0 vadd K). now rewrite !cp_as_tucker_den.
Qed.
End CpTuckerProofs.

(* two unit-norm-free, non-orthogonal integer columns per factor: weights (2, 3), A = [[1 1] [0 1] [2 0]], B = [[1 2] [1 1]] *)
Example cp_tucker_example :
  let K := mkK [2; 3] [[[1; 1]; [0; 1]; [2; 0]]; [[1; 2]; [1; 1]]] in
  ddata (tcore (cp_as_tucker 0 Nat.add K)) = [2; 0; 0; 3] /\
  gram_t_impl 0 1 Nat.add Nat.mul (cp_as_tucker 0 Nat.add K) 0 = gram_k_impl 0 Nat.add Nat.mul K 0 /\
  gram_k_impl 0 Nat.add Nat.mul K 0 = [[89; 63; 52]; [63; 45; 36]; [52; 36; 32]] /\
  gram_matrix 0 Nat.add Nat.mul [3; 2] (den_k 0 1 Nat.add Nat.mul K) 0 = [[89; 63; 52]; [63; 45; 36]; [52; 36; 32]].
Proof. vm_compute. repeat split. Qed.
