(* Model/C03Kr.v — sparse * Kruskal and sparse / Kruskal (pyttb.sptensor.__mul__ / __truediv__, ktensor operand),
   transliterated loop for loop (wave 4):

     csubs = self.subs; cvals = zeros(self.vals.shape); R = other.weights.size; N = self.ndims
     for r in range(R):
         tvals = other.weights[r] * self.vals                         (division: ones((nnz, 1)).dot(other.weights[r]))
         for n in range(N):
             v = other.factor_matrices[n][:, r][:, None]
             tvals = tvals * v[csubs[:, n]]
         cvals += tvals
     return sptensor(csubs, cvals, self.shape)                        (division: self.vals / np.maximum(eps, cvals))

   Column arrays are lists with one value per stored row; `a * b`, `a += b` on columns are zipw.  Since /repo d4293a0 (findings
   C03-K1 / C03-K2 repaired) __mul__ ends with keep = cvals[:, 0] != 0; return sptensor(csubs[keep], cvals[keep], shape) and both
   branches start with `if self.nnz == 0: return self.copy()`: impl_mul_k is the intermediate (csubs, cvals), impl_mul_k_filtered the
   code as it is.  The eps clamp of the
   division is part of the element function dv handed to impl_div_k (instance: kdivz below).  Definitions only. *)
From Coq Require Import List ZArith Bool Arith QArith Qabs Qcanon.
From PV Require Import Base.Index Base.Sum Np.Array Model.Sparse Model.Repr Model.Harness Model.C03Ops Model.C03Gen Model.C03Chk.
Import ListNotations.

Section Kr.
Context {V : Type} (v0 v1 : V) (vadd vmul : V -> V -> V).

(* other.factor_matrices[n][:, r][csubs[:, n]] : one value per stored row *)
Definition kr_gather (K : ktensor V) (subs : list idx) (n r : nat) : list V :=
  map (fun s : idx => mget v0 (nth n (kfactors K) []) (nth n s 0%nat) r) subs.
(* for n in range(N): tvals = tvals * v[csubs[:, n]] *)
Definition kr_modes (K : ktensor V) (subs : list idx) (N r : nat) (tvals : list V) : list V :=
  fold_left (fun tv n => zipw vmul tv (kr_gather K subs n r)) (seq 0%nat N) tvals.
(* for r in range(R): cvals += (inner loop started from init r) *)
Definition kr_accum (K : ktensor V) (subs : list idx) (N : nat) (init : nat -> list V) (zeros : list V) : list V :=
  fold_left (fun cv r => zipw vadd cv (kr_modes K subs N r (init r))) (seq 0%nat (krank K)) zeros.

Definition kr_zeros (vals : list V) : list V := map (fun _ => v0) vals.
(* the value column of S * K *)
Definition mul_k_vals (A : sparse V) (K : ktensor V) : list V :=
  kr_accum K (ssubs A) (length (sshape A)) (fun r => map (vmul (nth r (kweights K) v0)) (svals A)) (kr_zeros (svals A)).
Definition impl_mul_k (A : sparse V) (K : ktensor V) : sparse V := mkSp (sshape A) (ssubs A) (mul_k_vals A K).
(* S * K as the code is: the loops, then keep = cvals[:, 0] != 0; sptensor(csubs[keep], cvals[keep], shape) *)
Definition impl_mul_k_filtered (isz : V -> bool) (A : sparse V) (K : ktensor V) : sparse V :=
  of_entries (sshape A) (drop_zeros isz (combine (ssubs A) (mul_k_vals A K))).
(* the Kruskal values gathered at the stored rows (the `vals` array of __truediv__) *)
Definition div_k_den (A : sparse V) (K : ktensor V) : list V :=
  kr_accum K (ssubs A) (length (sshape A)) (fun r => map (fun _ => vmul v1 (nth r (kweights K) v0)) (svals A)) (kr_zeros (svals A)).
Definition impl_div_k {X} (dv : V -> V -> X) (A : sparse V) (K : ktensor V) : sparse X :=
  mkSp (sshape A) (ssubs A) (zipw dv (svals A) (div_k_den A K)).

(* what the Kruskal tensor holds at subscript s, without the bounds test of den_k *)
Definition ksum (K : ktensor V) (s : idx) : V :=
  sum_n v0 vadd (krank K) (fun r => vmul (nth r (kweights K) v0) (kprod v0 v1 vmul (kfactors K) s r)).
End Kr.

(* ---- Z instance, IEEE division with the eps clamp ---- *)
Local Open Scope Z_scope.
(* np.finfo(float).eps = 2^-52 *)
Definition keps : Qc := Q2Qc (1 # 4503599627370496).
(* x / np.maximum(eps, k): always finite *)
Definition kdivz (x k : Z) : xval := XFin (z2q x / qmax keps (z2q k))%Qc.

Definition zmul_k (A : sparse Z) (K : ktensor Z) : sparse Z := impl_mul_k 0 Z.add Z.mul A K.
Definition zdiv_k (A : sparse Z) (K : ktensor Z) : sparse xval := impl_div_k 0 1 Z.add Z.mul kdivz A K.

(* the element-wise meaning on the fully expanded arrays *)
Definition spec_mul_k (A : sparse Z) (K : ktensor Z) : dense Z := spec_dense2 Z.mul (sshape A) (zden_sp A) (zden_k K).
Definition spec_div_k (A : sparse Z) (K : ktensor Z) : dense xval := spec_dense2 xdivz (sshape A) (zden_sp A) (zden_k K).

(* list-for-list tie of the transliterations (stored order included) *)
Definition xsp_raw_close_k (O R : sparse xval) : bool :=
  nvec_eqb (sshape O) (sshape R) && nmat_eqb (ssubs O) (ssubs R) && list_eqb xclose (svals O) (svals R).
Definition mul_k_model_ok (O A : sparse Z) (K : ktensor Z) : bool := sp_raw_eqb O (zmul_k A K).
(* the tie that runs (c03.py: KRUSKAL_FILTERED = True): the code as it is since d4293a0 *)
Definition mul_k_filtered_model_ok (O A : sparse Z) (K : ktensor Z) : bool :=
  sp_raw_eqb O (impl_mul_k_filtered 0 Z.add Z.mul zisz A K).
Definition div_k_model_ok (O : sparse xval) (A : sparse Z) (K : ktensor Z) : bool := xsp_raw_close_k O (zdiv_k A K).
