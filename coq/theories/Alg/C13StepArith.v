(* Alg/C13StepArith.v — the update arithmetic of SGD / Adam / Adagrad in exact rationals (Qc), the square root as an ORACLE
   (DESIGN §C13).  Source anchors: pyttb/gcp/optimizers.py::SGD.update_step, Adam.update_step / set_failed_epoch,
   Adagrad.update_step / set_failed_epoch.
   The step functions are the ones of Alg/C13Steps.v (transliterations over abstract operations) instantiated with the
   field operations of Qc; of the square root only `0 <= sq x` is assumed.  Theorems: the entry-wise closed forms of the
   new factor entries / moments / accumulator, the direction of every step (a feasible entry never moves along the
   gradient resp. the first moment), fixed points, and what a failed epoch undoes.
   The generated correspondence cases run exactly these instances on the numbers captured from pyttb's update_step, the
   oracle being the table of the np.sqrt results pyttb computed (checked: s >= 0, s*s = argument up to 1e-9 relative). *)
From Coq Require Import List Arith Lia Bool QArith Qabs Qcanon Lqa.
From PV Require Import Model.Harness Alg.C13Steps.
Import ListNotations.

(* ============================================================================================== *)
(* generic list facts about the transliterated steps                                               *)
(* ============================================================================================== *)
Local Open Scope nat_scope.
Section Lists.
Context {A B C : Type}.
Lemma length_zipw (h : A -> B -> C) l1 l2 : length (zipw h l1 l2) = Nat.min (length l1) (length l2).
Proof. revert l2. induction l1 as [|a l1 IH]; intros [|b l2]; cbn; auto. Qed.
Lemma nth_zipw (h : A -> B -> C) l1 l2 k d d1 d2 :
  k < length l1 -> k < length l2 -> nth k (zipw h l1 l2) d = h (nth k l1 d1) (nth k l2 d2).
Proof.
  revert l2 k. induction l1 as [|a l1 IH]; intros [|b l2] k H1 H2; cbn in *; try lia.
  destruct k; [reflexivity|]. apply IH; lia.
Qed.
Lemma nth_map_lt (f : A -> B) l k d d' : k < length l -> nth k (map f l) d = f (nth k l d').
Proof. intros H. rewrite (nth_indep _ d (f d')) by (now rewrite map_length). apply map_nth. Qed.
End Lists.

(* what a failed epoch undoes (any value type): Adam goes back to the moments and the step counter it had BEFORE THE LAST
   STEP (m_prev / v_prev are overwritten on every step, so only the last step of the failed epoch is undone) *)
Section FailedEpoch.
Variable V : Type.
Variables (vmax vadd vsub vmul vdiv : V -> V -> V) (vsqrt : V -> V) (vpow : V -> nat -> V) (v0 v1 : V).
Lemma adam_failed_after_step rate decay b1 b2 eps ei nf lb o xs gs : atot V o <> 0 ->
  adam_failed V ei (snd (adam_step V vmax vadd vsub vmul vdiv vsqrt vpow v0 v1 rate decay b1 b2 eps ei nf lb o xs gs)) =
  mkAdam V (am V o) (av V o) (am V o) (av V o) (atot V o).
Proof.
  intros Ht. unfold adam_step, adam_failed. cbn [snd am_prev av_prev atot].
  destruct (Nat.eqb_spec (atot V o) 0) as [E|E]; [contradiction|]. f_equal. lia.
Qed.
Lemma adam_failed_after_first_step rate decay b1 b2 eps ei nf lb o xs gs :
  adam_failed V ei (snd (adam_step V vmax vadd vsub vmul vdiv vsqrt vpow v0 v1 rate decay b1 b2 eps ei nf lb (adam_reset V o) xs gs)) =
  mkAdam V (map (fun _ => v0) xs) (map (fun _ => v0) xs) (map (fun _ => v0) xs) (map (fun _ => v0) xs) 0.
Proof. unfold adam_step, adam_failed, adam_reset. cbn. f_equal. lia. Qed.
End FailedEpoch.

(* ============================================================================================== *)
(* Qc: order facts (through Q, where lra / nra work)                                                *)
(* ============================================================================================== *)
Local Open Scope Qc_scope.
Ltac qcq := unfold Qcle, Qclt, Qcminus, Qcdiv, Qcplus, Qcmult, Qcopp, Qcinv in *; cbn [this Q2Qc] in *;
            rewrite ?Qred_correct in *.

Lemma qc_mul_nonneg (a b : Qc) : 0 <= a -> 0 <= b -> 0 <= a * b.
Proof. intros. qcq. nra. Qed.
Lemma qc_mul_nonneg_nonpos (a b : Qc) : 0 <= a -> b <= 0 -> a * b <= 0.
Proof. intros. qcq. nra. Qed.
Lemma qc_div_nonneg (a b : Qc) : 0 <= a -> 0 < b -> 0 <= a / b.
Proof. intros Ha Hb. qcq. pose proof (Qinv_lt_0_compat b Hb). nra. Qed.
Lemma qc_div_nonpos (a b : Qc) : a <= 0 -> 0 < b -> a / b <= 0.
Proof. intros Ha Hb. qcq. pose proof (Qinv_lt_0_compat b Hb). nra. Qed.
Lemma qc_inv_nonneg (a : Qc) : 0 <= a -> 0 <= 1 / a.
Proof.
  intros Ha. qcq. destruct (Qlt_le_dec 0 a) as [H|H].
  - pose proof (Qinv_lt_0_compat a H). nra.
  - assert (E : (this a == 0)%Q) by lra. rewrite E. cbn. lra.
Qed.
Lemma qc_sub_le (x d : Qc) : 0 <= d -> x - d <= x.
Proof. intros. qcq. lra. Qed.
Lemma qc_sub_ge (x d : Qc) : d <= 0 -> x <= x - d.
Proof. intros. qcq. lra. Qed.
Lemma qc_add_pos (a b : Qc) : 0 <= a -> 0 < b -> 0 < a + b.
Proof. intros. qcq. lra. Qed.
Lemma qc_add_nonneg (a b : Qc) : 0 <= a -> 0 <= b -> 0 <= a + b.
Proof. intros. qcq. lra. Qed.
Lemma qc_le_add_nonneg (a b : Qc) : 0 <= b -> a <= a + b.
Proof. intros. qcq. lra. Qed.
Lemma qc_sq_nonneg (a : Qc) : 0 <= a * a.
Proof. qcq. nra. Qed.
Lemma qc_pow_nonneg (a : Qc) n : 0 <= a -> 0 <= a ^ n.
Proof. intros Ha. induction n as [|n IH]; cbn [Qcpower]; [now qcq | now apply qc_mul_nonneg]. Qed.
Lemma qc_pow_le1 (a : Qc) n : 0 <= a -> a <= 1 -> a ^ n <= 1.
Proof.
  intros Ha H1. induction n as [|n IH]; cbn [Qcpower]; [apply Qcle_refl|].
  pose proof (qc_pow_nonneg a n Ha) as Hp. qcq. nra.
Qed.
(* the bias corrections 1 - beta^t are positive for 0 <= beta < 1 and t >= 1 *)
Lemma qc_bias_pos (b : Qc) t : 0 <= b -> b < 1 -> (1 <= t)%nat -> 0 < 1 - b ^ t.
Proof.
  intros Hb H1 Ht. destruct t as [|t]; [lia|]. cbn [Qcpower].
  pose proof (qc_pow_nonneg b t Hb) as Hp. pose proof (qc_pow_le1 b t Hb (Qclt_le_weak _ _ H1)) as Hq. qcq. nra.
Qed.

Lemma qmax_l (a b : Qc) : a <= qmax a b.
Proof. unfold qmax, qleb. destruct (Qle_bool a b) eqn:E; [now apply Qle_bool_iff in E | apply Qcle_refl]. Qed.
Lemma qmax_r (a b : Qc) : b <= qmax a b.
Proof.
  unfold qmax, qleb. destruct (Qle_bool a b) eqn:E; [apply Qcle_refl|].
  destruct (Qlt_le_dec b a) as [H|H]; [now apply Qlt_le_weak|]. apply Qle_bool_iff in H. congruence.
Qed.
Lemma qmax_lub (a b c : Qc) : a <= c -> b <= c -> qmax a b <= c.
Proof. intros. unfold qmax. now destruct (qleb a b). Qed.
Lemma qmax_above (a b : Qc) : a <= b -> qmax a b = b.
Proof. intros H. unfold qmax, qleb. apply Qle_bool_iff in H. now rewrite H. Qed.

(* ============================================================================================== *)
(* the projected update x' = max(lb, x - d)                                                         *)
(* ============================================================================================== *)
Notation qabove := (above Qc Qcle).
Notation qclamp := (clamp Qc qmax).

(* a feasible entry moves against the sign of d, an entry with d = 0 stays; an inactive bound changes nothing *)
Lemma clamp_move_down lb (x d : Qc) : qabove lb x -> 0 <= d -> qclamp lb (x - d) <= x.
Proof.
  intros Hx Hd. pose proof (qc_sub_le x d Hd). destruct lb as [b|]; cbn in *; [now apply qmax_lub | assumption].
Qed.
Lemma clamp_move_up lb (x d : Qc) : d <= 0 -> x <= qclamp lb (x - d).
Proof.
  intros Hd. pose proof (qc_sub_ge x d Hd) as H. destruct lb as [b|]; cbn; [|assumption].
  eapply Qcle_trans; [exact H | apply qmax_r].
Qed.
Lemma clamp_feasible_id lb (y : Qc) : qabove lb y -> qclamp lb y = y.
Proof. destruct lb as [b|]; cbn; [apply qmax_above | reflexivity]. Qed.
Lemma clamp_stay lb (x d : Qc) : qabove lb x -> d = 0 -> qclamp lb (x - d) = x.
Proof. intros Hx ->. replace (x - 0) with x by ring. now apply clamp_feasible_id. Qed.
Lemma clamp_unbounded (x d : Qc) : qclamp None (x - d) = x - d.
Proof. reflexivity. Qed.
Lemma clamp_above lb (y : Qc) : qabove lb (qclamp lb y).
Proof. destruct lb as [b|]; cbn; [apply qmax_l | exact I]. Qed.

(* Adagrad's guard `self._gnormsum > 0` (/repo 2496788, finding C13-G1) *)
Definition qposb (x : Qc) : bool := negb (qleb x 0).
Lemma qposb_false (x : Qc) : qposb x = false -> x <= 0.
Proof. unfold qposb, qleb. intros H. apply negb_false_iff in H. now apply Qle_bool_iff in H. Qed.
Lemma qposb_nonpos (x : Qc) : x <= 0 -> qposb x = false.
Proof. unfold qposb, qleb. intros H. apply negb_false_iff. now apply Qle_bool_iff. Qed.
Lemma qposb_zero : qposb 0 = false.
Proof. reflexivity. Qed.

(* ============================================================================================== *)
(* the three optimizers over Qc, sq = the square-root oracle                                        *)
(* ============================================================================================== *)
Section QSteps.
Variable sq : Qc -> Qc.
Hypothesis sq_nonneg : forall x, 0 <= sq x.

Definition qsgd_step := sgd_step Qc qmax Qcminus Qcmult Qcpower.
Definition qadam_step := adam_step Qc qmax Qcplus Qcminus Qcmult Qcdiv sq Qcpower 0 1.
Definition qadagrad_step := adagrad_step Qc qmax Qcplus Qcminus Qcmult Qcdiv sq 0 1 qposb.

(* ---------------- SGD: x' = max(lb, x - decay^nfails * rate * g) ---------------- *)
Definition sgd_stepsize (rate decay : Qc) (nfails : nat) : Qc := decay ^ nfails * rate.
Lemma sgd_stepsize_nonneg rate decay nf : 0 <= rate -> 0 <= decay -> 0 <= sgd_stepsize rate decay nf.
Proof. intros. apply qc_mul_nonneg; [now apply qc_pow_nonneg | assumption]. Qed.
(* every failed epoch multiplies the step by decay *)
Lemma sgd_stepsize_fail rate decay nf : sgd_stepsize rate decay (S nf) = decay * sgd_stepsize rate decay nf.
Proof. unfold sgd_stepsize. cbn [Qcpower]. ring. Qed.

Theorem sgd_step_arith rate decay nf lb xs gs : length gs = length xs ->
  length (qsgd_step rate decay nf lb xs gs) = length xs /\
  forall k, (k < length xs)%nat ->
    let x := nth k xs 0 in let g := nth k gs 0 in let x' := nth k (qsgd_step rate decay nf lb xs gs) 0 in
    x' = qclamp lb (x - sgd_stepsize rate decay nf * g) /\ qabove lb x' /\
    (0 <= rate -> 0 <= decay ->
       (qabove lb x -> 0 <= g -> x' <= x) /\ (g <= 0 -> x <= x') /\ (qabove lb x -> g = 0 -> x' = x)).
Proof.
  intros Hl. unfold qsgd_step, sgd_step, project. split.
  - rewrite map_length, length_zipw. lia.
  - intros k Hk. cbn zeta.
    rewrite (nth_map_lt _ _ _ _ 0) by (rewrite length_zipw; lia).
    rewrite (nth_zipw _ _ _ _ _ 0 0) by lia. fold (sgd_stepsize rate decay nf).
    split; [reflexivity|]. split; [apply clamp_above|]. intros Hr Hd.
    pose proof (sgd_stepsize_nonneg rate decay nf Hr Hd) as Hs. repeat split.
    + intros Hx Hg. apply clamp_move_down; [assumption | now apply qc_mul_nonneg].
    + intros Hg. apply clamp_move_up. now apply qc_mul_nonneg_nonpos.
    + intros Hx Hg. apply clamp_stay; [assumption|]. rewrite Hg. ring.
Qed.

(* ---------------- Adagrad: gsum' = gsum + sum g^2, step = 1 / sqrt(gsum') if gsum' > 0 else 0, x' = max(lb, x - step * g) ------- *)
Definition sumsq (gs : list Qc) : Qc := fold_right Qcplus 0 (map (fun g => g * g) gs).
Lemma sumsq_nonneg gs : 0 <= sumsq gs.
Proof.
  unfold sumsq. induction gs as [|g gs IH]; cbn [map fold_right]; [apply Qcle_refl|].
  apply qc_add_nonneg; [apply qc_sq_nonneg | exact IH].
Qed.
Definition adagrad_stepsize (gsum' : Qc) : Qc := if qposb gsum' then 1 / sq gsum' else 0.
Lemma adagrad_stepsize_nonneg g : 0 <= adagrad_stepsize g.
Proof. unfold adagrad_stepsize. destruct (qposb g); [apply qc_inv_nonneg, sq_nonneg | apply Qcle_refl]. Qed.

Theorem adagrad_step_arith lb gsum xs gs : length gs = length xs ->
  let gsum' := snd (qadagrad_step lb gsum xs gs) in let step := adagrad_stepsize gsum' in
  gsum' = gsum + sumsq gs /\ gsum <= gsum' /\ (0 <= gsum -> 0 <= gsum') /\ 0 <= step /\
  length (fst (qadagrad_step lb gsum xs gs)) = length xs /\
  forall k, (k < length xs)%nat ->
    let x := nth k xs 0 in let g := nth k gs 0 in let x' := nth k (fst (qadagrad_step lb gsum xs gs)) 0 in
    x' = qclamp lb (x - step * g) /\ qabove lb x' /\
    (qabove lb x -> 0 <= g -> x' <= x) /\ (g <= 0 -> x <= x') /\ (qabove lb x -> g = 0 -> x' = x).
Proof.
  intros Hl. unfold qadagrad_step, adagrad_step, project. cbn [fst snd]. fold (sumsq gs).
  fold (adagrad_stepsize (gsum + sumsq gs)).
  pose proof (sumsq_nonneg gs) as Hq.
  pose proof (adagrad_stepsize_nonneg (gsum + sumsq gs)) as Hs.
  split; [reflexivity|]. split; [now apply qc_le_add_nonneg|]. split; [intros; now apply qc_add_nonneg|].
  split; [exact Hs|]. split; [rewrite map_length, length_zipw; lia|].
  intros k Hk. cbn zeta.
  rewrite (nth_map_lt _ _ _ _ 0) by (rewrite length_zipw; lia).
  rewrite (nth_zipw _ _ _ _ _ 0 0) by lia.
  split; [reflexivity|]. split; [apply clamp_above|]. repeat split.
  - intros Hx Hg. apply clamp_move_down; [assumption | now apply qc_mul_nonneg].
  - intros Hg. apply clamp_move_up. now apply qc_mul_nonneg_nonpos.
  - intros Hx Hg. apply clamp_stay; [assumption|]. rewrite Hg. ring.
Qed.
(* the zero accumulator (finding C13-G1, repaired): while the accumulated squared gradient norm is not positive the step size is 0
   WHATEVER the square root answers (it is not asked: no 1 / sqrt(0) = inf, no inf * 0 = nan); every entry becomes max(lb, x) —
   the bound holds, and a feasible model stays exactly where it is *)
Theorem adagrad_zero_accumulator lb gsum xs gs : length gs = length xs -> gsum + sumsq gs <= 0 ->
  adagrad_stepsize (gsum + sumsq gs) = 0 /\
  snd (qadagrad_step lb gsum xs gs) = gsum + sumsq gs /\
  fst (qadagrad_step lb gsum xs gs) = map (qclamp lb) xs /\
  Forall (qabove lb) (fst (qadagrad_step lb gsum xs gs)) /\
  (Forall (qabove lb) xs -> fst (qadagrad_step lb gsum xs gs) = xs).
Proof.
  intros Hl Hz. unfold qadagrad_step, adagrad_step, project, adagrad_stepsize. cbn [fst snd]. fold (sumsq gs).
  rewrite (qposb_nonpos _ Hz).
  assert (E : zipw (fun x g : Qc => x - 0 * g) xs gs = xs).
  { clear Hz. revert gs Hl. induction xs as [|x xs IH]; intros [|g gs] Hl; cbn in *; try reflexivity; try discriminate.
    f_equal; [ring | apply IH; now injection Hl]. }
  rewrite E. split; [reflexivity|]. split; [reflexivity|]. split; [reflexivity|]. split.
  - apply Forall_map. apply Forall_forall. intros x _. apply clamp_above.
  - intros Hf. clear Hl Hz E. induction Hf as [|x l Hx Hf IH']; cbn [map]; [reflexivity|]. f_equal; [now apply clamp_feasible_id | exact IH'].
Qed.
(* the first step of a solve / after a failed epoch with an exactly zero gradient: accumulator 0 + 0 *)
Corollary adagrad_zero_gradient_after_reset lb g0 xs gs : length gs = length xs -> sumsq gs = 0 -> Forall (qabove lb) xs ->
  qadagrad_step lb (adagrad_reset Qc 0 g0) xs gs = (xs, 0).
Proof.
  intros Hl Hs Hf. unfold adagrad_reset.
  destruct (adagrad_zero_accumulator lb 0 xs gs Hl) as (_ & H2 & _ & _ & H5).
  { rewrite Hs. apply Qcle_refl. }
  rewrite (surjective_pairing (qadagrad_step lb 0 xs gs)), H2, (H5 Hf), Hs. f_equal.
Qed.
(* set_failed_epoch / reset_state: the accumulator restarts at 0, so the next step size is 1 / sqrt(sum g^2) of that step alone *)
Lemma adagrad_after_reset lb g0 xs gs :
  snd (qadagrad_step lb (adagrad_reset Qc 0 g0) xs gs) = sumsq gs.
Proof. unfold qadagrad_step, adagrad_step, adagrad_reset. cbn [snd]. fold (sumsq gs). ring. Qed.

(* ---------------- Adam ---------------- *)
(* the moments the step works on: zeros of the model's size when _total_iterations = 0 *)
Definition adam_m0 (o : adam_state Qc) (xs : list Qc) := if Nat.eqb (atot Qc o) 0 then am Qc o ++ map (fun _ => 0) xs else am Qc o.
Definition adam_w0 (o : adam_state Qc) (xs : list Qc) := if Nat.eqb (atot Qc o) 0 then av Qc o ++ map (fun _ => 0) xs else av Qc o.
(* the bias-corrected second moments: the arguments of the square root *)
Definition adam_vhat (b2 : Qc) (ei : nat) (o : adam_state Qc) (xs gs : list Qc) : list Qc :=
  map (fun vk => vk / (1 - b2 ^ (atot Qc o + ei)))
      (zipw (fun vk gk => b2 * vk + (1 - b2) * (gk * gk)) (adam_w0 o xs) gs).

Theorem adam_step_arith rate decay b1 b2 eps ei nf lb o xs gs :
  let m0 := adam_m0 o xs in let w0 := adam_w0 o xs in
  length gs = length xs -> length m0 = length xs -> length w0 = length xs ->
  let r := qadam_step rate decay b1 b2 eps ei nf lb o xs gs in
  let t := (atot Qc o + ei)%nat in
  atot Qc (snd r) = t /\ am_prev Qc (snd r) = m0 /\ av_prev Qc (snd r) = w0 /\
  length (fst r) = length xs /\ length (am Qc (snd r)) = length xs /\ length (av Qc (snd r)) = length xs /\
  forall k, (k < length xs)%nat ->
    let x := nth k xs 0 in let g := nth k gs 0 in
    let m' := nth k (am Qc (snd r)) 0 in let v' := nth k (av Qc (snd r)) 0 in let x' := nth k (fst r) 0 in
    (* first and second moment, the projected update with bias corrections *)
    m' = b1 * nth k m0 0 + (1 - b1) * g /\ v' = b2 * nth k w0 0 + (1 - b2) * (g * g) /\
    x' = qclamp lb (x - (sgd_stepsize rate decay nf * (m' / (1 - b1 ^ t))) / (sq (v' / (1 - b2 ^ t)) + eps)) /\
    qabove lb x' /\
    (* direction: with rate, decay >= 0, eps > 0, 0 <= beta_1 < 1 and at least one iteration per epoch a feasible entry
       never moves along the first moment *)
    (0 <= rate -> 0 <= decay -> 0 < eps -> 0 <= b1 -> b1 < 1 -> (1 <= ei)%nat ->
       (qabove lb x -> 0 <= m' -> x' <= x) /\ (m' <= 0 -> x <= x') /\ (qabove lb x -> m' = 0 -> x' = x)).
Proof.
  intros m0 w0 Hg Hm Hw r t. unfold r, qadam_step, adam_step. fold (adam_m0 o xs) (adam_w0 o xs). fold m0 w0.
  cbn [fst snd atot am av am_prev av_prev]. fold t. fold (sgd_stepsize rate decay nf).
  split; [reflexivity|]. split; [reflexivity|]. split; [reflexivity|].
  assert (Lm : length (zipw (fun mk gk => b1 * mk + (1 - b1) * gk) m0 gs) = length xs) by (rewrite length_zipw; lia).
  assert (Lw : length (zipw (fun vk gk => b2 * vk + (1 - b2) * (gk * gk)) w0 gs) = length xs) by (rewrite length_zipw; lia).
  split; [unfold project; rewrite map_length, !length_zipw, !map_length; lia|].
  split; [exact Lm|]. split; [exact Lw|].
  intros k Hk. cbn zeta.
  rewrite (nth_zipw (fun mk gk => b1 * mk + (1 - b1) * gk) m0 gs k 0 0 0) by lia.
  rewrite (nth_zipw (fun vk gk => b2 * vk + (1 - b2) * (gk * gk)) w0 gs k 0 0 0) by lia.
  split; [reflexivity|]. split; [reflexivity|].
  unfold project. rewrite (nth_map_lt _ _ _ _ 0) by (rewrite !length_zipw, !map_length; lia).
  rewrite (nth_zipw _ xs _ k _ 0 0) by (try rewrite !length_zipw, !map_length; lia).
  rewrite (nth_zipw _ _ _ k _ 0 0) by (rewrite map_length; lia).
  rewrite (nth_map_lt _ _ _ _ 0) by lia. rewrite (nth_map_lt _ _ _ _ 0) by lia.
  rewrite (nth_zipw (fun mk gk => b1 * mk + (1 - b1) * gk) m0 gs k 0 0 0) by lia.
  rewrite (nth_zipw (fun vk gk => b2 * vk + (1 - b2) * (gk * gk)) w0 gs k 0 0 0) by lia.
  split; [reflexivity|]. split; [apply clamp_above|].
  intros Hr Hd He Hb0 Hb1 Hei.
  set (m' := b1 * nth k m0 0 + (1 - b1) * nth k gs 0).
  set (den := sq ((b2 * nth k w0 0 + (1 - b2) * (nth k gs 0 * nth k gs 0)) / (1 - b2 ^ t)) + eps).
  assert (Hden : 0 < den) by (apply qc_add_pos; [apply sq_nonneg | exact He]).
  assert (Hbias : 0 < 1 - b1 ^ t) by (apply qc_bias_pos; try assumption; unfold t; lia).
  pose proof (sgd_stepsize_nonneg rate decay nf Hr Hd) as Hs. repeat split.
  - intros Hx Hm'. apply clamp_move_down; [assumption|].
    apply qc_div_nonneg; [|exact Hden]. apply qc_mul_nonneg; [exact Hs|]. now apply qc_div_nonneg.
  - intros Hm'. apply clamp_move_up. apply qc_div_nonpos; [|exact Hden].
    apply qc_mul_nonneg_nonpos; [exact Hs|]. now apply qc_div_nonpos.
  - intros Hx Hm'. apply clamp_stay; [assumption|]. rewrite Hm'. unfold Qcdiv. ring.
Qed.

(* the first step after reset_state(): the moments are (1 - beta) g and (1 - beta_2) g^2, so the step goes against the
   gradient itself *)
Theorem adam_first_step_arith rate decay b1 b2 eps ei nf lb o xs gs : length gs = length xs ->
  let r := qadam_step rate decay b1 b2 eps ei nf lb (adam_reset Qc o) xs gs in
  atot Qc (snd r) = ei /\
  forall k, (k < length xs)%nat ->
    let x := nth k xs 0 in let g := nth k gs 0 in let x' := nth k (fst r) 0 in
    nth k (am Qc (snd r)) 0 = (1 - b1) * g /\ nth k (av Qc (snd r)) 0 = (1 - b2) * (g * g) /\
    (0 <= rate -> 0 <= decay -> 0 < eps -> 0 <= b1 -> b1 < 1 -> (1 <= ei)%nat ->
       (qabove lb x -> 0 <= g -> x' <= x) /\ (g <= 0 -> x <= x') /\ (qabove lb x -> g = 0 -> x' = x)).
Proof.
  intros Hg r.
  assert (Hm0 : adam_m0 (adam_reset Qc o) xs = map (fun _ => 0) xs) by reflexivity.
  assert (Hw0 : adam_w0 (adam_reset Qc o) xs = map (fun _ => 0) xs) by reflexivity.
  pose proof (adam_step_arith rate decay b1 b2 eps ei nf lb (adam_reset Qc o) xs gs Hg) as H.
  rewrite Hm0, Hw0 in H. specialize (H ltac:(now rewrite map_length) ltac:(now rewrite map_length)).
  cbn zeta in H. fold r in H. destruct H as (Ht & _ & _ & _ & _ & _ & H).
  split; [exact Ht|]. intros k Hk. cbn zeta. destruct (H k Hk) as (Hm' & Hv' & _ & _ & Hdir).
  rewrite (nth_map_lt _ _ _ _ 0) in Hm', Hv' by exact Hk.
  assert (Em : nth k (am Qc (snd r)) 0 = (1 - b1) * nth k gs 0) by (rewrite Hm'; ring).
  assert (Ev : nth k (av Qc (snd r)) 0 = (1 - b2) * (nth k gs 0 * nth k gs 0)) by (rewrite Hv'; ring).
  split; [exact Em|]. split; [exact Ev|].
  intros Hr Hd He Hb0 Hb1 Hei. destruct (Hdir Hr Hd He Hb0 Hb1 Hei) as (D1 & D2 & D3).
  assert (H1b : 0 <= 1 - b1) by (qcq; lra).
  repeat split.
  - intros Hx Hg0. apply D1; [assumption|]. rewrite Em. now apply qc_mul_nonneg.
  - intros Hg0. apply D2. rewrite Em. now apply qc_mul_nonneg_nonpos.
  - intros Hx Hg0. apply D3; [assumption|]. rewrite Em, Hg0. ring.
Qed.
End QSteps.

(* ============================================================================================== *)
(* executable instances for the generated cases: the oracle is the table of observed square roots   *)
(* ============================================================================================== *)
Fixpoint sq_lookup (tbl : list (Qc * Qc)) (x : Qc) : Qc :=
  match tbl with [] => 0 | (a, s) :: tbl' => if Qc_eq_bool a x then s else sq_lookup tbl' x end.
(* s is an acceptable square root of x: s >= 0 and |s*s - x| <= 1e-9 * x *)
Definition sqrt_ok (s x : Qc) : bool := qleb 0 s && qleb (qabs (s * s - x)) (tol9 * x).
Fixpoint sqrt_all_ok (ss xs : list Qc) : bool :=
  match ss, xs with [] , [] => true | s :: ss', x :: xs' => sqrt_ok s x && sqrt_all_ok ss' xs' | _, _ => false end.
Definition qopt_close (a b : list Qc) : bool := qvec_close tol9 a b.

(* SGD: observed new entries and step size *)
Definition qsgd_check (rate decay : Qc) (nf : nat) (lb : option Qc) (xs gs xs'_obs : list Qc) (step_obs : Qc) : bool :=
  qopt_close xs'_obs (qsgd_step rate decay nf lb xs gs) && qclose tol9 step_obs (sgd_stepsize rate decay nf) &&
  match lb with None => true | Some b => forallb (qleb b) xs'_obs end.

(* Adagrad: ONE square root per step *)
(* ... and NONE while the accumulator is not positive (nsq = the number of np.sqrt calls observed inside the step; s is ignored then) *)
Definition qadagrad_check (lb : option Qc) (gsum : Qc) (xs gs : list Qc) (nsq : nat) (s : Qc)
           (xs'_obs : list Qc) (gsum'_obs step_obs : Qc) : bool :=
  let r := qadagrad_step (fun _ => s) lb gsum xs gs in
  (if qposb (snd r) then Nat.eqb nsq 1 && sqrt_ok s (snd r) else Nat.eqb nsq 0) &&
  qopt_close xs'_obs (fst r) && qclose tol9 gsum'_obs (snd r) && qclose tol9 step_obs (adagrad_stepsize (fun _ => s) (snd r)) &&
  match lb with None => true | Some b => forallb (qleb b) xs'_obs end.

(* Adam: one square root per entry, looked up by its exact argument *)
Definition qadam_check (rate decay b1 b2 eps : Qc) (ei nf : nat) (lb : option Qc) (o : adam_state Qc) (xs gs ss : list Qc)
           (xs'_obs m'_obs v'_obs mprev_obs vprev_obs : list Qc) (tot'_obs : nat) (step_obs : Qc) : bool :=
  let vh := adam_vhat b2 ei o xs gs in
  let r := qadam_step (sq_lookup (combine vh ss)) rate decay b1 b2 eps ei nf lb o xs gs in
  sqrt_all_ok ss vh && qopt_close xs'_obs (fst r) && qopt_close m'_obs (am Qc (snd r)) && qopt_close v'_obs (av Qc (snd r)) &&
  qopt_close mprev_obs (am_prev Qc (snd r)) && qopt_close vprev_obs (av_prev Qc (snd r)) && Nat.eqb tot'_obs (atot Qc (snd r)) &&
  qclose tol9 step_obs (sgd_stepsize rate decay nf) &&
  match lb with None => true | Some b => forallb (qleb b) xs'_obs end.
(* set_failed_epoch *)
Definition qadam_failed_check (ei : nat) (o : adam_state Qc) (m_obs v_obs : list Qc) (tot_obs : nat) : bool :=
  let o' := adam_failed Qc ei o in
  qopt_close m_obs (am Qc o') && qopt_close v_obs (av Qc o') && Nat.eqb tot_obs (atot Qc o').

(* non-vacuity: one SGD step with an active bound, one Adagrad and one Adam step with exact square roots *)
Definition qz (z : Z) : Qc := Q2Qc (inject_Z z).
Example sgd_step_example :   (* x = [1; 2], g = [4; -2], step = (1/2)^1 * 1/2 = 1/4, lb = 1/2: [max(1/2, 0); 5/2] *)
  qsgd_step (Q2Qc (1 # 2)) (Q2Qc (1 # 2)) 1 (Some (Q2Qc (1 # 2))) [qz 1; qz 2] [qz 4; qz (-2)] = [Q2Qc (1 # 2); Q2Qc (5 # 2)].
Proof. vm_compute. reflexivity. Qed.
Example adagrad_step_example :   (* gsum 0 -> 9 + 16 = 25, sqrt 5 (oracle), step 1/5: x - g/5 *)
  qadagrad_step (fun _ => qz 5) None 0 [qz 1; qz 2] [qz 3; qz (-4)] = ([Q2Qc (2 # 5); Q2Qc (14 # 5)], qz 25).
Proof. vm_compute. reflexivity. Qed.
Example adagrad_zero_example :   (* accumulator 0, gradient 0: stays, whatever the oracle says; an infeasible entry is projected *)
  qadagrad_step (fun _ => qz 7) (Some (qz 2)) 0 [qz 1; qz 3] [0; 0] = ([qz 2; qz 3], 0) /\
  qadagrad_check (Some (qz 2)) 0 [qz 1; qz 3] [0; 0] 0 0 [qz 2; qz 3] 0 0 = true /\
  qadagrad_check (Some (qz 2)) 0 [qz 1; qz 3] [0; 0] 1 0 [qz 2; qz 3] 0 0 = false.
Proof. vm_compute. repeat split; reflexivity. Qed.
Definition qlist_eqb := list_eqb Qc_eq_bool.
Example adam_step_example :   (* first step: b1 = b2 = 1/2, ei = 1: mhat = g, vhat = g^2 = [9; 16]; sqrt = [3; 4]; eps = 1; rate 1 *)
  let r := qadam_step (sq_lookup [(qz 9, qz 3); (qz 16, qz 4)]) 1 1 (Q2Qc (1 # 2)) (Q2Qc (1 # 2)) 1 1 0 None
                      (mkAdam Qc [] [] [] [] 0) [qz 1; qz 2] [qz 3; qz (-4)] in
  qlist_eqb (fst r) [Q2Qc (1 # 4); Q2Qc (14 # 5)] = true /\ qlist_eqb (am Qc (snd r)) [Q2Qc (3 # 2); qz (-2)] = true /\
  qlist_eqb (av Qc (snd r)) [Q2Qc (9 # 2); qz 8] = true /\ atot Qc (snd r) = 1%nat /\
  qlist_eqb (adam_vhat (Q2Qc (1 # 2)) 1 (mkAdam Qc [] [] [] [] 0) [qz 1; qz 2] [qz 3; qz (-4)]) [qz 9; qz 16] = true.
Proof. vm_compute. repeat split; reflexivity. Qed.
