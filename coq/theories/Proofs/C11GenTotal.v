(* Proofs/C11GenTotal.v — the GENERATED multiplicative-update function (Gen/GenCpAprMu.v) RETURNS for every request with maxiters >= 1:
   no index of kktViolations / nInnerIters / nViolations / times / Phi / kktModeViolations is ever out of range and `iteration` is bound at
   the end — for ARBITRARY kernels, clock, tolerances, N.  (With maxiters = 0 the Python code raises UnboundLocalError on `iteration`:
   excluded by the property's admissible requests.)  Together with Proofs/C11GenMu.v this makes the non-negativity / bookkeeping
   theorems over the generated loop non-vacuous for every admissible request. *)
From Coq Require Import String List Arith Bool Lia.
From PV Require Import Model.W4SPrelude Gen.GenCpAprMu Proofs.W4SCpAprMu.
Import ListNotations.
Local Open Scope nat_scope.

Lemma sk_set_some {A} (l : list A) i v : i < length l -> exists l', sk_set l i v = Some l' /\ length l' = length l.
Proof.
  intros H. unfold sk_set. destruct (i <? length l) eqn:E; [|apply Nat.ltb_ge in E; lia].
  eexists. split; [reflexivity|]. rewrite app_length, firstn_length. cbn [length]. rewrite skipn_length. lia.
Qed.

Lemma nth_error_some {A} (l : list A) i : i < length l -> exists x, nth_error l i = Some x.
Proof. intros H. destruct (nth_error l i) eqn:E; [eauto|]. apply nth_error_None in E. lia. Qed.

Section Total.
Variables T_W T_F T_Mat T_Mask T_K T_X T_Pi : Type.
Variable c_leF : T_F -> T_F -> bool.
Variable c_zeroF c_m1F : T_F.
Variable c_subF : T_F -> T_F -> T_F.
Variable k_normalize : T_K -> nat -> T_K.
Variable k_zeros_like_factor : T_K -> nat -> T_Mat.
Variable k_time : T_W -> T_W * T_F.
Variable k_violation_mask : list T_Mat -> nat -> T_K -> T_F -> T_Mask.
Variable k_any : T_Mask -> bool.
Variable k_add_kappa : T_K -> nat -> T_Mask -> T_F -> T_K.
Variable k_redistribute : T_K -> nat -> T_K.
Variable k_calculate_pi : T_X -> T_K -> nat -> nat -> nat -> T_Pi.
Variable k_calculate_phi : T_W -> T_X -> T_K -> nat -> nat -> T_Pi -> T_F -> T_W * T_Mat.
Variable k_kkt_mode : T_K -> nat -> list T_Mat -> T_F.
Variable k_mult_update : T_K -> nat -> list T_Mat -> T_K.
Variable k_normalize_mode : T_K -> nat -> nat -> T_K.
Variable k_max : list T_F -> T_F.
Variable k_normalize_sort : T_K -> nat -> bool -> T_K.
Variable k_loglikelihood : T_X -> T_K -> T_F.

Notation gloop1 := (GenCpAprMu.cp_apr_mu_loop1 T_Mat T_K k_zeros_like_factor).
Notation gloop4 := (GenCpAprMu.cp_apr_mu_loop4 T_W T_F T_Mat T_K T_X T_Pi c_leF k_calculate_phi k_kkt_mode k_mult_update).
Notation gloop3 := (GenCpAprMu.cp_apr_mu_loop3 T_W T_F T_Mat T_Mask T_K T_X T_Pi c_leF k_violation_mask k_any k_add_kappa k_redistribute
  k_calculate_pi k_calculate_phi k_kkt_mode k_mult_update k_normalize_mode).
Notation gloop2 := (GenCpAprMu.cp_apr_mu_loop2 T_W T_F T_Mat T_Mask T_K T_X T_Pi c_leF c_subF k_time k_violation_mask k_any k_add_kappa
  k_redistribute k_calculate_pi k_calculate_phi k_kkt_mode k_mult_update k_normalize_mode k_max).
Notation gmu := (GenCpAprMu.cp_apr_mu T_W T_F T_Mat T_Mask T_K T_X T_Pi c_leF c_zeroF c_m1F c_subF k_normalize k_zeros_like_factor k_time
  k_violation_mask k_any k_add_kappa k_redistribute k_calculate_pi k_calculate_phi k_kkt_mode k_mult_update k_normalize_mode k_max
  k_normalize_sort k_loglikelihood).

Lemma loop1_total M : forall fuel i Phi n, exists Phi' n', gloop1 M fuel i (Phi, n) = Some (Phi', n') /\ length Phi' = length Phi + fuel.
Proof.
  induction fuel as [|fuel IH]; intros i Phi n.
  - exists Phi, n. cbn. split; [reflexivity|lia].
  - cbn [GenCpAprMu.cp_apr_mu_loop1]. destruct (IH (S i) (Phi ++ [k_zeros_like_factor M i]) (Some i)) as (Phi' & n' & E & L).
    exists Phi', n'. split; [exact E|]. rewrite L, app_length. cbn. lia.
Qed.

Lemma loop4_total Pi eps X it n rank tol : forall fuel i M Phi cv km ni w,
  n < length Phi -> n < length km -> it < length ni ->
  exists M' Phi' cv' km' ni' w', gloop4 Pi eps X it n rank tol fuel i (M, Phi, cv, km, ni, w) = Some (M', Phi', cv', km', ni', w') /\
    length Phi' = length Phi /\ length km' = length km /\ length ni' = length ni.
Proof.
  induction fuel as [|fuel IH]; intros i M Phi cv km ni w H1 H2 H3.
  - exists M, Phi, cv, km, ni, w. cbn. auto.
  - cbn [GenCpAprMu.cp_apr_mu_loop4].
    destruct (nth_error_some ni it H3) as (c & ->).
    destruct (sk_set_some ni it (c + 1) H3) as (ni1 & -> & L1).
    destruct (k_calculate_phi w X M rank n Pi eps) as [w1 ph].
    destruct (sk_set_some Phi n ph H1) as (Phi1 & -> & L2).
    destruct (sk_set_some km n (k_kkt_mode M n Phi1) H2) as (km1 & -> & L3).
    destruct (nth_error_some km1 n ltac:(lia)) as (t & ->).
    destruct (negb (c_leF tol t)).
    + do 6 eexists. split; [reflexivity|]. auto.
    + destruct (IH (S i) (k_mult_update M n Phi1) Phi1 false km1 ni1 w1 ltac:(lia) ltac:(lia) ltac:(lia))
        as (M' & Phi' & cv' & km' & ni' & w' & E & A1 & A2 & A3).
      do 6 eexists. split; [exact E|]. repeat split; congruence.
Qed.

Lemma loop3_total N eps X it kappa kappatol maxinner rank tol : forall fuel i M Phi cv km n ni nv w,
  i + fuel <= length Phi -> length km = length Phi -> it < length ni -> it < length nv ->
  exists M' Phi' cv' km' n' ni' nv' w',
    gloop3 N eps X it kappa kappatol maxinner rank tol fuel i (M, Phi, cv, km, n, ni, nv, w) = Some (M', Phi', cv', km', n', ni', nv', w') /\
    length Phi' = length Phi /\ length km' = length km /\ length ni' = length ni /\ length nv' = length nv.
Proof.
  induction fuel as [|fuel IH]; intros i M Phi cv km n ni nv w H1 H2 H3 H4.
  - do 8 eexists. cbn. split; [reflexivity|auto].
  - cbn [GenCpAprMu.cp_apr_mu_loop3].
    assert (T : forall M1 (V1 : option T_Mask) nv1, length nv1 = length nv ->
      exists M' Phi' cv' km' n' ni' nv' w',
        match gloop4 (k_calculate_pi X (k_redistribute M1 i) rank i N) eps X it i rank tol maxinner 0 (k_redistribute M1 i, Phi, cv, km, ni, w) with
        | None => None
        | Some (v_M, v_Phi, v_isConverged, v_kktModeViolations, v_nInnerIters, v_w) =>
            gloop3 N eps X it kappa kappatol maxinner rank tol fuel (S i)
              (k_normalize_mode v_M i 1, v_Phi, v_isConverged, v_kktModeViolations, Some i, v_nInnerIters, nv1, v_w)
        end = Some (M', Phi', cv', km', n', ni', nv', w') /\
        length Phi' = length Phi /\ length km' = length km /\ length ni' = length ni /\ length nv' = length nv).
    { intros M1 V1 nv1 Lnv.
      destruct (loop4_total (k_calculate_pi X (k_redistribute M1 i) rank i N) eps X it i rank tol maxinner 0 (k_redistribute M1 i) Phi cv km ni w
                  ltac:(lia) ltac:(lia) H3) as (M2 & Phi2 & cv2 & km2 & ni2 & w2 & -> & A1 & A2 & A3).
      destruct (IH (S i) (k_normalize_mode M2 i 1) Phi2 cv2 km2 (Some i) ni2 nv1 w2 ltac:(lia) ltac:(lia) ltac:(lia) ltac:(lia))
        as (M' & Phi' & cv' & km' & n' & ni' & nv' & w' & E & B1 & B2 & B3 & B4).
      do 8 eexists. split; [exact E|]. repeat split; congruence. }
    destruct (0 <? it).
    + cbv zeta. destruct (k_any _).
      * destruct (nth_error_some nv it H4) as (c & ->). destruct (sk_set_some nv it (c + 1) H4) as (nv1 & -> & L).
        apply (T _ (Some (k_violation_mask Phi i M kappatol)) nv1 L).
      * apply (T _ (Some (k_violation_mask Phi i M kappatol)) nv eq_refl).
    + apply (T _ None nv eq_refl).
Qed.

Lemma loop2_total N eps X kappa kappatol maxinner rank start stoptime tol : forall fuel i M Phi it km kv n ni nt nv w,
  N <= length Phi -> length km = length Phi ->
  i + fuel <= length kv -> length ni = length kv -> length nt = length kv -> length nv = length kv ->
  exists M' Phi' it' km' kv' n' ni' nt' nv' w',
    gloop2 N eps X kappa kappatol maxinner rank start stoptime tol fuel i (M, Phi, it, km, kv, n, ni, nt, nv, w)
      = Some (M', Phi', it', km', kv', n', ni', nt', nv', w') /\ (0 < fuel -> exists j, it' = Some j).
Proof.
  induction fuel as [|fuel IH]; intros i M Phi it km kv n ni nt nv w H1 H2 H3 H4 H5 H6.
  - do 10 eexists. cbn. split; [reflexivity|lia].
  - cbn [GenCpAprMu.cp_apr_mu_loop2].
    destruct (loop3_total N eps X i kappa kappatol maxinner rank tol N 0 M Phi true km n ni nv w ltac:(lia) H2 ltac:(lia) ltac:(lia))
      as (M1 & Phi1 & cv1 & km1 & n1 & ni1 & nv1 & w1 & -> & A1 & A2 & A3 & A4).
    destruct (sk_set_some kv i (k_max km1) ltac:(lia)) as (kv1 & -> & L1).
    destruct (k_time w1) as [w2 t].
    destruct (sk_set_some nt i (c_subF t start) ltac:(lia)) as (nt1 & -> & L2).
    destruct cv1.
    + do 10 eexists. split; [reflexivity|]. intros _. eauto.
    + destruct (nth_error_some nt1 i ltac:(lia)) as (t12 & ->).
      destruct (negb (c_leF t12 stoptime)).
      * do 10 eexists. split; [reflexivity|]. intros _. eauto.
      * destruct (IH (S i) M1 Phi1 (Some i) km1 kv1 n1 ni1 nt1 nv1 w2 ltac:(lia) ltac:(lia) ltac:(lia) ltac:(lia) ltac:(lia) ltac:(lia))
          as (M' & Phi' & it' & km' & kv' & n' & ni' & nt' & nv' & w' & E & B).
        do 10 eexists. split; [exact E|]. intros _. destruct fuel as [|fuel'].
        -- cbn in E. inversion E. eauto.
        -- apply B. lia.
Qed.

Theorem gen_mu_total : forall w X rank init stoptol stoptime maxiters maxinner eps printitn printinner kappa kappatol N,
  1 <= maxiters ->
  exists M out w', gmu w X rank init stoptol stoptime maxiters maxinner eps printitn printinner kappa kappatol N = Some (M, out, w').
Proof.
  intros until N. intros Hm. unfold GenCpAprMu.cp_apr_mu.
  destruct (loop1_total (k_normalize init 1) N 0 [] None) as (Phi0 & n0 & -> & L0). cbn [length] in L0.
  destruct (k_time w) as [w1 t1].
  destruct (loop2_total N eps X kappa kappatol maxinner rank t1 stoptime stoptol maxiters 0 (k_normalize init 1) Phi0 None (repeat c_zeroF N)
              (repeat c_m1F maxiters) n0 (repeat 0 maxiters) (repeat c_zeroF maxiters) (repeat 0 maxiters) w1)
    as (M' & Phi' & it' & km' & kv' & n' & ni' & nt' & nv' & w' & -> & B); rewrite ?repeat_length; try lia.
  destruct (k_time w') as [w3 t3]. destruct (B ltac:(lia)) as (j & ->). do 3 eexists. reflexivity.
Qed.
End Total.
