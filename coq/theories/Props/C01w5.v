(* Props/C01w5.v — C01, fifth wave: Tucker tensors with scipy coo factor matrices (ordinary inputs since /repo 9d096f6) and
   ttm over a list of modes for dense / sparse receivers, as pyttb executes them. Only statements, `exact`, Print Assumptions. *)
From Coq Require Import List Arith Bool ZArith Ring.
From PV Require Import Base.Index Base.Perm Base.Sum Np.Array Model.Sparse Model.Repr Model.C07Ops Model.C01Conv
  Model.C01Unique Model.C01Coo Model.C01Ttm Model.C01W3 Model.C01W4 Model.C01W5 Model.C01W5Sum Proofs.C01Kruskal Proofs.C01W4 Proofs.C01W5 Proofs.C01W5Sum.
From PV Require Np.NpZ Np.NpZ2 Gen.GenKernels Gen.GenUtils Model.C02Modes Proofs.C02ModesProofs Proofs.C01GenKr Proofs.C01W5Gen Proofs.C01W5Req.
Import ListNotations.

Section C01w5.
Variable V : Type.
Variables (v0 v1 : V) (vadd vmul vsub : V -> V -> V) (vopp : V -> V) (isz : V -> bool).
Hypothesis Vring : ring_theory v0 v1 vadd vmul vsub vopp (@eq V).
Hypothesis isz_spec : forall v, isz v = true <-> v = v0.

(* the row list standing for a scipy coo matrix reads as C.toarray(): duplicates summed, explicit zeros harmless *)
Theorem C01_coo_matrix_reads : forall (C : coo V) j k, j < coo_rows C -> k < coo_cols C ->
  nrows (coo_matrix v0 vadd C) = coo_rows C /\ mget v0 (coo_matrix v0 vadd C) j k = den_coo v0 vadd C [j; k].
Proof. exact (fun C j k Hj Hk => conj (nrows_coo_matrix V v0 vadd C) (mget_coo_matrix V v0 vadd C j k Hj Hk)). Qed.

(* the assumption on scipy's sparse-sparse product is satisfiable: the reference product meets it *)
Theorem C01_spdot_ref_spec : spdot_spec v0 vadd vmul (spdot_ref v0 vadd vmul isz).
Proof. exact (spdot_ref_spec V v0 v1 vadd vmul vsub vopp isz Vring isz_spec). Qed.

(* sptensor.ttm(U, n) with a scipy coo matrix U, as executed — to_sptenmat([n], "t"), scipy product Z (ANY well-formed coo
   matrix denoting Xnt @ U.T), sptenmat.from_array(Z, ...).to_sptensor(), result kept sparse iff Z.nnz <= prod(siz) / 2 —
   returns, in either container, a well-formed object of the new shape denoting the mode-n product of the densified tensor
   with U.toarray() *)
Theorem C01_sptensor_ttm_coo : forall spdot, spdot_spec v0 vadd vmul spdot ->
  forall (G : sparse V) (C : coo V) n, wf_sp isz G -> n < length (sshape G) -> wf_coo C -> coo_cols C = nth n (sshape G) 0 ->
  exists h, sp_ttm_coo v0 vadd isz spdot G C n = Some h /\ wf_holder isz h /\
    holder_shape h = set_nth (sshape G) n (coo_rows C) /\
    holder_full v0 h = ttm_mode v0 vadd vmul (full v0 G) (coo_matrix v0 vadd C) n.
Proof. exact (sp_ttm_coo_correct V v0 v1 vadd vmul vsub vopp isz Vring isz_spec). Qed.

(* X.ttm(matrices, dims) as executed for ANY list of (mode, matrix) pairs (the order tt_dimscheck delivers), a tensor or
   sptensor receiver, ndarray and coo matrices mixed, the intermediate result changing its container on the way: the final
   object, densified, is the sequence of subscript-level mode products of the densified receiver *)
Theorem C01_ttm_mode_list : forall spdot, spdot_spec v0 vadd vmul spdot ->
  forall (ps : list (nat * factor V)) (h : holder V), wf_holder isz h ->
  chain_ok V v0 vadd (holder_shape h) ps ->
  exists h', ttm_chain v0 vadd vmul isz spdot h ps = Some h' /\ wf_holder isz h' /\
    holder_full v0 h' = ttm_pairs v0 vadd vmul (holder_full v0 h) ps.
Proof. exact (ttm_chain_correct V v0 v1 vadd vmul vsub vopp isz Vring isz_spec). Qed.

(* ... AS CALLED: the request (dims in any order | exclude_dims | neither; one matrix per designated mode or one per tensor mode) is
   resolved by the GENERATED tt_dimscheck (Gen/GenUtils.v; alignment lemma of C02 instantiated with ndarray / coo multiplicands):
   it answers the designated modes ascending and the positions of the matrices the caller attached to them, and the loop run on
   exactly these pairs densifies to the sequence of mode products. An edit of tt_dimscheck in /repo breaks this proof. *)
Theorem C01_ttm_as_called : forall spdot, spdot_spec v0 vadd vmul spdot ->
  forall (h : holder V) dims excl (ms : list (factor V)), wf_holder isz h ->
  let N := Z.of_nat (length (holder_shape h)) in
  C02ModesProofs.admissible N dims excl (NpZ.zlen ms) ->
  let d := C02Modes.req_modes N dims excl in
  exists vidx, GenUtils.tt_dimscheck N (Some (NpZ.zlen ms)) dims excl = NpZ.Ok (NpZ.np_sort d, Some vidx) /\
    let ps := combine (C02Modes.nats (NpZ.np_sort d)) (map (NpZ.znth (C01W5Req.fdflt V) ms) vidx) in
    ps = combine (C02Modes.nats (NpZ.np_sort d))
                 (map (C02Modes.attach (C01W5Req.fdflt V) d ms) (C02Modes.nats (NpZ.np_sort d))) /\
    (chain_ok V v0 vadd (holder_shape h) ps ->
     exists h', ttm_chain v0 vadd vmul isz spdot h ps = Some h' /\ wf_holder isz h' /\
       holder_full v0 h' = ttm_pairs v0 vadd vmul (holder_full v0 h) ps).
Proof. exact (C01W5Req.ttm_as_called V v0 v1 vadd vmul vsub vopp isz Vring isz_spec). Qed.

(* ttensor.full() for a dense OR sparse core and factor matrices that are ndarrays OR scipy coo matrices (every coo factor
   well-formed with as many columns as the core has cells in its mode): the code's route — core.ttm(factor list), to_tensor()
   of a result that stayed sparse — returns the subscript-level Tucker array of (densified core, toarray of the factors),
   well-formed, of the reported shape, denoting sum_j G[j] prod_n U_n[i_n, j_n] *)
Theorem C01_tucker_coo_factors : forall spdot, spdot_spec v0 vadd vmul spdot ->
  forall (core : holder V) (Fs : list (factor V)),
  wf_holder isz core -> length (holder_shape core) = length Fs -> Fs <> [] ->
  (forall k, k < length Fs -> fac_ok (nth k Fs (FDense [])) (nth k (holder_shape core) 0)) ->
  let T := mkT (holder_full v0 core) (map (fac_matrix v0 vadd) Fs) in
  ttensor_full_fac v0 vadd vmul isz spdot core Fs = Some (ttensor_full v0 vadd vmul T) /\
  wf_dense (ttensor_full v0 vadd vmul T) /\ dshape (ttensor_full v0 vadd vmul T) = tshape T /\
  forall i, den_dense v0 (ttensor_full v0 vadd vmul T) i = den_t v0 v1 vadd vmul T i.
Proof. exact (ttensor_full_fac_correct V v0 v1 vadd vmul vsub vopp isz Vring isz_spec). Qed.

(* HISTORIES of a sumtensor: sumtensor(parts) followed by any sequence of `S + part` / `part + S` (appended), `S + [parts]`, unary
   minus (every part negated by its own class: data, stored values, Kruskal weights, Tucker core), `+S` / copy(), with all parts
   (initial and added; dense, sparse, Kruskal of any rank, Tucker with dense or sparse core) admissible and of one shape s:
   every constructor call on the way accepts, the parts stay admissible, and — unless no part is held — full() as executed
   (C01_sum_impl's route) returns a well-formed dense tensor of shape s whose entry at i is the value the history prescribes
   from the initial sum: plus what was added, negated where the history negates *)
Theorem C01_sum_history : forall s (parts : list (part4 V)) (ops : list (sop V)),
  Forall (part4_ok V isz s) parts -> Forall (sop_ok V isz s) ops ->
  exists st, sum_ctor parts = Some parts /\ run_history vopp parts ops = Some st /\ Forall (part4_ok V isz s) st /\
    (st <> [] ->
     exists R, sum_history_full v0 vadd vmul vopp isz parts ops = Some R /\ wf_dense R /\ dshape R = s /\
       forall i, inb s i = true ->
         den_dense v0 R i
         = hist_val v0 v1 vadd vmul vopp (den_sum v0 vadd (map (part4_den v0 v1 vadd vmul) parts) i) ops i).
Proof. exact (sum_history_correct V v0 v1 vadd vmul vsub vopp isz Vring isz_spec). Qed.

(* ... and a part of another shape is refused by the constructor behind `+` *)
Theorem C01_sum_history_shape_guard : forall (p q : part4 V) (rest : list (part4 V)),
  In q rest -> part4_shape p <> part4_shape q -> sum_ctor (p :: rest) = None.
Proof. exact (sum_ctor_mismatch V). Qed.
End C01w5.

(* ktensor.full's Khatri-Rao route with the GENERATED pyttb.khatrirao on both sides (Proofs/C01GenKr.v ktensor_full_at_gen: reverse
   Khatri-Rao products of factor_matrices[:i] and [i:], weights, matrix product, F-order reshape) yields the specified dense
   tensor at EVERY split point 0 < i < N — of the nested helper min_split_dims, which the translator does not reach, nothing is
   used beyond `its value lies in 1 .. N-1` *)
Theorem C01_kruskal_generated_any_split : forall (K : ktensor Z) isplit,
  1 <= krank K -> rows_ok Z (krank K) (kfactors K) -> Forall (fun A => A <> []) (kfactors K) ->
  0 < isplit < length (kfactors K) ->
  C01GenKr.ktensor_full_at_gen K isplit = Some (ktensor_full_spec 0%Z 1%Z Z.add Z.mul K).
Proof. exact C01W5Gen.ktensor_full_at_gen_any_split. Qed.

Print Assumptions C01_coo_matrix_reads.
Print Assumptions C01_kruskal_generated_any_split.
Print Assumptions C01_spdot_ref_spec.
Print Assumptions C01_sptensor_ttm_coo.
Print Assumptions C01_ttm_mode_list.
Print Assumptions C01_ttm_as_called.
Print Assumptions C01_tucker_coo_factors.
Print Assumptions C01_sum_history.
Print Assumptions C01_sum_history_shape_guard.

(* non-vacuity on a non-symmetric instance: a 2 x 3 sparse core with two stored entries (reversed order), a 4 x 2 coo factor
   with a split position ([3,1] stored as 2 + 3) and an explicit zero, a 2 x 3 ndarray factor; the first product stays SPARSE
   (3 stored entries of Z against 12 cells), the second is sptensor.ttm with an ndarray (dense result); the former witness of
   N-C01-5 (2 x 2 dense core, factors [coo 3 x 2, ndarray 2 x 2]) *)
Example C01_example_w5 :
  let dot := spdot_ref 0%Z Z.add Z.mul (Z.eqb 0) in
  let G := mkSp [2; 3] [[1; 2]; [0; 0]] [4; 1]%Z in
  let C := mkCoo [4; 2] [[0; 0]; [3; 1]; [2; 0]; [3; 1]; [1; 1]] [2; 2; 0; 3; -1]%Z in
  let U := [[1; 0; 2]; [0; 3; 1]]%Z in
  coo_matrix 0%Z Z.add C = [[2; 0]; [0; -1]; [0; 0]; [0; 5]]%Z /\
  sp_ttm_coo 0%Z Z.add (Z.eqb 0) dot G C 0 = Some (HS (mkSp [4; 3] [[0; 0]; [1; 2]; [3; 2]] [2; -4; 20]%Z)) /\
  ttensor_full_fac 0%Z Z.add Z.mul (Z.eqb 0) dot (HS G) [FCoo C; FDense U]
    = Some (mkDense [4; 2] [2; -8; 0; 40; 0; -4; 0; 20]%Z) /\
  ttensor_full_fac 0%Z Z.add Z.mul (Z.eqb 0) dot (HS G) [FCoo C; FDense U]
    = Some (ttensor_full 0%Z Z.add Z.mul (mkT (full 0%Z G) [coo_matrix 0%Z Z.add C; U])) /\
  ttensor_full_fac 0%Z Z.add Z.mul (Z.eqb 0) dot (HD (mkDense [2; 2] [1; 3; 2; 4]%Z))
      [FCoo (mkCoo [3; 2] [[0; 0]; [1; 0]; [1; 1]; [2; 1]] [1; 2; 1; 3]%Z); FDense [[1; 1]; [0; 2]]%Z]
    = Some (mkDense [3; 2] [3; 13; 21; 4; 16; 24]%Z) /\
  (* a mode list that is not the Tucker one: modes 1 then 0 of a sparse 2 x 3 receiver *)
  option_map (holder_full 0%Z) (ttm_chain 0%Z Z.add Z.mul (Z.eqb 0) dot (HS G) [(1, FDense U); (0, FCoo C)])
    = Some (ttm_pairs 0%Z Z.add Z.mul (full 0%Z G) [(1, FDense U); (0, FCoo C)]) /\
  (* a 2 x 3 x 2 x 2 Kruskal tensor of rank 2 through the generated Khatri-Rao route: the three split points agree *)
  let K := mkK [2; -1]%Z [[[1; 2]; [0; 1]]; [[1; 0]; [2; 1]; [1; 3]]; [[1; 1]; [2; 0]]; [[3; 1]; [1; 2]]]%Z in
  C01GenKr.ktensor_full_at_gen K 1 = C01GenKr.ktensor_full_at_gen K 3 /\
  C01GenKr.ktensor_full_at_gen K 2 = Some (ktensor_full_spec 0%Z 1%Z Z.add Z.mul K) /\
  option_map (fun D => den_dense 0%Z D [1; 2; 0; 1]) (C01GenKr.ktensor_full_at_gen K 1) = Some (-6)%Z /\
  (* a history: sumtensor([dense 2x2, sparse]) + Kruskal, negated, + Tucker with a sparse core, copied *)
  let D := mkDense [2; 2] [1; 2; 3; 4]%Z in
  let Sp := mkSp [2; 2] [[1; 0]; [0; 1]] [5; -1]%Z in
  let Kk := mkK [2]%Z [[[1]; [2]]; [[3]; [1]]]%Z in
  let Tt := QTS (mkSp [1; 2] [[0; 1]] [2%Z]) [[[1]; [3]]; [[1; 0]; [0; 1]]]%Z in
  sum_history_full 0%Z Z.add Z.mul Z.opp (Z.eqb 0) [QD D; QS Sp] [OAdd (QK Kk); ONeg; OAdd Tt; OCopy]
    = Some (mkDense [2; 2] [-7; -19; -2; -2]%Z) /\
  hist_val 0%Z 1%Z Z.add Z.mul Z.opp (den_sum 0%Z Z.add (map (part4_den 0%Z 1%Z Z.add Z.mul) [QD D; QS Sp]) [1; 0])
    [OAdd (QK Kk); ONeg; OAdd Tt; OCopy] [1; 0] = (-19)%Z /\
  sop_step Z.opp [QD D] (OAdd (QS (mkSp [2; 3] [] []))) = None /\
  (* the generated tt_dimscheck on the request dims = [1, 0] with two matrices: modes ascending, matrices swapped *)
  GenUtils.tt_dimscheck 2%Z (Some 2%Z) (Some [1; 0]%Z) None = NpZ.Ok ([0; 1]%Z, Some [1; 0]%Z) /\
  combine (C02Modes.nats [0; 1]%Z) (map (NpZ.znth (C01W5Req.fdflt Z) [FDense U; FCoo C]) [1; 0]%Z) = [(0, FCoo C); (1, FDense U)].
Proof. repeat split; vm_compute; reflexivity. Qed.
