(* Proofs/GenRows.v — theorems about the GENERATED tt_union_rows (Gen/GenUtils2.v, regenerated from
   pyttb/pyttb_utils.py on every run).

   Contract proved (duplicate-free arguments, second argument in lexicographic row order — e.g. the output of
   np.where(...).transpose(), the only in-repo caller):
       rows of the result = rows of B that do not occur in A (in B's order), followed by the rows of A.
   For an UNSORTED duplicate-free B the code as it stands selects the wrong rows (finding C17-UNION:
   `idxB[np.where(location < 0)]` indexes the first-occurrence table, which is in sorted-row order, with positions
   taken in B's own order); the witness is replayed by tools/props/c17.py.  The bridges for tt_intersect_rows /
   tt_setdiff_rows on duplicate-free inputs are in Proofs/C03Rows.v (builder w2-c03c06) and reused here. *)
From Coq Require Import List ZArith Arith Bool Lia Permutation Sorted.
From PV Require Import Base.Index Np.NpZ Np.NpZ2 Proofs.NpZProofs Proofs.UtilsProofs Gen.GenUtils Proofs.RowsProofs
  Proofs.C03Rows Gen.GenUtils2.
Import ListNotations.
Local Open Scope Z_scope.

Definition row_lt (r q : vec) : Prop := row_ltb r q = true.

(* ---- np.unique(axis=0, return_index=True) of a strictly sorted row list is the list itself ---- *)

Lemma unique_rows_fold_sorted (B : mat) (ts : vec) : Sorted row_lt B -> length ts = length B ->
  fold_right ins_urow [] (combine B ts) = combine B ts.
Proof.
  revert ts; induction B as [|r B IH]; intros ts Hs Hl; [reflexivity|].
  destruct ts as [|t ts]; [discriminate|]. cbn [combine fold_right].
  inversion Hs as [|? ? Hs' Hhd]; subst. rewrite IH by (auto; cbn in Hl; lia).
  destruct B as [|q B']; [reflexivity|]. destruct ts as [|t' ts']; [cbn in Hl; lia|].
  cbn [combine ins_urow fst]. inversion Hhd; subst. unfold row_lt in *. now rewrite H0.
Qed.

Lemma unique_rows_sorted (B : mat) : Sorted row_lt B -> np_unique_rows B = (B, tags B).
Proof.
  intros Hs. unfold np_unique_rows. rewrite unique_rows_fold_sorted by (auto; now rewrite map_length, seq_length).
  unfold tags. rewrite map_fst_combine, map_snd_combine by (now rewrite map_length, seq_length). reflexivity.
Qed.

Lemma unique_rows_idx_perm (m : mat) : NoDup m -> Permutation (snd (np_unique_rows m)) (tags m).
Proof.
  intros Hn. unfold np_unique_rows. cbn [snd].
  eapply perm_trans; [apply Permutation_map, urow_fold_perm|].
  - rewrite map_fst_combine by (now rewrite map_length, seq_length). exact Hn.
  - rewrite map_snd_combine by (now rewrite map_length, seq_length). apply Permutation_refl.
Qed.

Lemma take_tags {X} (d : X) (l : list X) : np_take d l (map Z.of_nat (seq 0 (length l))) = l.
Proof.
  unfold np_take. rewrite map_map. rewrite (map_ext _ (fun k => nth k l d)) by (intros; apply znth_nat).
  induction l as [|x l IH]; [reflexivity|]. cbn [length seq map nth]. f_equal.
  rewrite <- seq_shift, map_map. exact IH.
Qed.

(* positions of the True entries of a mask computed element-wise from a list *)
Lemma where_from_map {X} (p : X -> bool) (d : X) (l : list X) o :
  where_from (Z.of_nat o) (map p l) = map Z.of_nat (filter (fun k => p (nth (k - o) l d)) (seq o (length l))).
Proof.
  revert o; induction l as [|x l IH]; intros o; [reflexivity|].
  cbn [map where_from length seq filter]. rewrite Nat.sub_diag. change (nth 0 (x :: l) d) with x.
  replace (Z.of_nat o + 1) with (Z.of_nat (S o)) by lia. rewrite IH.
  assert (E : filter (fun k => p (nth (k - o) (x :: l) d)) (seq (S o) (length l))
            = filter (fun k => p (nth (k - S o) l d)) (seq (S o) (length l))).
  { apply filter_ext_in. intros k Hk. apply in_seq in Hk. replace (k - o)%nat with (S (k - S o)) by lia. reflexivity. }
  rewrite E. destruct (p x); reflexivity.
Qed.

Lemma where1_map {X} (p : X -> bool) (d : X) (l : list X) :
  np_where1 (map p l) = map Z.of_nat (filter (fun k => p (nth k l d)) (seq 0 (length l))).
Proof.
  unfold np_where1. change 0 with (Z.of_nat 0). rewrite (where_from_map p d l 0).
  f_equal. apply filter_ext. intros k. now rewrite Nat.sub_0_r.
Qed.

Lemma positions_sorted (f : nat -> bool) o n : StronglySorted Z.lt (map Z.of_nat (filter f (seq o n))).
Proof.
  revert o; induction n as [|n IH]; intros o; cbn [seq filter map]; [constructor|].
  destruct (f o); [|apply IH]. cbn [map]. constructor; [apply IH|].
  apply Forall_forall. intros z Hz. apply in_map_iff in Hz as (k & <- & Hk). apply filter_In in Hk as [Hk _].
  apply in_seq in Hk. lia.
Qed.

Lemma take_tags_positions (f : nat -> bool) n :
  np_take 0 (map Z.of_nat (seq 0 n)) (map Z.of_nat (filter f (seq 0 n))) = map Z.of_nat (filter f (seq 0 n)).
Proof.
  unfold np_take. rewrite map_map. apply map_ext_in. intros k Hk. apply filter_In in Hk as [Hk _]. apply in_seq in Hk.
  rewrite znth_nat. rewrite (nth_indep _ 0 (Z.of_nat 0)) by (rewrite map_length, seq_length; lia).
  rewrite map_nth, seq_nth by lia. reflexivity.
Qed.

Lemma np_sort_tags n : np_sort (map Z.of_nat (seq 0 n)) = map Z.of_nat (seq 0 n).
Proof. apply np_sort_id, sorted_lt_le, seqz_sorted. Qed.

Lemma loc_neg A r : (loc A r <? 0) = negb (inrows A r).
Proof. unfold loc, inrows. destruct (find_last r A); cbn [is_some negb]; [apply Z.ltb_ge; lia|reflexivity]. Qed.

(* ---- the two "unique rows" preambles of tt_union_rows ---- *)

Lemma union_A_branch (A X : mat) : NoDup A -> okw A ->
  exists UA IA A',
    (if np_size2 A >? 0 then let u := np_unique_rows A in Ok (fst u, snd u, A)
     else Ok (np_empty_like X, [], np_empty_like X)) = Ok (UA, IA, A') /\
    np_take [] UA (np_argsort IA) = A /\ np_take [] A' (np_sort IA) = A.
Proof.
  intros Hn [->|Hw].
  - exists (np_empty_like X), [], (np_empty_like X). repeat split; reflexivity.
  - exists (fst (np_unique_rows A)), (snd (np_unique_rows A)), A.
    destruct (Z.gtb_spec (np_size2 A) 0) as [_|E]; [|lia]. split; [reflexivity|].
    split; [now apply unique_rows_restore|].
    rewrite (np_sort_iota _ (length A)) by (now apply unique_rows_idx_perm). apply take_tags.
Qed.

Lemma union_B_branch (B X : mat) : Sorted row_lt B -> okw B ->
  exists BU IB B',
    (if np_size2 B >? 0 then let u := np_unique_rows B in Ok (fst u, snd u, B)
     else Ok (np_empty_like X, [], np_empty_like X)) = Ok (BU, IB, B') /\
    np_take [] BU (np_argsort IB) = B /\
    (forall p : vec -> bool,
       np_take [] B' (np_sort (np_take 0 IB (np_where1 (map p B)))) = filter p B /\
       np_take [] B' (np_take 0 (np_sort IB) (np_where1 (map p B))) = filter p B).
Proof.
  intros Hs [->|Hw].
  - exists (np_empty_like X), [], (np_empty_like X). repeat split; reflexivity.
  - exists B, (tags B), B.
    destruct (Z.gtb_spec (np_size2 B) 0) as [_|E]; [|lia]. rewrite unique_rows_sorted by auto. cbn [fst snd].
    split; [reflexivity|]. unfold tags. split.
    + rewrite argsort_sorted_id by apply seqz_sorted. rewrite map_length, seq_length. apply take_tags.
    + intros p. rewrite (where1_map p [] B), np_sort_tags, take_tags_positions.
      rewrite np_sort_id by (apply sorted_lt_le, positions_sorted). split; apply take_positions.
Qed.

(* ---- the contract ---- *)

Theorem tt_union_rows_sortedB (A B : mat) :
  NoDup A -> okw A -> okw B -> Sorted row_lt B ->
  (forall r q, In r A -> In q B -> length r = length q) ->
  tt_union_rows A B = Ok (filter (fun r => negb (inrows A r)) B ++ A).
Proof.
  intros HnA HwA HwB HsB Hcols. unfold tt_union_rows.
  destruct (union_A_branch A B HnA HwA) as (UA & IA & A' & EA & RA & TA).
  match goal with |- bind ?x _ = _ => assert (E : x = Ok (UA, IA, A')) by exact EA; rewrite E; clear E end.
  cbn [bind].
  destruct (union_B_branch B A' HsB HwB) as (BU & IB & B' & EB & RB & TB).
  match goal with |- bind ?x _ = _ => assert (E : x = Ok (BU, IB, B')) by exact EB; rewrite E; clear E end.
  cbn [bind]. rewrite RA, RB.
  destruct (tt_ismember_rows_total B A HwB HwA) as (matched & E & _). rewrite E. cbn [bind].
  assert (Hmask : np_lt_s (map (loc A) B) 0 = map (fun r => negb (inrows A r)) B).
  { unfold np_lt_s. rewrite map_map. apply map_ext. intros r. apply loc_neg. }
  rewrite Hmask, TA.
  first [rewrite (proj1 (TB (fun r => negb (inrows A r)))) | rewrite (proj2 (TB (fun r => negb (inrows A r))))].
  assert (Hv : np_vstack_ok (filter (fun r => negb (inrows A r)) B) A = true).
  { unfold np_vstack_ok. destruct (filter (fun r => negb (inrows A r)) B) as [|rb l] eqn:EF; [reflexivity|].
    destruct A as [|ra A0]; [reflexivity|]. apply Z.eqb_eq. unfold zlen. f_equal. symmetry. apply Hcols; [cbn; auto|].
    assert (Hin : In rb (filter (fun r => negb (inrows (ra :: A0) r)) B)) by (rewrite EF; cbn; auto).
    now apply filter_In in Hin as [Hin _]. }
  rewrite Hv. reflexivity.
Qed.

Lemma nodup_app_rows {X} (a b : list X) : NoDup a -> NoDup b -> (forall x, In x a -> ~ In x b) -> NoDup (a ++ b).
Proof.
  induction a as [|x a IH]; intros Ha Hb Hd; [exact Hb|]. cbn. inversion Ha; subst. constructor.
  - rewrite in_app_iff. intros [H|H]; [contradiction|]. apply (Hd x); cbn; auto.
  - apply IH; auto. intros y Hy. apply Hd. cbn; auto.
Qed.

(* membership reading: a row is in the result iff it is in A or in B; rows of A appear exactly once *)
Corollary tt_union_rows_members (A B : mat) :
  NoDup A -> okw A -> okw B -> Sorted row_lt B ->
  (forall r q, In r A -> In q B -> length r = length q) ->
  exists U, tt_union_rows A B = Ok U /\ (forall r, In r U <-> In r A \/ In r B) /\ (NoDup B -> NoDup U).
Proof.
  intros HnA HwA HwB HsB Hcols. eexists. split; [now apply tt_union_rows_sortedB|]. split.
  - intros r. rewrite in_app_iff, filter_In, negb_true_iff. split.
    + intros [[H _]|H]; auto.
    + intros [H|H]; [auto|]. destruct (inrows A r) eqn:E; [right; now apply inrows_spec|left; auto].
  - intros HnB. apply nodup_app_rows; [now apply NoDup_filter|exact HnA|].
    intros r Hr HA. apply filter_In in Hr as [_ Hr]. apply negb_true_iff in Hr.
    apply inrows_spec in HA. congruence.
Qed.

(* the defect on an unsorted duplicate-free B is NOT stated as a theorem here (it would stop compiling when pyttb is
   repaired); tools/props/c17.py replays the witness on pyttb itself on every run (finding C17-UNION) and the
   correspondence stream compares this generated model with pyttb on sorted and unsorted inputs alike *)
Example tt_union_rows_example :
  tt_union_rows [[1; 2]; [3; 4]] [[0; 0]; [1; 2]; [3; 4]; [5; 5]] = Ok [[0; 0]; [5; 5]; [1; 2]; [3; 4]].
Proof. reflexivity. Qed.
