(* Model/C14SpPath.v — the re-keying inside sptensor.nvecs as the code runs it (pyttb/sptensor.py, nvecs; after /repo f3d6beb, which
   repaired finding C14-F2: a second reshape instead of squeeze()):
     if not 0 <= n < self.ndims: assert False                                (/repo 453f75b)
     old      = np.setdiff1d(np.arange(self.ndims), n)
     reshaped = self.copy().reshape((prod(shape[old]), 1), old)              shape (I_n, K, 1)
                self.copy().reshape((shape[n], 1, 1))  when old is empty     shape (I_n, 1, 1)   (/repo c11bcb2)
     all(s == 1 for s in reshaped.shape): ValueError("... only singleton dimensions")
     M        = reshaped.reshape(reshaped.shape[:2])                         shape (I_n, K); old_modes = None: all modes
     tnt = M.spmatrix().transpose();   y = tnt.transpose().dot(tnt)
   sptensor.reshape(new_shape, old_modes) is transliterated over the GENERATED tt_sub2ind / tt_ind2sub (Gen/GenUtils.v, regenerated
   from pyttb/pyttb_utils.py on every run), spmatrix is C01's (Model/C01Coo.v).  sptensor.squeeze (the path before f3d6beb) is kept
   as sp_squeeze / sp_nvecs_tnt_old: Proofs/C14SpPath.v proves that the old path refused exactly the requests the repaired one now
   answers.  Definitions only; proofs in Proofs/C14SpPath.v. *)
From Coq Require Import List Arith Lia Bool ZArith.
From PV Require Import Base.Index Base.Perm Base.Sum Np.Array Np.NpZ Proofs.NpZProofs Model.Sparse Model.Repr Model.C01Conv Model.C01Unique
                       Model.C01Coo Gen.GenUtils Model.C14Nvecs Model.C14Gram.
Import ListNotations.

Section SpPath.
Context {V : Type} (v0 : V) (vadd vmul : V -> V -> V).

(* sptensor.reshape(new_shape, old_modes) with old_modes given:
     keep_modes = np.setdiff1d(np.arange(ndims), old_modes);  old_shape = shape[old_modes];  keep_shape = shape[keep_modes]
     prod(new_shape) != prod(old_shape): rejected
     nothing stored: sptensor([], [], keep_shape ++ new_shape)
     inds = tt_sub2ind(old_shape, subs[:, old_modes]);  new_subs = tt_ind2sub(new_shape, inds)
     sptensor(concatenate((subs[:, keep_modes], new_subs), axis=1), vals, keep_shape ++ new_shape)
   (old_shape is an ndarray here, so the np.isscalar branch is not taken) *)
Definition sp_reshape_gen (S : sparse V) (new_shape : shape) (old : list nat) : option (sparse V) :=
  let keep := setdiff_modes (length (sshape S)) old in
  let old_shape := pick 0 old (sshape S) in
  let keep_shape := pick 0 keep (sshape S) in
  if negb (size new_shape =? size old_shape) then None
  else match ssubs S with
       | [] => Some (mkSp (keep_shape ++ new_shape) [] [])
       | _ :: _ =>
           match tt_sub2ind (zs old_shape) (zm (map (pick 0 old) (ssubs S))) OrdF with
           | Ok inds =>
               match tt_ind2sub (zs new_shape) inds OrdF with
               | Ok new_subs =>
                   Some (mkSp (keep_shape ++ new_shape)
                              (map (fun p => pick 0 keep (fst p) ++ map Z.to_nat (snd p)) (combine (ssubs S) new_subs))
                              (svals S))
               | Err => None
               end
           | Err => None
           end
       end.

(* sptensor.squeeze():
     no singleton mode: a copy;   idx = np.where(shape > 1)[0];   idx empty: the single entry (0.0 when nothing is stored)
     nothing stored: sptensor([], [], shape[idx]);   otherwise sptensor(subs[:, idx], vals, shape[idx]) *)
Inductive sq_res := SqScalar (x : V) | SqTensor (S : sparse V).
Definition sp_squeeze (S : sparse V) : sq_res :=
  if forallb (fun d => 1 <? d) (sshape S) then SqTensor S
  else
    let idx := filter (fun k => 1 <? nth k (sshape S) 0) (seq 0 (length (sshape S))) in
    match idx with
    | [] => SqScalar (match svals S with x :: _ => x | [] => v0 end)
    | _ :: _ =>
        match svals S with
        | [] => SqTensor (mkSp (pick 0 idx (sshape S)) [] [])
        | _ :: _ => SqTensor (mkSp (pick 0 idx (sshape S)) (map (pick 0 idx) (ssubs S)) (svals S))
        end
    end.

(* coo_matrix.transpose(): rows and columns exchanged, data kept *)
Definition coo_transpose (C : coo V) : coo V := mkCoo (rev (coo_shape C)) (map (@rev nat) (coo_subs C)) (coo_data C).

(* tnt of sptensor.nvecs before /repo f3d6beb (squeeze); None = the request is refused (AssertionError of reshape / spmatrix,
   ValueError for a scalar) *)
Definition sp_nvecs_tnt_old (S : sparse V) (n : nat) : option (coo V) :=
  let old := setdiff_modes (length (sshape S)) [n] in
  match sp_reshape_gen S [size (pick 0 old (sshape S)); 1] old with
  | Some R =>
      match sp_squeeze R with
      | SqScalar _ => None
      | SqTensor Q => option_map coo_transpose (spmatrix Q)
      end
  | None => None
  end.

(* tnt of sptensor.nvecs as the code runs it now (after /repo 453f75b: mode range test first, finding C19-N23 repaired; after /repo
   c11bcb2: a 1-way tensor — old = [] — is reshaped to (I_n, 1, 1) over ALL modes instead of reshape((1, 1), []), finding C14-F3
   repaired).  None = the request is refused (AssertionError of the mode test / reshape / spmatrix, ValueError when every mode of the
   reshaped tensor is a singleton).  `reshape(new_shape)` without old_modes reshapes ALL modes: old_modes = np.arange(ndims),
   keep_modes = [] *)
Definition sp_nvecs_tnt (S : sparse V) (n : nat) : option (coo V) :=
  let N := length (sshape S) in
  if negb (n <? N) then None                               (* `if not 0 <= n < self.ndims: assert False` *)
  else
  let old := setdiff_modes N [n] in
  match (match old with
         | [] => sp_reshape_gen S [nth n (sshape S) 0; 1; 1] (seq 0 N)                        (* old.size == 0 *)
         | _ :: _ => sp_reshape_gen S [size (pick 0 old (sshape S)); 1] old
         end) with
  | Some R =>
      if forallb (Nat.eqb 1) (sshape R) then None
      else match sp_reshape_gen R (firstn 2 (sshape R)) (seq 0 (length (sshape R))) with
           | Some Q => option_map coo_transpose (spmatrix Q)
           | None => None
           end
  | None => None
  end.

(* the request as Python receives it: n is an integer, negative values are refused by the same test *)
Definition sp_nvecs_tnt_z (S : sparse V) (n : Z) : option (coo V) :=
  if (0 <=? n)%Z then sp_nvecs_tnt S (Z.to_nat n) else None.

(* (row, column, value) triples of a COO matrix *)
Definition coo_triples (C : coo V) : list (nat * nat * V) :=
  map (fun e => (nth 0 (fst e) 0, nth 1 (fst e) 0, snd e)) (coo_entries C).

(* y = tnt.transpose().dot(tnt): the coordinate-level product of the stored triples of tnt (C14_coo_product: the matrix product of the
   arrays) *)
Definition gram_sp_code_path (S : sparse V) (n : nat) : option (list (list V)) :=
  match sp_nvecs_tnt S n with
  | Some C => let d := nth 1 (coo_shape C) 0 in Some (mtab d d (coo_gram v0 vadd vmul (coo_triples C)))
  | None => None
  end.
End SpPath.
