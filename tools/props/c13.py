"""C13 — GCP solvers keep the best model, respect bounds, sample validly and are reusable (DESIGN §C13)."""
import math
from fractions import Fraction

from vcheck import Case, gz, gzlist, gzmat, gnlist, gnmat, gnat, gopt, gq, gbool, gblist
import tgen
from props import c13_util as U
from props import c13_driver as D

PROP = "C13"
LEVEL = "proof"
# tie A for the solver loop: Gen/GenSolver.v is the control-flow skeleton of StochasticSolver.solve regenerated from the source of THIS
# run by tools/pyx2v_skel.py (builder w4-skel); Proofs/W4SSolver.v bridges it to Alg/C13Solver.v and Props/W4SC13.v restates
# C13_best_model / C13_trace_len / C13_reported_trace_full over the generated function — an edit of the epoch loop in /repo breaks them
INCLUDE = ['w4s_c13', 'w4s_c13b', 'w4s_c13c']   # wave 4 (lead, integration): generated skeleton of StochasticSolver.solve (Gen/GenSolver.v): bridge theorems + replay stream sk_solve
GEN_UNITS = ["GenSolver"]
COQ_TARGETS = ["Props/C13.vo", "Alg/C13Harness.vo", "Alg/C13Config.vo", "Alg/C13Vec.vo", "Alg/C13StepArith.vo", "Alg/C13Thm.vo", "Alg/C13Opts.vo", "Alg/C13Driver.vo", "Alg/C13Direct.vo", "Alg/C13Solver2.vo", "Alg/C13Gen.vo", "Props/C13b.vo", "Model/Harness.vo",
               "Props/W4SC13.vo"]
THEOREM_FILES = ["Props/C13.v", "Props/C13b.v", "Props/W4SC13.v"]
COQ_IMPORTS = ("From Coq Require Import List ZArith Bool QArith Qcanon.\n"
               "From PV Require Import Base.Index Np.Array Model.Sparse Model.Harness Model.Repr Alg.C13Samplers Alg.C13Solver Alg.C13Steps Alg.C13Config Alg.C13Harness Alg.C13StepArith Alg.C13Opts Alg.C13Driver Alg.C13Direct.\n")
RULE = ("samplers: dense / sparse integer tensors with 2..12 cells (empty, one nonzero, some, nearly full, full), every sampler "
        "kind, counts 0..6 (incl. more nonzero samples than nonzeros), numpy's draws captured (and in a separate stream forced to 0.0 / "
        "1-2^-53) and replayed through the model; solves: SGD/Adam/Adagrad on 2x2..3x3x2 problems with rates from 1e-3 to 30 (failing "
        "epochs), max_fails 0..2, max_iters 0..5, printitn 0..2, finite and infinite lower bounds, estimates captured at every epoch "
        "boundary, one third through the gcp_opt driver (init as ktensor with non-unit weights / list / random); step: every "
        "update_step / set_failed_epoch of a solve captured (inputs, private state before and after, np.sqrt results), the first two, the "
        "first after a failed epoch and the last replayed through the exact-rational step models; reuse: 2-3 solves on one object vs "
        "fresh objects under the same seeds; the fixed regression inputs of the repaired findings A-35/A-36/A-37/A-48/C13-S2/C13-L1/C13-L2; "
        "config: every row of the GCPSampler (kind x request) table on dense / sparse tensors with sizes on both sides of the 1e3 / 1e5 / "
        "1e6 thresholds, counts read back from the sampler object and every math.ceil call recorded (float argument, answer) and replayed "
        "as the table's oracle; stratified: every np.ceil call of samplers.zeros recorded and the number of drawn rows compared with the "
        "oversampling rule; lbfgsb: option corners (maxls 1..3 = abandoned line searches, maxiter "
        "0/1/3, maxfun 1..3, pgtol 1e10, m=1, factr 10 / 1e16), initial factors C-/F-ordered / non-contiguous views, data scaled by "
        "2^-20..2^20, starts scaled by 2^-3..2^3 (infeasible starts), masks, one third through gcp_opt (mask as tensor / array); what "
        "is handed to / answered by scipy.optimize.fmin_l_bfgs_b captured and the answered vector replayed through the Coq wrapper model; "
        "lbfgsb_reuse: 2-3 solves of different sizes on one LBFGSB object vs fresh objects, plus sequences small -> big -> small / big -> small "
        "(4 vs 36-40 cells) with factr = 0 so that the projected-gradient test decides the termination (default and explicit pgtol); in "
        "every lbfgsb / lbfgsb_reuse solve every keyword handed to scipy is recorded and compared with the option-dictionary model "
        "(Alg/C13Opts.v); scripted estimates: the function estimator answers a prescribed sequence, every relative order (ties incl.) of 4 "
        "estimates x max_fails 0..2 and of 5 estimates (max_fails rotating; thorough: all) x tol none / 1.5; solves started at an exact "
        "solution (every gradient exactly zero) for the three optimizers; driver: every request class gcp_opt distinguishes (objective enum "
        "valid / invalid data / needing a parameter / tuple of 2, 3, 4; data dense / sparse / neither; mask none / tensor / array; init "
        "random / ktensor / list with right and wrong shape and rank / unbuildable list / other string / other object; optimizer SGD / Adam "
        "/ LBFGSB / neither) with recording solver subclasses — all dispatching classes, a sample of the full product (thorough: all); "
        "direct: samplers.nonzeros / samplers.zeros called directly with and WITHOUT replacement, requests below / at / above the number of "
        "nonzeros resp. zeros, over_sample_rate 1.0 / 1.1 / 2.0 (choice positions, draws and np.ceil calls captured); "
        "non-trivial = more than one cell and at least one sample / epoch")
EXPLANATION = ("Theorems (Alg/C13Samplers.v, C13Solver.v, C13Steps.v, C13StepArith.v, C13Config.v) are about state machines whose random "
               "draws, objective estimates, square roots and scipy's answer are inputs; the correspondence captures exactly those inputs "
               "from a real pyttb run (numpy.random, pyttb.gcp.optimizers.estimate / fmin_l_bfgs_b / the name np inside "
               "pyttb.gcp.optimizers are wrapped inside the harness process only) and replays them. Each sampler / solve is checked "
               "twice: '<op>' = pyttb agrees with the model, '<op>_prop' = pyttb's own output satisfies what C13 states. A single "
               "behaviour is accepted everywhere except inside the trigger region of the open finding C13-S1 (short zero supply, "
               "decided from the inputs and the captured draws alone — the NUMBER of draws is tied to the request by the oversampling "
               "rule —: faithful and repaired stratified sampler both accepted). Comparisons of exact observations are made in Coq; "
               "only identity / array_equal bits (obs_bits) are decided by the harness. Finding C13-G1 (Adagrad turned the model "
               "into nan on an exactly zero gradient while its accumulator is 0) is repaired (/repo 2496788): ONE behaviour — the step "
               "model carries the guard (step 0 while the accumulator is not positive, no square root computed; C13_adagrad_zero_accumulator) "
               "and the solves started at an exact solution (incl. the former witness call) must return the start. The driver stream compares the outcome of "
               "gcp_opt (which rejection fires / which solver gets which bound, data, mask, sampler, initial guess) with the decision "
               "procedure Alg/C13Driver.v; the data-validity test of fg_setup.setup and the ktensor constructor on a user list are oracles.")
CORRESPONDENCE_ONLY = ["floating-point rounding of the Adam / Adagrad / SGD update arithmetic (the exact-rational step functions are theorems: closed forms, direction, bounds, state updates; pyttb's floats are compared with them to 1e-9 on the captured steps) and numpy's sqrt (oracle: >= 0 and s*s = x to 1e-9 checked on every captured call)",
                       "scipy.optimize.fmin_l_bfgs_b itself (oracle; its contract 'returned point never worse than a feasible start, result inside the bounds' is checked on sampled runs incl. abandoned line searches)",
                       "GCPSampler default counts / oversampling rule of samplers.zeros / LBFGSB wrapper / update steps / sampler bodies: theorems are about hand transliterations (Alg/C13Config.v, C13Samplers.v, C13Steps.v) tied by read-back / capture correspondence — the default-count table additionally by translation (Gen/GenSampler.v bridged to fn_config_o / gr_config_o in Props/W4SC13b.v, INCLUDE w4s_c13b) — (float ceilings, square roots, draws, scipy's answer are recorded oracles), not by translation; the StochasticSolver.solve loop IS tied by translation (Gen/GenSolver.v, Props/W4SC13.v)",
                       "gcp_opt driver: argument handling and dispatch are a hand transliteration (Alg/C13Driver.v, theorems C13_driver_*) tied by the `driver` stream with recording solvers AND by translation (Gen/GenGcpOpt.v bridged to it in Props/W4SC13d.v, INCLUDE w4s_c13c); the NUMERICS of the initial guess (normalize('all'), scaling of a random guess to the data norm) are compared by the harness (unit weights, same denotation / same norm to 1e-9), no theorem; fg_setup.setup's data-validity tests are an oracle, its table of lower bounds is transliterated (setup_lb)",
                       "samplers.nonzeros / samplers.zeros without replacement: hand transliteration (Alg/C13Direct.v); np.unique is a parameter of C13_zeros_rows of which only 'duplicate-free selection of its input' is assumed — the check runs the executable lex_usort (sorted distinct rows) and tests its answer for duplicates on every case, no proof that lex_usort is duplicate-free; np.random.choice(replace=False) is an oracle whose answer is tested for duplicates; the coupon-collector ceiling (log) is a recorded oracle of which only the LAST recorded ceiling = number of drawn rows is compared",
                       "LBFGSB option dictionary: hand transliteration (Alg/C13Opts.v, C13_lbfgsb_options / C13_lbfgsb_pgtol) tied by recording every keyword handed to scipy in every lbfgsb / lbfgsb_reuse solve"]
ASSUMPTIONS = ["numpy draws are multiples of 2^-53 in [0,1); the float product u*d is taken exactly (its rounding is not modelled)",
               "objective estimates are compared by their exact float values; NaN estimates are outside the model (total order): a run whose estimates are not finite is skipped UNLESS an Adagrad step with an exactly zero gradient and empty accumulator was captured in it (then it is not a diverging run but a regression of the repaired finding C13-G1: reported as a mismatch)",
               "scipy.optimize.fmin_l_bfgs_b returns a point of the start's length that is never worse than a FEASIBLE start and keeps it feasible (scipy_contract); about the value it reports only 'reported value = objective at the returned point unless warnflag = 2' (scipy_reports_value) is assumed, and only by C13_lbfgsb_final_f: after an abandoned line search scipy reports the rejected trial point's value and the wrapper re-evaluates (C13-L1, repaired)",
               "the float quotient / product under math.ceil (GCPSampler defaults) and np.ceil (samplers.zeros) lies within one rounding (2^-52 relative) of the exact one; ceil itself is exact on its float argument (both checked on every recorded call)",
               "an infeasible start is first projected into the box by scipy: 'the start' of the never-worse clause is that projected point",
               "of the square root only 0 <= sqrt(x) is assumed in the step theorems (nothing at all in C13_adagrad_zero_accumulator: the root is not computed there)"]

D53 = 2 ** 53


# ----------------------------------------------------------------------------------------- generators
def _rand_sparse(rng, shape, kind):
    n = math.prod(shape)
    allsubs = tgen.all_subs(shape)
    if kind == "empty":
        k = 0
    elif kind == "one":
        k = 1
    elif kind == "nearly_full":
        k = max(n - 1, 0)
    elif kind == "full":
        k = n
    else:
        k = rng.randint(1, max(1, n - 1))
    pick = rng.sample(allsubs, k)
    return pick, [rng.choice([1, 2, 3, 5]) for _ in pick]


def gen_cases(rng, tier):
    big = tier == "thorough"
    cases = []
    # the wave-5 streams (scripted estimates, pgtol-decided reuse sequences, driver) draw from a generator derived from rng's state
    # WITHOUT consuming it, so the older streams and the INCLUDEd module see exactly the draws they saw before
    rng5 = __import__("random").Random(repr(rng.getstate()[1][:16]))
    shapes = [(2, 2), (2, 3), (3, 2), (1, 3), (2, 1, 2), (2, 2, 3), (4,), (3, 1), (2, 2, 2)]
    reps = 4 if big else 1
    for rep in range(reps):
        for shp in shapes:
            n = math.prod(shp)
            data = tgen.rand_dense(rng, shp, rng.choice([0.5, 1.0]), 1, 9)
            for ns in ([1, 2, 3, 5] if not big else [1, 2, 3, 4, 6]):
                for force in (None, "zero") if ns == 2 else (None,):
                    a = {"shape": list(shp), "data": data, "n": ns, "seed": rng.randrange(10 ** 6), "force": force}
                    cases.append(Case("uniform", a, n > 1))
                    cases.append(Case("uniform_prop", dict(a), n > 1))
            for kind in ("one", "some", "nearly_full", "full", "some") + (("empty",) if rep == 0 else ()):
                subs, vals = _rand_sparse(rng, shp, kind)
                for (cn, cz) in ([(1, 1), (2, 3), (len(subs), 2), (0, 1), (1, 0), (3, 6)] if not big else
                                 [(1, 1), (2, 3), (len(subs), 2), (0, 1), (1, 0), (3, 6), (2, 2), (5, 1)]):
                    force = "zero" if (cn, cz) == (2, 3) and rng.random() < 0.3 else None
                    a = {"shape": list(shp), "subs": subs, "vals": vals, "cn": cn, "cz": cz,
                         "seed": rng.randrange(10 ** 6), "force": force, "kind": kind}
                    for op in ("stratified", "stratified_prop", "semistrat", "semistrat_prop"):
                        cases.append(Case(op, dict(a), n > 1 and cn + cz > 0))
                    if subs and len(subs) < n and (cn, cz) in ((2, 3), (3, 6)):          # Poisson(0) is always 0: no zero samples from a full tensor
                        # the same counts arising as the Poisson draws of the uniform gradient sampler of a sparse tensor
                        b = dict(a); b["via_poisson"] = rng.randint(1, n); b["force"] = None
                        for op in ("stratified", "stratified_prop"):
                            cases.append(Case(op, dict(b), n > 1 and cn + cz > 0))
    # ---- solves
    nsolve = 120 if big else 36
    for k in range(nsolve):
        shp = rng.choice([(2, 2), (2, 3), (3, 2, 2), (3, 3)])
        a = U.rand_problem(rng, shp)
        a.update({"opt": rng.choice(["sgd", "adam", "adagrad"]),
                  "rate": rng.choice([0.001, 0.01, 0.125, 0.5, 2.0, 30.0]), "decay": rng.choice([0.1, 0.5]),
                  "max_fails": rng.randint(0, 2), "epoch_iters": rng.randint(1, 3), "max_iters": rng.choice([0, 1, 2, 3, 5]),
                  "tol": rng.choice([None, None, None, 0.5, 1e6])})
        a["printitn"] = rng.choice([0, 0, 1, 2])
        a["layout"] = rng.choice(["C", "F", "view"])          # memory layout of the initial factor matrices
        a["dscale"] = rng.choice([0, 0, 0, -10, 10])          # data magnitude 2^-10 .. 2^10
        if k % 3 == 2:          # through the gcp_opt driver: initial guess normalised there (unit weights, C-ordered factors)
            a.update({"via": "gcp_opt", "init_kind": rng.choice(["ktensor", "list", "random"]),
                      "init_weights": [rng.choice([2.0, 0.5, 3.0]) for _ in range(a["R"])]})
        cases.append(Case("solve", a, a["max_iters"] > 0))
        cases.append(Case("solve_trace", dict(a), a["max_iters"] > 0))
    # ---- scripted estimates: the function estimator answers a prescribed sequence (start, epoch 1, 2, ...), so EVERY relative order
    #      of the estimates (ties included) of a 3-epoch solve and (quick: max_fails rotating; thorough: all) of a 4-epoch solve is
    #      issued: success / failure / rollback histories such as "success, FAIL, then an epoch between the best and the failed
    #      value", failures at the first / last epoch, ties with the best value, stops by max_fails and by the tolerance
    kopt = 0
    for n in (4, 5):
        for idx, w in enumerate(U.weak_orderings(n)):
            for mf in ((0, 1, 2) if (n == 4 or big) else (idx % 3,)):
                shp = [(2, 2), (2, 3), (3, 2, 2)][kopt % 3]
                a = U.rand_problem(rng5, shp)
                a["sparse"] = False
                a.update({"opt": ["sgd", "adam", "adagrad"][kopt % 3], "rate": [0.01, 0.125][kopt % 2], "decay": 0.5, "max_fails": mf,
                          "epoch_iters": 1 + kopt % 2, "max_iters": n - 1, "tol": [None, None, None, 1.5][(idx + mf) % 4],
                          "script": [float(v + 1) for v in w]})
                kopt += 1
                cases.append(Case("solve", a, True))
                if n == 4 or big:
                    cases.append(Case("solve_trace", dict(a), True))
    # ---- solves started AT an exact solution (data = the tensor the initial guess denotes, dyadic factors >= 1/4 = feasible for every
    #      bound used here: every sampled gradient is exactly zero): every optimizer returns the START, and every model held at an epoch
    #      boundary is the start (bit `stay`; Adagrad with accumulator 0: repaired finding C13-G1, /repo 2496788 — the model's step is 0
    #      there, Alg/C13StepArith.v adagrad_zero_accumulator). First the former witness call of C13-G1 (through gcp_opt, integer factors).
    a = {"shape": [2, 3], "data": [1.0, 2.0, 3.0, 6.0, 2.0, 4.0], "R": 1, "init": [[[1.0], [2.0]], [[1.0], [3.0], [2.0]]], "obj": "gaussian",
         "seed": 0, "sparse": False, "fs": 6, "gs": 6, "opt": "adagrad", "rate": 0.125, "decay": 0.5, "max_fails": 1, "epoch_iters": 2,
         "max_iters": 2, "tol": None, "via": "gcp_opt", "init_kind": "ktensor", "init_weights": [1.0], "printitn": 0, "exact_start": True}
    cases.append(Case("solve", a, True))
    cases.append(Case("solve_trace", dict(a), True))
    for k in range(18 if big else 6):
        shp = [(2, 3), (2, 2), (3, 2, 2)][k % 3]
        a = U.rand_problem(rng5, shp)
        a["sparse"], a["obj"] = False, ["gaussian", "gaussian_lb"][k % 2]
        fac = a["init"]
        a["data"] = [float(sum(math.prod(Fraction(fac[m][i][r]) for m, i in enumerate(sub)) for r in range(a["R"]))) for sub in tgen.all_subs(shp)]
        a.update({"opt": ["adagrad", "sgd", "adam"][k % 3], "rate": 0.125, "decay": 0.5, "max_fails": k % 2, "epoch_iters": 1 + k % 2,
                  "max_iters": 2 + k % 2, "tol": None, "exact_start": True})
        cases.append(Case("solve", a, True))
        cases.append(Case("solve_trace", dict(a), True))
        if k % 3 == 0:          # ... and the Adagrad steps of such a solve through the exact-rational step model: accumulator 0, NO square root
            b = dict(a)
            b.update({"beta_1": 0.9, "beta_2": 0.999, "epsilon": 1e-8})
            cases.append(Case("step", b, True))
    # ---- L-BFGS-B wrapper (scipy is an oracle): option corners that change scipy's control flow (abandoned line searches,
    #      budgets of 0..3 iterations / evaluations), memory layouts of the initial factors, data / start magnitudes 2^-20..2^20;
    #      the vector scipy answers is replayed through the Coq wrapper model (returned model = that vector, read back)
    corners = U.lbfgsb_option_corners()
    for k in range((4 if big else 2) * len(corners)):
        opts = dict(corners[k % len(corners)])
        shp = rng.choice([(2, 2), (2, 3), (3, 2, 2), (3, 1), (1, 2, 2)])
        a = U.rand_problem(rng, shp)
        n = math.prod(shp)
        if "maxiter" not in opts:
            opts["maxiter"] = rng.choice([20, 100, 1000])
        a.update({"opts": opts, "callback": rng.random() < 0.5, "layout": rng.choice(["C", "F", "view"]),
                  "dscale": rng.choice([0, 0, 0, -20, 20, 7]), "iscale": rng.choice([0, 0, 0, -3, 3]),
                  "mask": None if rng.random() < 0.6 else [rng.randint(0, 1) for _ in range(n)]})
        if k % 3 == 1:          # through the gcp_opt driver (mask as a tensor or as an array)
            a.update({"via": "gcp_opt", "init_kind": rng.choice(["ktensor", "list", "random"]), "printitn": rng.choice([0, 1]),
                      "init_weights": [rng.choice([2.0, 0.5, 3.0]) for _ in range(a["R"])], "mask_kind": rng.choice(["tensor", "ndarray"])})
        cases.append(Case("lbfgsb", a, True))
        cases.append(Case("lbfgsb_final_f", dict(a), True))
    # ---- a sequence of L-BFGS-B solves of different sizes on ONE object vs fresh objects
    for k in range(24 if big else 8):
        opts = dict(corners[(3 * k) % len(corners)])
        opts.setdefault("maxiter", rng.choice([3, 20, 100]))
        probs = []
        for j in range(rng.randint(2, 3)):
            p = U.rand_problem(rng, rng.choice([(2, 2), (2, 3), (3, 2, 2), (3, 1)]))
            p.update({"layout": rng.choice(["C", "F", "view"]), "mask": None})
            probs.append(p)
        cases.append(Case("lbfgsb_reuse", {"opts": opts, "probs": probs}, True))
    # ---- ... and sequences whose termination is decided by the projected-gradient test (factr = 0 switches the relative-decrease
    #      test off; default or explicit pgtol), on tensors of very different sizes in both orders (small -> big -> small, big -> small):
    #      an option derived from the FIRST tensor's size and kept on the object changes the iterate count of the later solves
    for k in range(12 if big else 4):
        opts = [{"factr": 0.0, "maxiter": 60}, {"factr": 0.0, "maxiter": 60, "pgtol": 1e-3}, {"factr": 0.0, "maxiter": 40, "m": 3},
                {"factr": 0.0, "maxiter": 60}][k % 4]
        small, bigs = rng5.choice([(2, 2), (3, 1), (2, 1, 2)]), rng5.choice([(4, 3, 3), (5, 4, 2), (6, 6)])
        order = [small, bigs, small] if k % 2 == 0 else [bigs, small]
        probs = []
        for shp in order:
            p = U.rand_problem(rng5, shp)
            p.update({"layout": rng5.choice(["C", "F"]), "mask": None, "obj": rng5.choice(["gaussian", "poisson"])})
            probs.append(p)
        cases.append(Case("lbfgsb_reuse", {"opts": dict(opts), "probs": probs}, True))
    # ---- update-step arithmetic: every step of a solve captured, a few replayed through the exact-rational step models
    for k in range(72 if big else 24):
        shp = rng.choice([(2, 2), (2, 3), (3, 2, 2), (3, 1)])
        a = U.rand_problem(rng, shp)
        a["sparse"] = False
        a.update({"opt": ["sgd", "adam", "adagrad"][k % 3], "rate": rng.choice([0.001, 0.01, 0.125, 0.5, 2.0]),
                  "decay": rng.choice([0.1, 0.5]), "max_fails": rng.randint(0, 2), "epoch_iters": rng.randint(1, 3),
                  "max_iters": rng.choice([1, 2, 3, 5]), "beta_1": rng.choice([0.9, 0.5, 0.0]), "beta_2": rng.choice([0.999, 0.75]),
                  "epsilon": rng.choice([1e-8, 0.125])})
        cases.append(Case("step", a, True))
    # ---- reuse of one solver object
    for k in range(30 if big else 9):
        opt = ["sgd", "adam", "adagrad"][k % 3]
        same = rng.random() < 0.5
        shp0 = rng.choice([(2, 2), (2, 3)])
        probs = []
        for j in range(rng.randint(2, 3)):
            shp = shp0 if same else rng.choice([(2, 2), (2, 3), (3, 2, 2)])
            probs.append(U.rand_problem(rng, shp))
        a = {"opt": opt, "probs": probs, "rate": rng.choice([0.01, 0.125, 2.0]), "decay": 0.5, "max_fails": 1,
             "epoch_iters": 2, "max_iters": rng.randint(1, 3), "tol": None}
        cases.append(Case("reuse", a, True))
    # ---- fixed regression inputs: the witnesses of the repaired findings (a returning defect is a VIOLATION)
    wp = U.rand_witness_problem()
    a35 = dict(wp); a35.update({"opt": "sgd", "rate": 0.01, "decay": 0.1, "max_fails": 1, "epoch_iters": 2, "max_iters": 3, "tol": None})
    cases.append(Case("solve", a35, True)); cases.append(Case("solve_trace", dict(a35), True))
    for kind in ("adam", "adagrad", "sgd"):
        cases.append(Case("reuse", {"opt": kind, "probs": [dict(wp), dict(wp)], "rate": 0.125, "decay": 0.5, "max_fails": 1,
                                    "epoch_iters": 2, "max_iters": 2, "tol": None}, True))
        big_p = U.rand_problem(rng, (3, 2, 2))
        cases.append(Case("reuse", {"opt": kind, "probs": [dict(wp), big_p, dict(wp)], "rate": 0.125, "decay": 0.5, "max_fails": 1,
                                    "epoch_iters": 2, "max_iters": 2, "tol": None}, True))
    for force in (None, "zero"):
        for n in (1, 2):
            a = {"shape": [2, 3], "data": [1, 2, 3, 4, 5, 6], "n": n, "seed": 0, "force": force}
            cases.append(Case("uniform", a, True)); cases.append(Case("uniform_prop", dict(a), True))
    a = {"shape": [2, 2], "subs": [[0, 0]], "vals": [1], "cn": 0, "cz": 2, "seed": 3, "force": None, "kind": "one"}
    for op in ("semistrat", "semistrat_prop"):
        cases.append(Case(op, dict(a), True))
    # C13-L1 (final_f after an abandoned line search) and C13-L2 (maxiter = 0) are repaired: their witness inputs, unattributed
    for opts in ({"maxls": 1, "maxiter": 100}, {"maxiter": 0}, {"maxiter": 0, "maxls": 1}):
        for cb in (False, True):
            a = U.lb_witness_args(dict(opts)); a["callback"] = cb
            cases.append(Case("lbfgsb", a, True)); cases.append(Case("lbfgsb_final_f", dict(a), True))
        cases.append(Case("lbfgsb_reuse", {"opts": dict(opts), "probs": [U.lb_witness_args({}), U.rand_problem(rng, (3, 2, 2)) | {"layout": "F", "mask": None},
                                                                       U.lb_witness_args({})]}, True))
    # ---- GCPSampler configuration table (counts read back from the object)
    cases += U.config_cases(rng, big)
    # ---- the gcp_opt driver in isolation: every request class it distinguishes, recording solver objects (tools/props/c13_driver.py)
    cases += D.driver_cases(rng5, big)
    # ---- samplers.nonzeros / samplers.zeros called directly, with and without replacement
    cases += D.direct_cases(rng5, big)
    return cases


# ----------------------------------------------------------------------------------------- pyttb runner
def run_impl(c):
    a = c.args
    try:
        if c.op in ("uniform", "uniform_prop"):
            o = U.run_uniform(a)
        elif c.op in ("stratified", "stratified_prop"):
            o = U.run_stratified(a, semi=False)
        elif c.op in ("semistrat", "semistrat_prop"):
            o = U.run_stratified(a, semi=True)
        elif c.op in ("solve", "solve_trace"):
            o = U.run_solve(a)
        elif c.op == "step":
            o = U.run_step(a)
        elif c.op == "reuse":
            o = U.run_reuse(a)
        elif c.op in ("lbfgsb", "lbfgsb_final_f"):
            o = U.run_lbfgsb(a)
        elif c.op == "lbfgsb_reuse":
            o = U.run_lbfgsb_reuse(a)
        elif c.op == "config":
            o = U.run_config(a)
        elif c.op == "direct":
            o = D.run_direct(a)
        elif c.op == "driver":
            return D.run_driver(a)          # exceptions of gcp_opt are observations here, everything else is a harness error
        else:
            raise ValueError(c.op)
    except Exception as ex:
        o = {"exc": type(ex).__name__, "msg": str(ex)[:200]}
        if c.op.startswith("solve") and a.get("sparse") and "broadcast" in str(ex):
            # the stratified function/gradient sampler came back with fewer subscripts than values (finding C13-S1)
            o["meta"] = {"short": True}
    c.meta.update(o.pop("meta", {}) if isinstance(o, dict) else {})
    return o


def _gqlist(l):
    return "(@nil Qc)" if not l else "[" + "; ".join(gq(Fraction(x)) for x in l) + "]"


def _gzmat3(t):
    return "(@nil (list (list Z)))" if not t else "[" + "; ".join(gzmat(m) for m in t) + "]"


def _q(x):
    return gq(Fraction(x))


def _adam_state(st):
    return f"(mkAdam Qc {_gqlist(st['m'])} {_gqlist(st['v'])} {_gqlist(st['mp'])} {_gqlist(st['vp'])} {gnat(st['tot'])})"


def _step_check(a, o):
    """the captured steps through qsgd_check / qadam_check / qadagrad_check (Alg/C13StepArith.v): exact rationals, np.sqrt as oracle"""
    parts = []
    rate, decay = _q(float(a["rate"])), _q(float(a["decay"]))
    for st in o["steps"]:
        lb = gopt(st["lb"], _q)
        xs, gs, out, step = _gqlist(st["xs"]), _gqlist(st["gs"]), _gqlist(st["out"]), _q(st["step"])
        if a["opt"] == "sgd":
            parts.append(f"qsgd_check {rate} {decay} {gnat(st['nf'])} {lb} {xs} {gs} {out} {step}")
        elif a["opt"] == "adagrad":
            if len(st["sq_out"]) > 1:
                return "false"          # malformed capture (at most one square root per Adagrad step): fail closed
            # the number of np.sqrt calls is compared in Coq: 1 while the new accumulator is positive, 0 otherwise (then s is ignored)
            s_obs = st["sq_out"][0] if st["sq_out"] else "0"
            parts.append(f"qadagrad_check {lb} {_q(st['before']['gsum'])} {xs} {gs} {gnat(len(st['sq_out']))} {_q(s_obs)} {out} "
                         f"{_q(st['after']['gsum'])} {step}")
        else:
            af = st["after"]
            parts.append(f"qadam_check {rate} {decay} {_q(float(a['beta_1']))} {_q(float(a['beta_2']))} {_q(float(a['epsilon']))} "
                         f"{gnat(a['epoch_iters'])} {gnat(st['nf'])} {lb} {_adam_state(st['before'])} {xs} {gs} {_gqlist(st['sq_out'])} "
                         f"{out} {_gqlist(af['m'])} {_gqlist(af['v'])} {_gqlist(af['mp'])} {_gqlist(af['vp'])} {gnat(af['tot'])} {step}")
    for f in o["fails"]:
        if a["opt"] == "adam":
            parts.append(f"Nat.leb {gnat(a['epoch_iters'])} {gnat(f['before']['tot'])}")
            parts.append(f"qadam_failed_check {gnat(a['epoch_iters'])} {_adam_state(f['before'])} {_gqlist(f['after']['m'])} "
                         f"{_gqlist(f['after']['v'])} {gnat(f['after']['tot'])}")
        elif a["opt"] == "adagrad":
            parts.append(f"qisz {_q(f['after']['gsum'])}")          # Adagrad restarts its accumulator
    return " && ".join(parts) if parts else None


def _ints(l):
    return all(isinstance(x, int) for x in l)


def coq_check(c, o):
    a = c.args
    if o.get("skip"):
        return None
    if c.op == "driver":
        return D.driver_check(a, o)
    if c.op == "direct":
        return D.direct_check(a, o)
    if "exc" in o:
        if c.op.startswith(("strat", "semi")):
            # rejection is the right answer exactly for nonzero samples requested from a tensor without nonzeros (decided in Coq)
            return f"strat_rejected {tgen.gsparse(a['shape'], a['subs'], a['vals'])} {gnat(a['cn'])}"
        if c.op.startswith("solve") and "Infinite gradient" in o.get("msg", ""):
            return None            # the solver's own overflow guard fired: no result to check
        return "false"
    if c.op == "config":
        return U.config_check(a, o)
    if c.op in ("uniform", "uniform_prop"):
        shp, n = a["shape"], a["n"]
        size = math.prod(shp)
        X = tgen.gdense(shp, a["data"])
        if not _ints(o["vals"]):
            return "false"
        ws = _gqlist(o["weights"])
        shape_ok = f"shapes_eqb {gnmat([[n], [n], [n, len(shp)]])} {gnmat([o['vals_shape'], o['weights_shape'], o['subs_shape']])}"
        if c.op == "uniform":
            return (f"zmat_eqb (zuniform_subs {gnlist(shp)} {gzmat(o['draws'])}) {gzmat(o['subs'])} && "
                    f"vec_eqb (zuniform_vals {X} {gzmat(o['draws'])}) {gzlist(o['vals'])} && "
                    f"weights_close {ws} (zq {gz(size)}) {gnat(n)} && {shape_ok}")
        return (f"sample_ok_dense {X} {gzmat(o['subs'])} {gzlist(o['vals'])} {gnat(len(o['weights']))} && {shape_ok} && "
                f"total_close {ws} (zq {gz(size)})")
    if c.op in ("stratified", "stratified_prop", "semistrat", "semistrat_prop"):
        shp, cn, cz = a["shape"], a["cn"], a["cz"]
        size, nnz = math.prod(shp), len(a["subs"])
        S = tgen.gsparse(shp, a["subs"], a["vals"])
        if not _ints(o["vals"]):
            return "false"
        semi = c.op.startswith("semi")
        wn, wz = o["weights"][:cn], o["weights"][cn:]
        zero_total = size if semi else size - nnz
        short = bool(c.meta.get("short"))          # trigger region of the open finding C13-S1
        if c.op in ("stratified", "semistrat"):
            nidx, draws = gnlist(o["nidx"]), gzmat(o["draws"])
            got = len(o["subs"]) - cn          # zero subscripts actually returned
            # ALL weights against the model of C13_stratified_weights: cn weights nnz/cn then cz weights zeros/cz, sized by the request
            wchk = f"qvec_close tol9 {_gqlist(o['weights'])} (strat_weights (zq {gz(nnz)}) (zq {gz(zero_total)}) {gnat(cn)} {gnat(cz)})"
            if semi:
                subs = f"zsemi_subs {S} {nidx} {draws}"
                vals = f"zsemi_vals {S} {nidx} {draws}"
                return f"zmat_eqb ({subs}) {gzmat(o['subs'])} && vec_eqb ({vals}) {gzlist(o['vals'])} && {wchk}"
            subs = f"zstrat_subs {S} (znzidx {S}) {nidx} {draws} {gnat(cz)}"
            vals = f"zstrat_vals {S} {nidx} {gnat(cz)}"
            faithful = f"(vec_eqb ({vals}) {gzlist(o['vals'])} && {wchk})"
            # the number of subscript rows zeros() drew is the oversampling rule applied to the request (float quotient / product recorded)
            zc = "(@nil (Z * Z * Z))" if not o["zceil"] else "[" + "; ".join(f"({gz(n)}, {gz(d)}, {gz(r)})" for n, d, r in o["zceil"]) + "]"
            rows = f"Z.eqb (zero_draw_rows {zc} {gz(size)} {gz(size - nnz)} {gz(cz)}) {gz(o['zrows'])}"
            both = f"zmat_eqb ({subs}) {gzmat(o['subs'])} && {rows} && "
            if not short:
                return both + faithful
            # short zero supply (C13-S1, open): the repaired sampler sizes values and weights by what was obtained
            rchk = f"Nat.eqb {gnat(len(wz))} {gnat(max(got, 0))}"
            if cn > 0:
                rchk += f" && weights_close {_gqlist(wn)} (zq {gz(nnz)}) {gnat(cn)}"
            if got > 0 and len(wz) == got:
                rchk += f" && weights_close {_gqlist(wz)} (zq {gz(zero_total)}) {gnat(got)}"
            fvals = f"zstrat_vals_fixed {S} (znzidx {S}) {nidx} {draws} {gnat(cz)}"
            return both + f"({faithful} || (vec_eqb ({fvals}) {gzlist(o['vals'])} && {rchk}))"
        nw = len(o["weights"])
        ntot = len(o["subs"])
        shape_ok = f"shapes_eqb {gnmat([[ntot], [ntot]])} {gnmat([o['vals_shape'], o['weights_shape']])}"
        if not short:          # the requested counts are delivered
            shape_ok += f" && Nat.eqb {gnat(ntot)} ({gnat(cn)} + {gnat(cz)})"
        tot = "true"
        if cn > 0:
            tot += f" && total_close {_gqlist(wn)} (zq {gz(nnz)})"
        if cz > 0 and wz:
            tot += f" && total_close {_gqlist(wz)} (zq {gz(zero_total)})"
        zeros_part = gzmat(o["subs"][cn:])
        ztrue = "true" if semi else f"zeros_ok_sp {S} {zeros_part}"
        return (f"sample_ok_sp {S} {gzmat(o['subs'])} {gzlist(o['vals'])} {gnat(nw)} && {shape_ok} && {ztrue} && {tot}")
    if c.op in ("solve", "solve_trace") and o.get("nonfinite"):
        return "false"          # a nan model / trace is never what the model answers (the Adagrad step model has step 0 while the accumulator is 0)
    if c.op in ("solve", "solve_trace"):
        ests, trace, tol = U.scale(o["ests"], o["trace"], a["tol"])
        s = f"(zsolve {gzlist(ests)} {gnat(a['max_fails'])} {gopt(tol, gz)} {gnat(a['max_iters'])})"
        if c.op == "solve_trace":
            return f"vec_eqb (zfull_trace {gzlist(ests)} {s}) {gzlist(trace)}"
        lbq = gopt(o["lb"], _q)
        # every entry of the returned model respects the bound unless it is the (possibly infeasible) starting guess itself; so does
        # every model held at an epoch boundary (smallest entries observed raw, compared in Coq)
        bounds = f"(qabove_b {lbq} {_q(o['min_entry_q'])} || existsb (Nat.eqb 0) {gnlist(o['ret_cands'])})"
        return (f"zsolve_ok {gzlist(ests)} {gnat(a['max_fails'])} {gopt(tol, gz)} {gnat(a['max_iters'])} {gnlist(o['ret_cands'])} "
                f"{gnat(len(o['ests']) - 1)} {gnat(o['nfails'])} {gnat(o['n_epoch'])} && "
                f"vec_eqb (zreported_trace {gzlist(ests)} {gnat(a['max_iters'])} {s}) {gzlist(trace)} && "
                f"Nat.eqb {gnat(o['step_trace_len'])} {gnat(len(trace))} && obs_bits {gblist([o['init_unchanged']] + ([o['stay']] if a.get('exact_start') else []))} && "
                f"{bounds} && forallb (qabove_b {lbq}) {_gqlist(o['bmin'])}")
    if c.op == "step":
        return _step_check(a, o)
    if c.op == "lbfgsb":
        parts = []
        z, zf = U.lb_scale(o["outs"])          # one common scale for both solves of the case
        zrows = lambda t: _gzmat3([[[z(v) for v in row] for row in f] for f in t])
        mi = a["opts"]["maxiter"]
        for r in o["outs"]:
            K0 = f"(mkK {gzlist([z(w) for w in r['weights']])} {zrows(r['start'])})"
            lbq = gopt(r["lb"], lambda v: gz(z(v)))
            # the wrapper model (repaired code, ONE behaviour): returned model = scipy's vector read back through update, weights kept,
            # info["final_f"] = scipy's value, or the objective of the returned model when scipy's warnflag is 2 (C13-L1 repaired)
            parts.append(f"zlb_ok {K0} {lbq} {gzlist([z(v) for v in r['x']])} {gz(zf(r['scipy_f']))} {gnat(max(r['warnflag'], 0))} "
                         f"{gz(zf(r['f_end']))} {gzlist([z(v) for v in r['x0']])} {gnat(r['nbounds'])} {zrows(r['factors'])} "
                         f"{gzlist([z(w) for w in r['res_weights']])} {gz(zf(r['final_f']))}")
            parts.append(f"Z.leb {gz(zf(r['f_end']))} {gz(zf(r['f0']))}")          # never worse than the start
            # the monitor: callbacks <= max(maxiter, 1) = time_trace slots, no IndexError (C13_lbfgsb_monitor; C13-L2 repaired)
            parts.append(f"Nat.leb {gnat(r['cb_calls'])} (Nat.max {gnat(mi)} 1) && Nat.eqb {gnat(r['trace_len'])} (monitor_slots {gnat(mi)}) && "
                         f"negb (monitor_raises {gnat(r['trace_len'])} {gnat(r['cb_calls'])}) && Nat.eqb {gnat(r['cb_calls'])} {gnat(r['nit'])}")
            parts.append(f"Nat.eqb {gnat(r['nbounds'])} {gnat(r['nvec'])} && obs_bits {gblist([r['init_unchanged'], r['shapes_ok'], r['slots_ok']])}")
        # what scipy is handed in BOTH solves is the constructor's options without the None ones, the callback slot holding the
        # monitor: a function of the constructor call alone, not of the data size or of the earlier solve (C13_lbfgsb_options)
        parts.append(f"zopts_seq_ok {U.g_ctor(a.get('opts', {}), a['callback'])} {gzlist([r['size'] for r in o['outs']])} "
                     f"{U.g_opts_seen([r['opts'] for r in o['outs']])}")
        r1, r2 = o["outs"][0], o["outs"][1]
        # the second identical solve on the same object gives the same model and the same final_f
        parts.append(f"zfactors_eqb {zrows(r1['factors'])} {zrows(r2['factors'])} && Z.eqb {gz(zf(r1['final_f']))} {gz(zf(r2['final_f']))}")
        # the user's callback runs (inside the monitor) whenever scipy completed an iteration; slot and options restored
        called = "None" if o["callback_called"] is None else f"(Some {gbool(o['callback_called'])})"
        parts.append(f"callback_seen_ok {called} {gnlist([max(r['nit'], 0) for r in o['outs']])} && obs_bits [{gbool(o['callback_restored'])}]")
        return " && ".join(parts)
    if c.op == "lbfgsb_final_f":
        # info["final_f"] is the objective of the returned model (hence no worse than the start): C13_lbfgsb_final_f
        parts = []
        _, zf = U.lb_scale(o["outs"])
        for r in o["outs"]:
            parts.append(f"Z.eqb {gz(zf(r['final_f']))} {gz(zf(r['f_end']))} && Z.leb {gz(zf(r['final_f']))} {gz(zf(r['f0']))}")
        return " && ".join(parts)
    if c.op == "lbfgsb_reuse":
        if any("exc" in r for r in o["reused"] + o["fresh"]):
            return "false"
        re_, fr_ = U.scale_many([r["flat"] for r in o["reused"]], [r["flat"] for r in o["fresh"]])
        fe, f0 = U.scale_many([[r["f_end"] for r in o["reused"]]], [[r["f0"] for r in o["reused"]]])
        # every solve of the sequence on the shared object hands scipy what a fresh object does: the constructor's options, whatever
        # the sizes of the tensors seen before (handed_seq, Alg/C13Opts.v)
        oseq = (f"zopts_seq_ok {U.g_ctor(a.get('opts', {}), False)} {gzlist([r['size'] for r in o['reused']])} "
                f"{U.g_opts_seen([r['opts'] for r in o['reused']])} && ")
        return (oseq + f"list_eqb vec_eqb {gzmat(re_)} {gzmat(fr_)} && obs_bits [{gbool(o['restored'])}] && "
                f"forallb (fun p => Z.leb (fst p) (snd p)) (combine {gzlist(fe[0])} {gzlist(f0[0])})")
    if c.op == "reuse":
        # a solve that raises (short zero supply of the stratified sampler: open finding C13-S1, a property of the sampler draw, not of
        # the object's history) must raise identically on the reused and on the fresh object; the other positions are compared
        pairs = list(zip(o["reused"], o["fresh"]))
        if len(o["reused"]) != len(o["fresh"]) or any(("exc" in x) != ("exc" in y) or ("exc" in x and (x["exc"], x.get("msg")) != (y["exc"], y.get("msg")))
                                                     for x, y in pairs):
            return "false"
        if any("exc" in x and not (x["exc"] == "ValueError" and "broadcast" in x.get("msg", "") and a["probs"][k]["sparse"])
               for k, (x, _) in enumerate(pairs)):
            return "false"
        re_, fr_ = U.scale_many([x["flat"] for x, _ in pairs if "exc" not in x], [y["flat"] for _, y in pairs if "exc" not in y])
        return f"list_eqb vec_eqb {gzmat(re_)} {gzmat(fr_)}"
    raise ValueError(c.op)


# ----------------------------------------------------------------------------------------- oracle
def oracle(c, o):
    """brute force on pyttb's own output: does it satisfy what C13 states? (pure Python)"""
    a = c.args
    if o.get("skip"):
        return None
    if c.op == "driver":
        return D.driver_oracle(a, o)
    if c.op == "direct":
        return D.direct_oracle(a, o)
    if "exc" in o:
        return f"admissible request raised {o['exc']}: {o.get('msg')}"
    return U.oracle(c.op, a, o)


# ----------------------------------------------------------------------------------------- findings
TRIGGERS = {      # only the OPEN findings (A-47, C13-S1, C13-S3); the repaired ones (incl. C13-L1, C13-L2, C13-G1) are regression cases in gen_cases
    "sptensor_without_nonzeros": lambda c: c.op.split("_")[0] in ("stratified", "semistrat") and not c.args["subs"] and c.args["cn"] == 0,
    "semistrat_zero_hits_nonzero": lambda c: c.op == "semistrat_prop" and bool(c.meta.get("semi_hit")),
    "zero_supply_short": lambda c: c.op in ("stratified", "stratified_prop", "solve", "solve_trace") and bool(c.meta.get("short")),
}
WITNESSES = U.WITNESSES
