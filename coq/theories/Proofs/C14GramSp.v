(* Proofs/C14GramSp.v — C14_gram_sparse: the Gram matrix sptensor.nvecs forms from the stored nonzeros (COO product of the
   re-keyed triples) is gram_spec of the denotation den_sp — every shape, mode, stored order, commutative ring. *)
From Coq Require Import List Arith Lia Bool Ring.
From PV Require Import Base.Index Base.Sum Np.Array Model.Sparse Model.Repr Model.C14Nvecs Model.C14Gram Proofs.C14Sums Proofs.C14Split.
Import ListNotations.

Section GramSparse.
Variable V : Type.
Variables (v0 v1 : V) (vadd vmul vsub : V -> V -> V) (vopp : V -> V).
Hypothesis Vring : ring_theory v0 v1 vadd vmul vsub vopp (@eq V).
Add Ring Vr14g : Vring.
Variable isz : V -> bool.
Notation SO := (sum_over v0 vadd).
Notation SN := (sum_n v0 vadd).

Lemma mget_mtab m k (f : nat -> nat -> V) a b : a < m -> b < k -> mget v0 (mtab m k f) a b = f a b.
Proof.
  intros Ha Hb. unfold mget, mtab.
  rewrite (nth_indep _ [] ((fun a0 => map (fun b0 => f a0 b0) (seq 0 k)) 0)) by (now rewrite map_length, seq_length).
  rewrite (map_nth (fun a0 => map (fun b0 => f a0 b0) (seq 0 k))), seq_nth by auto.
  rewrite (nth_indep _ v0 ((fun b0 => f (0 + a) b0) 0)) by (now rewrite map_length, seq_length).
  rewrite (map_nth (fun b0 => f (0 + a) b0)), seq_nth by auto. reflexivity.
Qed.

(* two stored subscripts pair up in the COO product exactly when the second is the first with its mode-n entry replaced by b *)
Lemma pair_key (s : shape) (n b : nat) (j1 j2 : idx) : n < length s -> inb s j1 = true -> inb s j2 = true ->
  (Nat.eqb (nth n j2 0) b && Nat.eqb (sub2ind (remove_nth n s) (remove_nth n j1)) (sub2ind (remove_nth n s) (remove_nth n j2)))
  = idx_eqb j2 (insert_at n b (remove_nth n j1)).
Proof.
  intros Hn H1 H2.
  pose proof (inb_length _ _ H1) as L1. pose proof (inb_length _ _ H2) as L2.
  destruct (idx_eqb j2 (insert_at n b (remove_nth n j1))) eqn:E.
  - apply idx_eqb_spec in E.
    assert (Hl : n <= length (remove_nth n j1)) by (rewrite remove_nth_length; lia).
    rewrite E at 1. rewrite nth_insert_at by auto. rewrite Nat.eqb_refl. cbn [andb].
    rewrite E. rewrite remove_insert by auto. apply Nat.eqb_refl.
  - destruct (Nat.eqb_spec (nth n j2 0) b) as [Hb|Hb]; [|reflexivity]. cbn [andb].
    destruct (Nat.eqb_spec (sub2ind (remove_nth n s) (remove_nth n j1)) (sub2ind (remove_nth n s) (remove_nth n j2))) as [Hk|Hk]; [|reflexivity].
    exfalso. apply sub2ind_inj in Hk; try (apply inb_remove; auto).
    assert (j2 = insert_at n b (remove_nth n j1)).
    { rewrite Hk, <- Hb. symmetry. apply insert_remove. lia. }
    subst j2. now rewrite idx_eqb_refl in E.
Qed.

Theorem gram_sparse (S : sparse V) (n a b : nat) : wf_sp isz S -> n < length (sshape S) ->
  a < nth n (sshape S) 0 -> b < nth n (sshape S) 0 ->
  mget v0 (gram_sp_impl v0 vadd vmul S n) a b = gram_spec v0 vadd vmul (sshape S) (den_sp v0 S) n a b.
Proof.
  intros W Hn Ha Hb. set (s := sshape S). unfold gram_sp_impl. fold s. rewrite mget_mtab by auto.
  assert (Hin : forall e, In e (entries S) -> inb s (fst e) = true).
  { destruct W as (_ & _ & Hbnd & _). intros [j v] He. unfold entries in He. apply in_combine_l in He.
    rewrite Forall_forall in Hbnd. cbn. now apply Hbnd. }
  (* right-hand side: all subscripts with an indicator, then the stored entries *)
  set (h := fun j => vmul (den_sp v0 S j) (den_sp v0 S (insert_at n b (remove_nth n j)))).
  assert (Hrhs : gram_spec v0 vadd vmul s (den_sp v0 S) n a b =
                 SO (entries S) (fun e => if Nat.eqb (nth n (fst e) 0) a
                                          then vmul (snd e) (den_sp v0 S (insert_at n b (remove_nth n (fst e)))) else v0)).
  { unfold gram_spec.
    transitivity (SO (allsubs (remove_nth n s)) (fun i => h (insert_at n a i))).
    { apply sum_over_ext. intros i Hi. apply in_allsubs, inb_length in Hi. unfold s in Hi. rewrite remove_nth_length in Hi by auto.
      unfold h. now rewrite remove_insert by lia. }
    rewrite (sum_allsubs_fix V v0 v1 vadd vmul vsub vopp Vring s n a h Hn Ha). unfold h.
    apply (sum_sparse_gen V v0 v1 vadd vmul vsub vopp Vring isz S
             (fun v j => if Nat.eqb (nth n j 0) a then vmul v (den_sp v0 S (insert_at n b (remove_nth n j))) else v0) W).
    intros j. destruct (Nat.eqb (nth n j 0) a); ring. }
  rewrite Hrhs. clear Hrhs h.
  (* left-hand side *)
  unfold coo_gram, sp_triples. rewrite sum_over_map. apply sum_over_ext. intros [j1 w1] H1.
  rewrite sum_over_map. pose proof (Hin _ H1) as B1. cbn [fst snd] in B1 |- *.
  destruct (Nat.eqb (nth n j1 0) a) eqn:Ea.
  - rewrite (den_sp_as_sum V v0 v1 vadd vmul vsub vopp Vring isz S _ W).
    rewrite <- (sum_over_scale_l V v0 v1 vadd vmul vsub vopp Vring).
    apply sum_over_ext. intros [j2 w2] H2. pose proof (Hin _ H2) as B2. cbn [fst snd] in B2 |- *.
    unfold s in *. rewrite ?Ea. cbn [andb].
    rewrite (pair_key (sshape S) n b j1 j2 Hn B1 B2).
    destruct (idx_eqb j2 (insert_at n b (remove_nth n j1))); ring.
  - apply (sum_over_zero V v0 v1 vadd vmul vsub vopp Vring). intros [j2 w2] _. cbn [fst snd]. rewrite ?Ea. reflexivity.
Qed.

End GramSparse.

Example gram_sparse_example :
  let S := mkSp [2; 3; 2] [[1; 2; 0]; [0; 0; 1]; [1; 0; 0]; [0; 2; 0]] [5; 2; 3; 4] in
  gram_sp_impl 0 Nat.add Nat.mul S 1 = [[13; 0; 15]; [0; 0; 0]; [15; 0; 41]] /\
  gram_sp_impl 0 Nat.add Nat.mul S 0 = [[20; 20]; [20; 34]] /\
  gram_matrix 0 Nat.add Nat.mul [2; 3; 2] (den_sp 0 S) 0 = [[20; 20]; [20; 34]] /\
  gram_matrix 0 Nat.add Nat.mul [2; 3; 2] (den_sp 0 S) 1 = [[13; 0; 15]; [0; 0; 0]; [15; 0; 41]].
Proof. repeat split; reflexivity. Qed.
