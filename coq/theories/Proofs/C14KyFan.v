(* Proofs/C14KyFan.v — the extremal inequality behind "capture the maximal energy" (Ky Fan's maximum principle in its weight form):
   for eigenvalues mu_1 >= ... >= mu_m and weights 0 <= c_i <= 1 with sum c_i = r, sum mu_i c_i <= mu_1 + ... + mu_r.
   (With Y = sum_i mu_i w_i w_i^T and r orthonormal columns Q, trace(Q^T Y Q) = sum_i mu_i c_i for c_i = |Q^T w_i|^2; Bessel gives
   0 <= c_i <= 1 and Parseval sum c_i = r — both proved below: kyfan_matrix.) *)
From Coq Require Import List Arith Lia Reals Lra Sorted.
Import ListNotations.
Local Open Scope R_scope.

Fixpoint rsum (l : list R) : R := match l with [] => 0 | x :: l' => x + rsum l' end.
(* sum_i mu_i c_i *)
Fixpoint wsum (mu c : list R) : R := match mu, c with m :: mu', x :: c' => m * x + wsum mu' c' | _, _ => 0 end.

Lemma rsum_app l1 l2 : rsum (l1 ++ l2) = rsum l1 + rsum l2.
Proof. induction l1 as [|x l1 IH]; cbn; [lra|]. rewrite IH. lra. Qed.

Lemma wsum_app mu1 mu2 c1 c2 : length mu1 = length c1 -> wsum (mu1 ++ mu2) (c1 ++ c2) = wsum mu1 c1 + wsum mu2 c2.
Proof.
  revert c1; induction mu1 as [|m mu1 IH]; intros [|x c1] H; cbn in H; try discriminate; cbn; [lra|].
  rewrite IH by lia. lra.
Qed.

(* above the threshold: each kept eigenvalue loses at most t per unit of missing weight *)
Lemma wsum_head (t : R) : forall mu c, length mu = length c -> Forall (fun m => t <= m) mu -> Forall (fun x => x <= 1) c ->
  wsum mu c - rsum mu <= t * (rsum c - INR (length mu)).
Proof.
  induction mu as [|m mu IH]; intros [|x c] H Hm Hc; cbn in H; try discriminate.
  - cbn. lra.
  - inversion Hm as [|? ? Hm1 Hm2]; inversion Hc as [|? ? Hc1 Hc2]; subst.
    specialize (IH c ltac:(lia) Hm2 Hc2). cbn [wsum rsum length]. rewrite S_INR. nra.
Qed.

(* below the threshold: each discarded eigenvalue gains at most t per unit of weight *)
Lemma wsum_tail (t : R) : forall mu c, length mu = length c -> Forall (fun m => m <= t) mu -> Forall (fun x => 0 <= x) c ->
  wsum mu c <= t * rsum c.
Proof.
  induction mu as [|m mu IH]; intros [|x c] H Hm Hc; cbn in H; try discriminate; cbn; try lra.
  inversion Hm as [|? ? Hm1 Hm2]; inversion Hc as [|? ? Hc1 Hc2]; subst. specialize (IH c ltac:(lia) Hm2 Hc2). nra.
Qed.

Theorem kyfan_split (t : R) (mu1 mu2 c1 c2 : list R) :
  length mu1 = length c1 -> length mu2 = length c2 -> Forall (fun m => t <= m) mu1 -> Forall (fun m => m <= t) mu2 ->
  Forall (fun x => 0 <= x <= 1) (c1 ++ c2) -> rsum (c1 ++ c2) = INR (length mu1) ->
  wsum (mu1 ++ mu2) (c1 ++ c2) <= rsum mu1.
Proof.
  intros HL HL2 H1 H2 Hc Hs. rewrite wsum_app by exact HL. rewrite rsum_app in Hs.
  apply Forall_app in Hc as [Hc1 Hc2].
  pose proof (wsum_head t mu1 c1 HL H1 (Forall_impl _ (fun x (H : 0 <= x <= 1) => proj2 H) Hc1)) as A.
  pose proof (wsum_tail t mu2 c2 HL2 H2 (Forall_impl _ (fun x (H : 0 <= x <= 1) => proj1 H) Hc2)) as B.
  nra.
Qed.

(* sorted form: mu non-increasing, r <= length mu *)
Lemma sorted_firstn_ge (mu : list R) : StronglySorted Rge mu -> forall r, (1 <= r <= length mu)%nat ->
  Forall (fun m => nth (r - 1) mu 0 <= m) (firstn r mu) /\ Forall (fun m => m <= nth (r - 1) mu 0) (skipn r mu).
Proof.
  induction 1 as [|m mu Hs IH Hm]; intros r Hr; [cbn in Hr; lia|].
  destruct r as [|[|r]]; [lia| |].
  - cbn [firstn skipn nth Nat.sub]. split; [constructor; [lra|constructor]|].
    eapply Forall_impl; [|exact Hm]. intros a Ha. cbn in Ha. lra.
  - cbn [length] in Hr. destruct (IH (S r) ltac:(lia)) as [A B]. replace (S (S r) - 1)%nat with (S (S r - 1)) by lia.
    cbn [firstn skipn nth]. split; [|exact B]. constructor; [|exact A].
    assert (Hin : In (nth (S r - 1) mu 0) mu) by (apply nth_In; lia).
    rewrite Forall_forall in Hm. specialize (Hm _ Hin). lra.
Qed.

Theorem kyfan_weights (mu c : list R) (r : nat) :
  StronglySorted Rge mu -> length mu = length c -> (r <= length mu)%nat ->
  Forall (fun x => 0 <= x <= 1) c -> rsum c = INR r ->
  wsum mu c <= rsum (firstn r mu).
Proof.
  intros Hs HL Hr Hc Hsum.
  rewrite <- (firstn_skipn r mu) at 1. rewrite <- (firstn_skipn r c) at 1.
  assert (L1 : length (firstn r mu) = r) by (rewrite firstn_length; lia).
  destruct r as [|r].
  - (* nothing kept: all weights vanish *)
    cbn [firstn skipn app rsum]. destruct mu as [|m mu]; [destruct c; cbn; lra|].
    inversion Hs as [|? ? Hs' Hm]; subst.
    pose proof (wsum_tail m (m :: mu) c HL) as B. cbn [INR] in Hsum. rewrite Hsum in B.
    assert (B' : wsum (m :: mu) c <= m * 0).
    { apply B; [constructor; [lra|]; eapply Forall_impl; [|exact Hm]; intros a Ha; cbn in Ha; lra|].
      eapply Forall_impl; [|exact Hc]. intros a Ha. lra. }
    lra.
  - destruct (sorted_firstn_ge mu Hs (S r) ltac:(lia)) as [A B].
    apply (kyfan_split (nth (S r - 1) mu 0)); try assumption.
    + rewrite !firstn_length. lia.
    + rewrite !skipn_length. lia.
    + rewrite firstn_skipn. exact Hc.
    + rewrite firstn_skipn, L1. exact Hsum.
Qed.

(* equality is attained by the indicator weights of the r leading eigenvalues — the columns nvecs returns *)
Lemma wsum_zero (mu : list R) : wsum mu (repeat 0 (length mu)) = 0.
Proof. induction mu as [|m mu IH]; cbn; [reflexivity|]. rewrite IH. lra. Qed.

Lemma wsum_indicator (mu : list R) (r : nat) : (r <= length mu)%nat ->
  wsum mu (repeat 1 r ++ repeat 0 (length mu - r)) = rsum (firstn r mu).
Proof.
  revert r; induction mu as [|m mu IH]; intros r Hr.
  - destruct r; [reflexivity|cbn in Hr; lia].
  - destruct r as [|r].
    + rewrite Nat.sub_0_r. cbn [repeat app firstn rsum]. apply wsum_zero.
    + cbn [length] in Hr. cbn [repeat app firstn rsum wsum length Nat.sub]. rewrite IH by lia. lra.
Qed.

Example kyfan_example :
  wsum [5; 3; 1] [1/2; 1; 1/2] = 6 /\ rsum (firstn 2 [5; 3; 1]) = 8 /\ wsum [5; 3; 1] [1; 1; 0] = 8.
Proof. cbn. repeat split; lra. Qed.

(* ---------------------------------------------------------------------------------------------------------------------------------
   Ky Fan's maximum principle in matrix form: Y = sum_i mu_i w_i w_i^T (W orthogonal, mu non-increasing); for ANY r orthonormal columns Q
   the captured energy trace(Q^T Y Q) is at most mu_0 + ... + mu_{r-1} — the energy captured by the r leading eigenvectors.
   Matrices are entry functions nat -> nat -> R read on 0..n-1. *)
Fixpoint rs (n : nat) (f : nat -> R) : R := match n with O => 0 | S k => rs k f + f k end.

Lemma rs_ext n f g : (forall k, (k < n)%nat -> f k = g k) -> rs n f = rs n g.
Proof. induction n as [|n IH]; intros H; cbn; [reflexivity|]. rewrite IH by (intros; apply H; lia). rewrite H by lia. reflexivity. Qed.
Lemma rs_add n f g : rs n (fun k => f k + g k) = rs n f + rs n g.
Proof. induction n as [|n IH]; cbn; [lra|]. rewrite IH. lra. Qed.
Lemma rs_scale n c f : rs n (fun k => c * f k) = c * rs n f.
Proof. induction n as [|n IH]; cbn; [lra|]. rewrite IH. lra. Qed.
Lemma rs_zero n : rs n (fun _ => 0) = 0.
Proof. induction n as [|n IH]; cbn; [reflexivity|]. rewrite IH. lra. Qed.
Lemma rs_const1 n : rs n (fun _ => 1) = INR n.
Proof. induction n as [|n IH]; [reflexivity|]. cbn [rs]. rewrite IH, S_INR. lra. Qed.
Lemma rs_swap n m (f : nat -> nat -> R) : rs n (fun a => rs m (fun b => f a b)) = rs m (fun b => rs n (fun a => f a b)).
Proof.
  induction n as [|n IH]; cbn [rs].
  - symmetry. apply rs_zero.
  - rewrite IH. rewrite <- rs_add. reflexivity.
Qed.
Lemma rs_nonneg n f : (forall k, (k < n)%nat -> 0 <= f k) -> 0 <= rs n f.
Proof. induction n as [|n IH]; intros H; cbn; [lra|]. specialize (IH ltac:(intros; apply H; lia)). specialize (H n ltac:(lia)). lra. Qed.
Definition delta (a b : nat) : R := if Nat.eqb a b then 1 else 0.
Lemma rs_delta n k f : (k < n)%nat -> rs n (fun j => delta j k * f j) = f k.
Proof.
  induction n as [|n IH]; intros H; [lia|]. cbn [rs]. unfold delta at 2. destruct (Nat.eqb_spec n k) as [->|Hne].
  - rewrite (rs_ext k _ (fun _ => 0)); [rewrite rs_zero; lra|]. intros j Hj. unfold delta. rewrite (proj2 (Nat.eqb_neq j k)) by lia. lra.
  - rewrite IH by lia. lra.
Qed.
Lemma rs_mul n m f g : rs n f * rs m g = rs n (fun a => rs m (fun b => f a * g b)).
Proof.
  rewrite Rmult_comm, <- rs_scale. apply rs_ext. intros a _. rewrite rs_scale. lra.
Qed.

Section KyFanMatrix.
Variables (n r : nat) (Y W Q : nat -> nat -> R) (mu : nat -> R).
(* p i j = <w_i, q_j> *)
Let p (i j : nat) : R := rs n (fun a => W a i * Q a j).
(* c_i = |Q^T w_i|^2 *)
Let c (i : nat) : R := rs r (fun j => p i j * p i j).

Hypothesis HQ : forall j k, (j < r)%nat -> (k < r)%nat -> rs n (fun a => Q a j * Q a k) = delta j k.          (* Q^T Q = I_r *)
Hypothesis HWo : forall i, (i < n)%nat -> rs n (fun a => W a i * W a i) = 1.                                   (* unit eigenvectors *)
Hypothesis HWc : forall a b, (a < n)%nat -> (b < n)%nat -> rs n (fun i => W a i * W b i) = delta a b.          (* W W^T = I *)

(* sum_i m_i c_i = sum_j q_j^T (sum_i m_i w_i w_i^T) q_j — for any coefficients m *)
Lemma weights_as_trace (m : nat -> R) :
  rs n (fun i => m i * c i) = rs r (fun j => rs n (fun a => rs n (fun b => Q a j * Q b j * rs n (fun i => m i * W a i * W b i)))).
Proof.
  transitivity (rs n (fun i => rs r (fun j => rs n (fun a => rs n (fun b => m i * W a i * W b i * (Q a j * Q b j)))))).
  - apply rs_ext. intros i _. unfold c. rewrite <- rs_scale. apply rs_ext. intros j _. unfold p. rewrite rs_mul, <- rs_scale.
    apply rs_ext. intros a _. rewrite <- rs_scale. apply rs_ext. intros b _. lra.
  - rewrite rs_swap. apply rs_ext. intros j _. rewrite rs_swap. apply rs_ext. intros a _. rewrite rs_swap. apply rs_ext. intros b _.
    rewrite <- rs_scale. apply rs_ext. intros i _. lra.
Qed.

(* Parseval: the weights sum to r *)
Lemma weights_sum : rs n c = INR r.
Proof.
  rewrite (rs_ext n c (fun i => 1 * c i)) by (intros; lra). rewrite (weights_as_trace (fun _ => 1)).
  rewrite <- rs_const1. apply rs_ext. intros j Hj.
  rewrite (rs_ext n _ (fun a => Q a j * rs n (fun b => delta b a * Q b j))).
  - rewrite (rs_ext n _ (fun a => Q a j * Q a j)) by (intros a Ha; now rewrite rs_delta).
    rewrite (HQ j j Hj Hj). unfold delta. now rewrite Nat.eqb_refl.
  - intros a Ha. rewrite <- rs_scale. apply rs_ext. intros b Hb.
    rewrite (rs_ext n _ (fun i => W a i * W b i)) by (intros; lra). rewrite (HWc a b Ha Hb).
    unfold delta. rewrite (Nat.eqb_sym b a). lra.
Qed.

Lemma weights_nonneg i : 0 <= c i.
Proof. unfold c. apply rs_nonneg. intros j _. nra. Qed.

(* Bessel: 1 - c_i = |w_i - sum_j <w_i, q_j> q_j|^2 >= 0 *)
Lemma weights_le_1 i : (i < n)%nat -> c i <= 1.
Proof.
  intros Hi. set (d := fun a => W a i - rs r (fun j => p i j * Q a j)).
  assert (E : rs n (fun a => d a * d a) = 1 - c i).
  { rewrite (rs_ext n _ (fun a => W a i * W a i + ((-2) * rs r (fun j => p i j * (W a i * Q a j))
                                + rs r (fun j => rs r (fun k => p i j * p i k * (Q a j * Q a k)))))).
    2:{ intros a _. unfold d. set (sa := rs r (fun j => p i j * Q a j)).
        assert (E1 : rs r (fun j => p i j * (W a i * Q a j)) = W a i * sa)
          by (unfold sa; rewrite <- rs_scale; apply rs_ext; intros; lra).
        assert (E2 : rs r (fun j => rs r (fun k => p i j * p i k * (Q a j * Q a k))) = sa * sa)
          by (unfold sa; rewrite rs_mul; apply rs_ext; intros; apply rs_ext; intros; lra).
        rewrite E1, E2. lra. }
    rewrite rs_add, rs_add, rs_scale, (HWo i Hi).
    rewrite rs_swap. rewrite (rs_ext r _ (fun j => p i j * p i j)) by (intros j _; rewrite rs_scale; reflexivity). fold (c i).
    rewrite rs_swap. rewrite (rs_ext r _ (fun j => p i j * p i j)).
    - fold (c i). lra.
    - intros j Hj. rewrite rs_swap.
      rewrite (rs_ext r _ (fun k => delta k j * (p i j * p i k))).
      + now rewrite rs_delta.
      + intros k Hk. rewrite rs_scale, (HQ j k Hj Hk). unfold delta. rewrite (Nat.eqb_sym k j). lra. }
  assert (0 <= rs n (fun a => d a * d a)) by (apply rs_nonneg; intros; nra).
  lra.
Qed.

Hypothesis Hspec : forall a b, (a < n)%nat -> (b < n)%nat -> Y a b = rs n (fun i => mu i * W a i * W b i).   (* Y = W diag(mu) W^T *)
Hypothesis Hmu : forall i k, (i <= k)%nat -> (k < n)%nat -> mu k <= mu i.                                    (* non-increasing *)
Hypothesis Hr : (r <= n)%nat.

(* trace(Q^T Y Q) *)
Definition captured : R := rs r (fun j => rs n (fun a => rs n (fun b => Q a j * Y a b * Q b j))).

Lemma captured_as_weights : captured = rs n (fun i => mu i * c i).
Proof.
  rewrite (weights_as_trace mu). unfold captured. apply rs_ext. intros j _. apply rs_ext. intros a Ha. apply rs_ext. intros b Hb.
  rewrite (Hspec a b Ha Hb). lra.
Qed.

Lemma rs_as_lists (f g : nat -> R) m : rs m (fun i => f i * g i) = wsum (map f (seq 0 m)) (map g (seq 0 m)) /\ rs m f = rsum (map f (seq 0 m)).
Proof.
  induction m as [|m [IH1 IH2]]; [split; reflexivity|]. rewrite seq_S, !map_app. cbn [rs plus map].
  rewrite wsum_app by (now rewrite !map_length). rewrite rsum_app. cbn [wsum rsum]. rewrite IH1, IH2. split; lra.
Qed.

Lemma mu_sorted : forall m, (m <= n)%nat -> forall off, (off + m <= n)%nat -> StronglySorted Rge (map mu (seq off m)).
Proof.
  induction m as [|m IH]; intros Hm off Ho; [constructor|]. cbn [seq map]. constructor; [apply IH; lia|].
  apply Forall_forall. intros x Hx. apply in_map_iff in Hx as (k & <- & Hk). apply in_seq in Hk. apply Rle_ge, Hmu; lia.
Qed.

Theorem kyfan_matrix : captured <= rs r mu.
Proof.
  rewrite captured_as_weights.
  rewrite (proj1 (rs_as_lists mu c n)). rewrite (proj2 (rs_as_lists mu (fun _ => 1) r)).
  replace (map mu (seq 0 r)) with (firstn r (map mu (seq 0 n))).
  2:{ rewrite firstn_map. f_equal. replace n with (r + (n - r))%nat at 1 by lia. rewrite seq_app, firstn_app, seq_length, Nat.sub_diag.
      rewrite firstn_all2 by (rewrite seq_length; lia). cbn [firstn]. apply app_nil_r. }
  apply kyfan_weights.
  - apply (mu_sorted n (le_n n) 0%nat). lia.
  - now rewrite !map_length.
  - now rewrite map_length, seq_length.
  - apply Forall_forall. intros x Hx. apply in_map_iff in Hx as (i & <- & Hi). apply in_seq in Hi.
    split; [apply weights_nonneg|apply weights_le_1; lia].
  - rewrite <- (proj2 (rs_as_lists c (fun _ => 1) n)). apply weights_sum.
Qed.
End KyFanMatrix.

(* the columns nvecs returns attain the bound: orthonormal eigenvectors V of Y with eigenvalues lam capture lam_0 + ... + lam_{r-1} *)
Theorem captured_eigen (n r : nat) (Y V : nat -> nat -> R) (lam : nat -> R) :
  (forall j a, (j < r)%nat -> (a < n)%nat -> rs n (fun b => Y a b * V b j) = lam j * V a j) ->
  (forall j, (j < r)%nat -> rs n (fun a => V a j * V a j) = 1) ->
  captured n r Y V = rs r lam.
Proof.
  intros He Hu. unfold captured. apply rs_ext. intros j Hj.
  rewrite (rs_ext n _ (fun a => lam j * (V a j * V a j))).
  - rewrite rs_scale, (Hu j Hj). lra.
  - intros a Ha. rewrite (rs_ext n _ (fun b => V a j * (Y a b * V b j))) by (intros; lra). rewrite rs_scale, (He j a Hj Ha). lra.
Qed.

(* captured energy = squared Frobenius norm of Q^T X_n when Y is the Gram matrix X_n X_n^T of the unfolding (K columns) *)
Theorem captured_is_energy (n r K : nat) (Y X Q : nat -> nat -> R) :
  (forall a b, (a < n)%nat -> (b < n)%nat -> Y a b = rs K (fun c => X a c * X b c)) ->
  captured n r Y Q = rs r (fun j => rs K (fun c => rs n (fun a => Q a j * X a c) * rs n (fun a => Q a j * X a c))).
Proof.
  intros HY. unfold captured. apply rs_ext. intros j _.
  transitivity (rs n (fun a => rs n (fun b => rs K (fun c => Q a j * X a c * (Q b j * X b c))))).
  - apply rs_ext. intros a Ha. apply rs_ext. intros b Hb. rewrite (HY a b Ha Hb).
    rewrite (Rmult_comm _ (Q b j)), <- Rmult_assoc, <- rs_scale. apply rs_ext. intros c _. lra.
  - rewrite (rs_ext n _ (fun a => rs K (fun c => rs n (fun b => Q a j * X a c * (Q b j * X b c))))) by (intros; apply rs_swap).
    rewrite rs_swap. apply rs_ext. intros c _. rewrite rs_mul. reflexivity.
Qed.

(* 2 x 2: Y = diag(5, 1), W = I; the column (3/5, 4/5) captures 5 * 9/25 + 16/25 = 61/25 <= 5 *)
Example kyfan_matrix_example :
  let Y := fun a b : nat => match a, b with O, O => 5 | S O, S O => 1 | _, _ => 0 end in
  let Q := fun a j : nat => match a, j with O, O => 3/5 | S O, O => 4/5 | _, _ => 0 end in
  captured 2 1 Y Q = 61/25 /\ rs 1 (fun i => match i with O => 5 | _ => 1 end) = 5.
Proof. unfold captured. cbn. split; lra. Qed.
