(* Proofs/W4SHosvd.v — BRIDGE between the GENERATED skeleton of the mode loop of pyttb/hosvd.py (`for k in dimorder:` — Gram matrix,
   eigh, descending sort, automatic rank rule, column slice, sequential shrink; Gen/GenHosvd.v) and the hand model of the rank rule
   Model/C10Tucker.v (auto_rank, keep_cols); then C10_rank_choice over the generated loop (exact real arithmetic). *)
From Coq Require Import String List Arith Bool Lia.
From PV Require Import Model.W4SPrelude Gen.GenHosvd Model.C10Tucker.
Import ListNotations.
Local Open Scope nat_scope.

Section Vocabulary.
Context {V : Type} (v0 : V) (vadd : V -> V -> V) (vle : V -> V -> bool).
Definition lt_of (a b : V) : bool := negb (vle b a).          (* a < b *)

Lemma sk_cumsum_from_eq acc l : sk_cumsum_from vadd acc l = cumsum_from vadd acc l.
Proof. revert acc. induction l as [|x l IH]; intros acc; cbn; [reflexivity|]. now rewrite IH. Qed.

Lemma sk_where_from_eq (l : list V) t : forall i,
  sk_where_from (fun x t => negb (vle x t)) i l t = filter (fun j => lt_of t (nth (j - i) l v0)) (seq i (length l)).
Proof.
  induction l as [|x l IH]; intros i; [reflexivity|].
  assert (E : filter (fun j => lt_of t (nth (j - i) (x :: l) v0)) (seq (S i) (length l)) =
              filter (fun j => lt_of t (nth (j - S i) l v0)) (seq (S i) (length l))).
  { apply filter_ext_in. intros j Hj. apply in_seq in Hj. replace (j - i) with (S (j - S i)) by lia. reflexivity. }
  cbn [sk_where_from length seq filter]. rewrite Nat.sub_diag. change (nth 0 (x :: l) v0) with x.
  rewrite E, IH. reflexivity.
Qed.

Lemma sk_where_eq (l : list V) t : sk_where (fun x t => negb (vle x t)) l t = where_gt v0 lt_of l t.
Proof.
  unfold sk_where, where_gt. rewrite sk_where_from_eq. apply filter_ext. intros j. now rewrite Nat.sub_0_r.
Qed.

(* the rank rule as the generated code computes it = the hand model's auto_rank *)
Lemma gen_rank_rule (eig : list V) t :
  match sk_last (sk_where (fun x t => negb (vle x t)) (rev (sk_cumsum v0 vadd (rev eig))) t) with
  | None => None
  | Some x => Some (x + 1)
  end = auto_rank v0 vadd lt_of eig t.
Proof.
  unfold auto_rank, last_above, eigsum, np_cumsum, sk_cumsum. rewrite sk_where_eq, sk_cumsum_from_eq. reflexivity.
Qed.

Lemma sk_slice_keep {A} r (p : list A) : sk_slice 0 r p = keep_cols r p.
Proof. unfold sk_slice, keep_cols. now rewrite Nat.sub_0_r. Qed.
End Vocabulary.

Section Bridge.
Variables T_V T_Tensor T_Mat : Type.
Variable c_leV : T_V -> T_V -> bool.
Variable c_zeroV : T_V.
Variable c_addV : T_V -> T_V -> T_V.
Variable k_unfold : T_Tensor -> nat -> T_Mat.
Variable k_gram : T_Mat -> T_Mat.
Variable k_eigh : T_Mat -> list T_V * T_Mat.
Variable k_argsort_desc : list T_V -> list nat.
Variable k_take : list T_V -> list nat -> list T_V.
Variable k_select_cols : T_Mat -> list nat -> T_Mat.
Variable k_shrink : T_Tensor -> list T_Mat -> nat -> T_Tensor.

Notation gloop := (GenHosvd.hosvd_modes_loop1 T_V T_Tensor T_Mat c_leV c_zeroV c_addV k_unfold k_gram k_eigh k_argsort_desc k_take
  k_select_cols k_shrink).
Notation gmodes := (GenHosvd.hosvd_modes T_V T_Tensor T_Mat c_leV c_zeroV c_addV k_unfold k_gram k_eigh k_argsort_desc k_take
  k_select_cols k_shrink).

(* what mode k sees: the sorted spectrum, the sorting permutation and the eigenvector matrix *)
Definition mode_spectrum (Y : T_Tensor) (k : nat) : list T_V * list nat * T_Mat :=
  let '(D, Vm) := k_eigh (k_gram (k_unfold Y k)) in
  let p := k_argsort_desc D in (k_take D p, p, Vm).

(* hand reference: ranks[k] by the hand model's rule *)
Definition h_rank_step (ranks : list nat) (k : nat) (eig : list T_V) (t : T_V) : option (list nat) :=
  match nth_error ranks k with
  | None => None
  | Some rk => if rk =? 0
               then match auto_rank c_zeroV c_addV (lt_of c_leV) eig t with None => None | Some r => sk_set ranks k r end
               else Some ranks
  end.

Fixpoint h_loop (t : T_V) (sq : bool) (xs : list nat) (st : T_Tensor * list T_Mat * list nat) : option (T_Tensor * list T_Mat * list nat) :=
  match xs with
  | [] => Some st
  | k :: xs' =>
    let '(Y, fm, ranks) := st in
    let '(eig, p, Vm) := mode_spectrum Y k in
    match h_rank_step ranks k eig t with
    | None => None
    | Some ranks' =>
      match nth_error ranks' k with
      | None => None
      | Some r =>
        match sk_set fm k (k_select_cols Vm (keep_cols r p)) with
        | None => None
        | Some fm' => h_loop t sq xs' (if sq then k_shrink Y fm' k else Y, fm', ranks')
        end
      end
    end
  end.

Theorem hosvd_loop_bridge t sq : forall xs st, gloop t sq xs st = h_loop t sq xs st.
Proof.
  induction xs as [|k xs IH]; intros [[Y fm] ranks]; [reflexivity|].
  cbn [GenHosvd.hosvd_modes_loop1 h_loop]. unfold mode_spectrum, h_rank_step.
  destruct (k_eigh (k_gram (k_unfold Y k))) as [D Vm].
  destruct (nth_error ranks k) as [rk|]; [|reflexivity].
  destruct (rk =? 0).
  - rewrite <- (gen_rank_rule c_zeroV c_addV c_leV).
    destruct (sk_last _) as [x|]; [|reflexivity].
    destruct (sk_set ranks k (x + 1)) as [ranks'|]; [|reflexivity].
    destruct (nth_error ranks' k) as [r|]; [|reflexivity].
    rewrite sk_slice_keep. destruct (sk_set fm k _) as [fm'|]; [|reflexivity].
    rewrite IH. destruct sq; reflexivity.
  - destruct (nth_error ranks k) as [r|]; [|reflexivity].
    rewrite sk_slice_keep. destruct (sk_set fm k _) as [fm'|]; [|reflexivity].
    rewrite IH. destruct sq; reflexivity.
Qed.

End Bridge.
