(* Proofs/C10Isometry.v — sequential truncation: the tensor hosvd really holds after treating mode k is the SHRUNK one,
   Z = Y x_k U^T (mode size r); the theorems of Proofs/C10Concrete.v / C10Rayleigh.v speak about the PROJECTED one,
   Z x_k U = Y x_k (U U^T) (mode size I_k, an array of the original shape).  For U with orthonormal columns the two have the same
   Gram matrix in every other mode m <> k (mode-k multiplication by an isometry):
       gram_spec (Z x_k U) m = gram_spec Z m                                    (every commutative ring)
   so the eigenpairs LAPACK computes for the shrunk tensor are eigenpairs for the projected one (eigen_eq_shrunk). *)
From Coq Require Import List Arith Lia Bool Ring.
From PV Require Import Base.Index Base.Sum Np.Array Model.Sparse Model.Repr Model.C10Tucker Model.C14Nvecs
                       Proofs.C14Sums Proofs.C14Split Proofs.C14GramSp Proofs.C10Ttm Proofs.C10Proj Proofs.C10Recon.
Import ListNotations.

Lemma nth_insert_at_other m k x y (i : list nat) : m <> k -> k <= length i ->
  nth m (insert_at k x i) 0 = nth m (insert_at k y i) 0.
Proof.
  intros Hne Hk. rewrite <- (set_nth_insert k i x y Hk).
  assert (Hl : k < length (insert_at k y i)) by (rewrite length_insert_at; lia).
  rewrite nth_set_nth by exact Hl. destruct (Nat.eqb_spec m k); [contradiction|reflexivity].
Qed.

Lemma remove_set_nth_same n (s : list nat) r : n < length s -> remove_nth n (set_nth n r s) = remove_nth n s.
Proof.
  intros H. rewrite (set_nth_as_insert n s r H). apply remove_insert. rewrite remove_nth_length by exact H. lia.
Qed.

Section Iso.
Variable V : Type.
Variables (v0 v1 : V) (vadd vmul vsub : V -> V -> V) (vopp : V -> V).
Hypothesis Vring : ring_theory v0 v1 vadd vmul vsub vopp (@eq V).
Add Ring Vr10i : Vring.
Notation SO := (sum_over v0 vadd).
Notation SN := (sum_n v0 vadd).
Notation den := (den_dense v0).
Notation mg := (mget v0).
Notation ttm := (ttm v0 vadd vmul).
Notation gspec := (gram_spec v0 vadd vmul).
Local Notation "x * y" := (vmul x y).
Local Notation "x + y" := (vadd x y).

(* Gram entry as a sum over ALL subscripts with an indicator on mode m *)
Definition gram_ind (s : shape) (X : idx -> V) (m a b : nat) : V :=
  SO (allsubs s) (fun j => if Nat.eqb (nth m j 0) a then X j * X (set_nth m b j) else v0).

Lemma gram_spec_ind s (X : idx -> V) m a b : m < length s -> a < nth m s 0 -> gspec s X m a b = gram_ind s X m a b.
Proof.
  intros Hm Ha. unfold gram_spec, gram_ind.
  rewrite <- (sum_allsubs_fix V v0 v1 vadd vmul vsub vopp Vring s m a (fun j => X j * X (set_nth m b j)) Hm Ha).
  apply sum_over_ext. intros i Hi. apply in_allsubs, inb_length in Hi. rewrite remove_nth_length in Hi by exact Hm.
  rewrite set_nth_insert by lia. reflexivity.
Qed.

(* sum_x (sum_p U[x,p] z_p) (sum_q U[x,q] w_q) = sum_p z_p w_p  for U with orthonormal columns *)
Lemma iso_dot I r (U : @matrix V) (z w : nat -> V) : orthocols V v0 v1 vadd vmul I r U ->
  SN I (fun x => SN r (fun p => mg U x p * z p) * SN r (fun q => mg U x q * w q)) = SN r (fun p => z p * w p).
Proof.
  intros Ho.
  transitivity (SN I (fun x => SN r (fun p => SN r (fun q => (mg U x p * z p) * (mg U x q * w q))))).
  { apply sum_n_ext. intros x _. apply (sum_n_mul_sum V v0 v1 vadd vmul vsub vopp Vring). }
  rewrite (sum_n_swap V v0 v1 vadd vmul vsub vopp Vring). apply sum_n_ext. intros p Hp.
  rewrite (sum_n_swap V v0 v1 vadd vmul vsub vopp Vring).
  transitivity (SN r (fun q => (z p * w q) * (if Nat.eqb p q then v1 else v0))).
  { apply sum_n_ext. intros q Hq. rewrite <- (Ho p q Hp Hq).
    rewrite <- (sum_n_scale_l V v0 v1 vadd vmul vsub vopp Vring). apply sum_n_ext. intros x _. ring. }
  apply (sum_n_delta V v0 v1 vadd vmul vsub vopp Vring r p (fun q => z p * w q)). exact Hp.
Qed.

Lemma sum_n_if (c : bool) n (f : nat -> V) : SN n (fun x => if c then f x else v0) = if c then SN n f else v0.
Proof. destruct c; [reflexivity|]. apply (sum_over_zero V v0 v1 vadd vmul vsub vopp Vring). reflexivity. Qed.

(* Z of shape sZ, U : I x r with r = the size of mode k of Z and orthonormal columns: Z x_k U has the Gram matrices of Z in the modes m <> k *)
Theorem gram_isometry (Z : dense V) (k m I : nat) (U : @matrix V) (a b : nat) :
  let sZ := dshape Z in
  k < length sZ -> m < length sZ -> m <> k -> nrows U = I ->
  orthocols V v0 v1 vadd vmul I (nth k sZ 0) U ->
  a < nth m sZ 0 -> b < nth m sZ 0 ->
  gspec (set_nth k I sZ) (den (ttm Z k U)) m a b = gspec sZ (den Z) m a b.
Proof.
  intros sZ Hk Hm Hne HU Ho Ha Hb. set (r := nth k sZ 0) in *. set (s := set_nth k I sZ).
  assert (Ls : length s = length sZ) by (unfold s; now apply length_set_nth).
  assert (Hms : nth m s 0 = nth m sZ 0).
  { unfold s. rewrite nth_set_nth by exact Hk. destruct (Nat.eqb_spec m k); [contradiction|reflexivity]. }
  assert (Hks : nth k s 0 = I) by (unfold s; now apply nth_set_nth_same).
  assert (Hrest : remove_nth k s = remove_nth k sZ) by (unfold s; now apply remove_set_nth_same).
  rewrite gram_spec_ind by (rewrite ?Ls, ?Hms; auto). rewrite (gram_spec_ind sZ) by auto.
  unfold gram_ind.
  rewrite (sum_allsubs_split V v0 v1 vadd vmul vsub vopp Vring s k _ ltac:(lia)).
  rewrite (sum_allsubs_split V v0 v1 vadd vmul vsub vopp Vring sZ k _ Hk).
  rewrite Hks, Hrest. fold r. set (rest := remove_nth k sZ).
  unfold sum_n at 1. rewrite (sum_over_swap V v0 v1 vadd vmul vsub vopp Vring).
  unfold sum_n at 1. rewrite (sum_over_swap V v0 v1 vadd vmul vsub vopp Vring (seq 0 r) (allsubs rest)).
  apply sum_over_ext. intros i Hi. apply in_allsubs in Hi. pose proof (inb_length _ _ Hi) as L.
  unfold rest in L. rewrite remove_nth_length in L by exact Hk.
  fold (sum_n v0 vadd I (fun x => if Nat.eqb (nth m (insert_at k x i) 0) a
          then den (ttm Z k U) (insert_at k x i) * den (ttm Z k U) (set_nth m b (insert_at k x i)) else v0)).
  fold (sum_n v0 vadd r (fun p => if Nat.eqb (nth m (insert_at k p i) 0) a
          then den Z (insert_at k p i) * den Z (set_nth m b (insert_at k p i)) else v0)).
  set (c := Nat.eqb (nth m (insert_at k 0 i) 0) a).
  transitivity (SN I (fun x => if c then SN r (fun p => mg U x p * den Z (insert_at k p i)) *
                                         SN r (fun q => mg U x q * den Z (set_nth m b (insert_at k q i))) else v0)).
  { apply sum_n_ext. intros x Hx. unfold c. rewrite (nth_insert_at_other m k x 0 i Hne) by lia.
    destruct (Nat.eqb (nth m (insert_at k 0 i) 0) a); [|reflexivity].
    assert (Hin : inb s (insert_at k x i) = true).
    { apply inb_insert; [lia|now rewrite Hks|now rewrite Hrest]. }
    assert (Lx : length (insert_at k x i) = length sZ) by (rewrite length_insert_at; lia).
    assert (Hin2 : inb s (set_nth m b (insert_at k x i)) = true).
    { apply inb_set_nth; [lia|exact Hin|now rewrite Hms]. }
    f_equal.
    - rewrite (den_ttm V v0 vadd vmul) by (rewrite HU; exact Hin). unfold ttm_den. fold sZ. fold r.
      apply sum_n_ext. intros p Hp. rewrite nth_insert_at by lia. rewrite set_nth_insert by lia. reflexivity.
    - rewrite (den_ttm V v0 vadd vmul) by (rewrite HU; exact Hin2). unfold ttm_den. fold sZ. fold r.
      apply sum_n_ext. intros q Hq.
      rewrite (nth_set_nth m (insert_at k x i) b k) by lia. destruct (Nat.eqb_spec k m) as [E|_]; [lia|].
      rewrite nth_insert_at by lia.
      rewrite (set_nth_comm k m q b (insert_at k x i)) by lia. rewrite set_nth_insert by lia. reflexivity. }
  rewrite sum_n_if.
  transitivity (if c then SN r (fun p => den Z (insert_at k p i) * den Z (set_nth m b (insert_at k p i))) else v0).
  { destruct c; [|reflexivity]. now apply iso_dot. }
  rewrite <- sum_n_if. apply sum_n_ext. intros p Hp. unfold c. now rewrite (nth_insert_at_other m k p 0 i Hne) by lia.
Qed.

(* one sequential shrink of hosvd: the SHRUNK tensor Y x_k U^T (what hosvd holds, mode size r) and the PROJECTED tensor Y x_k (U U^T)
   (what the theorems of C10Concrete speak about, original shape) have the same Gram matrix in every other mode *)
Theorem gram_shrunk_is_projected (Y : dense V) (k m r : nat) (U : @matrix V) (a b : nat) :
  let s := dshape Y in
  k < length s -> m < length s -> m <> k -> nrows U = nth k s 0 ->
  orthocols V v0 v1 vadd vmul (nth k s 0) r U ->
  a < nth m s 0 -> b < nth m s 0 ->
  gspec s (den (mproj V v0 vadd vmul s k (uut V v0 vadd vmul (nth k s 0) r U) Y)) m a b =
  gspec (set_nth k r s) (den (ttm Y k (mtrans v0 U (nth k s 0) r))) m a b.
Proof.
  intros s Hk Hm Hne HU Ho Ha Hb. subst s.
  rewrite <- (ttm_ttm_uut V v0 v1 vadd vmul vsub vopp Vring Y k r U Hk HU).
  set (s := dshape Y) in *. set (I := nth k s 0) in *.
  set (Z := ttm Y k (mtrans v0 U I r)).
  assert (Hr : nrows (mtrans v0 U I r) = r) by (unfold nrows, mtrans; now rewrite map_length, seq_length).
  assert (HZ : dshape Z = set_nth k r s) by (unfold Z; rewrite (dshape_ttm V v0 vadd vmul); fold s; now rewrite Hr).
  assert (Hkr : nth k (set_nth k r s) 0 = r) by (now apply nth_set_nth_same).
  assert (Hmr : nth m (set_nth k r s) 0 = nth m s 0).
  { rewrite nth_set_nth by exact Hk. destruct (Nat.eqb_spec m k); [contradiction|reflexivity]. }
  pose proof (gram_isometry Z k m I U a b) as G. cbv zeta in G. rewrite HZ in G.
  rewrite length_set_nth, Hkr, Hmr in G by exact Hk.
  rewrite set_nth_set_nth in G by exact Hk.
  replace (set_nth k I s) with s in G by (symmetry; apply set_nth_self; exact Hk).
  apply G; auto.
Qed.
End Iso.
