(* Wave 7: hand reference for sptenmat.__init__ (pyttb/sptenmat.py): argument checks, summation of duplicates, dropping of zeros,
   stored fields, over the representation of Np/NpZ7b.v.  Proofs/W7Sptenmat.v proves Gen.sptenmat_init = H_sptenmat_init. *)
From Coq Require Import List ZArith Bool.
From PV Require Import Np.NpZ Np.NpZ2 Np.NpZ3 Np.NpZ7 Np.NpZ7b Gen.GenUtils Gen.GenUtils2 Model.W7Tenmat.
Import ListNotations.
Local Open Scope Z_scope.

Definition H_stm_empty : stmz := mk_stmz [[]] [] [] [] [].

(* every index of column k lies below the product of the sizes of the modes mapped to that side (no test without entries) *)
Definition H_side_ok (subs : mat) (tshape dims : vec) (k : Z) : bool :=
  (np_size2 subs =? 0) ||
  (np_take_ok tshape dims && np7_col_ok subs k && (0 <? zlen (np7_col subs k)) &&
   (zprod (np_take 0 tshape dims) >? np7_max (np7_col subs k))).

(* no values: nothing is stored; copy: distinct rows in sorted order with the values of equal rows added up *)
Definition H_dedup (copy : bool) (subs : mat) (vals : vec) : res (mat * vec) :=
  if zlen vals =? 0 then Ok ([], [])
  else if copy then
    if np7_rect subs then
      let '(u, loc) := np7_unique_rows_inv subs in
      if np7_accum_ok loc vals (zlen u) then Ok (u, np7_accum_sum loc vals (zlen u)) else Err
    else Err
  else Ok (subs, vals).

Definition H_dropzeros (s : mat) (v : vec) : res (mat * vec) :=
  let nz := np7_nonzero v in
  if np_take_ok s nz && np_take_ok v nz then Ok (np_take [] s nz, np_take 0 v nz) else Err.

Definition H_sptenmat_init (subs : option mat) (vals rdims cdims : option vec) (tshape : vec) (copy : bool) : res stmz :=
  if negb (is_some rdims) && negb (is_some cdims) then
    if negb (is_some subs) && negb (is_some vals) then Ok H_stm_empty else Err
  else
    let s := match subs with None => [[]] | Some s => s end in
    let v := match vals with None => [] | Some v => v end in
    bind (gather_wrap_dims (zlen tshape) rdims cdims None) (fun '(r, c) =>
    if negb (H_dims_perm (zlen tshape) r c) then Err else
    if negb (H_side_ok s tshape r 0) then Err else
    if negb (H_side_ok s tshape c 1) then Err else
    bind (H_dedup copy s v) (fun '(s1, v1) =>
    if copy then bind (H_dropzeros s1 v1) (fun '(s2, v2) => Ok (mk_stmz s2 v2 r c tshape))
    else Ok (mk_stmz s1 v1 r c tshape))).
