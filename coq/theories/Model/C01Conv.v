(* Model/C01Conv.v — executable transliterations of the remaining conversions of C01:
   tensor.to_tenmat / tenmat.to_tensor, sptensor.to_sptenmat / sptenmat.to_sptensor / sptenmat.full,
   gather_wrap_dims, khatrirao, ktensor.full, ttensor.full, sumtensor.full.
   Source anchors: pyttb/tensor.py (to_tenmat), pyttb/tenmat.py, pyttb/sptensor.py (to_sptenmat, spmatrix),
   pyttb/sptenmat.py, pyttb/pyttb_utils.py (gather_wrap_dims), pyttb/khatrirao.py, pyttb/ktensor.py (full),
   pyttb/ttensor.py (full), pyttb/sumtensor.py (full).   Definitions only; proofs in Proofs/C01Proofs.v. *)
From Coq Require Import List Arith Lia Bool.
From PV Require Import Base.Index Base.Perm Base.Sum Np.Array Model.Sparse Model.Repr Model.C07Ops.
Import ListNotations.

(* ---------------------------------------------------------------- gather_wrap_dims *)
Inductive cyc := CycT | CycFC | CycBC.

Definition setdiff_modes (N : nat) (d : list nat) : list nat :=
  filter (fun k => negb (existsb (Nat.eqb k) d)) (seq 0 N).

(* range(a, b) and range(a, b, -1) of Python *)
Definition range_up (a b : nat) : list nat := seq a (b - a).
Definition range_down_excl (a b : nat) : list nat := rev (seq (S b) (a - b)).    (* a, a-1, ..., b+1 *)

(* (rdims, cdims) as the code derives them; None = the request is rejected *)
Definition gather_wrap_dims (N : nat) (rd cd : option (list nat)) (cy : option cyc) : option (list nat * list nat) :=
  match rd, cd with
  | Some r, None =>
      match r, cy with
      | [m], Some CycT => Some (setdiff_modes N [m], [m])
      | [m], Some CycFC => Some ([m], range_up (S m) N ++ range_up 0 m)
      | [m], Some CycBC => Some ([m], rev (seq 0 m) ++ range_down_excl (N - 1) m)
      | _, _ => Some (r, setdiff_modes N r)
      end
  | None, Some c => Some (setdiff_modes N c, c)
  | Some r, Some c => Some (r, c)
  | None, None => None
  end.

Section Conv.
Context {V : Type} (v0 v1 : V) (vadd vmul : V -> V -> V) (isz : V -> bool).

(* ---------------------------------------------------------------- tenmat *)
Record tenmat := mkTM { tm_data : dense V; tm_r : list nat; tm_c : list nat; tm_tshape : shape }.

(* tensor.to_tenmat after gather_wrap_dims: dims = rdims ++ cdims must be a permutation;
   data = reshape(permute(dims).data, (prod shape[rdims], prod shape[cdims]), order F) *)
Definition to_tenmat (T : dense V) (r c : list nat) : option tenmat :=
  let s := dshape T in
  if is_permb (r ++ c) (length s) then
    match permute_d v0 T (r ++ c) with
    | Some X => Some (mkTM (np_reshapeF v0 X [size (pick 0 r s); size (pick 0 c s)]) r c s)
    | None => None
    end
  else None.

Definition to_tenmat_req (T : dense V) (rd cd : option (list nat)) (cy : option cyc) : option tenmat :=
  match gather_wrap_dims (length (dshape T)) rd cd cy with
  | Some (r, c) => to_tenmat T r c
  | None => None
  end.

(* the matrix entry that holds tensor entry i *)
Definition tm_pos (s : shape) (r c : list nat) (i : idx) : idx :=
  [sub2ind (pick 0 r s) (pick 0 r i); sub2ind (pick 0 c s) (pick 0 c i)].
Definition den_tenmat (M : tenmat) (i : idx) : V :=
  den_dense v0 (tm_data M) (tm_pos (tm_tshape M) (tm_r M) (tm_c M) i).

(* tenmat.to_tensor: reshape to shape[order] (F), un-permute by argsort(order) when order has more than one entry *)
Definition tenmat_to_tensor (M : tenmat) : dense V :=
  let p := tm_r M ++ tm_c M in
  let X := np_reshapeF v0 (tm_data M) (pick 0 p (tm_tshape M)) in
  if 1 <? length p then mkDense (tm_tshape M) (ddata (np_transpose v0 X (invperm p)))
  else mkDense (tm_tshape M) (ddata X).

(* ---------------------------------------------------------------- sptenmat *)
Record sptenmat := mkSTM { stm_subs : list idx; stm_vals : list V; stm_r : list nat; stm_c : list nat; stm_tshape : shape }.

Definition stm_shape (M : sptenmat) : shape :=
  [size (pick 0 (stm_r M) (stm_tshape M)); size (pick 0 (stm_c M) (stm_tshape M))].
(* the 2-way coordinate list behind a sptenmat *)
Definition stm_sp (M : sptenmat) : sparse V := mkSp (stm_shape M) (stm_subs M) (stm_vals M).

(* sptensor.to_sptenmat (stored order of the triples is not modelled: the constructor sorts them) *)
Definition to_sptenmat (S : sparse V) (r c : list nat) : option sptenmat :=
  let s := sshape S in
  if is_permb (r ++ c) (length s)
  then Some (mkSTM (map (tm_pos s r c) (ssubs S)) (svals S) r c s)
  else None.

Definition to_sptenmat_req (S : sparse V) (rd cd : option (list nat)) (cy : option cyc) : option sptenmat :=
  match gather_wrap_dims (length (sshape S)) rd cd cy with
  | Some (r, c) => to_sptenmat S r c
  | None => None
  end.

Definition den_sptenmat (M : sptenmat) (i : idx) : V :=
  den_sp v0 (stm_sp M) (tm_pos (stm_tshape M) (stm_r M) (stm_c M) i).

(* sptenmat.to_sptensor: subs[:, rdims] = ind2sub(row), subs[:, cdims] = ind2sub(col) *)
Definition stm_row_to_sub (M : sptenmat) (rc : idx) : idx :=
  let s := stm_tshape M in
  pick 0 (invperm (stm_r M ++ stm_c M))
       (ind2sub (pick 0 (stm_r M) s) (nth 0 rc 0) ++ ind2sub (pick 0 (stm_c M) s) (nth 1 rc 0)).
Definition sptenmat_to_sptensor (M : sptenmat) : sparse V :=
  mkSp (stm_tshape M) (map (stm_row_to_sub M) (stm_subs M)) (stm_vals M).

(* sptenmat.full: zeros(shape) then scatter *)
Definition sptenmat_full (M : sptenmat) : tenmat :=
  mkTM (full v0 (stm_sp M)) (stm_r M) (stm_c M) (stm_tshape M).

(* ---------------------------------------------------------------- Khatri-Rao (khatrirao.py) *)
Definition vmul2 (x y : list V) : list V := map (fun ab => vmul (fst ab) (snd ab)) (combine x y).

(* one step of the loop: P <- reshape(M,(-1,1,R)) * reshape(P,(1,-1,R),F), read back with F-order rows:
   new row (a + |M| * b) = M[a] .* P[b] *)
Definition kr2 (P M : matrix (V:=V)) : matrix (V:=V) := flat_map (fun prow => map (fun mrow => vmul2 mrow prow) M) P.

Definition khatrirao (Ms : list (matrix (V:=V))) : option (matrix (V:=V)) :=
  match Ms with
  | [] => None
  | M :: rest => Some (fold_left kr2 rest M)
  end.
Definition khatrirao_rev (Ms : list (matrix (V:=V))) : option (matrix (V:=V)) := khatrirao (rev Ms).

(* ---------------------------------------------------------------- ktensor.full *)
Definition dotv (x y : list V) : V := sumv v0 vadd (vmul2 x y).
(* (A * w) @ B.T *)
Definition scale_cols (A : matrix (V:=V)) (w : list V) : matrix (V:=V) := map (fun row => vmul2 row w) A.
Definition matmul_t (A B : matrix (V:=V)) : matrix (V:=V) := map (fun ra => map (fun rb => dotv ra rb) B) A.

(* min_split_dims: argmin over i in 1..N-1 of prod(dims[:i]) + prod(dims[i:]) (first minimum), None for N = 1 *)
Fixpoint argmin_from (l : list nat) (k best bestk : nat) : nat :=
  match l with
  | [] => bestk
  | x :: l' => if x <? best then argmin_from l' (S k) x k else argmin_from l' (S k) best bestk
  end.
Definition min_split_dims (s : shape) : option nat :=
  match map (fun i => size (firstn i s) + size (skipn i s)) (seq 1 (length s - 1)) with
  | [] => None
  | x :: l => Some (S (argmin_from l 1 x 0))
  end.

(* the algorithm for a given split point *)
Definition ktensor_full_at (K : ktensor V) (isplit : nat) : option (dense V) :=
  match khatrirao_rev (firstn isplit (kfactors K)), khatrirao_rev (skipn isplit (kfactors K)) with
  | Some L, Some Rm =>
      let M := matmul_t (scale_cols L (kweights K)) Rm in
      Some (np_reshapeF v0 (matrix_to_dense v0 M (length L) (length Rm)) (kshape K))
  | _, _ => None
  end.
(* ktensor.full as the code is: `if self.ndims == 1: tensor(factor_matrices[0] @ weights, shape)` (no split point exists for
   a single mode), otherwise the split chosen by min_split_dims *)
Definition ktensor_full_1way (K : ktensor V) (A : matrix (V:=V)) : dense V :=
  mkDense (kshape K) (map (fun row => dotv row (kweights K)) A).
Definition ktensor_full_impl (K : ktensor V) : option (dense V) :=
  match kfactors K with
  | [A] => Some (ktensor_full_1way K A)
  | _ => match min_split_dims (kshape K) with
         | Some i => ktensor_full_at K i
         | None => None
         end
  end.
(* what the property demands for every Kruskal tensor *)
Definition ktensor_full_spec (K : ktensor V) : dense V := tabulate (kshape K) (den_k v0 v1 vadd vmul K).

(* ---------------------------------------------------------------- ttensor.full: core.ttm(factors) mode by mode *)
Fixpoint set_nth (i : idx) (n x : nat) : idx :=
  match i, n with
  | [], _ => []
  | _ :: i', O => x :: i'
  | y :: i', S n' => y :: set_nth i' n' x
  end.
(* mode-n product with a matrix U (I_n x J_n): Y[i] = sum_j U[i_n, j] * X[i with n := j] *)
Definition ttm_mode (X : dense V) (U : matrix (V:=V)) (n : nat) : dense V :=
  let s := dshape X in
  tabulate (set_nth s n (nrows U))
    (fun i => sum_n v0 vadd (nth n s 0) (fun j => vmul (mget v0 U (nth n i 0) j) (den_dense v0 X (set_nth i n j)))).
Fixpoint ttm_all (X : dense V) (Us : list (matrix (V:=V))) (n : nat) : dense V :=
  match Us with
  | [] => X
  | U :: Us' => ttm_all (ttm_mode X U n) Us' (S n)
  end.
Definition ttensor_full (T : ttensor V) : dense V := ttm_all (tcore T) (tfactors T) 0.

(* ---------------------------------------------------------------- sumtensor.full *)
Inductive part := PD (T : dense V) | PS (Sp : sparse V) | PK (K : ktensor V) | PT (T : ttensor V).
Definition part_den (p : part) : idx -> V :=
  match p with
  | PD T => den_dense v0 T
  | PS Sp => den_sp v0 Sp
  | PK K => den_k v0 v1 vadd vmul K
  | PT T => den_t v0 v1 vadd vmul T
  end.
Definition part_shape (p : part) : shape :=
  match p with PD T => dshape T | PS Sp => sshape Sp | PK K => kshape K | PT T => tshape T end.
Definition part_full (p : part) : dense V :=
  match p with
  | PD T => T
  | PS Sp => full v0 Sp
  | PK K => ktensor_full_spec K
  | PT T => ttensor_full T
  end.
Definition add_dense (A B : dense V) : dense V :=
  mkDense (dshape A) (map (fun ab => vadd (fst ab) (snd ab)) (combine (ddata A) (ddata B))).
(* result = parts[0].full(); for part in parts[1:]: result += part *)
Definition sum_full (parts : list part) : option (dense V) :=
  match parts with
  | [] => None
  | p :: rest => Some (fold_left (fun acc q => add_dense acc (part_full q)) rest (part_full p))
  end.

End Conv.

Arguments tenmat V : clear implicits.
Arguments sptenmat V : clear implicits.
Arguments part V : clear implicits.
Arguments mkTM {V} tm_data tm_r tm_c tm_tshape.
Arguments mkSTM {V} stm_subs stm_vals stm_r stm_c stm_tshape.
Arguments PD {V} T. Arguments PS {V} Sp. Arguments PK {V} K. Arguments PT {V} T.
