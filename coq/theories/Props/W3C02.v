(* Props/W3C02.v — preparation of the factor matrices for MTTKRP (property C02), stated over get_mttkrp_factors of
   Gen/GenUtils3.v as regenerated from /repo/pyttb/pyttb_utils.py at run time.  Only statements, `exact`, Print Assumptions. *)
From Coq Require Import List ZArith Bool.
From PV Require Import Np.NpZ Np.NpZ2 Np.NpZ3 Gen.GenUtils3 Model.W3Utils Proofs.W3Bridge Proofs.W3Laws.
Import ListNotations.
Local Open Scope Z_scope.

Theorem C02_gen_mttkrp_factors_bridge : forall U n ndims, get_mttkrp_factors U n ndims = H_mttkrp_factors U n ndims.
Proof. exact get_mttkrp_factors_bridge. Qed.
Print Assumptions C02_gen_mttkrp_factors_bridge.

(* a well-formed ktensor argument (every factor has a row, every row one entry per weight): the weights go into factor 1
   when n = 0 and into factor 0 otherwise — never into the skipped factor n; every other factor, in particular factor n, is
   returned unchanged *)
Theorem C02_gen_mttkrp_factors_absorb : forall (k : ktz) (n : Z),
  (forall F, In F (kt_factors k) -> F <> [] /\ forall row, In row F -> zlen row = zlen (kt_weights k)) ->
  2 <= zlen (kt_factors k) -> 0 <= n < zlen (kt_factors k) ->
  exists fs, get_mttkrp_factors (UKt k) n (zlen (kt_factors k)) = Ok fs /\ zlen fs = zlen (kt_factors k) /\
    znth [] fs (absorb_mode n) = scale_cols (kt_weights k) (znth [] (kt_factors k) (absorb_mode n)) /\
    (forall m, 0 <= m < zlen (kt_factors k) -> m <> absorb_mode n -> znth [] fs m = znth [] (kt_factors k) m) /\
    znth [] fs n = znth [] (kt_factors k) n.
Proof. exact mttkrp_factors_kt. Qed.
Print Assumptions C02_gen_mttkrp_factors_absorb.

Theorem C02_gen_mttkrp_factors_absorb_not_n : forall n, absorb_mode n <> n.
Proof. exact absorb_mode_neq. Qed.
Print Assumptions C02_gen_mttkrp_factors_absorb_not_n.

Example C02_gen_mttkrp_factors_example :
  get_mttkrp_factors (UKt (mkkt [2; 3] [[[1; 1]; [2; 0]]; [[1; 2]]; [[5; 7]; [0; 1]]])) 0 3
    = Ok [[[1; 1]; [2; 0]]; [[2; 6]]; [[5; 7]; [0; 1]]] /\
  get_mttkrp_factors (UKt (mkkt [2; 3] [[[1; 1]; [2; 0]]; [[1; 2]]; [[5; 7]; [0; 1]]])) 2 3
    = Ok [[[2; 3]; [4; 0]]; [[1; 2]]; [[5; 7]; [0; 1]]].
Proof. split; reflexivity. Qed.

(* a list of matrices is returned as it is when all factors other than the skipped one have one common column count ... *)
Theorem C02_gen_mttkrp_factors_seq : forall (l : list mat) (n c : Z),
  0 <= n < zlen l -> (forall i, 0 <= i < zlen l -> i <> n -> np_ncols (znth [] l i) = c) ->
  get_mttkrp_factors (USeq l) n (zlen l) = Ok l.
Proof. exact mttkrp_factors_seq. Qed.
Print Assumptions C02_gen_mttkrp_factors_seq.

(* ... and rejected when two of them differ (repaired defect: the first R columns were used / a single column was broadcast) *)
Theorem C02_gen_mttkrp_factors_rejects_columns : forall (l : list mat) (n i j : Z),
  0 <= i < zlen l -> 0 <= j < zlen l -> i <> n -> j <> n -> np_ncols (znth [] l i) <> np_ncols (znth [] l j) ->
  get_mttkrp_factors (USeq l) n (zlen l) = Err.
Proof. exact mttkrp_factors_rejects_columns. Qed.
Print Assumptions C02_gen_mttkrp_factors_rejects_columns.

Example C02_gen_mttkrp_factors_columns_example :
  get_mttkrp_factors (USeq [[[1; 2]]; [[3; 4; 5]]; [[6; 7]]]) 1 3 = Ok [[[1; 2]]; [[3; 4; 5]]; [[6; 7]]] /\
  get_mttkrp_factors (USeq [[[1; 2]]; [[3; 4; 5]]; [[6; 7]]]) 0 3 = Err.
Proof. split; reflexivity. Qed.

Theorem C02_gen_mttkrp_factors_rejects : forall (U : kt_or_seq) (n ndims : Z),
  ~ (0 <= n < ndims) \/ zlen (match U with UKt k => kt_factors k | USeq l => l end) <> ndims ->
  get_mttkrp_factors U n ndims = Err.
Proof. exact mttkrp_factors_rejects. Qed.
Print Assumptions C02_gen_mttkrp_factors_rejects.

Theorem C02_gen_mttkrp_factors_one_mode : forall (w : vec) (f : mat), get_mttkrp_factors (UKt (mkkt w [f])) 0 1 = Err.
Proof. exact mttkrp_factors_one_mode. Qed.
Print Assumptions C02_gen_mttkrp_factors_one_mode.
