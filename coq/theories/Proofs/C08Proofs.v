(* Proofs/C08Proofs.v — Kruskal re-parameterisations preserve the denoted array (all shapes, ranks, values of an
   arbitrary commutative ring with a partial inverse; the norm / root / comparison oracles are arbitrary functions
   subject only to the hypotheses stated next to each lemma). *)
From Coq Require Import List Arith Lia Bool Permutation Ring.
From PV Require Import Base.Index Base.Perm Base.Sum Np.Array Model.Sparse Model.Repr Model.C08Kruskal.
Import ListNotations.

Section P8.
Variable V : Type.
Variables (v0 v1 : V) (vadd vmul vsub : V -> V -> V) (vopp vinv : V -> V).
Hypothesis Vring : ring_theory v0 v1 vadd vmul vsub vopp (@eq V).
Add Ring Vr8 : Vring.

Notation "x + y" := (vadd x y).
Notation "x * y" := (vmul x y).
Notation den := (den_k v0 v1 vadd vmul).
Notation kp := (kprod v0 v1 vmul).
Notation mg := (mget v0).
Notation mat := (list (list V)).
Notation zipm := (zipmul vmul).
Notation scols := (scale_cols vmul).
Notation m1 := (vm1 v1 vopp).
Notation sumn := (sum_n v0 vadd).
Notation sumo := (sum_over v0 vadd).

Definition comp (K : ktensor V) (i : idx) (r : nat) : V := nth r (kweights K) v0 * kp (kfactors K) i r.

Lemma den_unfold K i : den K i = if inb (kshape K) i then sumn (krank K) (comp K i) else v0.
Proof. reflexivity. Qed.

(* ------------------------------------------------------------------------------------------------ *)
(* generic list facts                                                                               *)
(* ------------------------------------------------------------------------------------------------ *)
Lemma nth_zipmul a b r : nth r (zipm a b) v0 = nth r a v0 * nth r b v0.
Proof.
  revert b r; induction a as [|x a IH]; intros b r.
  - cbn. destruct r; ring.
  - destruct b as [|y b]; cbn [zipmul].
    + destruct r; cbn; ring.
    + destruct r; cbn [nth]; auto.
Qed.

Lemma length_zipmul a b : length (zipm a b) = Nat.min (length a) (length b).
Proof. revert b; induction a as [|x a IH]; intros [|y b]; cbn; auto. Qed.

Lemma nth_map_seq {A} (f : nat -> A) d n r : r < n -> nth r (map f (seq 0 n)) d = f r.
Proof.
  intros H. rewrite (nth_indep _ d (f 0)) by (now rewrite map_length, seq_length).
  rewrite map_nth. now rewrite seq_nth.
Qed.

Lemma map_nth_seq {A} (l : list A) d : map (fun k => nth k l d) (seq 0 (length l)) = l.
Proof.
  apply (nth_ext _ _ d d); [now rewrite map_length, seq_length|].
  intros k Hk. rewrite map_length, seq_length in Hk. now rewrite nth_map_seq.
Qed.

Lemma mget_scale_cols cs (A : mat) x r : mg (scols cs A) x r = mg A x r * nth r cs v0.
Proof.
  unfold mget, scale_cols.
  change (@nil V) with ((fun row => zipm row cs) []) at 1. rewrite map_nth. apply nth_zipmul.
Qed.

Lemma nrows_scale_cols cs (A : mat) : nrows (scols cs A) = nrows A.
Proof. unfold nrows, scale_cols. apply map_length. Qed.

Lemma length_upd_nth {A} n (f : A -> A) l : length (upd_nth n f l) = length l.
Proof. revert n; induction l as [|x l IH]; intros [|n]; cbn; auto. Qed.

Lemma map_upd_nth {A B} (g : A -> B) n (f : A -> A) l : (forall a, g (f a) = g a) -> map g (upd_nth n f l) = map g l.
Proof. intros H. revert n; induction l as [|x l IH]; intros [|n]; cbn; auto; now f_equal. Qed.

Lemma col_zero_mget (A : mat) r x : Forall (fun y => y = v0) (col v0 A r) -> mg A x r = v0.
Proof.
  intros H. unfold mget. destruct (Nat.lt_ge_cases x (length A)) as [Hx|Hx].
  - rewrite Forall_forall in H. apply H. unfold col.
    apply in_map_iff. exists (nth x A []). split; auto. now apply nth_In.
  - rewrite (nth_overflow A) by lia. now destruct r.
Qed.

(* ------------------------------------------------------------------------------------------------ *)
(* products over the factor list                                                                    *)
(* ------------------------------------------------------------------------------------------------ *)
Lemma kprod_upd_nth n f c (As : list mat) i r :
  (forall x, mg (f (nth n As [])) x r = mg (nth n As []) x r * c) ->
  n < length As -> length i = length As ->
  kp (upd_nth n f As) i r = kp As i r * c.
Proof.
  revert n i; induction As as [|A As IH]; intros n i Hf Hn Hi; cbn in Hn; [lia|].
  destruct i as [|x i]; cbn in Hi; [lia|].
  destruct n as [|n]; cbn [upd_nth kprod].
  - specialize (Hf x). cbn [nth] in Hf. rewrite Hf. ring.
  - rewrite IH; auto; try lia. ring.
Qed.

Lemma kprod_zero n (As : list mat) i r :
  n < length As -> length i = length As -> mg (nth n As []) (nth n i 0) r = v0 -> kp As i r = v0.
Proof.
  revert n i; induction As as [|A As IH]; intros n i Hn Hi Hz; cbn in Hn; [lia|].
  destruct i as [|x i]; cbn in Hi; [lia|].
  destruct n as [|n]; cbn [kprod].
  - cbn [nth] in Hz. rewrite Hz. ring.
  - rewrite (IH n); auto; try lia. ring.
Qed.

Lemma kprod_map_scale cs (As : list mat) i r : length i = length As ->
  kp (map (scols cs) As) i r = kp As i r * vpow v1 vmul (nth r cs v0) (length As).
Proof.
  revert i; induction As as [|A As IH]; intros i Hi.
  - cbn. ring.
  - destruct i as [|x i]; cbn in Hi; [lia|]. cbn [map kprod length vpow].
    rewrite mget_scale_cols, IH by lia. ring.
Qed.

(* ------------------------------------------------------------------------------------------------ *)
(* component-wise equality implies equal denotation                                                 *)
(* ------------------------------------------------------------------------------------------------ *)
Lemma den_k_ext K' K : kshape K' = kshape K -> krank K' = krank K ->
  (forall i r, inb (kshape K) i = true -> r < krank K -> comp K' i r = comp K i r) ->
  forall i, den K' i = den K i.
Proof.
  intros Hs Hr Hc i. rewrite !den_unfold, Hs, Hr. destruct (inb (kshape K) i) eqn:E; auto.
  apply sum_n_ext. intros; apply Hc; auto.
Qed.

Lemma inb_kshape_length (K : ktensor V) i : inb (kshape K) i = true -> length i = length (kfactors K).
Proof. intros H. apply inb_length in H. unfold kshape in H. now rewrite map_length in H. Qed.

Lemma kshape_upd_scale n cs As : map (@nrows V) (upd_nth n (scols cs) As) = map (@nrows V) As.
Proof. apply map_upd_nth. intros A. apply nrows_scale_cols. Qed.

(* ------------------------------------------------------------------------------------------------ *)
(* redistribute                                                                                     *)
(* ------------------------------------------------------------------------------------------------ *)
Lemma nth_ones {A} (l : list A) r : r < length l -> nth r (ones v1 l) v0 = v1.
Proof. revert r; induction l as [|a l IH]; intros r H; cbn in *; [lia|]. destruct r; auto. apply IH. lia. Qed.


(* ------------------------------------------------------------------------------------------------ *)
(* redistribute                                                                                     *)
(* ------------------------------------------------------------------------------------------------ *)
Lemma den_redistribute n K : n < length (kfactors K) -> forall i, den (k_redistribute v1 vmul n K) i = den K i.
Proof.
  intros Hn. apply den_k_ext.
  - unfold kshape, k_redistribute. cbn. apply kshape_upd_scale.
  - unfold krank, k_redistribute; cbn. unfold ones. apply map_length.
  - intros i r Hi Hr. unfold comp, k_redistribute. cbn [kweights kfactors].
    rewrite nth_ones by exact Hr. rewrite (kprod_upd_nth n _ (nth r (kweights K) v0)).
    + ring.
    + intros x. apply mget_scale_cols.
    + auto.
    + now apply inb_kshape_length.
Qed.

Lemma redistribute_weights n (K : ktensor V) : kweights (k_redistribute v1 vmul n K) = map (fun _ => v1) (kweights K).
Proof. reflexivity. Qed.

(* ------------------------------------------------------------------------------------------------ *)
(* normalize(mode=n) and the column-normalisation loop: ANY oracle that is positive on non-zero columns *)
(* ------------------------------------------------------------------------------------------------ *)
Section Norm.
Variables (nrm : list V -> V) (pos neg : V -> bool) (root : V -> V) (leb : V -> V -> bool).
Hypothesis vinv_r : forall x, x <> v0 -> x * vinv x = v1.
Hypothesis pos_nz : forall x, pos x = true -> x <> v0.
Hypothesis nrm_pos : forall l, pos (nrm l) = false -> Forall (fun y => y = v0) l.

Notation nmode := (k_normalize_mode v0 v1 vmul vinv nrm pos).
Notation ncols := (k_normalize_cols v0 v1 vmul vinv nrm pos).

Lemma kshape_normalize_mode n K : kshape (nmode n K) = kshape K.
Proof. unfold kshape, k_normalize_mode. cbn. apply kshape_upd_scale. Qed.

Lemma krank_normalize_mode n K : krank (nmode n K) = krank K.
Proof.
  unfold krank, k_normalize_mode. cbn. rewrite length_zipmul. unfold col_norms.
  rewrite map_length, seq_length. fold (krank K). lia.
Qed.

Lemma nfactors_normalize_mode n K : length (kfactors (nmode n K)) = length (kfactors K).
Proof. unfold k_normalize_mode. cbn. apply length_upd_nth. Qed.

Lemma den_normalize_mode n K : n < length (kfactors K) -> forall i, den (nmode n K) i = den K i.
Proof.
  intros Hn. apply den_k_ext; [apply kshape_normalize_mode|apply krank_normalize_mode|].
  intros i r Hi Hr. pose proof (inb_kshape_length K i Hi) as HL.
  unfold comp, k_normalize_mode. cbn [kweights kfactors].
  set (A := nth n (kfactors K) []). set (t := col_norms v0 nrm A (krank K)).
  rewrite nth_zipmul.
  rewrite (kprod_upd_nth n _ (nth r (map (inv_pos v1 vinv pos) t) v0)); auto.
  2: intros x; apply mget_scale_cols.
  assert (Et : nth r t v0 = nrm (col v0 A r)) by (unfold t, col_norms; now rewrite nth_map_seq).
  assert (Ec : nth r (map (inv_pos v1 vinv pos) t) v0 = inv_pos v1 vinv pos (nrm (col v0 A r))).
  { unfold t, col_norms. rewrite map_map. now rewrite nth_map_seq. }
  rewrite Et, Ec. unfold inv_pos. destruct (pos (nrm (col v0 A r))) eqn:Ep.
  - pose proof (vinv_r _ (pos_nz _ Ep)) as Hinv.
    transitivity (nth r (kweights K) v0 * kp (kfactors K) i r * (nrm (col v0 A r) * vinv (nrm (col v0 A r)))); [ring|].
    rewrite Hinv. ring.
  - rewrite (kprod_zero n (kfactors K) i r); auto; [ring|].
    apply col_zero_mget. fold A. now apply nrm_pos.
Qed.

Lemma normalize_cols_aux l K : (forall n, In n l -> n < length (kfactors K)) ->
  let K' := fold_left (fun K n => nmode n K) l K in
  kshape K' = kshape K /\ krank K' = krank K /\ length (kfactors K') = length (kfactors K) /\ forall i, den K' i = den K i.
Proof.
  revert K; induction l as [|n l IH]; intros K Hl; cbn [fold_left]; auto.
  assert (Hl' : forall m, In m l -> m < length (kfactors (nmode n K))).
  { intros m Hm. rewrite nfactors_normalize_mode. apply Hl. now right. }
  destruct (IH (nmode n K) Hl') as (H1 & H2 & H3 & H4).
  cbn zeta in *. rewrite H1, H2, H3, kshape_normalize_mode, krank_normalize_mode, nfactors_normalize_mode.
  repeat split; auto. intros i. rewrite H4. apply den_normalize_mode. apply Hl. now left.
Qed.

Lemma normalize_cols_props K :
  kshape (ncols K) = kshape K /\ krank (ncols K) = krank K /\ length (kfactors (ncols K)) = length (kfactors K) /\
  forall i, den (ncols K) i = den K i.
Proof. apply normalize_cols_aux. intros n Hn. apply in_seq in Hn. lia. Qed.

End Norm.


(* ------------------------------------------------------------------------------------------------ *)
(* argsort is a permutation, for ANY comparison function                                            *)
(* ------------------------------------------------------------------------------------------------ *)
Section ArgsortPerm.
Variable leb : V -> V -> bool.
Lemma ins_perm p l : Permutation (ins leb p l) (p :: l).
Proof.
  induction l as [|q l IH]; cbn; auto. destruct (leb (fst p) (fst q)); auto.
  eapply perm_trans; [apply perm_skip, IH|apply perm_swap].
Qed.
Lemma isort_perm l : Permutation (isort leb l) l.
Proof. induction l as [|p l IH]; cbn; auto. eapply perm_trans; [apply ins_perm|now apply perm_skip]. Qed.
Lemma map_snd_combine {A B} (a : list A) (b : list B) : length a = length b -> map snd (combine a b) = b.
Proof. revert b; induction a as [|x a IH]; intros [|y b] H; cbn in *; try lia; auto. f_equal. apply IH. lia. Qed.
Lemma argsort_perm l : is_perm (argsort leb l) (length l).
Proof.
  unfold is_perm, argsort. eapply perm_trans; [apply Permutation_map, isort_perm|].
  unfold tagged. rewrite map_snd_combine by (now rewrite seq_length). apply Permutation_refl.
Qed.
Lemma argsort_desc_perm l : is_perm (argsort_desc leb l) (length l).
Proof. unfold is_perm, argsort_desc. eapply perm_trans; [symmetry; apply Permutation_rev|apply argsort_perm]. Qed.
End ArgsortPerm.

(* ------------------------------------------------------------------------------------------------ *)
(* gather of components: arrange(permutation), extract                                              *)
(* ------------------------------------------------------------------------------------------------ *)
Lemma mget_gather p (A : mat) x r : r < length p -> mg (map (pick v0 p) A) x r = mg A x (nth r p 0).
Proof.
  intros Hr. unfold mget. destruct (Nat.lt_ge_cases x (length A)) as [Hx|Hx].
  - rewrite (nth_indep _ [] (pick v0 p [])) by (now rewrite map_length). rewrite map_nth.
    now apply nth_pick.
  - rewrite (nth_overflow (map _ A)) by (rewrite map_length; lia). rewrite (nth_overflow A) by lia.
    destruct r; destruct (nth _ p 0); reflexivity.
Qed.

Lemma kprod_gather p (As : list mat) i r : r < length p ->
  kp (map (map (pick v0 p)) As) i r = kp As i (nth r p 0).
Proof.
  intros Hr. revert i; induction As as [|A As IH]; intros i; cbn [map kprod]; auto.
  destruct i as [|x i]; auto. now rewrite mget_gather, IH.
Qed.

Lemma kshape_gather p (K : ktensor V) : kshape (k_gather v0 p K) = kshape K.
Proof.
  unfold kshape, k_gather. cbn. rewrite map_map. apply map_ext. intros A. unfold nrows. apply map_length.
Qed.

Lemma krank_gather p (K : ktensor V) : krank (k_gather v0 p K) = length p.
Proof. unfold krank, k_gather. cbn. apply pick_length. Qed.

Lemma sum_n_nth p (F : nat -> V) : sumn (length p) (fun r => F (nth r p 0)) = sumo p F.
Proof. unfold sum_n. rewrite <- (sum_over_map V v0 vadd (fun r => nth r p 0)). now rewrite map_nth_seq. Qed.

(* the documented meaning of extract: the sum of the selected components (in the order given, repetitions included) *)
Lemma den_gather p K i :
  den (k_gather v0 p K) i = if inb (kshape K) i then sumo p (comp K i) else v0.
Proof.
  rewrite den_unfold, kshape_gather, krank_gather. destruct (inb (kshape K) i); auto.
  rewrite <- sum_n_nth. apply sum_n_ext. intros r Hr. unfold comp, k_gather. cbn [kweights kfactors].
  rewrite nth_pick by auto. now rewrite kprod_gather.
Qed.

Lemma den_gather_perm p K : is_perm p (krank K) -> forall i, den (k_gather v0 p K) i = den K i.
Proof.
  intros Hp i. rewrite den_gather, den_unfold. destruct (inb (kshape K) i); auto.
  unfold sum_n. apply (sum_over_perm V v0 v1 vadd vmul vsub vopp Vring). exact Hp.
Qed.

(* ------------------------------------------------------------------------------------------------ *)
(* negation, scalar multiple, sum, difference                                                       *)
(* ------------------------------------------------------------------------------------------------ *)
Lemma nth_map_default {A B} (f : A -> B) l r d d' : f d = d' -> nth r (map f l) d' = f (nth r l d).
Proof. intros <-. apply map_nth. Qed.

Lemma den_scale c K i : den (k_scale vmul c K) i = c * den K i.
Proof.
  rewrite !den_unfold. unfold k_scale, kshape, krank. cbn [kweights kfactors]. rewrite map_length.
  destruct (inb _ i); [|ring]. unfold sum_n.
  rewrite <- (sum_over_scale_l V v0 v1 vadd vmul vsub vopp Vring). apply sum_over_ext. intros r _.
  unfold comp. cbn [kweights kfactors]. rewrite (nth_map_default (vmul c) _ r v0 v0) by ring. ring.
Qed.

Lemma den_neg K i : den (k_neg vopp K) i = vopp (den K i).
Proof.
  rewrite !den_unfold. unfold k_neg, kshape, krank. cbn [kweights kfactors]. rewrite map_length.
  destruct (inb _ i); [|ring]. unfold sum_n.
  transitivity (vopp v1 * sumo (seq 0 (length (kweights K))) (comp K i)); [|ring].
  rewrite <- (sum_over_scale_l V v0 v1 vadd vmul vsub vopp Vring). apply sum_over_ext. intros r _.
  unfold comp. cbn [kweights kfactors]. rewrite (nth_map_default vopp _ r v0 v0) by ring. ring.
Qed.

Lemma mget_zip_rows R (A B : mat) x r : Forall (fun row => length row = R) A -> length A = length B ->
  mg (zip_rows A B) x r = if r <? R then mg A x r else mg B x (r - R).
Proof.
  revert B x; induction A as [|a A IH]; intros [|b B] x HA HL; cbn in HL; try lia.
  - unfold mget. cbn [zip_rows].
    assert (E : forall k, nth k (nth x (@nil (list V)) []) v0 = v0) by (intros k; destruct x, k; reflexivity).
    rewrite !E. now destruct (r <? R).
  - inversion HA as [|? ? Ha HA']; subst. destruct x as [|x].
    + unfold mget. cbn [zip_rows nth]. destruct (Nat.ltb_spec r (length a)).
      * now apply app_nth1.
      * now apply app_nth2.
    + unfold mget in *. cbn [zip_rows nth]. apply IH; auto.
Qed.

Lemma kprod_zip R (As Bs : list mat) i r :
  Forall (fun A => Forall (fun row => length row = R) A) As -> map (@nrows V) As = map (@nrows V) Bs ->
  kp (zip_factors As Bs) i r = if r <? R then kp As i r else kp Bs i (r - R).
Proof.
  revert Bs i; induction As as [|A As IH]; intros [|B Bs] i HA HS; cbn in HS; try discriminate.
  - destruct (r <? R); reflexivity.
  - inversion HA as [|? ? Ha HA']; subst. injection HS as HS1 HS2. cbn [zip_factors kprod].
    destruct i as [|x i]; [destruct (r <? R); reflexivity|].
    rewrite (mget_zip_rows R), IH; auto. now destruct (r <? R).
Qed.

Lemma kshape_zip (As Bs : list mat) : map (@nrows V) As = map (@nrows V) Bs ->
  map (@nrows V) (zip_factors As Bs) = map (@nrows V) As.
Proof.
  revert Bs; induction As as [|A As IH]; intros [|B Bs] HS; cbn in HS; try discriminate; auto.
  injection HS as HS1 HS2. cbn [zip_factors map]. f_equal; auto.
  unfold nrows in *. clear -HS1. revert B HS1; induction A as [|a A IH]; intros [|b B] H; cbn in *; try lia; auto.
Qed.

Lemma sum_n_add a b F : sumn (a + b)%nat F = sumn a F + sumn b (fun r => F (a + r)%nat).
Proof.
  unfold sum_n at 1. rewrite seq_app, (sum_over_app V v0 v1 vadd vmul vsub vopp Vring). f_equal.
  cbn [Nat.add]. apply (sum_over_seq_shift V v0 vadd).
Qed.

Lemma den_addlike (w2 : list V) K L i : wf_k K -> kshape K = kshape L -> length w2 = krank L ->
  den (mkK (kweights K ++ w2) (zip_factors (kfactors K) (kfactors L))) i = den K i + den (mkK w2 (kfactors L)) i.
Proof.
  intros W HS HL. rewrite !den_unfold. unfold kshape, krank in *. cbn [kweights kfactors].
  rewrite kshape_zip by exact HS. rewrite <- HS.
  destruct (inb _ i); [|ring]. rewrite app_length, sum_n_add. f_equal.
  - apply sum_n_ext. intros r Hr. unfold comp. cbn [kweights kfactors].
    rewrite app_nth1 by exact Hr. rewrite (kprod_zip (length (kweights K))); auto.
    apply Nat.ltb_lt in Hr. now rewrite Hr.
  - apply sum_n_ext. intros r Hr. unfold comp. cbn [kweights kfactors].
    rewrite app_nth2 by lia. rewrite (kprod_zip (length (kweights K))); auto.
    replace (length (kweights K) + r - length (kweights K)) with r by lia.
    destruct (Nat.ltb_spec (length (kweights K) + r) (length (kweights K))); [lia|reflexivity].
Qed.

Lemma den_add K L i : wf_k K -> kshape K = kshape L -> den (k_add K L) i = den K i + den L i.
Proof. intros W HS. unfold k_add. rewrite den_addlike by auto. destruct L; reflexivity. Qed.

Lemma den_sub K L i : wf_k K -> kshape K = kshape L -> den (k_sub vopp K L) i = vsub (den K i) (den L i).
Proof.
  intros W HS. unfold k_sub. rewrite den_addlike; auto.
  2: unfold krank; apply map_length.
  change (mkK (map vopp (kweights L)) (kfactors L)) with (k_neg vopp L). rewrite den_neg. ring.
Qed.


(* ------------------------------------------------------------------------------------------------ *)
(* full normalize / arrange: sign fix, absorption (one mode or 'all'), sort                          *)
(* ------------------------------------------------------------------------------------------------ *)
Section Norm2.
Variables (nrm : list V -> V) (pos neg : V -> bool) (root : V -> V) (srt : list V -> list nat).
Hypothesis vinv_r : forall x, x <> v0 -> x * vinv x = v1.
Hypothesis pos_nz : forall x, pos x = true -> x <> v0.
Hypothesis nrm_pos : forall l, pos (nrm l) = false -> Forall (fun y => y = v0) l.
Hypothesis srt_perm : forall l, is_perm (srt l) (length l).

Notation ncols := (k_normalize_cols v0 v1 vmul vinv nrm pos).
Notation fixneg := (k_fix_neg v1 vmul vopp neg).
Notation absorb := (k_absorb v1 vmul root).
Notation ksort := (k_sort v0 srt).
Notation normalize := (k_normalize v0 v1 vmul vopp vinv nrm pos neg root srt).
Notation arrange := (k_arrange v0 v1 vmul vopp vinv nrm pos neg root srt).

Lemma nth_map_in {A} (f : A -> V) (l : list A) r d : r < length l -> nth r (map f l) v0 = f (nth r l d).
Proof. intros H. rewrite (nth_indep _ v0 (f d)) by (now rewrite map_length). apply map_nth. Qed.

Lemma sgn_neg_sq w : sgn_neg v1 vopp neg w * sgn_neg v1 vopp neg w = v1.
Proof. unfold sgn_neg, vm1. destruct (neg w); ring. Qed.

Lemma fix_neg_props K :
  kshape (fixneg K) = kshape K /\ krank (fixneg K) = krank K /\ length (kfactors (fixneg K)) = length (kfactors K) /\
  forall i, den (fixneg K) i = den K i.
Proof.
  unfold k_fix_neg. destruct (kfactors K) as [|A0 As] eqn:E; [rewrite E; auto|].
  assert (Hs : kshape (mkK (zipm (kweights K) (map (sgn_neg v1 vopp neg) (kweights K)))
                           (scols (map (sgn_neg v1 vopp neg) (kweights K)) A0 :: As)) = kshape K).
  { unfold kshape. cbn [kfactors]. rewrite E. cbn [map]. now rewrite nrows_scale_cols. }
  assert (Hr : krank (mkK (zipm (kweights K) (map (sgn_neg v1 vopp neg) (kweights K)))
                           (scols (map (sgn_neg v1 vopp neg) (kweights K)) A0 :: As)) = krank K).
  { unfold krank. cbn [kweights]. rewrite length_zipmul, map_length. lia. }
  repeat split; auto.
  apply den_k_ext; auto.
  intros i r Hi Hr'. pose proof (inb_kshape_length K i Hi) as HL. rewrite E in HL.
  unfold comp. cbn [kweights kfactors]. rewrite E.
  change (scols (map (sgn_neg v1 vopp neg) (kweights K)) A0 :: As)
    with (upd_nth 0 (scols (map (sgn_neg v1 vopp neg) (kweights K))) (A0 :: As)).
  rewrite (kprod_upd_nth 0 _ (nth r (map (sgn_neg v1 vopp neg) (kweights K)) v0)); auto.
  2: intros x; apply mget_scale_cols. 2: cbn; lia.
  rewrite nth_zipmul. rewrite (nth_map_in _ _ r v0) by exact Hr'.
  transitivity (nth r (kweights K) v0 * kp (A0 :: As) i r *
                (sgn_neg v1 vopp neg (nth r (kweights K) v0) * sgn_neg v1 vopp neg (nth r (kweights K) v0))); [ring|].
  rewrite sgn_neg_sq. ring.
Qed.

Lemma fix_neg_weight K r : kfactors K <> [] -> r < krank K ->
  nth r (kweights (fixneg K)) v0 = nth r (kweights K) v0 * sgn_neg v1 vopp neg (nth r (kweights K) v0).
Proof.
  intros Hne Hr. unfold k_fix_neg. destruct (kfactors K) as [|A0 As]; [congruence|]. cbn [kweights].
  rewrite nth_zipmul. now rewrite (nth_map_in _ _ r v0).
Qed.

Lemma den_absorb_all K :
  (forall r, r < krank K -> vpow v1 vmul (root (nth r (kweights K) v0)) (length (kfactors K)) = nth r (kweights K) v0) ->
  forall i, den (absorb WAll K) i = den K i.
Proof.
  intros Hroot. apply den_k_ext.
  - unfold kshape. cbn. rewrite map_map. apply map_ext. intros A. apply nrows_scale_cols.
  - unfold krank. cbn. unfold ones. apply map_length.
  - intros i r Hi Hr. unfold comp. cbn [k_absorb kweights kfactors].
    rewrite nth_ones by exact Hr. rewrite kprod_map_scale by (now apply inb_kshape_length).
    rewrite (nth_map_in _ _ r v0) by exact Hr. rewrite Hroot by exact Hr. ring.
Qed.

Lemma den_absorb_mode n K : forall i, den (absorb (WMode n) K) i = den K i.
Proof.
  intros i. cbn [k_absorb]. destruct (Nat.ltb_spec n (length (kfactors K))); auto. now apply den_redistribute.
Qed.

Lemma den_sort K : forall i, den (ksort K) i = den K i.
Proof.
  intros i. unfold k_sort. destruct (1 <? krank K); auto. apply den_gather_perm. apply srt_perm.
Qed.

Definition neg_opp_spec : Prop := forall x, neg x = true -> neg (vopp x) = false.

(* the weights after the sign step are not negative (whatever the norm oracle returned) *)
Lemma fix_neg_nonneg K r : neg_opp_spec -> kfactors K <> [] -> r < krank K -> neg (nth r (kweights (fixneg K)) v0) = false.
Proof.
  intros neg_opp Hne Hr. rewrite fix_neg_weight by auto. unfold sgn_neg, vm1. destruct (neg (nth r (kweights K) v0)) eqn:E.
  - replace (nth r (kweights K) v0 * vopp v1) with (vopp (nth r (kweights K) v0)) by ring. now apply neg_opp.
  - replace (nth r (kweights K) v0 * v1) with (nth r (kweights K) v0) by ring. exact E.
Qed.

(* root oracle: an N-th root on the non-negative values *)
Definition root_spec (N : nat) : Prop := forall x, neg x = false -> vpow v1 vmul (root x) N = x.

Lemma den_normalize wf sort K : (wf = WAll -> kfactors K <> [] /\ root_spec (length (kfactors K)) /\ neg_opp_spec) ->
  forall i, den (normalize wf sort None K) i = den K i.
Proof.
  intros Hroot i. cbn [k_normalize].
  destruct (normalize_cols_props nrm pos vinv_r pos_nz nrm_pos K) as (S1 & R1 & L1 & D1).
  destruct (fix_neg_props (ncols K)) as (S2 & R2 & L2 & D2).
  assert (D3 : forall j, den (absorb wf (fixneg (ncols K))) j = den K j).
  { intros j. rewrite <- D1, <- D2. destruct wf as [|n|]; [reflexivity|apply den_absorb_mode|].
    destruct (Hroot eq_refl) as (Hne & Hrt & Hno).
    apply den_absorb_all. intros r Hr. rewrite L2, L1. apply Hrt.
    apply fix_neg_nonneg; [exact Hno| |now rewrite <- R2].
    intros E. apply Hne. apply length_zero_iff_nil. rewrite <- L1, E. reflexivity. }
  destruct sort; [rewrite den_sort|]; apply D3.
Qed.


Lemma normalize_none_props K :
  length (kfactors (normalize WNone false None K)) = length (kfactors K).
Proof.
  cbn [k_normalize k_absorb].
  destruct (normalize_cols_props nrm pos vinv_r pos_nz nrm_pos K) as (S1 & R1 & L1 & D1).
  destruct (fix_neg_props (ncols K)) as (S2 & R2 & L2 & D2). congruence.
Qed.

Lemma den_arrange wf K : (forall n, wf = Some n -> n < length (kfactors K)) ->
  forall i, den (arrange wf K) i = den K i.
Proof.
  intros Hwf i. unfold k_arrange.
  set (K1 := normalize WNone false None K).
  assert (D1 : forall j, den K1 j = den K j) by (intros j; apply den_normalize; discriminate).
  assert (D2 : forall j, den (k_gather v0 (srt (kweights K1)) K1) j = den K j).
  { intros j. rewrite <- D1. apply den_gather_perm. apply srt_perm. }
  destruct wf as [n|]; [|apply D2].
  rewrite den_redistribute; [apply D2|].
  unfold k_gather. cbn [kfactors]. rewrite map_length. unfold K1. rewrite normalize_none_props. now apply Hwf.
Qed.

Lemma den_normalize_any wf sort mode K :
  (forall n, mode = Some n -> n < length (kfactors K)) ->
  (mode = None -> wf = WAll -> kfactors K <> [] /\ root_spec (length (kfactors K)) /\ neg_opp_spec) ->
  forall i, den (normalize wf sort mode K) i = den K i.
Proof.
  intros Hm Hr. destruct mode as [n|].
  - cbn [k_normalize]. apply (den_normalize_mode nrm pos vinv_r pos_nz nrm_pos). now apply Hm.
  - apply den_normalize. now apply Hr.
Qed.

End Norm2.


(* ------------------------------------------------------------------------------------------------ *)
(* sign flips: fixsigns() and fixsigns(other)                                                        *)
(* ------------------------------------------------------------------------------------------------ *)
Fixpoint sgnpow (k : nat) : V := match k with 0 => v1 | S k' => m1 * sgnpow k' end.

Lemma sgnpow_even k : Nat.even k = true -> sgnpow k = v1.
Proof.
  induction k as [k IH] using lt_wf_ind. destruct k as [|[|k]]; intros H; cbn in H; try discriminate; auto.
  cbn [sgnpow]. rewrite IH by (auto; lia). unfold vm1. ring.
Qed.

Notation flipf := (flip_factors v1 vmul vopp).

Lemma kprod_flip fl R n (As : list mat) i r : r < R -> length i = length As ->
  kp (flipf fl R n As) i r = kp As i r * sgnpow (length (filter (fun m => fl m r) (seq n (length As)))).
Proof.
  intros Hr. revert n i; induction As as [|A As IH]; intros n i Hi.
  - cbn. ring.
  - destruct i as [|x i]; cbn in Hi; [lia|]. cbn [flip_factors kprod length seq filter].
    rewrite mget_scale_cols, IH by lia. rewrite nth_map_seq by exact Hr.
    destruct (fl n r); cbn [length sgnpow]; ring.
Qed.

Lemma kshape_flip fl R n (As : list mat) : map (@nrows V) (flipf fl R n As) = map (@nrows V) As.
Proof. revert n; induction As as [|A As IH]; intros n; cbn; auto. now rewrite nrows_scale_cols, IH. Qed.

Definition flips_of (fl : nat -> nat -> bool) (N r : nat) : list nat := filter (fun m => fl m r) (seq 0 N).

Lemma den_flip fl K :
  (forall r, r < krank K -> Nat.even (length (flips_of fl (length (kfactors K)) r)) = true) ->
  forall i, den (k_flip v1 vmul vopp fl K) i = den K i.
Proof.
  intros Hev. apply den_k_ext.
  - unfold kshape, k_flip. cbn. apply kshape_flip.
  - reflexivity.
  - intros i r Hi Hr. unfold comp, k_flip. cbn [kweights kfactors].
    rewrite kprod_flip; auto; [|now apply inb_kshape_length].
    rewrite sgnpow_even by (apply (Hev r Hr)). ring.
Qed.

Lemma memb_In n l : memb n l = true <-> In n l.
Proof.
  unfold memb. rewrite existsb_exists. split.
  - intros (x & Hx & E). apply Nat.eqb_eq in E. now subst.
  - intros H. exists n. split; auto. apply Nat.eqb_refl.
Qed.

Lemma count_memb l N : NoDup l -> (forall x, In x l -> x < N) ->
  length (filter (fun m => memb m l) (seq 0 N)) = length l.
Proof.
  intros Hn Hb. apply Permutation_length. apply NoDup_Permutation; auto.
  - apply NoDup_filter, seq_NoDup.
  - intros x. rewrite filter_In, in_seq, memb_In. split; [tauto|]. intros H. split; auto. specialize (Hb x H). lia.
Qed.

Lemma NoDup_firstn {A} k (l : list A) : NoDup l -> NoDup (firstn k l).
Proof.
  revert k; induction l as [|a l IH]; intros [|k] H; cbn; auto using NoDup_nil.
  inversion H; subst. constructor; auto. intros Hin. apply H2. clear -Hin.
  revert k Hin; induction l as [|b l IH]; intros [|k] Hin; cbn in *; try tauto. destruct Hin; eauto.
Qed.

Lemma In_firstn {A} k (l : list A) x : In x (firstn k l) -> In x l.
Proof. revert k; induction l as [|b l IH]; intros [|k] Hin; cbn in *; try tauto. destruct Hin; eauto. Qed.

(* the flip set of a component: the first e entries of a duplicate-free list of modes *)
Lemma count_firstn e l N : NoDup l -> (forall x, In x l -> x < N) -> e <= length l ->
  length (filter (fun m => memb m (firstn e l)) (seq 0 N)) = e.
Proof.
  intros Hn Hb He. rewrite count_memb.
  - rewrite firstn_length. lia.
  - now apply NoDup_firstn.
  - intros x Hx. apply Hb. eapply In_firstn; eauto.
Qed.

Section FixSigns.
Variable negcol : list V -> bool.
Notation fixsigns := (k_fixsigns v0 v1 vmul vopp negcol).

Lemma where_true_props l : NoDup (where_true l) /\ forall x, In x (where_true l) -> x < length l.
Proof.
  unfold where_true. split; [apply NoDup_filter, seq_NoDup|].
  intros x Hx. apply filter_In in Hx as [Hx _]. apply in_seq in Hx. lia.
Qed.

Lemma even_double k : Nat.even (2 * k) = true.
Proof. rewrite Nat.even_mul. reflexivity. Qed.

(* SIGN PARITY: fixsigns() negates an even number of factors in every component *)
Lemma fixsigns_parity K r :
  Nat.even (length (flips_of (fun n r => memb n (fs_modes v0 negcol K r)) (length (kfactors K)) r)) = true.
Proof.
  unfold flips_of. cbv beta. unfold fs_modes. set (l := where_true (map (fun A => negcol (col v0 A r)) (kfactors K))).
  destruct (where_true_props (map (fun A => negcol (col v0 A r)) (kfactors K))) as [Hn Hb]. fold l in Hn, Hb.
  rewrite map_length in Hb.
  rewrite (count_firstn (2 * (length l / 2)) l); auto.
  - apply even_double.
  - pose proof (Nat.mul_div_le (length l) 2). lia.
Qed.

Lemma den_fixsigns K : forall i, den (fixsigns K) i = den K i.
Proof. apply den_flip. intros r _. apply fixsigns_parity. Qed.
End FixSigns.

Section FixOther.
Variables (neg : V -> bool) (leb : V -> V -> bool).
Notation core := (k_fixsigns_other_core v0 v1 vadd vmul vopp neg leb).
Notation endpt := (fso_endpt v0 vopp neg leb).

Lemma endpt_props s : Nat.even (endpt s) = true /\ endpt s <= length s.
Proof.
  unfold fso_endpt. set (c := length (filter neg s)).
  assert (Hc : c <= length s).
  { unfold c. clear. induction s as [|x s IH]; cbn; auto. destruct (neg x); cbn; lia. }
  destruct (Nat.even c) eqn:E; [auto|].
  assert (Hodd : Nat.odd c = true) by (rewrite <- Nat.negb_even, E; reflexivity).
  destruct ((c <? length s) && negb (leb (vopp (nth (c - 1) s v0)) (nth c s v0))) eqn:Eb.
  - apply andb_true_iff in Eb as [Hlt _]. apply Nat.ltb_lt in Hlt. split; [|lia].
    rewrite Nat.add_1_r. now rewrite Nat.even_succ.
  - destruct c as [|c']; [discriminate|]. rewrite Nat.sub_succ, Nat.sub_0_r. split; [|lia].
    rewrite Nat.odd_succ in Hodd. exact Hodd.
Qed.

(* SIGN PARITY for fixsigns(other), for every comparison and sign oracle *)
Lemma fixsigns_other_parity A B r :
  Nat.even (length (flips_of (fun n r => memb n (fso_modes v0 vadd vmul vopp neg leb A B r)) (length (kfactors A)) r)) = true.
Proof.
  unfold flips_of. cbv beta. unfold fso_modes. destruct (r <? krank B).
  - set (s := fso_scores v0 vadd vmul A B r). set (idx := argsort leb s).
    assert (Hs : length s = length (kfactors A)) by (unfold s, fso_scores; now rewrite map_length, seq_length).
    pose proof (argsort_perm leb s) as Hp. fold idx in Hp.
    destruct (endpt_props (pick v0 idx s)) as [He Hle]. rewrite pick_length in Hle.
    rewrite (count_firstn (endpt (pick v0 idx s)) idx); auto.
    + eapply is_perm_NoDup; eauto.
    + intros x Hx. rewrite <- Hs. now apply (is_perm_In idx (length s) x Hp).
  - assert (E : forall l : list nat, filter (fun m => memb m []) l = []) by (induction l; auto). now rewrite E.
Qed.

Lemma den_fixsigns_other_core A B : forall i, den (core A B) i = den A i.
Proof. apply den_flip. intros r _. apply fixsigns_other_parity. Qed.
End FixOther.


(* fixsigns(other) as a whole: normalise both operands (2-norm, no absorption), then the paired flips *)
Section FixOtherFull.
Variables (nrm : list V -> V) (pos neg : V -> bool) (root : V -> V) (srt : list V -> list nat) (leb : V -> V -> bool).
Hypothesis vinv_r : forall x, x <> v0 -> x * vinv x = v1.
Hypothesis pos_nz : forall x, pos x = true -> x <> v0.
Hypothesis nrm_pos : forall l, pos (nrm l) = false -> Forall (fun y => y = v0) l.
Hypothesis srt_perm : forall l, is_perm (srt l) (length l).
Definition k_fixsigns_other (A B : ktensor V) : ktensor V :=
  k_fixsigns_other_core v0 v1 vadd vmul vopp neg leb
    (k_normalize v0 v1 vmul vopp vinv nrm pos neg root srt WNone false None A)
    (k_normalize v0 v1 vmul vopp vinv nrm pos neg root srt WNone false None B).
Lemma den_fixsigns_other A B : forall i, den (k_fixsigns_other A B) i = den A i.
Proof.
  intros i. unfold k_fixsigns_other. rewrite den_fixsigns_other_core.
  apply (den_normalize nrm pos neg root srt vinv_r pos_nz nrm_pos srt_perm). discriminate.
Qed.
End FixOtherFull.


(* ------------------------------------------------------------------------------------------------ *)
(* vector round trip: from_vector (tovec K) = K, exactly                                            *)
(* ------------------------------------------------------------------------------------------------ *)
Lemma firstn_len_app {A} (a b : list A) : firstn (length a) (a ++ b) = a.
Proof. induction a as [|x a IH]; cbn; auto. now f_equal. Qed.
Lemma skipn_len_app {A} (a b : list A) : skipn (length a) (a ++ b) = b.
Proof. induction a as [|x a IH]; cbn; auto. Qed.

Lemma length_concat_uniform {A} m (L : list (list A)) : Forall (fun l => length l = m) L ->
  length (concat L) = (m * length L)%nat.
Proof. induction 1 as [|l L Hl _ IH]; cbn; [lia|]. rewrite app_length, IH, Hl. lia. Qed.

Lemma nth_concat_uniform {A} (d : A) m (L : list (list A)) i r : Forall (fun l => length l = m) L ->
  i < m -> r < length L -> nth (i + m * r) (concat L) d = nth i (nth r L []) d.
Proof.
  intros HL Hi. revert r; induction HL as [|l L Hl _ IH]; intros r Hr; cbn in Hr; [lia|].
  destruct r as [|r]; cbn [concat nth].
  - rewrite Nat.mul_0_r, Nat.add_0_r. apply app_nth1. lia.
  - rewrite app_nth2 by lia. rewrite Hl. replace (i + m * S r - m)%nat with (i + m * r)%nat by lia. apply IH. lia.
Qed.

Lemma cols_uniform (A : mat) R : Forall (fun l => length l = length A) (cols v0 A R).
Proof. unfold cols. apply Forall_forall. intros l Hl. apply in_map_iff in Hl as (r & <- & _). unfold col. apply map_length. Qed.

Lemma length_vec_factor R (A : mat) : length (vec_factor v0 R A) = (length A * R)%nat.
Proof.
  unfold vec_factor. rewrite (length_concat_uniform (length A)) by apply cols_uniform.
  unfold cols. now rewrite map_length, seq_length.
Qed.

Lemma unvec_vec_factor R (A : mat) : Forall (fun row => length row = R) A ->
  unvec_factor v0 (length A) R (vec_factor v0 R A) = A.
Proof.
  intros W. unfold unvec_factor.
  transitivity (map (fun i => nth i A []) (seq 0 (length A))); [|apply map_nth_seq].
  apply map_ext_in. intros i Hi. apply in_seq in Hi.
  assert (HR : length (nth i A []) = R).
  { rewrite Forall_forall in W. apply W. apply nth_In. lia. }
  transitivity (map (fun r => nth r (nth i A []) v0) (seq 0 R)); [|rewrite <- HR; apply map_nth_seq].
  apply map_ext_in. intros r Hr. apply in_seq in Hr.
  unfold vec_factor. rewrite (nth_concat_uniform v0 (length A)); [|apply cols_uniform|lia|unfold cols; rewrite map_length, seq_length; lia].
  unfold cols. rewrite (nth_indep _ [] (col v0 A 0)) by (rewrite map_length, seq_length; lia).
  rewrite (map_nth (col v0 A)), seq_nth by lia. cbn [Nat.add]. unfold col.
  rewrite (nth_indep _ v0 (nth r [] v0)) by (rewrite map_length; lia).
  now rewrite (map_nth (fun row => nth r row v0)).
Qed.

Lemma unvec_vec_factors R (As : list mat) rest : Forall (fun A => Forall (fun row => length row = R) A) As ->
  unvec_factors v0 (map (@nrows V) As) R (concat (map (vec_factor v0 R) As) ++ rest) = As.
Proof.
  induction 1 as [|A As HA _ IH]; cbn [map concat unvec_factors]; auto.
  rewrite <- app_assoc. unfold nrows in *.
  replace (length A * R)%nat with (length (vec_factor v0 R A)) by apply length_vec_factor.
  rewrite firstn_len_app, skipn_len_app.
  f_equal; [now apply unvec_vec_factor|exact IH].
Qed.

Lemma sum_nat_vec R (As : list mat) :
  length (concat (map (vec_factor v0 R) As)) = (R * sum_nat (map (@nrows V) As))%nat.
Proof.
  induction As as [|A As IH]; cbn [map concat sum_nat fold_right]; [cbn; lia|].
  rewrite app_length, IH, length_vec_factor. fold (sum_nat (map (@nrows V) As)). unfold nrows. lia.
Qed.

Lemma from_vector_tovec K : wf_k K -> k_from_vector v0 v1 (k_tovec v0 true K) (kshape K) true = K.
Proof.
  intros W. unfold k_from_vector, k_tovec. rewrite app_length, sum_nat_vec. fold (kshape K). fold (krank K).
  replace (krank K + krank K * sum_nat (kshape K))%nat with (krank K * (sum_nat (kshape K) + 1))%nat by lia.
  rewrite Nat.div_mul by lia. set (X := concat (map (vec_factor v0 (krank K)) (kfactors K))).
  assert (F1 : firstn (krank K) (kweights K ++ X) = kweights K) by apply firstn_len_app.
  assert (F2 : skipn (krank K) (kweights K ++ X) = X) by apply skipn_len_app.
  rewrite F1, F2. unfold X.
  pose proof (unvec_vec_factors (krank K) (kfactors K) [] W) as H. rewrite app_nil_r in H.
  unfold kshape. rewrite H. now destruct K.
Qed.

End P8.
