(* Props/C18.v — decomposition results do not depend on how the problem is presented (PARTIAL: exact-arithmetic theorems about
   the CP-ALS model of Model/C09Als.v + Model/C09Loop.v; the other algorithms are tied by metamorphic correspondence only).
   Only statements, `exact`, Print Assumptions and non-vacuity examples. *)
From Coq Require Import List Arith Bool ZArith Ring Lia QArith Qcanon.
From PV Require Import Base.Index Base.Perm Base.Sum Np.Array Model.Sparse Model.Repr Model.Harness Model.C09Als Model.C09Loop Model.C18Cmp
  Proofs.C09Identity Proofs.C09Monotone Proofs.C09Scaling Proofs.C09LoopProofs Proofs.C18Repr.
Import ListNotations.

Section C18.
Variable V : Type.
Variables (v0 v1 : V) (vadd vmul vsub : V -> V -> V) (vopp : V -> V).
Hypothesis Vring : ring_theory v0 v1 vadd vmul vsub vopp (@eq V).
Local Notation mx := (@matrix V).

(* C18_repr: the sweep reads the data only through its mttkrp function: two holders with the same mttkrp give IDENTICAL iterates
   (state, weights and saved mttkrp included) for every start, mode order, number of sweeps and all oracles *)
Theorem C18_repr : forall (mk1 mk2 : list mx -> nat -> mx) (solve : mx -> mx -> mx) (scale : nat -> mx -> list V * mx) (R : nat),
  (forall U n, mk1 U n = mk2 U n) ->
  forall k dims st,
  als_iter v0 v1 vadd vmul mk1 solve scale R k dims st = als_iter v0 v1 vadd vmul mk2 solve scale R k dims st.
Proof. exact (iter_repr V v0 v1 vadd vmul). Qed.

(* ... in particular holders (dense / sparse / Tucker / sum) that DENOTE the same array on the shape *)
Theorem C18_repr_den : forall (s : shape) (X1 X2 : idx -> V) (solve : mx -> mx -> mx) (scale : nat -> mx -> list V * mx) R k dims st,
  (forall i, inb s i = true -> X1 i = X2 i) ->
  als_iter v0 v1 vadd vmul (fun U n => mttkrp_mat v0 v1 vadd vmul s X1 U n R) solve scale R k dims st =
  als_iter v0 v1 vadd vmul (fun U n => mttkrp_mat v0 v1 vadd vmul s X2 U n R) solve scale R k dims st.
Proof. exact (iter_repr_den V v0 v1 vadd vmul). Qed.

(* C18_scale: data scaled by an invertible constant kappa (a positive constant of an ordered field), same start (or any start
   that differs by invertible column scalings), ANY two column-scaling oracles: after every k+1 sweeps the model of the scaled
   problem denotes kappa * the model of the original problem *)
Theorem C18_scale : forall (R : nat) (X1 X2 : idx -> V) (kappa kappai : V), vmul kappa kappai = v1 ->
  forall (mk1 mk2 : list mx -> nat -> mx) (solve1 solve2 : mx -> mx -> mx) (scale1 scale2 : nat -> mx -> list V * mx)
         (s : shape) (dims : list nat) (st1 st2 : als_state V) (k : nat),
  related V v0 v1 vmul R s st1 st2 ->
  (forall i, inb s i = true -> X2 i = vmul kappa (X1 i)) -> dims <> [] ->
  iter_hyps V v0 v1 vadd vmul R X1 X2 mk1 mk2 solve1 solve2 scale1 scale2 s (S k) dims st1 st2 ->
  related V v0 v1 vmul R s (als_iter v0 v1 vadd vmul mk1 solve1 scale1 R (S k) dims st1)
                              (als_iter v0 v1 vadd vmul mk2 solve2 scale2 R (S k) dims st2) /\
  den_scaled V v0 v1 vadd vmul kappa s (als_iter v0 v1 vadd vmul mk1 solve1 scale1 R (S k) dims st1)
                                     (als_iter v0 v1 vadd vmul mk2 solve2 scale2 R (S k) dims st2).
Proof. exact (iter_equiv V v0 v1 vadd vmul vsub vopp Vring). Qed.

(* ... and the fit is unchanged: (||X2-M2||/||X2||)^2 = (||X1-M1||/||X1||)^2, cross-multiplied *)
Theorem C18_scale_fit : forall (s : shape) (X1 X2 M1 M2 : idx -> V) (kappa : V),
  (forall i, inb s i = true -> X2 i = vmul kappa (X1 i)) -> (forall i, inb s i = true -> M2 i = vmul kappa (M1 i)) ->
  vmul (resid_den v0 vadd vmul vsub s X2 M2) (normsq_den v0 vadd vmul s X1)
  = vmul (resid_den v0 vadd vmul vsub s X1 M1) (normsq_den v0 vadd vmul s X2).
Proof. exact (fit_scale_invariant V v0 v1 vadd vmul vsub vopp Vring). Qed.

(* C18_relabel (denotation level): relabelling the modes of a Kruskal model by ANY permutation p relabels the array it denotes *)
Theorem C18_relabel_den : forall (K : ktensor V) (p : list nat) (i : idx),
  is_perm p (length (kfactors K)) -> length i = length (kfactors K) ->
  den_k v0 v1 vadd vmul (mkK (kweights K) (pick [] p (kfactors K))) (pick 0%nat p i) = den_k v0 v1 vadd vmul K i.
Proof. exact (denk_pick V v0 v1 vadd vmul vsub vopp Vring). Qed.

(* full algorithm-level relabelling statement — NOT proved (kept visible; tied by the relabel.cp_als correspondence pairs):
   running the sweep model on the permuted data, permuted start and consistently mapped mode order gives the permuted iterates *)
Definition C18_relabel_stmt : Prop :=
  forall (s : shape) (X : idx -> V) (p : list nat) (solve : mx -> mx -> mx) (scale : nat -> mx -> list V * mx) (R k : nat)
         (dims : list nat) (st : als_state V),
  is_perm p (length s) -> map (@nrows V) (st_U st) = s ->
  let X' := fun i' => X (pick 0%nat (invperm p) i') in
  let st' := mkAls (st_w st) (pick [] p (st_U st)) (st_P st) in
  let dims' := map (fun m => index_of m p) dims in
  let r := als_iter v0 v1 vadd vmul (fun U n => mttkrp_mat v0 v1 vadd vmul s X U n R) solve scale R k dims st in
  let r' := als_iter v0 v1 vadd vmul (fun U n => mttkrp_mat v0 v1 vadd vmul (pick 0%nat p s) X' U n R) solve scale R k dims' st' in
  st_w r' = st_w r /\ st_U r' = pick [] p (st_U r).
End C18.

(* C18_print: printing branches of cp_als (Model/C09Loop.v, transliterated branch by branch) never touch the model state:
   for any two printing intervals the returned model, the iteration count and the whole fit trace are identical ... *)
Section C18print.
Variables (St F : Type) (sweep : nat -> St -> St) (fit_mttkrp fit_innerprod : St -> F * F)
          (fchange_lt : F -> F -> F -> bool) (fit0 : F) (arrange fixsigns : St -> St).
Local Notation RUN := (cpals_run sweep fit_mttkrp fit_innerprod fchange_lt fit0 arrange fixsigns).

Theorem C18_print_state : forall tol p1 p2 s0 m dofix (r1 r2 : result St F),
  RUN tol p1 s0 m dofix = Some r1 -> RUN tol p2 s0 m dofix = Some r2 ->
  r_state r1 = r_state r2 /\ r_iters r1 = r_iters r2 /\ r_trace r1 = r_trace r2.
Proof. exact (@cpals_print_indep_state St F sweep fit_mttkrp fit_innerprod fchange_lt fit0 arrange fixsigns). Qed.

(* ... and the reported fit / residual too, provided the innerprod formula used when printing agrees with the saved-mttkrp
   formula used otherwise (A-43) — which is theorem C09_fit_identity in exact arithmetic; for maxiters = 0 (no sweep: the silent
   run evaluates the innerprod formula on the start, the printing run on the arranged start) arrange / fixsigns must not change
   what that formula sees, which is C08_invariant_arrange / C08_invariant_fixsigns *)
Theorem C18_print : forall tol p1 p2 s0 m dofix (r1 r2 : result St F),
  (forall s, fit_innerprod (cpals_finish arrange fixsigns dofix s) = fit_mttkrp s) ->
  (m = 0%nat -> fit_innerprod (cpals_finish arrange fixsigns dofix s0) = fit_innerprod s0) ->
  RUN tol p1 s0 m dofix = Some r1 -> RUN tol p2 s0 m dofix = Some r2 ->
  r_state r1 = r_state r2 /\ r_iters r1 = r_iters r2 /\ r_normres r1 = r_normres r2 /\ r_fit r1 = r_fit r2 /\ r_trace r1 = r_trace r2.
Proof. exact (@cpals_print_indep St F sweep fit_mttkrp fit_innerprod fchange_lt fit0 arrange fixsigns). Qed.

Theorem C18_print_silent : forall tol s0 m dofix (r : result St F), RUN tol 0 s0 m dofix = Some r -> r_log r = [].
Proof. exact (@cpals_log_silent St F sweep fit_mttkrp fit_innerprod fchange_lt fit0 arrange fixsigns). Qed.
End C18print.

(* the comparer used by the generated metamorphic cases accepts identical value lists *)
Theorem C18_cmp_refl : forall l : list Qc, qlists_close tol8 l l = true.
Proof. intro l. exact (qlists_close_refl tol8 l tol8_nonneg). Qed.

Print Assumptions C18_repr.
Print Assumptions C18_repr_den.
Print Assumptions C18_scale.
Print Assumptions C18_scale_fit.
Print Assumptions C18_relabel_den.
Print Assumptions C18_print_state.
Print Assumptions C18_print.
Print Assumptions C18_print_silent.
Print Assumptions C18_cmp_refl.

(* non-vacuity: a non-symmetric 2x3x2 rank-2 model over Z and the non-involutive relabelling p = [1;2;0] *)
Example C18_relabel_example :
  let K := mkK [2; -1]%Z [ [[1; 0]; [2; 1]]; [[1; 2]; [-1; 1]; [0; 3]]; [[1; 1]; [2; -1]] ]%Z in
  let p := [1; 2; 0]%nat in
  let K' := mkK (kweights K) (pick [] p (kfactors K)) in
  kshape K' = [3; 2; 2]%nat /\
  den_k 0%Z 1%Z Z.add Z.mul K [1; 2; 0]%nat = (-3)%Z /\
  den_k 0%Z 1%Z Z.add Z.mul K' (pick 0%nat p [1; 2; 0]%nat) = (-3)%Z /\
  den_k 0%Z 1%Z Z.add Z.mul K' [1; 2; 0]%nat = 0%Z.
Proof. vm_compute. repeat split; reflexivity. Qed.
