(* Proofs/C12Setup.v — the objective table of pyttb/gcp/fg_setup.py::setup (which loss / gradient handle, which lower bound,
   which data check, which extra parameter) and its consistency with T1: for every objective, every data value the
   data check lets through and every model value not below the attached lower bound, the selected gradient handle is the
   derivative of the selected loss handle (negative binomial: finding A-34, only for data = 1).
   HAND MODEL of `setup` (tie B: the correspondence calls setup for all ten objectives and compares the identity of the two
   returned handles, the bound, the parameter requirement and acceptance / rejection of dense and sparse data of every class);
   the handles themselves are the generated ones (Gen/GenHandles.v). *)
From Coq Require Import Reals Lra List ZArith Bool.
Set Warnings "-ambiguous-paths".
From Coquelicot Require Import Coquelicot.
From PV Require Import Np.NpR Gen.GenHandles Proofs.C12Handles Proofs.C12NegBinRefuted.
Import ListNotations.

Inductive objective := Gaussian | BernoulliOdds | BernoulliLogit | Poisson | PoissonLog | Rayleigh | Gamma | Huber
                     | NegativeBinomial | Beta.
Definition objectives : list objective :=
  [Gaussian; BernoulliOdds; BernoulliLogit; Poisson; PoissonLog; Rayleigh; Gamma; Huber; NegativeBinomial; Beta].

(* which data check setup applies: none, valid_binary, valid_natural, valid_nonneg *)
Inductive dcheck := AnyData | Binary | Natural | Positive.
Definition data_check (o : objective) : dcheck :=
  match o with
  | Gaussian | Huber => AnyData
  | BernoulliOdds | BernoulliLogit => Binary
  | Poisson | PoissonLog => Natural
  | Rayleigh | Gamma | NegativeBinomial | Beta => Positive
  end.
(* lower_bound: true = 0, false = -inf *)
Definition bounded_below (o : objective) : bool :=
  match o with
  | Gaussian | BernoulliLogit | PoissonLog | Huber => false
  | _ => true
  end.
(* additional_parameter required (threshold / num_trials / b) *)
Definition needs_param (o : objective) : bool :=
  match o with Huber | NegativeBinomial | Beta => true | _ => false end.

(* ---- executable data checks on values given in HALVES (value = h / 2), as run by the generated cases ---- *)
Local Open Scope Z_scope.
(* one value: dense data are checked cell by cell; of sparse data only the stored values are looked at, and valid_binary
   then demands the value 1 *)
Definition value_ok (d : dcheck) (sparse : bool) (h : Z) : bool :=
  match d with
  | AnyData => true
  | Binary => if sparse then h =? 2 else (h =? 0) || (h =? 2)
  | Natural => Z.even h
  | Positive => 0 <? h
  end.
(* setup(objective, data, additional_parameter): true = handles returned, false = ValueError *)
Definition setup_accepts (o : objective) (has_param : bool) (data : option (bool * list Z)) : bool :=
  (match data with None => true | Some (sparse, hs) => forallb (value_ok (data_check o) sparse) hs end)
  && (negb (needs_param o) || has_param).
Definition lower_bound_z (o : objective) : option Z := if bounded_below o then Some 0 else None.
Local Close Scope Z_scope.

(* ---- the same over the reals ---- *)
Local Open Scope R_scope.
Definition valid_value (d : dcheck) (x : R) : Prop :=
  match d with
  | AnyData => True
  | Binary => x = 0 \/ x = 1
  | Natural => exists k : Z, x = IZR k
  | Positive => 0 < x
  end.
Definition above_bound (o : objective) (m : R) : Prop := if bounded_below o then 0 <= m else True.
(* what the extra parameter has to satisfy for the statement (setup itself only requires it to be given) *)
Definition param_ok (o : objective) (p : R) : Prop :=
  match o with Huber => 0 < p | Beta => p <> 0 /\ p <> 1 | _ => True end.

Definition loss (o : objective) (p x m : R) : R :=
  match o with
  | Gaussian => gaussian x m | BernoulliOdds => bernoulli_odds x m | BernoulliLogit => bernoulli_logit x m
  | Poisson => poisson x m | PoissonLog => poisson_log x m | Rayleigh => rayleigh x m | Gamma => gamma_ x m
  | Huber => huber x m p | NegativeBinomial => negative_binomial x m p | Beta => beta_ x m p
  end.
Definition grad (o : objective) (p x m : R) : R :=
  match o with
  | Gaussian => gaussian_grad x m | BernoulliOdds => bernoulli_odds_grad x m | BernoulliLogit => bernoulli_logit_grad x m
  | Poisson => poisson_grad x m | PoissonLog => poisson_log_grad x m | Rayleigh => rayleigh_grad x m | Gamma => gamma_grad x m
  | Huber => huber_grad x m p | NegativeBinomial => negative_binomial_grad x m p | Beta => beta_grad x m p
  end.

(* a dense value the executable check lets through satisfies the real-valued predicate *)
Lemma value_ok_sound d h : value_ok d false h = true -> valid_value d (IZR h / 2).
Proof.
  destruct d; cbn [value_ok valid_value]; intros H; auto.
  - apply orb_true_iff in H as [H|H]; apply Z.eqb_eq in H; subst h; [left|right]; cbn; lra.
  - apply Z.even_spec in H as [k ->]. exists k. rewrite mult_IZR. cbn. lra.
  - apply Z.ltb_lt in H. apply IZR_lt in H. lra.
Qed.

(* the table is consistent with T1: on everything setup lets through, with the model value not below the bound it
   attaches, the gradient handle it returns is the derivative of the loss handle it returns — for nine objectives *)
Theorem setup_sound : forall o p x m, o <> NegativeBinomial -> param_ok o p ->
  valid_value (data_check o) x -> above_bound o m ->
  is_derive (fun m => loss o p x m) m (grad o p x m).
Proof.
  intros o p x m Hnb Hp Hx Hm. destruct o; cbn [loss grad above_bound bounded_below param_ok] in *.
  - apply gaussian_deriv.
  - now apply bernoulli_odds_deriv.
  - apply bernoulli_logit_deriv.
  - now apply poisson_deriv.
  - apply poisson_log_deriv.
  - now apply rayleigh_deriv.
  - now apply gamma_deriv.
  - now apply huber_deriv.
  - congruence.
  - destruct Hp. now apply beta_deriv.
Qed.

(* ---- A-34 setup: BEGIN block (tools/props/c12_switch_a34.py replaces it once negative_binomial_grad is repaired) ---- *)
(* negative binomial (finding A-34, open): the pair the table selects is consistent only for data = 1; the loss's true
   derivative on the whole domain is (r + x) / (1 + m) - x / (m + EPS) *)
Theorem setup_negative_binomial : forall p m, above_bound NegativeBinomial m ->
  is_derive (fun m => loss NegativeBinomial p 1 m) m (grad NegativeBinomial p 1 m) /\
  (forall x, is_derive (fun m => loss NegativeBinomial p x m) m ((p + x) / (1 + m) - x / (m + EPS))).
Proof.
  intros p m Hm. cbn in Hm. split; [now apply negative_binomial_deriv_partial|].
  intros x. now apply negative_binomial_true_deriv.
Qed.
(* ---- END A-34 setup block ---- *)

(* the whole table at a glance (objective order = the Objectives enum): lower bound 0 is attached exactly to the six
   EPS-shifted losses, no bound to the four losses that are smooth on all of R *)
Theorem setup_bounds_table :
  map bounded_below objectives = [false; true; false; true; false; true; true; false; true; true] /\
  map data_check objectives = [AnyData; Binary; Binary; Natural; Natural; Positive; Positive; AnyData; Positive; Positive] /\
  map needs_param objectives = [false; false; false; false; false; false; false; true; true; true].
Proof. repeat split; reflexivity. Qed.

(* non-vacuity: Rayleigh with data 3/2 and model value 0 (the bound itself); binary data rejected for value 1/2 *)
Example setup_example :
  is_derive (fun m => loss Rayleigh 0 (3 / 2) m) 0 (grad Rayleigh 0 (3 / 2) 0) /\
  setup_accepts BernoulliOdds false (Some (false, [0; 2; 1]%Z)) = false /\
  setup_accepts BernoulliOdds false (Some (false, [0; 2; 2]%Z)) = true /\
  setup_accepts Poisson false (Some (true, [4; 6]%Z)) = true /\
  setup_accepts Huber false None = false.
Proof.
  split; [|repeat split; reflexivity].
  apply setup_sound; cbn; try lra; try exact I. discriminate.
Qed.

(* for the generated cases *)
Definition dcheck_id (d : dcheck) : nat := match d with AnyData => 0 | Binary => 1 | Natural => 2 | Positive => 3 end.
Definition obj_of (n : nat) : objective := nth n objectives Gaussian.
