(* Props/C08h.v — C08, wave 4: the COLUMN LOOPS of ktensor.normalize and ktensor.fixsigns() as written in the source
   (Model/C08Loop2.v: state mutated column after column, the norm / sign of column r read from the CURRENT state) are the
   vectorised models the invariance and normal-form theorems of Props/C08.v are about.  Only statements, `exact`, Print Assumptions. *)
From Coq Require Import List Arith Bool ZArith QArith Qcanon Ring.
From PV Require Import Base.Index Base.Perm Base.Sum Model.Repr Model.Harness Model.C08Kruskal Model.C08Loop2 Model.C08Inst
  Model.C08Inst3 Proofs.C08Proofs Proofs.C08Loop2.
Import ListNotations.
Local Open Scope nat_scope.

Section C08h.
Variable V : Type.
Variables (v0 v1 : V) (vadd vmul vsub : V -> V -> V) (vopp vinv : V -> V).
Hypothesis Vring : ring_theory v0 v1 vadd vmul vsub vopp (@eq V).

(* normalize(mode=n): `for r in range(R): tmp = norm(A_n[:, r]); if tmp > 0: A_n[:, r] = 1.0/tmp * A_n[:, r]; weights[r] *= tmp`
   returns — weights and every stored entry — k_normalize_mode (norms of the ORIGINAL columns, one column scaling): every
   well-formed K (rows of length rank K; any modes, sizes, rank), every commutative ring, EVERY norm and positivity oracle *)
Theorem C08_normalize_mode_loop : forall (nrm : list V -> V) (pos : V -> bool) n (K : ktensor V),
  wf_k K -> n < length (kfactors K) ->
  py_normalize_mode v0 v1 vmul vinv nrm pos n K = k_normalize_mode v0 v1 vmul vinv nrm pos n K.
Proof. exact (py_normalize_mode_is_model V v0 v1 vadd vmul vsub vopp vinv Vring). Qed.

(* the first phase of normalize(): `for mode_idx in range(ndims): <the loop above>` = k_normalize_cols *)
Theorem C08_normalize_cols_loop : forall (nrm : list V -> V) (pos : V -> bool) (K : ktensor V), wf_k K ->
  py_normalize_cols v0 v1 vmul vinv nrm pos K = k_normalize_cols v0 v1 vmul vinv nrm pos K.
Proof. exact (py_normalize_cols_is_model V v0 v1 vadd vmul vsub vopp vinv Vring). Qed.

(* the whole normalize(weight_factor, sort, normtype, mode) with its loops as written = the model of C08_invariant_normalize
   and of the normal-form theorems *)
Theorem C08_normalize_loop : forall (nrm : list V -> V) (pos neg : V -> bool) (root : V -> V) (srt : list V -> list nat)
  wf sort mode (K : ktensor V), wf_k K -> (forall n, mode = Some n -> n < length (kfactors K)) ->
  py_normalize V v0 v1 vmul vopp vinv nrm pos neg root srt wf sort mode K =
  k_normalize v0 v1 vmul vopp vinv nrm pos neg root srt wf sort mode K.
Proof. exact (py_normalize_is_model V v0 v1 vadd vmul vsub vopp vinv Vring). Qed.

(* ... so the loop preserves the denoted array (every norm oracle that is positive on non-zero columns) *)
Theorem C08_invariant_normalize_mode_loop : forall (nrm : list V -> V) (pos : V -> bool),
  (forall x, x <> v0 -> vmul x (vinv x) = v1) -> (forall x, pos x = true -> x <> v0) ->
  (forall l, pos (nrm l) = false -> Forall (fun y => y = v0) l) ->
  forall n (K : ktensor V), wf_k K -> n < length (kfactors K) ->
  forall i, den_k v0 v1 vadd vmul (py_normalize_mode v0 v1 vmul vinv nrm pos n K) i = den_k v0 v1 vadd vmul K i.
Proof. exact (den_py_normalize_mode V v0 v1 vadd vmul vsub vopp vinv Vring). Qed.

(* fixsigns(): `for r: negidx = modes whose largest-magnitude entry in column r is negative; flip the first 2*floor(len/2) of them,
   one in-place negation after the other` = k_fixsigns (the one-shot k_flip model), hence the same denoted array: every sign oracle *)
Theorem C08_fixsigns_loop : forall (negcol : list V -> bool) (K : ktensor V), wf_k K ->
  py_fixsigns v0 vopp negcol K = k_fixsigns v0 v1 vmul vopp negcol K.
Proof. exact (py_fixsigns_is_model V v0 v1 vadd vmul vsub vopp Vring). Qed.
Theorem C08_invariant_fixsigns_loop : forall (negcol : list V -> bool) (K : ktensor V), wf_k K ->
  forall i, den_k v0 v1 vadd vmul (py_fixsigns v0 vopp negcol K) i = den_k v0 v1 vadd vmul K i.
Proof. exact (den_py_fixsigns V v0 v1 vadd vmul vsub vopp vinv Vring). Qed.

(* fixsigns(other) with EVERY loop as written — self.normalize() and other.copy().normalize() by their column loops (this file), then the
   component loop `for r in range(min(RA, RB))` (Props/C08c.v) — is the model k_fixsigns_other that C08_invariant_fixsigns_other and
   C08_fixsigns_other_normal_form are about: well-formed receiver and reference, any ranks, every oracle, every total comparison,
   every sign test downward closed w.r.t. it *)
Theorem C08_fixsigns_other_all_loops : forall (nrm : list V -> V) (pos neg : V -> bool) (root : V -> V) (srt : list V -> list nat)
  (leb : V -> V -> bool), (forall a b, leb a b = false -> leb b a = true) -> (forall a b, leb a b = true -> neg b = true -> neg a = true) ->
  forall A B : ktensor V, wf_k A -> wf_k B ->
  py_fixsigns_other_loops V v0 v1 vadd vmul vopp vinv nrm pos neg root srt leb A B =
  k_fixsigns_other V v0 v1 vadd vmul vopp vinv nrm pos neg root srt leb A B.
Proof. exact (py_fixsigns_other_loops_is_model V v0 v1 vadd vmul vsub vopp vinv Vring). Qed.
End C08h.
Print Assumptions C08_normalize_mode_loop.
Print Assumptions C08_normalize_cols_loop.
Print Assumptions C08_normalize_loop.
Print Assumptions C08_invariant_normalize_mode_loop.
Print Assumptions C08_fixsigns_loop.
Print Assumptions C08_invariant_fixsigns_loop.
Print Assumptions C08_fixsigns_other_all_loops.

(* non-vacuity: integers with the 1-norm are not closed under 1/tmp, so the normalize example runs over Qc with the exact 2-norm:
   columns (3,4) and (0,0) [a zero column: not scaled, weight becomes 0], (1,2,2) and (2,-1,2); fixsigns over Z: component 0 has
   negative leading entries in modes 0 and 2 (both flipped), component 1 in mode 1 only (odd: nothing flipped) *)
Example C08_example_loops :
  let z := fun n : Z => Q2Qc (inject_Z n) in
  let K := mkK [z 2; z (-3)]%Z [[[z 3; z 0]; [z 4; z 0]]; [[z 1; z 2]; [z 2; z (-1)]; [z 2; z 2]]]%Z in
  qk_eqb (py_normalize_cols q0 q1 Qcmult Qcinv (q_norm 2) q_pos K) (k_normalize_cols q0 q1 Qcmult Qcinv (q_norm 2) q_pos K) = true /\
  Qc_eq_bool (nth 0 (kweights (py_normalize_cols q0 q1 Qcmult Qcinv (q_norm 2) q_pos K)) q0) (z 30%Z) = true /\
  Qc_eq_bool (nth 1 (kweights (py_normalize_cols q0 q1 Qcmult Qcinv (q_norm 2) q_pos K)) q0) (z 0%Z) = true /\
  let Kz := mkK [2; 3]%Z [[[-5; 1]; [2; 2]]; [[3; -4]; [1; 1]]; [[-2; 1]; [1; 3]]]%Z in
  py_fixsigns 0%Z Z.opp z_negcol Kz = mkK [2; 3]%Z [[[5; 1]; [-2; 2]]; [[3; -4]; [1; 1]]; [[2; 1]; [-1; 3]]]%Z /\
  py_fixsigns 0%Z Z.opp z_negcol Kz = zk_fixsigns Kz.
Proof. vm_compute. repeat split; reflexivity. Qed.
