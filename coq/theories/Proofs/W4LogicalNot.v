(* Proofs/W4LogicalNot.v — bridge Gen.sptensor_logical_not = H_logical_not (Gen/GenSptensor4c.v) and laws; the complement
   law uses C17's contract theorem for the generated tt_setdiff_rows (Proofs/C17Dup.v). *)
From Coq Require Import List ZArith Arith Bool Lia.
From PV Require Import Np.NpZ Np.NpZ2 Np.NpZ3 Np.NpZ3c Np.NpZ3d Np.NpZ3e Np.NpZ4 Np.NpZ4b Proofs.NpZProofs Gen.GenUtils Gen.GenKernels
  Gen.GenMethods2 Proofs.C03Rows Proofs.C17Dup Model.W4LogicalNot Gen.GenSptensor4c.
Import ListNotations.
Local Open Scope Z_scope.

Lemma np_full_ones {A} (l : list A) : np_full (zlen l) 1 = map (fun _ => 1) l.
Proof. unfold np_full, zlen. rewrite Nat2Z.id. induction l as [|x l IH]; cbn; [reflexivity|]. now rewrite IH. Qed.

Theorem logical_not_bridge (self : sptz) : sptensor_logical_not self = H_logical_not self.
Proof.
  unfold sptensor_logical_not, H_logical_not, spt_make, np_nrows.
  destruct (sptensor_allsubs self) as [all|]; cbn [bind]; [|reflexivity].
  destruct (tt_setdiff_rows all (spt_subs self)) as [idx|]; cbn [bind]; [|reflexivity]. cbv zeta.
  destruct (np_take_ok all idx); cbn [andb]; [|reflexivity].
  replace (0 <=? zlen (np_take [] all idx)) with true by (symmetry; apply Z.leb_le; unfold zlen; lia).
  rewrite np_full_ones. reflexivity.
Qed.

(* every stored value of the result is 1, one per subscript row; the shape is kept *)
Theorem gen_logical_not_values (self t : sptz) : sptensor_logical_not self = Ok t ->
  spt_vals t = map (fun _ => 1) (spt_subs t) /\ spt_shape t = spt_shape self.
Proof.
  rewrite logical_not_bridge. unfold H_logical_not.
  destruct (sptensor_allsubs self) as [all|]; cbn [bind]; [|discriminate].
  destruct (tt_setdiff_rows all (spt_subs self)) as [idx|]; cbn [bind]; [|discriminate]. cbv zeta.
  destruct (_ && _); [|discriminate]. intros E. injection E as <-. split; reflexivity.
Qed.

(* the subscripts of the result are those of allsubs that are not stored in self (first occurrences, in allsubs' order) *)
Theorem gen_logical_not_complement (self t : sptz) (all : mat) :
  sptensor_allsubs self = Ok all -> NoDup all -> okw all -> okw (spt_subs self) ->
  sptensor_logical_not self = Ok t ->
  spt_subs t = filter (fun r => negb (inrows (spt_subs self) r)) (dedup all).
Proof.
  intros Ea Hn Ha Hb. rewrite logical_not_bridge. unfold H_logical_not. rewrite Ea. cbn [bind].
  destruct (setdiff_rows_contract_nodupA all (spt_subs self) Hn Ha Hb) as (idx & Ei & Et). rewrite Ei. cbn [bind]. cbv zeta.
  destruct (_ && _); [|discriminate]. intros E. injection E as <-. exact Et.
Qed.
