(* Proofs/W4SCpAprPqnr.v — bookkeeping and non-negativity of pyttb/cp_apr.py::tt_cp_apr_pqnr proved directly over the GENERATED skeleton
   Gen/GenCpAprPqnr.v (region `M = init.copy()` .. `return M, output`: index-set precomputation, outer / mode / row loops with the two
   `continue` exits for empty data rows, inner quasi-Newton loop with the priming line search at i = 0, the KKT break, the L-BFGS memory
   update incl. the assertion 'L-BFGS first iterate is bad' (= None), convergence / time-limit breaks, the six per-iteration arrays).
   All numeric kernels and the clock are arbitrary.  Same statements as Proofs/W4SCpAprPdnr.v (no refinement to Model/C11Rows.v, see there). *)
From Coq Require Import String List Arith Bool Lia.
From PV Require Import Model.W4SPrelude Gen.GenCpAprPqnr Proofs.W4SCpAprMu.
Import ListNotations.
Local Open Scope nat_scope.

Ltac pairs := repeat match goal with p : (_ * _)%type |- _ => destruct p end.

Section PQNR.
Variables T_W T_F T_K T_X T_Pi T_Xmat T_Idx T_Row T_Mem : Type.
Variable c_leF : T_F -> T_F -> bool.
Variable c_zeroF : T_F.
Variable c_m1F : T_F.
Variable c_subF : T_F -> T_F -> T_F.
Variable k_normalize : T_K -> nat -> T_K.
Variable k_is_sptensor : T_X -> bool.
Variable k_time : T_W -> T_W * T_F.
Variable k_num_rows : T_K -> nat -> nat.
Variable k_row_indices : T_X -> nat -> nat -> T_Idx.
Variable k_redistribute : T_K -> nat -> T_K.
Variable k_calcpi_dense : T_X -> T_K -> nat -> nat -> nat -> bool -> T_Pi.
Variable k_unfold : T_X -> nat -> T_Xmat.
Variable k_idx_empty : T_Idx -> bool.
Variable k_zero_row : T_K -> nat -> nat -> T_K.
Variable k_vals_at : T_X -> T_Idx -> T_Row.
Variable k_calcpi_sparse : T_X -> T_K -> nat -> nat -> nat -> bool -> T_Idx -> T_Pi.
Variable k_get_row : T_K -> nat -> nat -> T_Row.
Variable k_zeros_mem : nat -> nat -> T_Mem.
Variable k_empty_row : T_Row -> T_Row.
Variable k_calc_grad : bool -> T_Pi -> T_F -> T_Row -> T_Row -> T_Row * T_Row.
Variable k_linesearch_first : T_Row -> T_Row -> bool -> T_Row -> T_Pi -> T_Row -> bool -> T_Row * nat.
Variable k_kkt_row : T_Row -> T_Row -> T_F.
Variable k_row_sub : T_Row -> T_Row -> T_Row.
Variable k_row_dot : T_Row -> T_Row -> T_F.
Variable k_is_zeroF : T_F -> bool.
Variable k_recip : T_F -> T_F.
Variable k_set_col : T_Mem -> nat -> T_Row -> T_Mem.
Variable k_search_dir_pqnr : T_Row -> T_Row -> T_F -> T_Mem -> T_Mem -> list T_F -> nat -> nat -> bool -> T_Row.
Variable k_linesearch : T_Row -> T_Row -> T_Row -> bool -> T_Row -> T_Pi -> T_Row -> bool -> T_Row * nat.
Variable k_last_rho_positive : list T_F -> nat -> bool.
Variable k_set_row : T_K -> nat -> nat -> T_Row -> T_K.
Variable k_xmat_row : T_Xmat -> nat -> T_Row.
Variable k_any_row : T_Row -> bool.
Variable k_normalize_mode : T_K -> nat -> nat -> T_K.
Variable k_count_zero : T_K -> nat -> nat.
Variable k_max : list T_F -> T_F.
Variable k_print_now : nat -> nat -> bool.
Variable k_neg_loglikelihood : T_X -> T_K -> T_F.
Variable k_normalize_sort : T_K -> nat -> bool -> T_K.
Variable k_loglikelihood : T_X -> T_K -> T_F.

Notation gl1 := (GenCpAprPqnr.cp_apr_pqnr_loop1 T_K T_X T_Idx k_num_rows k_row_indices).
Notation gl2 := (GenCpAprPqnr.cp_apr_pqnr_loop2 T_X T_Idx k_row_indices).
Notation gl3 := (GenCpAprPqnr.cp_apr_pqnr_loop3 T_W T_F T_K T_X T_Pi T_Xmat T_Idx T_Row T_Mem c_leF c_zeroF c_subF k_is_sptensor k_time k_num_rows k_row_indices k_redistribute k_calcpi_dense k_unfold k_idx_empty k_zero_row k_vals_at k_calcpi_sparse k_get_row k_zeros_mem k_empty_row k_calc_grad k_linesearch_first k_kkt_row k_row_sub k_row_dot k_is_zeroF k_recip k_set_col k_search_dir_pqnr k_linesearch k_last_rho_positive k_set_row k_xmat_row k_any_row k_normalize_mode k_count_zero k_max k_print_now k_neg_loglikelihood).
Notation gl4 := (GenCpAprPqnr.cp_apr_pqnr_loop4 T_F T_K T_X T_Pi T_Xmat T_Idx T_Row T_Mem c_leF c_zeroF k_is_sptensor k_num_rows k_row_indices k_redistribute k_calcpi_dense k_unfold k_idx_empty k_zero_row k_vals_at k_calcpi_sparse k_get_row k_zeros_mem k_empty_row k_calc_grad k_linesearch_first k_kkt_row k_row_sub k_row_dot k_is_zeroF k_recip k_set_col k_search_dir_pqnr k_linesearch k_last_rho_positive k_set_row k_xmat_row k_any_row k_normalize_mode).
Notation gl5 := (GenCpAprPqnr.cp_apr_pqnr_loop5 T_F T_K T_X T_Pi T_Xmat T_Idx T_Row T_Mem c_leF c_zeroF k_is_sptensor k_row_indices k_idx_empty k_zero_row k_vals_at k_calcpi_sparse k_get_row k_zeros_mem k_empty_row k_calc_grad k_linesearch_first k_kkt_row k_row_sub k_row_dot k_is_zeroF k_recip k_set_col k_search_dir_pqnr k_linesearch k_last_rho_positive k_set_row k_xmat_row k_any_row).
Notation gl6 := (GenCpAprPqnr.cp_apr_pqnr_loop6 T_F T_Pi T_Row T_Mem c_leF k_calc_grad k_linesearch_first k_kkt_row k_row_sub k_row_dot k_is_zeroF k_recip k_set_col k_search_dir_pqnr k_linesearch k_last_rho_positive).
Notation gl7 := (GenCpAprPqnr.cp_apr_pqnr_loop7 T_F T_Pi T_Row T_Mem c_leF k_calc_grad k_linesearch_first k_kkt_row k_row_sub k_row_dot k_is_zeroF k_recip k_set_col k_search_dir_pqnr k_linesearch k_last_rho_positive).
Notation gl8 := (GenCpAprPqnr.cp_apr_pqnr_loop8 T_K k_count_zero).
Notation gpqnr := (GenCpAprPqnr.cp_apr_pqnr T_W T_F T_K T_X T_Pi T_Xmat T_Idx T_Row T_Mem c_leF c_zeroF c_m1F c_subF k_normalize k_is_sptensor k_time k_num_rows k_row_indices k_redistribute k_calcpi_dense k_unfold k_idx_empty k_zero_row k_vals_at k_calcpi_sparse k_get_row k_zeros_mem k_empty_row k_calc_grad k_linesearch_first k_kkt_row k_row_sub k_row_dot k_is_zeroF k_recip k_set_col k_search_dir_pqnr k_linesearch k_last_rho_positive k_set_row k_xmat_row k_any_row k_normalize_mode k_count_zero k_max k_print_now k_neg_loglikelihood k_normalize_sort k_loglikelihood).

(* contract of the kernels for non-negativity (P: model, Q: row); HQ_ls / HQ_ls1 are what Props/C11.v C11_proj_nonneg provides for the
   two line searches (priming steepest-descent search at i = 0, quasi-Newton search) *)
Variable P : T_K -> Prop.
Variable Q : T_Row -> Prop.
Hypothesis HP_normalize : forall M k, P M -> P (k_normalize M k).
Hypothesis HP_redistribute : forall M n, P M -> P (k_redistribute M n).
Hypothesis HP_zero_row : forall M n jj, P M -> P (k_zero_row M n jj).
Hypothesis HP_set_row : forall M n jj r, P M -> Q r -> P (k_set_row M n jj r).
Hypothesis HP_normalize_mode : forall M n k, P M -> P (k_normalize_mode M n k).
Hypothesis HP_normalize_sort : forall M k b, P M -> P (k_normalize_sort M k b).
Hypothesis HQ_get_row : forall M n jj, P M -> Q (k_get_row M n jj).
Hypothesis HQ_ls1 : forall g m sp x Pi ph dw r ne, k_linesearch_first g m sp x Pi ph dw = (r, ne) -> Q r.
Hypothesis HQ_ls : forall d g m sp x Pi ph dw r ne, k_linesearch d g m sp x Pi ph dw = (r, ne) -> Q r.

Ltac qrow := solve [ auto | eapply HQ_ls; eassumption | eapply HQ_ls1; eassumption ].

Lemma loop6_inv : forall a1 a2 a3 a4 a5 a6 a7 a8 a9 a10 a11 fuel i dg dm fe go io rn km lp m mo rh dg' dm' fe' go' io' rn' km' lp' m' mo' rh',
  gl6 a1 a2 a3 a4 a5 a6 a7 a8 a9 a10 a11 fuel i (dg, dm, fe, go, io, rn, km, lp, m, mo, rh) = Some (dg', dm', fe', go', io', rn', km', lp', m', mo', rh') ->
  length fe' = length fe /\ (Q m -> Q m').
Proof.
  intros a1 a2 a3 a4 a5 a6 a7 a8 a9 a10 a11. induction fuel as [|fuel IH]; intros i dg dm fe go io rn km lp m mo rh dg' dm' fe' go' io' rn' km' lp' m' mo' rh' H.
  - cbn in H. inversion H. subst. split; auto.
  - cbn [GenCpAprPqnr.cp_apr_pqnr_loop6] in H. dmall; pairs; invs;
      try (match goal with E : gl6 _ _ _ _ _ _ _ _ _ _ _ _ _ _ = Some _ |- _ => apply IH in E; destruct E as [L1 L2] end);
      lens; (split; [congruence|]); intros HQ; try apply L2; qrow.
Qed.

Lemma loop7_inv : forall a1 a2 a3 a4 a5 a6 a7 a8 a9 a10 a11 fuel i dg dm fe go io rn km lp m mo rh dg' dm' fe' go' io' rn' km' lp' m' mo' rh',
  gl7 a1 a2 a3 a4 a5 a6 a7 a8 a9 a10 a11 fuel i (dg, dm, fe, go, io, rn, km, lp, m, mo, rh) = Some (dg', dm', fe', go', io', rn', km', lp', m', mo', rh') ->
  length fe' = length fe /\ (Q m -> Q m').
Proof.
  intros a1 a2 a3 a4 a5 a6 a7 a8 a9 a10 a11. induction fuel as [|fuel IH]; intros i dg dm fe go io rn km lp m mo rh dg' dm' fe' go' io' rn' km' lp' m' mo' rh' H.
  - cbn in H. inversion H. subst. split; auto.
  - cbn [GenCpAprPqnr.cp_apr_pqnr_loop7] in H. dmall; pairs; invs;
      try (match goal with E : gl7 _ _ _ _ _ _ _ _ _ _ _ _ _ _ = Some _ |- _ => apply IH in E; destruct E as [L1 L2] end);
      lens; (split; [congruence|]); intros HQ; try apply L2; qrow.
Qed.

Lemma loop5_inv : forall a1 a2 a3 a4 a5 a6 a7 a8 a9 a10 a11 a12 a13 a14 a15 fuel i M Pi ci fe rn jj km M' Pi' ci' fe' rn' jj' km',
  gl5 a1 a2 a3 a4 a5 a6 a7 a8 a9 a10 a11 a12 a13 a14 a15 fuel i (M, Pi, ci, fe, rn, jj, km) = Some (M', Pi', ci', fe', rn', jj', km') ->
  length fe' = length fe /\ (P M -> P M').
Proof.
  intros a1 a2 a3 a4 a5 a6 a7 a8 a9 a10 a11 a12 a13 a14 a15. induction fuel as [|fuel IH]; intros i M Pi ci fe rn jj km M' Pi' ci' fe' rn' jj' km' H.
  - cbn in H. inversion H. subst. split; auto.
  - cbn [GenCpAprPqnr.cp_apr_pqnr_loop5] in H. dmall; pairs; invs;
      try match goal with E : gl6 _ _ _ _ _ _ _ _ _ _ _ _ _ _ = Some _ |- _ => apply loop6_inv in E; destruct E as [K1 K2] end;
      try match goal with E : gl7 _ _ _ _ _ _ _ _ _ _ _ _ _ _ = Some _ |- _ => apply loop7_inv in E; destruct E as [K1 K2] end;
      match goal with E : gl5 _ _ _ _ _ _ _ _ _ _ _ _ _ _ _ _ _ _ = Some _ |- _ => apply IH in E; destruct E as [L1 L2] end;
      (split; [congruence|]); intros HM; apply L2; auto.
Qed.

Lemma loop4_inv : forall a1 a2 a3 a4 a5 a6 a7 a8 a9 a10 a11 a12 a13 fuel i M ci fe cv jj km n ni nr M' ci' fe' cv' jj' km' n' ni' nr',
  gl4 a1 a2 a3 a4 a5 a6 a7 a8 a9 a10 a11 a12 a13 fuel i (M, ci, fe, cv, jj, km, n, ni, nr) = Some (M', ci', fe', cv', jj', km', n', ni', nr') ->
  length fe' = length fe /\ length ni' = length ni /\ (P M -> P M').
Proof.
  intros a1 a2 a3 a4 a5 a6 a7 a8 a9 a10 a11 a12 a13. induction fuel as [|fuel IH]; intros i M ci fe cv jj km n ni nr M' ci' fe' cv' jj' km' n' ni' nr' H.
  - cbn in H. inversion H. subst. repeat split; auto.
  - cbn [GenCpAprPqnr.cp_apr_pqnr_loop4] in H. dmall; pairs; invs;
      match goal with E : gl5 _ _ _ _ _ _ _ _ _ _ _ _ _ _ _ _ _ _ = Some _ |- _ => apply loop5_inv in E; destruct E as [K1 K2] end;
      match goal with E : gl4 _ _ _ _ _ _ _ _ _ _ _ _ _ _ _ _ = Some _ |- _ => apply IH in E; destruct E as (L1 & L2 & L3) end;
      lens; (repeat split; try congruence); intros HM; apply L3; auto.
Qed.

Lemma loop3_inv : forall a1 a2 a3 a4 a5 a6 a7 a8 a9 a10 a11 a12 a13 a14 a15 fuel i M fe fv it jj kv n ni nr nz tm w M' fe' fv' it' jj' kv' n' ni' nr' nz' tm' w',
  gl3 a1 a2 a3 a4 a5 a6 a7 a8 a9 a10 a11 a12 a13 a14 a15 fuel i (M, fe, fv, it, jj, kv, n, ni, nr, nz, tm, w) = Some (M', fe', fv', it', jj', kv', n', ni', nr', nz', tm', w') ->
  length fe' = length fe /\ length fv' = length fv /\ length kv' = length kv /\ length ni' = length ni /\ length nz' = length nz /\
  length tm' = length tm /\ (P M -> P M') /\
  (fuel = 0 -> it' = it) /\ (0 < fuel -> exists j, it' = Some j /\ i <= j < i + fuel).
Proof.
  intros a1 a2 a3 a4 a5 a6 a7 a8 a9 a10 a11 a12 a13 a14 a15. induction fuel as [|fuel IH]; intros i M fe fv it jj kv n ni nr nz tm w M' fe' fv' it' jj' kv' n' ni' nr' nz' tm' w' H.
  - cbn in H. inversion H. subst. repeat split; auto. lia.
  - cbn [GenCpAprPqnr.cp_apr_pqnr_loop3] in H. dmall; pairs; invs;
      match goal with E : gl4 _ _ _ _ _ _ _ _ _ _ _ _ _ _ _ _ = Some _ |- _ => apply loop4_inv in E; destruct E as (K1 & K2 & K3) end;
      try (match goal with E : gl3 _ _ _ _ _ _ _ _ _ _ _ _ _ _ _ _ _ _ = Some _ |- _ => apply IH in E; destruct E as (LA & LB & LC & LD & LE & LF & LG & LH & LI) end);
      lens; rewrite ?repeat_length in *;
      (repeat split; try congruence; try lia; auto);
      try (intros _; exists i; split; [reflexivity|lia]);
      try (intros _; destruct fuel as [|fuel'];
           [exists i; split; [rewrite (LH eq_refl); reflexivity|lia]
           |destruct (LI ltac:(lia)) as (j & -> & Hj); exists j; split; [reflexivity|lia]]).
Qed.

Lemma pqnr_bookkeeping_c : forall w X rank init stoptol stoptime maxiters maxinner eps printitn printinner epsActive lbfgsMem precomp N
                                  M kkt obj fnev fnv ninner nz times ttime w',
  gpqnr w X rank init stoptol stoptime maxiters maxinner eps printitn printinner epsActive lbfgsMem precomp N
    = Some (M, (kkt, obj, fnev, fnv, ninner, nz, times, ttime), w') ->
  1 <= length kkt <= maxiters /\ length fnev = length kkt /\ length fnv = length kkt /\ length ninner = length kkt /\
  length nz = length kkt /\ length times = length kkt.
Proof.
  intros until w'. intros H. unfold GenCpAprPqnr.cp_apr_pqnr in H. dmall; pairs; invs;
  match goal with E : gl3 _ _ _ _ _ _ _ _ _ _ _ _ _ _ _ _ _ _ = Some _ |- _ => apply loop3_inv in E; destruct E as (LA & LB & LC & LD & LE & LF & LG & LH & LI) end;
  rewrite !repeat_length in *;
  (destruct maxiters as [|mx];
   [specialize (LH eq_refl); discriminate
   |destruct (LI ltac:(lia)) as (j & Ej & Hj); inversion Ej; subst; rewrite !sk_slice_length by lia; lia]).
Qed.

Theorem pqnr_nonneg : forall w X rank init stoptol stoptime maxiters maxinner eps printitn printinner epsActive lbfgsMem precomp N M out w',
  gpqnr w X rank init stoptol stoptime maxiters maxinner eps printitn printinner epsActive lbfgsMem precomp N = Some (M, out, w') ->
  P init -> P M.
Proof.
  intros until w'. intros H HP. unfold GenCpAprPqnr.cp_apr_pqnr in H. dmall; pairs; invs;
  match goal with E : gl3 _ _ _ _ _ _ _ _ _ _ _ _ _ _ _ _ _ _ = Some _ |- _ => apply loop3_inv in E; destruct E as (LA & LB & LC & LD & LE & LF & LG & LH & LI) end;
  apply HP_normalize_sort; apply LG; apply HP_normalize; exact HP.
Qed.
End PQNR.

(* the bookkeeping statement does not need the non-negativity contract (P = Q = True) *)
Section PQNR0.
Variables T_W T_F T_K T_X T_Pi T_Xmat T_Idx T_Row T_Mem : Type.
Variable c_leF : T_F -> T_F -> bool.
Variable c_zeroF : T_F.
Variable c_m1F : T_F.
Variable c_subF : T_F -> T_F -> T_F.
Variable k_normalize : T_K -> nat -> T_K.
Variable k_is_sptensor : T_X -> bool.
Variable k_time : T_W -> T_W * T_F.
Variable k_num_rows : T_K -> nat -> nat.
Variable k_row_indices : T_X -> nat -> nat -> T_Idx.
Variable k_redistribute : T_K -> nat -> T_K.
Variable k_calcpi_dense : T_X -> T_K -> nat -> nat -> nat -> bool -> T_Pi.
Variable k_unfold : T_X -> nat -> T_Xmat.
Variable k_idx_empty : T_Idx -> bool.
Variable k_zero_row : T_K -> nat -> nat -> T_K.
Variable k_vals_at : T_X -> T_Idx -> T_Row.
Variable k_calcpi_sparse : T_X -> T_K -> nat -> nat -> nat -> bool -> T_Idx -> T_Pi.
Variable k_get_row : T_K -> nat -> nat -> T_Row.
Variable k_zeros_mem : nat -> nat -> T_Mem.
Variable k_empty_row : T_Row -> T_Row.
Variable k_calc_grad : bool -> T_Pi -> T_F -> T_Row -> T_Row -> T_Row * T_Row.
Variable k_linesearch_first : T_Row -> T_Row -> bool -> T_Row -> T_Pi -> T_Row -> bool -> T_Row * nat.
Variable k_kkt_row : T_Row -> T_Row -> T_F.
Variable k_row_sub : T_Row -> T_Row -> T_Row.
Variable k_row_dot : T_Row -> T_Row -> T_F.
Variable k_is_zeroF : T_F -> bool.
Variable k_recip : T_F -> T_F.
Variable k_set_col : T_Mem -> nat -> T_Row -> T_Mem.
Variable k_search_dir_pqnr : T_Row -> T_Row -> T_F -> T_Mem -> T_Mem -> list T_F -> nat -> nat -> bool -> T_Row.
Variable k_linesearch : T_Row -> T_Row -> T_Row -> bool -> T_Row -> T_Pi -> T_Row -> bool -> T_Row * nat.
Variable k_last_rho_positive : list T_F -> nat -> bool.
Variable k_set_row : T_K -> nat -> nat -> T_Row -> T_K.
Variable k_xmat_row : T_Xmat -> nat -> T_Row.
Variable k_any_row : T_Row -> bool.
Variable k_normalize_mode : T_K -> nat -> nat -> T_K.
Variable k_count_zero : T_K -> nat -> nat.
Variable k_max : list T_F -> T_F.
Variable k_print_now : nat -> nat -> bool.
Variable k_neg_loglikelihood : T_X -> T_K -> T_F.
Variable k_normalize_sort : T_K -> nat -> bool -> T_K.
Variable k_loglikelihood : T_X -> T_K -> T_F.

Notation gl1 := (GenCpAprPqnr.cp_apr_pqnr_loop1 T_K T_X T_Idx k_num_rows k_row_indices).
Notation gl2 := (GenCpAprPqnr.cp_apr_pqnr_loop2 T_X T_Idx k_row_indices).
Notation gl3 := (GenCpAprPqnr.cp_apr_pqnr_loop3 T_W T_F T_K T_X T_Pi T_Xmat T_Idx T_Row T_Mem c_leF c_zeroF c_subF k_is_sptensor k_time k_num_rows k_row_indices k_redistribute k_calcpi_dense k_unfold k_idx_empty k_zero_row k_vals_at k_calcpi_sparse k_get_row k_zeros_mem k_empty_row k_calc_grad k_linesearch_first k_kkt_row k_row_sub k_row_dot k_is_zeroF k_recip k_set_col k_search_dir_pqnr k_linesearch k_last_rho_positive k_set_row k_xmat_row k_any_row k_normalize_mode k_count_zero k_max k_print_now k_neg_loglikelihood).
Notation gl4 := (GenCpAprPqnr.cp_apr_pqnr_loop4 T_F T_K T_X T_Pi T_Xmat T_Idx T_Row T_Mem c_leF c_zeroF k_is_sptensor k_num_rows k_row_indices k_redistribute k_calcpi_dense k_unfold k_idx_empty k_zero_row k_vals_at k_calcpi_sparse k_get_row k_zeros_mem k_empty_row k_calc_grad k_linesearch_first k_kkt_row k_row_sub k_row_dot k_is_zeroF k_recip k_set_col k_search_dir_pqnr k_linesearch k_last_rho_positive k_set_row k_xmat_row k_any_row k_normalize_mode).
Notation gl5 := (GenCpAprPqnr.cp_apr_pqnr_loop5 T_F T_K T_X T_Pi T_Xmat T_Idx T_Row T_Mem c_leF c_zeroF k_is_sptensor k_row_indices k_idx_empty k_zero_row k_vals_at k_calcpi_sparse k_get_row k_zeros_mem k_empty_row k_calc_grad k_linesearch_first k_kkt_row k_row_sub k_row_dot k_is_zeroF k_recip k_set_col k_search_dir_pqnr k_linesearch k_last_rho_positive k_set_row k_xmat_row k_any_row).
Notation gl6 := (GenCpAprPqnr.cp_apr_pqnr_loop6 T_F T_Pi T_Row T_Mem c_leF k_calc_grad k_linesearch_first k_kkt_row k_row_sub k_row_dot k_is_zeroF k_recip k_set_col k_search_dir_pqnr k_linesearch k_last_rho_positive).
Notation gl7 := (GenCpAprPqnr.cp_apr_pqnr_loop7 T_F T_Pi T_Row T_Mem c_leF k_calc_grad k_linesearch_first k_kkt_row k_row_sub k_row_dot k_is_zeroF k_recip k_set_col k_search_dir_pqnr k_linesearch k_last_rho_positive).
Notation gl8 := (GenCpAprPqnr.cp_apr_pqnr_loop8 T_K k_count_zero).
Notation gpqnr := (GenCpAprPqnr.cp_apr_pqnr T_W T_F T_K T_X T_Pi T_Xmat T_Idx T_Row T_Mem c_leF c_zeroF c_m1F c_subF k_normalize k_is_sptensor k_time k_num_rows k_row_indices k_redistribute k_calcpi_dense k_unfold k_idx_empty k_zero_row k_vals_at k_calcpi_sparse k_get_row k_zeros_mem k_empty_row k_calc_grad k_linesearch_first k_kkt_row k_row_sub k_row_dot k_is_zeroF k_recip k_set_col k_search_dir_pqnr k_linesearch k_last_rho_positive k_set_row k_xmat_row k_any_row k_normalize_mode k_count_zero k_max k_print_now k_neg_loglikelihood k_normalize_sort k_loglikelihood).

Theorem pqnr_bookkeeping : forall w X rank init stoptol stoptime maxiters maxinner eps printitn printinner epsActive lbfgsMem precomp N
                                  M kkt obj fnev fnv ninner nz times ttime w',
  gpqnr w X rank init stoptol stoptime maxiters maxinner eps printitn printinner epsActive lbfgsMem precomp N
    = Some (M, (kkt, obj, fnev, fnv, ninner, nz, times, ttime), w') ->
  1 <= length kkt <= maxiters /\ length fnev = length kkt /\ length fnv = length kkt /\ length ninner = length kkt /\
  length nz = length kkt /\ length times = length kkt.
Proof.
  intros until w'. intros H.
  eapply pqnr_bookkeeping_c with (P := fun _ => True) (Q := fun _ => True); try exact H; intros; exact I.
Qed.
End PQNR0.
