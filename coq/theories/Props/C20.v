(* Props/C20.v — generators and aggregating constructors build what they advertise.
   Only statements, `exact`, Print Assumptions, and concrete Examples (non-vacuity). *)
From Coq Require Import List Arith ZArith Bool.
From PV Require Import Base.Index Base.Sum Np.Array Model.Sparse Model.Repr Model.Harness Model.C20Gen Model.C20Harness Proofs.C20Proofs.
Import ListNotations.

Section C20_dense.
Context {V : Type} (v0 v1 : V).

(* tenones / tenzeros: shape exact, every entry 1 / 0 — all shapes, all orders *)
Theorem C20_ones : forall s : shape,
  exists T, tenones v0 v1 s = Some T /\ dshape T = s /\ wf_dense T /\
            ddata T = repeat v1 (size s) /\ (forall i, inb s i = true -> den_dense v0 T i = v1).
Proof. exact (tenones_ok v0 v1). Qed.

Theorem C20_zeros : forall s : shape,
  exists T, tenzeros v0 s = Some T /\ dshape T = s /\ wf_dense T /\
            ddata T = repeat v0 (size s) /\ (forall i, den_dense v0 T i = v0).
Proof. exact (tenzeros_ok v0). Qed.

(* tensor.from_function: whatever array the function returns (any shape with the right number of elements, a 1-d
   vector included), the tensor has exactly the requested shape and its data is the output listed first-index-fastest *)
Theorem C20_from_function : forall (s : shape) (out : dense V),
  wf_dense out -> size (dshape out) = size s ->
  exists T, from_function v0 s out = Some T /\ dshape T = s /\ wf_dense T /\ ddata T = ddata out /\
            (forall i, inb s i = true -> den_dense v0 T i = nth (sub2ind s i) (ddata out) v0).
Proof. exact (from_function_ok v0). Qed.

Theorem C20_from_function_same_shape : forall out : dense V, wf_dense out ->
  from_function v0 (dshape out) out = Some out.
Proof. exact (from_function_same_shape v0). Qed.

Theorem C20_from_function_reject : forall (s : shape) (out : dense V),
  length (ddata out) <> size s -> from_function v0 s out = None.
Proof. exact (from_function_reject v0). Qed.
End C20_dense.

Print Assumptions C20_ones.
Print Assumptions C20_zeros.
Print Assumptions C20_from_function.
Print Assumptions C20_from_function_same_shape.
Print Assumptions C20_from_function_reject.

Example C20_example_from_function :
  zfrom_function [2; 3] (mkDense [6] [1; 2; 3; 4; 5; 6]%Z) = Some (mkDense [2; 3] [1; 2; 3; 4; 5; 6]%Z)
  /\ zden (mkDense [2; 3] [1; 2; 3; 4; 5; 6]%Z) [1; 2] = 6%Z /\ zden (mkDense [2; 3] [1; 2; 3; 4; 5; 6]%Z) [0; 1] = 3%Z
  /\ ztenones [2; 1; 2] = Some (mkDense [2; 1; 2] [1; 1; 1; 1]%Z).
Proof. repeat split; reflexivity. Qed.
