(* Proofs/C06Other.v — C06 for the sparse-returning operations proved correct by other properties' builders:
   permute, reshape, squeeze (Proofs/C07Proofs.v), to_sptenmat / to_sptensor (Proofs/C01Proofs.v) and every __setitem__
   path of the C04 state machine (Proofs/C04Sparse.v, C04History.v).  Each result is well-formed, and two operands that store
   the same entries in different orders give results with the same canonical form (entries equal up to order): corollaries of
   the denotational theorems + canon_unique. *)
From Coq Require Import List Arith Lia Bool Permutation.
From PV Require Import Base.Index Base.Perm Np.Array Model.Sparse Model.C03Ops Model.C06Ops Model.C07Ops Model.C01Conv Model.C04Model
                       Proofs.C03Lemmas Proofs.C03Proofs Proofs.C06Proofs Proofs.C07Proofs Proofs.C01Proofs Proofs.C04Sparse Proofs.C04History.
Import ListNotations.

Section Other.
Context {V : Type} (v0 : V) (isz : V -> bool).
Hypothesis isz_spec : forall v, isz v = true <-> v = v0.
Notation den := (den_sp v0).
Notation wf := (wf_sp isz).
Notation canon := (canon v0 isz).

Definition same_result (R R' : sparse V) : Prop :=
  wf R /\ wf R' /\ canon R = canon R' /\ Permutation (entries R) (entries R').

Lemma same_den_same_result (R R' : sparse V) : wf R -> wf R' -> sshape R = sshape R' ->
  (forall i, inb (sshape R) i = true -> den R i = den R' i) -> same_result R R'.
Proof.
  intros W W' Hs E. split; [exact W|]. split; [exact W'|]. split.
  - now apply (canon_eq v0 isz).
  - apply (canon_unique v0 isz isz_spec); auto. intros i.
    destruct (inb (sshape R) i) eqn:Hi; [now apply E|].
    rewrite (den_out v0 R i); [|now apply (wf_sp_struct isz)|auto].
    rewrite (den_out v0 R' i); [auto|now apply (wf_sp_struct isz)|congruence].
Qed.

Lemma wf_lengths (S : sparse V) : wf S -> Forall (fun j => length j = length (sshape S)) (ssubs S).
Proof. intros (_ & _ & Hb & _). rewrite Forall_forall in *. intros j Hj. apply inb_length. auto. Qed.

Lemma wf_bounds' (S : sparse V) : wf S -> Forall (fun j => inb (sshape S) j = true) (ssubs S).
Proof. now intros (_ & _ & H & _). Qed.

Lemma perm_den (S S' : sparse V) : wf S -> Permutation (entries S) (entries S') -> forall i, den S i = den S' i.
Proof. intros W P. apply den_perm; auto. now apply (wf_sp_struct isz). Qed.

(* permute *)
Theorem indep_permute (S S' : sparse V) p : wf S -> wf S' -> sshape S' = sshape S -> Permutation (entries S) (entries S') ->
  is_perm p (length (sshape S)) ->
  exists R R', permute_sp S p = Some R /\ permute_sp S' p = Some R' /\ same_result R R'.
Proof.
  intros W W' Hs P Hp.
  destruct (permute_sparse_correct v0 isz S p Hp (wf_lengths S W)) as (R & E & SR & _ & _ & D & WR & _).
  assert (Hp' : is_perm p (length (sshape S'))) by (now rewrite Hs).
  destruct (permute_sparse_correct v0 isz S' p Hp' (wf_lengths S' W')) as (R' & E' & SR' & _ & _ & D' & WR' & _).
  exists R, R'. split; [exact E|]. split; [exact E'|].
  apply same_den_same_result; auto; [congruence|]. intros i Hi.
  assert (HL : length i = length (sshape S)).
  { apply inb_length in Hi. rewrite SR, pick_length in Hi. rewrite Hi. now apply is_perm_length. }
  rewrite D by auto. rewrite D' by congruence. now apply perm_den.
Qed.

(* reshape (all modes) *)
Theorem indep_reshape (S S' : sparse V) s' : wf S -> wf S' -> sshape S' = sshape S -> Permutation (entries S) (entries S') ->
  size s' = size (sshape S) ->
  exists R R', reshape_sp_all S s' = Some R /\ reshape_sp_all S' s' = Some R' /\ same_result R R'.
Proof.
  intros W W' Hs P Hsz.
  destruct (reshape_sparse_all_correct v0 isz S s' Hsz (wf_bounds' S W)) as (R & E & SR & _ & _ & WR & D & _).
  assert (Hsz' : size s' = size (sshape S')) by (now rewrite Hs).
  destruct (reshape_sparse_all_correct v0 isz S' s' Hsz' (wf_bounds' S' W')) as (R' & E' & SR' & _ & _ & WR' & D' & _).
  exists R, R'. split; [exact E|]. split; [exact E'|].
  apply same_den_same_result; auto; [congruence|]. intros i Hi. rewrite SR in Hi.
  rewrite D, D' by auto. rewrite Hs. now apply perm_den.
Qed.

(* squeeze: either a scalar (the same scalar for both stored orders) or tensors with the same canonical form *)
Lemma entries_map_subs (f : idx -> idx) (S : sparse V) s' : length (ssubs S) = length (svals S) ->
  entries (mkSp s' (map f (ssubs S)) (svals S)) = map (fun e => (f (fst e), snd e)) (entries S).
Proof.
  intros _. unfold entries. cbn [ssubs svals]. generalize (svals S). induction (ssubs S) as [|j l IH]; intros [|v vs]; cbn; auto.
  now rewrite IH.
Qed.

Theorem indep_squeeze (S S' : sparse V) : wf S -> wf S' -> sshape S' = sshape S -> Permutation (entries S) (entries S') ->
  match squeeze_sp v0 S, squeeze_sp v0 S' with
  | SqT R, SqT R' => same_result R R'
  | SqScalar v, SqScalar v' => v = v'
  | _, _ => False
  end.
Proof.
  intros W W' Hs P.
  pose proof (squeeze_sparse_correct v0 isz S (wf_bounds' S W)) as H.
  pose proof (squeeze_sparse_correct v0 isz S' (wf_bounds' S' W')) as H'.
  unfold squeeze_sp in *. rewrite Hs in *. destruct (forallb (Nat.ltb 1) (sshape S)).
  - apply same_den_same_result; auto. intros i _. now apply perm_den.
  - destruct (sqz (sshape S) (sshape S)) as [|d r] eqn:Es.
    + now apply perm_den.
    + destruct H as (S1 & _ & _ & WR & _). destruct H' as (S1' & _ & _ & WR' & _).
      specialize (WR W). specialize (WR' W').
      split; [exact WR|]. split; [exact WR'|].
      assert (PE : Permutation (entries (mkSp (d :: r) (map (sqz (sshape S)) (ssubs S)) (svals S)))
                               (entries (mkSp (d :: r) (map (sqz (sshape S)) (ssubs S')) (svals S')))).
      { rewrite !entries_map_subs by (now destruct W; now destruct W'). now apply Permutation_map. }
      split; [|exact PE]. apply (canon_of_perm v0 isz); auto.
Qed.

(* reshape of a subset of the modes (old_modes, any order): the kept modes first, then the new shape *)
Theorem indep_reshape_modes (S S' : sparse V) s' old : wf S -> wf S' -> sshape S' = sshape S -> Permutation (entries S) (entries S') ->
  Forall (fun k => k < length (sshape S)) old -> size s' = size (pick 0 old (sshape S)) ->
  exists R R', reshape_sp S s' old = Some R /\ reshape_sp S' s' old = Some R' /\ same_result R R'.
Proof.
  intros W W' Hs P Ho Hsz.
  destruct (reshape_sparse_correct v0 isz S s' old Ho Hsz (wf_bounds' S W)) as (R & E & _ & _ & _ & WR & _).
  assert (Ho' : Forall (fun k => k < length (sshape S')) old) by (now rewrite Hs).
  assert (Hsz' : size s' = size (pick 0 old (sshape S'))) by (now rewrite Hs).
  destruct (reshape_sparse_correct v0 isz S' s' old Ho' Hsz' (wf_bounds' S' W')) as (R' & E' & _ & _ & _ & WR' & _).
  exists R, R'. split; [exact E|]. split; [exact E'|].
  specialize (WR W). specialize (WR' W').
  unfold reshape_sp in E, E'. rewrite Hs in E'.
  destruct (Nat.eqb (size s') (size (pick 0 old (sshape S)))); [|discriminate].
  inversion E; subst R. inversion E'; subst R'.
  split; [exact WR|]. split; [exact WR'|].
  assert (PE : Permutation (entries (mkSp (pick 0 (keep_modes (length (sshape S)) old) (sshape S) ++ s')
                                           (map (reshape_row (sshape S) s' old) (ssubs S)) (svals S)))
                           (entries (mkSp (pick 0 (keep_modes (length (sshape S)) old) (sshape S) ++ s')
                                           (map (reshape_row (sshape S) s' old) (ssubs S')) (svals S')))).
  { rewrite !entries_map_subs by (now destruct W; now destruct W'). now apply Permutation_map. }
  split; [|exact PE]. apply (canon_of_perm v0 isz); auto.
Qed.

(* to_sptenmat: the sparse matrix is well-formed for both stored orders, both denote the same array, and converting back
   returns the operand itself *)
Theorem indep_to_sptenmat (S S' : sparse V) r c : wf S -> wf S' -> sshape S' = sshape S -> Permutation (entries S) (entries S') ->
  is_perm (r ++ c) (length (sshape S)) ->
  exists M M', to_sptenmat S r c = Some M /\ to_sptenmat S' r c = Some M' /\
    wf (stm_sp M) /\ wf (stm_sp M') /\ length (stm_subs M) = nnz S /\
    (forall i, inb (sshape S) i = true -> den_sptenmat v0 M i = den_sptenmat v0 M' i) /\
    sptenmat_to_sptensor M = S /\ sptenmat_to_sptensor M' = S'.
Proof.
  intros W W' Hs P Hp.
  destruct (to_sptenmat_correct v0 isz S r c Hp (wf_bounds' S W)) as (M & E & _ & _ & _ & _ & L & _ & WM & D & _ & RT).
  assert (Hp' : is_perm (r ++ c) (length (sshape S'))) by (now rewrite Hs).
  destruct (to_sptenmat_correct v0 isz S' r c Hp' (wf_bounds' S' W')) as (M' & E' & _ & _ & _ & _ & _ & _ & WM' & D' & _ & RT').
  exists M, M'. split; [exact E|]. split; [exact E'|]. split; [now apply WM|]. split; [now apply WM'|]. split; [exact L|].
  split; [|split; [exact RT|exact RT']]. intros i Hi. rewrite D by auto. rewrite D' by congruence. now apply perm_den.
Qed.

(* every __setitem__ / __getitem__ path of the C04 state machine: the new state is well-formed, and the same request on the
   same tensor stored in another order gives the same state (up to order) and the same read result *)
Theorem indep_step (S S' : sparse V) (o : op V) S1 out S1' out' : wf S -> wf S' -> sshape S' = sshape S ->
  Permutation (entries S) (entries S') ->
  step_sparse v0 isz S o = Some (S1, out) -> step_sparse v0 isz S' o = Some (S1', out') ->
  same_result S1 S1' /\ out = out'.
Proof.
  intros W W' Hs P E E'.
  destruct (refine_sparse v0 isz isz_spec S o S1 out W E) as (a & Ea & Qa & W1).
  destruct (refine_sparse v0 isz isz_spec S' o S1' out' W' E') as (a' & Ea' & Qa' & W1').
  assert (Q : eq_amap (abs_sp v0 S) (abs_sp v0 S')).
  { split; [cbn; congruence|]. intros i. cbn. now apply perm_den. }
  pose proof (spec_step_congr v0 _ _ o Q) as C. rewrite Ea, Ea' in C. destruct C as [[Cs Cf] Co].
  split; [|exact Co].
  destruct Qa as [Qs Qf]. destruct Qa' as [Qs' Qf']. cbn [abs_sp ashape af] in *.
  apply same_den_same_result; auto; [congruence|]. intros i _. now rewrite Qf, Qf', Cf.
Qed.
End Other.
