(* Props/C19W5.v — C19, wave 5 / 6.  sptensor.scale(factor, dims) with a numpy vector as factor over the generated tt_dimscheck:
   the receiver that stores no entry compares the vector's shape before it returns the copy (C19-N27, repaired 98f7017): the checks
   reject exactly when the precondition fails, whether the receiver stores an entry or not. *)
From Coq Require Import List ZArith Bool.
From PV Require Import Np.NpZ Np.NpZ2 Gen.GenUtils Model.C19Guards Proofs.C19W5.
Import ListNotations.
Local Open Scope Z_scope.

Theorem C19_sptensor_scale_arr : forall s e flen d,
  guard_sptensor_scale_arr s e flen d = decide (pre_sptensor_scale_arr s e flen d).
Proof. exact sptensor_scale_arr_decides. Qed.
Print Assumptions C19_sptensor_scale_arr.
Example C19_sptensor_scale_arr_ex : guard_sptensor_scale_arr [2; 3; 2] false 3 [1] = Ok tt /\ guard_sptensor_scale_arr [2; 3; 2] false 5 [1] = Err
  /\ guard_sptensor_scale_arr [2; 3; 2] false 2 [0; 2] = Err /\ guard_sptensor_scale_arr [2; 3; 2] true 5 [1] = Err
  /\ guard_sptensor_scale_arr [2; 3; 2] true 6 [0; 1] = Err /\ guard_sptensor_scale_arr [2; 3; 2] true 3 [1; 1] = Err
  /\ guard_sptensor_scale_arr [2; 3; 2] true 3 [1] = Ok tt /\ pre_sptensor_scale_arr [2; 3; 2] true 5 [1] = false.
Proof. repeat split; reflexivity. Qed.

(* tensor.ttsv(vector, skip_dim) with the default algorithm: "any(n != sz for n in self.shape) or skip_dim >= d" in front of the
   reshapes (C19-N28, repaired 0478ea5): the checks reject exactly when the precondition (cubical tensor, skip_dim None or a mode,
   vector of the modes' length whenever a mode is multiplied) fails — for every shape, vector length and skip_dim *)
Theorem C19_ttsv : forall s vlen skip, guard_ttsv s vlen skip = decide (pre_ttsv s vlen skip).
Proof. exact ttsv_decides. Qed.
Print Assumptions C19_ttsv.
Example C19_ttsv_ex : guard_ttsv [3; 3; 3] 3 None = Ok tt /\ guard_ttsv [3; 3; 3] 2 (Some 0) = Err /\ guard_ttsv [3; 3; 3] 2 (Some 2) = Ok tt
  /\ guard_ttsv [2; 3; 4] 2 None = Err /\ guard_ttsv [3; 3; 3] 3 (Some (-1)) = Err /\ guard_ttsv [3; 3; 3] 3 (Some 3) = Err
  /\ guard_ttsv [2; 4; 1] 2 None = Err /\ guard_ttsv [1; 1] 1 (Some 2) = Err /\ pre_ttsv [2; 4; 1] 2 None = false /\ pre_ttsv [3; 3; 3] 2 (Some 2) = true.
Proof. repeat split; reflexivity. Qed.

(* ttensor.reconstruct(samples, modes) as in /repo HEAD: the modes index a Python list, so a negative mode wraps around and a mode
   listed twice is answered (C19-N29, open; repair fixes/C19-N29.diff = 9d2314a pending).  Refuted in full; exact for non-negative,
   pairwise different modes; the answered set and the gap (= trigger of the finding) exactly.  C19_reconstruct_repaired: the
   method with the pending repair (range + distinctness test) rejects exactly when the precondition fails, for all requests *)
Theorem C19_reconstruct_refuted : ~ reconstruct_stmt.
Proof. exact reconstruct_refuted. Qed.
Print Assumptions C19_reconstruct_refuted.
Theorem C19_reconstruct_partial : forall s modes nsamp,
  forallb (fun m => 0 <=? m) modes = true -> nodupb modes = true ->
  guard_reconstruct s modes nsamp = decide (pre_reconstruct s modes nsamp).
Proof. exact reconstruct_partial. Qed.
Print Assumptions C19_reconstruct_partial.
Theorem C19_reconstruct_exact : forall s modes nsamp,
  guard_reconstruct s modes nsamp = decide ((nsamp =? zlen modes) && forallb (wrap_range (ndim s)) modes).
Proof. exact reconstruct_exact. Qed.
Print Assumptions C19_reconstruct_exact.
Theorem C19_reconstruct_gap : forall s modes nsamp,
  guard_reconstruct s modes nsamp = Ok tt /\ pre_reconstruct s modes nsamp = false <->
  nsamp = zlen modes /\ forallb (wrap_range (ndim s)) modes = true /\ modes_ok (ndim s) modes = false.
Proof. exact reconstruct_gap. Qed.
Print Assumptions C19_reconstruct_gap.
Theorem C19_reconstruct_repaired : forall s modes nsamp,
  guard_reconstruct_fixed s modes nsamp = decide (pre_reconstruct s modes nsamp).
Proof. exact reconstruct_fixed_decides. Qed.
Print Assumptions C19_reconstruct_repaired.
Example C19_reconstruct_ex : guard_reconstruct [2; 3; 4] [2; 0] 2 = Ok tt /\ guard_reconstruct [2; 3; 4] [2; 0] 3 = Err
  /\ guard_reconstruct [2; 3; 4] [3] 1 = Err /\ guard_reconstruct [2; 3; 4] [-1] 1 = Ok tt /\ guard_reconstruct [2; 3; 4] [0; 0] 2 = Ok tt
  /\ guard_reconstruct [2; 3; 4] [-4] 1 = Err /\ pre_reconstruct [2; 3; 4] [-1] 1 = false /\ pre_reconstruct [2; 3; 4] [0; 0] 2 = false
  /\ guard_reconstruct_fixed [2; 3; 4] [2; 0] 2 = Ok tt /\ guard_reconstruct_fixed [2; 3; 4] [-1] 1 = Err /\ guard_reconstruct_fixed [2; 3; 4] [0; 0] 2 = Err.
Proof. repeat split; reflexivity. Qed.

(* ktensor.score(other, threshold), sptensor.subdims(region), ktensor.from_vector(data, shape, contains_weights): the checks the code
   makes reject exactly when the precondition fails *)
Theorem C19_score : forall s u ra rb thr_ok, guard_score s u ra rb thr_ok = decide (pre_score s u ra rb thr_ok).
Proof. exact score_decides. Qed.
Print Assumptions C19_score.
Theorem C19_subdims : forall s k, guard_subdims s k = decide (pre_subdims s k).
Proof. exact subdims_decides. Qed.
Print Assumptions C19_subdims.
Theorem C19_from_vector : forall n shape cw, guard_from_vector n shape cw = decide (pre_from_vector n shape cw).
Proof. exact from_vector_decides. Qed.
Print Assumptions C19_from_vector.
Example C19_score_ex : guard_score [2; 3] [2; 3] 3 2 true = Ok tt /\ guard_score [2; 3] [3; 2] 3 2 true = Err
  /\ guard_score [2; 3] [2; 3] 2 3 true = Err /\ guard_score [2; 3] [2; 3] 3 2 false = Err /\ guard_subdims [2; 3; 2] 3 = Ok tt
  /\ guard_subdims [2; 3; 2] 2 = Err /\ guard_from_vector 10 [2; 3] false = Ok tt /\ guard_from_vector 12 [2; 3] true = Ok tt
  /\ guard_from_vector 11 [2; 3] false = Err /\ guard_from_vector 10 [2; 3] true = Err.
Proof. repeat split; reflexivity. Qed.
