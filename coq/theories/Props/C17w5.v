(* Props/C17w5.v — C17, wave 5.
   (1) The A-41 trigger is EXACT for tt_setdiff_rows as well (counting argument, Proofs/C17A41b.v), and for both generated
       helpers under the ORDER-FREE contract by which tools/props/c17.py judges pyttb's own output.
   (2) sptensor.allsubs for ALL shapes with sizes >= 1, over the generated method and the generated khatrirao
       (Proofs/C17Allsubs.v): the statement Proofs/W3Methods2.v kept as the unproved allsubs_enumerates_stmt.
   Only `exact` proofs here. *)
From Coq Require Import List ZArith Arith Bool Permutation Sorted.
From PV Require Import Base.Index Np.NpZ Np.NpZ2 Np.NpZ3 Np.NpZ3c Np.NpZ3d Proofs.NpZProofs Gen.GenUtils Gen.GenUtils2
  Gen.GenKernels Gen.GenMethods2 Proofs.RowsProofs Proofs.C03Rows Proofs.GenRows Proofs.C17Dup Proofs.C17A41 Proofs.C17A41b Proofs.C17A41Fix
  Proofs.W3Methods2 Proofs.C17Allsubs.
Import ListNotations.
Local Open Scope Z_scope.

(* A-41, tt_setdiff_rows: inside the trigger the rows at the returned indices are not even a rearrangement of the distinct
   rows of A outside B — on EVERY request inside the trigger *)
Theorem C17_a41_setdiff_inside : forall A B : mat, okw A -> okw B -> a41_trigger A B = true ->
  forall idx, tt_setdiff_rows A B = Ok idx ->
    ~ Permutation (np_take [] A idx) (filter (fun r => negb (inrows B r)) (dedup A)).
Proof. exact a41_setdiff_inside. Qed.
Print Assumptions C17_a41_setdiff_inside.

(* ordered contract (A[result] = distinct rows of A outside B in first-occurrence order) <-> outside the trigger *)
Theorem C17_a41_setdiff_exact : forall A B : mat, okw A -> okw B ->
  ((exists idx, tt_setdiff_rows A B = Ok idx /\ np_take [] A idx = filter (fun r => negb (inrows B r)) (dedup A))
   <-> a41_trigger A B = false).
Proof. exact a41_setdiff_exact. Qed.
Print Assumptions C17_a41_setdiff_exact.

(* order-free contract <-> outside the trigger, both helpers *)
Theorem C17_a41_setdiff_perm_exact : forall A B : mat, okw A -> okw B ->
  ((exists idx, tt_setdiff_rows A B = Ok idx /\
      Permutation (np_take [] A idx) (filter (fun r => negb (inrows B r)) (dedup A)))
   <-> a41_trigger A B = false).
Proof. exact a41_setdiff_perm_exact. Qed.
Print Assumptions C17_a41_setdiff_perm_exact.

Theorem C17_a41_intersect_perm_exact : forall A B : mat, okw A -> okw B ->
  ((exists idx, tt_intersect_rows A B = Ok idx /\ Permutation (np_take [] A idx) (filter (inrows A) (dedup B)))
   <-> a41_trigger A B = false).
Proof. exact a41_intersect_perm_exact. Qed.
Print Assumptions C17_a41_intersect_perm_exact.

Example C17_a41_inside_examples :
  (a41_trigger [[1]; [1]; [2]; [3]] [[2]] = true /\ tt_setdiff_rows [[1]; [1]; [2]; [3]] [[2]] = Ok [0; 2; 3] /\
   filter (fun r => negb (inrows [[2]] r)) (dedup [[1]; [1]; [2]; [3]]) = [[1]; [3]]) /\
  (a41_trigger [[1]; [1]; [2]; [3]] [[3]; [2]] = true /\ tt_intersect_rows [[1]; [1]; [2]; [3]] [[3]; [2]] = Ok [2; 1] /\
   np_take [] [[1]; [1]; [2]; [3]] [2; 1] = [[2]; [1]] /\ filter (inrows [[1]; [1]; [2]; [3]]) (dedup [[3]; [2]]) = [[3]; [2]]).
Proof. exact (conj a41_setdiff_inside_example a41_intersect_inside_example). Qed.

(* the two-line repair recorded in finding A-41 (np.sort(idxA)[location[valid]] in both helpers), as a model over the proved
   return values of the regenerated code: full contract for ALL arguments; unchanged results outside the trigger *)
Theorem C17_a41_repair_contract : forall A B : mat,
  np_take [] A (repaired_intersect A B) = filter (inrows A) (dedup B) /\
  np_take [] A (repaired_setdiff A B) = filter (fun r => negb (inrows B r)) (dedup A) /\
  StronglySorted Z.lt (repaired_setdiff A B).
Proof. exact repair_contract. Qed.
Print Assumptions C17_a41_repair_contract.

Theorem C17_a41_repair_agrees_outside : forall A B : mat, okw A -> okw B -> a41_trigger A B = false ->
  tt_intersect_rows A B = Ok (repaired_intersect A B) /\ tt_setdiff_rows A B = Ok (repaired_setdiff A B).
Proof. exact repair_agrees_outside. Qed.
Print Assumptions C17_a41_repair_agrees_outside.

(* sptensor.allsubs (generated): every shape with sizes >= 1 *)
Theorem C17_gen_allsubs_all_shapes : forall subs vals shp, forallb (fun d => 1 <=? d) shp = true ->
  sptensor_allsubs (mkspt subs vals shp) = Ok (subs_C shp).
Proof. exact allsubs_enumerates. Qed.
Print Assumptions C17_gen_allsubs_all_shapes.

(* ... and what that list is: exactly the subscripts of the shape, each once, the subscript s at its C-order linear index
   (last subscript fastest) *)
Theorem C17_gen_allsubs_reading : forall subs vals shp, (forall d, In d shp -> 1 <= d) ->
  exists S, sptensor_allsubs (mkspt subs vals shp) = Ok S /\
    (forall s, In s S <-> in_range shp s) /\ NoDup S /\ length S = Z.to_nat (zprod shp) /\
    (forall s, in_range shp s -> nth (Z.to_nat (cindex shp s)) S [] = s).
Proof. exact allsubs_all_shapes. Qed.
Print Assumptions C17_gen_allsubs_reading.

(* the generated khatrirao on one-column matrices: the nested Kronecker product of the columns, first argument slowest *)
Theorem C17_gen_khatrirao_columns : forall (v : vec) (rest : list vec), (forall w, In w (v :: rest) -> w <> []) ->
  GenKernels.khatrirao (map np_col_mat (v :: rest)) false = Ok (np_col_mat (vkr (v :: rest))).
Proof. exact gen_kr_cols. Qed.
Print Assumptions C17_gen_khatrirao_columns.

Example C17_gen_allsubs_all_shapes_example :
  sptensor_allsubs (mkspt [] [] [2; 1; 3]) = Ok [[0; 0; 0]; [0; 0; 1]; [0; 0; 2]; [1; 0; 0]; [1; 0; 1]; [1; 0; 2]] /\
  cindex [2; 1; 3] [1; 0; 1] = 4.
Proof. exact allsubs_all_shapes_example. Qed.
