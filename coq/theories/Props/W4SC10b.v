(* Props/W4SC10b.v — C10 (Tucker-ALS control flow: iteration limit, fit-change stop rule, returned initial guess, reported
   quantities) stated over the GENERATED skeleton Gen/GenTuckerAls.v (tools/pyx2v_skel.py regenerates it from the region
   `U = Uinit.copy()` .. `return solution, Uinit, output` of /repo/pyttb/tucker_als.py on every run).  All numeric kernels are
   arbitrary.  `gmain ... = Some r` = the Python code returns r without raising (maxiters = 0 raises: finding C10-N01).
   Only statements, `exact`, Print Assumptions. *)
From Coq Require Import String List Arith Bool.
From PV Require Import Model.W4SPrelude Gen.GenTuckerAls Model.C10Loop Proofs.C10LoopProofs Proofs.W4STucker.
Import ListNotations.
Local Open Scope nat_scope.

Section W4SC10b.
Variables T_F T_Mat T_X T_TT : Type.
Variable c_leF : T_F -> T_F -> bool.
Variable c_zeroF : T_F.
Variable k_ttm_excl : T_X -> list T_Mat -> nat -> bool -> T_X.
Variable k_nvecs : T_X -> nat -> nat -> T_Mat.
Variable k_ttm_core : T_X -> list T_Mat -> nat -> bool -> T_X.
Variable k_resid : T_F -> T_X -> T_F.
Variable k_fit : T_F -> T_F -> T_F.
Variable k_absdiff : T_F -> T_F -> T_F.
Variable k_ttensor : T_X -> list T_Mat -> bool -> T_TT.

Notation gmain := (GenTuckerAls.tucker_als_main T_F T_Mat T_X T_TT c_leF c_zeroF k_ttm_excl k_nvecs k_ttm_core k_resid k_fit k_absdiff k_ttensor).
Notation tproject := (t_project T_Mat T_X k_ttm_excl).
Notation tcore := (t_core_of T_Mat T_X k_ttm_core).
Notation tnormres := (t_normres_of T_F T_X k_resid).
Notation tfit := (t_fit_of T_F k_fit).
Notation tlt := (t_fchange_lt T_F c_leF k_absdiff).

(* BRIDGE: the generated main part of tucker_als computes what Model/C10Loop.v tals_run computes *)
Theorem W4S_C10_tucker_bridge : forall X Uinit normX rank dimorder maxiters stoptol printitn sol Uret iters nr fit,
  gmain X Uinit normX rank dimorder maxiters stoptol printitn = Some (sol, Uret, (iters, nr, fit)) ->
  exists r,
    tals_run T_Mat T_X T_X T_F (tproject X) k_nvecs tcore (tnormres normX) (tfit normX) tlt c_zeroF rank dimorder
             stoptol printitn Uinit maxiters = Some r /\
    sol = k_ttensor (tr_core _ _ _ r) (tr_U _ _ _ r) false /\ Uret = Uinit /\ tr_init _ _ _ r = Uinit /\
    tr_iters _ _ _ r = iters /\ tr_normres _ _ _ r = nr /\ tr_fit _ _ _ r = fit.
Proof. exact (tucker_bridge T_F T_Mat T_X T_TT c_leF c_zeroF k_ttm_excl k_nvecs k_ttm_core k_resid k_fit k_absdiff k_ttensor). Qed.

(* the stop rule over the generated code *)
Theorem W4S_C10_tucker_stop_rule : forall X Uinit normX rank dimorder maxiters stoptol printitn sol Uret iters nr fit,
  dimorder <> [] ->
  gmain X Uinit normX rank dimorder maxiters stoptol printitn = Some (sol, Uret, (iters, nr, fit)) ->
  let fat := fit_at T_Mat T_X T_X T_F (tproject X) k_nvecs tcore (tnormres normX) (tfit normX) rank dimorder Uinit in
  let fbefore := fit_before T_Mat T_X T_X T_F (tproject X) k_nvecs tcore (tnormres normX) (tfit normX) c_zeroF rank dimorder Uinit in
  (0 < maxiters) /\ (iters < maxiters) /\ (Uret = Uinit) /\ (fat iters = Some fit) /\
  (forall i, i < iters -> exists fo fi, fbefore i = Some fo /\ fat i = Some fi /\ tlt fo fi stoptol = false) /\
  (iters < maxiters - 1 -> exists fo, fbefore iters = Some fo /\ tlt fo fit stoptol = true).
Proof. exact (gen_tucker_spec T_F T_Mat T_X T_TT c_leF c_zeroF k_ttm_excl k_nvecs k_ttm_core k_resid k_fit k_absdiff k_ttensor). Qed.
End W4SC10b.

Print Assumptions W4S_C10_tucker_bridge.
Print Assumptions W4S_C10_tucker_stop_rule.
