(* Proofs/C04NpAdvExact.v — C04, wave 4: numpy's advanced indexing and the outer product COINCIDE on keys with exactly one index list
   whose other elements are slices (outside the class of the open finding A-16): same result shape, same positions, same order.
   Stated on the per-mode table fl = combine (map is_adv es) (map snd ls) that np_adv_positions computes from. *)
From Coq Require Import List Arith ZArith Lia Bool.
From PV Require Import Base.Index Np.Array Model.Sparse Model.Harness Model.C04Model Model.C04Harness Model.C04Mat Model.C04Extra
  Proofs.C04Dense Proofs.C04Sparse.
Import ListNotations.

Definition slices_fl (A : list (list nat)) : list (bool * list nat) := map (pair false) A.

Definition rebuild (p : nat) (fl : list (bool * list nat)) (t : idx) : idx :=
  adv_build fl (nth p t 0) (firstn p t ++ skipn (S p) t).

Lemma adv_build_slices B j : forall t, length t = length B -> adv_build (slices_fl B) j t = t.
Proof.
  induction B as [|b B IH]; intros [|x t] H; cbn in *; try lia; auto. f_equal. apply IH. lia.
Qed.

Lemma map_flat_map {A B C} (f : B -> C) (g : A -> list B) X : map f (flat_map g X) = flat_map (fun t => map f (g t)) X.
Proof. induction X as [|x X IH]; cbn; auto. now rewrite map_app, IH. Qed.

Lemma flat_map_map {A B C} (g : B -> list C) (h : A -> B) X : flat_map g (map h X) = flat_map (fun t => g (h t)) X.
Proof. induction X as [|x X IH]; cbn; auto. now rewrite IH. Qed.

Lemma flat_map_ext_in' {A B} (f g : A -> list B) X : (forall t, In t X -> f t = g t) -> flat_map f X = flat_map g X.
Proof. induction X as [|x X IH]; intros H; cbn; auto. rewrite (H x) by (left; reflexivity). f_equal. apply IH. intros; apply H; right; assumption. Qed.

Lemma in_cartF_len ls : forall t, In t (cartF ls) -> length t = length ls.
Proof.
  induction ls as [|l ls IH]; intros t H; cbn in H.
  - destruct H as [<-|[]]. reflexivity.
  - apply in_flat_map in H as (t' & Ht' & H). apply in_map_iff in H as (x & <- & _). cbn. f_equal. auto.
Qed.

Lemma map_nth_sel (l : list nat) (t : idx) :
  map (fun j => nth (if Nat.eqb (length l) 1 then 0 else j) l 0 :: t) (seq 0 (length l)) = map (fun x => x :: t) l.
Proof.
  destruct (Nat.eqb_spec (length l) 1) as [E|E].
  - destruct l as [|x [|y r]]; cbn in E; try lia. reflexivity.
  - clear E. rewrite <- (map_map (fun j => nth j l 0) (fun x => x :: t)). f_equal.
    induction l as [|x l IH]; [reflexivity|]. cbn [length seq map nth]. f_equal. rewrite <- seq_shift, map_map. exact IH.
Qed.

(* the positions numpy selects through one list among slices are the outer product, in the same (F) order *)
Lemma np_single_list_positions (A B : list (list nat)) (l : list nat) :
  map (rebuild (length A) (slices_fl A ++ (true, l) :: slices_fl B)) (cartF (A ++ seq 0 (length l) :: B)) = cartF (A ++ l :: B).
Proof.
  induction A as [|a A IH].
  - cbn [app length slices_fl map cartF]. rewrite map_flat_map. apply flat_map_ext_in'. intros t Ht.
    rewrite map_map. rewrite <- map_nth_sel. apply map_ext. intros j. unfold rebuild. cbn [nth firstn skipn app adv_build].
    fold (slices_fl B). rewrite adv_build_slices by (now apply in_cartF_len). reflexivity.
  - cbn [app length cartF]. rewrite map_flat_map. rewrite <- IH. rewrite flat_map_map. apply flat_map_ext_in'. intros t Ht.
    rewrite map_map. apply map_ext. intros x. unfold rebuild. cbn [slices_fl map app nth firstn skipn adv_build]. reflexivity.
Qed.

Lemma combine_flags (A B : list (list nat)) l :
  combine (repeat false (length A) ++ true :: repeat false (length B)) (A ++ l :: B) = slices_fl A ++ (true, l) :: slices_fl B.
Proof.
  induction A as [|a A IH]; cbn [length repeat app combine slices_fl map].
  - f_equal. induction B as [|b B IHB]; cbn; auto. now rewrite IHB.
  - f_equal. exact IH.
Qed.

Lemma filter_adv A B l : filter (fun x : bool * list nat => fst x) (slices_fl A ++ (true, l) :: slices_fl B) = [(true, l)].
Proof.
  assert (H : forall X, filter (fun x : bool * list nat => fst x) (slices_fl X) = [])
    by (induction X as [|x X IH]; [reflexivity|]; change (slices_fl (x :: X)) with ((false, x) :: slices_fl X); cbn [filter fst]; exact IH).
  rewrite filter_app, H.
  change (filter (fun x : bool * list nat => fst x) ((true, l) :: slices_fl B))
    with ((true, l) :: filter (fun x : bool * list nat => fst x) (slices_fl B)).
  now rewrite H.
Qed.

Lemma filter_nonadv A B l :
  map snd (filter (fun x : bool * list nat => negb (fst x)) (slices_fl A ++ (true, l) :: slices_fl B)) = A ++ B.
Proof.
  assert (H : forall X, map snd (filter (fun x : bool * list nat => negb (fst x)) (slices_fl X)) = X)
    by (induction X as [|x X IH]; [reflexivity|]; change (slices_fl (x :: X)) with ((false, x) :: slices_fl X);
        cbn [filter fst negb map snd]; f_equal; exact IH).
  rewrite filter_app, map_app, H.
  change (filter (fun x : bool * list nat => negb (fst x)) ((true, l) :: slices_fl B))
    with (filter (fun x : bool * list nat => negb (fst x)) (slices_fl B)).
  now rewrite H.
Qed.

Lemma lead_nonadv A X : (match X with (true, _) :: _ => True | _ => False end) ->
  lead_len (fun x : bool * list nat => negb (fst x)) (slices_fl A ++ X) = length A.
Proof. intros H. induction A; cbn; auto. destruct X as [|[[|] l] X]; try contradiction. reflexivity. Qed.

Lemma skipn_slices A X : skipn (length A) (slices_fl A ++ X) = X.
Proof. induction A; cbn; auto. Qed.

Lemma lead_adv_one B l : lead_len (fun x : bool * list nat => fst x) ((true, l) :: slices_fl B) = 1.
Proof. cbn. destruct B; reflexivity. Qed.

Lemma forallb_slices B : forallb (fun x : bool * list nat => negb (fst x)) (slices_fl B) = true.
Proof. induction B; cbn; auto. Qed.

Lemma firstn_app_len {X} (A B : list X) : firstn (length A) (A ++ B) = A.
Proof. induction A; cbn; auto. now f_equal. Qed.
Lemma skipn_app_len {X} (A B : list X) : skipn (length A) (A ++ B) = B.
Proof. induction A; cbn; auto. Qed.

(* OUTSIDE the A-16 class (one index list, every other element a slice): numpy's selection IS the outer product *)
Theorem np_adv_single_list (s : shape) (es : list kelem) ls (A B : list (list nat)) (l : list nat) :
  s <> [] -> region_lists s es = Some ls ->
  map is_adv es = repeat false (length A) ++ true :: repeat false (length B) ->
  map snd ls = A ++ l :: B ->
  (forall kl, In kl ls -> fst kl = true) ->
  np_adv_positions s es = Some (kept_shape ls, cartF (map snd ls)).
Proof.
  intros Hs Hrl Hadv Hsnd Hkept. unfold np_adv_positions. destruct s as [|d s']; [congruence|]. rewrite Hrl. cbv zeta.
  rewrite Hadv, Hsnd, combine_flags. rewrite filter_adv. cbn [map snd fold_right length].
  rewrite Nat.max_0_r. cbn [forallb]. rewrite Nat.eqb_refl. cbn [orb andb].
  rewrite (lead_nonadv A ((true, l) :: slices_fl B) I), skipn_slices, lead_adv_one. cbn [skipn].
  rewrite forallb_slices, filter_nonadv, firstn_app_len, skipn_app_len. f_equal. f_equal.
  - unfold kept_shape. rewrite !map_app. cbn [map]. rewrite seq_length.
    assert (Hf : filter (fun x : bool * list nat => fst x) ls = ls).
    { clear -Hkept. induction ls as [|kl ls IH]; [reflexivity|]. cbn [filter]. rewrite (Hkept kl) by (left; reflexivity).
      f_equal. apply IH. intros; apply Hkept; right; assumption. }
    rewrite Hf. rewrite <- (map_map snd (@length nat)), Hsnd, map_app. reflexivity.
  - apply np_single_list_positions.
Qed.

Example np_adv_single_list_example :
  np_adv_positions [3; 4; 2] [KSlice None None (Some 2%Z); KList [3; 0; 3]%Z; KSlice None None None]
  = Some ([2; 3; 2], cartF [[0; 2]; [3; 0; 3]; [0; 1]]).
Proof. vm_compute. reflexivity. Qed.
