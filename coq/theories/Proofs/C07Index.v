(* Proofs/C07Index.v — index/permutation lemmas shared by C07 and the C01 matricisation proofs:
   in-bounds tests and F-order indices under pick, permutation of lists by pick. *)
From Coq Require Import List Arith Lia Bool Permutation.
From PV Require Import Base.Index Base.Perm.
Import ListNotations.

(* pointwise reading of inb *)
Lemma inb_nth s i : inb s i = true <-> (length i = length s /\ forall k, k < length s -> nth k i 0 < nth k s 0).
Proof.
  revert i; induction s as [|d s IH]; intros [|x i]; cbn [inb length]; split; intros H; try discriminate; try (destruct H; discriminate).
  - split; auto. intros; lia.
  - reflexivity.
  - apply andb_true_iff in H as [Hx Hi]. apply Nat.ltb_lt in Hx. apply IH in Hi as [HL Hk].
    split; [lia|]. intros [|k] Hlt; cbn; auto. apply Hk. lia.
  - destruct H as [HL Hk]. apply andb_true_iff; split.
    + apply Nat.ltb_lt. apply (Hk 0). lia.
    + apply IH. split; [lia|]. intros k Hlt. apply (Hk (S k)). lia.
Qed.

Lemma inb_pick_sub s i q : inb s i = true -> (forall k, In k q -> k < length s) ->
  inb (pick 0 q s) (pick 0 q i) = true.
Proof.
  intros Hi Hq. apply inb_nth in Hi as [HL Hk].
  induction q as [|a q IH]; [reflexivity|]. cbn [pick map inb].
  apply andb_true_iff; split.
  - apply Nat.ltb_lt. apply Hk. apply Hq. cbn; auto.
  - apply IH. intros; apply Hq; cbn; auto.
Qed.

Lemma inb_pick s i p : is_perm p (length s) -> length i = length s ->
  inb (pick 0 p s) (pick 0 p i) = inb s i.
Proof.
  intros Hp HL.
  destruct (inb s i) eqn:E.
  - apply inb_pick_sub; auto. intros k Hk. now apply (is_perm_In p _ k Hp).
  - destruct (inb (pick 0 p s) (pick 0 p i)) eqn:E2; auto.
    pose proof (invperm_is_perm _ _ Hp) as Hq.
    assert (G : inb (pick 0 (invperm p) (pick 0 p s)) (pick 0 (invperm p) (pick 0 p i)) = true).
    { apply inb_pick_sub; auto. intros k Hk. rewrite pick_length, (is_perm_length _ _ Hp).
      now apply (is_perm_In _ _ k Hq). }
    rewrite (pick_invperm_pick 0 p (length s)) in G by auto.
    rewrite (pick_invperm_pick 0 p (length s)) in G by auto. congruence.
Qed.

(* the form used for np.transpose: i ranges over the permuted shape *)
Lemma inb_pick_inv s i p : is_perm p (length s) -> length i = length s ->
  inb (pick 0 p s) i = inb s (pick 0 (invperm p) i).
Proof.
  intros Hp HL. pose proof (is_perm_length _ _ Hp) as HpL.
  rewrite <- (inb_pick s (pick 0 (invperm p) i) p Hp) by (rewrite pick_length, invperm_length; lia).
  now rewrite (pick_pick_invperm 0 p (length s)) by auto.
Qed.

Lemma map_pick {A B} (f : A -> B) d p (l : list A) : map f (pick d p l) = pick (f d) p (map f l).
Proof.
  unfold pick. rewrite map_map. apply map_ext. intros k.
  revert k; induction l as [|x l IH]; intros [|k]; cbn; auto.
Qed.

Lemma pick_Permutation {A} (d : A) p (l : list A) : is_perm p (length l) -> Permutation (pick d p l) l.
Proof.
  intros Hp. rewrite <- (pick_seq d l) at 2. unfold pick. now apply Permutation_map.
Qed.

Lemma size_perm s s' : Permutation s s' -> size s = size s'.
Proof.
  induction 1 as [|a l l' _ IH|a b l|l l' l'' _ IH1 _ IH2]; auto.
  - rewrite !size_cons. now rewrite IH.
  - rewrite !size_cons. lia.
  - congruence.
Qed.

Lemma size_pick p s : is_perm p (length s) -> size (pick 0 p s) = size s.
Proof. intros H. apply size_perm. now apply pick_Permutation. Qed.

Lemma combine_pick {A B} (da : A) (db : B) p (la : list A) (lb : list B) : length la = length lb ->
  combine (pick da p la) (pick db p lb) = pick (da, db) p (combine la lb).
Proof.
  intros HL. unfold pick. induction p as [|k p IH]; [reflexivity|]. cbn [map combine]. f_equal; auto.
  destruct (Nat.lt_ge_cases k (length la)) as [Hk|Hk].
  - now rewrite combine_nth.
  - rewrite !nth_overflow; auto; try lia. rewrite combine_length. lia.
Qed.

(* a list is determined by its picks along a covering family of positions *)
Lemma pick_cover_ext (i j : idx) (q1 q2 : list nat) : length i = length j ->
  (forall k, k < length i -> In k q1 \/ In k q2) ->
  pick 0 q1 i = pick 0 q1 j -> pick 0 q2 i = pick 0 q2 j -> i = j.
Proof.
  intros HL Hc E1 E2. apply (nth_ext _ _ 0 0); auto. intros k Hk.
  assert (G : forall q, pick 0 q i = pick 0 q j -> In k q -> nth k i 0 = nth k j 0).
  { induction q as [|a q IH]; cbn; [tauto|]. intros E [->|Hin]; inversion E; auto. }
  destruct (Hc k Hk); eauto.
Qed.

Lemma app_inv_length_eq {A} (a b c d : list A) : length a = length c -> a ++ b = c ++ d -> a = c /\ b = d.
Proof.
  revert c; induction a as [|x a IH]; intros [|y c] HL E; cbn in *; try discriminate; auto.
  inversion E; subst. destruct (IH c) as [-> ->]; auto.
Qed.
