(* Model/C14Nvecs.v — leading mode-n vectors (nvecs of tensor / sptensor / ktensor / ttensor): value-generic model.
   * gram_spec: the mode-n Gram matrix as a function of the DENOTATION, G[a,b] = sum_{i : rest} X(a,i) X(b,i)
   * the Gram matrix as each representation computes it (dense: Xn Xn^T; Kruskal: A_n (ll^T o o_{m<>n} A_m^T A_m) A_n^T;
     Tucker: through the core)
   * the post-processing shared by the four nvecs: argsort(-|w|), column slice [:r], sign flip loop *)
From Coq Require Import List Arith Lia Bool.
From PV Require Import Base.Index Base.Sum Np.Array Model.Sparse Model.Repr.
Import ListNotations.

Definition insert_at (n a : nat) (i : list nat) : list nat := firstn n i ++ a :: skipn n i.
Definition remove_nth {A} (n : nat) (l : list A) : list A := firstn n l ++ skipn (S n) l.

Section Gram.
Context {V : Type} (v0 v1 : V) (vadd vmul : V -> V -> V).
Notation matrix := (list (list V)).

Definition gram_spec (s : shape) (X : idx -> V) (n a b : nat) : V :=
  sum_over v0 vadd (allsubs (remove_nth n s)) (fun i => vmul (X (insert_at n a i)) (X (insert_at n b i))).
Definition mtab (m k : nat) (f : nat -> nat -> V) : matrix := map (fun a => map (fun b => f a b) (seq 0 k)) (seq 0 m).
Definition gram_matrix (s : shape) (X : idx -> V) (n : nat) : matrix :=
  mtab (nth n s 0) (nth n s 0) (gram_spec s X n).

(* ---- dense: Xn = to_tenmat(rdims=[n]).double()  (I_n x prod(rest), columns in F order of the remaining modes);  y = Xn @ Xn.T *)
Definition unfold_n (X : dense V) (n : nat) : matrix :=
  let rest := remove_nth n (dshape X) in
  mtab (nth n (dshape X) 0) (size rest) (fun a c => den_dense v0 X (insert_at n a (ind2sub rest c))).
Definition row_dot (k : nat) (r1 r2 : list V) : V := sum_n v0 vadd k (fun c => vmul (nth c r1 v0) (nth c r2 v0)).
Definition gram_dense_impl (X : dense V) (n : nat) : matrix :=
  let Xn := unfold_n X n in
  let k := size (remove_nth n (dshape X)) in
  map (fun ra => map (fun rb => row_dot k ra rb) Xn) Xn.

(* ---- Kruskal: M = l l^T;  for i <> n: M = M * (A_i^T A_i);  y = A_n @ M @ A_n^T *)
Definition col_gram (A : matrix) (r s : nat) : V := sum_over v0 vadd A (fun row => vmul (nth r row v0) (nth s row v0)).
Definition kgram_M (K : ktensor V) (n r s : nat) : V :=
  fold_left (fun acc A => vmul acc (col_gram A r s)) (remove_nth n (kfactors K))
            (vmul (nth r (kweights K) v0) (nth s (kweights K) v0)).
Definition gram_k_impl (K : ktensor V) (n : nat) : matrix :=
  let An := nth n (kfactors K) [] in
  let R := krank K in
  map (fun ra => map (fun rb =>
      sum_n v0 vadd R (fun s => vmul (sum_n v0 vadd R (fun r => vmul (nth r ra v0) (kgram_M K n r s))) (nth s rb v0))) An) An.

End Gram.

(* ---------------------------------------------------------------------------------------- *)
(* post-processing:  v = v[:, (-np.abs(w)).argsort()];  v = v[:, :r];  flip loop                *)
(* ---------------------------------------------------------------------------------------- *)
Section Post.
Context {V : Type} (v0 : V) (vabs vopp : V -> V) (vltb : V -> V -> bool).

(* stable descending insertion sort of (key, index) pairs: argsort of -|w| *)
Fixpoint ins_desc (p : V * nat) (l : list (V * nat)) : list (V * nat) :=
  match l with
  | [] => [p]
  | q :: r => if vltb (fst p) (fst q) then q :: ins_desc p r else p :: l
  end.
Definition keyed (w : list V) : list (V * nat) := combine (map vabs w) (seq 0 (length w)).
Definition sort_desc (l : list (V * nat)) : list (V * nat) := fold_right ins_desc [] l.
Definition argsort_desc_abs (w : list V) : list nat := map snd (sort_desc (keyed w)).

(* np.argmax(np.abs(c)): first index of the maximum *)
Fixpoint argmax_from (best : nat) (bv : V) (k : nat) (c : list V) : nat :=
  match c with
  | [] => best
  | x :: c' => if vltb bv (vabs x) then argmax_from k (vabs x) (S k) c' else argmax_from best bv (S k) c'
  end.
Definition argmax_abs (c : list V) : nat :=
  match c with [] => 0 | x :: c' => argmax_from 0 (vabs x) 1 c' end.

Definition flip_col (c : list V) : list V :=
  if vltb (nth (argmax_abs c) c v0) v0 then map vopp c else c.

(* columns of the solver's eigenvector matrix in, selected (and flipped) columns out *)
Definition select_cols (w : list V) (cols : list (list V)) (r : nat) : list (list V) :=
  map (fun k => nth k cols []) (firstn r (argsort_desc_abs w)).
Definition postprocess (w : list V) (cols : list (list V)) (r : nat) (flipsign : bool) : list (list V) :=
  let sel := select_cols w cols r in
  if flipsign then map flip_col sel else sel.
End Post.
