(* Model/C18Cmp.v — executable boolean comparers over Qc used by the generated C18 metamorphic-pair cases
   (tools/props/c18.py).  Two observed models (Kruskal or Tucker, raw weights / factors / core exactly as pyttb
   returned them, every float an exact dyadic rational) are compared *by denotation*: the full array of the base
   model over all subscripts of the base shape, against the transformed model read at the relabelled subscript
   `pick p i` and divided by nothing: the base side is multiplied by the scale factor `c`.

     base list   l1[k] = c * den  M  (ind2sub s k)                k < size s
     trans list  l2[k] =     den' M' (pick p (ind2sub s k))

   Closeness (decided and documented here): every entry must satisfy
        | l2[k] - l1[k] |  <=  tol * max (1, max_k |l1[k]|)
   i.e. an absolute bound relative to the largest entry of the (scaled) base model, never below `tol` itself.
   With tol = tol8 = 1e-8 this is the "up to rounding" of the property text.  Scalars (fit, objective) use
   Harness.qclose (|a-b| <= tol * max(1,|b|)).  For the seed pair the raw parameter lists are compared with
   Qc equality (tolerance 0).  Definitions only, plus reflexivity lemmas used as non-vacuity sanity checks. *)
From Coq Require Import List ZArith Bool Arith QArith Qabs Qcanon Lia.
From PV Require Import Base.Index Base.Perm Base.Sum Np.Array Model.Sparse Model.Repr Model.Harness.
Import ListNotations.

Definition tol8 : Qc := Q2Qc (1 # 100000000).

(* largest absolute value of a list (0 for the empty list) *)
Definition qmaxabs (l : list Qc) : Qc := fold_left (fun m x => qmax m (qabs x)) l q0.

(* |b - a| <= tol * sc *)
Definition qnear (tol sc a b : Qc) : bool := qleb (qabs (b - a)) (tol * sc).

(* entrywise closeness relative to the largest entry of the first list (floor 1); lengths must agree *)
Definition qlists_close (tol : Qc) (l1 l2 : list Qc) : bool :=
  let sc := qmax q1 (qmaxabs l1) in list_eqb (qnear tol sc) l1 l2.

(* values of a denotation over all subscripts of s (F order), optionally read at relabelled subscripts *)
Definition den_vals (s : shape) (f : idx -> Qc) : list Qc := map (fun k => f (ind2sub s k)) (seq 0 (size s)).
Definition den_vals_at (s : shape) (p : list nat) (f : idx -> Qc) : list Qc :=
  map (fun k => f (pick 0%nat p (ind2sub s k))) (seq 0 (size s)).

(* generic: base denotation f over shape s (scaled by c) against transformed denotation g read through p *)
Definition den_pair_close (tol : Qc) (s : shape) (c : Qc) (p : list nat) (f g : idx -> Qc) : bool :=
  qlists_close tol (map (Qcmult c) (den_vals s f)) (den_vals_at s p g).

(* Kruskal pair: shapes must be s and pick p s *)
Definition kk_close (tol : Qc) (s : shape) (c : Qc) (p : list nat) (K1 K2 : ktensor Qc) : bool :=
  nvec_eqb (kshape K1) s && nvec_eqb (kshape K2) (pick 0%nat p s) && is_permb p (length s) &&
  den_pair_close tol s c p (qden_k K1) (qden_k K2).

(* Tucker pair *)
Definition tt_close (tol : Qc) (s : shape) (c : Qc) (p : list nat) (T1 T2 : ttensor Qc) : bool :=
  nvec_eqb (tshape T1) s && nvec_eqb (tshape T2) (pick 0%nat p s) && is_permb p (length s) &&
  wf_denseb (tcore T1) && wf_denseb (tcore T2) &&
  den_pair_close tol s c p (qden_t T1) (qden_t T2).

(* raw (bitwise) equality of observed parameters: tolerance 0 *)
Definition qvec_eqb : list Qc -> list Qc -> bool := list_eqb Qc_eq_bool.
Definition qmat_eqb : list (list Qc) -> list (list Qc) -> bool := list_eqb qvec_eqb.
Definition k_raw_eqb (K1 K2 : ktensor Qc) : bool :=
  qvec_eqb (kweights K1) (kweights K2) && list_eqb qmat_eqb (kfactors K1) (kfactors K2).
Definition t_raw_eqb (T1 T2 : ttensor Qc) : bool :=
  nvec_eqb (dshape (tcore T1)) (dshape (tcore T2)) && qvec_eqb (ddata (tcore T1)) (ddata (tcore T2)) &&
  list_eqb qmat_eqb (tfactors T1) (tfactors T2).

(* scalars *)
Definition qs_close (tol a b : Qc) : bool := qclose tol a b.
Definition qs_list_close (tol : Qc) (l1 l2 : list Qc) : bool := list_eqb (qclose tol) l1 l2.

(* ---------------------------------------------------------------------------------------------- *)
(* small facts: the comparers accept identical observations (so a `false` is never an artefact)   *)
(* ---------------------------------------------------------------------------------------------- *)
Lemma list_eqb_refl {A} (eqb : A -> A -> bool) (l : list A) :
  (forall x, In x l -> eqb x x = true) -> list_eqb eqb l l = true.
Proof.
  induction l as [|x l IH]; intros H; simpl; [reflexivity|].
  rewrite (H x (or_introl eq_refl)). simpl. apply IH. intros y Hy. apply H. now right.
Qed.

Lemma qleb_true (x y : Qc) : (x <= y)%Qc -> qleb x y = true.
Proof. intros H. unfold qleb. apply Qle_bool_iff. exact H. Qed.

Lemma qmax_ge_l (x y : Qc) : (x <= qmax x y)%Qc.
Proof.
  unfold qmax. destruct (qleb x y) eqn:E.
  - unfold qleb in E. apply Qle_bool_iff in E. exact E.
  - apply Qcle_refl.
Qed.

Lemma tol8_nonneg : (0 <= tol8)%Qc.
Proof. unfold tol8. unfold Qcle. simpl. unfold Qle. simpl. lia. Qed.

Lemma q1_pos : (0 <= q1)%Qc.
Proof. unfold q1, Qcle, Qle. simpl. lia. Qed.

Lemma qnear_refl (tol sc a : Qc) : (0 <= tol)%Qc -> (0 <= sc)%Qc -> qnear tol sc a a = true.
Proof.
  intros Ht Hs. unfold qnear. apply qleb_true.
  replace (a - a)%Qc with (Q2Qc 0) by ring.
  change (qabs (Q2Qc 0)) with (Q2Qc 0).
  change (Q2Qc 0) with 0%Qc.
  replace 0%Qc with (0 * sc)%Qc by ring.
  apply Qcmult_le_compat_r; assumption.
Qed.

Lemma qlists_close_refl (tol : Qc) (l : list Qc) : (0 <= tol)%Qc -> qlists_close tol l l = true.
Proof.
  intros Ht. unfold qlists_close. apply list_eqb_refl. intros x _.
  apply qnear_refl; [exact Ht|].
  eapply Qcle_trans; [exact q1_pos | apply qmax_ge_l].
Qed.
