"""vcheck — driver shared by every property check (DESIGN.md §4).

A property module tools/props/<id>.py provides:
  PROP, LEVEL ('proof'|'other'), COQ_TARGETS (list of .vo under coq/theories), COQ_IMPORTS (str, Require lines for cases)
  THEOREM_FILES (list of Props/*.v whose Print Assumptions blocks are the obligations)
  gen_cases(rng, tier) -> list[Case]
  run_impl(case) -> observation (JSON-able)
  coq_check(case, obs) -> Gallina expression of type bool (true = model agrees with pyttb's observation)
  oracle(case, obs) -> None | str   (independent brute-force evaluation of the property predicate on pyttb's
                                     own output; a string describes how the property itself fails)
  optional: TRIGGERS = {name: predicate(case)} for known findings; GEN_UNITS = ['GenUtils', ...]
"""
import hashlib
import importlib
import json
import os
import random
import re
import shutil
import subprocess
import sys
import time
import traceback

ROOT = os.path.dirname(os.path.dirname(os.path.abspath(__file__)))
COQ = os.path.join(ROOT, "coq")
SRC = os.environ.get("PYTTB_SRC", "/repo")
def _nproc():
    """parallelism of make / case shards: 16 unless VERIF_NPROC or the (untracked, lead-only) file tools/.nproc says otherwise
    (used to throttle the machine while many builders share it; has no influence on verdicts)"""
    try:
        return max(1, int(os.environ.get("VERIF_NPROC") or open(os.path.join(os.path.dirname(os.path.abspath(__file__)), ".nproc")).read().strip()))
    except Exception:
        return 16


NPROC = _nproc()

ALLOWED_AXIOMS = {
    "ClassicalDedekindReals.sig_not_dec", "ClassicalDedekindReals.sig_forall_dec",
    "FunctionalExtensionality.functional_extensionality_dep", "Classical_Prop.classic",
}
FORBIDDEN = re.compile(r"\b(Admitted|admit|Axiom|Axioms|Parameter|Parameters|Conjecture|Admit Obligations|bypass_check)\b|Unset Guard|Unset Positivity|Unset Universe|type-in-type|impredicative-set")

TRUSTED_BASE = [
    "Coq 8.16.1 kernel (coqc) incl. vm_compute; no native_compute",
    "axioms: exactly those printed by Print Assumptions under each property theorem (listed in coverage.axioms)",
    "translator tools/pyx2v.py and its numpy->Np whitelist (Gen/*.v regenerated from /repo on every run)",
    "Np primitives as a semantics of numpy (validated by the prim_* / prim3*_ differential ops inside the C17 check, not proved; argsort tie order is not validated: numpy's default sort is not stable)",
    "correspondence harness: generators, float->ratio conversion, cases.v writer, canonicalisation, result parser",
    "modelled not verified: IEEE-754 rounding, BLAS/LAPACK/ARPACK, scipy L-BFGS-B, numpy.random, libc number text, Python dispatch",
]


class Case:
    __slots__ = ("op", "args", "nontrivial", "meta")

    def __init__(self, op, args, nontrivial=True, meta=None):
        self.op = op
        self.args = args
        self.nontrivial = nontrivial
        self.meta = meta or {}

    def key(self):
        return hashlib.sha1(json.dumps([self.op, self.args], sort_keys=True, default=str).encode()).hexdigest()

    def to_json(self):
        return {"op": self.op, "args": self.args, "meta": self.meta}


# ----------------------------------------------------------------------------------------
# Gallina literal writers
# ----------------------------------------------------------------------------------------

def gz(n):
    n = int(n)
    return f"{n}%Z" if n >= 0 else f"({n})%Z"


def gzlist(l):
    if not l:
        return "(@nil Z)"
    return "[" + "; ".join(gz(x) for x in l) + "]%Z"


def gzmat(m):
    if not m:
        return "(@nil (list Z))"
    return "[" + "; ".join(gzlist(r) for r in m) + "]"


def gnat(n):
    n = int(n)
    if n < 0:
        raise ValueError("negative nat")
    return f"{n}%nat"


def gnlist(l):
    if not l:
        return "(@nil nat)"
    return "[" + "; ".join(str(int(x)) for x in l) + "]%nat"


def gnmat(m):
    if not m:
        return "(@nil (list nat))"
    return "[" + "; ".join(gnlist(r) for r in m) + "]"


def gbool(b):
    return "true" if b else "false"


def gblist(l):
    if not l:
        return "(@nil bool)"
    return "[" + "; ".join(gbool(x) for x in l) + "]"


def gopt(x, f):
    return "None" if x is None else f"(Some {f(x)})"


def gq(fr):
    """Fraction -> Qc expression (Q2Qc (n # d))"""
    from fractions import Fraction
    fr = Fraction(fr)
    return f"(Q2Qc ({gz(fr.numerator)} # {fr.denominator}))"


def gqlist(l):
    if not l:
        return "(@nil Qc)"
    return "[" + "; ".join(gq(x) for x in l) + "]"


# ----------------------------------------------------------------------------------------
# translator / build / hygiene
# ----------------------------------------------------------------------------------------

def sh(cmd, timeout=900, cwd=None, env=None):
    try:
        p = subprocess.run(cmd, shell=isinstance(cmd, str), cwd=cwd, env=env, capture_output=True, text=True, timeout=timeout)
        return p.returncode, p.stdout + p.stderr
    except subprocess.TimeoutExpired as ex:
        return 124, f"TIMEOUT after {timeout}s: {cmd}\n" + (ex.stdout or "" if isinstance(ex.stdout, str) else "")


def regen():
    """run the translator on the current source; returns status dict per Gen unit"""
    rc, out = sh([sys.executable, os.path.join(ROOT, "tools", "pyx2v.py"), SRC, os.path.join(COQ, "theories", "Gen")], timeout=120)
    try:
        status = json.loads(out.strip().splitlines()[-1])
    except Exception:
        status = {"_translator": {"ok": False, "error": out[-2000:]}}
    # second translator (wave 4): control-flow skeletons of the algorithm drivers, numeric kernels as opaque parameters
    skel = os.path.join(ROOT, "tools", "pyx2v_skel.py")
    if os.path.exists(skel):
        rc2, out2 = sh([sys.executable, skel, SRC, os.path.join(COQ, "theories", "Gen")], timeout=120)
        try:
            status.update(json.loads(out2.strip().splitlines()[-1]))
        except Exception:
            status["_skeleton_translator"] = {"ok": False, "error": out2[-2000:]}
            for u in SKEL_UNITS_FALLBACK():
                status[u] = {"ok": False, "error": "skeleton translator crashed: " + out2[-500:]}
    return status


def SKEL_UNITS_FALLBACK():
    """names of the units tools/pyx2v_skel.py is expected to produce (read from its UNITS list without importing numpy etc.)"""
    try:
        txt = open(os.path.join(ROOT, "tools", "pyx2v_skel.py")).read()
        m = re.search(r"^UNITS\s*=\s*\[(.*?)\]", txt, re.S | re.M)
        return re.findall(r'"(Gen\w+)"', m.group(1)) if m else []
    except Exception:
        return []


def restore_baseline(unit):
    src = os.path.join(COQ, "gen_baseline", unit + ".v")
    dst = os.path.join(COQ, "theories", "Gen", unit + ".v")
    if os.path.exists(src):
        shutil.copyfile(src, dst)
        return True
    return False


def assemble_project():
    """_CoqProject = '-Q theories PV' + the concatenation of coq/project.d/*.list (sorted); rewritten only on change"""
    d = os.path.join(COQ, "project.d")
    lines = ["-Q theories PV"]
    for fn in sorted(os.listdir(d)):
        if fn.endswith(".list"):
            for l in open(os.path.join(d, fn)):
                l = l.strip()
                if l and not l.startswith("#") and l not in lines and os.path.exists(os.path.join(COQ, l)):
                    lines.append(l)
    text = "\n".join(lines) + "\n"
    cp = os.path.join(COQ, "_CoqProject")
    if not os.path.exists(cp) or open(cp).read() != text:
        with open(cp, "w") as fh:
            fh.write(text)


def ensure_makefile():
    assemble_project()
    mk = os.path.join(COQ, "Makefile")
    cp = os.path.join(COQ, "_CoqProject")
    if not os.path.exists(mk) or os.path.getmtime(mk) < os.path.getmtime(cp):
        sh("coq_makefile -f _CoqProject -o Makefile", cwd=COQ, timeout=60)


class BuildLock:
    """serialises translator + make + Print-Assumptions recompilation across concurrently running checks"""

    def __enter__(self):
        import fcntl
        self.fh = open(os.path.join(COQ, ".build.lock"), "w")
        fcntl.flock(self.fh, fcntl.LOCK_EX)
        return self

    def __exit__(self, *a):
        import fcntl
        fcntl.flock(self.fh, fcntl.LOCK_UN)
        self.fh.close()


def make(targets, timeout=1500):
    ensure_makefile()
    tg = " ".join("theories/" + t for t in targets)
    rc, out = sh(f"timeout {timeout} make -j{NPROC} {tg}", cwd=COQ, timeout=timeout + 30)
    return rc == 0, out


def import_closure(roots):
    """.v files (relative to coq/theories) reachable from `roots` through `From PV Require ...` / `Require Import PV....`"""
    seen = []
    todo = list(roots)
    while todo:
        f = todo.pop()
        if f in seen:
            continue
        path = os.path.join(COQ, "theories", f)
        if not os.path.exists(path):
            continue
        seen.append(f)
        txt = re.sub(r"\(\*.*?\*\)", "", open(path, errors="replace").read(), flags=re.S)
        for m in re.finditer(r"From\s+PV\s+Require\s+(?:Import\s+|Export\s+)?(.*?)\.(?:\s|$)", txt, re.S):
            for name in m.group(1).split():
                todo.append(name.replace(".", "/") + ".v")
        for m in re.finditer(r"\bPV\.([A-Za-z0-9_]+(?:\.[A-Za-z0-9_]+)+)", txt):
            todo.append(m.group(1).replace(".", "/") + ".v")
    return seen


def hygiene(roots):
    """forbidden vernacular anywhere in the files this property's theorems depend on (import closure)"""
    bad = []
    for f in import_closure(roots):
        p = os.path.join(COQ, "theories", f)
        txt = open(p, errors="replace").read()
        # blank out comments (possibly multi-line) but keep line numbers
        txt = re.sub(r"\(\*.*?\*\)", lambda m: re.sub(r"[^\n]", " ", m.group(0)), txt, flags=re.S)
        depth = 0          # nesting depth of open Sections (Modules do not count: a Variable in a Module is global)
        stack = []
        for k, line in enumerate(txt.splitlines(), 1):
            if FORBIDDEN.search(line):
                bad.append(f"{os.path.relpath(p, ROOT)}:{k}: {line.strip()[:120]}")
            ms = re.match(r"\s*(Section|Module(?:\s+Type)?|Module\s+Import|Module\s+Export)\s+([A-Za-z0-9_']+)\b(.*)$", line)
            if ms and ":=" not in ms.group(3):
                stack.append((ms.group(2), ms.group(1) == "Section"))
            me = re.match(r"\s*End\s+([A-Za-z0-9_']+)\s*\.", line)
            if me and stack and stack[-1][0] == me.group(1):
                stack.pop()
            depth = sum(1 for _, is_sec in stack if is_sec)
            if depth == 0 and re.match(r"\s*(Local\s+|Global\s+)?(Variable|Variables|Hypothesis|Hypotheses|Context)\b", line):
                bad.append(f"{os.path.relpath(p, ROOT)}:{k}: assumption outside a Section: {line.strip()[:100]}")
    return bad


def assumptions(prop_files):
    """re-compile each Props file, capturing the Print Assumptions output; returns
    (obligations, discharged, axioms set, problems)"""
    obligations = 0
    discharged = 0
    axioms = set()
    problems = []
    theorems = []
    for pf in prop_files:
        path = os.path.join(COQ, "theories", pf)
        txt = open(path).read()
        names = re.findall(r"^Print Assumptions\s+([A-Za-z0-9_'.]+)\s*\.", txt, re.M)
        obligations += len(names)
        rc, out = sh(f"timeout 600 coqc -Q theories PV theories/{pf}", cwd=COQ, timeout=630)
        if rc != 0:
            problems.append(f"{pf}: does not compile: {out[-600:]}")
            continue
        # split output into blocks: each Print Assumptions prints either 'Closed under the global context' or 'Axioms:' + list
        blocks = re.split(r"(?=Closed under the global context|Axioms:)", out)
        blocks = [b for b in blocks if b.startswith("Closed under") or b.startswith("Axioms:")]
        if len(blocks) != len(names):
            problems.append(f"{pf}: {len(names)} Print Assumptions but {len(blocks)} outputs")
        for name, b in zip(names, blocks):
            ok = True
            if b.startswith("Axioms:"):
                for m in re.finditer(r"^([A-Za-z_][A-Za-z0-9_.']*)\s*:", b[len("Axioms:"):], re.M):
                    ax = m.group(1)
                    axioms.add(ax)
                    if ax not in ALLOWED_AXIOMS:
                        ok = False
                        problems.append(f"{pf}: theorem {name} depends on non-whitelisted axiom {ax}")
            if ok:
                discharged += 1
                theorems.append(name)
    if obligations == 0:
        problems.append("no theorem with Print Assumptions found in " + ", ".join(prop_files or ["<no theorem file>"]))
    return obligations, discharged, sorted(axioms), problems, theorems


def expected_for(prop):
    """coq/expected.json (committed; regenerated by tools/mkexpected.py at integration time): per property the theorem
    names that must be present and discharged, and a floor for the number of evaluated correspondence cases per tier.
    A theorem that disappears from Props/ or a correspondence stream that collapses is reported, not silently accepted."""
    path = os.path.join(COQ, "expected.json")
    if not os.path.exists(path):
        return {}
    return json.load(open(path)).get(prop, {})


# ----------------------------------------------------------------------------------------
# correspondence
# ----------------------------------------------------------------------------------------

def run_coq_cases(prop, imports, exprs, shard=400, timeout=900):
    """exprs: list of Gallina bool expressions. Returns (list of failing indices, error text or None)"""
    rundir = os.path.join(COQ, "run", prop)
    shutil.rmtree(rundir, ignore_errors=True)
    os.makedirs(rundir, exist_ok=True)
    files = []
    for k in range(0, len(exprs), shard):
        fn = os.path.join(rundir, f"cases_{k // shard}.v")
        with open(fn, "w") as fh:
            fh.write(imports + "\nFrom Coq Require Import ZArith List.\nImport ListNotations.\n")
            fh.write("Definition results : list (Z * bool) := [\n")
            fh.write(";\n".join(f" ({k + j}%Z, {e})" for j, e in enumerate(exprs[k:k + shard])))
            fh.write("\n].\n")
            fh.write("Eval vm_compute in (List.map fst (List.filter (fun p => negb (snd p)) results)).\n")
        files.append(fn)
    if not files:
        return [], None
    procs = []
    failing = []
    errs = []
    env = dict(os.environ)
    pending = list(files)
    running = []
    outputs = {}
    while pending or running:
        while pending and len(running) < NPROC:
            fn = pending.pop(0)
            outf = open(fn + ".out", "w")
            p = subprocess.Popen(f"ulimit -s unlimited 2>/dev/null; timeout {timeout} coqc -w -abstract-large-number -Q theories PV -Q run/{prop} PVRun{prop} {os.path.relpath(fn, COQ)}",
                                 shell=True, cwd=COQ, stdout=outf, stderr=subprocess.STDOUT, text=True)
            p._outf = outf
            running.append((fn, p))
        time.sleep(0.05)
        for fn, p in list(running):
            if p.poll() is not None:
                p._outf.close()
                outputs[fn] = (p.returncode, open(fn + ".out", errors="replace").read())
                running.remove((fn, p))
    for fn in files:
        rc, out = outputs[fn]
        if rc != 0:
            errs.append(f"{os.path.basename(fn)}: coqc exit {rc}: {out[-1500:]}")
            continue
        m = re.search(r"=\s*\[(.*?)\]\s*:\s*list Z", out, re.S)
        if not m:
            errs.append(f"{os.path.basename(fn)}: cannot parse: {out[-500:]}")
            continue
        body = m.group(1).strip()
        if body:
            failing += [int(x.replace("%Z", "").replace("(", "").replace(")", "").strip()) for x in body.split(";")]
    if not errs and not os.environ.get("VERIF_KEEP"):
        shutil.rmtree(rundir, ignore_errors=True)
    return sorted(failing), ("\n".join(errs) if errs else None)


def load_known():
    """known findings: the committed known_findings.jsonl is assembled from findings.d/*.jsonl by tools/mkmanifest.py;
    the fragments are the source of truth and are read directly (never written at run time)"""
    import glob
    out = []
    seen = set()
    paths = sorted(glob.glob(os.path.join(ROOT, "findings.d", "*.jsonl"))) + [os.path.join(ROOT, "known_findings.jsonl")]
    for p in paths:
        if not os.path.exists(p):
            continue
        for line in open(p):
            line = line.strip()
            if line and not line.startswith("#") and not line.startswith("fixed:"):
                j = json.loads(line)
                key = (j.get("property"), j.get("finding_id"))
                if key not in seen:
                    seen.add(key)
                    out.append(j)
    return out


def write_replay(prop, payload):
    d = os.path.join(ROOT, "replays", prop)
    os.makedirs(d, exist_ok=True)
    h = hashlib.sha1(json.dumps(payload, sort_keys=True, default=str).encode()).hexdigest()[:12]
    path = os.path.join(d, h + ".json")
    with open(path, "w") as fh:
        json.dump(payload, fh, indent=1, default=str)
    return os.path.relpath(path, ROOT)


def import_pyttb():
    if SRC not in sys.path:
        sys.path.insert(0, SRC)
    import warnings
    warnings.filterwarnings("ignore")
    import pyttb
    assert os.path.abspath(pyttb.__file__).startswith(os.path.abspath(SRC)), (pyttb.__file__, SRC)
    return pyttb


def run_property(mod, tier, seed):
    t0 = time.time()
    prop = mod.PROP
    violations = []      # (replay path, suffix)
    notes = []
    known = [k for k in load_known() if k.get("property") in [prop] + list(getattr(mod, "INCLUDED_PROPS", [])) and k.get("status", "open") == "open"]

    lock = BuildLock()
    lock.__enter__()
    # 1. translator -----------------------------------------------------------------
    gen_units = getattr(mod, "GEN_UNITS", [])
    gen_status = regen()     # always: Gen/ must reflect THIS run's source tree
    tieA = {}
    tieA_broken = []
    for u in gen_units:
        st = gen_status.get(u, gen_status.get("_translator", {"ok": False, "error": "translator did not report"}))
        tieA[u] = "regenerated" if st.get("ok") else "translation failed: " + st.get("error", "?")
        if not st.get("ok"):
            tieA_broken.append((u, "translation", st.get("error", "?")))
            restore_baseline(u)

    # 2. build ------------------------------------------------------------------------
    ok, log = make(mod.COQ_TARGETS)
    if not ok and gen_units:
        # which obligation broke?  fall back to the last generated files that passed so the model can still run
        m = re.search(r'File "\./theories/([^"]+)", line (\d+)', log)
        where = f"{m.group(1)}:{m.group(2)}" if m else "unknown"
        for u in gen_units:
            if (u, "translation") not in [(a, b) for a, b, _ in tieA_broken]:
                cur = os.path.join(COQ, "theories", "Gen", u + ".v")
                base = os.path.join(COQ, "gen_baseline", u + ".v")
                if os.path.exists(base) and open(cur).read() != open(base).read():
                    tieA_broken.append((u, "proof", f"proof obligation over regenerated {u} no longer checks at {where}: " + log[-800:]))
                    tieA[u] = f"proof over regenerated file broken at {where}"
                    restore_baseline(u)
        ok, log2 = make(mod.COQ_TARGETS)
        if not ok:
            log = log2
    if not ok:
        lock.__exit__()
        path = write_replay(prop, {"property": prop, "kind": "build-failure", "log": log[-4000:]})
        print(f"VIOLATION property={prop} replay={path} no-failing-input-found")
        write_evidence(mod, tier, seed, t0, {"explanation": "Coq development does not build", "obligations": 0, "discharged": 0}, 1, [])
        return 1

    # 3. hygiene + assumptions ----------------------------------------------------------
    bad = hygiene(list(mod.THEOREM_FILES) + [t[:-1] for t in mod.COQ_TARGETS])
    obligations, discharged, axioms, problems, theorems = assumptions(mod.THEOREM_FILES)
    problems = bad + problems
    expected = expected_for(prop)
    missing = [t for t in expected.get("theorems", []) if t not in theorems]
    if missing:
        problems.append("theorems listed in coq/expected.json are no longer present and discharged: " + ", ".join(missing[:40]))
    lock.__exit__()
    if problems:
        path = write_replay(prop, {"property": prop, "kind": "hygiene", "problems": problems})
        violations.append((path, "no-failing-input-found"))

    # 4. correspondence -----------------------------------------------------------------
    import_pyttb()
    rng = random.Random(seed)
    corpus = load_corpus(prop)
    cases = corpus + mod.gen_cases(rng, tier)
    # an affected helper gets 10x budget: handled inside gen_cases via mod.BOOST
    obs = []
    exprs = []
    keep = []
    hist = {}
    ncheckfail = 0
    nskipped = 0
    for c in cases:
        try:
            o = mod.run_impl(c)
        except Exception as ex:   # harness-level failure: count as crashed-other
            o = {"exc": "HarnessError", "detail": f"{type(ex).__name__}: {ex}", "tb": traceback.format_exc()[-800:]}
        try:
            e = mod.coq_check(c, o)
        except Exception as ex:
            e = None
            ncheckfail += 1
            notes.append(f"coq_check failed on {c.op}: {type(ex).__name__}: {ex}")
        if e is None:
            nskipped += 1
            continue
        keep.append(c)
        obs.append(o)
        exprs.append(e)
        hist[c.op] = hist.get(c.op, 0) + 1
    floor = max(1, int(expected.get("min_cases", {}).get(tier, 1)))
    if ncheckfail or len(keep) < floor:
        why_ = (f"{ncheckfail} case(s) could not be turned into a model check (coq_check raised); " if ncheckfail else "") + \
               (f"only {len(keep)} correspondence cases were evaluated ({nskipped} skipped), expected at least {floor}" if len(keep) < floor else "")
        path = write_replay(prop, {"property": prop, "kind": "correspondence-did-not-run", "detail": why_, "notes": notes[:20]})
        violations.append((path, "no-failing-input-found"))
    failing, err = run_coq_cases(prop, mod.COQ_IMPORTS, exprs, shard=getattr(mod, "SHARD", 400))
    if err:
        path = write_replay(prop, {"property": prop, "kind": "model-evaluation-error", "error": err[-4000:]})
        violations.append((path, "no-failing-input-found"))
    triggers = getattr(mod, "TRIGGERS", {})
    attributed = {}
    reported = 0
    for i in failing:
        c, o = keep[i], obs[i]
        # attributed to an open known finding?
        hit = None
        for k in known:
            trig = triggers.get(k.get("trigger"))
            if trig and k.get("op") in (None, c.op) and trig(c):
                hit = k
                break
        if hit:
            attributed[hit["finding_id"]] = attributed.get(hit["finding_id"], 0) + 1
            continue
        try:
            why = mod.oracle(c, o)
        except Exception as ex:
            why = None
            notes.append(f"oracle failed: {type(ex).__name__}: {ex}")
        payload = {"property": prop, "kind": "correspondence", "case": c.to_json(), "observed": o,
                   "model_check": exprs[i][:4000], "seed": seed, "tier": tier,
                   "oracle": why or "property predicate not refuted by the brute-force oracle on this input"}
        if reported < 5:
            path = write_replay(prop, payload)
            violations.append((path, "" if why else "no-failing-input-found"))
        reported += 1

    # tie A broken: search done above (correspondence ran on the baseline model)
    for u, kind, detail in tieA_broken:
        if not any(s == "" for _, s in violations):
            path = write_replay(prop, {"property": prop, "kind": "tieA-" + kind, "unit": u, "detail": detail,
                                       "note": "correspondence of the previous (baseline) model against the current code found no disagreement"})
            violations.append((path, "no-failing-input-found"))

    # 5. known findings -----------------------------------------------------------------
    for k in known:
        wit = getattr(mod, "WITNESSES", {}).get(k["finding_id"])
        still = None
        if wit:
            try:
                still = wit()
            except Exception as ex:
                still = f"witness raised {type(ex).__name__}: {ex}"
        if still:
            print(f"KNOWN-FINDING: property={prop} {k['finding_id']} {k['what']}")
        else:
            notes.append(f"known finding {k['finding_id']} no longer reproduces (repaired?)")

    # 5b. thorough tier: independent re-check of the compiled theory with coqchk ------------
    coqchk = None
    if tier == "thorough":
        libs = " ".join("PV." + pf[:-2].replace("/", ".") for pf in mod.THEOREM_FILES)
        rc_, out_ = sh(f"timeout 3000 coqchk -silent -o -Q theories PV {libs}", cwd=COQ, timeout=3030)
        m_ = re.search(r"\* Axioms:(.*?)\n\s*\n\* Constants/Inductives relying on type-in-type:(.*?)\n", out_, re.S)
        coqchk = {"exit": rc_, "axioms": (m_.group(1).split() if m_ else None), "tail": out_[-600:]}
        if rc_ == 0 and m_:
            for ax in [a for a in m_.group(1).split() if a != "<none>"]:
                if not any(ax == al or ax.endswith("." + al) for al in ALLOWED_AXIOMS):
                    path = write_replay(prop, {"property": prop, "kind": "coqchk-axiom", "axiom": ax})
                    violations.append((path, "no-failing-input-found"))
        else:   # non-zero exit, timeout, or a summary this parser does not recognise: the re-check did not succeed
            path = write_replay(prop, {"property": prop, "kind": "coqchk-failure", "exit": rc_, "log": out_[-3000:]})
            violations.append((path, "no-failing-input-found"))

    # 6. evidence -----------------------------------------------------------------------
    distinct = {}
    for c in keep:
        if c.nontrivial:
            distinct[c.key()] = 1
    samples = [keep[i].to_json() for i in range(0, len(keep), max(1, len(keep) // 4))][:5]
    cov = {
        "obligations": obligations, "discharged": discharged,
        "checker_cmd": f"make -C coq -j16 {' '.join('theories/' + t for t in mod.COQ_TARGETS)} ; coqc -Q theories PV theories/<Props file> (Print Assumptions)",
        "trusted_base": TRUSTED_BASE + getattr(mod, "TRUSTED_EXTRA", []),
        "theorems": theorems, "axioms": axioms,
        "evaluations": len(keep), "distinct_nontrivial": len(distinct),
        "rule": getattr(mod, "RULE", "generated by tools/props module; non-trivial = flagged by the generator"),
        "samples": samples or [{"note": "no correspondence cases"}],
        "traces_validated_against_impl": len(keep),
        "op_histogram": hist, "tie_A": tieA, "mismatches": len(failing), "skipped_cases": nskipped,
        "attributed_to_known_findings": attributed, "notes": notes[:20],
        "explanation": getattr(mod, "EXPLANATION", ""),
        "correspondence_only_ops": getattr(mod, "CORRESPONDENCE_ONLY", []),
        "coqchk": coqchk,
    }
    rc = 1 if violations else 0
    write_evidence(mod, tier, seed, t0, cov, len(violations), getattr(mod, "ASSUMPTIONS", []))
    for path, suffix in violations:
        print(f"VIOLATION property={prop} replay={path}" + (" " + suffix if suffix else ""))
    if rc == 0:
        print(f"OK property={prop} tier={tier} theorems={discharged}/{obligations} cases={len(keep)} distinct_nontrivial={len(distinct)} wall={time.time() - t0:.1f}s")
    return rc


def compose(mod):
    """A property module may INCLUDE other modules (e.g. C17 includes w3gen, the differential stream and the laws of the
    functions the translator generates since wave 3): their generated units, targets, theorem files, case streams, triggers
    and witnesses become part of the property's check. Cases of an included module carry meta['_mod']."""
    import types
    subs = [importlib.import_module("props." + n) for n in getattr(mod, "INCLUDE", [])]
    if not subs:
        return mod
    c = types.SimpleNamespace(**{k: getattr(mod, k) for k in dir(mod) if not k.startswith("__")})
    def uniq(seq):
        out = []
        for x in seq:
            if x not in out:
                out.append(x)
        return out
    c.GEN_UNITS = uniq(list(getattr(mod, "GEN_UNITS", [])) + [u for s_ in subs for u in getattr(s_, "GEN_UNITS", [])])
    c.COQ_TARGETS = uniq(list(mod.COQ_TARGETS) + [u for s_ in subs for u in s_.COQ_TARGETS])
    c.THEOREM_FILES = uniq(list(mod.THEOREM_FILES) + [u for s_ in subs for u in s_.THEOREM_FILES])
    lines = []
    for m_ in [mod] + subs:
        for ln in m_.COQ_IMPORTS.splitlines():
            if ln.strip() and ln not in lines:
                lines.append(ln)
    c.COQ_IMPORTS = "\n".join(lines) + "\n"
    c.SHARD = min([getattr(m_, "SHARD", 400) for m_ in [mod] + subs])
    c.RULE = " || ".join(getattr(m_, "RULE", "") for m_ in [mod] + subs)
    c.EXPLANATION = " || ".join(getattr(m_, "EXPLANATION", "") for m_ in [mod] + subs)
    c.CORRESPONDENCE_ONLY = [x for m_ in [mod] + subs for x in getattr(m_, "CORRESPONDENCE_ONLY", [])]
    c.ASSUMPTIONS = [x for m_ in [mod] + subs for x in getattr(m_, "ASSUMPTIONS", [])]
    c.TRUSTED_EXTRA = [x for m_ in [mod] + subs for x in getattr(m_, "TRUSTED_EXTRA", [])]
    byname = {s_.__name__.split(".")[-1]: s_ for s_ in subs}
    def pick(case):
        return byname.get((case.meta or {}).get("_mod"), mod)
    def gen_cases(rng, tier):
        out = list(mod.gen_cases(rng, tier))
        for name, s_ in byname.items():
            for cs in s_.gen_cases(rng, tier):
                cs.meta = dict(cs.meta or {}, _mod=name)
                out.append(cs)
        return out
    c.gen_cases = gen_cases
    c.run_impl = lambda case: pick(case).run_impl(case)
    c.coq_check = lambda case, o: pick(case).coq_check(case, o)
    c.oracle = lambda case, o: pick(case).oracle(case, o)
    trig = {}
    for m_ in [mod] + subs:
        for k, f in getattr(m_, "TRIGGERS", {}).items():
            trig[k] = (lambda f_, m2: (lambda case: pick(case) is m2 and f_(case)))(f, m_)
    c.TRIGGERS = trig
    wit = {}
    for m_ in [mod] + subs:
        wit.update(getattr(m_, "WITNESSES", {}))
    c.WITNESSES = wit
    c.INCLUDED_PROPS = [s_.PROP for s_ in subs]
    return c


def load_corpus(prop):
    d = os.path.join(ROOT, "corpus", prop)
    out = []
    if os.path.isdir(d):
        for fn in sorted(os.listdir(d)):
            if fn.endswith(".json"):
                j = json.load(open(os.path.join(d, fn)))
                out.append(Case(j["op"], j["args"], True, j.get("meta")))
    return out


def write_evidence(mod, tier, seed, t0, cov, nviol, assumptions_):
    os.makedirs(os.path.join(ROOT, "evidence"), exist_ok=True)
    ev = {"property_id": mod.PROP, "tier": tier, "seed": seed, "level": mod.LEVEL, "coverage": cov,
          "assumptions": assumptions_, "wall_s": round(time.time() - t0, 2), "violations": nviol}
    with open(os.path.join(ROOT, "evidence", mod.PROP + ".json"), "w") as fh:
        json.dump(ev, fh, indent=1, default=str)


def replay(path):
    j = json.load(open(os.path.join(ROOT, path) if not os.path.isabs(path) else path))
    prop = j["property"]
    mod = compose(importlib.import_module("props." + prop.lower()))
    if j.get("kind") != "correspondence":
        print(json.dumps(j, indent=1)[:3000])
        print("replay: this violation has no failing input (it names the obligation that no longer checks)")
        return 1
    import_pyttb()
    c = Case(j["case"]["op"], j["case"]["args"], True, j["case"].get("meta"))
    o = mod.run_impl(c)
    e = mod.coq_check(c, o)
    ok, log = make(mod.COQ_TARGETS)
    failing, err = run_coq_cases(prop + "_replay", mod.COQ_IMPORTS, [e])
    print("case:", json.dumps(c.to_json())[:2000])
    print("observed now:", json.dumps(o, default=str)[:2000])
    if failing or err:
        print("replay: STILL FAILS", err or "")
        print("oracle:", mod.oracle(c, o))
        return 1
    print("replay: passes now")
    return 0


def main(argv):
    if len(argv) < 2:
        print("usage: check <ID> quick|thorough | check replay <file>")
        return 2
    sys.path.insert(0, os.path.join(ROOT, "tools"))
    if argv[1] == "replay":
        return replay(argv[2])
    prop = argv[1]
    tier = argv[2] if len(argv) > 2 else os.environ.get("VERIF_TIER", "quick")
    seed = int(os.environ.get("VERIF_SEED", "20260929"))
    if tier not in ("quick", "thorough"):
        print("usage: check <ID> quick|thorough | check replay <file>")
        return 2
    try:
        mod = compose(importlib.import_module("props." + prop.lower()))
        return run_property(mod, tier, seed)
    except Exception:      # the checker itself crashed: the property is not shown to hold by this run
        path = write_replay(prop, {"property": prop, "kind": "checker-crash", "traceback": traceback.format_exc()[-4000:]})
        print(f"VIOLATION property={prop} replay={path} no-failing-input-found")
        return 1
