(* Model/C16Harness.v — the Z instance of the C16 file model used by the generated correspondence cases:
   doubles and number texts are both represented by the 64-bit pattern of the double (as Z), so every comparison
   made in Coq is bit-for-bit; print = parse = identity on patterns (the harness converts texts to patterns
   with Python's float(), independently of numpy's reader). Definitions only. *)
From Coq Require Import String.
From Coq Require Import List Arith ZArith Bool.
From PV Require Import Base.Index Np.Array Model.Sparse Model.Repr Model.Harness Model.C16IO Model.C16Lines Model.C16Big Model.C16Text.
Import ListNotations.

Definition ztoken := token Z.
Definition zobj := obj Z.
Definition zid (z : Z) : Z := z.
Definition zexport_lines (b : Z) (o : zobj) : list (list ztoken) := export_lines Z Z 0%Z zid b o.
Definition zexport (b : Z) (o : zobj) : list ztoken := export Z Z 0%Z zid b o.
Definition zimport (b : Z) (toks : list ztoken) : option zobj := import Z Z 0%Z zid b toks.

Definition token_eqb (a b : ztoken) : bool :=
  match a, b with
  | Word s, Word t => String.eqb s t
  | Int x, Int y => Z.eqb x y
  | Num x, Num y => Z.eqb x y
  | _, _ => false
  end.
Definition lines_eqb : list (list ztoken) -> list (list ztoken) -> bool := list_eqb (list_eqb token_eqb).

Definition obj_eqb (a b : zobj) : bool :=
  match a, b with
  | OTensor X, OTensor Y => dense_eqb X Y
  | OSptensor A, OSptensor B => sp_raw_eqb A B
  | OKtensor K, OKtensor K' => vec_eqb (kweights K) (kweights K') && list_eqb mat_eqb (kfactors K) (kfactors K')
  | OMatrix m n A, OMatrix m' n' A' => Nat.eqb m m' && Nat.eqb n n' && mat_eqb A A'
  | OArray s c, OArray s' c' => nvec_eqb s s' && vec_eqb c c'
  | _, _ => false
  end.

(* one generated case: the model's file for object o equals the real file line by line, and reading the model's file
   with index base b gives exactly the object pyttb's import_data returned *)
Definition c16_file_ok (b : Z) (o : zobj) (file : list (list ztoken)) : bool := lines_eqb (zexport_lines b o) file.
Definition c16_import_ok (b : Z) (file : list (list ztoken)) (got : zobj) : bool :=
  opt_eqb obj_eqb (zimport b (concat file)) (Some got).
Definition c16_roundtrip_ok (b : Z) (o : zobj) : bool := opt_eqb obj_eqb (zimport b (zexport b o)) (Some o).
(* ---- the line-sensitive import model (Model/C16Lines.v) on bit patterns ---- *)
(* the 64-bit pattern of the double that an integer text denotes (exact for |z| < 2^53) *)
Definition z_bits (z : Z) : Z :=
  if (z =? 0)%Z then 0%Z else
  let a := Z.abs z in let e := Z.log2 a in
  let m := ((if (e <=? 52)%Z then a * 2 ^ (52 - e) else a / 2 ^ (e - 52)) - 2 ^ 52)%Z in
  ((if (z <? 0)%Z then 2 ^ 63 else 0) + (e + 1023) * 2 ^ 52 + m)%Z.
Definition zimport_lines (b : Z) (file : list (list ztoken)) : option zobj := import_lines Z Z 0%Z zid z_bits b file.
(* a (possibly malformed) file: the model's verdict — rejected, or the object read — is pyttb's *)
Definition c16_lines_ok (b : Z) (file : list (list ztoken)) (got : option zobj) : bool :=
  opt_eqb obj_eqb (zimport_lines b file) got.

(* the whole check of one case: layout of the real file, import of the real file (token-level AND line-level model), and
   the property itself *)
Definition c16_case (b : Z) (o : zobj) (file : list (list ztoken)) (got : zobj) : bool :=
  c16_file_ok b o file && c16_import_ok b file got && c16_lines_ok b file (Some got) && obj_eqb got o && c16_roundtrip_ok b o.

(* ---- sparse tensors with subscripts / mode sizes in Z (Model/C16Big.v): modes longer than a unary number can hold ---- *)
Definition zspz := spz Z.
Definition spz_eqb (A B : zspz) : bool :=
  vec_eqb (zshape A) (zshape B) && mat_eqb (zsubs A) (zsubs B) && vec_eqb (zvals A) (zvals B).
Definition zexport_spz (b : Z) (S : zspz) : list (list ztoken) := export_spz_lines Z Z zid b S.
Definition zimport_spz (b : Z) (file : list (list ztoken)) : option zspz := import_spz_lines Z Z zid z_bits b file.
(* layout of the real file, import of the real file, the property, and the model's own round trip *)
Definition c16_big_case (b : Z) (S : zspz) (file : list (list ztoken)) (got : zspz) : bool :=
  lines_eqb (zexport_spz b S) file && opt_eqb spz_eqb (zimport_spz b file) (Some got) && spz_eqb got S
  && opt_eqb spz_eqb (zimport_spz b (zexport_spz b S)) (Some S).
(* a (possibly malformed) sparse file with long modes: the model's verdict is pyttb's *)
Definition c16_big_lines_ok (b : Z) (file : list (list ztoken)) (got : option zspz) : bool :=
  opt_eqb spz_eqb (zimport_spz b file) got.

(* ---- the character-level model (Model/C16Text.v): the file as atoms (blank / CR / LF / piece) ---- *)
Definition zatom := atom Z.
Definition zimport_text (b : Z) (a : list zatom) : option zobj := import_text Z Z 0%Z zid z_bits b a.
Definition c16_text_ok (b : Z) (a : list zatom) (got : option zobj) : bool := opt_eqb obj_eqb (zimport_text b a) got.
