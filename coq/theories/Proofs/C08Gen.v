(* Proofs/C08Gen.v — wave 4: C08's redistribute theorem stated over the translator-GENERATED method
   Gen.GenMethods3.ktensor_redistribute (regenerated from /repo/pyttb/ktensor.py on every run: `self` is a record that the
   column loop  `for r in range(ncomponents): factor[mode][:, r] *= weights[r]; weights[r] = 1`  updates and returns).
   Bridge:  ktensor_redistribute k mode = Ok k'  ->  k' (as a Kruskal tensor over Z) = k_redistribute (hand model of
   Model/C08Kruskal.v), hence same denoted array, weights all one; a mode outside [0, ndims) is rejected. *)
From Coq Require Import List ZArith Arith Bool Lia Ring.
From PV Require Import Base.Index Base.Perm Base.Sum Model.Repr Model.C08Kruskal Proofs.C08Proofs
  Np.NpZ Np.NpZ2 Np.NpZ3 Np.NpZ3e Proofs.NpZProofs Gen.GenMethods3 Proofs.W3Methods3.
Import ListNotations.
Local Open Scope nat_scope.

(* a ktz record of the generated code read as the shared Kruskal record *)
Definition kt_to_k (k : ktz) : ktensor Z := mkK (kt_weights k) (kt_factors k).

Lemma zmap2_zipmul : forall a b : list Z, zmap2 Z.mul a b = zipmul Z.mul a b.
Proof. induction a as [|x a IH]; intros [|y b]; cbn; auto. f_equal. apply IH. Qed.

Lemma upd_is_upd_nth {A} (f : A -> A) (d : A) : forall (l : list A) m, m < length l -> upd l m (f (nth m l d)) = upd_nth m f l.
Proof. induction l as [|x l IH]; intros [|m] Hm; cbn in *; try lia; auto. f_equal. apply IH. lia. Qed.

Lemma kt_redistribute_is_model (k : ktz) (m : nat) : m < length (kt_factors k) ->
  kt_to_k (kt_redistribute k (Z.of_nat m)) = k_redistribute 1%Z Z.mul m (kt_to_k k).
Proof.
  intros Hm. unfold kt_redistribute, k_redistribute, kt_to_k, ones. cbn [kt_weights kt_factors kweights kfactors]. f_equal.
  unfold np_set. replace (Z.of_nat m <? 0)%Z with false by (symmetry; apply Z.ltb_ge; lia). rewrite Nat2Z.id.
  rewrite znth_nat.
  rewrite <- (upd_is_upd_nth (scale_cols Z.mul (kt_weights k)) [] (kt_factors k) m Hm). f_equal.
  unfold scale_cols. apply map_ext. intros row. apply zmap2_zipmul.
Qed.

(* the generated method, on every ktz whose factor `mode` has one entry per weight in every row *)
Theorem gen_redistribute_model (k : ktz) (mode : Z) :
  (forall row, In row (znth [] (kt_factors k) mode) -> length row = length (kt_weights k)) ->
  match ktensor_redistribute k mode with
  | Ok k' => (0 <= mode < Z.of_nat (length (kt_factors k)))%Z /\
             kt_to_k k' = k_redistribute 1%Z Z.mul (Z.to_nat mode) (kt_to_k k)
  | Err => ~ (0 <= mode < Z.of_nat (length (kt_factors k)))%Z
  end.
Proof.
  intros Hrows. rewrite (redistribute_prim k mode Hrows). unfold kt_redistribute_ok, zlen.
  destruct (Z.leb_spec 0 mode) as [H0|H0]; destruct (Z.ltb_spec mode (Z.of_nat (length (kt_factors k)))) as [H1|H1];
    cbn [andb]; try lia.
  split; [lia|]. rewrite <- (Z2Nat.id mode H0) at 1. apply kt_redistribute_is_model. lia.
Qed.

(* ... hence the generated method preserves the denoted array and leaves all weights one *)
Theorem gen_redistribute_invariant (k k' : ktz) (mode : Z) :
  (forall row, In row (znth [] (kt_factors k) mode) -> length row = length (kt_weights k)) ->
  ktensor_redistribute k mode = Ok k' ->
  (forall i, den_k 0%Z 1%Z Z.add Z.mul (kt_to_k k') i = den_k 0%Z 1%Z Z.add Z.mul (kt_to_k k) i) /\
  kt_weights k' = map (fun _ => 1%Z) (kt_weights k) /\
  kshape (kt_to_k k') = kshape (kt_to_k k).
Proof.
  intros Hrows E. pose proof (gen_redistribute_model k mode Hrows) as H. rewrite E in H. destruct H as [Hm Hk].
  assert (Hn : Z.to_nat mode < length (kfactors (kt_to_k k))).
  { unfold kt_to_k. cbn [kfactors]. apply Nat2Z.inj_lt. clear - Hm. destruct Hm as [Hm0 Hm1]. rewrite Z2Nat.id; assumption. }
  split; [|split].
  - intros i. rewrite Hk. apply (den_redistribute Z 0%Z 1%Z Z.add Z.mul Z.sub Z.opp Zth (Z.to_nat mode) (kt_to_k k) Hn).
  - change (kt_weights k') with (kweights (kt_to_k k')). rewrite Hk. reflexivity.
  - rewrite Hk. unfold k_redistribute, kshape. cbn [kfactors kt_to_k].
    generalize (Z.to_nat mode). generalize (kt_weights k). intros w n. clear.
    revert n. induction (kt_factors k) as [|A As IH]; intros [|n]; cbn; auto.
    + f_equal. unfold scale_cols, nrows. now rewrite map_length.
    + f_equal. apply IH.
Qed.

(* the shared record read as a ktz record (for the generated cases: the generated method is EVALUATED on the case's literal input
   next to the hand model) *)
Definition k_to_kt (K : ktensor Z) : ktz := mkkt (kweights K) (kfactors K).
Definition zk_gen_redistribute (mode : Z) (K : ktensor Z) : option (ktensor Z) :=
  match ktensor_redistribute (k_to_kt K) mode with Ok k' => Some (kt_to_k k') | Err => None end.
