(* Props/C16Gen.v — the part of export_data that goes through translator-GENERATED code (statements only).
   export_size calls pyttb_utils.parse_shape (Gen/GenUtils3b.v, regenerated from /repo on every run): on the tuple of ints
   that `.shape` is, the two header lines written over the generated parse_shape are the [size_lines] of the hand model,
   for every shape (order 0: order line 0 and an empty sizes line). *)
From Coq Require Import String.
From Coq Require Import List Arith ZArith Bool.
From PV Require Import Np.NpZ Np.NpZ2 Np.NpZ3 Np.NpZ3b Gen.GenUtils3b Base.Index Model.C16IO Proofs.C16Gen.
Import ListNotations.

Theorem C16_export_size_generated : forall (T : Type) (s : shape),
  export_size_gen T (shape_tuple s) = Some (size_lines T s).
Proof. exact export_size_tuple. Qed.
Print Assumptions C16_export_size_generated.
