(* Model/C02Tenmat.v — the dense kernels of pyttb/tensor.py that go through a matricisation (pyttb/tenmat.py):
   tensor.to_tenmat, tenmat.__mul__, tenmat.to_tensor, and on top of them tensor.ttt, tensor.collapse, tensor.contract,
   tensor.scale, tensor.mask.  Executable transliterations written against the tabulate-style numpy primitives of Np/Array.v
   (np_transpose, np_reshapeF) and matmul of Model/C02Dense.v.  Definitions only; proofs in Proofs/C02TenmatProofs.v. *)
From Coq Require Import List Arith Lia Bool.
From PV Require Import Base.Index Base.Perm Base.Sum Np.Array Model.Sparse Model.Repr Model.C02Spec Model.C02Dense.
Import ListNotations.

Section Tenmat.
Context {V : Type} (v0 v1 : V) (vadd vmul : V -> V -> V).
Local Notation "x + y" := (vadd x y).
Local Notation "x * y" := (vmul x y).
Local Notation den := (den_dense v0).

(* tensor.to_tenmat (tensor.py:605) once gather_wrap_dims has produced (rdims, cdims):
     data = np.reshape(np.transpose(self.data, rdims ++ cdims), (prod(shape[rdims]), prod(shape[cdims])), order="F") *)
Definition impl_to_tenmat (X : dense V) (rd cd : list nat) : dense V :=
  let s := dshape X in
  np_reshapeF v0 (np_transpose v0 X (rd ++ cd)) [size (pick 0 rd s); size (pick 0 cd s)].

(* tenmat.to_tensor (tenmat.py:223): order = rindices ++ cindices; data = np.reshape(data, tshape[order], "F");
     if order.size > 1: data = np.transpose(data, np.argsort(order));  ttb.tensor(data, tshape) *)
Definition impl_to_tensor (M : dense V) (rd cd : list nat) (tshape : shape) : dense V :=
  let order := rd ++ cd in
  let d := np_reshapeF v0 M (pick 0 order tshape) in
  if 1 <? length order then np_transpose v0 d (invperm order) else d.

(* ---- tensor.ttt (tensor.py:1655): amatrix = self.to_tenmat(cdims=selfdims)   (rdims = setdiff1d(arange(N), selfdims));
        bmatrix = other.to_tenmat(rdims=otherdims) (cdims = setdiff1d(arange(M), otherdims));  cmatrix = amatrix * bmatrix
        (tenmat.__mul__: tshape = self.tshape[rindices] ++ other.tshape[cindices]; a scalar (data @ data)[0, 0] when tshape is
        empty, else tenmat(matmul, arange(|r|), arange(|c|) + |r|, tshape));  cmatrix.to_tensor() ---- *)
Definition impl_ttt_dense (X Y : dense V) (sd od : list nat) : dense V :=
  let s1 := dshape X in let s2 := dshape Y in
  let r1 := compl (length s1) sd in let r2 := compl (length s2) od in
  let A := impl_to_tenmat X r1 sd in
  let B := impl_to_tenmat Y od r2 in
  let tshape := pick 0 r1 s1 ++ pick 0 r2 s2 in
  let C := matmul v0 vadd vmul A B in
  match tshape with
  | [] => mkDense [] [den C [0; 0]]
  | _ => impl_to_tensor C (seq 0 (length r1)) (seq (length r1) (length r2)) tshape
  end.

(* ---- tensor.collapse (tensor.py:316) with reducer fun (default np.sum); dims as returned by tt_dimscheck (ascending):
        dims empty: self.copy();  all modes: fun(self.data.flatten("F"));  otherwise A = self.to_tenmat(remdims, dims);
        B[i] = fun(A[i, :]);  ttb.tensor(B, shape[remdims]) ---- *)
Definition impl_collapse_dense (red : list V -> V) (X : dense V) (dims : list nat) : dense V :=
  let s := dshape X in
  let rem := compl (length s) dims in
  match dims, rem with
  | [], _ => X
  | _, [] => mkDense [] [red (ddata X)]
  | _, _ =>
      let A := impl_to_tenmat X rem dims in
      let rows := nth 0 (dshape A) 0 in let cols := nth 1 (dshape A) 0 in
      let B := mkDense [rows; 1] (map (fun i => red (map (fun c => den A [i; c]) (seq 0 cols))) (seq 0 rows)) in
      np_reshapeF v0 B (pick 0 rem s)
  end.

(* ---- tensor.contract (tensor.py:420): 2-way: np.trace(self.data); otherwise permute (remdims, i1, i2), reshape to (m, n, n),
        newdata += data[:, idx, idx] for idx in range(n), reshape to shape[remdims] ---- *)
Definition impl_contract_dense (X : dense V) (i1 i2 : nat) : dense V :=
  let s := dshape X in let N := length s in
  let n := nth i1 s 0 in
  if Nat.eqb N 2 then mkDense [] [sum_n v0 vadd n (fun k => den X [k; k])]
  else
    let rem := compl N [i1; i2] in
    let newsize := pick 0 rem s in
    let m := size newsize in
    let x := np_transpose v0 X (rem ++ [i1; i2]) in
    let data := np_reshapeF v0 x [m; n; n] in
    let newdata := mkDense [m; 1] (map (fun a => sum_n v0 vadd n (fun k => den data [a; k; k])) (seq 0 m)) in
    np_reshapeF v0 newdata newsize.

(* ---- tensor.scale (tensor.py:1318): vector_factor = factor.to_tenmat(arange(factor.ndims)) (a column);
        vector_self = self.to_tenmat(dims, remdims); result = vector_self * vector_factor (numpy broadcasting of the column);
        ttb.tenmat(result, dims, remdims, self.shape).to_tensor() ---- *)
Definition impl_scale_dense (X : dense V) (dims : list nat) (F : dense V) : dense V :=
  let s := dshape X in
  let rem := compl (length s) dims in
  let vf := impl_to_tenmat F (seq 0 (length (dshape F))) [] in
  let vs := impl_to_tenmat X dims rem in
  let result := tabulate (dshape vs) (fun ab => den vs ab * den vf [nth 0 ab 0; 0]) in
  impl_to_tensor result dims rem s.

(* ---- tensor.mask (tensor.py:992): self.data[tuple(wsubs.transpose())] with wsubs the subscripts W.find() returns ---- *)
Definition impl_mask_dense (X : dense V) (wsubs : list idx) : list V :=
  map (fun i => nth (sub2ind (dshape X) i) (ddata X) v0) wsubs.

(* collapse with an arbitrary reducer: the reducer applied to the list of the entries of the slice, the collapsed modes running in
   F order (first collapsed mode fastest) *)
Definition spec_collapse_red (red : list V -> V) (f : idx -> V) (s : shape) (dims : list nat) : idx -> V :=
  fun i' => red (map (fun ks => f (unpick (compl (length s) dims ++ dims) (i' ++ ks))) (allsubs (pick 0 dims s))).

End Tenmat.
