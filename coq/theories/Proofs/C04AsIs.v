(* Proofs/C04AsIs.v — C04, wave 4: the trigger of the open finding C04-N04 is exact on all-slice keys.
   OUTSIDE the trigger class (every slice of the key has start None or >= 0, stop None or > 0, step None or 1) the GENERATED
   tt_irenumber — the as-is code — sends every stored subscript y of the right-hand side to the position the specification
   assigns it to (select ls y: mode by mode the y_i-th element of the slice's selection), for any number of modes, stored entries
   and stored order.  Hence on such keys the as-is model (Model/C04AsIs.v) and the specified sparse step append the same
   subscripts: a disagreement needs a step, a negative bound — the trigger — (or an index list / integer next to them, not
   covered by this theorem: compared exactly by the stream). *)
From Coq Require Import List Arith ZArith Lia Bool.
From PV Require Import Base.Index Np.Array Model.Sparse.
From PV Require Import Np.NpZ Np.NpZ2 Np.NpZ3 Gen.GenUtils3 Model.W3Utils Proofs.W3Bridge Proofs.W3Laws.
From PV Require Import Model.C04Model Proofs.C04GenBridge Proofs.C04GenRegion.
Import ListNotations.

Definition unit_sliceb (e : C04Model.kelem) : bool :=
  match e with
  | C04Model.KSlice a b c =>
      (match a with None => true | Some x => (0 <=? x)%Z end) &&
      (match b with None => true | Some x => (0 <? x)%Z end) &&
      (match c with None => true | Some x => (x =? 1)%Z end)
  | _ => false
  end.

Local Open Scope Z_scope.

(* what the as-is code takes as the selection of a slice entry on a mode of extent d *)
Definition slice_sel (d : Z) (s : pyslice) : vec := np_arange (opt_or (sl_start s) 0) (opt_or (sl_stop s) d + 1).

Definition as_list (d : Z) (r : pyidx) : pyidx := match r with IxSlice s => IxSeq (slice_sel d s) | _ => r end.
Fixpoint as_lists (shape : vec) (k : Z) (nrs : list pyidx) : list pyidx :=
  match nrs with [] => [] | r :: rs => as_list (znth 0 shape k) r :: as_lists shape (k + 1) rs end.

Lemma step_slice_as_list shape i s ns : opt_truthy (sl_stop s) || idx_ok shape i = true ->
  H_irenumber_step shape i (IxSlice s) ns = H_irenumber_step shape i (IxSeq (slice_sel (znth 0 shape i) s)) ns.
Proof. intros H. unfold H_irenumber_step. rewrite H. reflexivity. Qed.

Lemma loop_as_lists shape : forall nrs k ns,
  (forall p s, (p < length nrs)%nat -> nth p nrs IxNone = IxSlice s -> opt_truthy (sl_stop s) || idx_ok shape (k + Z.of_nat p) = true) ->
  H_irenumber_loop shape (np_enumerate k nrs) ns = H_irenumber_loop shape (np_enumerate k (as_lists shape k nrs)) ns.
Proof.
  induction nrs as [|r rs IH]; intros k ns H; [reflexivity|].
  cbn [np_enumerate as_lists H_irenumber_loop].
  assert (E : H_irenumber_step shape k r ns = H_irenumber_step shape k (as_list (znth 0 shape k) r) ns).
  { destruct r as [z|s|l|l|]; try reflexivity. cbn [as_list]. apply step_slice_as_list.
    specialize (H 0%nat s). cbn [length nth] in H. rewrite Z.add_0_r in H. apply H; [lia|reflexivity]. }
  rewrite E. destruct (H_irenumber_step shape k (as_list (znth 0 shape k) r) ns) as [ns'|]; cbn [bind]; [|reflexivity].
  apply IH. intros p s Hp Hs. specialize (H (S p) s). cbn [length nth] in H.
  replace (k + 1 + Z.of_nat p) with (k + Z.of_nat (S p)) by lia. apply H; [lia|exact Hs].
Qed.

Lemma as_lists_length shape : forall nrs k, length (as_lists shape k nrs) = length nrs.
Proof. induction nrs; intros; cbn; auto. Qed.

Lemma nth_as_lists shape : forall nrs k p, (p < length nrs)%nat ->
  nth p (as_lists shape k nrs) IxNone = as_list (znth 0 shape (k + Z.of_nat p)) (nth p nrs IxNone).
Proof.
  induction nrs as [|r rs IH]; intros k p Hp; cbn in Hp; [lia|]. destruct p as [|p]; cbn [as_lists nth].
  - now rewrite Z.add_0_r.
  - rewrite IH by lia. f_equal. f_equal. lia.
Qed.

(* Python slice semantics of a unit-step, non-negative slice: consecutive indices from its start *)
Lemma unit_slice_nth (d : nat) a b c l : unit_sliceb (C04Model.KSlice a b c) = true ->
  C04Model.py_slice d a b c = l -> l <> [] ->
  forall y, (y < length l)%nat ->
    Z.of_nat (nth y l 0%nat) = opt_or a 0 + Z.of_nat y /\
    Z.of_nat y < zlen (slice_sel (Z.of_nat d) (mkslice a b c)) /\ 0 <= opt_or a 0.
Proof.
  intros Hu Hl Hne y Hy. cbn [unit_sliceb] in Hu. apply andb_true_iff in Hu as [Hu Hc]. apply andb_true_iff in Hu as [Ha Hb].
  unfold C04Model.py_slice in Hl. cbv zeta in Hl.
  assert (Hstep : match c with Some s => s | None => 1 end = 1) by (destruct c as [x|]; [apply Z.eqb_eq in Hc; exact Hc|reflexivity]).
  rewrite Hstep in Hl. cbn [Z.eqb Z.ltb] in Hl. change (1 =? 0) with false in Hl. change (1 <? 0) with false in Hl. cbv iota in Hl.
  set (n := Z.of_nat d) in *.
  set (start := match a with Some x => if x <? 0 then (let y0 := x + n in if y0 <? 0 then 0 else y0) else if n <=? x then n else x | None => 0 end) in *.
  set (stop := match b with Some x => if x <? 0 then (let y0 := x + n in if y0 <? 0 then 0 else y0) else if n <=? x then n else x | None => n end) in *.
  assert (Hcnt : (if start <? stop then (stop - start - 1) / 1 + 1 else 0) = if start <? stop then stop - start else 0).
  { destruct (start <? stop); [rewrite Z.div_1_r; lia|reflexivity]. }
  rewrite Hcnt in Hl.
  destruct (Z.ltb_spec start stop) as [Hlt|Hge]; [|subst l; cbn in Hne; congruence].
  assert (Hstart : start = opt_or a 0 /\ 0 <= start).
  { unfold start, opt_or. destruct a as [x|]; [|split; lia]. apply Z.leb_le in Ha.
    destruct (Z.ltb_spec x 0); [lia|]. destruct (Z.leb_spec n x) as [Hnx|Hnx].
    - exfalso. unfold start in Hlt. destruct (Z.ltb_spec x 0); [lia|]. destruct (Z.leb_spec n x); [|lia].
      unfold stop in Hlt. destruct b as [bx|]; [|lia]. destruct (Z.ltb_spec bx 0); [cbv zeta in Hlt; destruct (Z.ltb_spec (bx + n) 0); lia|].
      destruct (Z.leb_spec n bx); lia.
    - destruct (Z.eqb_spec x 0); split; lia. }
  destruct Hstart as [Hs0 Hs1].
  assert (Hstop : stop <= opt_or b n).
  { unfold stop, opt_or. destruct b as [x|]; [|lia]. apply Z.ltb_lt in Hb.
    destruct (Z.ltb_spec x 0); [lia|]. destruct (Z.eqb_spec x 0); [lia|]. destruct (Z.leb_spec n x); lia. }
  assert (Hlen : length l = Z.to_nat (stop - start)) by (subst l; now rewrite map_length, seq_length).
  split; [|split].
  - subst l. rewrite (nth_indep _ 0%nat (Z.to_nat (start + Z.of_nat 0 * 1))) by (rewrite map_length, seq_length; lia).
    rewrite (map_nth (fun k => Z.to_nat (start + Z.of_nat k * 1))). rewrite seq_nth by lia. rewrite <- Hs0. lia.
  - unfold slice_sel, zlen, np_arange. cbn [sl_start sl_stop]. rewrite map_length, seq_length. rewrite <- Hs0. lia.
  - rewrite <- Hs0. exact Hs1.
Qed.

Lemma znth_arange a b k : 0 <= k < b - a -> znth 0 (np_arange a b) k = a + k.
Proof.
  intros H. rewrite znth_nonneg by lia. unfold np_arange.
  rewrite (nth_indep _ 0 (a + Z.of_nat 0)) by (rewrite map_length, seq_length; lia).
  rewrite (map_nth (fun k => a + Z.of_nat k)). rewrite seq_nth by lia. lia.
Qed.

Lemma nth_select_slices ls : (forall kl, In kl ls -> fst kl = true) -> forall y i, length y = length ls -> (i < length ls)%nat ->
  nth i (select ls y) 0%nat = nth (nth i y 0%nat) (snd (nth i ls (false, []))) 0%nat.
Proof.
  induction ls as [|[kept l] ls IH]; intros Hk y i Hl Hi; cbn in Hi; [lia|].
  assert (kept = true) by (apply (Hk (kept, l)); left; reflexivity). subst kept.
  destruct y as [|x y]; [cbn in Hl; lia|]. cbn [select hd tl]. destruct i as [|i]; [reflexivity|].
  cbn [nth]. apply IH; [intros kl Hkl; apply Hk; right; exact Hkl|cbn in Hl; lia|lia].
Qed.

Lemma select_length ls : forall y, length (select ls y) = length ls.
Proof. induction ls as [|[[|] l] ls IH]; intros y; cbn; auto. Qed.

Lemma nth_map_zs (Y : list idx) row : (row < length Y)%nat ->
  @nth (list Z) row (map zs Y) (@nil Z) = zs (nth row Y []).
Proof. intros H. exact (nth_map_lt zs Y [] [] row H). Qed.

Theorem asis_agrees_unit_slices (s : shape) (es : list C04Model.kelem) ls (Ysubs : list idx) (vals shp : vec) :
  forallb unit_sliceb es = true ->
  region_lists s es = Some ls -> Ysubs <> [] -> s <> [] ->
  (forall y, In y Ysubs -> inb (kept_shape ls) y = true) ->
  tt_irenumber (mkspt (map zs Ysubs) vals shp) (zs s) (zkeys s es) = Ok (map (fun y => zs (select ls y)) Ysubs).
Proof.
  intros Hu Hrl HY Hs Hin.
  destruct (region_lists_len s es ls Hrl) as [Les Lls].
  assert (Lzs : length (zs s) = length s) by (unfold zs; apply map_length).
  rewrite forallb_forall in Hu.
  (* every element is a slice, every mode is kept *)
  assert (Hel : forall i, (i < length s)%nat -> exists a b c, nth i es (C04Model.KInt 0) = C04Model.KSlice a b c /\
            unit_sliceb (C04Model.KSlice a b c) = true /\ nth i ls (false, []) = (true, C04Model.py_slice (nth i s 0%nat) a b c) /\
            C04Model.py_slice (nth i s 0%nat) a b c <> []).
  { intros i Hi. pose proof (region_lists_nth s es ls i Hrl Hi) as Hn.
    assert (Hie : In (nth i es (C04Model.KInt 0)) es) by (apply nth_In; lia). specialize (Hu _ Hie).
    destruct (nth i es (C04Model.KInt 0)) as [z|a b c|l] eqn:Ee; cbn in Hu; try discriminate.
    exists a, b, c. split; [reflexivity|]. split; [exact Hu|]. cbn [elem_indices] in Hn.
    destruct (C04Model.py_slice (nth i s 0%nat) a b c) eqn:Ep; [discriminate|]. inversion Hn. split; [reflexivity|discriminate]. }
  assert (Hkept : forall kl, In kl ls -> fst kl = true).
  { intros kl Hkl. destruct (In_nth _ _ (false, []) Hkl) as (i & Hi & <-). rewrite Lls in Hi.
    destruct (Hel i Hi) as (a & b & c & _ & _ & -> & _). reflexivity. }
  assert (Hks : kept_shape ls = map (fun kl : bool * list nat => length (snd kl)) ls).
  { unfold kept_shape. f_equal. clear -Hkept. induction ls as [|kl ls IH]; [reflexivity|]. cbn [filter].
    rewrite (Hkept kl) by (left; reflexivity). f_equal. apply IH. intros; apply Hkept; right; assumption. }
  assert (HYlen : forall y, In y Ysubs -> length y = length s).
  { intros y Hy. rewrite (inb_length _ _ (Hin y Hy)), Hks, map_length. exact Lls. }
  assert (HYnth : forall y i, In y Ysubs -> (i < length s)%nat -> (nth i y 0 < length (snd (nth i ls (false, []))))%nat).
  { intros y i Hy Hi. specialize (Hin y Hy). rewrite Hks in Hin. clear -Hin Hi Lls. rewrite <- Lls in Hi. clear Lls.
    revert y i Hin Hi. induction ls as [|kl ls IH]; intros y i Hin Hi; cbn in Hi; [lia|].
    destruct y as [|x y]; cbn [map inb] in Hin; [discriminate|]. apply andb_true_iff in Hin as [H1 H2].
    destruct i as [|i]; cbn [nth]; [now apply Nat.ltb_lt in H1|]. apply IH; [exact H2|lia]. }
  rewrite tt_irenumber_bridge. unfold H_irenumber.
  assert (Hn : spt_nnz (mkspt (map zs Ysubs) vals shp) =? 0 = false).
  { unfold spt_nnz. cbn [spt_subs]. destruct Ysubs as [|y0 Yr] eqn:EY; [congruence|]. rewrite <- EY in *.
    assert (Hy0 : In y0 Ysubs) by (rewrite EY; left; reflexivity).
    rewrite (np_size2_pos (map zs Ysubs) (zs y0)).
    - apply Z.eqb_neq. unfold np_nrows, zlen. rewrite map_length, EY. cbn [length]. lia.
    - now apply in_map.
    - intros E. apply (f_equal (@length Z)) in E. unfold zs in E. rewrite map_length, (HYlen y0 Hy0) in E.
      destruct s; [congruence|discriminate]. }
  rewrite Hn. cbn [spt_subs].
  rewrite loop_as_lists.
  2:{ intros p sl Hp Hsl. rewrite zkeys_len in Hp by exact Les. rewrite Z.add_0_l, idx_ok_nat, Lzs.
      apply orb_true_intro. right. now apply Nat.ltb_lt. }
  set (nrs' := as_lists (zs s) 0 (zkeys s es)).
  set (sels := map (fun i => slice_sel (Z.of_nat (nth i s 0%nat))
                      (match nth i es (C04Model.KInt 0) with C04Model.KSlice a b c => mkslice a b c | _ => mkslice None None None end))
                   (seq 0 (length s))).
  assert (Lnrs : length nrs' = length s) by (unfold nrs'; rewrite as_lists_length; now apply zkeys_len).
  assert (Hsel : forall i, (i < length s)%nat -> ix_items (nth i nrs' IxNone) = Some (nth i sels [])).
  { intros i Hi. unfold nrs', sels. rewrite nth_as_lists by (rewrite zkeys_len; auto). rewrite nth_zkeys by auto.
    rewrite nth_map_seq by exact Hi. destruct (Hel i Hi) as (a & b & c & -> & _). cbn [zkey as_list ix_items].
    rewrite Z.add_0_l. now rewrite znth_zs by lia. }
  assert (Hfacts : forall y i, In y Ysubs -> (i < length s)%nat ->
            0 <= Z.of_nat (nth i y 0%nat) < zlen (nth i sels []) /\
            znth 0 (nth i sels []) (Z.of_nat (nth i y 0%nat)) = Z.of_nat (nth i (select ls y) 0%nat)).
  { intros y i Hy Hi. destruct (Hel i Hi) as (a & b & c & Ee & Hub & Ekl & Hne).
    pose proof (HYnth y i Hy Hi) as Hlt. rewrite Ekl in Hlt. cbn [snd] in Hlt.
    destruct (unit_slice_nth (nth i s 0%nat) a b c _ Hub eq_refl Hne _ Hlt) as (H1 & H2 & H3).
    unfold sels. rewrite nth_map_seq by exact Hi. rewrite Ee. split; [lia|].
    rewrite (nth_select_slices ls Hkept y i) by (rewrite ?(HYlen y Hy); lia). rewrite Ekl. cbn [snd]. rewrite H1.
    unfold slice_sel in *. cbn [sl_start sl_stop] in *. apply znth_arange.
    unfold zlen, np_arange in H2. rewrite map_length, seq_length in H2. lia. }
  destruct (irenumber_lists_loop (zs s) (map zs Ysubs) sels (length s)) with (suffix := nrs') (j := 0%nat) (ns := map zs Ysubs)
    as (ns & E & Lns & Hrows).
  - unfold sels. now rewrite map_length, seq_length.
  - intros r Hr. apply in_map_iff in Hr as (y & <- & Hy). unfold zs. rewrite map_length. auto.
  - intros row i Hrow Hi. rewrite map_length in Hrow.
    rewrite (nth_map_zs Ysubs row Hrow), nth_zs. apply Hfacts; [apply nth_In; exact Hrow|exact Hi].
  - lia.
  - intros p Hp. cbn [Nat.add]. apply Hsel. lia.
  - split; [reflexivity|]. intros row Hrow. rewrite map_length in Hrow. split.
    + rewrite (nth_map_zs Ysubs row Hrow). unfold zs. rewrite map_length. apply HYlen, nth_In, Hrow.
    + intros i Hi. reflexivity.
  - change (Z.of_nat 0) with 0 in E. fold nrs'. rewrite E. f_equal. rewrite map_length in Lns, Hrows.
    apply (nth_ext _ _ [] []); [rewrite map_length; exact Lns|]. intros row Hrow. rewrite Lns in Hrow.
    destruct (Hrows row Hrow) as [Lrow Hrow'].
    assert (Em : @nth (list Z) row (map (fun y => zs (select ls y)) Ysubs) (@nil Z) = zs (select ls (nth row Ysubs [])))
      by exact (nth_map_lt (fun y => zs (select ls y)) Ysubs [] [] row Hrow).
    rewrite Em.
    assert (Hy : In (nth row Ysubs []) Ysubs) by (apply nth_In; exact Hrow).
    apply (nth_ext _ _ 0 0); [unfold zs; rewrite map_length, select_length; lia|].
    intros i Hi. rewrite Lrow in Hi. rewrite (Hrow' i Hi). destruct (Nat.ltb_spec i (length s)); [|lia].
    rewrite (nth_map_zs Ysubs row Hrow), nth_zs, nth_zs. apply Hfacts; assumption.
Qed.
