(* Proofs/GenWrapDims.v — theorems about the GENERATED gather_wrap_dims (Gen/GenUtils2.v, regenerated from
   pyttb/pyttb_utils.py on every run): every admissible request yields (rdims, cdims) whose concatenation is a
   permutation of 0..ndims-1, following the documented conventions (both given / rows only / columns only /
   "t" / "fc" forward cyclic / "bc" backward cyclic). *)
From Coq Require Import List ZArith Arith Bool Lia Permutation Sorted FinFun.
From PV Require Import Np.NpZ Np.NpZ2 Proofs.NpZProofs Gen.GenUtils Proofs.UtilsProofs Gen.GenUtils2.
Import ListNotations.
Local Open Scope Z_scope.

(* ---- the six request forms, as equations about the generated function ---- *)

Lemma gwd_both N r c cy : gather_wrap_dims N (Some r) (Some c) cy = Ok (r, c).
Proof. reflexivity. Qed.

Lemma gwd_cols N c cy : gather_wrap_dims N None (Some c) cy = Ok (complement N c, c).
Proof. unfold gather_wrap_dims. cbn [bind]. now rewrite setdiff_arange. Qed.

Lemma gwd_rows N r cy : cy = None \/ length r <> 1%nat ->
  gather_wrap_dims N (Some r) None cy = Ok (r, complement N r).
Proof.
  intros H. unfold gather_wrap_dims. rewrite setdiff_arange. fold (complement N r).
  assert (E : (zlen r =? 1) && is_some cy = false).
  { destruct H as [->|H]; [apply andb_false_r|]. apply andb_false_iff. left. apply Z.eqb_neq. unfold zlen. lia. }
  rewrite E. reflexivity.
Qed.

Lemma gwd_t N m : gather_wrap_dims N (Some [m]) None (Some CycT) = Ok (complement N [m], [m]).
Proof. unfold gather_wrap_dims. cbn. now rewrite setdiff_arange. Qed.

Lemma gwd_fc N m : gather_wrap_dims N (Some [m]) None (Some CycFC) = Ok ([m], np_arange (m + 1) N ++ np_arange 0 m).
Proof. reflexivity. Qed.

Lemma gwd_bc N m : gather_wrap_dims N (Some [m]) None (Some CycBC)
  = Ok ([m], np_arange_down (m - 1) (-1) ++ np_arange_down (N - 1) m).
Proof. reflexivity. Qed.

(* rejected: nothing requested; an unrecognised cyclic pattern for a single row mode *)
Lemma gwd_none N cy : gather_wrap_dims N None None cy = Err.
Proof. reflexivity. Qed.

Lemma gwd_other N m : gather_wrap_dims N (Some [m]) None (Some CycOther) = Err.
Proof. reflexivity. Qed.

(* ---- permutation facts ---- *)

Lemma nodup_app {A} (a b : list A) : NoDup a -> NoDup b -> (forall x, In x a -> ~ In x b) -> NoDup (a ++ b).
Proof.
  induction a as [|x a IH]; intros Ha Hb Hd; [exact Hb|]. cbn. inversion Ha; subst. constructor.
  - rewrite in_app_iff. intros [H|H]; [contradiction|]. apply (Hd x); cbn; auto.
  - apply IH; auto. intros y Hy. apply Hd. cbn; auto.
Qed.

Lemma np_arange_nodup a b : NoDup (np_arange a b).
Proof. apply strict_sorted_nodup, np_arange_sorted. Qed.

Lemma in_np_arange_down a b x : In x (np_arange_down a b) <-> b < x <= a.
Proof.
  unfold np_arange_down. rewrite in_map_iff. split.
  - intros (k & <- & Hk). apply in_seq in Hk. lia.
  - intros H. exists (Z.to_nat (a - x)). split; [lia|]. apply in_seq. lia.
Qed.

Lemma np_arange_down_nodup a b : NoDup (np_arange_down a b).
Proof.
  unfold np_arange_down. apply Injective_map_NoDup; [|apply seq_NoDup]. intros k1 k2 H. lia.
Qed.

Lemma in_complement N e x : In x (complement N e) <-> 0 <= x < N /\ ~ In x e.
Proof.
  unfold complement. rewrite filter_In, in_np_arange, negb_true_iff. split; intros [H1 H2]; split; auto.
  - intros Hin. apply zmem_spec in Hin. congruence.
  - destruct (zmem x e) eqn:E; [|reflexivity]. apply zmem_spec in E. contradiction.
Qed.

Lemma complement_nodup N e : NoDup (complement N e).
Proof. apply strict_sorted_nodup, complement_sorted. Qed.

Definition modes_ok (N : Z) (d : vec) : Prop := NoDup d /\ forall k, In k d -> 0 <= k < N.

Lemma perm_with_complement N d : modes_ok N d ->
  Permutation (d ++ complement N d) (np_arange 0 N) /\ Permutation (complement N d ++ d) (np_arange 0 N).
Proof.
  intros [Hn Hr].
  assert (P : Permutation (d ++ complement N d) (np_arange 0 N)).
  { apply NoDup_Permutation.
    - apply nodup_app; [exact Hn|apply complement_nodup|]. intros x Hx Hc. apply in_complement in Hc. tauto.
    - apply np_arange_nodup.
    - intros x. rewrite in_app_iff, in_complement, in_np_arange. split.
      + intros [H|H]; [auto|tauto].
      + intros H. destruct (in_dec Z.eq_dec x d); [left|right]; auto. }
  split; [exact P|]. eapply perm_trans; [apply Permutation_app_comm|exact P].
Qed.

Lemma perm_fc N m : 0 <= m < N -> Permutation ([m] ++ np_arange (m + 1) N ++ np_arange 0 m) (np_arange 0 N).
Proof.
  intros Hm. apply NoDup_Permutation.
  - apply nodup_app; [repeat constructor; auto| |].
    + apply nodup_app; try apply np_arange_nodup. intros x H1 H2. apply in_np_arange in H1, H2. lia.
    + intros x [<-|[]]. rewrite in_app_iff, !in_np_arange. lia.
  - apply np_arange_nodup.
  - intros x. cbn [app In]. rewrite in_app_iff, !in_np_arange. lia.
Qed.

Lemma perm_bc N m : 0 <= m < N ->
  Permutation ([m] ++ np_arange_down (m - 1) (-1) ++ np_arange_down (N - 1) m) (np_arange 0 N).
Proof.
  intros Hm. apply NoDup_Permutation.
  - apply nodup_app; [repeat constructor; auto| |].
    + apply nodup_app; try apply np_arange_down_nodup. intros x H1 H2. apply in_np_arange_down in H1, H2. lia.
    + intros x [<-|[]]. rewrite in_app_iff, !in_np_arange_down. lia.
  - apply np_arange_nodup.
  - intros x. cbn [app In]. rewrite in_app_iff, !in_np_arange_down, in_np_arange. lia.
Qed.

(* ---- admissible requests (docstring of tenmat / gather_wrap_dims) ---- *)

Definition request_okZ (N : Z) (rd cd : option vec) (cy : option cyclic) : Prop :=
  match rd, cd with
  | Some r, Some c => Permutation (r ++ c) (np_arange 0 N)
  | Some d, None => modes_ok N d /\ (length d = 1%nat -> cy <> Some CycOther)
  | None, Some d => modes_ok N d
  | None, None => False
  end.

(* every admissible request yields an ordered partition of the modes, in the documented convention *)
Theorem gather_wrap_dims_gen N rd cd cy : request_okZ N rd cd cy ->
  exists r c, gather_wrap_dims N rd cd cy = Ok (r, c) /\ Permutation (r ++ c) (np_arange 0 N) /\
    (forall r0 c0, rd = Some r0 -> cd = Some c0 -> r = r0 /\ c = c0) /\
    (forall c0, rd = None -> cd = Some c0 -> c = c0 /\ r = complement N c0) /\
    (forall r0, rd = Some r0 -> cd = None -> cy = None \/ length r0 <> 1%nat -> r = r0 /\ c = complement N r0) /\
    (forall m, rd = Some [m] -> cd = None -> cy = Some CycT -> c = [m] /\ r = complement N [m]) /\
    (forall m, rd = Some [m] -> cd = None -> cy = Some CycFC -> r = [m] /\ c = np_arange (m + 1) N ++ np_arange 0 m) /\
    (forall m, rd = Some [m] -> cd = None -> cy = Some CycBC ->
       r = [m] /\ c = np_arange_down (m - 1) (-1) ++ np_arange_down (N - 1) m).
Proof.
  intros Hok. destruct rd as [r0|], cd as [c0|]; cbn in Hok; try contradiction.
  - (* both *)
    exists r0, c0. rewrite gwd_both. split; [reflexivity|]. split; [exact Hok|].
    repeat split; intros; try discriminate; congruence.
  - (* rows only *)
    destruct Hok as [Hm Hcy].
    destruct (Nat.eq_dec (length r0) 1) as [E1|Hne].
    + destruct r0 as [|m [|? ?]]; try discriminate. specialize (Hcy eq_refl).
      assert (Hmr : 0 <= m < N) by (apply (proj2 Hm); cbn; auto).
      destruct cy as [[| | |]|]; try congruence.
      * exists [m], (np_arange (m + 1) N ++ np_arange 0 m). rewrite gwd_fc. split; [reflexivity|].
        split; [now apply perm_fc|].
        repeat split; intros; try discriminate; try congruence;
          try (match goal with H : _ \/ _ |- _ => destruct H as [H|H]; [discriminate|cbn in H; congruence] end).
      * exists [m], (np_arange_down (m - 1) (-1) ++ np_arange_down (N - 1) m). rewrite gwd_bc. split; [reflexivity|].
        split; [now apply perm_bc|].
        repeat split; intros; try discriminate; try congruence;
          try (match goal with H : _ \/ _ |- _ => destruct H as [H|H]; [discriminate|cbn in H; congruence] end).
      * exists (complement N [m]), [m]. rewrite gwd_t. split; [reflexivity|].
        split; [apply (perm_with_complement N [m] Hm)|].
        repeat split; intros; try discriminate; try congruence;
          try (match goal with H : _ \/ _ |- _ => destruct H as [H|H]; [discriminate|cbn in H; congruence] end).
      * exists [m], (complement N [m]). rewrite gwd_rows by auto. split; [reflexivity|].
        split; [apply (perm_with_complement N [m] Hm)|].
        repeat split; intros; try discriminate; try congruence.
    + exists r0, (complement N r0). rewrite gwd_rows by auto. split; [reflexivity|].
      split; [apply (perm_with_complement N r0 Hm)|].
      repeat split; intros; try discriminate; try congruence;
        try (match goal with H : Some _ = Some _ |- _ => inversion H; subst; cbn in Hne; congruence end).
  - (* columns only *)
    exists (complement N c0), c0. rewrite gwd_cols. split; [reflexivity|].
    split; [apply (perm_with_complement N c0 Hok)|].
    repeat split; intros; try discriminate; congruence.
Qed.

Example gwd_example_bc : gather_wrap_dims 3 (Some [1]) None (Some CycBC) = Ok ([1], [0; 2]).
Proof. reflexivity. Qed.
Example gwd_example_fc : gather_wrap_dims 4 (Some [1]) None (Some CycFC) = Ok ([1], [2; 3; 0]).
Proof. reflexivity. Qed.
Example gwd_example_t : gather_wrap_dims 4 (Some [2]) None (Some CycT) = Ok ([0; 1; 3], [2]).
Proof. reflexivity. Qed.
Example gwd_example_cols : gather_wrap_dims 4 None (Some [3; 0]) None = Ok ([1; 2], [3; 0]).
Proof. reflexivity. Qed.
