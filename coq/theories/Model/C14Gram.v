(* Model/C14Gram.v — the mode-n Gram matrix as sptensor.nvecs and ttensor.nvecs form it (value-generic, definitions only).
   * sparse (pyttb/sptensor.py nvecs): the stored nonzeros are re-keyed to COO triples (row key = F-order linear index of the
     subscripts of the other modes, column = mode-n subscript, value) by reshape(...).squeeze().spmatrix();  y = tnt.T @ tnt
     is the coordinate-level sparse product (scipy.sparse is the oracle for that product)
   * Tucker (pyttb/ttensor.py nvecs): V_m = U_m^T U_m (m <> n), V_n = U_n;  H = core x_m V_m;  Y = H_(n) (U_n G_(n))^T *)
From Coq Require Import List Arith Lia Bool.
From PV Require Import Base.Index Base.Sum Np.Array Model.Sparse Model.Repr Model.C14Nvecs.
Import ListNotations.

Section GramSp.
Context {V : Type} (v0 v1 : V) (vadd vmul : V -> V -> V).
Notation matrix := (list (list V)).

Definition sp_triples (S : sparse V) (n : nat) : list (nat * nat * V) :=
  map (fun e => (sub2ind (remove_nth n (sshape S)) (remove_nth n (fst e)), nth n (fst e) 0, snd e)) (entries S).
(* (A^T A)[a, b] for a COO matrix A given by (row, column, value) triples *)
Definition coo_gram (tr : list (nat * nat * V)) (a b : nat) : V :=
  sum_over v0 vadd tr (fun t1 => sum_over v0 vadd tr (fun t2 =>
    if Nat.eqb (snd (fst t1)) a && (Nat.eqb (snd (fst t2)) b && Nat.eqb (fst (fst t1)) (fst (fst t2)))
    then vmul (snd t1) (snd t2) else v0)).
Definition gram_sp_impl (S : sparse V) (n : nat) : matrix :=
  let d := nth n (sshape S) 0 in mtab d d (coo_gram (sp_triples S n)).

(* ---- Tucker *)
(* U^T U  (J x J for U : I x J) *)
Definition utu (U : matrix) : matrix :=
  let J := ncols U in mtab J J (fun p q => sum_over v0 vadd U (fun row => vmul (nth p row v0) (nth q row v0))).
Fixpoint tucker_vs (Us : list matrix) (n : nat) : list matrix :=
  match Us with
  | [] => []
  | U :: Us' => match n with O => U :: map utu Us' | S n' => utu U :: tucker_vs Us' n' end
  end.
(* H = core x_m V_m, as a function of its subscripts k (k_n ranges over the rows of U_n, k_m over the columns of U_m) *)
Definition tucker_H (T : ttensor V) (n : nat) (k : idx) : V :=
  den_t v0 v1 vadd vmul (mkT (tcore T) (tucker_vs (tfactors T) n)) k.
(* Y[a, b] = sum_c H(a; c) * sum_q U_n[b, q] G(q; c)   (c over the subscripts of the other core modes) *)
Definition gram_t_impl (T : ttensor V) (n : nat) : matrix :=
  let Un := nth n (tfactors T) [] in
  let J := dshape (tcore T) in
  mtab (nrows Un) (nrows Un) (fun a b =>
    sum_over v0 vadd (allsubs (remove_nth n J)) (fun c =>
      vmul (tucker_H T n (insert_at n a c))
           (sum_n v0 vadd (nth n J 0) (fun q => vmul (mget v0 Un b q) (den_dense v0 (tcore T) (insert_at n q c)))))).
End GramSp.
