(* Proofs/C08Signs.v — fixsigns(other) of the repaired code: the sign-agreement normal form.
   After the paired flips, in every component of the reference:
     * the score <A_n[:,r], B_n[:,r]> of a flipped mode is negated, every other score is unchanged;
     * NO mode correlates negatively with the reference when the number c of negative scores was even,
       AT MOST ONE when it was odd.
   For every total comparison leb and sign test neg with neg monotone w.r.t. leb and neg (-x) = false when neg x. *)
From Coq Require Import List Arith Lia Bool Permutation Ring Sorted.
From PV Require Import Base.Index Base.Perm Base.Sum Np.Array Model.Sparse Model.Repr Model.C08Kruskal Proofs.C08Proofs
  Proofs.C08NormalForm.
Import ListNotations.

Section S8.
Variable V : Type.
Variables (v0 v1 : V) (vadd vmul vsub : V -> V -> V) (vopp vinv : V -> V).
Hypothesis Vring : ring_theory v0 v1 vadd vmul vsub vopp (@eq V).
Add Ring Vr8s : Vring.
Notation "x * y" := (vmul x y).
Notation m1 := (vm1 v1 vopp).
Notation mat := (list (list V)).
Notation dotp := (dot v0 vadd vmul).
Notation scores := (fso_scores v0 vadd vmul).

Lemma dot_scale_l c a b : dotp (map (fun x => x * c) a) b = dotp a b * c.
Proof.
  unfold dot. revert b; induction a as [|x a IH]; intros [|y b]; cbn; try ring.
  rewrite IH. ring.
Qed.

Lemma length_flip_factors fl R k (As : list mat) : length (flip_factors v1 vmul vopp fl R k As) = length As.
Proof. revert k; induction As as [|A As IH]; intros k; cbn; auto. Qed.

Lemma nth_flip_factors fl R (As : list mat) : forall k n, n < length As ->
  nth n (flip_factors v1 vmul vopp fl R k As) [] =
  scale_cols vmul (map (fun r => if fl (k + n) r then m1 else v1) (seq 0 R)) (nth n As []).
Proof.
  induction As as [|A As IH]; intros k n Hn; cbn in Hn; [lia|].
  destruct n as [|n]; cbn [flip_factors nth].
  - now rewrite Nat.add_0_r.
  - rewrite IH by lia. now replace (S k + n) with (k + S n) by lia.
Qed.

(* the score of mode n in component r after the flips fl *)
Lemma flip_scores fl A B r n : n < length (kfactors A) -> r < krank A ->
  nth n (scores (k_flip v1 vmul vopp fl A) B r) v0 = nth n (scores A B r) v0 * (if fl n r then m1 else v1).
Proof.
  intros Hn Hr. unfold fso_scores, k_flip. cbn [kfactors]. rewrite length_flip_factors.
  rewrite !(nth_map_seq _ v0) by exact Hn.
  rewrite nth_flip_factors by exact Hn. cbn [Nat.add].
  rewrite (col_scale_cols V v0 v1 vadd vmul vsub vopp Vring), dot_scale_l. f_equal.
  now rewrite (nth_map_seq _ v0) by exact Hr.
Qed.

Section Order.
Variables (neg : V -> bool) (leb : V -> V -> bool).
Hypothesis leb_total : forall a b, leb a b = false -> leb b a = true.
Hypothesis neg_mono : forall a b, leb a b = true -> neg b = true -> neg a = true.
Hypothesis neg_opp : forall x, neg x = true -> neg (vopp x) = false.
Notation endpt := (fso_endpt v0 vopp neg leb).

(* in an ascending list the negative entries form a prefix *)
Lemma sorted_neg_prefix l : Sorted (fun a b => leb a b = true) l ->
  forall q, q < length l -> neg (nth q l v0) = (q <? length (filter neg l)).
Proof.
  induction 1 as [|a l Hs IH Hh]; intros q Hq; cbn in Hq; [lia|]. cbn [filter].
  destruct (neg a) eqn:Ea.
  - destruct q as [|q]; cbn [nth length]; auto. rewrite IH by lia. reflexivity.
  - assert (Hz : length (filter neg l) = 0).
    { destruct l as [|b l]; auto. inversion Hh as [|? ? Hab]; subst.
      destruct (filter neg (b :: l)) eqn:Ef; auto. exfalso.
      assert (Hb : neg b = true).
      { specialize (IH 0 ltac:(cbn; lia)). cbn [nth] in IH. rewrite IH. reflexivity. }
      rewrite (neg_mono a b Hab Hb) in Ea. discriminate. }
    destruct q as [|q]; cbn [nth]; [now rewrite Ea, Hz|]. rewrite IH by lia. now rewrite Hz.
Qed.

Lemma count_at_most_one (p : nat -> bool) N :
  (forall q q', q < N -> q' < N -> p q = true -> p q' = true -> q = q') -> length (filter p (seq 0 N)) <= 1.
Proof.
  intros H. destruct (filter p (seq 0 N)) as [|a [|b l]] eqn:E; cbn; try lia. exfalso.
  assert (Ha : In a (filter p (seq 0 N))) by (rewrite E; now left).
  assert (Hb : In b (filter p (seq 0 N))) by (rewrite E; right; now left).
  apply filter_In in Ha as [Ha1 Ha2]. apply filter_In in Hb as [Hb1 Hb2]. apply in_seq in Ha1, Hb1.
  assert (a = b) by (apply H; auto; lia). subst b.
  assert (Hn : NoDup (filter p (seq 0 N))) by (apply NoDup_filter, seq_NoDup).
  rewrite E in Hn. inversion Hn as [|? ? Hni _]; subst. apply Hni. now left.
Qed.

Lemma count_none (p : nat -> bool) N : (forall q, q < N -> p q = false) -> length (filter p (seq 0 N)) = 0.
Proof.
  intros H. destruct (filter p (seq 0 N)) as [|a l] eqn:E; auto. exfalso.
  assert (Ha : In a (filter p (seq 0 N))) by (rewrite E; now left).
  apply filter_In in Ha as [Ha1 Ha2]. apply in_seq in Ha1. rewrite H in Ha2 by lia. discriminate.
Qed.

(* the sorted scores after negating the first e := endpt of them *)
Definition flipped_sorted (ss : list V) (q : nat) : V :=
  if q <? endpt ss then vopp (nth q ss v0) else nth q ss v0.

(* SIGN-AGREEMENT NORMAL FORM on the sorted scores: at most one negative score remains, none when the number of
   negative scores was even *)
Lemma sign_normal_form ss : Sorted (fun a b => leb a b = true) ss ->
  let cnt := length (filter (fun q => neg (flipped_sorted ss q)) (seq 0 (length ss))) in
  cnt <= 1 /\ (Nat.even (length (filter neg ss)) = true -> cnt = 0).
Proof.
  intros Hs. pose proof (sorted_neg_prefix ss Hs) as Hpre. set (c := length (filter neg ss)) in *.
  assert (Hneg : forall q, q < length ss -> neg (flipped_sorted ss q) = true ->
                 (endpt ss <= q /\ q < c) \/ (c <= q /\ q < endpt ss)).
  { intros q Hq H. unfold flipped_sorted in H. destruct (Nat.ltb_spec q (endpt ss)) as [He|He].
    - right. split; auto. destruct (Nat.lt_ge_cases q c) as [Hc|Hc]; auto. exfalso.
      assert (Hn : neg (nth q ss v0) = true) by (rewrite Hpre by exact Hq; now apply Nat.ltb_lt).
      rewrite (neg_opp _ Hn) in H. discriminate.
    - left. split; auto. rewrite Hpre in H by exact Hq. now apply Nat.ltb_lt. }
  assert (Hend : endpt ss = c \/ (Nat.even c = false /\ (endpt ss = c + 1 \/ endpt ss = c - 1))).
  { unfold fso_endpt. fold c. destruct (Nat.even c); auto. right. split; auto.
    destruct ((c <? length ss) && negb (leb (vopp (nth (c - 1) ss v0)) (nth c ss v0))); auto. }
  split.
  - apply count_at_most_one. intros q q' Hq Hq' H H'.
    apply Hneg in H; auto. apply Hneg in H'; auto. lia.
  - intros Hev. apply count_none. intros q Hq. destruct (neg (flipped_sorted ss q)) eqn:E; auto.
    apply Hneg in E; auto. destruct Hend as [He|[Ho _]]; [lia|congruence].
Qed.

Lemma nth_firstn_lt {A} (d : A) e : forall l t, t < e -> nth t (firstn e l) d = nth t l d.
Proof. induction e as [|e IH]; intros [|x l] [|t] H; cbn; auto; try lia. apply IH. lia. Qed.

Lemma memb_firstn_nth e idx q : NoDup idx -> q < length idx -> memb (nth q idx 0) (firstn e idx) = (q <? e).
Proof.
  intros Hn Hq. apply eq_true_iff_eq. rewrite memb_In, Nat.ltb_lt. split.
  - intros Hin. destruct (In_nth _ _ 0 Hin) as (t & Ht & E). rewrite firstn_length in Ht.
    rewrite nth_firstn_lt in E by lia.
    assert (t = q) by (apply (proj1 (NoDup_nth idx 0) Hn); auto; lia). lia.
  - intros He. rewrite <- (nth_firstn_lt 0 e idx q He). apply nth_In. rewrite firstn_length. lia.
Qed.

(* fixsigns(other), component r of the reference: in the order idx = argsort(scores) the new scores are the old ones with
   the first endpt negated; hence (sign_normal_form) at most one of them is negative, none when their number was even *)
Theorem fixsigns_other_scores A B r : r < krank B -> r < krank A ->
  let s := scores A B r in let idx := argsort leb s in let ss := pick v0 idx s in
  let A' := k_fixsigns_other_core v0 v1 vadd vmul vopp neg leb A B in
  Sorted (fun a b => leb a b = true) ss /\
  (forall q, q < length (kfactors A) -> nth (nth q idx 0) (scores A' B r) v0 = flipped_sorted ss q) /\
  let cnt := length (filter (fun q => neg (nth (nth q idx 0) (scores A' B r) v0)) (seq 0 (length (kfactors A)))) in
  cnt <= 1 /\ (Nat.even (length (filter neg ss)) = true -> cnt = 0).
Proof.
  intros HrB HrA s idx ss A'.
  assert (Hs : length s = length (kfactors A)) by (unfold s, fso_scores; now rewrite map_length, seq_length).
  pose proof (argsort_perm V leb s) as Hp. fold idx in Hp. rewrite Hs in Hp.
  pose proof (is_perm_length _ _ Hp) as Hil. pose proof (is_perm_NoDup _ _ Hp) as Hnd.
  assert (Hsort : Sorted (fun a b => leb a b = true) ss) by (apply (argsort_sorted V v0 leb leb_total)).
  assert (Hnew : forall q, q < length (kfactors A) -> nth (nth q idx 0) (scores A' B r) v0 = flipped_sorted ss q).
  { intros q Hq. assert (Hlt : nth q idx 0 < length (kfactors A)).
    { apply (is_perm_In idx _ _ Hp). apply nth_In. lia. }
    unfold A', k_fixsigns_other_core. rewrite flip_scores by auto. cbv beta.
    unfold fso_modes. apply Nat.ltb_lt in HrB. rewrite HrB. fold s. fold idx. fold ss.
    rewrite memb_firstn_nth by (auto; lia). unfold flipped_sorted.
    replace (nth q ss v0) with (nth (nth q idx 0) s v0) by (unfold ss; now rewrite nth_pick by lia).
    destruct (q <? endpt ss); unfold vm1; ring. }
  split; [exact Hsort|]. split; [exact Hnew|]. cbv zeta.
  assert (Hlen : length ss = length (kfactors A)) by (unfold ss; now rewrite pick_length).
  destruct (sign_normal_form ss Hsort) as [H1 H2]. cbv zeta in H1, H2. rewrite Hlen in H1, H2.
  assert (E : filter (fun q => neg (nth (nth q idx 0) (scores A' B r) v0)) (seq 0 (length (kfactors A))) =
              filter (fun q => neg (flipped_sorted ss q)) (seq 0 (length (kfactors A)))).
  { apply filter_ext_in. intros q Hq. apply in_seq in Hq. now rewrite Hnew by lia. }
  rewrite E. split; auto.
Qed.
End Order.
End S8.
