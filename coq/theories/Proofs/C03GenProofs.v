(* Proofs/C03GenProofs.v — the transliterations of Model/C03Gen.v (sparse algorithms over the GENERATED row helpers)
   compute the element-wise specification, for all well-formed operands of order >= 1 in any stored order.
   Layer 1: the helper calls on subscript lists (gen_diff / gen_inter / member positions) equal plain filters
            — exact lists, order included.  Layer 2: each transliterated algorithm equals `Ok` of a closed form,
            whose denotation is the specification. *)
From Coq Require Import List ZArith Arith Lia Bool Permutation FinFun.
From PV Require Import Base.Index Np.NpZ Np.Array Gen.GenUtils Model.Sparse Model.C03Ops Model.C03Gen
                       Proofs.NpZProofs Proofs.UtilsProofs Proofs.RowsProofs Proofs.C03Rows Proofs.C03Lemmas Proofs.C03Proofs.
Import ListNotations.

(* ------------------------------------------------------------------------------------------ *)
(* layer 1: subscript lists as integer matrices                                                 *)
(* ------------------------------------------------------------------------------------------ *)
Lemma zrow_inj i j : zrow i = zrow j -> i = j.
Proof.
  revert j; induction i as [|x i IH]; intros [|y j] H; cbn in H; try discriminate; auto.
  inversion H. f_equal; [lia|auto].
Qed.

Lemma zrows_NoDup l : NoDup l -> NoDup (zrows l).
Proof. apply Injective_map_NoDup. intros i j. apply zrow_inj. Qed.

Lemma in_zrows i l : In (zrow i) (zrows l) <-> In i l.
Proof.
  unfold zrows. rewrite in_map_iff. split.
  - intros (j & E & Hj). apply zrow_inj in E. now subst.
  - intros H. now exists i.
Qed.

Lemma nth_zrows k l : nth k (zrows l) [] = zrow (nth k l []).
Proof. unfold zrows. change (@nil Z) with (zrow []). apply map_nth. Qed.

(* rows of N >= 1 columns: the helpers see "no rows" or "a positive number of cells" *)
Definition width (N : nat) (l : list idx) : Prop := forall i, In i l -> length i = N.

Lemma okw_zrows N l : (0 < N)%nat -> width N l -> okw (zrows l).
Proof.
  intros HN Hw. destruct l as [|i l]; [now left|]. right. cbn [zrows map]. rewrite np_size2_cons.
  pose proof (np_size2_nonneg (map zrow l)).
  assert (length (zrow i) = N) by (unfold zrow; rewrite map_length; apply Hw; cbn; auto). unfold zlen. lia.
Qed.

Lemma width_filter N p l : width N l -> width N (filter p l).
Proof. intros H i Hi. apply filter_In in Hi as [Hi _]. auto. Qed.

Lemma width_allsubs s : width (length s) (allsubs s).
Proof. intros i Hi. apply in_allsubs in Hi. now apply inb_length. Qed.

Lemma pos_spec i l : In i l -> (pos i l < length l)%nat /\ nth (pos i l) l [] = i.
Proof.
  induction l as [|j l IH]; intros H; [contradiction|]. cbn [pos].
  destruct (idx_eqb i j) eqn:E.
  - apply idx_eqb_spec in E. subst. cbn. split; [lia|reflexivity].
  - destruct H as [->|H]; [now rewrite idx_eqb_refl in E|]. destruct (IH H) as [H1 H2]. cbn. split; [lia|exact H2].
Qed.

Lemma loc_zrows l i : NoDup l -> In i l -> loc (zrows l) (zrow i) = Z.of_nat (pos i l).
Proof.
  intros Hn Hi. unfold loc. destruct (pos_spec i l Hi) as [Hp Hnth].
  replace (zrow i) with (nth (pos i l) (zrows l) []) by (now rewrite nth_zrows, Hnth).
  rewrite find_last_nodup; auto using zrows_NoDup. unfold zrows. now rewrite map_length.
Qed.

Lemma inrows_zrows l i : inrows (zrows l) (zrow i) = mem i l.
Proof. apply eq_true_iff_eq. now rewrite inrows_spec, in_zrows, mem_spec. Qed.

Lemma existsb_zrows l i : existsb (row_eqb (zrow i)) (zrows l) = mem i l.
Proof.
  apply eq_true_iff_eq. rewrite existsb_exists, mem_spec. split.
  - intros (r & Hr & E). apply row_eqb_spec in E. subst r. now apply in_zrows.
  - intros H. exists (zrow i). split; [now apply in_zrows|now apply row_eqb_spec].
Qed.

Lemma take_pos {X} (d : X) (xs : list X) l (C : list idx) :
  np_take d xs (map (fun i => Z.of_nat (pos i l)) C) = map (fun i => nth (pos i l) xs d) C.
Proof. unfold np_take. rewrite map_map. apply map_ext. intros i. apply znth_nat. Qed.

Section Layer1.
Variable N : nat.
Hypothesis HN : (0 < N)%nat.

(* tt_intersect_rows(a, b): positions in a of the rows of b that occur in a, in the order of b *)
Theorem intersect_rows_idx (l1 l2 : list idx) : NoDup l1 -> NoDup l2 -> width N l1 -> width N l2 ->
  tt_intersect_rows (zrows l1) (zrows l2) = Ok (map (fun i => Z.of_nat (pos i l1)) (filter (fun i => mem i l1) l2)).
Proof.
  intros H1 H2 W1 W2.
  rewrite tt_intersect_rows_nodup by eauto using zrows_NoDup, okw_zrows. f_equal.
  unfold zrows at 3. rewrite filter_map_comm, map_map.
  rewrite (filter_ext _ (fun i => mem i l1)) by (intros i; apply inrows_zrows).
  apply map_ext_in. intros i Hi. apply filter_In in Hi as [_ Hi]. apply mem_spec in Hi. now apply loc_zrows.
Qed.

(* tt_setdiff_rows(a, b): ascending positions of the rows of a that do not occur in b *)
Theorem setdiff_rows_idx (l1 l2 : list idx) : NoDup l1 -> NoDup l2 -> width N l1 -> width N l2 ->
  tt_setdiff_rows (zrows l1) (zrows l2) =
  Ok (map Z.of_nat (filter (fun k => negb (mem (nth k l1 []) l2)) (seq 0 (length l1)))).
Proof.
  intros H1 H2 W1 W2.
  rewrite setdiff_rows_positions by eauto using zrows_NoDup, okw_zrows. f_equal. f_equal.
  unfold zrows at 3. rewrite map_length. apply filter_ext. intros k. now rewrite nth_zrows, existsb_zrows.
Qed.

(* tt_ismember_rows(c, b) for rows c that all occur in b: their positions in b *)
Theorem ismember_rows_idx (C l2 : list idx) : NoDup l2 -> width N C -> width N l2 -> (forall i, In i C -> In i l2) ->
  exists matched, tt_ismember_rows (zrows C) (zrows l2) = Ok (matched, map (fun i => Z.of_nat (pos i l2)) C).
Proof.
  intros H2 WC W2 Hsub.
  destruct (tt_ismember_rows_total (zrows C) (zrows l2)) as (m & E & _); eauto using okw_zrows.
  exists m. rewrite E. f_equal. f_equal. unfold zrows at 2. rewrite map_map. apply map_ext_in.
  intros i Hi. apply loc_zrows; auto.
Qed.

Theorem gen_diff_spec (l1 l2 : list idx) : NoDup l1 -> NoDup l2 -> width N l1 -> width N l2 ->
  gen_diff l1 l2 = Ok (rows_diff l1 l2).
Proof.
  intros H1 H2 W1 W2. unfold gen_diff. rewrite setdiff_rows_idx by auto. cbn [bind]. f_equal.
  apply (take_positions [] l1 (fun i => negb (mem i l2))).
Qed.

Theorem gen_inter_spec (l1 l2 : list idx) : NoDup l1 -> NoDup l2 -> width N l1 -> width N l2 ->
  gen_inter l1 l2 = Ok (rows_inter l2 l1).
Proof.
  intros H1 H2 W1 W2. unfold gen_inter. rewrite intersect_rows_idx by auto. cbn [bind]. f_equal.
  rewrite take_pos. unfold rows_inter. rewrite <- (map_id (filter _ l2)) at 2. apply map_ext_in.
  intros i Hi. apply filter_In in Hi as [_ Hi]. apply mem_spec in Hi. now apply pos_spec.
Qed.
End Layer1.

Lemma zipw_map {X Y Z' W} (h : Y -> Z' -> W) (f : X -> Y) (g : X -> Z') (l : list X) :
  zipw h (map f l) (map g l) = map (fun x => h (f x) (g x)) l.
Proof. induction l as [|x l IH]; cbn; [reflexivity|]. now rewrite IH. Qed.

Lemma np_mask_filter {X} (g : X -> bool) (l : list X) : np_mask l (map g l) = filter g l.
Proof. rewrite <- (map_id l) at 1. rewrite np_mask_map. apply map_id. Qed.

(* ------------------------------------------------------------------------------------------ *)
(* layer 2: the algorithms                                                                      *)
(* ------------------------------------------------------------------------------------------ *)
Section Layer2.
Context {V : Type} (v0 : V) (isz : V -> bool).
Hypothesis isz_spec : forall v, isz v = true <-> v = v0.
Variable one : V.
Hypothesis one_nz : one <> v0.
Notation den := (den_sp v0).
Notation wf := (wf_sp isz).
Notation wfs := (@wf_struct V).
Notation bv := (bval v0 one).

Lemma width_subs (A : sparse V) : wfs A -> width (length (sshape A)) (ssubs A).
Proof. intros (_ & _ & Hb) i Hi. rewrite Forall_forall in Hb. apply inb_length. auto. Qed.

Lemma nth_pos_vals (A : sparse V) i : wfs A -> In i (ssubs A) -> nth (pos i (ssubs A)) (svals A) v0 = den A i.
Proof.
  intros W Hi. destruct (pos_spec i (ssubs A) Hi) as [Hp Hn]. symmetry. apply (den_struct_in v0); auto.
  destruct W as (HL & _). unfold entries. rewrite <- Hn at 1.
  rewrite <- (combine_nth (ssubs A) (svals A) (pos i (ssubs A)) [] v0 HL). apply nth_In. rewrite combine_length. lia.
Qed.

(* a tensor whose value list is a function of its (distinct) subscripts *)
Lemma den_mk_map s (C : list idx) (f : idx -> V) i : NoDup C ->
  den (mkSp s C (map f C)) i = if mem i C then f i else v0.
Proof.
  intros Hn. destruct (mem i C) eqn:Hm.
  - apply mem_spec in Hm. unfold den_sp. apply last_match_in.
    + unfold entries. cbn [ssubs svals]. rewrite map_fst_combine; auto. now rewrite map_length.
    + unfold entries. cbn [ssubs svals].
      assert (G : forall l, In i l -> In (i, f i) (combine l (map f l))).
      { induction l as [|j l IH]; cbn; [tauto|]. intros [->|H]; auto. }
      now apply G.
  - apply mem_false in Hm. now apply den_sp_notin.
Qed.

Section Mul.
Variable vmul : V -> V -> V.
Hypothesis vmul_0_l : forall x, vmul v0 x = v0.
Hypothesis vmul_0_r : forall x, vmul x v0 = v0.

(* closed form of the repaired sparse * sparse *)
Theorem impl_mul_gen_eq (A B : sparse V) : wfs A -> wfs B -> sshape B = sshape A -> sshape A <> [] ->
  impl_mul_gen v0 vmul A B =
  Ok (let C := rows_inter (ssubs B) (ssubs A) in mkSp (sshape A) C (map (fun i => vmul (den A i) (den B i)) C)).
Proof.
  intros WA WB Hs Hne. pose proof (width_subs A WA) as WdA. pose proof (width_subs B WB) as WdB. rewrite Hs in WdB.
  assert (HN : (0 < length (sshape A))%nat) by (destruct (sshape A); [contradiction|cbn; lia]).
  destruct WA as (HLA & HnA & HbA). destruct WB as (HLB & HnB & HbB).
  unfold impl_mul_gen. rewrite (intersect_rows_idx _ HN) by auto. cbn [bind].
  set (C := filter (fun i => mem i (ssubs A)) (ssubs B)).
  assert (HCA : forall i, In i C -> In i (ssubs A)) by (intros i Hi; apply filter_In in Hi as [_ Hi]; now apply mem_spec).
  assert (HCB : forall i, In i C -> In i (ssubs B)) by (intros i Hi; now apply filter_In in Hi as [Hi _]).
  assert (ET : np_take [] (ssubs A) (map (fun i => Z.of_nat (pos i (ssubs A))) C) = C).
  { rewrite take_pos. rewrite <- (map_id C) at 2. apply map_ext_in. intros i Hi. now apply pos_spec, HCA. }
  rewrite ET.
  destruct (ismember_rows_idx _ HN C (ssubs B)) as (m & E); auto; [unfold C; now apply width_filter|].
  rewrite E. cbn [bind snd]. f_equal. unfold rows_inter. fold C. cbv zeta. f_equal.
  rewrite !take_pos.
  rewrite (map_ext_in _ (fun i => den A i)) by (intros i Hi; apply nth_pos_vals; [repeat split; auto|auto]).
  rewrite (map_ext_in (fun i => nth (pos i (ssubs B)) (svals B) v0) (fun i => den B i))
    by (intros i Hi; apply nth_pos_vals; [repeat split; auto|auto]).
  apply zipw_map.
Qed.

Theorem impl_mul_gen_correct (A B : sparse V) : wf A -> wf B -> sshape B = sshape A -> sshape A <> [] ->
  exists R, impl_mul_gen v0 vmul A B = Ok R /\ wfs R /\ sshape R = sshape A /\
            (forall i, den R i = vmul (den A i) (den B i)) /\
            ((forall x y, x <> v0 -> y <> v0 -> vmul x y <> v0) -> wf R).
Proof.
  intros WA WB Hs Hne. pose proof (wf_sp_struct isz A WA) as WsA. pose proof (wf_sp_struct isz B WB) as WsB.
  eexists. split; [now apply impl_mul_gen_eq|]. cbv zeta. set (C := rows_inter (ssubs B) (ssubs A)).
  assert (HnC : NoDup C) by (apply NoDup_filter; now destruct WsB as (_ & ? & _)).
  assert (HbC : Forall (fun i => inb (sshape A) i = true) C).
  { rewrite Forall_forall. intros i Hi. apply filter_In in Hi as [_ Hi]. apply mem_spec in Hi. now apply wf_inb. }
  assert (Wst : wfs (mkSp (sshape A) C (map (fun i => vmul (den A i) (den B i)) C))).
  { unfold wf_struct. cbn [ssubs svals sshape]. rewrite map_length. auto. }
  split; [exact Wst|]. split; [reflexivity|]. split.
  - intros i. rewrite den_mk_map by auto. unfold C, rows_inter. destruct (mem i (filter (fun i0 => mem i0 (ssubs A)) (ssubs B))) eqn:Hm.
    + reflexivity.
    + apply mem_false in Hm. rewrite filter_In, mem_spec in Hm.
      destruct (in_dec idx_dec i (ssubs B)) as [HB|HB].
      * assert (HA : ~ In i (ssubs A)) by tauto. now rewrite (den_sp_notin v0 A i HA).
      * now rewrite (den_sp_notin v0 B i HB).
  - intros Hzd. destruct Wst as (W1 & W2 & W3). unfold wf_sp. cbn [ssubs svals sshape] in *. repeat split; auto.
    rewrite Forall_forall. intros v Hv. apply in_map_iff in Hv as (i & <- & Hi).
    apply filter_In in Hi as [HiB HiA]. apply mem_spec in HiA.
    apply (isz_false v0 isz isz_spec). apply Hzd.
    + now apply (in_subs_iff v0 isz isz_spec A i WA).
    + now apply (in_subs_iff v0 isz isz_spec B i WB).
Qed.
End Mul.

(* the implicit-zero positions through the generated tt_setdiff_rows *)
Lemma gen_zero_subs (A : sparse V) : wfs A -> sshape A <> [] ->
  gen_diff (allsubs (sshape A)) (ssubs A) = Ok (zero_subs A).
Proof.
  intros W Hne. assert (HN : (0 < length (sshape A))%nat) by (destruct (sshape A); [contradiction|cbn; lia]).
  apply (gen_diff_spec _ HN); auto using allsubs_NoDup, width_allsubs, width_subs. now destruct W as (_ & ? & _).
Qed.

Theorem impl_not_gen_eq (A : sparse V) : wfs A -> sshape A <> [] -> impl_not_gen one A = Ok (impl_not one A).
Proof. intros W Hne. unfold impl_not_gen. now rewrite gen_zero_subs. Qed.

Theorem impl_cmp_scalar_gen_eq cmp (A : sparse V) c : wfs A -> sshape A <> [] ->
  impl_cmp_scalar_gen v0 one cmp A c = Ok (impl_cmp_scalar v0 one cmp A c).
Proof.
  intros W Hne. unfold impl_cmp_scalar_gen, impl_cmp_scalar. destruct (cmp v0 c).
  - now rewrite gen_zero_subs.
  - now rewrite app_nil_r.
Qed.

Theorem impl_cmp_gen_eq cmp (A B : sparse V) : wfs A -> wfs B -> sshape B = sshape A -> sshape A <> [] ->
  impl_cmp_gen v0 one cmp A B = Ok (impl_cmp v0 one cmp A B).
Proof.
  intros WA WB Hs Hne. assert (HN : (0 < length (sshape A))%nat) by (destruct (sshape A); [contradiction|cbn; lia]).
  pose proof (width_subs A WA) as WdA. pose proof (width_subs B WB) as WdB. rewrite Hs in WdB.
  assert (HnA : NoDup (ssubs A)) by (now destruct WA as (_ & ? & _)).
  assert (HnB : NoDup (ssubs B)) by (now destruct WB as (_ & ? & _)).
  unfold impl_cmp_gen, impl_cmp.
  rewrite (gen_diff_spec _ HN (ssubs A) (ssubs B)) by auto. cbn [bind].
  rewrite (gen_diff_spec _ HN (ssubs B) (ssubs A)) by auto. cbn [bind].
  rewrite (gen_inter_spec _ HN (ssubs A) (ssubs B)) by auto. cbn [bind].
  destruct (cmp v0 v0); [|reflexivity].
  rewrite gen_zero_subs by auto. cbn [bind]. rewrite gen_zero_subs by (auto; congruence). cbn [bind].
  rewrite (gen_inter_spec _ HN (zero_subs A) (zero_subs B)); [reflexivity| | | |].
  - apply NoDup_zero_subs.
  - apply NoDup_zero_subs.
  - apply width_filter, width_allsubs.
  - unfold zero_subs. rewrite Hs. apply width_filter, width_allsubs.
Qed.

Section Eq.
Variable veqb : V -> V -> bool.
Hypothesis veqb_spec : forall a b, veqb a b = true <-> a = b.

Theorem impl_eq_gen_eq (A B : sparse V) : wfs A -> wfs B -> sshape B = sshape A -> sshape A <> [] ->
  impl_eq_gen v0 one veqb A B =
  Ok (sp_const (sshape A) (rows_inter (zero_subs B) (zero_subs A) ++
                           filter (fun i => veqb (den A i) (den B i)) (rows_inter (ssubs B) (ssubs A))) one).
Proof.
  intros WA WB Hs Hne. assert (HN : (0 < length (sshape A))%nat) by (destruct (sshape A); [contradiction|cbn; lia]).
  pose proof (width_subs A WA) as WdA. pose proof (width_subs B WB) as WdB. rewrite Hs in WdB.
  destruct WA as (HLA & HnA & HbA). destruct WB as (HLB & HnB & HbB).
  unfold impl_eq_gen. rewrite gen_zero_subs by (repeat split; auto). cbn [bind].
  rewrite gen_zero_subs by (repeat split; auto; congruence). cbn [bind].
  rewrite (gen_inter_spec _ HN (zero_subs A) (zero_subs B));
    [|apply NoDup_zero_subs|apply NoDup_zero_subs|apply width_filter, width_allsubs
     |unfold zero_subs; rewrite Hs; apply width_filter, width_allsubs].
  cbn [bind]. rewrite (intersect_rows_idx _ HN) by auto. cbn [bind].
  set (C := filter (fun i => mem i (ssubs A)) (ssubs B)).
  assert (HCA : forall i, In i C -> In i (ssubs A)) by (intros i Hi; apply filter_In in Hi as [_ Hi]; now apply mem_spec).
  assert (HCB : forall i, In i C -> In i (ssubs B)) by (intros i Hi; now apply filter_In in Hi as [Hi _]).
  assert (ET : np_take [] (ssubs A) (map (fun i => Z.of_nat (pos i (ssubs A))) C) = C).
  { rewrite take_pos. rewrite <- (map_id C) at 2. apply map_ext_in. intros i Hi. now apply pos_spec, HCA. }
  rewrite ET.
  destruct (ismember_rows_idx _ HN C (ssubs B)) as (m & E); auto; [unfold C; now apply width_filter|].
  rewrite E. cbn [bind snd]. f_equal. f_equal. f_equal. unfold rows_inter. fold C.
  rewrite !take_pos.
  rewrite (map_ext_in _ (fun i => den A i)) by (intros i Hi; apply nth_pos_vals; [repeat split; auto|auto]).
  rewrite (map_ext_in (fun i => nth (pos i (ssubs B)) (svals B) v0) (fun i => den B i))
    by (intros i Hi; apply nth_pos_vals; [repeat split; auto|auto]).
  rewrite zipw_map. apply np_mask_filter.
Qed.

Theorem impl_eq_gen_correct (A B : sparse V) : wf A -> wf B -> sshape B = sshape A -> sshape A <> [] ->
  exists R, impl_eq_gen v0 one veqb A B = Ok R /\ wf R /\ sshape R = sshape A /\
            forall i, inb (sshape A) i = true -> den R i = bv (veqb (den A i) (den B i)).
Proof.
  intros WA WB Hs Hne. pose proof (wf_sp_struct isz A WA) as WsA. pose proof (wf_sp_struct isz B WB) as WsB.
  eexists. split; [now apply impl_eq_gen_eq|].
  set (g1 := rows_inter (zero_subs B) (zero_subs A)).
  set (g2 := filter (fun i => veqb (den A i) (den B i)) (rows_inter (ssubs B) (ssubs A))).
  assert (H1 : forall i, In i g1 <-> inb (sshape A) i = true /\ ~ In i (ssubs A) /\ ~ In i (ssubs B)).
  { intros i. unfold g1, rows_inter. rewrite filter_In, mem_spec, !in_zero_subs, Hs. tauto. }
  assert (H2 : forall i, In i g2 <-> (In i (ssubs A) /\ In i (ssubs B)) /\ veqb (den A i) (den B i) = true).
  { intros i. unfold g2, rows_inter. rewrite !filter_In, mem_spec. tauto. }
  destruct (sp_const_char v0 isz isz_spec one one_nz (sshape A) (g1 ++ g2) (fun i => veqb (den A i) (den B i))) as (W & D).
  - apply NoDup_app_intro.
    + apply NoDup_filter, NoDup_zero_subs.
    + apply NoDup_filter, NoDup_filter. now destruct WsB as (_ & ? & _).
    + intros i Hi1 Hi2. apply H1 in Hi1. apply H2 in Hi2. tauto.
  - intros i Hi. apply in_app_iff in Hi as [Hi|Hi]; [apply H1 in Hi; tauto|apply H2 in Hi; apply wf_inb; tauto].
  - intros i Hi. rewrite in_app_iff, H1, H2.
    destruct (in_dec idx_dec i (ssubs A)) as [HA|HA], (in_dec idx_dec i (ssubs B)) as [HB|HB].
    + tauto.
    + rewrite (den_sp_notin v0 B i HB). split; [tauto|]. intros E. apply veqb_spec in E.
      apply (in_subs_iff v0 isz isz_spec A i WA) in HA. contradiction.
    + rewrite (den_sp_notin v0 A i HA). split; [tauto|]. intros E. apply veqb_spec in E.
      apply (in_subs_iff v0 isz isz_spec B i WB) in HB. symmetry in E. contradiction.
    + rewrite (den_sp_notin v0 A i HA), (den_sp_notin v0 B i HB). split; [|tauto]. intros _. now apply veqb_spec.
  - split; [exact W|]. split; [reflexivity|exact D].
Qed.

(* __ne__ with a scalar *)
Theorem impl_ne_scalar_gen_correct (A : sparse V) (c : V) : wf A -> sshape A <> [] ->
  exists R, impl_ne_scalar_gen one veqb isz A c = Ok R /\ wf R /\ sshape R = sshape A /\
            forall i, inb (sshape A) i = true -> den R i = bv (negb (veqb (den A i) c)).
Proof.
  intros WA Hne. pose proof (wf_sp_struct isz A WA) as Ws. unfold impl_ne_scalar_gen. destruct (isz c) eqn:Hc.
  - apply isz_spec in Hc. subst c. eexists. split; [reflexivity|].
    destruct (impl_ones_correct v0 isz isz_spec one A one_nz WA) as (W & S & D). split; [exact W|]. split; [exact S|].
    intros i _. unfold impl_ones in D. rewrite D. f_equal. f_equal.
    destruct (isz (den A i)) eqn:Hz.
    + apply isz_spec in Hz. symmetry. now apply veqb_spec.
    + apply (isz_false v0 isz isz_spec) in Hz. destruct (veqb (den A i) v0) eqn:E; auto. apply veqb_spec in E. contradiction.
  - rewrite gen_zero_subs by auto. cbn [bind]. eexists. split; [reflexivity|].
    assert (Hcz : c <> v0) by (now apply (isz_false v0 isz isz_spec)).
    set (subs1 := map fst (filter (fun e => negb (veqb (snd e) c)) (entries A))).
    assert (H1 : forall i, In i subs1 <-> In i (ssubs A) /\ negb (veqb (den A i) c) = true).
    { intros i. unfold subs1. now rewrite (in_fst_filter_entries v0). }
    destruct (sp_const_char v0 isz isz_spec one one_nz (sshape A) (subs1 ++ zero_subs A) (fun i => negb (veqb (den A i) c))) as (W & D).
    + apply NoDup_app_intro.
      * unfold subs1. apply NoDup_map_fst_filter. now apply NoDup_fst_entries.
      * apply NoDup_zero_subs.
      * intros i Hi1 Hi2. apply H1 in Hi1. apply in_zero_subs in Hi2. tauto.
    + intros i Hi. apply in_app_iff in Hi as [Hi|Hi]; [apply H1 in Hi; now apply wf_inb|apply in_zero_subs in Hi; tauto].
    + intros i Hi. rewrite in_app_iff, H1, in_zero_subs.
      destruct (in_dec idx_dec i (ssubs A)) as [Hin|Hout]; [tauto|].
      rewrite (den_sp_notin v0 A i Hout). split; [|tauto]. intros _.
      destruct (veqb v0 c) eqn:E; auto. apply veqb_spec in E. now subst c.
    + split; [exact W|]. split; [reflexivity|exact D].
Qed.
End Eq.
End Layer2.
