(* Alg/C13Driver.v — the driver pyttb.gcp_opt.gcp_opt as a decision procedure (wave 5, builder w5-C13).

   Hand transliteration, statement by statement, of gcp_opt's argument handling and dispatch (source anchor: pyttb/gcp_opt.py::gcp_opt,
   _get_initial_guess; pyttb/gcp/fg_setup.py::setup for the table of lower bounds).  A drequest is abstracted to what the isinstance /
   len / shape tests of the driver look at; `setup`'s data-validity test and the ktensor constructor on a user list are oracles
   (booleans of the drequest).  The doutcome says which exception class of the driver fires first, or which solver is called with what:
   the lower bound, whether the data was multiplied by the mask, what is passed in the mask / sampler slot, and which initial guess.
   What C13 needs of it: a stochastic solver is never handed a mask and always the caller's sampler; L-BFGS-B only ever sees dense
   data and an ARRAY mask; the bound handed to either solver is the loss's lower bound (table of setup / third entry of a user
   tuple); the initial guess handed to the solver is the one returned to the caller. *)
From Coq Require Import List Arith Bool.
Import ListNotations.

Inductive objective := Gaussian | BernoulliOdds | BernoulliLogit | Poisson | PoissonLog | Rayleigh | Gamma | Huber | NegBinomial | Beta.
Inductive lbound := NegInf | Zero | UserLb.          (* -inf, 0, the third entry of a user-provided tuple *)
(* fg_setup.setup(objective, data) as called by gcp_opt (additional_parameter is never passed): the lower bound, or None when setup
   raises for want of the additional parameter (HUBER, NEGATIVE_BINOMIAL, BETA cannot be selected through the enum) *)
Definition setup_lb (o : objective) : option lbound :=
  match o with
  | Gaussian => Some NegInf | BernoulliOdds => Some Zero | BernoulliLogit => Some NegInf | Poisson => Some Zero
  | PoissonLog => Some NegInf | Rayleigh => Some Zero | Gamma => Some Zero
  | Huber | NegBinomial | Beta => None
  end.

Inductive objreq := OEnum (o : objective) | OTuple (len : nat).
Inductive dkind := DDense | DSparse | DOther.                       (* ttb.tensor / ttb.sptensor / anything else *)
Inductive mkind := MNone | MTensor | MArray.                        (* mask: None / ttb.tensor / np.ndarray *)
Inductive solver_kind := SStochastic | SLbfgsb | SOther.                  (* isinstance(optimizer, StochasticSolver / LBFGSB / neither) *)
Inductive ireq :=
  | IRandom                                         (* the string "random" *)
  | IKtensor (shape_ok rank_ok : bool)              (* a ktensor; init.shape == data.shape, init.ncomponents == rank *)
  | IList (ctor_ok shape_ok rank_ok : bool)         (* a non-string Sequence; does ttb.ktensor(init) return (oracle) *)
  | IOther.                                         (* another string / object *)
Record drequest := mkReq { r_obj : objreq; r_valid : bool;         (* r_valid: setup's validity test of the data passes (oracle) *)
                          r_data : dkind; r_mask : mkind; r_init : ireq; r_opt : solver_kind }.

Inductive derr := EObjectiveTuple | ESetup | EDataType | ESparseMask | EInitCtor | EInitShape | EInitUnexpected
               | EOptimizer | ESparseLbfgsb | EStochasticMask.
Inductive iguess := GRandom | GCallerKtensor | GFromList.          (* scaled random guess / the caller's own ktensor, normalised in
                                                                     place / a new ktensor built from the caller's list, normalised *)
Inductive marg := MaNone | MaTensorData | MaArray.                 (* mask slot of LBFGSB.solve: None / mask.data / the caller's array *)
Inductive dcall :=
  | CStochastic (lb : lbound) (data_masked : bool) (sampler_forwarded : bool)
  | CLbfgsb (lb : lbound) (data_masked : bool) (mask : marg).
Inductive doutcome := Raise (e : derr) | Call (c : dcall) (g : iguess).

(* _get_initial_guess *)
Definition initial_guess (i : ireq) : derr + iguess :=
  match i with
  | IList false _ _ => inl EInitCtor                                  (* init = ttb.ktensor(init) raises *)
  | IList true s k => if s && k then inr GFromList else inl EInitShape
  | IKtensor s k => if s && k then inr GCallerKtensor else inl EInitShape     (* init.normalize("all"); return init *)
  | IRandom => inr GRandom
  | IOther => inl EInitUnexpected
  end.

Definition is_none (m : mkind) : bool := match m with MNone => true | _ => false end.

Definition gcp_opt (r : drequest) : doutcome :=
  (* if not isinstance(objective, Objectives): if len(objective) != 3: raise *)
  match (match r_obj r with
         | OTuple len => if Nat.eqb len 3 then inr UserLb else inl EObjectiveTuple
         (* function_handle, gradient_handle, lower_bound = setup(objective, data) *)
         | OEnum o => match setup_lb o with Some lb => if r_valid r then inr lb else inl ESetup | None => inl ESetup end
         end) with
  | inl e => Raise e
  | inr lb =>
    (* if not isinstance(data, (ttb.tensor, ttb.sptensor)): raise *)
    match r_data r with
    | DOther => Raise EDataType
    | d =>
      (* dense data and tensor mask: data *= mask ; sparse data and any mask: raise ; else nothing *)
      let masked := match d, r_mask r with DDense, MTensor => true | _, _ => false end in
      if (match d with DSparse => negb (is_none (r_mask r)) | _ => false end) then Raise ESparseMask else
      (* M0 = _get_initial_guess(data, rank, init) *)
      match initial_guess (r_init r) with
      | inl e => Raise e
      | inr g =>
        (* if not isinstance(optimizer, (StochasticSolver, LBFGSB)): raise *)
        match r_opt r with
        | SOther => Raise EOptimizer
        | SLbfgsb =>
          (* if isinstance(data, ttb.sptensor) and isinstance(optimizer, LBFGSB): raise *)
          match d with
          | DSparse => Raise ESparseLbfgsb
          | _ => Call (CLbfgsb lb masked (match r_mask r with MNone => MaNone | MTensor => MaTensorData | MArray => MaArray end)) g
          end
        | SStochastic =>
          (* if isinstance(optimizer, StochasticSolver) and mask is not None: raise *)
          if negb (is_none (r_mask r)) then Raise EStochasticMask
          else Call (CStochastic lb masked true) g
        end
      end
    end
  end.

(* ---- what the drequest must satisfy to reach a solver ---- *)
Definition objective_ok (r : drequest) : option lbound :=
  match r_obj r with
  | OTuple len => if Nat.eqb len 3 then Some UserLb else None
  | OEnum o => if r_valid r then setup_lb o else None
  end.
Definition init_ok (i : ireq) : option iguess := match initial_guess i with inr g => Some g | inl _ => None end.
Definition admissible (r : drequest) : bool :=
  match objective_ok r, init_ok (r_init r) with
  | Some _, Some _ =>
    match r_data r, r_opt r with
    | DDense, SLbfgsb => true                                   (* any mask *)
    | DDense, SStochastic | DSparse, SStochastic => is_none (r_mask r)
    | _, _ => false
    end
  | _, _ => false
  end.

(* the driver reaches a solver exactly on the admissible requests ... *)
Theorem driver_accepts_iff : forall r, (exists c g, gcp_opt r = Call c g) <-> admissible r = true.
Proof.
  intros [[o|len] v d m i s]; unfold gcp_opt, admissible, objective_ok, init_ok; cbn [r_obj r_valid r_data r_mask r_init r_opt].
  - destruct (setup_lb o) as [lb|], v, d, m, (initial_guess i) as [e|g], s; cbn;
      split; intros H; try discriminate H; try (destruct H as (c & g' & H); discriminate H); eauto.
  - destruct (Nat.eqb len 3), d, m, (initial_guess i) as [e|g], s; cbn;
      split; intros H; try discriminate H; try (destruct H as (c & g' & H); discriminate H); eauto.
Qed.

(* ... and what it hands over is determined as follows *)
Theorem driver_call_sound : forall r c g, gcp_opt r = Call c g ->
  init_ok (r_init r) = Some g /\
  match c with
  | CStochastic lb masked fwd =>
      (* a stochastic solver: never a mask, the data as given, the caller's sampler, the loss's bound *)
      r_opt r = SStochastic /\ r_mask r = MNone /\ masked = false /\ fwd = true /\ objective_ok r = Some lb /\ r_data r <> DOther
  | CLbfgsb lb masked ma =>
      (* L-BFGS-B: dense data only; a tensor mask is applied to the data and handed on as its ARRAY, an array mask is handed on as it is *)
      r_opt r = SLbfgsb /\ r_data r = DDense /\ objective_ok r = Some lb /\
      match r_mask r with
      | MNone => masked = false /\ ma = MaNone
      | MTensor => masked = true /\ ma = MaTensorData
      | MArray => masked = false /\ ma = MaArray
      end
  end.
Proof.
  intros [[o|len] v d m i s] c g; unfold gcp_opt, objective_ok, init_ok; cbn [r_obj r_valid r_data r_mask r_init r_opt].
  - destruct (setup_lb o) as [lb|], v, d, m, (initial_guess i) as [e|g0], s; cbn; intros H; try discriminate H;
      injection H as <- <-; repeat split; discriminate.
  - destruct (Nat.eqb len 3), d, m, (initial_guess i) as [e|g0], s; cbn; intros H; try discriminate H;
      injection H as <- <-; repeat split; discriminate.
Qed.

(* the three rejections the property's solver clauses rest on, each with the checks that precede it in the source *)
Theorem driver_rejections : forall r,
  (gcp_opt r = Raise ESparseLbfgsb <->
     objective_ok r <> None /\ r_data r = DSparse /\ r_mask r = MNone /\ init_ok (r_init r) <> None /\ r_opt r = SLbfgsb) /\
  (gcp_opt r = Raise EStochasticMask <->
     objective_ok r <> None /\ r_data r = DDense /\ r_mask r <> MNone /\ init_ok (r_init r) <> None /\ r_opt r = SStochastic) /\
  (gcp_opt r = Raise ESparseMask <-> objective_ok r <> None /\ r_data r = DSparse /\ r_mask r <> MNone).
Proof.
  intros [[o|len] v d m i s]; unfold gcp_opt, objective_ok, init_ok; cbn [r_obj r_valid r_data r_mask r_init r_opt].
  - destruct (setup_lb o) as [lb|], v, d, m, (initial_guess i) as [e|g0] eqn:Ei, s; cbn;
      (split; [|split]); (split; intros H0);
      try discriminate H0; try reflexivity;
      try (destruct H0 as (H1 & H2 & H3 & H4 & H5); congruence); try (destruct H0 as (H1 & H2 & H3); congruence);
      try (repeat split; congruence);
      try (exfalso; destruct i as [|[] []|[] [] []|]; cbn in Ei; congruence).
  - destruct (Nat.eqb len 3), d, m, (initial_guess i) as [e|g0] eqn:Ei, s; cbn;
      (split; [|split]); (split; intros H0);
      try discriminate H0; try reflexivity;
      try (destruct H0 as (H1 & H2 & H3 & H4 & H5); congruence); try (destruct H0 as (H1 & H2 & H3); congruence);
      try (repeat split; congruence);
      try (exfalso; destruct i as [|[] []|[] [] []|]; cbn in Ei; congruence).
Qed.

(* the bound handed to the solver for a predefined objective is setup's table: 0 for the losses defined on non-negative model
   values only, -inf otherwise *)
Theorem driver_bound_table : forall o v d m i s c g, gcp_opt (mkReq (OEnum o) v d m i s) = Call c g ->
  setup_lb o = Some (match c with CStochastic lb _ _ => lb | CLbfgsb lb _ _ => lb end) /\
  (match c with CStochastic lb _ _ => lb | CLbfgsb lb _ _ => lb end) <> UserLb.
Proof.
  intros o v d m i s c g H. destruct (driver_call_sound _ _ _ H) as (_ & Hc).
  assert (Hlb : objective_ok (mkReq (OEnum o) v d m i s) = Some (match c with CStochastic lb _ _ => lb | CLbfgsb lb _ _ => lb end)).
  { destruct c; [destruct Hc as (_ & _ & _ & _ & Hc & _)|destruct Hc as (_ & _ & Hc & _)]; exact Hc. }
  unfold objective_ok in Hlb. cbn in Hlb. destruct v; [|discriminate Hlb]. split; [exact Hlb|].
  destruct o; cbn in Hlb; try discriminate Hlb; injection Hlb as <-; discriminate.
Qed.

(* ---- decidable equality for the check ---- *)
Definition lbound_eqb (a b : lbound) : bool := match a, b with NegInf, NegInf | Zero, Zero | UserLb, UserLb => true | _, _ => false end.
Definition marg_eqb (a b : marg) : bool := match a, b with MaNone, MaNone | MaTensorData, MaTensorData | MaArray, MaArray => true | _, _ => false end.
Definition iguess_eqb (a b : iguess) : bool :=
  match a, b with GRandom, GRandom | GCallerKtensor, GCallerKtensor | GFromList, GFromList => true | _, _ => false end.
Definition err_eqb (a b : derr) : bool :=
  match a, b with
  | EObjectiveTuple, EObjectiveTuple | ESetup, ESetup | EDataType, EDataType | ESparseMask, ESparseMask | EInitCtor, EInitCtor
  | EInitShape, EInitShape | EInitUnexpected, EInitUnexpected | EOptimizer, EOptimizer | ESparseLbfgsb, ESparseLbfgsb
  | EStochasticMask, EStochasticMask => true
  | _, _ => false
  end.
Definition outcome_eqb (a b : doutcome) : bool :=
  match a, b with
  | Raise x, Raise y => err_eqb x y
  | Call (CStochastic l1 m1 f1) g1, Call (CStochastic l2 m2 f2) g2 => lbound_eqb l1 l2 && Bool.eqb m1 m2 && Bool.eqb f1 f2 && iguess_eqb g1 g2
  | Call (CLbfgsb l1 m1 a1) g1, Call (CLbfgsb l2 m2 a2) g2 => lbound_eqb l1 l2 && Bool.eqb m1 m2 && marg_eqb a1 a2 && iguess_eqb g1 g2
  | _, _ => false
  end.
Definition driver_ok (r : drequest) (observed : doutcome) : bool := outcome_eqb (gcp_opt r) observed.

(* non-vacuity *)
Example driver_example_1 :
  gcp_opt (mkReq (OEnum Poisson) true DDense MTensor (IKtensor true true) SLbfgsb) = Call (CLbfgsb Zero true MaTensorData) GCallerKtensor.
Proof. reflexivity. Qed.
Example driver_example_2 :
  gcp_opt (mkReq (OTuple 3) false DSparse MNone IRandom SStochastic) = Call (CStochastic UserLb false true) GRandom.
Proof. reflexivity. Qed.
Example driver_example_3 : gcp_opt (mkReq (OEnum Gaussian) true DDense MArray (IList true true false) SStochastic) = Raise EInitShape.
Proof. reflexivity. Qed.
Example driver_example_4 : gcp_opt (mkReq (OEnum Huber) true DDense MNone IRandom SLbfgsb) = Raise ESetup.
Proof. reflexivity. Qed.
