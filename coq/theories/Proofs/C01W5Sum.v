(* Proofs/C01W5Sum.v — fifth wave: a sumtensor reached by ANY history of `+ part`, `+ [parts]`, unary minus, copy (Model/C01W5Sum.v),
   started from admissible parts of one shape, is accepted at every step, keeps admissible parts, and its full() as executed
   denotes the value the history prescribes: the initial sum, plus what was added, negated where the history negates. *)
From Coq Require Import List Arith Lia Bool Ring.
From PV Require Import Base.Index Base.Perm Base.Sum Np.Array Model.Sparse Model.Repr Model.C07Ops Model.C01Conv
  Model.C01Unique Model.C01Coo Model.C02Spec Model.C02Dense Model.C01Ttm Model.C01W3 Model.C01W4 Model.C01W5Sum
  Proofs.C01Proofs Proofs.C01Kruskal Proofs.C01Tucker Proofs.C01Unique Proofs.C01Converse Proofs.C01Ttm Proofs.C01W3 Proofs.C01W4.
Import ListNotations.

Section W5SumProofs.
Variable V : Type.
Variables (v0 v1 : V) (vadd vmul vsub : V -> V -> V) (vopp : V -> V) (isz : V -> bool).
Hypothesis Vring : ring_theory v0 v1 vadd vmul vsub vopp (@eq V).
Hypothesis isz_spec : forall v, isz v = true <-> v = v0.
Add Ring Vr01w5s : Vring.

Notation pok := (part4_ok V isz).
Notation pden := (part4_den v0 v1 vadd vmul).
Notation negp := (neg_part vopp).
Notation dsum := (den_sum v0 vadd).

Lemma opp0 : vopp v0 = v0.
Proof. ring. Qed.

Lemma sumv_opp (l : list V) : sumv v0 vadd (map vopp l) = vopp (sumv v0 vadd l).
Proof. induction l as [|x l IH]; cbn [map sumv]; [ring|]. rewrite IH. ring. Qed.

Lemma sum_over_opp {A} (l : list A) (f : A -> V) : sum_over v0 vadd l (fun a => vopp (f a)) = vopp (sum_over v0 vadd l f).
Proof. unfold sum_over. rewrite <- sumv_opp, map_map. reflexivity. Qed.

Lemma nth_map_opp (l : list V) k : nth k (map vopp l) v0 = vopp (nth k l v0).
Proof. rewrite <- opp0 at 1. apply map_nth. Qed.

(* ------------------------------------------------------------------ negation, class by class *)
Lemma den_neg_dense (T : dense V) j : den_dense v0 (neg_dense vopp T) j = vopp (den_dense v0 T j).
Proof.
  unfold den_dense, neg_dense. cbn [dshape ddata]. destruct (inb (dshape T) j); [apply nth_map_opp|now rewrite opp0].
Qed.

Lemma wf_neg_dense (T : dense V) : wf_dense T -> wf_dense (neg_dense vopp T).
Proof. unfold wf_dense, neg_dense. cbn [dshape ddata]. now rewrite map_length. Qed.

Lemma last_match_opp i (subs : list idx) : forall (vals : list V) d,
  last_match i (combine subs (map vopp vals)) (vopp d) = vopp (last_match i (combine subs vals) d).
Proof.
  induction subs as [|j subs IH]; intros [|v vals] d; cbn [map combine last_match]; auto.
  destruct (idx_eqb i j); apply IH.
Qed.

Lemma den_neg_sparse (G : sparse V) j : den_sp v0 (neg_sparse vopp G) j = vopp (den_sp v0 G j).
Proof.
  unfold den_sp, entries, neg_sparse. cbn [ssubs svals]. rewrite <- last_match_opp. now rewrite opp0.
Qed.

Lemma opp_nz v : isz v = false -> isz (vopp v) = false.
Proof.
  intros H. destruct (isz (vopp v)) eqn:E; [|reflexivity]. apply isz_spec in E.
  assert (Hv : v = v0) by (replace v with (vopp (vopp v)) by ring; rewrite E; ring).
  apply isz_spec in Hv. congruence.
Qed.

Lemma wf_neg_sparse (G : sparse V) : wf_sp isz G -> wf_sp isz (neg_sparse vopp G).
Proof.
  intros (HL & Hn & Hb & Hz). unfold wf_sp, neg_sparse. cbn [sshape ssubs svals]. rewrite map_length.
  repeat split; auto. rewrite Forall_forall in *. intros v Hv. apply in_map_iff in Hv as (w & <- & Hw). apply opp_nz. auto.
Qed.

Lemma full_neg_sparse (G : sparse V) : Forall (fun j => inb (sshape G) j = true) (ssubs G) ->
  full v0 (neg_sparse vopp G) = neg_dense vopp (full v0 G).
Proof.
  intros Hb. apply (dense_ext v0); [apply wf_full|apply wf_neg_dense, wf_full|reflexivity|].
  intros j _. rewrite den_neg_dense. rewrite !den_full by exact Hb. apply den_neg_sparse.
Qed.

Lemma den_t_neg (T : ttensor V) i :
  den_t v0 v1 vadd vmul (mkT (neg_dense vopp (tcore T)) (tfactors T)) i = vopp (den_t v0 v1 vadd vmul T i).
Proof.
  unfold den_t, tshape. cbn [tcore tfactors]. change (dshape (neg_dense vopp (tcore T))) with (dshape (tcore T)).
  destruct (inb (map (nrows (V:=V)) (tfactors T)) i); [|now rewrite opp0].
  rewrite <- sum_over_opp. apply (sum_over_ext V v0 vadd). intros j _. rewrite den_neg_dense. ring.
Qed.

Lemma neg_part_den (p : part4 V) s i : pok s p -> pden (negp p) i = vopp (pden p i).
Proof.
  destruct p as [T|Sp|K|T|G Us]; unfold part4_den; cbn [neg_part part4_spec part_den part4_ok].
  - intros _. apply den_neg_dense.
  - intros _. apply den_neg_sparse.
  - intros _. unfold den_k, krank, kshape. cbn [kweights kfactors]. rewrite map_length.
    destruct (inb (map (nrows (V:=V)) (kfactors K)) i); [|now rewrite opp0].
    unfold sum_n. rewrite <- sum_over_opp. apply (sum_over_ext V v0 vadd). intros r _. rewrite nth_map_opp. ring.
  - intros _. apply den_t_neg.
  - intros (WG & _). destruct WG as (_ & _ & Hb & _). rewrite full_neg_sparse by exact Hb.
    exact (den_t_neg (mkT (full v0 G) Us) i).
Qed.

Lemma neg_part_ok (p : part4 V) s : pok s p -> pok s (negp p).
Proof.
  destruct p as [T|Sp|K|T|G Us]; cbn [neg_part part4_ok].
  - intros [W Hs]. split; [now apply wf_neg_dense|exact Hs].
  - intros [Hb Hs]. split; [exact Hb|exact Hs].
  - intros (Hok & HN & Hs). unfold krank, kshape in *. cbn [kweights kfactors]. rewrite map_length. auto.
  - intros (W & HN & Hs). cbn [tcore tfactors]. split; [now apply wf_neg_dense|]. split; [exact HN|exact Hs].
  - intros (W & HN & Hne & Hs). split; [now apply wf_neg_sparse|]. auto.
Qed.

Lemma part4_ok_shape (p : part4 V) s : pok s p -> part4_shape p = s.
Proof.
  destruct p as [T|Sp|K|T|G Us]; cbn [part4_ok part4_shape]; intros H; decompose [and] H; assumption.
Qed.

(* ------------------------------------------------------------------ the constructor accepts lists of parts of one shape *)
Lemma sum_ctor_ok s (ps : list (part4 V)) : Forall (pok s) ps -> sum_ctor ps = Some ps.
Proof.
  intros H. destruct ps as [|p rest]; [reflexivity|]. inversion H as [|? ? Hp Hr]; subst. cbn [sum_ctor].
  replace (forallb (fun q => shape_eqb (part4_shape p) (part4_shape q)) rest) with true; [reflexivity|].
  symmetry. apply forallb_forall. intros q Hq. rewrite Forall_forall in Hr.
  rewrite (part4_ok_shape p s Hp), (part4_ok_shape q s (Hr q Hq)). apply shape_eqb_refl.
Qed.

(* a part of another shape is refused by the constructor behind `+` *)
Lemma sum_ctor_mismatch (p q : part4 V) (rest : list (part4 V)) : In q rest -> part4_shape p <> part4_shape q ->
  sum_ctor (p :: rest) = None.
Proof.
  intros Hin Hne. cbn [sum_ctor].
  destruct (forallb (fun q0 => shape_eqb (part4_shape p) (part4_shape q0)) rest) eqn:E; [|reflexivity].
  rewrite forallb_forall in E. specialize (E q Hin). apply shape_eqb_eq in E. contradiction.
Qed.

Lemma dsum_app (l1 l2 : list (idx -> V)) i : dsum (l1 ++ l2) i = vadd (dsum l1 i) (dsum l2 i).
Proof. unfold den_sum. apply (sum_over_app V v0 v1 vadd vmul vsub vopp Vring). Qed.

Lemma dsum_neg s (ps : list (part4 V)) i : Forall (pok s) ps ->
  dsum (map pden (map negp ps)) i = vopp (dsum (map pden ps) i).
Proof.
  intros H. unfold den_sum, sum_over. rewrite !map_map. rewrite <- sumv_opp, map_map.
  f_equal. apply map_ext_in. intros p Hp. rewrite Forall_forall in H. exact (neg_part_den p s i (H p Hp)).
Qed.

Definition sop_ok (s : shape) (o : sop V) : Prop :=
  match o with OAdd p => pok s p | OAddList ps => Forall (pok s) ps | ONeg => True | OCopy => True end.

Lemma sop_step_ok s (st : list (part4 V)) (o : sop V) : Forall (pok s) st -> sop_ok s o ->
  exists st', sop_step vopp st o = Some st' /\ Forall (pok s) st' /\
    forall i, dsum (map pden st') i = hist_val v0 v1 vadd vmul vopp (dsum (map pden st) i) [o] i.
Proof.
  intros Hst Ho. destruct o as [p|ps| |]; cbn [sop_step sop_ok hist_val] in *.
  - assert (H : Forall (pok s) (st ++ [p])) by (apply Forall_app; split; [exact Hst|now constructor]).
    exists (st ++ [p]). split; [now apply (sum_ctor_ok s)|]. split; [exact H|].
    intros i. rewrite map_app, dsum_app. cbn [map]. unfold den_sum at 2. unfold sum_over. cbn [map sumv]. ring.
  - assert (H : Forall (pok s) (st ++ ps)) by (apply Forall_app; split; assumption).
    exists (st ++ ps). split; [now apply (sum_ctor_ok s)|]. split; [exact H|].
    intros i. now rewrite map_app, dsum_app.
  - assert (H : Forall (pok s) (map negp st)).
    { rewrite Forall_forall in *. intros q Hq. apply in_map_iff in Hq as (p & <- & Hp). apply neg_part_ok. auto. }
    exists (map negp st). split; [now apply (sum_ctor_ok s)|]. split; [exact H|].
    intros i. now apply (dsum_neg s).
  - exists st. split; [now apply (sum_ctor_ok s)|]. split; [exact Hst|reflexivity].
Qed.

Theorem run_history_correct s (ops : list (sop V)) : forall parts : list (part4 V),
  Forall (pok s) parts -> Forall (sop_ok s) ops ->
  exists st, run_history vopp parts ops = Some st /\ Forall (pok s) st /\
    forall i, dsum (map pden st) i = hist_val v0 v1 vadd vmul vopp (dsum (map pden parts) i) ops i.
Proof.
  induction ops as [|o ops IH]; intros parts Hp Ho.
  - exists parts. cbn. auto.
  - inversion Ho as [|? ? Ho1 Ho2]; subst.
    destruct (sop_step_ok s parts o Hp Ho1) as (st1 & E1 & H1 & D1).
    destruct (IH st1 H1 Ho2) as (st & E & H & D).
    exists st. cbn [run_history]. rewrite E1. split; [exact E|]. split; [exact H|].
    intros i. rewrite D, D1. reflexivity.
Qed.

(* sumtensor(parts) ... history ... .full(): accepted, and the dense result holds the value the history prescribes *)
Theorem sum_history_correct s (parts : list (part4 V)) (ops : list (sop V)) :
  Forall (pok s) parts -> Forall (sop_ok s) ops ->
  exists st, sum_ctor parts = Some parts /\ run_history vopp parts ops = Some st /\ Forall (pok s) st /\
    (st <> [] ->
     exists R, sum_history_full v0 vadd vmul vopp isz parts ops = Some R /\ wf_dense R /\ dshape R = s /\
       forall i, inb s i = true ->
         den_dense v0 R i = hist_val v0 v1 vadd vmul vopp (dsum (map pden parts) i) ops i).
Proof.
  intros Hp Ho. destruct (run_history_correct s ops parts Hp Ho) as (st & E & H & D).
  exists st. split; [now apply (sum_ctor_ok s)|]. split; [exact E|]. split; [exact H|].
  intros Hne. unfold sum_history_full. rewrite (sum_ctor_ok s parts Hp), E.
  destruct (sum_full_code_correct V v0 v1 vadd vmul vsub vopp isz Vring isz_spec s st Hne H) as (_ & _ & _ & R & ER & W & Hs & Hd).
  exists R. split; [exact ER|]. split; [exact W|]. split; [exact Hs|].
  intros i Hi. rewrite (Hd i Hi). rewrite <- D. unfold part4_den. now rewrite map_map.
Qed.

End W5SumProofs.
